#!/bin/bash
# usage: evalseed.sh <ID-tag> <check ids...>
# Applies /tmp/seedout/<ID-tag>/patch.diff to a scratch worktree, builds it, and runs the given checks against it.
set -u
seed=$1; shift
src=/verif/seeded/$seed; [ -f $src/patch.diff ] || src=/tmp/seedout/$seed
wt=/tmp/wt-evalseed-$seed
git -C /repo worktree remove --force $wt >/dev/null 2>&1
git -C /repo worktree add -q $wt HEAD || exit 2
if ! git -C $wt apply $src/patch.diff; then echo "PATCH DOES NOT APPLY"; git -C /repo worktree remove --force $wt; exit 2; fi
( cd $wt && GOFLAGS=-mod=mod GOPROXY=off go build ./private/... ./cmd/... ) || { echo "DOES NOT BUILD"; git -C /repo worktree remove --force $wt; exit 2; }
for c in "$@"; do
  echo "--- $c against seeded $seed"
  ( cd /verif && VERIF_REPO_DIR=$wt ./check $c 2>&1 | grep -E "^(VIOLATION|OK|INCONCLUSIVE)|key=" | cut -c1-400 | head -6 )
done
if [ "${KEEP:-}" = "" ]; then git -C /repo worktree remove --force $wt; git -C /repo worktree prune; fi
