#!/usr/bin/env python3
"""Regenerates MANIFEST.json from props.json (single source of truth for per-property settings)."""
import json, os
V = os.path.dirname(os.path.abspath(__file__))
import glob
props = {}
for f in sorted(glob.glob(os.path.join(V, "harness", "c[0-9][0-9]", "props.json"))):
    props[os.path.basename(os.path.dirname(f)).upper()] = json.load(open(f))
allids = [json.loads(l)["id"] for l in open(os.path.join(V, "properties.jsonl"))]
hooks = json.load(open(os.path.join(V, "hooks.json")))
# only checks I have accepted (run on several seeds, sensitivity-tested) are claimed
claimed = set(open(os.path.join(V, "claimed.txt")).read().split())
props = {k: v for k, v in props.items() if k in claimed}
checks = []
for pid in allids:
    if pid not in props or props[pid].get("unclaimed"):
        continue
    p = props[pid]
    checks.append({
        "property_id": pid,
        "quick_cmd": "./check %s --tier quick" % pid,
        "thorough_cmd": "./check %s --tier thorough" % pid,
        "evidence_file": "/verif/evidence/%s.json" % pid,
        "replay_cmd_template": "./check %s --replay {path}" % pid,
        "engine": "rapid-harness",
        "level_claimed": {"category": p["level"], "text": p["level_text"], "design_ref": p.get("design_ref", "DESIGN.md §4 " + pid)},
        "level_note": p["level_note"],
        "technique": p["technique"],
    })
na = []
for pid in allids:
    if pid not in props or props[pid].get("unclaimed"):
        reason = (props.get(pid) or {}).get("unclaimed") or "check not built yet in this session (design in DESIGN.md §4); property-based testing applies and the check is planned"
        na.append({"property_id": pid, "reason": reason})
m = {
    "version": 1,
    "setup_cmd": "./setup.sh",
    "hooks": hooks,
    "engines": [{
        "name": "rapid-harness", "path": "/verif/harness",
        "serves_properties": [c["property_id"] for c in checks],
        "kind_free_text": "Go module github.com/bufbuild/bufverif (replace buf => /repo): one test package per property driven by pgregory.net/rapid v1.3.0 generators (stateful t.Repeat for histories), bounded exhaustive enumerations, fault/crash-injecting storage wrappers, native go fuzz targets in thorough tiers; /verif/check shards, merges evidence and maps exit codes",
    }],
    "checks": checks,
    "notes": "Every check: exit 0 = held on everything explored, exit 1 + VIOLATION line = falsified oracle not listed in KNOWN_FINDINGS.json, exit 2 = inconclusive (build failure/timeout/worker death). VERIF_SEED selects the PRNG stream; quick and thorough are bounded by case counts.",
    "not_applicable": na,
}
json.dump(m, open(os.path.join(V, "MANIFEST.json"), "w"), indent=1)
print("claimed:", [c["property_id"] for c in checks])
