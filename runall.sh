#!/bin/bash
# Runs every claimed check (quick by default) on /repo as it is and rewrites the evidence files.
cd "$(dirname "$0")"
tier=${1:-quick}
rc=0
for id in $(cat claimed.txt); do
  out=$(./check $id --tier $tier 2>&1); code=$?
  echo "$out" | grep -E "^(OK|VIOLATION|KNOWN-FINDING|INCONCLUSIVE)" | cut -c1-220
  [ $code -ne 0 ] && { echo "  -> $id exit $code"; rc=1; }
done
exit $rc
