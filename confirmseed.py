#!/usr/bin/env python3
"""confirmseed.py <seed> [--whole]  : confirm a seeded change myself in a scratch worktree and file it under /verif/seeded/<seed>/
checks: patch applies to /repo HEAD, builds, demo PASSES without the patch and FAILS with it, baseline of touched packages (or whole suite) intact."""
import json, os, re, shutil, subprocess, sys
seed = sys.argv[1]; whole = '--whole' in sys.argv
src = '/tmp/seedout/' + seed
wt = '/tmp/wt-confirm-' + seed
env = dict(os.environ, GOFLAGS='-mod=mod', GOPROXY='off')
def sh(cmd, cwd=None, check=False):
    p = subprocess.run(cmd, shell=True, cwd=cwd, env=env, stdout=subprocess.PIPE, stderr=subprocess.STDOUT, text=True)
    if check and p.returncode != 0:
        print(p.stdout[-2000:]); raise SystemExit("failed: " + cmd)
    return p.returncode, p.stdout
sh('git -C /repo worktree remove --force %s' % wt)
sh('git -C /repo worktree add -q %s HEAD' % wt, check=True)
meta = json.load(open(src + '/meta.json')) if os.path.exists(src + '/meta.json') else {}
demo_cmd = open(src + '/demo_cmd').read().strip() if os.path.exists(src + '/demo_cmd') else meta.get('demo_cmd', '')
m = re.search(r'go test .*', demo_cmd)
test_cmd = m.group(0).split('&&')[0].strip()
pkg = re.search(r'\./(private/\S+)', test_cmd).group(1).rstrip('/')
demos = []
if os.path.isdir(src + '/private'):
    for root, _, files in os.walk(src + '/private'):
        for f in files:
            rel = os.path.relpath(os.path.join(root, f), src)
            os.makedirs(os.path.dirname(os.path.join(wt, rel)), exist_ok=True)
            shutil.copy(os.path.join(root, f), os.path.join(wt, rel)); demos.append(rel)
else:
    for f in os.listdir(src):
        if f.endswith('_test.go'):
            shutil.copy(os.path.join(src, f), os.path.join(wt, pkg, f)); demos.append(os.path.join(pkg, f))
res = {}
rc, out = sh(test_cmd, cwd=wt); res['demo_passes_without_patch'] = rc == 0
if rc != 0: print("WITHOUT PATCH demo failed:\n", out[-1500:])
rc, out = sh('git apply %s/patch.diff' % src, cwd=wt); res['patch_applies'] = rc == 0
rc, out = sh('go build ./private/... ./cmd/...', cwd=wt); res['builds'] = rc == 0
rc, out = sh(test_cmd, cwd=wt); res['demo_fails_with_patch'] = rc != 0
res['demo_failure_excerpt'] = out[-600:] if rc != 0 else ''
touched = sorted(set(os.path.dirname(f) for f in meta.get('files_touched', [])) | {pkg})
scope = '' if whole else ' '.join('./%s/...' % t for t in touched)
rc, out = sh('/tmp/seedtools/baseline_wt.py %s %s' % (wt, scope)); res['baseline_scope'] = 'whole suite' if whole else scope
res['baseline_intact'] = rc == 0; res['baseline_line'] = out.strip().split('\n')[0] if out.strip() else ''
if rc != 0: print(out[-1500:])
sh('git -C /repo worktree remove --force %s; git -C /repo worktree prune' % wt)
dst = '/verif/seeded/' + seed
os.makedirs(dst, exist_ok=True)
shutil.copy(src + '/patch.diff', dst + '/patch.diff')
for d in demos:
    shutil.copy(os.path.join(src, d) if os.path.exists(os.path.join(src, d)) else os.path.join(src, os.path.basename(d)), os.path.join(dst, os.path.basename(d)))
out_meta = {
    'property': seed.split('-')[0], 'seed': seed,
    'summary': meta.get('summary', ''), 'needs_to_manifest': meta.get('needs_to_manifest', ''),
    'files_touched': meta.get('files_touched', []), 'demo_files': demos, 'demo_cmd': test_cmd,
    'author': 'independent sub-agent (given only the property text and its own worktree)',
    'author_verified': meta.get('verified', {}),
    'confirmed_by_me': res,
}
old = {}
if os.path.exists(dst + '/meta.json'):
    old = json.load(open(dst + '/meta.json'))
if 'detection' in old: out_meta['detection'] = old['detection']
json.dump(out_meta, open(dst + '/meta.json', 'w'), indent=1)
ok = res['patch_applies'] and res['builds'] and res['demo_passes_without_patch'] and res['demo_fails_with_patch'] and res['baseline_intact']
print(seed, 'CONFIRMED' if ok else 'NOT CONFIRMED', res['baseline_line'])
sys.exit(0 if ok else 1)
