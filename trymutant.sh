#!/bin/bash
# usage: trymutant.sh <name> <property> <patchfile|-e 'python expr'> : applies a patch to a scratch worktree of /repo and runs the check against it
set -u
name=$1; prop=$2; patch=$3
wt=/tmp/wt-$name
git -C /repo worktree remove --force $wt >/dev/null 2>&1
git -C /repo worktree add -q $wt HEAD || exit 2
if ! git -C $wt apply "$patch"; then echo "PATCH DOES NOT APPLY"; git -C /repo worktree remove --force $wt; exit 2; fi
( cd $wt && go build ./private/... ) || { echo "MUTANT DOES NOT BUILD"; git -C /repo worktree remove --force $wt; exit 2; }
cd /verif && VERIF_REPO_DIR=$wt ./check $prop ${4:-} | grep -E "^(VIOLATION|OK|INCONCLUSIVE|KNOWN)|key=" | head -8
git -C /repo worktree remove --force $wt; git -C /repo worktree prune
