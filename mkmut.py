#!/usr/bin/env python3
"""mkmut.py name path old new  -> writes /tmp/mut/name.diff (a patch against /repo HEAD) without leaving /repo modified"""
import subprocess, sys, os
name, path, old, new = sys.argv[1:5]
os.makedirs('/tmp/mut', exist_ok=True)
s = open('/repo/' + path).read()
if s.count(old) != 1:
    print("old occurs", s.count(old), "times"); sys.exit(1)
open('/repo/' + path, 'w').write(s.replace(old, new))
d = subprocess.run(['git', '-C', '/repo', 'diff'], stdout=subprocess.PIPE, text=True).stdout
open('/tmp/mut/%s.diff' % name, 'w').write(d)
subprocess.run(['git', '-C', '/repo', 'checkout', '--', path])
print("wrote /tmp/mut/%s.diff" % name)
