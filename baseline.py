#!/usr/bin/env python3
"""Runs /repo's test suite with the verif tag OFF and checks that every test of BASELINE.json's stable_pass still passes.
usage: baseline.py [pkgpattern ...]   (default ./...)"""
import json, subprocess, sys, os
base = json.load(open('/root/.vp/BASELINE.json'))
want = set(base['stable_pass'])
pkgs = sys.argv[1:] or ['./...']
env = dict(os.environ); env['GOFLAGS'] = '-mod=mod'; env['GOPROXY'] = 'off'
p = subprocess.Popen(['go', 'test', '-json', '-vet=off', '-count=1', '-timeout', '25m'] + pkgs, cwd='/repo', env=env, stdout=subprocess.PIPE, stderr=subprocess.DEVNULL, text=True)
passed, failed = set(), set()
for line in p.stdout:
    try:
        e = json.loads(line)
    except Exception:
        continue
    if e.get('Test') and e.get('Action') in ('pass', 'fail'):
        k = e['Package'] + '::' + e['Test']
        (passed if e['Action'] == 'pass' else failed).add(k)
p.wait()
if pkgs == ['./...']:
    scope = want
else:
    seenpk = set(k.split('::')[0] for k in passed | failed)
    scope = set(k for k in want if k.split('::')[0] in seenpk)
missing = sorted(scope - passed)
print("baseline tests in scope: %d, passing: %d, missing/failing: %d" % (len(scope), len(scope & passed), len(missing)))
for m in missing[:40]:
    print("  NOT PASSING:", m)
subprocess.run(['git', '-C', '/repo', 'status', '--short'])
sys.exit(1 if missing else 0)
