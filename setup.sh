#!/bin/bash
# Builds every claimed check binary once so later runs hit a warm GOCACHE. Offline: only files on disk.
set -u
cd "$(dirname "$0")/harness"
export GOFLAGS=-mod=mod GOPROXY=off GOTOOLCHAIN=auto
unset GOSUMDB
mkdir -p ../.build ../evidence ../replay
rc=0
for id in $(cat ../claimed.txt); do
  d=$(echo "$id" | tr 'A-Z' 'a-z')
  [ -d "$d" ] || continue
  go test -c -tags verif -o ../.build/$d.test ./$d || rc=1
done
exit $rc
