#!/bin/bash
# Builds every check binary once so later runs hit a warm GOCACHE. Offline: only files on disk.
set -u
cd "$(dirname "$0")/harness"
export GOFLAGS=-mod=mod GOPROXY=off GOTOOLCHAIN=auto
unset GOSUMDB
mkdir -p ../.build ../evidence ../replay
rc=0
for d in c[0-9][0-9]; do
  [ -d "$d" ] || continue
  go test -c -tags verif -o ../.build/$d.test ./$d || rc=1
done
exit $rc
