package bufcli

import (
	"encoding/json"
	"fmt"
	"os"
	"path/filepath"
	"sort"
	"strings"
)

// Ann is one line of `--error-format=json` output.
type Ann struct {
	Path    string `json:"path,omitempty"`
	Line    int    `json:"start_line,omitempty"`
	Col     int    `json:"start_column,omitempty"`
	EndLine int    `json:"end_line,omitempty"`
	EndCol  int    `json:"end_column,omitempty"`
	Type    string `json:"type,omitempty"`
	Message string `json:"message,omitempty"`
}

// ParseAnnotations parses the stdout of a command run with `--error-format=json` (one JSON object per line).
func ParseAnnotations(stdout string) ([]Ann, error) {
	var out []Ann
	for _, line := range strings.Split(stdout, "\n") {
		if strings.TrimSpace(line) == "" {
			continue
		}
		var a Ann
		if err := json.Unmarshal([]byte(line), &a); err != nil {
			return nil, fmt.Errorf("not a JSON annotation line %q: %v", line, err)
		}
		out = append(out, a)
	}
	return out, nil
}

// Env is the environment of an in-process CLI run that keeps every cache and config file below home.
func Env(home string) map[string]string {
	return map[string]string{"HOME": home, "BUF_CACHE_DIR": filepath.Join(home, ".cache"), "PATH": os.Getenv("PATH")}
}

// WriteFiles writes slash-separated relative paths below root.
func WriteFiles(root string, files map[string]string) error {
	paths := make([]string, 0, len(files))
	for p := range files {
		paths = append(paths, p)
	}
	sort.Strings(paths)
	for _, p := range paths {
		full := filepath.Join(root, filepath.FromSlash(p))
		if err := os.MkdirAll(filepath.Dir(full), 0o755); err != nil {
			return err
		}
		if err := os.WriteFile(full, []byte(files[p]), 0o644); err != nil {
			return err
		}
	}
	return nil
}

// RelPath makes the external path of an annotation relative to root (slash-separated); a path outside root
// (e.g. a path inside an image) is returned unchanged.
func RelPath(root, external string) string {
	if external == "" {
		return ""
	}
	if !filepath.IsAbs(external) {
		return filepath.ToSlash(external)
	}
	rel, err := filepath.Rel(root, external)
	if err != nil || strings.HasPrefix(rel, "..") {
		return filepath.ToSlash(external)
	}
	return filepath.ToSlash(rel)
}
