// Package bufcli runs the whole buf CLI in-process (links every command; keep it out of light checks).
package bufcli

import (
	"bytes"
	"context"
	"strings"

	"github.com/bufbuild/buf/private/buf/cmd/buf"
	"github.com/bufbuild/buf/private/pkg/app"
	"github.com/bufbuild/buf/private/pkg/app/appcmd"
)

// RunCLI runs the buf CLI in-process and returns exit code, stdout, stderr.
func Run(ctx context.Context, env map[string]string, stdin string, args ...string) (int, string, string) {
	var stdout, stderr bytes.Buffer
	container := app.NewContainer(env, strings.NewReader(stdin), &stdout, &stderr, append([]string{"buf"}, args...)...)
	err := appcmd.Run(ctx, container, buf.NewRootCommand("buf"))
	return app.GetExitCode(err), stdout.String(), stderr.String()
}
