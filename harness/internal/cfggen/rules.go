package cfggen

// Rule ids and categories accepted per configuration version (taken from the rule tables of
// private/bufpkg/bufcheck/bufcheckserver; only ids that exist in the version are ever generated).

var lintCategories = map[string][]string{
	"v1beta1": {"MINIMAL", "BASIC", "DEFAULT", "STANDARD", "COMMENTS", "UNARY_RPC", "FILE_LAYOUT", "PACKAGE_AFFINITY", "SENSIBLE", "STYLE_BASIC", "STYLE_DEFAULT", "STYLE_STANDARD", "OTHER"},
	"v1":      {"MINIMAL", "BASIC", "DEFAULT", "STANDARD", "COMMENTS", "UNARY_RPC"},
	"v2":      {"MINIMAL", "BASIC", "DEFAULT", "STANDARD", "COMMENTS", "UNARY_RPC"},
}

var lintIDsCommon = []string{
	"COMMENT_ENUM", "COMMENT_FIELD", "COMMENT_MESSAGE", "COMMENT_RPC", "COMMENT_SERVICE", "DIRECTORY_SAME_PACKAGE", "ENUM_FIRST_VALUE_ZERO",
	"ENUM_NO_ALLOW_ALIAS", "ENUM_PASCAL_CASE", "ENUM_VALUE_PREFIX", "ENUM_VALUE_UPPER_SNAKE_CASE", "ENUM_ZERO_VALUE_SUFFIX",
	"FIELD_LOWER_SNAKE_CASE", "FILE_LOWER_SNAKE_CASE", "IMPORT_NO_PUBLIC", "IMPORT_NO_WEAK", "MESSAGE_PASCAL_CASE", "ONEOF_LOWER_SNAKE_CASE",
	"PACKAGE_DEFINED", "PACKAGE_DIRECTORY_MATCH", "PACKAGE_LOWER_SNAKE_CASE", "PACKAGE_SAME_DIRECTORY", "PACKAGE_SAME_GO_PACKAGE",
	"PACKAGE_VERSION_SUFFIX", "RPC_NO_CLIENT_STREAMING", "RPC_NO_SERVER_STREAMING", "RPC_PASCAL_CASE", "RPC_REQUEST_RESPONSE_UNIQUE",
	"RPC_REQUEST_STANDARD_NAME", "RPC_RESPONSE_STANDARD_NAME", "SERVICE_PASCAL_CASE", "SERVICE_SUFFIX",
}

var lintIDsExtra = map[string][]string{
	"v1beta1": {"FIELD_NO_DESCRIPTOR"},
	"v1":      {"IMPORT_USED", "PACKAGE_NO_IMPORT_CYCLE", "PROTOVALIDATE", "SYNTAX_SPECIFIED"},
	"v2":      {"IMPORT_USED", "PACKAGE_NO_IMPORT_CYCLE", "PROTOVALIDATE", "SYNTAX_SPECIFIED", "FIELD_NOT_REQUIRED", "STABLE_PACKAGE_NO_IMPORT_UNSTABLE"},
}

var breakingCategories = []string{"FILE", "PACKAGE", "WIRE_JSON", "WIRE"}

var breakingIDsCommon = []string{
	"ENUM_NO_DELETE", "FILE_NO_DELETE", "MESSAGE_NO_DELETE", "SERVICE_NO_DELETE", "ENUM_SAME_TYPE", "ENUM_VALUE_NO_DELETE", "FIELD_NO_DELETE",
	"FIELD_SAME_CARDINALITY", "FIELD_SAME_TYPE", "FIELD_SAME_JSON_NAME", "FIELD_SAME_NAME", "FIELD_SAME_ONEOF", "FILE_SAME_PACKAGE",
	"FILE_SAME_GO_PACKAGE", "FILE_SAME_SYNTAX", "ONEOF_NO_DELETE", "RPC_NO_DELETE", "RPC_SAME_REQUEST_TYPE", "RPC_SAME_RESPONSE_TYPE",
	"RESERVED_ENUM_NO_DELETE", "RESERVED_MESSAGE_NO_DELETE", "PACKAGE_MESSAGE_NO_DELETE", "PACKAGE_NO_DELETE",
	"FIELD_NO_DELETE_UNLESS_NAME_RESERVED", "FIELD_NO_DELETE_UNLESS_NUMBER_RESERVED", "FIELD_WIRE_COMPATIBLE_CARDINALITY",
	"MESSAGE_SAME_MESSAGE_SET_WIRE_FORMAT",
}

var breakingIDsExtra = map[string][]string{
	// deprecated ids of the older versions (the reader keeps them verbatim)
	"v1beta1": {"FIELD_SAME_CTYPE", "FIELD_SAME_LABEL", "FILE_SAME_JAVA_STRING_CHECK_UTF8", "FILE_SAME_PHP_GENERIC_SERVICES"},
	"v1":      {"FIELD_SAME_CTYPE", "FIELD_SAME_LABEL", "FILE_SAME_JAVA_STRING_CHECK_UTF8", "FILE_SAME_PHP_GENERIC_SERVICES", "FIELD_WIRE_COMPATIBLE_TYPE", "FIELD_WIRE_JSON_COMPATIBLE_TYPE"},
	"v2":      {"FIELD_WIRE_COMPATIBLE_TYPE", "FIELD_WIRE_JSON_COMPATIBLE_TYPE", "FIELD_SAME_DEFAULT", "EXTENSION_NO_DELETE", "PACKAGE_EXTENSION_NO_DELETE"},
}

// LintNames returns the categories and ids valid for lint in the given version.
func LintNames(version string) []string {
	out := append([]string{}, lintCategories[version]...)
	out = append(out, lintIDsCommon...)
	return append(out, lintIDsExtra[version]...)
}

// BreakingNames returns the categories and ids valid for breaking in the given version.
func BreakingNames(version string) []string {
	out := append([]string{}, breakingCategories...)
	out = append(out, breakingIDsCommon...)
	return append(out, breakingIDsExtra[version]...)
}
