package cfggen

import (
	"sort"
	"strings"
)

// Reference reading of a buf.yaml: what the document MEANS per module, computed from the generator's
// model and the documented rules (never from buf's reader):
//
//   - modules are listed by directory (stable for equal directories);
//   - a module uses its own lint/breaking section if that section sets anything, else the top-level one;
//   - ignore / ignore_only paths are workspace-relative in the file and module-relative in the
//     configuration; paths of a top-level section that lie outside the module do not apply to it;
//   - a section whose ignore list names the module directory itself switches the checks off;
//   - use/except/paths are sets (sorted, unique); an ignore_only entry without paths is dropped;
//   - comment ignores: v1beta1/v1 off unless allow_comment_ignores, v2 on unless disallow_comment_ignores.
//
// The JSON shape equals the observation the check builds from buf's accessors.

type ExpCheck struct {
	FileVersion    string              `json:"file_version"`
	Disabled       bool                `json:"disabled"`
	Use            []string            `json:"use"`
	Except         []string            `json:"except"`
	Ignore         []string            `json:"ignore"`
	IgnoreOnly     map[string][]string `json:"ignore_only"`
	DisableBuiltin bool                `json:"disable_builtin"`
}

type ExpLint struct {
	ExpCheck
	EnumZeroValueSuffix                  string `json:"enum_zero_value_suffix"`
	RPCAllowSameRequestResponse          bool   `json:"rpc_allow_same_request_response"`
	RPCAllowGoogleProtobufEmptyRequests  bool   `json:"rpc_allow_google_protobuf_empty_requests"`
	RPCAllowGoogleProtobufEmptyResponses bool   `json:"rpc_allow_google_protobuf_empty_responses"`
	ServiceSuffix                        string `json:"service_suffix"`
	AllowCommentIgnores                  bool   `json:"allow_comment_ignores"`
}

type ExpBreaking struct {
	ExpCheck
	IgnoreUnstablePackages bool `json:"ignore_unstable_packages"`
}

type ExpModule struct {
	DirPath  string              `json:"dir_path"`
	FullName string              `json:"full_name"`
	Includes map[string][]string `json:"includes"`
	Excludes map[string][]string `json:"excludes"`
	Lint     ExpLint             `json:"lint"`
	Breaking ExpBreaking         `json:"breaking"`
}

// Expect is the reference meaning of a generated buf.yaml.
type Expect struct {
	Modules []ExpModule `json:"modules"`
	Deps    []string    `json:"deps"`
}

func sortedSet(in []string) []string {
	seen := map[string]bool{}
	out := []string{}
	for _, s := range in {
		if !seen[s] {
			seen[s] = true
			out = append(out, s)
		}
	}
	sort.Strings(out)
	return out
}

func nodeStrs(m *Map, key string) []string {
	if m == nil {
		return nil
	}
	for _, kv := range m.Items {
		if kv.K == key {
			if l, ok := kv.V.(*List); ok {
				var out []string
				for _, it := range l.Items {
					out = append(out, string(it.(Str)))
				}
				return out
			}
		}
	}
	return nil
}

func nodeStr(m *Map, key string) string {
	if m != nil {
		for _, kv := range m.Items {
			if kv.K == key {
				if s, ok := kv.V.(Str); ok {
					return string(s)
				}
			}
		}
	}
	return ""
}

func nodeBool(m *Map, key string) bool {
	if m != nil {
		for _, kv := range m.Items {
			if kv.K == key {
				if b, ok := kv.V.(Bool); ok {
					return bool(b)
				}
			}
		}
	}
	return false
}

// relIn returns the path relative to dir and whether it lies strictly inside dir.
func relIn(dir, p string) (string, bool) {
	if p == dir || p == "." {
		return "", false
	}
	if dir == "." {
		return p, true
	}
	if strings.HasPrefix(p, dir+"/") {
		return p[len(dir)+1:], true
	}
	return "", false
}

// effectiveCheck interprets a section (possibly absent) for the module at dir.
func effectiveCheck(cs checkSection, version, dir string) ExpCheck {
	e := ExpCheck{FileVersion: version, Use: []string{}, Except: []string{}, Ignore: []string{}, IgnoreOnly: map[string][]string{}}
	if !cs.present {
		return e
	}
	for _, p := range cs.ignore {
		if p == dir {
			e.Disabled = true
			return e
		}
	}
	e.Use = sortedSet(nodeStrs(cs.node, "use"))
	e.Except = sortedSet(nodeStrs(cs.node, "except"))
	var ign []string
	for _, p := range cs.ignore {
		if r, ok := relIn(dir, p); ok {
			ign = append(ign, r)
		}
	}
	e.Ignore = sortedSet(ign)
	for id, paths := range cs.ignoreOnly {
		var rel []string
		for _, p := range paths {
			if p == dir {
				rel = append(rel, ".") // the rule is ignored for the whole module
			} else if r, ok := relIn(dir, p); ok {
				rel = append(rel, r)
			}
		}
		if len(rel) > 0 {
			e.IgnoreOnly[id] = sortedSet(rel)
		}
	}
	e.DisableBuiltin = nodeBool(cs.node, "disable_builtin")
	return e
}

func effectiveLint(cs checkSection, version, dir string) ExpLint {
	l := ExpLint{ExpCheck: effectiveCheck(cs, version, dir)}
	l.AllowCommentIgnores = version == "v2"
	if cs.present {
		l.EnumZeroValueSuffix = nodeStr(cs.node, "enum_zero_value_suffix")
		l.RPCAllowSameRequestResponse = nodeBool(cs.node, "rpc_allow_same_request_response")
		l.RPCAllowGoogleProtobufEmptyRequests = nodeBool(cs.node, "rpc_allow_google_protobuf_empty_requests")
		l.RPCAllowGoogleProtobufEmptyResponses = nodeBool(cs.node, "rpc_allow_google_protobuf_empty_responses")
		l.ServiceSuffix = nodeStr(cs.node, "service_suffix")
		if version == "v2" {
			l.AllowCommentIgnores = !nodeBool(cs.node, "disallow_comment_ignores")
		} else {
			l.AllowCommentIgnores = nodeBool(cs.node, "allow_comment_ignores")
		}
	}
	return l
}

func effectiveBreaking(cs checkSection, version, dir string) ExpBreaking {
	b := ExpBreaking{ExpCheck: effectiveCheck(cs, version, dir)}
	if cs.present {
		b.IgnoreUnstablePackages = nodeBool(cs.node, "ignore_unstable_packages")
	}
	return b
}

// pick returns the module's own section if it sets anything, else the shared one.
func pick(own checkSection, shared checkSection) checkSection {
	if own.present && !own.empty {
		return own
	}
	return shared
}

func relAll(dir string, ps []string) []string {
	out := []string{}
	for _, p := range ps {
		if r, ok := relIn(dir, p); ok {
			out = append(out, r)
		}
	}
	return sortedSet(out)
}

func expectDeps(deps *List) []string {
	out := []string{}
	if deps != nil {
		for _, it := range deps.Items {
			out = append(out, string(it.(Str)))
		}
	}
	name := func(s string) string {
		if i := strings.LastIndex(s, ":"); i > strings.LastIndex(s, "/") {
			return s[:i]
		}
		return s
	}
	sort.Slice(out, func(i, j int) bool { return name(out[i]) < name(out[j]) })
	return out
}
