package cfggen

import (
	"fmt"
	"sort"
	"strings"

	"pgregory.net/rapid"
)

// Doc is one generated configuration document.
type Doc struct {
	Kind       string   `json:"kind"`      // buf.yaml | buf.lock | buf.work.yaml | buf.gen.yaml
	Version    string   `json:"version"`   // version written in the document ("" = left out where allowed)
	FileName   string   `json:"file_name"` // name handed to the reader
	Text       string   `json:"text"`
	Features   []string `json:"features,omitempty"`
	NonTrivial bool     `json:"non_trivial,omitempty"`
	// Expect is the reference meaning of the document (buf.yaml only): see expect.go.
	Expect *Expect `json:"expect,omitempty"`
}

func (d *Doc) feat(f string) { d.Features = append(d.Features, f) }

// ---------------------------------------------------------------------------------------------
// directory universe

var topDirs = []string{"proto", "api", "vendor", "src", "third_party", "a b", "x-y", "Proto"}
var subDirs = []string{"foo", "bar", "v1", "v1beta1", "internal", "acme", "pet store", "x.y", "_gen", "0"}

func draw[T any](t *rapid.T, label string, xs []T) T { return rapid.SampledFrom(xs).Draw(t, label) }

func chance(t *rapid.T, label string, num, den int) bool {
	return rapid.IntRange(0, den-1).Draw(t, label) < num
}

// genRelDir draws a relative directory of 1-3 components.
func genRelDir(t *rapid.T, label string) string {
	n := draw(t, label+"-n", []int{1, 1, 2, 2, 3})
	parts := make([]string, n)
	parts[0] = draw(t, label+"-0", append(append([]string{}, topDirs...), subDirs...))
	for i := 1; i < n; i++ {
		parts[i] = draw(t, label+"-i", subDirs)
	}
	return strings.Join(parts, "/")
}

func joinPath(dir, rel string) string {
	if dir == "." || dir == "" {
		return rel
	}
	return dir + "/" + rel
}

func nested(a, b string) bool {
	return a == b || a == "." || b == "." || strings.HasPrefix(a, b+"/") || strings.HasPrefix(b, a+"/")
}

// genPathsUnder draws up to max distinct, pairwise non-nested paths strictly inside dir
// (workspace-relative). allowFiles adds .proto file paths.
func genPathsUnder(t *rapid.T, label string, dir string, max int, allowFiles bool, avoid []string) []string {
	n := rapid.IntRange(0, max).Draw(t, label+"-n")
	var out []string
	for i := 0; i < n; i++ {
		p := joinPath(dir, genRelDir(t, label+"-p"))
		if allowFiles && chance(t, label+"-file", 1, 3) {
			p += "/" + draw(t, label+"-fn", []string{"a.proto", "pet.proto", "x_y.proto"})
		}
		ok := true
		for _, q := range append(append([]string{}, out...), avoid...) {
			if nested(p, q) {
				ok = false
			}
		}
		if ok {
			out = append(out, p)
		}
	}
	return out
}

// spell returns an equivalent, not normalized spelling of a path now and then.
func spell(t *rapid.T, label string, p string) string {
	switch rapid.IntRange(0, 11).Draw(t, label+"-spell") {
	case 0:
		return "./" + p
	case 1:
		if p != "." {
			return p + "/"
		}
	case 2:
		if i := strings.IndexByte(p, '/'); i > 0 {
			return p[:i] + "//" + p[i+1:]
		}
	}
	return p
}

func spellAll(t *rapid.T, label string, ps []string) []string {
	out := make([]string, len(ps))
	for i, p := range ps {
		out[i] = spell(t, label, p)
	}
	return out
}

func shuffled(t *rapid.T, label string, ss []string) []string {
	if len(ss) < 2 {
		return ss
	}
	return rapid.Permutation(ss).Draw(t, label+"-perm")
}

func subset(t *rapid.T, label string, pool []string, max int) []string {
	n := rapid.IntRange(0, max).Draw(t, label+"-n")
	seen := map[string]bool{}
	var out []string
	for i := 0; i < n; i++ {
		s := draw(t, label+"-e", pool)
		if !seen[s] {
			seen[s] = true
			out = append(out, s)
		}
	}
	return out
}

// ---------------------------------------------------------------------------------------------
// lint / breaking sections

type checkSection struct {
	node     *Map
	disabled bool
	empty    bool // counts as "not configured" for the reader
	canon    string
	// the meaning of the section, kept next to its rendering: normalized workspace-relative paths
	present    bool
	isLint     bool
	ignore     []string
	ignoreOnly map[string][]string
}

// genCheckSection draws a lint (isLint) or breaking section. Paths are workspace-relative: inside
// dir when strict, anywhere otherwise (top-level section of a v2 file). selfPath is the path that
// disables the section when listed in ignore.
func genCheckSection(t *rapid.T, label string, version string, isLint bool, dir string, strict bool, otherDirs []string, d *Doc) checkSection {
	kind := "breaking"
	names := BreakingNames(version)
	if isLint {
		kind = "lint"
		names = LintNames(version)
	}
	m := &Map{}
	cs := checkSection{present: true, isLint: isLint, ignoreOnly: map[string][]string{}}
	if chance(t, label+"-use?", 1, 2) {
		m.Set("use", Strs(subset(t, label+"-use", names, 4)))
	}
	if chance(t, label+"-except?", 1, 3) {
		m.Set("except", Strs(subset(t, label+"-except", names, 3)))
		d.feat(kind + ":except")
	}
	// ignore
	if chance(t, label+"-ignore?", 1, 2) {
		var ignore []string
		if strict {
			ignore = genPathsUnder(t, label+"-ignore", dir, 3, true, nil)
		} else {
			// anywhere: inside one of the module directories or outside all of them
			for _, od := range append([]string{dir}, otherDirs...) {
				if chance(t, label+"-in", 1, 2) {
					ignore = append(ignore, genPathsUnder(t, label+"-ignore", od, 2, true, ignore)...)
				}
			}
			ignore = dedupNonNested(ignore)
		}
		if chance(t, label+"-disable", 1, 4) {
			// naming the module directory itself switches the checks off
			self := dir
			if !strict && len(otherDirs) > 0 && chance(t, label+"-disable-other", 1, 2) {
				self = draw(t, label+"-od", otherDirs)
			}
			if !strict {
				// a shared section is also validated as a whole: its ignore list must stay non-nested
				var keep []string
				for _, p := range ignore {
					if !nested(p, self) {
						keep = append(keep, p)
					}
				}
				ignore = keep
			}
			ignore = append(ignore, self)
			cs.disabled = true
			d.feat(kind + ":disabling-ignore")
		}
		if len(ignore) > 0 {
			cs.ignore = append([]string{}, ignore...)
			m.Set("ignore", Strs(spellAll(t, label+"-ign", shuffled(t, label+"-ign", ignore))))
			d.feat(kind + ":ignore")
		}
	}
	if chance(t, label+"-ignore_only?", 1, 3) {
		io := &Map{}
		for _, id := range subset(t, label+"-ioid", names, 3) {
			var paths []string
			if strict {
				paths = genPathsUnder(t, label+"-iop", dir, 3, true, nil)
			} else {
				for _, od := range append([]string{dir}, otherDirs...) {
					paths = append(paths, genPathsUnder(t, label+"-iop", od, 2, true, paths)...)
				}
				paths = dedupNonNested(paths)
			}
			if len(paths) == 0 && chance(t, label+"-ioempty", 1, 2) {
				continue
			}
			if len(paths) == 0 {
				io.Items = append(io.Items, KV{K: id, V: &List{}})
				cs.ignoreOnly[id] = []string{}
				continue
			}
			cs.ignoreOnly[id] = append([]string{}, paths...)
			io.Set(id, Strs(spellAll(t, label+"-iosp", shuffled(t, label+"-iosh", paths))))
		}
		if len(io.Items) > 0 {
			m.Set("ignore_only", io)
			d.feat(kind + ":ignore_only")
		}
	}
	if isLint {
		if chance(t, label+"-ezvs", 1, 4) {
			m.Set("enum_zero_value_suffix", Str(draw(t, label+"-ezvsv", []string{"_UNSPECIFIED", "_NONE", "_UNKNOWN", "_ZERO VALUE"})))
		}
		if chance(t, label+"-rasrr", 1, 5) {
			m.Set("rpc_allow_same_request_response", Bool(rapid.Bool().Draw(t, label+"-rasrrv")))
		}
		if chance(t, label+"-raereq", 1, 5) {
			m.Set("rpc_allow_google_protobuf_empty_requests", Bool(rapid.Bool().Draw(t, label+"-raereqv")))
		}
		if chance(t, label+"-raeres", 1, 5) {
			m.Set("rpc_allow_google_protobuf_empty_responses", Bool(rapid.Bool().Draw(t, label+"-raeresv")))
		}
		if chance(t, label+"-ss", 1, 4) {
			m.Set("service_suffix", Str(draw(t, label+"-ssv", []string{"Service", "API", "Svc", "Endpoint"})))
		}
		if chance(t, label+"-ci", 1, 3) {
			key := "allow_comment_ignores"
			if version == "v2" {
				key = "disallow_comment_ignores"
			}
			m.Set(key, Bool(rapid.Bool().Draw(t, label+"-civ")))
		}
		if len(m.Items) > 0 {
			d.feat("lint:options")
		}
	} else if chance(t, label+"-iup", 1, 3) {
		m.Set("ignore_unstable_packages", Bool(rapid.Bool().Draw(t, label+"-iupv")))
	}
	if chance(t, label+"-db", 1, 6) {
		m.Set("disable_builtin", Bool(rapid.Bool().Draw(t, label+"-dbv")))
	}
	cs.node = m
	cs.empty = sectionIsEmpty(m)
	cs.canon = Render(m, Style{})
	return cs
}

// sectionIsEmpty mirrors the documented rule "a module section that sets nothing falls back to the
// top-level section": only zero values (false, "", empty lists/maps) are present.
func sectionIsEmpty(m *Map) bool {
	for _, kv := range m.Items {
		switch v := kv.V.(type) {
		case Bool:
			if v {
				return false
			}
		case Str:
			if v != "" {
				return false
			}
		case *List:
			if len(v.Items) > 0 {
				return false
			}
		case *Map:
			if len(v.Items) > 0 {
				return false
			}
		default:
			return false
		}
	}
	return true
}

func dedupNonNested(ps []string) []string {
	var out []string
	for _, p := range ps {
		ok := true
		for _, q := range out {
			if nested(p, q) {
				ok = false
			}
		}
		if ok {
			out = append(out, p)
		}
	}
	return out
}

// ---------------------------------------------------------------------------------------------
// deps, names, plugins

var registries = []string{"buf.build", "bsr.example.com", "localhost:8080"}
var owners = []string{"acme", "googleapis", "a-b", "x1"}
var repos = []string{"petapis", "paymentapis", "googleapis", "protovalidate", "mod-x", "weather"}

func genModuleName(t *rapid.T, label string, idx int) string {
	return fmt.Sprintf("%s/%s/%s%d", draw(t, label+"-reg", registries), draw(t, label+"-own", owners), draw(t, label+"-repo", repos), idx)
}

func genDeps(t *rapid.T, label string, d *Doc) *List {
	n := draw(t, label+"-n", []int{0, 0, 1, 2, 3})
	var deps []string
	for i := 0; i < n; i++ {
		dep := genModuleName(t, label, 100+i)
		switch rapid.IntRange(0, 3).Draw(t, label+"-ref") {
		case 0:
			dep += ":" + draw(t, label+"-refv", []string{"main", "v1.2.3", "6e230f46113f498392c82d12b1a07b70", "feature/x"})
			d.feat("deps:with-ref")
		}
		deps = append(deps, dep)
	}
	if len(deps) > 0 {
		d.feat("deps")
	}
	return Strs(shuffled(t, label, deps))
}

func genOptionValue(t *rapid.T, label string, allowNumbers bool) Node {
	k := rapid.IntRange(0, 5).Draw(t, label+"-kind")
	if !allowNumbers && (k == 1 || k == 3) {
		k = 0
	}
	switch k {
	case 1:
		return Int(rapid.IntRange(-5, 1000).Draw(t, label+"-int"))
	case 2:
		return Bool(rapid.Bool().Draw(t, label+"-bool"))
	case 3:
		return Float(float64(rapid.IntRange(1, 99).Draw(t, label+"-fl")) + 0.5)
	case 4:
		return Strs([]string{"x", draw(t, label+"-le", []string{"y", "z z", "1"})})
	default:
		return Str(draw(t, label+"-str", []string{"v", "a b", "", "true", "1", "x:y", "é"}))
	}
}

func genCheckPlugins(t *rapid.T, label string, st Style, d *Doc) *List {
	n := draw(t, label+"-n", []int{0, 0, 0, 1, 2})
	if n == 0 {
		return nil
	}
	l := &List{}
	for i := 0; i < n; i++ {
		p := &Map{}
		name := draw(t, label+"-name", []string{"buf-plugin-foo", "buf-plugin-rpc-ext", "plugins/check.wasm", "buf.build/acme/check-plugin", "buf.build/acme/check-plugin:v1.0.0", "bsr.example.com/a-b/p"})
		if chance(t, label+"-args", 1, 3) {
			p.Set("plugin", Strs([]string{name, "--flag", draw(t, label+"-arg", []string{"x", "a b", "-v"})}))
		} else {
			p.Set("plugin", Str(name))
		}
		if chance(t, label+"-opts", 1, 2) {
			o := &Map{}
			for _, k := range subset(t, label+"-ok", []string{"timestamp_suffix", "max", "enabled", "names", "ratio"}, 3) {
				o.Set(k, genOptionValue(t, label+"-ov", !st.JSON))
			}
			if len(o.Items) > 0 {
				p.Set("options", o)
			}
		}
		l.Items = append(l.Items, p)
	}
	d.feat("plugins")
	return l
}

// ---------------------------------------------------------------------------------------------
// buf.yaml

// GenBufYAML draws a buf.yaml document of a random version.
func GenBufYAML(t *rapid.T) Doc {
	version := draw(t, "version", []string{"v1beta1", "v1", "v1", "v2", "v2", "v2", "v2"})
	d := Doc{Kind: "buf.yaml", Version: version, FileName: "buf.yaml"}
	if version != "v2" && chance(t, "bufmod", 1, 8) {
		d.FileName = "buf.mod"
	}
	st := GenStyle(t)
	var root *Map
	if version == "v2" {
		root = genBufYAMLV2(t, st, &d)
	} else {
		root = genBufYAMLV1(t, version, st, &d)
	}
	d.Text = Render(root, st)
	if chance(t, "docslink", 1, 10) && !st.JSON {
		d.Text = fmt.Sprintf("# For details on buf.yaml configuration, visit https://buf.build/docs/configuration/%s/buf-yaml\n", version) + strings.TrimPrefix(d.Text, "---\n")
		d.feat("docs-link")
	}
	if st.JSON {
		d.feat("json")
	}
	return d
}

func genBufYAMLV1(t *rapid.T, version string, st Style, d *Doc) *Map {
	root := M("version", Str(version))
	if chance(t, "name?", 1, 2) {
		root.Set("name", Str(genModuleName(t, "name", 0)))
		d.feat("name")
	}
	root.Set("deps", genDeps(t, "deps", d))
	build := &Map{}
	roots := []string{"."}
	if version == "v1beta1" && chance(t, "roots?", 2, 3) {
		roots = dedupNonNested(func() []string {
			var rs []string
			for i := 0; i < rapid.IntRange(1, 3).Draw(t, "nroots"); i++ {
				rs = append(rs, genRelDir(t, "root"))
			}
			if chance(t, "rootdot", 1, 8) {
				rs = []string{"."}
			}
			return rs
		}())
		build.Set("roots", Strs(spellAll(t, "rootsp", roots)))
		d.feat("roots")
		if len(roots) > 1 {
			d.feat("roots>=2")
		}
	}
	var allExcludes []string
	if chance(t, "excludes?", 1, 2) {
		var ex []string
		for _, r := range roots {
			ex = append(ex, genPathsUnder(t, "exclude", r, 2, false, ex)...)
		}
		ex = dedupNonNested(ex)
		allExcludes = ex
		if len(ex) > 0 {
			build.Set("excludes", Strs(spellAll(t, "exsp", shuffled(t, "ex", ex))))
			d.feat("excludes")
		}
	}
	if len(build.Items) > 0 {
		root.Set("build", build)
	}
	var lint, breaking checkSection
	if chance(t, "lint?", 2, 3) {
		lint = genCheckSection(t, "lint", version, true, ".", true, nil, d)
		root.Set("lint", lint.node)
	}
	if chance(t, "breaking?", 1, 2) {
		breaking = genCheckSection(t, "breaking", version, false, ".", true, nil, d)
		root.Set("breaking", breaking.node)
	}
	if lint.disabled || breaking.disabled {
		d.NonTrivial = true
	}
	em := ExpModule{DirPath: ".", FullName: nodeStr(root, "name"), Includes: map[string][]string{}, Excludes: map[string][]string{},
		Lint: effectiveLint(lint, version, "."), Breaking: effectiveBreaking(breaking, version, ".")}
	for _, r := range roots {
		em.Includes[r] = []string{}
		em.Excludes[r] = relAll(r, allExcludes)
	}
	d.Expect = &Expect{Modules: []ExpModule{em}, Deps: expectDeps(listOf(root, "deps"))}
	return root
}

func listOf(m *Map, key string) *List {
	for _, kv := range m.Items {
		if kv.K == key {
			if l, ok := kv.V.(*List); ok {
				return l
			}
		}
	}
	return nil
}

var modulePaths = []string{".", "proto", "api", "proto/foo", "proto/bar", "vendor/x", "api/v1", "a b", "src/main/proto", "proto/foo/internal"}

func genBufYAMLV2(t *rapid.T, st Style, d *Doc) *Map {
	root := M("version", Str("v2"))
	implicit := chance(t, "implicit-module", 1, 4)
	type mod struct {
		path           string
		lint, breaking checkSection
		hasLint, hasBr bool
		includes       bool
		name           string
		incl, excl     []string
	}
	var mods []mod
	var dirs []string
	if implicit {
		d.feat("v2:implicit-module")
		if chance(t, "name?", 1, 2) {
			root.Set("name", Str(genModuleName(t, "name", 0)))
			d.feat("name")
		}
		dirs = []string{"."}
	} else {
		n := draw(t, "nmods", []int{1, 1, 2, 2, 2, 3, 3, 4})
		for i := 0; i < n; i++ {
			p := draw(t, "modpath", modulePaths)
			if chance(t, "modpath-rnd", 1, 4) {
				p = genRelDir(t, "modpathr")
			}
			if n == 1 && chance(t, "modpath-dot", 1, 2) {
				p = "." // the single root module: the shape the writer may collapse into the short form
			}
			mods = append(mods, mod{path: p})
			dirs = append(dirs, p)
		}
		d.feat(fmt.Sprintf("v2:modules=%d", n))
	}
	// top-level sections
	var topLint, topBreaking checkSection
	hasTopLint, hasTopBreaking := chance(t, "toplint?", 1, 2), chance(t, "topbreaking?", 1, 3)
	if hasTopLint {
		topLint = genCheckSection(t, "toplint", "v2", true, dirs[0], false, dirs[1:], d)
		d.feat("v2:top-level-lint")
	}
	if hasTopBreaking {
		topBreaking = genCheckSection(t, "topbreaking", "v2", false, dirs[0], false, dirs[1:], d)
		d.feat("v2:top-level-breaking")
	}
	if !implicit {
		l := &List{}
		seenCfg := map[string]bool{}
		for i := range mods {
			m := &mods[i]
			lbl := fmt.Sprintf("mod%d", i)
			mm := &Map{}
			switch {
			case m.path == "." && chance(t, lbl+"-nopath", 1, 3):
				// path left out: defaults to "."
			default:
				mm.Set("path", Str(spell(t, lbl+"-pathsp", m.path)))
			}
			if chance(t, lbl+"-name?", 1, 2) {
				m.name = genModuleName(t, lbl+"-name", i)
				mm.Set("name", Str(m.name))
			}
			var includes []string
			if chance(t, lbl+"-includes?", 1, 3) {
				includes = genPathsUnder(t, lbl+"-inc", m.path, 3, false, nil)
				if len(includes) > 0 {
					mm.Set("includes", Strs(spellAll(t, lbl+"-incsp", shuffled(t, lbl+"-inc", includes))))
					m.includes = true
					m.incl = includes
					d.feat("v2:includes")
				}
			}
			if chance(t, lbl+"-excludes?", 1, 3) {
				var ex []string
				if len(includes) > 0 {
					for _, inc := range includes {
						ex = append(ex, genPathsUnder(t, lbl+"-exc", inc, 2, false, ex)...)
					}
				} else {
					ex = genPathsUnder(t, lbl+"-exc", m.path, 3, false, nil)
				}
				ex = dedupNonNested(ex)
				if len(ex) > 0 {
					m.excl = ex
					mm.Set("excludes", Strs(spellAll(t, lbl+"-excsp", shuffled(t, lbl+"-exc", ex))))
					d.feat("v2:excludes")
				}
			}
			if chance(t, lbl+"-lint?", 1, 2) {
				m.lint = genCheckSection(t, lbl+"-lint", "v2", true, m.path, true, nil, d)
				m.hasLint = true
				mm.Set("lint", m.lint.node)
				d.feat("v2:module-lint")
			}
			if chance(t, lbl+"-breaking?", 1, 3) {
				m.breaking = genCheckSection(t, lbl+"-breaking", "v2", false, m.path, true, nil, d)
				m.hasBr = true
				mm.Set("breaking", m.breaking.node)
				d.feat("v2:module-breaking")
			}
			if len(mm.Items) == 0 {
				mm.Set("path", Str(m.path))
			}
			l.Items = append(l.Items, mm)
			// effective configuration text (module section if it sets anything, else the top-level one)
			eff := "L:" + topLint.canon
			if m.hasLint && !m.lint.empty {
				eff = "L:" + m.lint.canon
			}
			if m.hasBr && !m.breaking.empty {
				eff += "B:" + m.breaking.canon
			} else {
				eff += "B:" + topBreaking.canon
			}
			seenCfg[eff] = true
			if m.lint.disabled || m.breaking.disabled {
				d.NonTrivial = true
			}
		}
		root.Set("modules", l)
		if len(mods) >= 2 && len(seenCfg) >= 2 {
			d.NonTrivial = true
			d.feat("v2:modules-with-differing-checks")
		}
		if len(mods) == 1 && mods[0].includes {
			d.NonTrivial = true
		}
		paths := map[string]int{}
		for _, m := range mods {
			paths[m.path]++
			for _, o := range mods {
				if o.path != m.path && nested(o.path, m.path) {
					d.feat("v2:overlapping-module-dirs")
				}
			}
			if paths[m.path] == 2 {
				d.feat("v2:same-module-dir-twice")
			}
		}
	}
	if topLint.disabled || topBreaking.disabled {
		d.NonTrivial = true
	}
	root.Set("deps", genDeps(t, "deps", d))
	if hasTopLint {
		root.Set("lint", topLint.node)
	}
	if hasTopBreaking {
		root.Set("breaking", topBreaking.node)
	}
	root.Set("plugins", genCheckPlugins(t, "plugins", st, d))
	// reference meaning
	exp := &Expect{Deps: expectDeps(listOf(root, "deps"))}
	if implicit {
		mods = []mod{{path: ".", name: nodeStr(root, "name")}}
	}
	for _, m := range mods {
		exp.Modules = append(exp.Modules, ExpModule{
			DirPath: m.path, FullName: m.name,
			Includes: map[string][]string{".": relAll(m.path, m.incl)},
			Excludes: map[string][]string{".": relAll(m.path, m.excl)},
			Lint:     effectiveLint(pick(m.lint, topLint), "v2", m.path),
			Breaking: effectiveBreaking(pick(m.breaking, topBreaking), "v2", m.path),
		})
	}
	sort.SliceStable(exp.Modules, func(i, j int) bool { return exp.Modules[i].DirPath < exp.Modules[j].DirPath })
	d.Expect = exp
	// key order is irrelevant to the reader
	if chance(t, "keyorder", 1, 3) {
		rest := root.Items[1:]
		sort.SliceStable(rest, func(i, j int) bool { return rest[i].K > rest[j].K })
	}
	return root
}
