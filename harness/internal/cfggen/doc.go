// Package cfggen generates buf configuration documents (YAML text) from a Go model of the grammar
// the readers accept. The text is rendered here, never by buf's writers.
package cfggen
