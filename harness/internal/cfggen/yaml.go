package cfggen

import (
	"bytes"
	"encoding/json"
	"fmt"
	"regexp"
	"strings"

	"pgregory.net/rapid"
)

// Node is a YAML/JSON value: *Map, *List, Str, Bool, Int or Float.
type Node interface{}

// KV is one key of a mapping (keys keep their insertion order).
type KV struct {
	K string
	V Node
}

// Map is an ordered mapping.
type Map struct{ Items []KV }

// List is a sequence.
type List struct{ Items []Node }

// Str, Bool, Int, Float are scalars.
type (
	Str   string
	Bool  bool
	Int   int64
	Float float64
)

// M builds a map from alternating key, value arguments; nil values are dropped.
func M(kv ...any) *Map {
	m := &Map{}
	for i := 0; i+1 < len(kv); i += 2 {
		m.Set(kv[i].(string), kv[i+1])
	}
	return m
}

// Set appends key k unless v is nil (or a typed nil map/list).
func (m *Map) Set(k string, v Node) {
	switch t := v.(type) {
	case nil:
		return
	case *Map:
		if t == nil {
			return
		}
	case *List:
		if t == nil {
			return
		}
	}
	m.Items = append(m.Items, KV{K: k, V: v})
}

// Strs builds a list of strings (nil for an empty input: the key is then left out).
func Strs(ss []string) *List {
	if len(ss) == 0 {
		return nil
	}
	l := &List{}
	for _, s := range ss {
		l.Items = append(l.Items, Str(s))
	}
	return l
}

// Style selects one of the equivalent spellings of a document.
type Style struct {
	JSON       bool // render as JSON (every reader accepts JSON as well)
	FlowLists  bool // [a, b] instead of block sequences for lists of scalars
	Quote      int  // 0 = plain where safe, 1 = always double quotes, 2 = single quotes where possible
	Indentless bool // sequences at the indentation of their parent key
	DocStart   bool // leading "---"
	Comments   bool // a few comment and blank lines
}

// GenStyle draws a rendering style.
func GenStyle(t *rapid.T) Style {
	return Style{
		JSON:       rapid.IntRange(0, 9).Draw(t, "style-json") == 0,
		FlowLists:  rapid.IntRange(0, 3).Draw(t, "style-flow") == 0,
		Quote:      rapid.SampledFrom([]int{0, 0, 0, 1, 2}).Draw(t, "style-quote"),
		Indentless: rapid.Bool().Draw(t, "style-indentless"),
		DocStart:   rapid.IntRange(0, 5).Draw(t, "style-docstart") == 0,
		Comments:   rapid.IntRange(0, 3).Draw(t, "style-comments") == 0,
	}
}

var plainOK = regexp.MustCompile(`^[A-Za-z][A-Za-z0-9_./-]*$`)

var reservedPlain = map[string]bool{
	"true": true, "false": true, "yes": true, "no": true, "on": true, "off": true, "null": true, "y": true, "n": true, "nan": true, "inf": true,
}

func jsonString(s string) string {
	var b bytes.Buffer
	enc := json.NewEncoder(&b)
	enc.SetEscapeHTML(false)
	_ = enc.Encode(s)
	return strings.TrimSuffix(b.String(), "\n")
}

func (st Style) scalar(n Node) string {
	switch v := n.(type) {
	case Str:
		s := string(v)
		switch {
		case st.Quote == 0 && plainOK.MatchString(s) && !reservedPlain[strings.ToLower(s)]:
			return s
		case st.Quote == 2 && !strings.ContainsAny(s, "\n\r\t") && isPrintable(s):
			return "'" + strings.ReplaceAll(s, "'", "''") + "'"
		default:
			return jsonString(s)
		}
	case Bool:
		if v {
			return "true"
		}
		return "false"
	case Int:
		return fmt.Sprintf("%d", int64(v))
	case Float:
		s := fmt.Sprintf("%g", float64(v))
		if !strings.ContainsAny(s, ".e") {
			s += ".0"
		}
		return s
	}
	panic(fmt.Sprintf("cfggen: not a scalar: %T", n))
}

func isPrintable(s string) bool {
	for _, r := range s {
		if r < 0x20 || r == 0x7f {
			return false
		}
	}
	return true
}

func isScalar(n Node) bool {
	switch n.(type) {
	case Str, Bool, Int, Float:
		return true
	}
	return false
}

func allScalars(l *List) bool {
	for _, it := range l.Items {
		if !isScalar(it) {
			return false
		}
	}
	return true
}

// Render renders the document in the given style.
func Render(root *Map, st Style) string {
	if st.JSON {
		var b strings.Builder
		renderJSON(&b, root, 0)
		b.WriteString("\n")
		return b.String()
	}
	var b strings.Builder
	if st.DocStart {
		b.WriteString("---\n")
	}
	if st.Comments {
		b.WriteString("# generated configuration\n\n")
	}
	st.renderMap(&b, root, 0)
	return b.String()
}

func keyText(k string, st Style) string {
	if plainOK.MatchString(k) && !reservedPlain[strings.ToLower(k)] {
		return k
	}
	return jsonString(k)
}

func (st Style) renderMap(b *strings.Builder, m *Map, indent int) {
	pad := strings.Repeat(" ", indent)
	for i, kv := range m.Items {
		if st.Comments && indent == 0 && i > 0 && i%3 == 0 {
			b.WriteString("\n# section\n")
		}
		b.WriteString(pad)
		b.WriteString(keyText(kv.K, st))
		b.WriteString(":")
		st.renderValue(b, kv.V, indent)
	}
}

// renderValue writes the value of a key that was just written at `indent` (without newline).
func (st Style) renderValue(b *strings.Builder, v Node, indent int) {
	switch t := v.(type) {
	case *Map:
		if len(t.Items) == 0 {
			b.WriteString(" {}\n")
			return
		}
		b.WriteString("\n")
		st.renderMap(b, t, indent+2)
	case *List:
		if len(t.Items) == 0 {
			b.WriteString(" []\n")
			return
		}
		if st.FlowLists && allScalars(t) {
			parts := make([]string, len(t.Items))
			for i, it := range t.Items {
				parts[i] = Style{Quote: 1}.scalar(it)
				if _, ok := it.(Str); !ok {
					parts[i] = st.scalar(it)
				}
			}
			b.WriteString(" [" + strings.Join(parts, ", ") + "]\n")
			return
		}
		b.WriteString("\n")
		li := indent + 2
		if st.Indentless {
			li = indent
		}
		st.renderList(b, t, li)
	default:
		b.WriteString(" " + st.scalar(v))
		if st.Comments && indent > 0 && len(st.scalar(v))%5 == 0 {
			b.WriteString(" # note")
		}
		b.WriteString("\n")
	}
}

func (st Style) renderList(b *strings.Builder, l *List, indent int) {
	pad := strings.Repeat(" ", indent)
	for _, it := range l.Items {
		switch t := it.(type) {
		case *Map:
			if len(t.Items) == 0 {
				b.WriteString(pad + "- {}\n")
				continue
			}
			// first key on the dash line, the rest aligned with it
			var inner strings.Builder
			st.renderMap(&inner, t, indent+2)
			text := inner.String()
			b.WriteString(pad + "- " + strings.TrimPrefix(text, strings.Repeat(" ", indent+2)))
		case *List:
			if len(t.Items) == 0 {
				b.WriteString(pad + "- []\n")
				continue
			}
			parts := make([]string, len(t.Items))
			for i, e := range t.Items {
				parts[i] = Style{Quote: 1}.scalar(e)
			}
			b.WriteString(pad + "- [" + strings.Join(parts, ", ") + "]\n")
		default:
			b.WriteString(pad + "- " + st.scalar(it) + "\n")
		}
	}
}

func renderJSON(b *strings.Builder, n Node, indent int) {
	pad := strings.Repeat("  ", indent+1)
	switch t := n.(type) {
	case *Map:
		if len(t.Items) == 0 {
			b.WriteString("{}")
			return
		}
		b.WriteString("{\n")
		for i, kv := range t.Items {
			b.WriteString(pad + jsonString(kv.K) + ": ")
			renderJSON(b, kv.V, indent+1)
			if i < len(t.Items)-1 {
				b.WriteString(",")
			}
			b.WriteString("\n")
		}
		b.WriteString(strings.Repeat("  ", indent) + "}")
	case *List:
		if len(t.Items) == 0 {
			b.WriteString("[]")
			return
		}
		b.WriteString("[\n")
		for i, it := range t.Items {
			b.WriteString(pad)
			renderJSON(b, it, indent+1)
			if i < len(t.Items)-1 {
				b.WriteString(",")
			}
			b.WriteString("\n")
		}
		b.WriteString(strings.Repeat("  ", indent) + "]")
	case Str:
		b.WriteString(jsonString(string(t)))
	default:
		b.WriteString(Style{}.scalar(t))
	}
}
