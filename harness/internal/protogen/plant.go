package protogen

import (
	"fmt"
	"sort"
	"strings"
)

// Plant describes one planted lint violation.
type Plant struct {
	Op   string `json:"op"`
	Rule string `json:"rule"`
	Desc string `json:"desc"`
	// Sites: element ids (in the planted workspace) that must each carry exactly one annotation of Rule.
	// An id of the form "<fileID>" means a file-level annotation (no position check).
	Sites []string `json:"sites"`
	// Also: other rule ids this planting documentedly triggers as a side effect (tolerated, not required).
	Also []string `json:"also,omitempty"`
	// Versions restricts the config versions in which Rule exists (nil = all).
	Versions []string `json:"versions,omitempty"`
}

// ---------------------------------------------------------------------------------------------
// global rewriting helpers

func mapTypes(ws *Workspace, fn func(string) string) {
	fix := func(fld *Field) {
		if fld.TypeKind != "scalar" {
			fld.Type = fn(fld.Type)
		}
		if fld.Extendee != "" {
			fld.Extendee = fn(fld.Extendee)
		}
	}
	for _, f := range ws.AllFiles() {
		var rec func(m *Message)
		rec = func(m *Message) {
			for _, fld := range m.Fields {
				fix(fld)
				if fld.Group != nil {
					rec(fld.Group)
				}
			}
			for _, x := range m.Extensions {
				fix(x)
			}
			for _, n := range m.Nested {
				rec(n)
			}
		}
		for _, m := range f.Messages {
			rec(m)
		}
		for _, x := range f.Extensions {
			fix(x)
		}
		for _, s := range f.Services {
			for _, m := range s.Methods {
				m.Input, m.Output = fn(m.Input), fn(m.Output)
			}
		}
	}
}

// RenameTypePrefix rewrites every reference to oldFull (".a.B") or anything nested in it.
func RenameTypePrefix(ws *Workspace, oldFull, newFull string) {
	mapTypes(ws, func(t string) string {
		if t == oldFull || strings.HasPrefix(t, oldFull+".") {
			return newFull + strings.TrimPrefix(t, oldFull)
		}
		return t
	})
}

// MoveFile changes a file's path and fixes the importers.
func MoveFile(ws *Workspace, f *File, newPath string) {
	old := f.Path
	f.Path = newPath
	for _, g := range ws.AllFiles() {
		for i := range g.Imports {
			if g.Imports[i].Path == old {
				g.Imports[i].Path = newPath
			}
		}
	}
}

func filesOfPackage(ws *Workspace, pkg string) []*File {
	var out []*File
	for _, f := range ws.AllFiles() {
		if f.Package == pkg {
			out = append(out, f)
		}
	}
	return out
}

func dirOf(path string) string {
	if i := strings.LastIndex(path, "/"); i >= 0 {
		return path[:i]
	}
	return "."
}

func baseOf(path string) string { return path[strings.LastIndex(path, "/")+1:] }

func lintFiles(ws *Workspace) []*File {
	var out []*File
	for _, f := range ws.AllFiles() {
		if f.Package != "google.protobuf" {
			out = append(out, f)
		}
	}
	return out
}

func fileIDs(fs []*File) []string {
	var out []string
	for _, f := range fs {
		out = append(out, f.ID)
	}
	sort.Strings(out)
	return out
}

func pkgStmtIDs(fs []*File) []string {
	var out []string
	for _, f := range fs {
		out = append(out, f.ID+"#package")
	}
	sort.Strings(out)
	return out
}

// changePackageEverywhere renames a package (all its files) and rewrites all references.
func changePackageEverywhere(ws *Workspace, old, neu string) {
	for _, f := range filesOfPackage(ws, old) {
		f.Package = neu
	}
	mapTypes(ws, func(t string) string {
		if strings.HasPrefix(t, "."+old+".") {
			return "." + neu + strings.TrimPrefix(t, "."+old)
		}
		return t
	})
}

func movePackageDir(ws *Workspace, pkg, newDir string) {
	for _, f := range filesOfPackage(ws, pkg) {
		MoveFile(ws, f, newDir+"/"+baseOf(f.Path))
	}
}

// ---------------------------------------------------------------------------------------------
// planting operators

// PlantOp is a planting operator.
type PlantOp struct {
	Name  string
	Apply func(e *Editor, ws *Workspace) (*Plant, bool)
}

func lintMsgSites(ws *Workspace, pred func(MsgRef) bool) []MsgRef {
	var out []MsgRef
	for _, f := range lintFiles(ws) {
		f.WalkMessages(func(m MsgRef) {
			if pred == nil || pred(m) {
				out = append(out, m)
			}
		})
	}
	return out
}

func lintFieldSites(ws *Workspace, pred func(fieldSite) bool) []fieldSite {
	var out []fieldSite
	for _, f := range lintFiles(ws) {
		f.WalkMessages(func(m MsgRef) {
			for _, fld := range m.Msg.Fields {
				s := fieldSite{f, m, fld}
				if pred == nil || pred(s) {
					out = append(out, s)
				}
			}
		})
	}
	return out
}

func lintEnumSites(ws *Workspace, pred func(EnumRef) bool) []EnumRef {
	var out []EnumRef
	for _, f := range lintFiles(ws) {
		f.WalkEnums(func(er EnumRef) {
			if pred == nil || pred(er) {
				out = append(out, er)
			}
		})
	}
	return out
}

func isRPCIO(ws *Workspace, full string) bool {
	for _, f := range ws.AllFiles() {
		for _, s := range f.Services {
			for _, m := range s.Methods {
				if m.Input == full || m.Output == full {
					return true
				}
			}
		}
	}
	return false
}

func plantMessageCase(e *Editor, ws *Workspace) (*Plant, bool) {
	sites := lintMsgSites(ws, func(m MsgRef) bool { return !isGroupBody(m) && !isRPCIO(ws, "."+m.Full) })
	if len(sites) == 0 {
		return nil, false
	}
	s := sites[e.pick("site", len(sites))]
	old := "." + s.Full
	bad := []string{"bad_" + e.fresh(), "badCamel" + lowerSnakeToPascal(e.fresh()), "BAD_" + strings.ToUpper(e.fresh())}[e.pick("style", 3)]
	s.Msg.Name = bad
	RenameTypePrefix(ws, old, old[:strings.LastIndex(old, ".")+1]+bad)
	return &Plant{Op: "message-case", Rule: "MESSAGE_PASCAL_CASE", Desc: fmt.Sprintf("rename message %s -> %s (depth %d)", old, bad, s.Depth), Sites: []string{s.Msg.ID}}, true
}

func plantEnumCase(e *Editor, ws *Workspace) (*Plant, bool) {
	sites := lintEnumSites(ws, nil)
	if len(sites) == 0 {
		return nil, false
	}
	s := sites[e.pick("site", len(sites))]
	old := "." + s.Full
	bad := "bad_" + e.fresh()
	oldPrefix := UpperSnake(s.Enum.Name) + "_"
	s.Enum.Name = bad
	newPrefix := strings.ToUpper(bad) + "_"
	for _, v := range s.Enum.Values {
		v.Name = newPrefix + strings.TrimPrefix(v.Name, oldPrefix)
	}
	for i, n := range s.Enum.ReservedNames {
		s.Enum.ReservedNames[i] = newPrefix + strings.TrimPrefix(n, oldPrefix)
	}
	RenameTypePrefix(ws, old, old[:strings.LastIndex(old, ".")+1]+bad)
	return &Plant{Op: "enum-case", Rule: "ENUM_PASCAL_CASE", Desc: fmt.Sprintf("rename enum %s -> %s", old, bad), Sites: []string{s.Enum.ID}}, true
}

type svcSite struct {
	f *File
	s *Service
}

func svcSites(ws *Workspace) []svcSite {
	var out []svcSite
	for _, f := range lintFiles(ws) {
		for _, s := range f.Services {
			out = append(out, svcSite{f, s})
		}
	}
	return out
}

type rpcSite struct {
	f *File
	s *Service
	m *Method
}

func rpcSites(ws *Workspace) []rpcSite {
	var out []rpcSite
	for _, x := range svcSites(ws) {
		for _, m := range x.s.Methods {
			out = append(out, rpcSite{x.f, x.s, m})
		}
	}
	return out
}

func plantServiceCase(e *Editor, ws *Workspace) (*Plant, bool) {
	sites := svcSites(ws)
	if len(sites) == 0 {
		return nil, false
	}
	x := sites[e.pick("site", len(sites))]
	old := x.s.Name
	x.s.Name = "bad_" + e.fresh() + "_Service"
	return &Plant{Op: "service-case", Rule: "SERVICE_PASCAL_CASE", Desc: fmt.Sprintf("rename service %s -> %s", old, x.s.Name), Sites: []string{x.s.ID}}, true
}

func plantServiceSuffix(e *Editor, ws *Workspace) (*Plant, bool) {
	sites := svcSites(ws)
	if len(sites) == 0 {
		return nil, false
	}
	x := sites[e.pick("site", len(sites))]
	old := x.s.Name
	x.s.Name = strings.TrimSuffix(old, "Service") + "Api"
	return &Plant{Op: "service-suffix", Rule: "SERVICE_SUFFIX", Desc: fmt.Sprintf("rename service %s -> %s", old, x.s.Name), Sites: []string{x.s.ID}}, true
}

func plantRPCCase(e *Editor, ws *Workspace) (*Plant, bool) {
	sites := rpcSites(ws)
	if len(sites) == 0 {
		return nil, false
	}
	x := sites[e.pick("site", len(sites))]
	old := x.m.Name
	if e.pick("samewords", 2) == 0 {
		// the same words in another case: the request/response names derived from the PascalCase form still fit
		if e.pick("snake", 2) == 0 {
			x.m.Name = strings.ToLower(UpperSnake(old))
		} else {
			x.m.Name = strings.ToLower(old[:1]) + old[1:]
		}
		if x.m.Name != old {
			return &Plant{Op: "rpc-case-same-words", Rule: "RPC_PASCAL_CASE", Desc: fmt.Sprintf("rename rpc %s -> %s", old, x.m.Name), Sites: []string{x.m.ID}}, true
		}
	}
	x.m.Name = "bad_" + e.fresh()
	return &Plant{Op: "rpc-case", Rule: "RPC_PASCAL_CASE", Desc: fmt.Sprintf("rename rpc %s -> %s", old, x.m.Name), Sites: []string{x.m.ID},
		Also: []string{"RPC_REQUEST_STANDARD_NAME", "RPC_RESPONSE_STANDARD_NAME"}}, true
}

func plantFieldCase(e *Editor, ws *Workspace) (*Plant, bool) {
	sites := lintFieldSites(ws, func(s fieldSite) bool { return s.fld.TypeKind != "group" })
	if len(sites) == 0 {
		return nil, false
	}
	s := sites[e.pick("site", len(sites))]
	old := s.fld.Name
	s.fld.Name = []string{"badCamel" + lowerSnakeToPascal(e.fresh()), "Bad_" + e.fresh(), "BAD" + strings.ToUpper(strings.ReplaceAll(e.fresh(), "_", ""))}[e.pick("style", 3)]
	return &Plant{Op: "field-case", Rule: "FIELD_LOWER_SNAKE_CASE", Desc: fmt.Sprintf("rename field %s.%s -> %s (depth %d)", s.msg.Full, old, s.fld.Name, s.msg.Depth), Sites: []string{s.fld.ID}}, true
}

func plantOneofCase(e *Editor, ws *Workspace) (*Plant, bool) {
	sites := lintMsgSites(ws, func(m MsgRef) bool { return len(m.Msg.Oneofs) > 0 })
	if len(sites) == 0 {
		return nil, false
	}
	s := sites[e.pick("site", len(sites))]
	o := s.Msg.Oneofs[e.pick("oneof", len(s.Msg.Oneofs))]
	old := o.Name
	o.Name = "badOneof" + lowerSnakeToPascal(e.fresh())
	for _, f := range s.Msg.Fields {
		if f.Oneof == old {
			f.Oneof = o.Name
		}
	}
	return &Plant{Op: "oneof-case", Rule: "ONEOF_LOWER_SNAKE_CASE", Desc: fmt.Sprintf("rename oneof %s.%s -> %s", s.Full, old, o.Name), Sites: []string{o.ID}}, true
}

type valSite struct {
	er EnumRef
	v  *EnumValue
	i  int
}

func valSites(ws *Workspace, pred func(valSite) bool) []valSite {
	var out []valSite
	for _, er := range lintEnumSites(ws, nil) {
		for i, v := range er.Enum.Values {
			s := valSite{er, v, i}
			if pred == nil || pred(s) {
				out = append(out, s)
			}
		}
	}
	return out
}

func plantEnumValueCase(e *Editor, ws *Workspace) (*Plant, bool) {
	sites := valSites(ws, func(s valSite) bool { return s.v.Number != 0 })
	if len(sites) == 0 {
		return nil, false
	}
	s := sites[e.pick("site", len(sites))]
	old := s.v.Name
	s.v.Name = UpperSnake(s.er.Enum.Name) + "_bad" + lowerSnakeToPascal(e.fresh())
	return &Plant{Op: "enum-value-case", Rule: "ENUM_VALUE_UPPER_SNAKE_CASE", Desc: fmt.Sprintf("rename value %s -> %s", old, s.v.Name), Sites: []string{s.v.ID}}, true
}

func plantEnumValuePrefix(e *Editor, ws *Workspace) (*Plant, bool) {
	sites := valSites(ws, nil)
	if len(sites) == 0 {
		return nil, false
	}
	s := sites[e.pick("site", len(sites))]
	old := s.v.Name
	suffix := strings.TrimPrefix(old, UpperSnake(s.er.Enum.Name)+"_")
	s.v.Name = "WRONG" + strings.ToUpper(strings.ReplaceAll(e.fresh(), "_", "")) + "_" + suffix
	return &Plant{Op: "enum-value-prefix", Rule: "ENUM_VALUE_PREFIX", Desc: fmt.Sprintf("rename value %s -> %s", old, s.v.Name), Sites: []string{s.v.ID}}, true
}

func plantEnumZeroSuffix(e *Editor, ws *Workspace) (*Plant, bool) {
	sites := valSites(ws, func(s valSite) bool { return s.v.Number == 0 })
	if len(sites) == 0 {
		return nil, false
	}
	s := sites[e.pick("site", len(sites))]
	old := s.v.Name
	s.v.Name = UpperSnake(s.er.Enum.Name) + "_ZERO" + strings.ToUpper(strings.ReplaceAll(e.fresh(), "_", ""))
	return &Plant{Op: "enum-zero-suffix", Rule: "ENUM_ZERO_VALUE_SUFFIX", Desc: fmt.Sprintf("rename zero value %s -> %s", old, s.v.Name), Sites: []string{s.v.ID}}, true
}

func plantEnumAllowAlias(e *Editor, ws *Workspace) (*Plant, bool) {
	sites := lintEnumSites(ws, func(er EnumRef) bool { return !hasOpt(er.Enum.Options, "allow_alias") })
	if len(sites) == 0 {
		return nil, false
	}
	s := sites[e.pick("site", len(sites))]
	v0 := s.Enum.Values[len(s.Enum.Values)-1]
	if v0.Number == 0 {
		return nil, false // an alias of the zero value would also need the zero-value suffix
	}
	s.Enum.Options = SetOption(s.Enum.Options, "allow_alias", "true")
	alias := &EnumValue{ID: e.id(), Name: UpperSnake(s.Enum.Name) + "_" + strings.ToUpper(e.fresh()), Number: v0.Number, Comment: "alias."}
	s.Enum.Values = append(s.Enum.Values, alias)
	return &Plant{Op: "enum-allow-alias", Rule: "ENUM_NO_ALLOW_ALIAS", Desc: "allow_alias on " + s.Full, Sites: []string{s.Enum.ID + "#allow_alias"}}, true
}

func plantEnumFirstValueNonZero(e *Editor, ws *Workspace) (*Plant, bool) {
	refs := typeRefs(ws)
	sites := lintEnumSites(ws, func(er EnumRef) bool {
		return isProto2ish(er.File.Syntax) && er.Enum.Values[0].Number == 0 && refs["."+er.Full] == 0
	})
	if len(sites) == 0 {
		return nil, false
	}
	s := sites[e.pick("site", len(sites))]
	used := map[int32]bool{}
	for _, v := range s.Enum.Values {
		used[v.Number] = true
	}
	for _, r := range s.Enum.ReservedRanges {
		for k := r.Start; k <= r.End && k-r.Start < 100000; k++ {
			used[k] = true
		}
	}
	n := int32(50)
	for used[n] {
		n++
	}
	s.Enum.Values[0].Number = n
	return &Plant{Op: "enum-first-value-nonzero", Rule: "ENUM_FIRST_VALUE_ZERO", Desc: "first value of " + s.Full + " = " + fmt.Sprint(n), Sites: []string{s.Enum.Values[0].ID},
		Versions: []string{"v1", "v2"}}, true
}

func plantFieldRequired(e *Editor, ws *Workspace) (*Plant, bool) {
	sites := lintFieldSites(ws, func(s fieldSite) bool {
		return isProto2ish(s.file.Syntax) && s.fld.Label == LabelOptional && s.fld.Oneof == "" && s.fld.MapKey == ""
	})
	if len(sites) == 0 {
		return nil, false
	}
	s := sites[e.pick("site", len(sites))]
	s.fld.Label = LabelRequired
	s.fld.Options = DelOption(s.fld.Options, "default")
	return &Plant{Op: "field-required", Rule: "FIELD_NOT_REQUIRED", Desc: fmt.Sprintf("%s.%s required", s.msg.Full, s.fld.Name), Sites: []string{s.fld.ID}, Versions: []string{"v2"}}, true
}

func plantFieldDescriptor(e *Editor, ws *Workspace) (*Plant, bool) {
	sites := lintFieldSites(ws, func(s fieldSite) bool { return s.fld.TypeKind != "group" && !isGroupBody(s.msg) })
	if len(sites) == 0 {
		return nil, false
	}
	s := sites[e.pick("site", len(sites))]
	for _, f := range s.msg.Msg.Fields {
		if f.Name == "descriptor" {
			return nil, false
		}
	}
	old := s.fld.Name
	s.fld.Name = "descriptor"
	return &Plant{Op: "field-descriptor", Rule: "FIELD_NO_DESCRIPTOR", Desc: fmt.Sprintf("%s.%s -> descriptor", s.msg.Full, old), Sites: []string{s.fld.ID}, Versions: []string{"v1beta1"}}, true
}

func plantStreaming(e *Editor, ws *Workspace) (*Plant, bool) {
	sites := rpcSites(ws)
	if len(sites) == 0 {
		return nil, false
	}
	x := sites[e.pick("site", len(sites))]
	if e.pick("which", 2) == 0 {
		x.m.ClientStream = true
		return &Plant{Op: "rpc-client-streaming", Rule: "RPC_NO_CLIENT_STREAMING", Desc: x.s.Name + "." + x.m.Name + " client streaming", Sites: []string{x.m.ID}}, true
	}
	x.m.ServerStream = true
	return &Plant{Op: "rpc-server-streaming", Rule: "RPC_NO_SERVER_STREAMING", Desc: x.s.Name + "." + x.m.Name + " server streaming", Sites: []string{x.m.ID}}, true
}

func plantRPCSameReqResp(e *Editor, ws *Workspace) (*Plant, bool) {
	sites := rpcSites(ws)
	if len(sites) == 0 {
		return nil, false
	}
	x := sites[e.pick("site", len(sites))]
	x.m.Output = x.m.Input
	return &Plant{Op: "rpc-same-request-response", Rule: "RPC_REQUEST_RESPONSE_UNIQUE", Desc: x.s.Name + "." + x.m.Name + " response = request", Sites: []string{x.m.ID},
		Also: []string{"RPC_RESPONSE_STANDARD_NAME"}}, true
}

// plantRPCSharedRequestAcrossServices: two RPCs of the same name in different services share one request type.
func plantRPCSharedRequestAcrossServices(e *Editor, ws *Workspace) (*Plant, bool) {
	type pair struct{ a, b rpcSite }
	var pairs []pair
	sites := rpcSites(ws)
	for _, a := range sites {
		for _, b := range sites {
			if a.f == b.f && a.s != b.s {
				pairs = append(pairs, pair{a, b})
			}
		}
	}
	if len(pairs) == 0 {
		return nil, false
	}
	p := pairs[e.pick("pair", len(pairs))]
	for _, m := range p.b.s.Methods {
		if m != p.b.m && m.Name == p.a.m.Name {
			return nil, false
		}
	}
	p.b.m.Name = p.a.m.Name
	p.b.m.Input = p.a.m.Input
	return &Plant{Op: "rpc-shared-request-across-services", Rule: "RPC_REQUEST_RESPONSE_UNIQUE",
		Desc:  fmt.Sprintf("%s.%s and %s.%s (same rpc name) both take %s", p.a.s.Name, p.a.m.Name, p.b.s.Name, p.b.m.Name, p.a.m.Input),
		Sites: []string{p.a.m.ID, p.b.m.ID}, Also: []string{"RPC_RESPONSE_STANDARD_NAME"}}, true
}

// plantRPCEmpty makes an RPC take or return google.protobuf.Empty (non-standard name unless the rpc_allow_google_protobuf_empty_* option is set).
func plantRPCEmpty(e *Editor, ws *Workspace) (*Plant, bool) {
	sites := rpcSites(ws)
	if len(sites) == 0 {
		return nil, false
	}
	x := sites[e.pick("site", len(sites))]
	has := false
	for _, i := range x.f.Imports {
		if i.Path == "google/protobuf/empty.proto" {
			has = true
		}
	}
	if !has {
		x.f.Imports = append(x.f.Imports, Import{Path: "google/protobuf/empty.proto"})
	}
	if e.pick("which", 2) == 0 {
		x.m.Input = ".google.protobuf.Empty"
		return &Plant{Op: "rpc-empty-request", Rule: "RPC_REQUEST_STANDARD_NAME", Desc: x.s.Name + "." + x.m.Name + " takes google.protobuf.Empty", Sites: []string{x.m.ID}}, true
	}
	x.m.Output = ".google.protobuf.Empty"
	return &Plant{Op: "rpc-empty-response", Rule: "RPC_RESPONSE_STANDARD_NAME", Desc: x.s.Name + "." + x.m.Name + " returns google.protobuf.Empty", Sites: []string{x.m.ID}}, true
}

func plantRPCRequestName(e *Editor, ws *Workspace) (*Plant, bool) {
	sites := rpcSites(ws)
	if len(sites) == 0 {
		return nil, false
	}
	x := sites[e.pick("site", len(sites))]
	which := e.pick("which", 2)
	old := x.m.Input
	rule := "RPC_REQUEST_STANDARD_NAME"
	if which == 1 {
		old = x.m.Output
		rule = "RPC_RESPONSE_STANDARD_NAME"
	}
	// rename the message everywhere
	newName := "Odd" + lowerSnakeToPascal(e.fresh())
	var target *Message
	for _, f := range ws.AllFiles() {
		f.WalkMessages(func(m MsgRef) {
			if "."+m.Full == old {
				target = m.Msg
			}
		})
	}
	if target == nil {
		return nil, false
	}
	target.Name = newName
	RenameTypePrefix(ws, old, old[:strings.LastIndex(old, ".")+1]+newName)
	return &Plant{Op: "rpc-nonstandard-" + []string{"request", "response"}[which], Rule: rule, Desc: fmt.Sprintf("%s.%s: %s renamed to %s", x.s.Name, x.m.Name, old, newName), Sites: []string{x.m.ID}}, true
}

func plantCommentMissing(e *Editor, ws *Workspace) (*Plant, bool) {
	switch e.pick("kind", 7) {
	case 0:
		sites := lintMsgSites(ws, func(m MsgRef) bool { return !isGroupBody(m) && m.Msg.Comment != "" })
		if len(sites) == 0 {
			return nil, false
		}
		s := sites[e.pick("site", len(sites))]
		s.Msg.Comment = ""
		return &Plant{Op: "comment-message", Rule: "COMMENT_MESSAGE", Desc: "no comment on message " + s.Full, Sites: []string{s.Msg.ID}}, true
	case 1:
		sites := lintEnumSites(ws, func(er EnumRef) bool { return er.Enum.Comment != "" })
		if len(sites) == 0 {
			return nil, false
		}
		s := sites[e.pick("site", len(sites))]
		s.Enum.Comment = ""
		return &Plant{Op: "comment-enum", Rule: "COMMENT_ENUM", Desc: "no comment on enum " + s.Full, Sites: []string{s.Enum.ID}}, true
	case 2:
		sites := valSites(ws, func(s valSite) bool { return s.v.Comment != "" })
		if len(sites) == 0 {
			return nil, false
		}
		s := sites[e.pick("site", len(sites))]
		s.v.Comment = ""
		return &Plant{Op: "comment-enum-value", Rule: "COMMENT_ENUM_VALUE", Desc: "no comment on value " + s.v.Name, Sites: []string{s.v.ID}}, true
	case 3:
		sites := lintFieldSites(ws, func(s fieldSite) bool { return s.fld.Comment != "" && s.fld.TypeKind != "group" })
		if len(sites) == 0 {
			return nil, false
		}
		s := sites[e.pick("site", len(sites))]
		s.fld.Comment = ""
		return &Plant{Op: "comment-field", Rule: "COMMENT_FIELD", Desc: fmt.Sprintf("no comment on field %s.%s", s.msg.Full, s.fld.Name), Sites: []string{s.fld.ID}}, true
	case 4:
		sites := lintMsgSites(ws, func(m MsgRef) bool { return len(m.Msg.Oneofs) > 0 })
		if len(sites) == 0 {
			return nil, false
		}
		s := sites[e.pick("site", len(sites))]
		o := s.Msg.Oneofs[0]
		o.Comment = ""
		return &Plant{Op: "comment-oneof", Rule: "COMMENT_ONEOF", Desc: "no comment on oneof " + o.Name, Sites: []string{o.ID}}, true
	case 5:
		sites := rpcSites(ws)
		if len(sites) == 0 {
			return nil, false
		}
		x := sites[e.pick("site", len(sites))]
		x.m.Comment = ""
		return &Plant{Op: "comment-rpc", Rule: "COMMENT_RPC", Desc: "no comment on rpc " + x.m.Name, Sites: []string{x.m.ID}}, true
	default:
		sites := svcSites(ws)
		if len(sites) == 0 {
			return nil, false
		}
		x := sites[e.pick("site", len(sites))]
		x.s.Comment = ""
		return &Plant{Op: "comment-service", Rule: "COMMENT_SERVICE", Desc: "no comment on service " + x.s.Name, Sites: []string{x.s.ID}}, true
	}
}

func plantImportUnused(e *Editor, ws *Workspace) (*Plant, bool) {
	files := lintFiles(ws)
	type cand struct {
		f    *File
		path string
	}
	var cands []cand
	order := ws.AllFiles()
	for _, f := range files {
		has := map[string]bool{}
		for _, i := range f.Imports {
			has[i.Path] = true
		}
		for _, g := range order {
			// g must not (transitively) import f, or the new import would close a cycle
			if g != f && !has[g.Path] && !ws.ImportClosure([]string{g.Path})[f.Path] && (g.Package == f.Package || !pkgReach(ws, g.Package)[f.Package]) {
				cands = append(cands, cand{f, g.Path})
			}
		}
		if !has["google/protobuf/source_context.proto"] {
			cands = append(cands, cand{f, "google/protobuf/source_context.proto"})
		}
	}
	if len(cands) == 0 {
		return nil, false
	}
	c := cands[e.pick("site", len(cands))]
	c.f.Imports = append(c.f.Imports, Import{Path: c.path, Unused: true})
	return &Plant{Op: "import-unused", Rule: "IMPORT_USED", Desc: fmt.Sprintf("%s imports %s without using it", c.f.Path, c.path), Sites: []string{c.f.ID + "#import:" + c.path},
		Versions: []string{"v1", "v2"}}, true
}

// pkgReach returns the packages reachable from pkg through file imports (package graph).
func pkgReach(ws *Workspace, pkg string) map[string]bool {
	edges := map[string]map[string]bool{}
	for _, f := range ws.AllFiles() {
		for _, i := range f.Imports {
			if g, _ := ws.FileByPath(i.Path); g != nil && g.Package != f.Package {
				if edges[f.Package] == nil {
					edges[f.Package] = map[string]bool{}
				}
				edges[f.Package][g.Package] = true
			}
		}
	}
	seen := map[string]bool{}
	var rec func(p string)
	rec = func(p string) {
		for q := range edges[p] {
			if !seen[q] {
				seen[q] = true
				rec(q)
			}
		}
	}
	rec(pkg)
	return seen
}

func plantImportPublic(e *Editor, ws *Workspace) (*Plant, bool) {
	type cand struct {
		f *File
		i int
	}
	var cands []cand
	for _, f := range lintFiles(ws) {
		for i, imp := range f.Imports {
			if !imp.Public && !imp.Weak {
				cands = append(cands, cand{f, i})
			}
		}
	}
	if len(cands) == 0 {
		return nil, false
	}
	c := cands[e.pick("site", len(cands))]
	c.f.Imports[c.i].Public = true
	return &Plant{Op: "import-public", Rule: "IMPORT_NO_PUBLIC", Desc: fmt.Sprintf("%s: import public %s", c.f.Path, c.f.Imports[c.i].Path), Sites: []string{c.f.ID + "#import:" + c.f.Imports[c.i].Path},
		// importers of this file that import the same path directly now have a redundant import
		Also: []string{"IMPORT_USED"}}, true
}

func plantSyntaxUnspecified(e *Editor, ws *Workspace) (*Plant, bool) {
	var cands []*File
	for _, f := range lintFiles(ws) {
		if f.Syntax == Proto2 {
			cands = append(cands, f)
		}
	}
	if len(cands) == 0 {
		return nil, false
	}
	f := cands[e.pick("file", len(cands))]
	f.Syntax = SyntaxUnspecified
	return &Plant{Op: "syntax-unspecified", Rule: "SYNTAX_SPECIFIED", Desc: f.Path + " without syntax", Sites: []string{f.ID}, Versions: []string{"v1", "v2"}}, true
}

func plantFileCase(e *Editor, ws *Workspace) (*Plant, bool) {
	files := lintFiles(ws)
	if len(files) == 0 {
		return nil, false
	}
	f := files[e.pick("file", len(files))]
	MoveFile(ws, f, dirOf(f.Path)+"/Bad"+lowerSnakeToPascal(e.fresh())+".proto")
	return &Plant{Op: "file-case", Rule: "FILE_LOWER_SNAKE_CASE", Desc: "file renamed to " + f.Path, Sites: []string{f.ID}}, true
}

func plantPackageVersion(e *Editor, ws *Workspace) (*Plant, bool) {
	pkgs := map[string]bool{}
	for _, f := range lintFiles(ws) {
		pkgs[f.Package] = true
	}
	names := SortedKeys(pkgs)
	if len(names) == 0 {
		return nil, false
	}
	old := names[e.pick("pkg", len(names))]
	i := strings.LastIndex(old, ".")
	if i < 0 {
		return nil, false
	}
	neu := old[:i] + ".unversioned" + strings.ReplaceAll(e.fresh(), "_", "")
	changePackageEverywhere(ws, old, neu)
	movePackageDir(ws, neu, strings.ReplaceAll(neu, ".", "/"))
	fs := filesOfPackage(ws, neu)
	return &Plant{Op: "package-version-suffix", Rule: "PACKAGE_VERSION_SUFFIX", Desc: fmt.Sprintf("package %s -> %s", old, neu), Sites: pkgStmtIDs(fs)}, true
}

func plantPackageCase(e *Editor, ws *Workspace) (*Plant, bool) {
	pkgs := map[string]bool{}
	for _, f := range lintFiles(ws) {
		pkgs[f.Package] = true
	}
	names := SortedKeys(pkgs)
	if len(names) == 0 {
		return nil, false
	}
	old := names[e.pick("pkg", len(names))]
	i := strings.LastIndex(old, ".")
	if i < 0 {
		return nil, false
	}
	neu := old[:i] + "Bad" + lowerSnakeToPascal(e.fresh()) + old[i:]
	changePackageEverywhere(ws, old, neu)
	movePackageDir(ws, neu, strings.ReplaceAll(neu, ".", "/"))
	fs := filesOfPackage(ws, neu)
	return &Plant{Op: "package-case", Rule: "PACKAGE_LOWER_SNAKE_CASE", Desc: fmt.Sprintf("package %s -> %s", old, neu), Sites: pkgStmtIDs(fs)}, true
}

func plantPackageDirectoryMismatch(e *Editor, ws *Workspace) (*Plant, bool) {
	pkgs := map[string]bool{}
	for _, f := range lintFiles(ws) {
		pkgs[f.Package] = true
	}
	names := SortedKeys(pkgs)
	if len(names) == 0 {
		return nil, false
	}
	pkg := names[e.pick("pkg", len(names))]
	movePackageDir(ws, pkg, "elsewhere/"+strings.ReplaceAll(e.fresh(), "_", ""))
	fs := filesOfPackage(ws, pkg)
	return &Plant{Op: "package-directory-mismatch", Rule: "PACKAGE_DIRECTORY_MATCH", Desc: fmt.Sprintf("package %s moved to %s", pkg, dirOf(fs[0].Path)), Sites: pkgStmtIDs(fs)}, true
}

func multiFilePackages(ws *Workspace) []string {
	count := map[string]int{}
	for _, f := range lintFiles(ws) {
		count[f.Package]++
	}
	var out []string
	for p, n := range count {
		if n >= 2 {
			out = append(out, p)
		}
	}
	sort.Strings(out)
	return out
}

func plantPackageSameDirectory(e *Editor, ws *Workspace) (*Plant, bool) {
	pkgs := multiFilePackages(ws)
	if len(pkgs) == 0 {
		return nil, false
	}
	pkg := pkgs[e.pick("pkg", len(pkgs))]
	fs := filesOfPackage(ws, pkg)
	f := fs[e.pick("file", len(fs))]
	// stays in the same module; the new directory holds only this file
	MoveFile(ws, f, "splitdir/"+strings.ReplaceAll(e.fresh(), "_", "")+"/"+baseOf(f.Path))
	return &Plant{Op: "package-two-directories", Rule: "PACKAGE_SAME_DIRECTORY", Desc: fmt.Sprintf("file %s of package %s moved to its own directory", f.Path, pkg), Sites: pkgStmtIDs(fs),
		Also: []string{"PACKAGE_DIRECTORY_MATCH"}}, true
}

func plantPackageOptionDiffers(e *Editor, ws *Workspace) (*Plant, bool) {
	pkgs := multiFilePackages(ws)
	if len(pkgs) == 0 {
		return nil, false
	}
	pkg := pkgs[e.pick("pkg", len(pkgs))]
	fs := filesOfPackage(ws, pkg)
	f := fs[e.pick("file", len(fs))]
	opts := []struct{ name, rule, val string }{
		{"go_package", "PACKAGE_SAME_GO_PACKAGE", `"example.com/other/` + strings.ReplaceAll(e.fresh(), "_", "") + `"`},
		{"java_package", "PACKAGE_SAME_JAVA_PACKAGE", `"com.other.` + strings.ReplaceAll(e.fresh(), "_", "") + `"`},
		{"java_multiple_files", "PACKAGE_SAME_JAVA_MULTIPLE_FILES", "true"},
		{"csharp_namespace", "PACKAGE_SAME_CSHARP_NAMESPACE", `"Other.` + lowerSnakeToPascal(e.fresh()) + `"`},
		{"php_namespace", "PACKAGE_SAME_PHP_NAMESPACE", `"Other\\` + lowerSnakeToPascal(e.fresh()) + `"`},
		{"ruby_package", "PACKAGE_SAME_RUBY_PACKAGE", `"Other::` + lowerSnakeToPascal(e.fresh()) + `"`},
		{"swift_prefix", "PACKAGE_SAME_SWIFT_PREFIX", `"OT` + strings.ToUpper(words[e.pick("w", len(words))][:1]) + `"`},
	}
	o := opts[e.pick("opt", len(opts))]
	cur, has := GetOption(f.Options, o.name)
	val := o.val
	if o.name == "java_multiple_files" {
		if has && cur == "true" {
			val = "false"
		}
	}
	op := "package-option-differs:"
	anyHas := false
	for _, x := range fs {
		if _, ok := GetOption(x.Options, o.name); ok {
			anyHas = true
		}
	}
	switch {
	case has && len(fs) > 1 && e.pick("unset", 3) == 0:
		// the option is dropped from this file only: set in the others, unset here
		f.Options = DelOption(f.Options, o.name)
		op = "package-option-unset-in-one-file:"
		val = "(unset)"
	case !anyHas && o.name == "java_multiple_files" && e.pick("explicitfalse", 2) == 0:
		// an explicit false in one file, unset in the others
		val = "false"
		f.Options = SetOption(f.Options, o.name, val)
		op = "package-option-explicit-default-in-one-file:"
	default:
		f.Options = SetOption(f.Options, o.name, val)
	}
	return &Plant{Op: op + o.name, Rule: o.rule, Desc: fmt.Sprintf("%s: %s = %s differs from the other files of package %s", f.Path, o.name, val, pkg), Sites: fileIDs(fs)}, true
}

func plantDirectoryTwoPackages(e *Editor, ws *Workspace) (*Plant, bool) {
	// a directory with >= 2 files (all of one package by construction)
	byDir := map[string][]*File{}
	for _, f := range lintFiles(ws) {
		m := ws.ModuleOf(f)
		byDir[m.Dir+"|"+dirOf(f.Path)] = append(byDir[m.Dir+"|"+dirOf(f.Path)], f)
	}
	var dirs []string
	for d, fs := range byDir {
		if len(fs) >= 2 {
			dirs = append(dirs, d)
		}
	}
	sort.Strings(dirs)
	if len(dirs) == 0 {
		return nil, false
	}
	fs := byDir[dirs[e.pick("dir", len(dirs))]]
	f := fs[e.pick("file", len(fs))]
	// give this one file another (versioned, lower snake) package; rewrite references to its types
	old := f.Package
	i := strings.LastIndex(old, ".")
	if i < 0 {
		return nil, false
	}
	neu := old[:i] + "other" + strings.ReplaceAll(e.fresh(), "_", "") + old[i:]
	f.Package = neu
	var names []string
	for _, m := range f.Messages {
		names = append(names, m.Name)
	}
	for _, en := range f.Enums {
		names = append(names, en.Name)
	}
	for _, n := range names {
		RenameTypePrefix(ws, "."+old+"."+n, "."+neu+"."+n)
	}
	return &Plant{Op: "directory-two-packages", Rule: "DIRECTORY_SAME_PACKAGE", Desc: fmt.Sprintf("%s: package %s -> %s while its directory siblings keep %s", f.Path, old, neu, old), Sites: pkgStmtIDs(fs),
		Also: []string{"PACKAGE_DIRECTORY_MATCH", "PACKAGE_NO_IMPORT_CYCLE", "PACKAGE_SAME_GO_PACKAGE", "PACKAGE_SAME_JAVA_PACKAGE", "PACKAGE_SAME_JAVA_MULTIPLE_FILES", "PACKAGE_SAME_CSHARP_NAMESPACE"}}, true
}

// crossPackageImportSites returns the import-statement ids of every cross-package import that lies on a package cycle.
func cyclicImportSites(ws *Workspace) []string {
	var out []string
	for _, f := range lintFiles(ws) {
		for _, imp := range f.Imports {
			g, _ := ws.FileByPath(imp.Path)
			if g == nil || g.Package == f.Package {
				continue
			}
			if pkgReach(ws, g.Package)[f.Package] {
				out = append(out, f.ID+"#import:"+imp.Path)
			}
		}
	}
	sort.Strings(out)
	return out
}

func plantPackageImportCycle(e *Editor, ws *Workspace) (*Plant, bool) {
	if len(cyclicImportSites(ws)) > 0 {
		return nil, false
	}
	type edge struct{ from, to *File }
	var edges []edge
	for _, f := range lintFiles(ws) {
		for _, imp := range f.Imports {
			if g, _ := ws.FileByPath(imp.Path); g != nil && g.Package != f.Package && len(f.Messages) > 0 {
				edges = append(edges, edge{f, g})
			}
		}
	}
	if len(edges) == 0 {
		return nil, false
	}
	ed := edges[e.pick("edge", len(edges))]
	// a new file in the imported package that uses a message of the importing file
	h := &File{ID: e.id(), Path: dirOf(ed.to.Path) + "/" + e.fresh() + ".proto", Syntax: ed.to.Syntax, Package: ed.to.Package}
	for _, o := range ed.to.Options {
		if !strings.HasPrefix(o.Name, "(") {
			h.Options = append(h.Options, o)
		}
	}
	target := ed.from.Messages[0]
	m := &Message{ID: e.id(), Name: lowerSnakeToPascal(e.fresh()), Comment: "cycle maker."}
	fld := &Field{ID: e.id(), Name: e.fresh(), Number: 1, Type: "." + FullName(ed.from.Package, target.Name), TypeKind: "message", Comment: "back reference."}
	if isProto2ish(h.Syntax) {
		fld.Label = LabelOptional
	}
	m.Fields = []*Field{fld}
	h.Messages = []*Message{m}
	h.Imports = []Import{{Path: ed.from.Path}}
	mod := ws.ModuleOf(ed.to)
	mod.Files = append(mod.Files, h)
	sites := cyclicImportSites(ws)
	if len(sites) == 0 {
		return nil, false
	}
	return &Plant{Op: "package-import-cycle", Rule: "PACKAGE_NO_IMPORT_CYCLE", Desc: fmt.Sprintf("new file %s of package %s imports %s of package %s, which imports %s", h.Path, h.Package, ed.from.Path, ed.from.Package, ed.to.Path),
		Sites: sites, Versions: []string{"v2"}}, true
}

func plantStableImportsUnstable(e *Editor, ws *Workspace) (*Plant, bool) {
	// a package that is imported by another (stable) package becomes vNalpha1
	imported := map[string]bool{}
	for _, f := range lintFiles(ws) {
		for _, imp := range f.Imports {
			if g, _ := ws.FileByPath(imp.Path); g != nil && g.Package != f.Package {
				imported[g.Package] = true
			}
		}
	}
	names := SortedKeys(imported)
	if len(names) == 0 {
		return nil, false
	}
	old := names[e.pick("pkg", len(names))]
	neu := old + "alpha1"
	changePackageEverywhere(ws, old, neu)
	movePackageDir(ws, neu, strings.ReplaceAll(neu, ".", "/"))
	var sites []string
	for _, f := range lintFiles(ws) {
		if f.Package == neu || strings.Contains(f.Package[strings.LastIndex(f.Package, ".")+1:], "alpha") {
			continue
		}
		for _, imp := range f.Imports {
			if g, _ := ws.FileByPath(imp.Path); g != nil && g.Package == neu {
				sites = append(sites, f.ID+"#import:"+imp.Path)
			}
		}
	}
	if len(sites) == 0 {
		return nil, false
	}
	sort.Strings(sites)
	return &Plant{Op: "stable-imports-unstable", Rule: "STABLE_PACKAGE_NO_IMPORT_UNSTABLE", Desc: fmt.Sprintf("package %s becomes %s while stable packages import it", old, neu), Sites: sites, Versions: []string{"v2"}}, true
}

func plantPackageUndefined(e *Editor, ws *Workspace) (*Plant, bool) {
	// a file that is alone in its package and directory loses its package statement
	var cands []*File
	for _, f := range lintFiles(ws) {
		alone := true
		for _, g := range lintFiles(ws) {
			if g != f && (g.Package == f.Package || (dirOf(g.Path) == dirOf(f.Path) && ws.ModuleOf(g) == ws.ModuleOf(f))) {
				alone = false
			}
		}
		if alone && f.Package != "" && len(f.Services) == 0 {
			cands = append(cands, f)
		}
	}
	if len(cands) == 0 {
		return nil, false
	}
	f := cands[e.pick("file", len(cands))]
	old := f.Package
	f.Package = ""
	mapTypes(ws, func(t string) string {
		if strings.HasPrefix(t, "."+old+".") {
			return strings.TrimPrefix(t, "."+old)
		}
		return t
	})
	return &Plant{Op: "package-undefined", Rule: "PACKAGE_DEFINED", Desc: f.Path + " without package (was " + old + ")", Sites: []string{f.ID}}, true
}

// PlantOps is the planting catalogue.
var PlantOps = []PlantOp{
	{"message-case", plantMessageCase},
	{"enum-case", plantEnumCase},
	{"service-case", plantServiceCase},
	{"service-suffix", plantServiceSuffix},
	{"rpc-case", plantRPCCase},
	{"field-case", plantFieldCase},
	{"oneof-case", plantOneofCase},
	{"enum-value-case", plantEnumValueCase},
	{"enum-value-prefix", plantEnumValuePrefix},
	{"enum-zero-suffix", plantEnumZeroSuffix},
	{"enum-allow-alias", plantEnumAllowAlias},
	{"enum-first-value-nonzero", plantEnumFirstValueNonZero},
	{"field-required", plantFieldRequired},
	{"field-descriptor", plantFieldDescriptor},
	{"rpc-streaming", plantStreaming},
	{"rpc-same-request-response", plantRPCSameReqResp},
	{"rpc-nonstandard-name", plantRPCRequestName},
	{"rpc-empty", plantRPCEmpty},
	{"rpc-shared-request-across-services", plantRPCSharedRequestAcrossServices},
	{"comment-missing", plantCommentMissing},
	{"import-unused", plantImportUnused},
	{"import-public", plantImportPublic},
	{"syntax-unspecified", plantSyntaxUnspecified},
	{"file-case", plantFileCase},
	{"package-version-suffix", plantPackageVersion},
	{"package-case", plantPackageCase},
	{"package-directory-mismatch", plantPackageDirectoryMismatch},
	{"package-two-directories", plantPackageSameDirectory},
	{"package-option-differs", plantPackageOptionDiffers},
	{"directory-two-packages", plantDirectoryTwoPackages},
	{"package-import-cycle", plantPackageImportCycle},
	{"stable-imports-unstable", plantStableImportsUnstable},
	{"package-undefined", plantPackageUndefined},
}

// ApplyPlant applies one planting operator.
func (e *Editor) ApplyPlant(ws *Workspace) *Plant {
	// a few independent uniform draws first: an operator's share then follows its own applicability instead of
	// inheriting the share of inapplicable operators listed before it
	for try := 0; try < 6; try++ {
		if p, ok := PlantOps[e.pick("plantop", len(PlantOps))].Apply(e, ws); ok {
			return p
		}
	}
	start := e.pick("plantop", len(PlantOps))
	for k := 0; k < len(PlantOps); k++ {
		op := PlantOps[(start+k)%len(PlantOps)]
		if p, ok := op.Apply(e, ws); ok {
			return p
		}
	}
	return nil
}

// ApplyPlantNamed applies the named planting operator family, or returns nil if it has no applicable site.
func (e *Editor) ApplyPlantNamed(ws *Workspace, name string) *Plant {
	for _, op := range PlantOps {
		if op.Name == name {
			if p, ok := op.Apply(e, ws); ok {
				return p
			}
		}
	}
	return nil
}

// ---------------------------------------------------------------------------------------------
// lint rule -> category membership per config version (reference copy of the documented tables)

// lintCats[rule] = {v1beta1, v1, v2}; "-" = does not exist; "" = exists, uncategorised.
// M=MINIMAL B=BASIC S=STANDARD(=DEFAULT) C=COMMENTS U=UNARY_RPC
var lintCats = map[string][3]string{
	"COMMENT_ENUM": {"C", "C", "C"}, "COMMENT_ENUM_VALUE": {"C", "C", "C"}, "COMMENT_FIELD": {"C", "C", "C"}, "COMMENT_MESSAGE": {"C", "C", "C"},
	"COMMENT_ONEOF": {"C", "C", "C"}, "COMMENT_RPC": {"C", "C", "C"}, "COMMENT_SERVICE": {"C", "C", "C"},
	"DIRECTORY_SAME_PACKAGE":            {"MBS", "MBS", "MBS"},
	"ENUM_FIRST_VALUE_ZERO":             {"", "BS", "BS"}, // v1beta1: only in the v1beta1-only category OTHER
	"ENUM_NO_ALLOW_ALIAS":               {"MBS", "BS", "BS"},
	"ENUM_PASCAL_CASE":                  {"BS", "BS", "BS"},
	"ENUM_VALUE_PREFIX":                 {"S", "S", "S"},
	"ENUM_VALUE_UPPER_SNAKE_CASE":       {"BS", "BS", "BS"},
	"ENUM_ZERO_VALUE_SUFFIX":            {"S", "S", "S"},
	"FIELD_LOWER_SNAKE_CASE":            {"BS", "BS", "BS"},
	"FIELD_NO_DESCRIPTOR":               {"MBS", "-", "-"},
	"FIELD_NOT_REQUIRED":                {"-", "-", "BS"},
	"FILE_LOWER_SNAKE_CASE":             {"S", "S", "S"},
	"IMPORT_NO_PUBLIC":                  {"MBS", "BS", "BS"},
	"IMPORT_NO_WEAK":                    {"", "", ""},
	"IMPORT_USED":                       {"-", "BS", "BS"},
	"MESSAGE_PASCAL_CASE":               {"BS", "BS", "BS"},
	"ONEOF_LOWER_SNAKE_CASE":            {"BS", "BS", "BS"},
	"PACKAGE_DEFINED":                   {"MBS", "MBS", "MBS"},
	"PACKAGE_DIRECTORY_MATCH":           {"MBS", "MBS", "MBS"},
	"PACKAGE_LOWER_SNAKE_CASE":          {"BS", "BS", "BS"},
	"PACKAGE_NO_IMPORT_CYCLE":           {"-", "", "MBS"},
	"PACKAGE_SAME_CSHARP_NAMESPACE":     {"MBS", "BS", "BS"},
	"PACKAGE_SAME_DIRECTORY":            {"MBS", "MBS", "MBS"},
	"PACKAGE_SAME_GO_PACKAGE":           {"MBS", "BS", "BS"},
	"PACKAGE_SAME_JAVA_MULTIPLE_FILES":  {"MBS", "BS", "BS"},
	"PACKAGE_SAME_JAVA_PACKAGE":         {"MBS", "BS", "BS"},
	"PACKAGE_SAME_PHP_NAMESPACE":        {"MBS", "BS", "BS"},
	"PACKAGE_SAME_RUBY_PACKAGE":         {"MBS", "BS", "BS"},
	"PACKAGE_SAME_SWIFT_PREFIX":         {"MBS", "BS", "BS"},
	"PACKAGE_VERSION_SUFFIX":            {"S", "S", "S"},
	"PROTOVALIDATE":                     {"-", "S", "S"},
	"RPC_NO_CLIENT_STREAMING":           {"U", "U", "U"},
	"RPC_NO_SERVER_STREAMING":           {"U", "U", "U"},
	"RPC_PASCAL_CASE":                   {"BS", "BS", "BS"},
	"RPC_REQUEST_RESPONSE_UNIQUE":       {"S", "S", "S"},
	"RPC_REQUEST_STANDARD_NAME":         {"S", "S", "S"},
	"RPC_RESPONSE_STANDARD_NAME":        {"S", "S", "S"},
	"SERVICE_PASCAL_CASE":               {"BS", "BS", "BS"},
	"SERVICE_SUFFIX":                    {"S", "S", "S"},
	"STABLE_PACKAGE_NO_IMPORT_UNSTABLE": {"-", "-", ""},
	"SYNTAX_SPECIFIED":                  {"-", "BS", "BS"},
}

// LintCategories are the categories common to all config versions.
var LintCategories = []string{"MINIMAL", "BASIC", "STANDARD", "DEFAULT", "COMMENTS", "UNARY_RPC"}

// LintRuleExists reports whether the lint rule exists in the version.
func LintRuleExists(rule, version string) bool {
	c, ok := lintCats[rule]
	return ok && c[verIdx(version)] != "-"
}

// LintRuleInCategory reports documented membership.
func LintRuleInCategory(rule, category, version string) bool {
	c, ok := lintCats[rule]
	if !ok || c[verIdx(version)] == "-" {
		return false
	}
	letter := map[string]string{"MINIMAL": "M", "BASIC": "B", "STANDARD": "S", "DEFAULT": "S", "COMMENTS": "C", "UNARY_RPC": "U"}[category]
	return letter != "" && strings.Contains(c[verIdx(version)], letter)
}

// AllLintRules lists the lint rule ids of the reference table.
func AllLintRules() []string {
	var out []string
	for r := range lintCats {
		out = append(out, r)
	}
	sort.Strings(out)
	return out
}
