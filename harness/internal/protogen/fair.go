package protogen

import "pgregory.net/rapid"

// FairBits draws n fair bits (rapid's integer generators are biased towards small values; fair
// coins are not). All-zero is what shrinking converges to.
func FairBits(t *rapid.T, label string, n int) int {
	v := 0
	for i := 0; i < n; i++ {
		v <<= 1
		if rapid.Bool().Draw(t, label) {
			v |= 1
		}
	}
	return v
}

// FairIntn draws an (almost) uniform integer of [lo, hi]; hi-lo must stay well below 1024.
func FairIntn(t *rapid.T, label string, lo, hi int) int {
	if hi <= lo {
		return lo
	}
	return lo + FairBits(t, label, 10)%(hi-lo+1)
}

// FairPct is true with probability p/100; shrinks to false.
func FairPct(t *rapid.T, label string, p int) bool {
	return FairBits(t, label, 7) >= 128-(p*128+50)/100
}
