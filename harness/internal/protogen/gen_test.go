package protogen_test

import (
	"context"
	"testing"

	"github.com/bufbuild/bufverif/internal/bufx"
	"github.com/bufbuild/bufverif/internal/protogen"
	"pgregory.net/rapid"
)

func TestGeneratedWorkspacesBuild(t *testing.T) {
	for name, cfg := range map[string]protogen.GenConfig{"wild": protogen.DefaultConfig(), "styled": protogen.StyledConfig()} {
		cfg := cfg
		cfg.CustomOptions = true
		t.Run(name, func(t *testing.T) {
			rapid.Check(t, func(t *rapid.T) {
				ws := protogen.GenWorkspace(t, cfg)
				_, rw, err := bufx.BuildWorkspace(context.Background(), ws)
				if err != nil {
					for p, txt := range rw.Flat() {
						t.Logf("=== %s\n%s", p, txt)
					}
					t.Fatalf("generated workspace does not build: %v", err)
				}
			})
		})
	}
}
