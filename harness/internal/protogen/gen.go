package protogen

import (
	"fmt"
	"sort"
	"strings"

	"pgregory.net/rapid"
)

// GenConfig bounds and steers the workspace generator.
type GenConfig struct {
	MaxModules  int
	MaxPackages int
	MaxFiles    int
	MaxMessages int // per file (top level)
	MaxNested   int // nested messages per message
	MaxDepth    int
	MaxFields   int
	MaxEnums    int
	Syntaxes    []string // allowed syntaxes (default: proto2, proto3, editions)
	// Styled: names, layout, comments and options obey every STANDARD, COMMENTS and UNARY_RPC lint rule by construction.
	Styled        bool
	Services      bool
	Extensions    bool
	Groups        bool
	WKT           bool // fields of well-known types (imports google/protobuf/*.proto)
	UnusedImports bool // plant imports nothing is used from (marked Import.Unused)
	PublicImports bool
	CustomOptions bool // a file defining option extensions + uses of them
	FileOptions   bool
	Reserved      bool
	EnumAliases   bool // allow_alias enums with several names per number
	NamedModules  bool
	Streaming     bool // streaming RPCs (breaks UNARY_RPC cleanliness)
	SyntaxUnspec  bool // allow files without a syntax statement
	// PackageCycles: files are assigned to packages in arbitrary order, so packages may import each
	// other in cycles (the file import graph stays acyclic). Never with Styled.
	PackageCycles bool
	// SharedDirs: several packages may live in one directory, and some files have no package statement
	// (both are lint violations, never with Styled).
	SharedDirs bool
	// NoPackagePct: share of files without package statement when SharedDirs is on (0 = the default 8)
	NoPackagePct int
}

// DefaultConfig is a moderately sized wild configuration.
func DefaultConfig() GenConfig {
	return GenConfig{
		MaxModules: 3, MaxPackages: 4, MaxFiles: 6, MaxMessages: 4, MaxNested: 2, MaxDepth: 2, MaxFields: 6, MaxEnums: 2,
		Services: true, Extensions: true, Groups: true, WKT: true, UnusedImports: true, PublicImports: true,
		FileOptions: true, Reserved: true, EnumAliases: true, NamedModules: true, Streaming: true, SyntaxUnspec: true,
	}
}

// StyledConfig yields lint-clean workspaces.
func StyledConfig() GenConfig {
	return GenConfig{
		MaxModules: 3, MaxPackages: 4, MaxFiles: 6, MaxMessages: 4, MaxNested: 2, MaxDepth: 2, MaxFields: 5, MaxEnums: 2,
		Styled: true, Services: true, Extensions: true, Groups: false, WKT: true, FileOptions: true, Reserved: true, NamedModules: true,
	}
}

var words = []string{
	"alpha", "bravo", "cedar", "delta", "ember", "fjord", "grove", "harbor", "iris", "juniper",
	"kelp", "lumen", "maple", "nectar", "olive", "pearl", "quartz", "raven", "sable", "tundra",
	"umber", "violet", "willow", "xenon", "yarrow", "zephyr", "amber", "basil", "coral", "dune",
}

func pascal(parts ...string) string {
	var b strings.Builder
	for _, p := range parts {
		if p == "" {
			continue
		}
		b.WriteString(strings.ToUpper(p[:1]) + p[1:])
	}
	return b.String()
}

// UpperSnake converts PascalCase to UPPER_SNAKE_CASE the documented way: a new word starts at an upper-case
// letter that follows a lower-case letter, or that is followed by a lower-case letter (so an acronym stays one
// word: HTTPOk -> HTTP_OK, FooJSONPascal -> FOO_JSON_PASCAL, FooID -> FOO_ID).
func UpperSnake(s string) string {
	isUpper := func(c byte) bool { return c >= 'A' && c <= 'Z' }
	isLower := func(c byte) bool { return c >= 'a' && c <= 'z' }
	var b strings.Builder
	for i := 0; i < len(s); i++ {
		c := s[i]
		if i > 0 && isUpper(c) && (isLower(s[i-1]) || (i+1 < len(s) && isLower(s[i+1]))) {
			b.WriteByte('_')
		}
		b.WriteString(strings.ToUpper(string(c)))
	}
	return b.String()
}

type typeInfo struct {
	full   string // ".pkg.Name"
	file   *File
	kind   string // message | enum
	closed bool   // closed enum (proto2)
	// for messages
	msg  *Message
	enum *Enum
}

type gen struct {
	t       *rapid.T
	cfg     GenConfig
	nextID  int
	nameSeq int
	ws      *Workspace
	types   []*typeInfo               // all types generated so far, in order
	extNums map[string]map[int32]bool // extendee full name -> used extension numbers
	pubOf   map[string][]string       // file path -> paths it publicly imports
	optFile *File                     // custom options file (if any)
	optDefs []optDef
	used    map[string]bool // global name uniqueness (simple names)
}

type optDef struct {
	target          string // "FileOptions", "MessageOptions", "FieldOptions", "EnumOptions", "EnumValueOptions", "ServiceOptions", "MethodOptions", "OneofOptions"
	name            string // "(pkg.name)"
	typ             string // int32 | string | bool | message
	msg             string // message type full name for typ == message
	repeated        bool
	sourceRetention bool
}

func (g *gen) id(prefix string) string {
	g.nextID++
	return fmt.Sprintf("%s%d", prefix, g.nextID)
}

// bits draws n fair bits (rapid's integer generators are biased towards small values, which would
// skew every percentage below; fair coins are not). All-zero is what shrinking converges to.
func (g *gen) bits(label string, n int) int {
	v := 0
	for i := 0; i < n; i++ {
		v <<= 1
		if rapid.Bool().Draw(g.t, label) {
			v |= 1
		}
	}
	return v
}

func (g *gen) intn(label string, lo, hi int) int {
	if hi <= lo {
		return lo
	}
	if hi-lo < 64 {
		return lo + g.bits(label, 10)%(hi-lo+1)
	}
	return rapid.IntRange(lo, hi).Draw(g.t, label)
}

// pct is true with probability p/100; shrinks to false.
func (g *gen) pct(label string, p int) bool {
	return g.bits(label, 7) >= 128-(p*128+50)/100
}

// word returns a fresh lower-case identifier unique in the whole workspace.
func (g *gen) word() string {
	a := g.intn("w1", 0, len(words)-1)
	b := g.intn("w2", 0, len(words)-1)
	n := len(words)
	for i := 0; ; i++ {
		w := words[(a+i)%n] + "_" + words[(b+i/n)%n]
		if i >= n*n {
			// every two-word name is taken (very large workspaces): go on with three-word names
			w += "_" + words[(i/(n*n)-1)%n]
			if i >= n*n*(n+1) {
				w += fmt.Sprintf("%d", i)
			}
		}
		if !g.used[w] {
			g.used[w] = true
			return w
		}
	}
}

func lowerSnakeToPascal(s string) string { return pascal(strings.Split(s, "_")...) }

func (g *gen) comment(kind, name string) string {
	if g.cfg.Styled || g.pct("cmt", 40) {
		return fmt.Sprintf("%s %s.", name, kind)
	}
	return ""
}

// GenWorkspace draws a valid, linkable workspace.
func GenWorkspace(t *rapid.T, cfg GenConfig) *Workspace {
	if len(cfg.Syntaxes) == 0 {
		cfg.Syntaxes = []string{Proto2, Proto3, Editions}
	}
	g := &gen{t: t, cfg: cfg, ws: &Workspace{}, extNums: map[string]map[int32]bool{}, pubOf: map[string][]string{}, used: map[string]bool{}}
	nMod := g.intn("modules", 1, max1(cfg.MaxModules))
	for i := 0; i < nMod; i++ {
		m := &Module{}
		switch g.intn("moddir", 0, 2) {
		case 0:
			m.Dir = fmt.Sprintf("mod%d", i)
		case 1:
			m.Dir = fmt.Sprintf("proto/m%d", i)
		default:
			m.Dir = fmt.Sprintf("src/%s/v%d", words[i%len(words)], i)
		}
		if cfg.NamedModules && g.pct("named", 60) {
			m.Name = fmt.Sprintf("buf.build/acme/%s%d", words[(i*7)%len(words)], i)
		}
		g.ws.Modules = append(g.ws.Modules, m)
	}
	// packages, each living in one directory of one module
	type pkg struct {
		name, dir string
		mod       *Module
		opts      []Option
	}
	nPkg := g.intn("packages", 1, max1(cfg.MaxPackages))
	var pkgs []*pkg
	for i := 0; i < nPkg; i++ {
		base := words[g.intn("pkgword", 0, len(words)-1)]
		p := &pkg{mod: g.ws.Modules[g.intn("pkgmod", 0, nMod-1)]}
		name := fmt.Sprintf("%s%d", base, i)
		if cfg.Styled || g.pct("versioned", 70) {
			ver := []string{"v1", "v2", "v1beta1", "v1alpha2"}[g.intn("ver", 0, 3)]
			if cfg.Styled {
				ver = []string{"v1", "v2"}[g.intn("sver", 0, 1)]
			}
			if g.pct("deep", 40) {
				p.name = "acme." + name + "." + ver
			} else {
				p.name = name + "." + ver
			}
			// sometimes a sibling version of an earlier package: directories such as x/v1 and x/v1beta1 share a
			// string prefix without one containing the other
			if i > 0 && g.pct("siblingversion", 30) {
				q := pkgs[g.intn("siblingof", 0, i-1)]
				if j := strings.LastIndex(q.name, "."); j > 0 && strings.HasPrefix(q.name[j+1:], "v") {
					stem := q.name[:j]
					for _, v := range []string{"v1", "v1beta1", "v2", "v1alpha2", "v2beta1", "v3"} {
						if cfg.Styled && strings.ContainsAny(v, "ab") {
							continue
						}
						taken := false
						for _, r := range pkgs {
							if r.name == stem+"."+v {
								taken = true
							}
						}
						if !taken {
							p.name = stem + "." + v
							p.mod = q.mod
							break
						}
					}
				}
			}
		} else {
			p.name = name
		}
		switch {
		case cfg.Styled || g.pct("dirmatch", 70):
			p.dir = strings.ReplaceAll(p.name, ".", "/")
		case cfg.SharedDirs && i > 0 && g.pct("shareddir", 50):
			// same directory AND same module as an earlier package (a directory belongs to one module)
			q := pkgs[g.intn("sharewith", 0, i-1)]
			p.dir, p.mod = q.dir, q.mod
		default:
			p.dir = fmt.Sprintf("dir%d", i)
		}
		if cfg.FileOptions && g.pct("pkgopts", 50) {
			p.opts = append(p.opts, Option{"go_package", fmt.Sprintf(`"example.com/gen/%s;%spb"`, p.dir, base)})
			if g.pct("javaopts", 50) {
				p.opts = append(p.opts, Option{"java_package", fmt.Sprintf(`"com.%s"`, p.name)}, Option{"java_multiple_files", "true"})
			}
			if g.pct("csopts", 30) {
				p.opts = append(p.opts, Option{"csharp_namespace", fmt.Sprintf(`"%s"`, lowerSnakeToPascal(base))})
			}
		}
		pkgs = append(pkgs, p)
	}
	// files: package index is non-decreasing with file index so the package graph is acyclic
	nFiles := g.intn("files", 1, max1(cfg.MaxFiles))
	if nFiles < nPkg {
		nFiles = nPkg
	}
	pkgOfFile := make([]int, nFiles)
	for i := range pkgOfFile {
		if i < nPkg {
			pkgOfFile[i] = i
		} else {
			pkgOfFile[i] = g.intn("filepkg", 0, nPkg-1)
		}
	}
	if !cfg.PackageCycles || cfg.Styled {
		sort.Ints(pkgOfFile)
	}
	if cfg.CustomOptions {
		g.genOptionsFile(g.ws.Modules[0])
	}
	for i := 0; i < nFiles; i++ {
		p := pkgs[pkgOfFile[i]]
		f := &File{ID: g.id("file"), Package: p.name}
		noPkg := 8
		if cfg.NoPackagePct > 0 {
			noPkg = cfg.NoPackagePct
		}
		if cfg.SharedDirs && !cfg.Styled && g.pct("nopackage", noPkg) {
			f.Package = ""
		}
		f.Path = p.dir + "/" + g.word() + ".proto"
		f.Syntax = cfg.Syntaxes[g.intn("syntax", 0, len(cfg.Syntaxes)-1)]
		if cfg.SyntaxUnspec && !cfg.Styled && g.pct("nosyntax", 8) && contains(cfg.Syntaxes, Proto2) {
			f.Syntax = SyntaxUnspecified
		}
		f.Options = append([]Option{}, p.opts...)
		g.genFileBody(f)
		p.mod.Files = append(p.mod.Files, f)
	}
	// drop empty modules (a module without .proto files is an error in buf)
	var mods []*Module
	for _, m := range g.ws.Modules {
		if len(m.Files) > 0 {
			mods = append(mods, m)
		}
	}
	g.ws.Modules = mods
	return g.ws
}

func contains(s []string, x string) bool {
	for _, y := range s {
		if y == x {
			return true
		}
	}
	return false
}

func max1(n int) int {
	if n < 1 {
		return 1
	}
	return n
}

func isProto2ish(syntax string) bool { return syntax == Proto2 || syntax == SyntaxUnspecified }

func (g *gen) genOptionsFile(mod *Module) {
	f := &File{ID: g.id("file"), Path: "options/v1/" + g.word() + ".proto", Package: "options.v1", Syntax: Proto2}
	f.Imports = []Import{{Path: "google/protobuf/descriptor.proto"}}
	pay := &Message{ID: g.id("msg"), Name: "Payload", Comment: "Payload message."}
	pay.Fields = []*Field{
		{ID: g.id("fld"), Name: "text", Number: 1, Label: LabelOptional, Type: "string", TypeKind: "scalar", Comment: "text field."},
		{ID: g.id("fld"), Name: "count", Number: 2, Label: LabelOptional, Type: "int32", TypeKind: "scalar", Comment: "count field."},
	}
	f.Messages = append(f.Messages, pay)
	num := int32(50000)
	targets := []string{"FileOptions", "MessageOptions", "FieldOptions", "EnumOptions", "EnumValueOptions", "ServiceOptions", "MethodOptions", "OneofOptions"}
	for _, tgt := range targets {
		n := g.intn("nopts", 1, 2)
		for k := 0; k < n; k++ {
			num++
			name := g.word()
			d := optDef{target: tgt, name: "(options.v1." + name + ")"}
			fld := &Field{ID: g.id("ext"), Name: name, Number: num, Label: LabelOptional, Extendee: ".google.protobuf." + tgt, Comment: name + " option."}
			switch g.intn("opttype", 0, 3) {
			case 0:
				fld.Type, fld.TypeKind, d.typ = "int32", "scalar", "int32"
			case 1:
				fld.Type, fld.TypeKind, d.typ = "string", "scalar", "string"
			case 2:
				fld.Type, fld.TypeKind, d.typ = "bool", "scalar", "bool"
			default:
				fld.Type, fld.TypeKind, d.typ, d.msg = ".options.v1.Payload", "message", "message", ".options.v1.Payload"
			}
			if d.typ != "message" && d.typ != "bool" && g.pct("optrep", 25) {
				fld.Label = LabelRepeated
				d.repeated = true
			}
			if g.pct("srcret", 30) {
				fld.Options = append(fld.Options, Option{"retention", "RETENTION_SOURCE"})
				d.sourceRetention = true
			}
			f.Extensions = append(f.Extensions, fld)
			g.optDefs = append(g.optDefs, d)
		}
	}
	g.optFile = f
	mod.Files = append(mod.Files, f)
	g.types = append(g.types, &typeInfo{full: ".options.v1.Payload", file: f, kind: "message", msg: pay})
}

func (g *gen) optValue(d optDef) string {
	switch d.typ {
	case "int32":
		return fmt.Sprintf("%d", g.intn("optint", -5, 1000))
	case "string":
		return fmt.Sprintf(`"%s"`, words[g.intn("optstr", 0, len(words)-1)])
	case "bool":
		return []string{"true", "false"}[g.intn("optbool", 0, 1)]
	default:
		return fmt.Sprintf(`{ text: "%s" count: %d }`, words[g.intn("optmsgs", 0, len(words)-1)], g.intn("optmsgi", 0, 99))
	}
}

// customOpts returns 0..n custom option settings for an element of the given options kind.
func (g *gen) customOpts(target string, f *File) []Option {
	if g.optFile == nil || !g.pct("useopt", 25) {
		return nil
	}
	var cands []optDef
	for _, d := range g.optDefs {
		if d.target == target {
			cands = append(cands, d)
		}
	}
	if len(cands) == 0 {
		return nil
	}
	d := cands[g.intn("whichopt", 0, len(cands)-1)]
	g.needImport(f, g.optFile.Path)
	return []Option{{Name: d.name, Value: g.optValue(d)}}
}

func (g *gen) needImport(f *File, path string) {
	if path == f.Path {
		return
	}
	for _, i := range f.Imports {
		if i.Path == path {
			return
		}
	}
	// reachable through a (transitive) public import of an already imported file?
	for _, i := range f.Imports {
		if g.publiclyReaches(i.Path, path, map[string]bool{}) {
			return
		}
	}
	imp := Import{Path: path}
	if g.cfg.PublicImports && !g.cfg.Styled && g.pct("public", 20) {
		imp.Public = true
		g.pubOf[f.Path] = append(g.pubOf[f.Path], path)
	}
	f.Imports = append(f.Imports, imp)
}

func (g *gen) publiclyReaches(from, to string, seen map[string]bool) bool {
	if seen[from] {
		return false
	}
	seen[from] = true
	for _, p := range g.pubOf[from] {
		if p == to || g.publiclyReaches(p, to, seen) {
			return true
		}
	}
	return false
}

var wktTypes = []struct{ path, typ string }{
	{"google/protobuf/timestamp.proto", ".google.protobuf.Timestamp"},
	{"google/protobuf/duration.proto", ".google.protobuf.Duration"},
	{"google/protobuf/any.proto", ".google.protobuf.Any"},
	{"google/protobuf/empty.proto", ".google.protobuf.Empty"},
	{"google/protobuf/wrappers.proto", ".google.protobuf.StringValue"},
	{"google/protobuf/struct.proto", ".google.protobuf.Struct"},
	{"google/protobuf/field_mask.proto", ".google.protobuf.FieldMask"},
	{"google/protobuf/type.proto", ".google.protobuf.Type"},
}

func (g *gen) genFileBody(f *File) {
	cfg := g.cfg
	f.Comment = ""
	earlier := g.ws.AllFiles() // files generated before this one (this one is not yet appended)
	// enums first so fields can reference them
	nEnums := g.intn("enums", 0, cfg.MaxEnums)
	for i := 0; i < nEnums; i++ {
		e := g.genEnum(f, "")
		f.Enums = append(f.Enums, e)
		g.types = append(g.types, &typeInfo{full: "." + FullName(f.Package, e.Name), file: f, kind: "enum", closed: isProto2ish(f.Syntax), enum: e})
	}
	nMsgs := g.intn("msgs", 1, max1(cfg.MaxMessages))
	var declared []*Message
	// declare shells first (so fields may reference any message of the file, including later ones and itself)
	var shells []struct {
		m     *Message
		scope string
		depth int
	}
	var declare func(scope string, depth int) *Message
	declare = func(scope string, depth int) *Message {
		m := &Message{ID: g.id("msg"), Name: lowerSnakeToPascal(g.word())}
		m.Comment = g.comment("message", m.Name)
		full := FullName(scope, m.Name)
		g.types = append(g.types, &typeInfo{full: "." + full, file: f, kind: "message", msg: m})
		shells = append(shells, struct {
			m     *Message
			scope string
			depth int
		}{m, full, depth})
		if depth < cfg.MaxDepth {
			for k := 0; k < g.intn("nested", 0, cfg.MaxNested); k++ {
				m.Nested = append(m.Nested, declare(full, depth+1))
			}
			if g.pct("nestedenum", 30) {
				e := g.genEnum(f, full)
				m.Enums = append(m.Enums, e)
				g.types = append(g.types, &typeInfo{full: "." + FullName(full, e.Name), file: f, kind: "enum", closed: isProto2ish(f.Syntax), enum: e})
			}
		}
		return m
	}
	for i := 0; i < nMsgs; i++ {
		m := declare(f.Package, 0)
		f.Messages = append(f.Messages, m)
		declared = append(declared, m)
	}
	for _, s := range shells {
		g.fillMessage(f, s.m, s.scope)
	}
	if cfg.Services && g.pct("service", 45) {
		g.genService(f)
		if g.pct("service2", 35) {
			g.genService(f)
		}
	}
	if cfg.Extensions && f.Syntax != Proto3 && g.pct("extensions", 35) {
		g.genExtensions(f)
	}
	if cfg.FileOptions {
		f.Options = append(f.Options, g.customOpts("FileOptions", f)...)
	}
	if cfg.FileOptions && !cfg.Styled && g.pct("trackedfileopts", 30) {
		// a few of the file options the breaking rules track, each with its own value
		for k := g.intn("ntrackedopts", 1, 4); k > 0; k-- {
			o := trackedFileOptions[g.intn("trackedopt", 0, len(trackedFileOptions)-1)]
			if _, has := GetOption(f.Options, o.name); has {
				continue
			}
			var v string
			switch o.kind {
			case "bool", "booltrue":
				v = []string{"true", "false"}[g.intn("trackedbool", 0, 1)]
			case "optimize":
				// LITE_RUNTIME constrains who may import the file: not generated
				v = []string{"SPEED", "CODE_SIZE"}[g.intn("trackedoptimize", 0, 1)]
			default:
				v = `"` + lowerSnakeToPascal(g.word()) + `"`
			}
			f.Options = append(f.Options, Option{o.name, v})
		}
	}
	if cfg.UnusedImports && len(earlier) > 0 && g.pct("unused", 25) {
		cand := earlier[g.intn("unusedfile", 0, len(earlier)-1)]
		has := false
		for _, i := range f.Imports {
			if i.Path == cand.Path {
				has = true
			}
			if g.publiclyReaches(i.Path, cand.Path, map[string]bool{}) {
				has = true
			}
		}
		if !has && cand.Path != f.Path && len(g.pubOf[cand.Path]) == 0 {
			f.Imports = append(f.Imports, Import{Path: cand.Path, Unused: true})
		}
	}
	if cfg.UnusedImports && cfg.WKT && g.pct("unusedwkt", 10) {
		w := wktTypes[g.intn("unusedwktidx", 0, len(wktTypes)-1)]
		has := false
		for _, i := range f.Imports {
			if i.Path == w.path {
				has = true
			}
		}
		if !has {
			f.Imports = append(f.Imports, Import{Path: w.path, Unused: true})
		}
	}
	_ = declared
}

func (g *gen) genEnum(f *File, scope string) *Enum {
	e := &Enum{ID: g.id("enum"), Name: lowerSnakeToPascal(g.word())}
	if g.pct("acronymname", 15) {
		// names with acronyms: the case conversions behind the naming rules have to keep an acronym in one word
		acr := []string{"HTTP", "DNS", "UI", "JSON", "ID"}[g.intn("acronym", 0, 4)]
		switch g.intn("acronymshape", 0, 2) {
		case 0:
			e.Name = e.Name + acr + []string{"Ok", "Id", "Op", "Up"}[g.intn("acronymtail", 0, 3)]
		case 1:
			e.Name = acr + e.Name
		default:
			e.Name = e.Name + acr
		}
	}
	e.Comment = g.comment("enum", e.Name)
	prefix := UpperSnake(e.Name) + "_"
	n := g.intn("values", 1, 5)
	usedNums := map[int32]bool{}
	first := int32(0)
	if isProto2ish(f.Syntax) && !g.cfg.Styled && g.pct("nonzerofirst", 30) {
		first = int32(g.intn("firstnum", 1, 5))
	}
	for i := 0; i < n; i++ {
		v := &EnumValue{ID: g.id("val")}
		if i == 0 {
			v.Number = first
			v.Name = prefix + "UNSPECIFIED"
		} else {
			for {
				v.Number = int32(g.intn("valnum", -3, 40))
				if !usedNums[v.Number] {
					break
				}
			}
			v.Name = prefix + strings.ToUpper(g.word())
		}
		usedNums[v.Number] = true
		v.Comment = g.comment("value", v.Name)
		v.Options = g.customOpts("EnumValueOptions", f)
		e.Values = append(e.Values, v)
	}
	if g.cfg.EnumAliases && !g.cfg.Styled && g.pct("enumalias", 25) {
		// one or two more names for existing numbers
		e.Options = append(e.Options, Option{Name: "allow_alias", Value: "true"})
		for k := g.intn("aliases", 1, 2); k > 0; k-- {
			of := e.Values[g.intn("aliasof", 0, len(e.Values)-1)]
			a := &EnumValue{ID: g.id("val"), Number: of.Number, Name: prefix + strings.ToUpper(g.word())}
			a.Comment = g.comment("value", a.Name)
			e.Values = append(e.Values, a)
		}
	}
	if g.cfg.Reserved && g.pct("enumreserved", 30) {
		var start int32
		for {
			start = int32(g.intn("eresstart", 41, 200))
			if !usedNums[start] {
				break
			}
		}
		e.ReservedRanges = append(e.ReservedRanges, Range{start, start + int32(g.intn("ereslen", 0, 5))})
		if g.pct("enumresname", 50) {
			e.ReservedNames = append(e.ReservedNames, prefix+strings.ToUpper(g.word()))
		}
	}
	e.Options = append(e.Options, g.customOpts("EnumOptions", f)...)
	return e
}

// visibleTypes returns the types a field of file f may reference: any type of this file and any type of an earlier file.
func (g *gen) visibleTypes(f *File, kind string) []*typeInfo {
	var out []*typeInfo
	for _, ti := range g.types {
		if ti.kind != kind {
			continue
		}
		if kind == "enum" && f.Syntax == Proto3 && ti.closed {
			continue // proto3 cannot reference closed (proto2) enums
		}
		if ti.msg != nil && ti.msg.Name == "" {
			continue
		}
		out = append(out, ti)
	}
	return out
}

func (g *gen) fillMessage(f *File, m *Message, full string) {
	cfg := g.cfg
	nFields := g.intn("fields", 0, cfg.MaxFields)
	usedNums := map[int32]bool{}
	nextNum := func() int32 {
		for {
			var n int32
			switch g.intn("numrange", 0, 9) {
			case 0:
				n = int32(g.intn("bignum", 1000, 18999))
			case 1:
				n = int32(g.intn("hugenum", 20000, 536870911))
			default:
				n = int32(g.intn("num", 1, 40))
			}
			if !usedNums[n] {
				usedNums[n] = true
				return n
			}
		}
	}
	// oneofs
	var oneofs []*Oneof
	if nFields >= 2 && g.pct("oneof", 35) {
		o := &Oneof{ID: g.id("oneof"), Name: g.word()}
		o.Comment = g.comment("oneof", o.Name)
		oneofs = append(oneofs, o)
		m.Oneofs = append(m.Oneofs, o)
	}
	for i := 0; i < nFields; i++ {
		fld := &Field{ID: g.id("fld"), Name: g.word(), Number: nextNum()}
		fld.Comment = g.comment("field", fld.Name)
		inOneof := len(oneofs) > 0 && (i < 2 || g.pct("inoneof", 30)) && i < 3
		// type
		msgs := g.visibleTypes(f, "message")
		enums := g.visibleTypes(f, "enum")
		kind := g.intn("fkind", 0, 9)
		switch {
		case kind <= 4 || (kind == 5 && len(msgs) == 0) || (kind == 6 && len(enums) == 0):
			fld.Type, fld.TypeKind = Scalars[g.intn("scalar", 0, len(Scalars)-1)], "scalar"
		case kind == 5:
			ti := msgs[g.intn("msgref", 0, len(msgs)-1)]
			fld.Type, fld.TypeKind = ti.full, "message"
			g.needImport(f, ti.file.Path)
		case kind == 6:
			ti := enums[g.intn("enumref", 0, len(enums)-1)]
			fld.Type, fld.TypeKind = ti.full, "enum"
			g.needImport(f, ti.file.Path)
		case kind == 7 && !inOneof: // map
			fld.MapKey = []string{"string", "int32", "int64", "uint32", "uint64", "sint32", "sint64", "fixed32", "fixed64", "sfixed32", "sfixed64", "bool"}[g.intn("mapkey", 0, 11)]
			if len(msgs) > 0 && g.pct("mapmsg", 40) {
				ti := msgs[g.intn("mapmsgref", 0, len(msgs)-1)]
				fld.Type, fld.TypeKind = ti.full, "message"
				g.needImport(f, ti.file.Path)
			} else if enums = zeroFirst(enums); len(enums) > 0 && g.pct("mapenum", 30) {
				// protoc requires the first value of an enum used as a map value to be zero
				ti := enums[g.intn("mapenumref", 0, len(enums)-1)]
				fld.Type, fld.TypeKind = ti.full, "enum"
				g.needImport(f, ti.file.Path)
			} else {
				fld.Type, fld.TypeKind = Scalars[g.intn("mapscalar", 0, len(Scalars)-1)], "scalar"
			}
		case kind == 8 && cfg.WKT:
			w := wktTypes[g.intn("wkt", 0, len(wktTypes)-1)]
			fld.Type, fld.TypeKind = w.typ, "message"
			g.needImport(f, w.path)
		case kind == 9 && cfg.Groups && isProto2ish(f.Syntax) && !inOneof:
			gname := lowerSnakeToPascal(g.word())
			fld.TypeKind, fld.Type = "group", "."+FullName(full, gname)
			fld.Name = strings.ToLower(gname)
			fld.Group = &Message{ID: g.id("msg"), Name: gname}
			fld.Group.Fields = []*Field{{ID: g.id("fld"), Name: g.word(), Number: 1, Label: LabelOptional, Type: "string", TypeKind: "scalar"}}
			fld.Group.Fields[0].Comment = g.comment("field", fld.Group.Fields[0].Name)
		default:
			fld.Type, fld.TypeKind = Scalars[g.intn("scalar2", 0, len(Scalars)-1)], "scalar"
		}
		// label
		switch {
		case fld.MapKey != "":
			fld.Label = LabelNone
		case inOneof:
			fld.Label = LabelNone
			fld.Oneof = oneofs[0].Name
		default:
			switch f.Syntax {
			case Proto3:
				fld.Label = []string{LabelNone, LabelNone, LabelOptional, LabelRepeated}[g.intn("label3", 0, 3)]
			case Editions:
				fld.Label = []string{LabelNone, LabelNone, LabelRepeated}[g.intn("labele", 0, 2)]
			default:
				if cfg.Styled {
					fld.Label = []string{LabelOptional, LabelOptional, LabelRepeated}[g.intn("label2s", 0, 2)]
				} else {
					fld.Label = []string{LabelOptional, LabelOptional, LabelRepeated, LabelRequired}[g.intn("label2", 0, 3)]
				}
			}
			if fld.TypeKind == "group" && fld.Label == LabelNone {
				fld.Label = LabelOptional
			}
		}
		// options
		is64 := fld.Type == "int64" || fld.Type == "uint64" || fld.Type == "sint64" || fld.Type == "fixed64" || fld.Type == "sfixed64"
		if fld.TypeKind == "scalar" && fld.MapKey == "" && isProto2ish(f.Syntax) && fld.Label == LabelOptional && !cfg.Styled && (g.pct("default", 20) || ((is64 || fld.Type == "float" || fld.Type == "double") && g.pct("default64", 40))) {
			def := defaultFor(fld.Type, g.intn("defval", 1, 9))
			if big, ok := BigDefaults[fld.Type]; ok && g.pct("bigdefault", 60) {
				def = big[g.intn("bigdefaultidx", 0, len(big)-1)]
			}
			if (fld.Type == "float" || fld.Type == "double") && g.pct("specialfloat", 40) {
				def = []string{"nan", "inf", "-inf"}[g.intn("specialfloatidx", 0, 2)]
			}
			fld.Options = append(fld.Options, Option{"default", def})
		}
		if fld.MapKey == "" && fld.TypeKind != "group" && g.pct("jsonname", 10) {
			fld.Options = append(fld.Options, Option{"json_name", `"` + strings.ReplaceAll(fld.Name, "_", "") + `Json"`})
		}
		if g.pct("deprecated", 5) {
			fld.Options = append(fld.Options, Option{"deprecated", "true"})
		}
		if f.Syntax == Editions && fld.TypeKind == "message" && fld.MapKey == "" && !strings.HasPrefix(fld.Type, ".google.protobuf.") && g.pct("delimited", 25) {
			fld.Options = append(fld.Options, Option{"features.message_encoding", "DELIMITED"})
		}
		if fld.TypeKind == "scalar" && fld.MapKey == "" && (fld.Type == "int64" || fld.Type == "uint64" || fld.Type == "fixed64" || fld.Type == "sfixed64" || fld.Type == "sint64") && g.pct("jstype", 15) {
			fld.Options = append(fld.Options, Option{"jstype", []string{"JS_STRING", "JS_NUMBER"}[g.intn("jstypev", 0, 1)]})
		}
		if fld.TypeKind != "group" {
			fld.Options = append(fld.Options, g.customOpts("FieldOptions", f)...)
		}
		m.Fields = append(m.Fields, fld)
	}
	// a oneof must have at least one member
	for _, o := range oneofs {
		has := false
		for _, fld := range m.Fields {
			if fld.Oneof == o.Name {
				has = true
			}
		}
		if !has {
			m.Oneofs = nil
		}
	}
	if cfg.Reserved && g.pct("reserved", 30) {
		var start int32
		for {
			start = int32(g.intn("resstart", 41, 900))
			ok := true
			for k := start; k <= start+6; k++ {
				if usedNums[k] {
					ok = false
				}
			}
			if ok {
				break
			}
		}
		ln := int32(g.intn("reslen", 0, 5))
		m.ReservedRanges = append(m.ReservedRanges, Range{start, start + ln})
		for k := start; k <= start+ln; k++ {
			usedNums[k] = true
		}
		if g.pct("resname", 50) {
			m.ReservedNames = append(m.ReservedNames, g.word())
		}
	}
	if cfg.Extensions && f.Syntax != Proto3 && g.pct("extrange", 25) {
		m.ExtensionRanges = append(m.ExtensionRanges, Range{1000, 1999})
		ok := true
		for k := range usedNums {
			if k >= 1000 && k <= 1999 {
				ok = false
			}
		}
		if !ok {
			m.ExtensionRanges = nil
		}
	}
	m.Options = append(m.Options, g.customOpts("MessageOptions", f)...)
}

func zeroFirst(in []*typeInfo) []*typeInfo {
	var out []*typeInfo
	for _, ti := range in {
		if ti.enum != nil && len(ti.enum.Values) > 0 && ti.enum.Values[0].Number == 0 {
			out = append(out, ti)
		}
	}
	return out
}

// BigDefaults are defaults near the limits of the 64-bit types (neighbouring values collapse when converted to float64).
var BigDefaults = map[string][]string{
	"int64":    {"9223372036854775807", "9223372036854775806", "9223372036854775805", "-9223372036854775808", "-9223372036854775807"},
	"sint64":   {"9223372036854775807", "9223372036854775806", "-9223372036854775808", "-9223372036854775807"},
	"sfixed64": {"9223372036854775807", "9223372036854775806", "9007199254740993", "9007199254740992"},
	"uint64":   {"18446744073709551615", "18446744073709551614", "18446744073709551613", "9007199254740993", "9007199254740992"},
	"fixed64":  {"18446744073709551615", "18446744073709551614", "9007199254740993", "9007199254740992"},
}

func defaultFor(typ string, n int) string {
	switch typ {
	case "bool":
		return "true"
	case "string":
		return fmt.Sprintf(`"dflt%d"`, n)
	case "bytes":
		return fmt.Sprintf(`"b%d"`, n)
	case "double", "float":
		return fmt.Sprintf("%d.5", n)
	default:
		return fmt.Sprintf("%d", n)
	}
}

func (g *gen) genService(f *File) {
	s := &Service{ID: g.id("svc"), Name: lowerSnakeToPascal(g.word()) + "Service"}
	s.Comment = g.comment("service", s.Name)
	n := g.intn("methods", 1, 3)
	for i := 0; i < n; i++ {
		name := lowerSnakeToPascal(g.word())
		m := &Method{ID: g.id("rpc"), Name: name}
		m.Comment = g.comment("rpc", name)
		req := &Message{ID: g.id("msg"), Name: name + "Request", Comment: g.comment("message", name+"Request")}
		resp := &Message{ID: g.id("msg"), Name: name + "Response", Comment: g.comment("message", name+"Response")}
		req.Fields = []*Field{{ID: g.id("fld"), Name: g.word(), Number: 1, Type: "string", TypeKind: "scalar", Comment: "request field."}}
		if isProto2ish(f.Syntax) {
			req.Fields[0].Label = LabelOptional
		}
		f.Messages = append(f.Messages, req, resp)
		g.types = append(g.types, &typeInfo{full: "." + FullName(f.Package, req.Name), file: f, kind: "message", msg: req},
			&typeInfo{full: "." + FullName(f.Package, resp.Name), file: f, kind: "message", msg: resp})
		m.Input = "." + FullName(f.Package, req.Name)
		m.Output = "." + FullName(f.Package, resp.Name)
		if g.cfg.Streaming && !g.cfg.Styled {
			m.ClientStream = g.pct("cstream", 20)
			m.ServerStream = g.pct("sstream", 20)
		}
		if g.pct("idem", 20) {
			m.Options = append(m.Options, Option{"idempotency_level", []string{"NO_SIDE_EFFECTS", "IDEMPOTENT"}[g.intn("idemv", 0, 1)]})
		}
		m.Options = append(m.Options, g.customOpts("MethodOptions", f)...)
		s.Methods = append(s.Methods, m)
	}
	s.Options = append(s.Options, g.customOpts("ServiceOptions", f)...)
	f.Services = append(f.Services, s)
}

func (g *gen) genExtensions(f *File) {
	// candidates: messages with extension ranges in this or earlier files
	var cands []*typeInfo
	for _, ti := range g.types {
		if ti.kind == "message" && ti.msg != nil && len(ti.msg.ExtensionRanges) > 0 {
			cands = append(cands, ti)
		}
	}
	if len(cands) == 0 {
		return
	}
	n := g.intn("nexts", 1, 2)
	for i := 0; i < n; i++ {
		ti := cands[g.intn("extendee", 0, len(cands)-1)]
		if g.extNums[ti.full] == nil {
			g.extNums[ti.full] = map[int32]bool{}
		}
		var num int32
		for {
			num = int32(g.intn("extnum", 1000, 1999))
			if !g.extNums[ti.full][num] {
				break
			}
		}
		g.extNums[ti.full][num] = true
		x := &Field{ID: g.id("ext"), Name: g.word(), Number: num, Extendee: ti.full, Type: Scalars[g.intn("extscalar", 0, len(Scalars)-1)], TypeKind: "scalar"}
		x.Comment = g.comment("extension", x.Name)
		if f.Syntax == Editions {
			x.Label = LabelNone
		} else {
			x.Label = LabelOptional
		}
		g.needImport(f, ti.file.Path)
		if len(f.Messages) > 0 && g.pct("nestedext", 40) {
			host := f.Messages[g.intn("exthost", 0, len(f.Messages)-1)]
			host.Extensions = append(host.Extensions, x)
		} else {
			f.Extensions = append(f.Extensions, x)
		}
	}
}
