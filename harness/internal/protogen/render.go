package protogen

import (
	"fmt"
	"sort"
	"strings"
)

// Pos is a 1-based line/column.
type Pos struct {
	Line int `json:"line"`
	Col  int `json:"col"`
}

// ElemPos are the recorded positions of one element.
type ElemPos struct {
	Start Pos `json:"start"`          // first token of the declaration (label/type/keyword), after its comments
	Name  Pos `json:"name"`           // name token
	Type  Pos `json:"type,omitempty"` // type token (fields), request type (methods)
	Out   Pos `json:"out,omitempty"`  // response type (methods)
	Num   Pos `json:"num,omitempty"`  // number token (fields, enum values)
	End   Pos `json:"end"`            // position just after the last token
}

// Contains reports whether p lies within [Start, End].
func (e ElemPos) Contains(p Pos) bool {
	if p.Line < e.Start.Line || p.Line > e.End.Line {
		return false
	}
	if p.Line == e.Start.Line && p.Col < e.Start.Col {
		return false
	}
	if p.Line == e.End.Line && p.Col > e.End.Col {
		return false
	}
	return true
}

// Rendered is the text of one file plus recorded positions keyed by element ID.
// Option positions are keyed by "<ownerID>#<optionName>"; import statements by "<fileID>#import:<path>";
// the package statement by "<fileID>#package"; the syntax statement by "<fileID>#syntax".
type Rendered struct {
	Path string             `json:"path"`
	Text string             `json:"text"`
	Pos  map[string]ElemPos `json:"-"`
}

// Noise injects lexical noise between tokens. nil = canonical layout.
type Noise interface {
	// Gap is called between two tokens; it returns extra text (whitespace/comments) to emit.
	// sameLine is true when the canonical layout would keep both tokens on one line.
	Gap(sameLine bool) string
}

type renderer struct {
	b      strings.Builder
	line   int
	col    int
	indent int
	pos    map[string]ElemPos
	noise  Noise
	atBOL  bool
}

func newRenderer(noise Noise) *renderer {
	return &renderer{line: 1, col: 1, pos: map[string]ElemPos{}, noise: noise, atBOL: true}
}

func (r *renderer) raw(s string) {
	for _, c := range s {
		if c == '\n' {
			r.line++
			r.col = 1
		} else {
			r.col++
		}
	}
	r.b.WriteString(s)
}

func (r *renderer) here() Pos { return Pos{r.line, r.col} }

// tok writes a token, preceded by indentation at the beginning of a line or a single space otherwise
// (unless glue), and returns its start position.
func (r *renderer) tokg(s string, glue bool) Pos {
	if r.atBOL {
		r.raw(strings.Repeat("  ", r.indent))
		r.atBOL = false
	} else if !glue {
		r.raw(" ")
	}
	if r.noise != nil {
		if g := r.noise.Gap(true); g != "" {
			r.raw(g)
			if strings.HasSuffix(g, "\n") {
				r.raw(strings.Repeat("  ", r.indent))
			}
		}
	}
	p := r.here()
	r.raw(s)
	return p
}

func (r *renderer) tok(s string) Pos  { return r.tokg(s, false) }
func (r *renderer) glue(s string) Pos { return r.tokg(s, true) }

func (r *renderer) nl() {
	r.raw("\n")
	r.atBOL = true
}

func (r *renderer) comment(c string) {
	if c == "" {
		return
	}
	for _, l := range strings.Split(c, "\n") {
		if r.atBOL {
			r.raw(strings.Repeat("  ", r.indent))
		}
		r.raw("// " + l)
		r.nl()
	}
}

func (r *renderer) options(ownerID string, opts []Option) {
	for _, o := range opts {
		st := r.tok("option")
		r.tok(o.Name)
		r.tok("=")
		r.tok(o.Value)
		r.glue(";")
		r.pos[ownerID+"#"+o.Name] = ElemPos{Start: st, Name: st, End: r.here()}
		r.nl()
	}
}

func (r *renderer) compactOptions(ownerID string, opts []Option) {
	if len(opts) == 0 {
		return
	}
	r.tok("[")
	for i, o := range opts {
		var st Pos
		if i == 0 {
			st = r.glue(o.Name)
		} else {
			r.glue(",")
			st = r.tok(o.Name)
		}
		r.tok("=")
		r.tok(o.Value)
		r.pos[ownerID+"#"+o.Name] = ElemPos{Start: st, Name: st, End: r.here()}
	}
	r.glue("]")
}

// TypeText renders a type reference relative to nothing (fully qualified with leading dot).
func typeText(t string) string { return t }

func rangesText(rs []Range, max string) string {
	var parts []string
	for _, x := range rs {
		switch {
		case x.Start == x.End:
			parts = append(parts, fmt.Sprintf("%d", x.Start))
		case max != "" && fmt.Sprintf("%d", x.End) == max:
			parts = append(parts, fmt.Sprintf("%d to max", x.Start))
		default:
			parts = append(parts, fmt.Sprintf("%d to %d", x.Start, x.End))
		}
	}
	return strings.Join(parts, ", ")
}

func (r *renderer) field(f *Field, syntax string) {
	r.comment(f.Comment)
	var st Pos
	started := false
	mark := func(p Pos) {
		if !started {
			st = p
			started = true
		}
	}
	if f.Label != "" {
		mark(r.tok(f.Label))
	}
	var tp Pos
	switch {
	case f.TypeKind == "group":
		tp = r.tok("group")
		mark(tp)
		np := r.tok(f.Group.Name)
		r.tok("=")
		nump := r.tok(fmt.Sprintf("%d", f.Number))
		r.compactOptions(f.ID, f.Options)
		r.tok("{")
		r.nl()
		r.indent++
		r.messageBody(f.Group, syntax)
		r.indent--
		r.tok("}")
		e := ElemPos{Start: st, Name: np, Type: tp, Num: nump, End: r.here()}
		r.pos[f.ID] = e
		r.pos[f.Group.ID] = e
		r.nl()
		return
	case f.MapKey != "":
		tp = r.tok("map<" + f.MapKey + ", " + typeText(f.Type) + ">")
	default:
		tp = r.tok(typeText(f.Type))
	}
	mark(tp)
	np := r.tok(f.Name)
	r.tok("=")
	nump := r.tok(fmt.Sprintf("%d", f.Number))
	r.compactOptions(f.ID, f.Options)
	r.glue(";")
	r.pos[f.ID] = ElemPos{Start: st, Name: np, Type: tp, Num: nump, End: r.here()}
	r.nl()
}

func (r *renderer) extendBlock(f *Field, syntax string) {
	r.comment(f.ExtendComment)
	st := r.tok("extend")
	r.tok(typeText(f.Extendee))
	r.tok("{")
	r.nl()
	r.indent++
	r.field(f, syntax)
	r.indent--
	r.tok("}")
	r.pos[f.ID+"#extend"] = ElemPos{Start: st, Name: st, End: r.here()}
	r.nl()
}

func (r *renderer) enum(e *Enum, syntax string) {
	r.comment(e.Comment)
	st := r.tok("enum")
	np := r.tok(e.Name)
	r.tok("{")
	r.nl()
	r.indent++
	r.options(e.ID, e.Options)
	for _, v := range e.Values {
		r.comment(v.Comment)
		vst := r.tok(v.Name)
		r.tok("=")
		nump := r.tok(fmt.Sprintf("%d", v.Number))
		r.compactOptions(v.ID, v.Options)
		r.glue(";")
		r.pos[v.ID] = ElemPos{Start: vst, Name: vst, Num: nump, End: r.here()}
		r.nl()
	}
	if len(e.ReservedRanges) > 0 {
		rst := r.tok("reserved")
		r.tok(rangesText(e.ReservedRanges, "2147483647"))
		r.glue(";")
		r.pos[e.ID+"#reserved_ranges"] = ElemPos{Start: rst, Name: rst, End: r.here()}
		r.nl()
	}
	if len(e.ReservedNames) > 0 {
		rst := r.tok("reserved")
		if syntax == Editions {
			r.tok(strings.Join(e.ReservedNames, ", "))
		} else {
			r.tok(reservedNamesText(e.ReservedNames))
		}
		r.glue(";")
		r.pos[e.ID+"#reserved_names"] = ElemPos{Start: rst, Name: rst, End: r.here()}
		r.nl()
	}
	r.indent--
	r.tok("}")
	r.pos[e.ID] = ElemPos{Start: st, Name: np, End: r.here()}
	r.nl()
}

func reservedNamesText(names []string) string {
	q := make([]string, len(names))
	for i, n := range names {
		q[i] = `"` + n + `"`
	}
	return strings.Join(q, ", ")
}

func (r *renderer) messageBody(m *Message, syntax string) {
	r.options(m.ID, m.Options)
	// fields not in a oneof, in order; oneofs are emitted where their first member would be
	emitted := map[string]bool{}
	for _, f := range m.Fields {
		if f.Oneof == "" {
			r.field(f, syntax)
			continue
		}
		if emitted[f.Oneof] {
			continue
		}
		emitted[f.Oneof] = true
		var o *Oneof
		for _, x := range m.Oneofs {
			if x.Name == f.Oneof {
				o = x
			}
		}
		if o == nil {
			o = &Oneof{ID: m.ID + "/oneof:" + f.Oneof, Name: f.Oneof}
		}
		r.comment(o.Comment)
		ost := r.tok("oneof")
		onp := r.tok(o.Name)
		r.tok("{")
		r.nl()
		r.indent++
		for _, g := range m.Fields {
			if g.Oneof == o.Name {
				r.field(g, syntax)
			}
		}
		r.indent--
		r.tok("}")
		r.pos[o.ID] = ElemPos{Start: ost, Name: onp, End: r.here()}
		r.nl()
	}
	for _, e := range m.Enums {
		r.enum(e, syntax)
	}
	for _, n := range m.Nested {
		r.message(n, syntax)
	}
	for _, x := range m.Extensions {
		r.extendBlock(x, syntax)
	}
	if len(m.ExtensionRanges) > 0 {
		rst := r.tok("extensions")
		r.tok(rangesText(m.ExtensionRanges, "536870911"))
		r.glue(";")
		r.pos[m.ID+"#extension_ranges"] = ElemPos{Start: rst, Name: rst, End: r.here()}
		r.nl()
	}
	if len(m.ReservedRanges) > 0 {
		rst := r.tok("reserved")
		r.tok(rangesText(m.ReservedRanges, "536870911"))
		r.glue(";")
		r.pos[m.ID+"#reserved_ranges"] = ElemPos{Start: rst, Name: rst, End: r.here()}
		r.nl()
	}
	if len(m.ReservedNames) > 0 {
		rst := r.tok("reserved")
		if syntax == Editions {
			r.tok(strings.Join(m.ReservedNames, ", "))
		} else {
			r.tok(reservedNamesText(m.ReservedNames))
		}
		r.glue(";")
		r.pos[m.ID+"#reserved_names"] = ElemPos{Start: rst, Name: rst, End: r.here()}
		r.nl()
	}
}

func (r *renderer) message(m *Message, syntax string) {
	r.comment(m.Comment)
	st := r.tok("message")
	np := r.tok(m.Name)
	r.tok("{")
	r.nl()
	r.indent++
	r.messageBody(m, syntax)
	r.indent--
	r.tok("}")
	r.pos[m.ID] = ElemPos{Start: st, Name: np, End: r.here()}
	r.nl()
}

func (r *renderer) service(s *Service) {
	r.comment(s.Comment)
	st := r.tok("service")
	np := r.tok(s.Name)
	r.tok("{")
	r.nl()
	r.indent++
	r.options(s.ID, s.Options)
	for _, m := range s.Methods {
		r.comment(m.Comment)
		mst := r.tok("rpc")
		mnp := r.tok(m.Name)
		r.glue("(")
		var inp, outp Pos
		if m.ClientStream {
			r.glue("stream")
			inp = r.tok(typeText(m.Input))
		} else {
			inp = r.glue(typeText(m.Input))
		}
		r.glue(")")
		r.tok("returns")
		r.tok("(")
		if m.ServerStream {
			r.glue("stream")
			outp = r.tok(typeText(m.Output))
		} else {
			outp = r.glue(typeText(m.Output))
		}
		r.glue(")")
		if len(m.Options) > 0 {
			r.tok("{")
			r.nl()
			r.indent++
			r.options(m.ID, m.Options)
			r.indent--
			r.tok("}")
		} else {
			r.glue(";")
		}
		r.pos[m.ID] = ElemPos{Start: mst, Name: mnp, Type: inp, Out: outp, End: r.here()}
		r.nl()
	}
	r.indent--
	r.tok("}")
	r.pos[s.ID] = ElemPos{Start: st, Name: np, End: r.here()}
	r.nl()
}

// RenderFile renders one file.
func RenderFile(f *File, noise Noise) *Rendered {
	r := newRenderer(noise)
	r.comment(f.Comment)
	switch f.Syntax {
	case Proto2, Proto3:
		st := r.tok("syntax")
		r.tok("=")
		r.tok(`"` + f.Syntax + `"`)
		r.glue(";")
		r.pos[f.ID+"#syntax"] = ElemPos{Start: st, Name: st, End: r.here()}
		r.nl()
	case Editions:
		st := r.tok("edition")
		r.tok("=")
		r.tok(`"2023"`)
		r.glue(";")
		r.pos[f.ID+"#syntax"] = ElemPos{Start: st, Name: st, End: r.here()}
		r.nl()
	}
	if f.Package != "" {
		st := r.tok("package")
		np := r.tok(f.Package)
		r.glue(";")
		r.pos[f.ID+"#package"] = ElemPos{Start: st, Name: np, End: r.here()}
		r.nl()
	}
	for _, imp := range f.Imports {
		st := r.tok("import")
		if imp.Public {
			r.tok("public")
		} else if imp.Weak {
			r.tok("weak")
		}
		np := r.tok(`"` + imp.Path + `"`)
		r.glue(";")
		r.pos[f.ID+"#import:"+imp.Path] = ElemPos{Start: st, Name: np, End: r.here()}
		r.nl()
	}
	r.options(f.ID, f.Options)
	for _, e := range f.Enums {
		r.enum(e, f.Syntax)
	}
	for _, m := range f.Messages {
		r.message(m, f.Syntax)
	}
	for _, x := range f.Extensions {
		r.extendBlock(x, f.Syntax)
	}
	for _, s := range f.Services {
		r.service(s)
	}
	r.pos[f.ID] = ElemPos{Start: Pos{1, 1}, Name: Pos{1, 1}, End: r.here()}
	return &Rendered{Path: f.Path, Text: r.b.String(), Pos: r.pos}
}

// RenderedWorkspace is a rendered workspace.
type RenderedWorkspace struct {
	// Files maps "<moduleDir>/<path>" (workspace-relative) to text; ByModule maps module dir -> path -> text.
	ByModule map[string]map[string]string
	// Pos maps element id -> position; FileOf maps element id -> import path of its file.
	Pos    map[string]ElemPos
	FileOf map[string]string
}

// Render renders every file of the workspace canonically.
func (w *Workspace) Render() *RenderedWorkspace {
	out := &RenderedWorkspace{ByModule: map[string]map[string]string{}, Pos: map[string]ElemPos{}, FileOf: map[string]string{}}
	for _, m := range w.Modules {
		files := map[string]string{}
		for _, f := range m.Files {
			r := RenderFile(f, nil)
			files[f.Path] = r.Text
			for id, p := range r.Pos {
				out.Pos[id] = p
				out.FileOf[id] = f.Path
			}
		}
		out.ByModule[m.Dir] = files
	}
	return out
}

// Flat returns workspace-relative path -> text.
func (rw *RenderedWorkspace) Flat() map[string]string {
	out := map[string]string{}
	for dir, files := range rw.ByModule {
		for p, t := range files {
			if dir == "" || dir == "." {
				out[p] = t
			} else {
				out[dir+"/"+p] = t
			}
		}
	}
	return out
}

// SortedPaths returns the sorted keys of a string map.
func SortedPaths(m map[string]string) []string {
	out := make([]string, 0, len(m))
	for k := range m {
		out = append(out, k)
	}
	sort.Strings(out)
	return out
}
