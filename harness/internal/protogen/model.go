// Package protogen is the schema / workspace model shared by the schema-level checks:
// a plain-data model of .proto files, a rapid generator that builds valid (linkable) workspaces by
// construction, and a renderer that records the source position of every element it writes.
package protogen

import (
	"fmt"
	"sort"
	"strings"
)

// Syntax values.
const (
	SyntaxUnspecified = ""
	Proto2            = "proto2"
	Proto3            = "proto3"
	Editions          = "editions" // edition = "2023"
)

// Scalar kinds in a fixed order.
var Scalars = []string{
	"int32", "int64", "uint32", "uint64", "sint32", "sint64",
	"fixed32", "fixed64", "sfixed32", "sfixed64", "bool", "string", "bytes", "double", "float",
}

// Labels.
const (
	LabelNone     = ""         // proto3 implicit presence / editions default (explicit) / oneof members / map
	LabelOptional = "optional" // proto2 optional, proto3 explicit optional
	LabelRequired = "required"
	LabelRepeated = "repeated"
)

// Workspace is a set of modules that only import from each other (and WKTs).
type Workspace struct {
	Modules []*Module `json:"modules"`
}

// Module is a directory of files.
type Module struct {
	Dir      string  `json:"dir"`            // workspace-relative directory, unique
	Name     string  `json:"name,omitempty"` // e.g. buf.build/acme/m1
	Files    []*File `json:"files"`
	CommitID string  `json:"commit_id,omitempty"`
}

// Import is an import statement.
type Import struct {
	Path   string `json:"path"`
	Public bool   `json:"public,omitempty"`
	Weak   bool   `json:"weak,omitempty"`
	Unused bool   `json:"unused,omitempty"` // planted on purpose: nothing of the imported file is used
}

// Option is `option name = value;` (or `[name = value]`), value is rendered verbatim.
type Option struct {
	Name  string `json:"name"` // "go_package", "(my.opt)", "features.enum_type"
	Value string `json:"value"`
}

// File is one .proto file.
type File struct {
	ID         string     `json:"id"`
	Path       string     `json:"path"` // module-relative = import path
	Syntax     string     `json:"syntax"`
	Package    string     `json:"package"`
	Imports    []Import   `json:"imports,omitempty"`
	Options    []Option   `json:"options,omitempty"`
	Messages   []*Message `json:"messages,omitempty"`
	Enums      []*Enum    `json:"enums,omitempty"`
	Services   []*Service `json:"services,omitempty"`
	Extensions []*Field   `json:"extensions,omitempty"` // top-level extend blocks, one field per block
	Comment    string     `json:"comment,omitempty"`    // leading comment of the syntax/package area
}

// Message is a message declaration.
type Message struct {
	ID              string     `json:"id"`
	Name            string     `json:"name"`
	Comment         string     `json:"comment,omitempty"`
	Fields          []*Field   `json:"fields,omitempty"`
	Oneofs          []*Oneof   `json:"oneofs,omitempty"`
	Nested          []*Message `json:"nested,omitempty"`
	Enums           []*Enum    `json:"enums,omitempty"`
	Extensions      []*Field   `json:"extensions,omitempty"` // nested extend blocks
	ReservedRanges  []Range    `json:"reserved_ranges,omitempty"`
	ReservedNames   []string   `json:"reserved_names,omitempty"`
	ExtensionRanges []Range    `json:"extension_ranges,omitempty"`
	Options         []Option   `json:"options,omitempty"`
}

// Range is an inclusive number range.
type Range struct {
	Start int32 `json:"start"`
	End   int32 `json:"end"`
}

// Oneof is a oneof declaration; member fields carry Oneof = its name.
type Oneof struct {
	ID      string `json:"id"`
	Name    string `json:"name"`
	Comment string `json:"comment,omitempty"`
}

// Field is a field, map field, group or extension.
type Field struct {
	ID       string   `json:"id"`
	Name     string   `json:"name"`
	Number   int32    `json:"number"`
	Label    string   `json:"label,omitempty"`
	Type     string   `json:"type"`               // scalar keyword, or fully-qualified ".pkg.Type" for message/enum refs
	TypeKind string   `json:"type_kind"`          // "scalar" | "message" | "enum" | "group"
	MapKey   string   `json:"map_key,omitempty"`  // non-empty => map<MapKey, Type>
	Oneof    string   `json:"oneof,omitempty"`    // name of the containing oneof
	Extendee string   `json:"extendee,omitempty"` // fully-qualified ".pkg.Msg" for extensions
	Options  []Option `json:"options,omitempty"`  // json_name, default, packed, jstype, ctype, deprecated, custom
	Comment  string   `json:"comment,omitempty"`
	// ExtendComment (extensions): leading comment of the `extend X { }` block that holds this extension
	ExtendComment string   `json:"extend_comment,omitempty"`
	Group         *Message `json:"group,omitempty"` // for TypeKind == "group": the group body (Name = group type name)
}

// Enum is an enum declaration.
type Enum struct {
	ID             string       `json:"id"`
	Name           string       `json:"name"`
	Comment        string       `json:"comment,omitempty"`
	Values         []*EnumValue `json:"values"`
	Options        []Option     `json:"options,omitempty"` // allow_alias, features.enum_type
	ReservedRanges []Range      `json:"reserved_ranges,omitempty"`
	ReservedNames  []string     `json:"reserved_names,omitempty"`
}

// EnumValue is an enum value.
type EnumValue struct {
	ID      string   `json:"id"`
	Name    string   `json:"name"`
	Number  int32    `json:"number"`
	Comment string   `json:"comment,omitempty"`
	Options []Option `json:"options,omitempty"`
}

// Service is a service declaration.
type Service struct {
	ID      string    `json:"id"`
	Name    string    `json:"name"`
	Comment string    `json:"comment,omitempty"`
	Methods []*Method `json:"methods,omitempty"`
	Options []Option  `json:"options,omitempty"`
}

// Method is an RPC.
type Method struct {
	ID           string   `json:"id"`
	Name         string   `json:"name"`
	Comment      string   `json:"comment,omitempty"`
	Input        string   `json:"input"`  // ".pkg.Type"
	Output       string   `json:"output"` // ".pkg.Type"
	ClientStream bool     `json:"client_stream,omitempty"`
	ServerStream bool     `json:"server_stream,omitempty"`
	Options      []Option `json:"options,omitempty"` // idempotency_level
}

// ---------------------------------------------------------------------------------------------
// helpers over the model

// GetOption returns the value of the named option.
func GetOption(opts []Option, name string) (string, bool) {
	for _, o := range opts {
		if o.Name == name {
			return o.Value, true
		}
	}
	return "", false
}

// SetOption sets (or replaces) the named option and returns the new slice.
func SetOption(opts []Option, name, value string) []Option {
	for i, o := range opts {
		if o.Name == name {
			out := append([]Option{}, opts...)
			out[i].Value = value
			return out
		}
	}
	return append(append([]Option{}, opts...), Option{Name: name, Value: value})
}

// DelOption removes the named option.
func DelOption(opts []Option, name string) []Option {
	var out []Option
	for _, o := range opts {
		if o.Name != name {
			out = append(out, o)
		}
	}
	return out
}

// AllFiles returns every file of the workspace with its module, in module then file order.
func (w *Workspace) AllFiles() []*File {
	var out []*File
	for _, m := range w.Modules {
		out = append(out, m.Files...)
	}
	return out
}

// FileByPath returns the file with the given import path.
func (w *Workspace) FileByPath(path string) (*File, *Module) {
	for _, m := range w.Modules {
		for _, f := range m.Files {
			if f.Path == path {
				return f, m
			}
		}
	}
	return nil, nil
}

// ModuleOf returns the module that owns f.
func (w *Workspace) ModuleOf(f *File) *Module {
	for _, m := range w.Modules {
		for _, g := range m.Files {
			if g == f {
				return m
			}
		}
	}
	return nil
}

// FullName joins a package/scope with a name.
func FullName(scope, name string) string {
	if scope == "" {
		return name
	}
	return scope + "." + name
}

// MsgRef describes a message (or group) with its scope.
type MsgRef struct {
	File   *File
	Parent *Message // nil for top-level
	Msg    *Message
	Full   string // fully qualified, no leading dot
	Depth  int
}

// EnumRef describes an enum with its scope.
type EnumRef struct {
	File   *File
	Parent *Message
	Enum   *Enum
	Full   string
	Depth  int
}

// WalkMessages visits every message of the file (pre-order), including group bodies.
func (f *File) WalkMessages(fn func(MsgRef)) {
	var rec func(parent *Message, msgs []*Message, scope string, depth int)
	rec = func(parent *Message, msgs []*Message, scope string, depth int) {
		for _, m := range msgs {
			full := FullName(scope, m.Name)
			fn(MsgRef{File: f, Parent: parent, Msg: m, Full: full, Depth: depth})
			rec(m, m.Nested, full, depth+1)
			for _, fld := range m.Fields {
				if fld.Group != nil {
					gfull := FullName(full, fld.Group.Name)
					fn(MsgRef{File: f, Parent: m, Msg: fld.Group, Full: gfull, Depth: depth + 1})
					rec(fld.Group, fld.Group.Nested, gfull, depth+2)
				}
			}
		}
	}
	rec(nil, f.Messages, f.Package, 0)
}

// WalkEnums visits every enum of the file.
func (f *File) WalkEnums(fn func(EnumRef)) {
	for _, e := range f.Enums {
		fn(EnumRef{File: f, Enum: e, Full: FullName(f.Package, e.Name)})
	}
	f.WalkMessages(func(m MsgRef) {
		for _, e := range m.Msg.Enums {
			fn(EnumRef{File: f, Parent: m.Msg, Enum: e, Full: FullName(m.Full, e.Name), Depth: m.Depth + 1})
		}
	})
}

// Clone deep-copies a workspace (via field-wise copy; the model is a tree).
func (w *Workspace) Clone() *Workspace {
	out := &Workspace{}
	for _, m := range w.Modules {
		nm := &Module{Dir: m.Dir, Name: m.Name, CommitID: m.CommitID}
		for _, f := range m.Files {
			nm.Files = append(nm.Files, f.Clone())
		}
		out.Modules = append(out.Modules, nm)
	}
	return out
}

// Clone deep-copies a file.
func (f *File) Clone() *File {
	nf := *f
	nf.Imports = append([]Import{}, f.Imports...)
	nf.Options = append([]Option{}, f.Options...)
	nf.Messages = cloneMsgs(f.Messages)
	nf.Enums = cloneEnums(f.Enums)
	nf.Services = nil
	for _, s := range f.Services {
		ns := *s
		ns.Options = append([]Option{}, s.Options...)
		ns.Methods = nil
		for _, m := range s.Methods {
			nm := *m
			nm.Options = append([]Option{}, m.Options...)
			ns.Methods = append(ns.Methods, &nm)
		}
		nf.Services = append(nf.Services, &ns)
	}
	nf.Extensions = cloneFields(f.Extensions)
	return &nf
}

func cloneMsgs(ms []*Message) []*Message {
	var out []*Message
	for _, m := range ms {
		out = append(out, m.Clone())
	}
	return out
}

// Clone deep-copies a message.
func (m *Message) Clone() *Message {
	nm := *m
	nm.Fields = cloneFields(m.Fields)
	nm.Oneofs = nil
	for _, o := range m.Oneofs {
		no := *o
		nm.Oneofs = append(nm.Oneofs, &no)
	}
	nm.Nested = cloneMsgs(m.Nested)
	nm.Enums = cloneEnums(m.Enums)
	nm.Extensions = cloneFields(m.Extensions)
	nm.ReservedRanges = append([]Range{}, m.ReservedRanges...)
	nm.ReservedNames = append([]string{}, m.ReservedNames...)
	nm.ExtensionRanges = append([]Range{}, m.ExtensionRanges...)
	nm.Options = append([]Option{}, m.Options...)
	return &nm
}

func cloneFields(fs []*Field) []*Field {
	var out []*Field
	for _, f := range fs {
		nf := *f
		nf.Options = append([]Option{}, f.Options...)
		if f.Group != nil {
			nf.Group = f.Group.Clone()
		}
		out = append(out, &nf)
	}
	return out
}

func cloneEnums(es []*Enum) []*Enum {
	var out []*Enum
	for _, e := range es {
		ne := *e
		ne.Options = append([]Option{}, e.Options...)
		ne.ReservedRanges = append([]Range{}, e.ReservedRanges...)
		ne.ReservedNames = append([]string{}, e.ReservedNames...)
		ne.Values = nil
		for _, v := range e.Values {
			nv := *v
			nv.Options = append([]Option{}, v.Options...)
			ne.Values = append(ne.Values, &nv)
		}
		out = append(out, &ne)
	}
	return out
}

// ImportClosure returns the set of import paths reachable from the given file paths (inclusive),
// following every import edge (public or not). WKT paths are included as leaves when not supplied.
func (w *Workspace) ImportClosure(roots []string) map[string]bool {
	seen := map[string]bool{}
	var rec func(p string)
	rec = func(p string) {
		if seen[p] {
			return
		}
		seen[p] = true
		f, _ := w.FileByPath(p)
		if f == nil {
			// well-known type: follow its own imports
			for _, d := range WKTDeps[p] {
				rec(d)
			}
			return
		}
		for _, imp := range f.Imports {
			rec(imp.Path)
		}
	}
	for _, r := range roots {
		rec(r)
	}
	return seen
}

// WKTDeps lists the imports of the well-known-type files that import other WKTs.
var WKTDeps = map[string][]string{
	"google/protobuf/api.proto":             {"google/protobuf/source_context.proto", "google/protobuf/type.proto"},
	"google/protobuf/type.proto":            {"google/protobuf/any.proto", "google/protobuf/source_context.proto"},
	"google/protobuf/compiler/plugin.proto": {"google/protobuf/descriptor.proto"},
	"google/protobuf/cpp_features.proto":    {"google/protobuf/descriptor.proto"},
	"google/protobuf/java_features.proto":   {"google/protobuf/descriptor.proto"},
	"google/protobuf/go_features.proto":     {"google/protobuf/descriptor.proto"},
}

// SortedKeys returns the sorted keys of a bool set.
func SortedKeys(m map[string]bool) []string {
	out := make([]string, 0, len(m))
	for k := range m {
		out = append(out, k)
	}
	sort.Strings(out)
	return out
}

// Canon is a compact canonical description of a workspace used for distinct-case hashing.
func (w *Workspace) Canon() string {
	var b strings.Builder
	for _, m := range w.Modules {
		fmt.Fprintf(&b, "M(%s,%s)", m.Dir, m.Name)
		for _, f := range m.Files {
			fmt.Fprintf(&b, "F(%s,%s,%s,%d,%d,%d,%d;", f.Path, f.Syntax, f.Package, len(f.Messages), len(f.Enums), len(f.Services), len(f.Extensions))
			for _, i := range f.Imports {
				fmt.Fprintf(&b, "%s%v%v,", i.Path, i.Public, i.Unused)
			}
			f.WalkMessages(func(r MsgRef) {
				fmt.Fprintf(&b, "m%s:%d,", r.Msg.Name, len(r.Msg.Fields))
			})
			b.WriteString(")")
		}
	}
	return b.String()
}
