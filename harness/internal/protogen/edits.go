package protogen

import (
	"fmt"
	"sort"
	"strings"

	"pgregory.net/rapid"
)

// Edit describes one applied schema edit and what the documentation says about it.
type Edit struct {
	Op   string `json:"op"`
	Desc string `json:"desc"`
	// Rules are the breaking rule IDs that document this edit as breaking (irrespective of
	// category / config version; membership is applied by ExpectedRules).
	Rules []string `json:"rules"`
	// File is the path of the file that must carry the annotation ("" = any / no file, e.g. a deleted file).
	File string `json:"file"`
	// ElemID is the element (in the NEW workspace) the annotation must lie within: the edited element if it
	// still exists, else its nearest surviving ancestor; "" = anywhere in File.
	ElemID string `json:"elem_id"`
	// Mention: the annotation message must contain at least one of these strings.
	Mention []string `json:"mention"`
	// PerRuleMention overrides Mention for specific rules.
	PerRuleMention map[string][]string `json:"per_rule_mention,omitempty"`
	// PerRuleElem overrides ElemID for specific rules (e.g. message-level rules triggered by a field edit).
	PerRuleElem map[string]string `json:"per_rule_elem,omitempty"`
	Compatible  bool              `json:"compatible,omitempty"` // additive / cosmetic edit: no rule may fire
	// MovedID: the element that now lives in another file than before (File is its previous file)
	MovedID string `json:"moved_id,omitempty"`
}

// Editor applies edits to a workspace drawing its choices from rapid.
type Editor struct {
	t   *rapid.T
	seq int
	// tomb records numbers of deleted fields / enum values per message / enum ID so that later
	// additive edits never re-use (or reserve) them.
	tomb map[string]map[int32]bool
}

// NewEditor returns an Editor.
func NewEditor(t *rapid.T) *Editor { return &Editor{t: t, tomb: map[string]map[int32]bool{}} }

func (e *Editor) bury(id string, n int32) {
	if e.tomb[id] == nil {
		e.tomb[id] = map[int32]bool{}
	}
	e.tomb[id][n] = true
}

func (e *Editor) intn(label string, lo, hi int) int {
	if hi <= lo {
		return lo
	}
	if hi-lo < 64 {
		// fair bits: rapid's integer generators are biased towards small values
		v := 0
		for i := 0; i < 10; i++ {
			v <<= 1
			if rapid.Bool().Draw(e.t, label) {
				v |= 1
			}
		}
		return lo + v%(hi-lo+1)
	}
	return rapid.IntRange(lo, hi).Draw(e.t, label)
}

func (e *Editor) pick(label string, n int) int { return e.intn(label, 0, n-1) }

// fresh returns an identifier that cannot collide with generator names (which are two pool words).
func (e *Editor) fresh() string {
	e.seq++
	return fmt.Sprintf("nx%d_%s", e.seq, words[e.intn("freshword", 0, len(words)-1)])
}

func (e *Editor) id() string {
	e.seq++
	return fmt.Sprintf("edit%d", e.seq)
}

// ---------------------------------------------------------------------------------------------
// reference information over a workspace

// typeRefs returns the set of fully-qualified (leading dot) type names referenced anywhere.
func typeRefs(ws *Workspace) map[string]int {
	refs := map[string]int{}
	for _, f := range ws.AllFiles() {
		addField := func(fld *Field) {
			if fld.TypeKind == "message" || fld.TypeKind == "enum" {
				refs[fld.Type]++
			}
			if fld.Extendee != "" {
				refs[fld.Extendee]++
			}
		}
		f.WalkMessages(func(m MsgRef) {
			for _, fld := range m.Msg.Fields {
				addField(fld)
			}
			for _, x := range m.Msg.Extensions {
				addField(x)
			}
		})
		for _, x := range f.Extensions {
			addField(x)
		}
		for _, s := range f.Services {
			for _, m := range s.Methods {
				refs[m.Input]++
				refs[m.Output]++
			}
		}
	}
	return refs
}

// referencedUnder reports whether full (".a.B") or anything nested in it is referenced.
func referencedUnder(refs map[string]int, full string) bool {
	for r := range refs {
		if r == full || strings.HasPrefix(r, full+".") {
			return true
		}
	}
	return false
}

// importers returns the paths of files importing path.
func importers(ws *Workspace, path string) []string {
	var out []string
	for _, f := range ws.AllFiles() {
		for _, i := range f.Imports {
			if i.Path == path {
				out = append(out, f.Path)
			}
		}
	}
	return out
}

type fieldSite struct {
	file *File
	msg  MsgRef
	fld  *Field
}

func fieldSites(ws *Workspace, pred func(fieldSite) bool) []fieldSite {
	var out []fieldSite
	for _, f := range ws.AllFiles() {
		if f.Package == "options.v1" || f.Package == "google.protobuf" {
			continue
		}
		f.WalkMessages(func(m MsgRef) {
			for _, fld := range m.Msg.Fields {
				s := fieldSite{f, m, fld}
				if pred == nil || pred(s) {
					out = append(out, s)
				}
			}
		})
	}
	return out
}

func msgSites(ws *Workspace, pred func(MsgRef) bool) []MsgRef {
	var out []MsgRef
	for _, f := range ws.AllFiles() {
		if f.Package == "options.v1" || f.Package == "google.protobuf" {
			continue
		}
		f.WalkMessages(func(m MsgRef) {
			if pred == nil || pred(m) {
				out = append(out, m)
			}
		})
	}
	return out
}

func enumSites(ws *Workspace, pred func(EnumRef) bool) []EnumRef {
	var out []EnumRef
	for _, f := range ws.AllFiles() {
		if f.Package == "options.v1" || f.Package == "google.protobuf" {
			continue
		}
		f.WalkEnums(func(e EnumRef) {
			if pred == nil || pred(e) {
				out = append(out, e)
			}
		})
	}
	return out
}

func isGroupBody(m MsgRef) bool {
	if m.Parent == nil {
		return false
	}
	for _, f := range m.Parent.Fields {
		if f.Group == m.Msg {
			return true
		}
	}
	return false
}

func numStr(n int32) string { return fmt.Sprintf("%q", fmt.Sprint(n)) }

func hasOpt(opts []Option, name string) bool { _, ok := GetOption(opts, name); return ok }

func plainField(s fieldSite) bool {
	return s.fld.TypeKind != "group" && s.fld.MapKey == "" && !isMapEntryOrGroup(s)
}

func isMapEntryOrGroup(s fieldSite) bool { return false }

func removeField(m *Message, fld *Field) {
	var out []*Field
	for _, f := range m.Fields {
		if f != fld {
			out = append(out, f)
		}
	}
	m.Fields = out
	// drop oneofs that lost all members
	var oo []*Oneof
	for _, o := range m.Oneofs {
		has := false
		for _, f := range m.Fields {
			if f.Oneof == o.Name {
				has = true
			}
		}
		if has {
			oo = append(oo, o)
		}
	}
	m.Oneofs = oo
}

func oneofMembers(m *Message, name string) int {
	n := 0
	for _, f := range m.Fields {
		if f.Oneof == name {
			n++
		}
	}
	return n
}

// usedNumbers returns the numbers used or reserved in a message.
func usedNumbers(m *Message) map[int32]bool {
	u := map[int32]bool{}
	for _, f := range m.Fields {
		u[f.Number] = true
	}
	for _, r := range m.ReservedRanges {
		for k := r.Start; k <= r.End && k-r.Start < 100000; k++ {
			u[k] = true
		}
	}
	for _, r := range m.ExtensionRanges {
		for k := r.Start; k <= r.End && k-r.Start < 100000; k++ {
			u[k] = true
		}
	}
	return u
}

func (e *Editor) freshNumber(m *Message) int32 {
	u := usedNumbers(m)
	for k := range e.tomb[m.ID] {
		u[k] = true
	}
	for {
		n := int32(e.intn("freshnum", 2000, 18000))
		if !u[n] {
			return n
		}
	}
}

// ---------------------------------------------------------------------------------------------
// breaking operators. Each returns (edit, true) after mutating ws in place, or (nil, false) if not applicable.

// BreakingOp is a breaking edit operator.
type BreakingOp struct {
	Name  string
	Apply func(e *Editor, ws *Workspace) (*Edit, bool)
}

func deletedFieldRules(m *Message, fld *Field, reserveNumber, reserveName bool) []string {
	rules := []string{"FIELD_NO_DELETE"}
	if !reserveName {
		rules = append(rules, "FIELD_NO_DELETE_UNLESS_NAME_RESERVED")
	}
	if !reserveNumber {
		rules = append(rules, "FIELD_NO_DELETE_UNLESS_NUMBER_RESERVED")
	}
	if fld.Label == LabelRequired {
		rules = append(rules, "MESSAGE_SAME_REQUIRED_FIELDS")
	}
	return rules
}

func opDeleteField(e *Editor, ws *Workspace) (*Edit, bool) {
	sites := fieldSites(ws, func(s fieldSite) bool {
		// keep at least nothing: any field may go; a oneof keeps >=1 member or goes with its last member
		return !isGroupBody(s.msg) || len(s.msg.Msg.Fields) > 1
	})
	if len(sites) == 0 {
		return nil, false
	}
	s := sites[e.pick("site", len(sites))]
	variant := e.intn("reservation", 0, 3)
	resNum, resName := variant&1 != 0, variant&2 != 0
	m := s.msg.Msg
	removeField(m, s.fld)
	e.bury(m.ID, s.fld.Number)
	if resNum {
		m.ReservedRanges = append(m.ReservedRanges, Range{s.fld.Number, s.fld.Number})
	}
	if resName {
		m.ReservedNames = append(m.ReservedNames, s.fld.Name)
	}
	return &Edit{
		Op: "delete-field", Desc: fmt.Sprintf("delete field %s=%d of %s (reserve number=%v name=%v)", s.fld.Name, s.fld.Number, s.msg.Full, resNum, resName),
		Rules: deletedFieldRules(m, s.fld, resNum, resName), File: s.file.Path, ElemID: m.ID,
		Mention:        []string{numStr(s.fld.Number), `"` + s.fld.Name + `"`},
		PerRuleMention: map[string][]string{"MESSAGE_SAME_REQUIRED_FIELDS": {numStr(s.fld.Number), s.fld.Name, m.Name}},
	}, true
}

func opDeleteEnumValue(e *Editor, ws *Workspace) (*Edit, bool) {
	type site struct {
		er EnumRef
		v  *EnumValue
	}
	var sites []site
	for _, er := range enumSites(ws, nil) {
		for i, v := range er.Enum.Values {
			if i == 0 || v.Number == er.Enum.Values[0].Number {
				continue // keep the first (zero) value and its aliases
			}
			sites = append(sites, site{er, v})
		}
	}
	if len(sites) == 0 {
		return nil, false
	}
	s := sites[e.pick("site", len(sites))]
	// the number goes away: every name of it (allow_alias) is deleted
	var vals, gone []*EnumValue
	for _, v := range s.er.Enum.Values {
		if v.Number != s.v.Number {
			vals = append(vals, v)
		} else {
			gone = append(gone, v)
		}
	}
	resNum := e.pick("reservenumber", 2) == 0
	// names: none, all, or (with aliases) only some of them reserved
	resNames := e.pick("reservenames", 3)
	if len(gone) == 1 && resNames == 2 {
		resNames = e.pick("reservename", 2)
	}
	s.er.Enum.Values = vals
	e.bury(s.er.Enum.ID, s.v.Number)
	// allow_alias without any alias left does not compile
	nums := map[int32]int{}
	aliased := false
	for _, v := range vals {
		nums[v.Number]++
		aliased = aliased || nums[v.Number] > 1
	}
	if !aliased {
		s.er.Enum.Options = DelOption(s.er.Enum.Options, "allow_alias")
	}
	if resNum {
		s.er.Enum.ReservedRanges = append(s.er.Enum.ReservedRanges, Range{s.v.Number, s.v.Number})
	}
	nReserved := 0
	switch resNames {
	case 1:
		for _, v := range gone {
			s.er.Enum.ReservedNames = append(s.er.Enum.ReservedNames, v.Name)
		}
		nReserved = len(gone)
	case 2:
		skip := e.pick("unreservedname", len(gone))
		for i, v := range gone {
			if i != skip {
				s.er.Enum.ReservedNames = append(s.er.Enum.ReservedNames, v.Name)
				nReserved++
			}
		}
	}
	rules := []string{"ENUM_VALUE_NO_DELETE"}
	if nReserved < len(gone) {
		rules = append(rules, "ENUM_VALUE_NO_DELETE_UNLESS_NAME_RESERVED")
	}
	if !resNum {
		rules = append(rules, "ENUM_VALUE_NO_DELETE_UNLESS_NUMBER_RESERVED")
	}
	op := "delete-enum-value"
	mention := []string{numStr(s.v.Number)}
	var names []string
	for _, v := range gone {
		names = append(names, v.Name)
		mention = append(mention, v.Name)
	}
	if len(gone) > 1 {
		op = "delete-aliased-enum-value"
	}
	return &Edit{Op: op, Desc: fmt.Sprintf("delete value %s=%d of %s (reserve number=%v, %d of %d names reserved)", strings.Join(names, "/"), s.v.Number, s.er.Full, resNum, nReserved, len(gone)),
		Rules: rules, File: s.er.File.Path, ElemID: s.er.Enum.ID, Mention: mention}, true
}

func opDeleteMessage(e *Editor, ws *Workspace) (*Edit, bool) {
	refs := typeRefs(ws)
	sites := msgSites(ws, func(m MsgRef) bool {
		if isGroupBody(m) || referencedUnder(refs, "."+m.Full) {
			return false
		}
		// nested extensions declared inside would vanish too: allowed (extras), but keep extendee users simple
		return true
	})
	if len(sites) == 0 {
		return nil, false
	}
	s := sites[e.pick("site", len(sites))]
	elem := ""
	if s.Parent != nil {
		var out []*Message
		for _, m := range s.Parent.Nested {
			if m != s.Msg {
				out = append(out, m)
			}
		}
		s.Parent.Nested = out
		elem = s.Parent.ID
	} else {
		var out []*Message
		for _, m := range s.File.Messages {
			if m != s.Msg {
				out = append(out, m)
			}
		}
		s.File.Messages = out
	}
	return &Edit{Op: "delete-message", Desc: "delete message " + s.Full + fmt.Sprintf(" (depth %d)", s.Depth),
		Rules: []string{"MESSAGE_NO_DELETE", "PACKAGE_MESSAGE_NO_DELETE"}, File: s.File.Path, ElemID: elem, Mention: []string{s.Full, s.Msg.Name}}, true
}

func opDeleteEnum(e *Editor, ws *Workspace) (*Edit, bool) {
	refs := typeRefs(ws)
	sites := enumSites(ws, func(er EnumRef) bool { return refs["."+er.Full] == 0 })
	if len(sites) == 0 {
		return nil, false
	}
	s := sites[e.pick("site", len(sites))]
	elem := ""
	if s.Parent != nil {
		var out []*Enum
		for _, x := range s.Parent.Enums {
			if x != s.Enum {
				out = append(out, x)
			}
		}
		s.Parent.Enums = out
		elem = s.Parent.ID
	} else {
		var out []*Enum
		for _, x := range s.File.Enums {
			if x != s.Enum {
				out = append(out, x)
			}
		}
		s.File.Enums = out
	}
	return &Edit{Op: "delete-enum", Desc: "delete enum " + s.Full, Rules: []string{"ENUM_NO_DELETE", "PACKAGE_ENUM_NO_DELETE"},
		File: s.File.Path, ElemID: elem, Mention: []string{s.Full, s.Enum.Name}}, true
}

func opDeleteService(e *Editor, ws *Workspace) (*Edit, bool) {
	var files []*File
	for _, f := range ws.AllFiles() {
		if len(f.Services) > 0 {
			files = append(files, f)
		}
	}
	if len(files) == 0 {
		return nil, false
	}
	f := files[e.pick("file", len(files))]
	i := e.pick("svc", len(f.Services))
	s := f.Services[i]
	f.Services = append(append([]*Service{}, f.Services[:i]...), f.Services[i+1:]...)
	return &Edit{Op: "delete-service", Desc: "delete service " + FullName(f.Package, s.Name), Rules: []string{"SERVICE_NO_DELETE", "PACKAGE_SERVICE_NO_DELETE"},
		File: f.Path, Mention: []string{s.Name}}, true
}

func opDeleteRPC(e *Editor, ws *Workspace) (*Edit, bool) {
	type site struct {
		f *File
		s *Service
		i int
	}
	var sites []site
	for _, f := range ws.AllFiles() {
		for _, s := range f.Services {
			for i := range s.Methods {
				sites = append(sites, site{f, s, i})
			}
		}
	}
	if len(sites) == 0 {
		return nil, false
	}
	x := sites[e.pick("site", len(sites))]
	m := x.s.Methods[x.i]
	x.s.Methods = append(append([]*Method{}, x.s.Methods[:x.i]...), x.s.Methods[x.i+1:]...)
	return &Edit{Op: "delete-rpc", Desc: "delete rpc " + x.s.Name + "." + m.Name, Rules: []string{"RPC_NO_DELETE"}, File: x.f.Path, ElemID: x.s.ID, Mention: []string{m.Name}}, true
}

func opDeleteExtension(e *Editor, ws *Workspace) (*Edit, bool) {
	type site struct {
		f    *File
		host *Message
		x    *Field
	}
	var sites []site
	for _, f := range ws.AllFiles() {
		if f.Package == "options.v1" {
			continue
		}
		for _, x := range f.Extensions {
			sites = append(sites, site{f, nil, x})
		}
		f.WalkMessages(func(m MsgRef) {
			for _, x := range m.Msg.Extensions {
				sites = append(sites, site{f, m.Msg, x})
			}
		})
	}
	if len(sites) == 0 {
		return nil, false
	}
	s := sites[e.pick("site", len(sites))]
	elem := ""
	if s.host != nil {
		var out []*Field
		for _, x := range s.host.Extensions {
			if x != s.x {
				out = append(out, x)
			}
		}
		s.host.Extensions = out
		elem = s.host.ID
	} else {
		var out []*Field
		for _, x := range s.f.Extensions {
			if x != s.x {
				out = append(out, x)
			}
		}
		s.f.Extensions = out
	}
	return &Edit{Op: "delete-extension", Desc: "delete extension " + s.x.Name + " of " + s.x.Extendee, Rules: []string{"EXTENSION_NO_DELETE", "PACKAGE_EXTENSION_NO_DELETE"},
		File: s.f.Path, ElemID: elem, Mention: []string{s.x.Name, numStr(s.x.Number)}}, true
}

// compat groups (reference copy, written from the documentation of FIELD_WIRE[_JSON]_COMPATIBLE_TYPE)
func wireGroup(k string) string {
	switch k {
	case "int32", "int64", "uint32", "uint64", "bool":
		return "varint"
	case "sint32", "sint64":
		return "zigzag"
	case "fixed32", "sfixed32":
		return "f32"
	case "fixed64", "sfixed64":
		return "f64"
	}
	return k // string, bytes, double, float, message, enum, group: each alone
}

func jsonGroup(k string) string {
	switch k {
	case "int32", "uint32":
		return "j32"
	case "int64", "uint64":
		return "j64"
	case "fixed32", "sfixed32":
		return "jf32"
	case "fixed64", "sfixed64":
		return "jf64"
	}
	return k
}

func typeChangeRules(from, to string) []string {
	rules := []string{"FIELD_SAME_TYPE"}
	if jsonGroup(from) != jsonGroup(to) {
		rules = append(rules, "FIELD_WIRE_JSON_COMPATIBLE_TYPE")
	}
	if wireGroup(from) != wireGroup(to) && !(from == "string" && to == "bytes") {
		rules = append(rules, "FIELD_WIRE_COMPATIBLE_TYPE")
	}
	return rules
}

func simpleScalarField(s fieldSite) bool {
	return s.fld.TypeKind == "scalar" && s.fld.MapKey == "" && !hasOpt(s.fld.Options, "default") && !hasOpt(s.fld.Options, "jstype")
}

func opChangeScalarKind(e *Editor, ws *Workspace) (*Edit, bool) {
	sites := fieldSites(ws, simpleScalarField)
	if len(sites) == 0 {
		return nil, false
	}
	s := sites[e.pick("site", len(sites))]
	from := s.fld.Type
	var to string
	for {
		to = Scalars[e.pick("to", len(Scalars))]
		if to != from {
			break
		}
	}
	s.fld.Type = to
	return &Edit{Op: "change-scalar-kind", Desc: fmt.Sprintf("%s.%s: %s -> %s", s.msg.Full, s.fld.Name, from, to), Rules: typeChangeRules(from, to),
		File: s.file.Path, ElemID: s.fld.ID, Mention: []string{numStr(s.fld.Number), `"` + s.fld.Name + `"`}}, true
}

func opChangeMapKind(e *Editor, ws *Workspace) (*Edit, bool) {
	sites := fieldSites(ws, func(s fieldSite) bool { return s.fld.MapKey != "" })
	if len(sites) == 0 {
		return nil, false
	}
	s := sites[e.pick("site", len(sites))]
	keyKinds := []string{"string", "int32", "int64", "uint32", "uint64", "sint32", "sint64", "fixed32", "fixed64", "sfixed32", "sfixed64", "bool"}
	if s.fld.TypeKind == "scalar" && e.pick("keyorvalue", 2) == 0 {
		from := s.fld.Type
		var to string
		for {
			to = Scalars[e.pick("to", len(Scalars))]
			if to != from {
				break
			}
		}
		s.fld.Type = to
		return &Edit{Op: "change-map-value-kind", Desc: fmt.Sprintf("%s.%s: map value %s -> %s", s.msg.Full, s.fld.Name, from, to), Rules: typeChangeRules(from, to),
			File: s.file.Path, ElemID: s.fld.ID, Mention: []string{`"2"`, `"value"`}}, true
	}
	from := s.fld.MapKey
	var to string
	for {
		to = keyKinds[e.pick("tokey", len(keyKinds))]
		if to != from {
			break
		}
	}
	s.fld.MapKey = to
	return &Edit{Op: "change-map-key-kind", Desc: fmt.Sprintf("%s.%s: map key %s -> %s", s.msg.Full, s.fld.Name, from, to), Rules: typeChangeRules(from, to),
		File: s.file.Path, ElemID: s.fld.ID, Mention: []string{`"1"`, `"key"`}}, true
}

func localTypes(f *File, kind string) []string {
	var out []string
	if kind == "message" {
		f.WalkMessages(func(m MsgRef) {
			out = append(out, "."+m.Full)
		})
	} else {
		f.WalkEnums(func(er EnumRef) { out = append(out, "."+er.Full) })
	}
	return out
}

func opScalarToMessageOrEnum(e *Editor, ws *Workspace) (*Edit, bool) {
	sites := fieldSites(ws, func(s fieldSite) bool {
		return simpleScalarField(s) && !isGroupBody(s.msg)
	})
	if len(sites) == 0 {
		return nil, false
	}
	s := sites[e.pick("site", len(sites))]
	kind := []string{"message", "enum"}[e.pick("kind", 2)]
	var cands []string
	if kind == "message" {
		s.file.WalkMessages(func(m MsgRef) {
			if !isGroupBody(m) {
				cands = append(cands, "."+m.Full)
			}
		})
	} else {
		cands = localTypes(s.file, "enum")
	}
	if len(cands) == 0 {
		return nil, false
	}
	from := s.fld.Type
	to := cands[e.pick("to", len(cands))]
	s.fld.Type, s.fld.TypeKind = to, kind
	s.fld.Options = DelOption(s.fld.Options, "jstype")
	return &Edit{Op: "scalar-to-" + kind, Desc: fmt.Sprintf("%s.%s: %s -> %s", s.msg.Full, s.fld.Name, from, to),
		Rules: []string{"FIELD_SAME_TYPE", "FIELD_WIRE_JSON_COMPATIBLE_TYPE", "FIELD_WIRE_COMPATIBLE_TYPE"},
		File:  s.file.Path, ElemID: s.fld.ID, Mention: []string{numStr(s.fld.Number), `"` + s.fld.Name + `"`}}, true
}

func opRetargetMessageField(e *Editor, ws *Workspace) (*Edit, bool) {
	sites := fieldSites(ws, func(s fieldSite) bool { return s.fld.TypeKind == "message" && s.fld.MapKey == "" })
	if len(sites) == 0 {
		return nil, false
	}
	s := sites[e.pick("site", len(sites))]
	var cands []string
	s.file.WalkMessages(func(m MsgRef) {
		if !isGroupBody(m) && "."+m.Full != s.fld.Type {
			cands = append(cands, "."+m.Full)
		}
	})
	if len(cands) == 0 {
		return nil, false
	}
	from := s.fld.Type
	to := cands[e.pick("to", len(cands))]
	s.fld.Type = to
	return &Edit{Op: "retarget-message-field", Desc: fmt.Sprintf("%s.%s: %s -> %s", s.msg.Full, s.fld.Name, from, to),
		Rules: []string{"FIELD_SAME_TYPE", "FIELD_WIRE_JSON_COMPATIBLE_TYPE", "FIELD_WIRE_COMPATIBLE_TYPE"},
		File:  s.file.Path, ElemID: s.fld.ID, Mention: []string{numStr(s.fld.Number), `"` + s.fld.Name + `"`}}, true
}

func opOptionalToRepeated(e *Editor, ws *Workspace) (*Edit, bool) {
	sites := fieldSites(ws, func(s fieldSite) bool {
		return plainField(s) && s.fld.Oneof == "" && (s.fld.Label == LabelOptional || s.fld.Label == LabelNone) && !hasOpt(s.fld.Options, "default")
	})
	if len(sites) == 0 {
		return nil, false
	}
	s := sites[e.pick("site", len(sites))]
	from := s.fld.Label
	s.fld.Label = LabelRepeated
	return &Edit{Op: "optional-to-repeated", Desc: fmt.Sprintf("%s.%s: %q -> repeated", s.msg.Full, s.fld.Name, from),
		Rules: []string{"FIELD_SAME_CARDINALITY", "FIELD_WIRE_JSON_COMPATIBLE_CARDINALITY", "FIELD_WIRE_COMPATIBLE_CARDINALITY"},
		File:  s.file.Path, ElemID: s.fld.ID, Mention: []string{numStr(s.fld.Number), `"` + s.fld.Name + `"`}}, true
}

func opRepeatedToOptional(e *Editor, ws *Workspace) (*Edit, bool) {
	sites := fieldSites(ws, func(s fieldSite) bool { return plainField(s) && s.fld.Label == LabelRepeated })
	if len(sites) == 0 {
		return nil, false
	}
	s := sites[e.pick("site", len(sites))]
	switch s.file.Syntax {
	case Proto3, Editions:
		s.fld.Label = LabelNone
	default:
		s.fld.Label = LabelOptional
	}
	return &Edit{Op: "repeated-to-optional", Desc: fmt.Sprintf("%s.%s: repeated -> %q", s.msg.Full, s.fld.Name, s.fld.Label),
		Rules: []string{"FIELD_SAME_CARDINALITY", "FIELD_WIRE_JSON_COMPATIBLE_CARDINALITY", "FIELD_WIRE_COMPATIBLE_CARDINALITY"},
		File:  s.file.Path, ElemID: s.fld.ID, Mention: []string{numStr(s.fld.Number), `"` + s.fld.Name + `"`}}, true
}

func opOptionalToRequired(e *Editor, ws *Workspace) (*Edit, bool) {
	sites := fieldSites(ws, func(s fieldSite) bool {
		return isProto2ish(s.file.Syntax) && s.fld.Label == LabelOptional && s.fld.Oneof == "" && s.fld.MapKey == "" && !isGroupBody(s.msg)
	})
	if len(sites) == 0 {
		return nil, false
	}
	s := sites[e.pick("site", len(sites))]
	s.fld.Label = LabelRequired
	return &Edit{Op: "optional-to-required", Desc: fmt.Sprintf("%s.%s: optional -> required", s.msg.Full, s.fld.Name),
		Rules: []string{"FIELD_SAME_CARDINALITY", "FIELD_WIRE_JSON_COMPATIBLE_CARDINALITY", "FIELD_WIRE_COMPATIBLE_CARDINALITY", "MESSAGE_SAME_REQUIRED_FIELDS"},
		File:  s.file.Path, ElemID: s.fld.ID, Mention: []string{numStr(s.fld.Number), `"` + s.fld.Name + `"`},
		PerRuleMention: map[string][]string{"MESSAGE_SAME_REQUIRED_FIELDS": {numStr(s.fld.Number), s.fld.Name, s.msg.Msg.Name}},
		PerRuleElem:    map[string]string{"MESSAGE_SAME_REQUIRED_FIELDS": s.msg.Msg.ID}}, true
}

func opRequiredToOptional(e *Editor, ws *Workspace) (*Edit, bool) {
	sites := fieldSites(ws, func(s fieldSite) bool { return s.fld.Label == LabelRequired })
	if len(sites) == 0 {
		return nil, false
	}
	s := sites[e.pick("site", len(sites))]
	s.fld.Label = LabelOptional
	return &Edit{Op: "required-to-optional", Desc: fmt.Sprintf("%s.%s: required -> optional", s.msg.Full, s.fld.Name),
		Rules: []string{"FIELD_SAME_CARDINALITY", "FIELD_WIRE_JSON_COMPATIBLE_CARDINALITY", "FIELD_WIRE_COMPATIBLE_CARDINALITY", "MESSAGE_SAME_REQUIRED_FIELDS"},
		File:  s.file.Path, ElemID: s.fld.ID, Mention: []string{numStr(s.fld.Number), `"` + s.fld.Name + `"`},
		PerRuleMention: map[string][]string{"MESSAGE_SAME_REQUIRED_FIELDS": {numStr(s.fld.Number), s.fld.Name, s.msg.Msg.Name}},
		PerRuleElem:    map[string]string{"MESSAGE_SAME_REQUIRED_FIELDS": s.msg.Msg.ID}}, true
}

func opRenameField(e *Editor, ws *Workspace) (*Edit, bool) {
	sites := fieldSites(ws, func(s fieldSite) bool { return s.fld.TypeKind != "group" })
	if len(sites) == 0 {
		return nil, false
	}
	s := sites[e.pick("site", len(sites))]
	old := s.fld.Name
	s.fld.Name = e.fresh()
	rules := []string{"FIELD_SAME_NAME"}
	if !hasOpt(s.fld.Options, "json_name") {
		rules = append(rules, "FIELD_SAME_JSON_NAME")
	}
	return &Edit{Op: "rename-field", Desc: fmt.Sprintf("%s.%s -> %s", s.msg.Full, old, s.fld.Name), Rules: rules,
		File: s.file.Path, ElemID: s.fld.ID, Mention: []string{numStr(s.fld.Number), old, s.fld.Name}}, true
}

func opChangeJSONName(e *Editor, ws *Workspace) (*Edit, bool) {
	sites := fieldSites(ws, func(s fieldSite) bool { return s.fld.TypeKind != "group" && s.fld.MapKey == "" })
	if len(sites) == 0 {
		return nil, false
	}
	s := sites[e.pick("site", len(sites))]
	if hasOpt(s.fld.Options, "json_name") && e.pick("remove", 2) == 0 {
		s.fld.Options = DelOption(s.fld.Options, "json_name")
	} else {
		s.fld.Options = SetOption(s.fld.Options, "json_name", `"`+strings.ReplaceAll(e.fresh(), "_", "")+`J"`)
	}
	return &Edit{Op: "change-json-name", Desc: fmt.Sprintf("%s.%s json_name changed", s.msg.Full, s.fld.Name), Rules: []string{"FIELD_SAME_JSON_NAME"},
		File: s.file.Path, ElemID: s.fld.ID, Mention: []string{numStr(s.fld.Number), `"` + s.fld.Name + `"`}}, true
}

func opMoveOutOfOneof(e *Editor, ws *Workspace) (*Edit, bool) {
	sites := fieldSites(ws, func(s fieldSite) bool { return s.fld.Oneof != "" && oneofMembers(s.msg.Msg, s.fld.Oneof) >= 2 })
	if len(sites) == 0 {
		return nil, false
	}
	s := sites[e.pick("site", len(sites))]
	old := s.fld.Oneof
	s.fld.Oneof = ""
	if isProto2ish(s.file.Syntax) {
		s.fld.Label = LabelOptional
	}
	return &Edit{Op: "move-out-of-oneof", Desc: fmt.Sprintf("%s.%s leaves oneof %s", s.msg.Full, s.fld.Name, old), Rules: []string{"FIELD_SAME_ONEOF"},
		File: s.file.Path, ElemID: s.fld.ID, Mention: []string{numStr(s.fld.Number), `"` + s.fld.Name + `"`}}, true
}

func opMoveIntoOneof(e *Editor, ws *Workspace) (*Edit, bool) {
	sites := fieldSites(ws, func(s fieldSite) bool {
		return s.fld.Oneof == "" && len(s.msg.Msg.Oneofs) > 0 && plainField(s) && (s.fld.Label == LabelOptional || s.fld.Label == LabelNone) && !hasOpt(s.fld.Options, "default")
	})
	if len(sites) == 0 {
		return nil, false
	}
	s := sites[e.pick("site", len(sites))]
	o := s.msg.Msg.Oneofs[e.pick("oneof", len(s.msg.Msg.Oneofs))]
	s.fld.Oneof = o.Name
	s.fld.Label = LabelNone
	return &Edit{Op: "move-into-oneof", Desc: fmt.Sprintf("%s.%s joins oneof %s", s.msg.Full, s.fld.Name, o.Name), Rules: []string{"FIELD_SAME_ONEOF"},
		File: s.file.Path, ElemID: s.fld.ID, Mention: []string{numStr(s.fld.Number), `"` + s.fld.Name + `"`}}, true
}

func opDeleteOneof(e *Editor, ws *Workspace) (*Edit, bool) {
	type site struct {
		m MsgRef
		o *Oneof
	}
	var sites []site
	for _, m := range msgSites(ws, nil) {
		for _, o := range m.Msg.Oneofs {
			sites = append(sites, site{m, o})
		}
	}
	if len(sites) == 0 {
		return nil, false
	}
	s := sites[e.pick("site", len(sites))]
	dissolve := e.pick("dissolve", 2) == 0
	rules := []string{"ONEOF_NO_DELETE"}
	var keep []*Field
	for _, f := range s.m.Msg.Fields {
		if f.Oneof != s.o.Name {
			keep = append(keep, f)
			continue
		}
		if dissolve {
			f.Oneof = ""
			if isProto2ish(s.m.File.Syntax) {
				f.Label = LabelOptional
			}
			keep = append(keep, f)
		} else {
			e.bury(s.m.Msg.ID, f.Number)
		}
	}
	s.m.Msg.Fields = keep
	var oo []*Oneof
	for _, o := range s.m.Msg.Oneofs {
		if o != s.o {
			oo = append(oo, o)
		}
	}
	s.m.Msg.Oneofs = oo
	op := "delete-oneof-with-fields"
	if dissolve {
		op = "dissolve-oneof"
	}
	return &Edit{Op: op, Desc: fmt.Sprintf("%s %s of %s", op, s.o.Name, s.m.Full), Rules: rules,
		File: s.m.File.Path, ElemID: s.m.Msg.ID, Mention: []string{s.o.Name}}, true
}

func opChangeDefault(e *Editor, ws *Workspace) (*Edit, bool) {
	sites := fieldSites(ws, func(s fieldSite) bool {
		return isProto2ish(s.file.Syntax) && s.fld.TypeKind == "scalar" && s.fld.Label == LabelOptional && s.fld.MapKey == "" && s.fld.Oneof == ""
	})
	if len(sites) == 0 {
		return nil, false
	}
	s := sites[e.pick("site", len(sites))]
	// half of the time prefer a field whose current default is near the limit of a 64-bit type
	var bigSites []fieldSite
	for _, x := range sites {
		if cur, ok := GetOption(x.fld.Options, "default"); ok && isBig(cur) {
			bigSites = append(bigSites, x)
		}
	}
	if len(bigSites) > 0 && e.pick("preferbig", 2) == 0 {
		s = bigSites[e.pick("bigsite", len(bigSites))]
	}
	if old, ok := GetOption(s.fld.Options, "default"); ok && !isBig(old) && e.pick("remove", 3) == 0 {
		_ = old
		s.fld.Options = DelOption(s.fld.Options, "default")
	} else {
		// values 11..19 never collide with generator defaults (1..9)
		next := defaultFor(s.fld.Type, e.intn("defval", 11, 19))
		if big, ok := BigDefaults[s.fld.Type]; ok {
			// a neighbouring value near the type's limit (different from the current one)
			cur, _ := GetOption(s.fld.Options, "default")
			for _, cand := range big {
				if cand != cur && (isBig(cur) || e.pick("gobig", 3) == 0) {
					next = cand
					break
				}
			}
		}
		if s.fld.Type == "bool" {
			// an absent bool default is false: only true<->false is a change
			next = "true"
			if cur, _ := GetOption(s.fld.Options, "default"); cur == "true" {
				next = "false"
			}
		}
		s.fld.Options = SetOption(s.fld.Options, "default", next)
	}
	op := "change-default"
	if nv, _ := GetOption(s.fld.Options, "default"); isBig(nv) {
		op = "change-default-near-limit"
	}
	return &Edit{Op: op, Desc: fmt.Sprintf("%s.%s default changed", s.msg.Full, s.fld.Name), Rules: []string{"FIELD_SAME_DEFAULT"},
		File: s.file.Path, ElemID: s.fld.ID, Mention: []string{numStr(s.fld.Number), `"` + s.fld.Name + `"`}}, true
}

func isBig(v string) bool { return len(strings.TrimPrefix(v, "-")) >= 16 }

// MoveMessage moves a self-contained top-level message (all its message/enum typed fields refer to types nested
// in it) to another file of the same package and module. Returns the message and both files.
func (e *Editor) MoveMessage(ws *Workspace) (*Message, *File, *File, bool) {
	refs := typeRefs(ws)
	type cand struct {
		m        *Message
		from, to *File
	}
	var cands []cand
	for _, f := range userFiles(ws) {
		for _, g := range userFiles(ws) {
			if f == g || f.Package != g.Package || ws.ModuleOf(f) != ws.ModuleOf(g) || f.Syntax != g.Syntax {
				continue
			}
			for _, m := range f.Messages {
				full := "." + FullName(f.Package, m.Name)
				if referencedOutside(ws, f, full) || refs == nil {
					continue
				}
				ok := true
				var rec func(x *Message)
				rec = func(x *Message) {
					if len(x.Extensions) > 0 {
						ok = false
					}
					for _, fld := range x.Fields {
						if fld.TypeKind == "message" || fld.TypeKind == "enum" {
							if !(fld.Type == full || strings.HasPrefix(fld.Type, full+".")) {
								ok = false
							}
						}
						if fld.Group != nil {
							rec(fld.Group)
						}
						for _, o := range fld.Options {
							if strings.HasPrefix(o.Name, "(") {
								ok = false // custom options need their defining file imported
							}
						}
					}
					for _, o := range x.Options {
						if strings.HasPrefix(o.Name, "(") {
							ok = false
						}
					}
					for _, n := range x.Nested {
						rec(n)
					}
					for _, en := range x.Enums {
						for _, o := range en.Options {
							if strings.HasPrefix(o.Name, "(") {
								ok = false
							}
						}
						for _, v := range en.Values {
							if len(v.Options) > 0 {
								ok = false
							}
						}
					}
				}
				rec(m)
				if ok {
					cands = append(cands, cand{m, f, g})
				}
			}
		}
	}
	if len(cands) == 0 {
		return nil, nil, nil, false
	}
	c := cands[e.pick("move", len(cands))]
	var rest []*Message
	for _, m := range c.from.Messages {
		if m != c.m {
			rest = append(rest, m)
		}
	}
	c.from.Messages = rest
	c.to.Messages = append(c.to.Messages, c.m)
	return c.m, c.from, c.to, true
}

// referencedOutside reports whether full (or something nested in it) is referenced from anywhere except inside itself.
func referencedOutside(ws *Workspace, home *File, full string) bool {
	found := false
	for _, f := range ws.AllFiles() {
		chk := func(t string, self bool) {
			if (t == full || strings.HasPrefix(t, full+".")) && !self {
				found = true
			}
		}
		f.WalkMessages(func(m MsgRef) {
			self := "."+m.Full == full || strings.HasPrefix("."+m.Full, full+".")
			for _, fld := range m.Msg.Fields {
				if fld.TypeKind != "scalar" {
					chk(fld.Type, self)
				}
			}
			for _, x := range m.Msg.Extensions {
				chk(x.Extendee, false)
				if x.TypeKind != "scalar" {
					chk(x.Type, false)
				}
			}
		})
		for _, x := range f.Extensions {
			chk(x.Extendee, false)
			if x.TypeKind != "scalar" {
				chk(x.Type, false)
			}
		}
		for _, sv := range f.Services {
			for _, m := range sv.Methods {
				chk(m.Input, false)
				chk(m.Output, false)
			}
		}
	}
	return found
}

func opMoveMessage(e *Editor, ws *Workspace) (*Edit, bool) {
	m, from, to, ok := e.MoveMessage(ws)
	if !ok {
		return nil, false
	}
	return &Edit{Op: "move-message-to-sibling-file", Desc: fmt.Sprintf("move message %s from %s to %s (same package)", m.Name, from.Path, to.Path),
		Rules: []string{"MESSAGE_NO_DELETE"}, File: from.Path, Mention: []string{m.Name}, MovedID: m.ID}, true
}

// DeleteFieldOf deletes a drawn field of the given message (nothing reserved) and returns it.
func (e *Editor) DeleteFieldOf(m *Message) *Field {
	if len(m.Fields) == 0 {
		return nil
	}
	fld := m.Fields[e.pick("delfield", len(m.Fields))]
	removeField(m, fld)
	e.bury(m.ID, fld.Number)
	return fld
}

func opChangeRPC(e *Editor, ws *Workspace) (*Edit, bool) {
	type site struct {
		f *File
		s *Service
		m *Method
	}
	var sites []site
	for _, f := range ws.AllFiles() {
		for _, s := range f.Services {
			for _, m := range s.Methods {
				sites = append(sites, site{f, s, m})
			}
		}
	}
	if len(sites) == 0 {
		return nil, false
	}
	x := sites[e.pick("site", len(sites))]
	var cands []string
	x.f.WalkMessages(func(m MsgRef) {
		if !isGroupBody(m) {
			cands = append(cands, "."+m.Full)
		}
	})
	ed := &Edit{File: x.f.Path, ElemID: x.m.ID, Mention: []string{x.m.Name}}
	switch e.pick("what", 5) {
	case 0:
		var c2 []string
		for _, c := range cands {
			if c != x.m.Input {
				c2 = append(c2, c)
			}
		}
		if len(c2) == 0 {
			return nil, false
		}
		x.m.Input = c2[e.pick("in", len(c2))]
		ed.Op, ed.Rules = "rpc-request-type", []string{"RPC_SAME_REQUEST_TYPE"}
	case 1:
		var c2 []string
		for _, c := range cands {
			if c != x.m.Output {
				c2 = append(c2, c)
			}
		}
		if len(c2) == 0 {
			return nil, false
		}
		x.m.Output = c2[e.pick("out", len(c2))]
		ed.Op, ed.Rules = "rpc-response-type", []string{"RPC_SAME_RESPONSE_TYPE"}
	case 2:
		x.m.ClientStream = !x.m.ClientStream
		ed.Op, ed.Rules = "rpc-client-streaming", []string{"RPC_SAME_CLIENT_STREAMING"}
	case 3:
		x.m.ServerStream = !x.m.ServerStream
		ed.Op, ed.Rules = "rpc-server-streaming", []string{"RPC_SAME_SERVER_STREAMING"}
	default:
		cur, _ := GetOption(x.m.Options, "idempotency_level")
		next := map[string]string{"": "IDEMPOTENT", "IDEMPOTENT": "NO_SIDE_EFFECTS", "NO_SIDE_EFFECTS": "IDEMPOTENT"}[cur]
		x.m.Options = SetOption(x.m.Options, "idempotency_level", next)
		ed.Op, ed.Rules = "rpc-idempotency", []string{"RPC_SAME_IDEMPOTENCY_LEVEL"}
	}
	ed.Desc = fmt.Sprintf("%s on %s.%s", ed.Op, x.s.Name, x.m.Name)
	return ed, true
}

var trackedFileOptions = []struct{ name, rule, kind string }{
	{"cc_enable_arenas", "FILE_SAME_CC_ENABLE_ARENAS", "booltrue"}, // the default of cc_enable_arenas is true
	{"cc_generic_services", "FILE_SAME_CC_GENERIC_SERVICES", "bool"},
	{"csharp_namespace", "FILE_SAME_CSHARP_NAMESPACE", "string"},
	{"go_package", "FILE_SAME_GO_PACKAGE", "string"},
	{"java_generic_services", "FILE_SAME_JAVA_GENERIC_SERVICES", "bool"},
	{"java_multiple_files", "FILE_SAME_JAVA_MULTIPLE_FILES", "bool"},
	{"java_outer_classname", "FILE_SAME_JAVA_OUTER_CLASSNAME", "string"},
	{"java_package", "FILE_SAME_JAVA_PACKAGE", "string"},
	{"objc_class_prefix", "FILE_SAME_OBJC_CLASS_PREFIX", "string"},
	{"optimize_for", "FILE_SAME_OPTIMIZE_FOR", "optimize"},
	{"php_class_prefix", "FILE_SAME_PHP_CLASS_PREFIX", "string"},
	{"php_metadata_namespace", "FILE_SAME_PHP_METADATA_NAMESPACE", "string"},
	{"php_namespace", "FILE_SAME_PHP_NAMESPACE", "string"},
	{"py_generic_services", "FILE_SAME_PY_GENERIC_SERVICES", "bool"},
	{"ruby_package", "FILE_SAME_RUBY_PACKAGE", "string"},
	{"swift_prefix", "FILE_SAME_SWIFT_PREFIX", "string"},
}

func userFiles(ws *Workspace) []*File {
	var out []*File
	for _, f := range ws.AllFiles() {
		if f.Package != "options.v1" && f.Package != "google.protobuf" {
			out = append(out, f)
		}
	}
	return out
}

func opChangeFileOption(e *Editor, ws *Workspace) (*Edit, bool) {
	files := userFiles(ws)
	if len(files) == 0 {
		return nil, false
	}
	f := files[e.pick("file", len(files))]
	o := trackedFileOptions[e.pick("opt", len(trackedFileOptions))]
	cur, has := GetOption(f.Options, o.name)
	var next string
	switch o.kind {
	case "bool":
		if has && cur == "true" {
			next = "false"
		} else {
			next = "true"
		}
	case "booltrue":
		if has && cur == "false" {
			next = "true"
		} else {
			next = "false"
		}
	case "optimize":
		next = map[string]string{"": "CODE_SIZE", "SPEED": "CODE_SIZE", "CODE_SIZE": "SPEED", "LITE_RUNTIME": "CODE_SIZE"}[cur]
	default:
		next = `"` + lowerSnakeToPascal(e.fresh()) + `"`
	}
	f.Options = SetOption(f.Options, o.name, next)
	return &Edit{Op: "file-option:" + o.name, Desc: fmt.Sprintf("%s: option %s %q -> %q", f.Path, o.name, cur, next), Rules: []string{o.rule},
		File: f.Path, Mention: []string{o.name, strings.Trim(next, `"`)}}, true
}

func opDeleteReserved(e *Editor, ws *Workspace) (*Edit, bool) {
	type site struct {
		f    *File
		m    *Message
		en   *Enum
		what string
	}
	var sites []site
	for _, f := range userFiles(ws) {
		f.WalkMessages(func(m MsgRef) {
			if len(m.Msg.ReservedRanges) > 0 {
				sites = append(sites, site{f, m.Msg, nil, "range"})
			}
			if len(m.Msg.ReservedNames) > 0 {
				sites = append(sites, site{f, m.Msg, nil, "name"})
			}
		})
		f.WalkEnums(func(er EnumRef) {
			if len(er.Enum.ReservedRanges) > 0 {
				sites = append(sites, site{f, nil, er.Enum, "range"})
			}
			if len(er.Enum.ReservedNames) > 0 {
				sites = append(sites, site{f, nil, er.Enum, "name"})
			}
		})
	}
	if len(sites) == 0 {
		return nil, false
	}
	s := sites[e.pick("site", len(sites))]
	ed := &Edit{Op: "delete-reserved-" + s.what, File: s.f.Path}
	if s.m != nil {
		ed.Rules, ed.ElemID = []string{"RESERVED_MESSAGE_NO_DELETE"}, s.m.ID
		if s.what == "range" {
			r := s.m.ReservedRanges[0]
			s.m.ReservedRanges = s.m.ReservedRanges[1:]
			ed.Mention = []string{fmt.Sprintf("%d", r.Start), s.m.Name}
			ed.Desc = fmt.Sprintf("message %s: delete reserved range %d-%d", s.m.Name, r.Start, r.End)
		} else {
			n := s.m.ReservedNames[0]
			s.m.ReservedNames = s.m.ReservedNames[1:]
			ed.Mention = []string{n}
			ed.Desc = fmt.Sprintf("message %s: delete reserved name %s", s.m.Name, n)
		}
	} else {
		ed.Rules, ed.ElemID = []string{"RESERVED_ENUM_NO_DELETE"}, s.en.ID
		if s.what == "range" {
			r := s.en.ReservedRanges[0]
			s.en.ReservedRanges = s.en.ReservedRanges[1:]
			ed.Mention = []string{fmt.Sprintf("%d", r.Start), s.en.Name}
			ed.Desc = fmt.Sprintf("enum %s: delete reserved range %d-%d", s.en.Name, r.Start, r.End)
		} else {
			n := s.en.ReservedNames[0]
			s.en.ReservedNames = s.en.ReservedNames[1:]
			ed.Mention = []string{n}
			ed.Desc = fmt.Sprintf("enum %s: delete reserved name %s", s.en.Name, n)
		}
	}
	return ed, true
}

func opDeleteExtensionRange(e *Editor, ws *Workspace) (*Edit, bool) {
	refs := typeRefs(ws)
	sites := msgSites(ws, func(m MsgRef) bool { return len(m.Msg.ExtensionRanges) > 0 && !extended(ws, "."+m.Full) && refs != nil })
	if len(sites) == 0 {
		return nil, false
	}
	s := sites[e.pick("site", len(sites))]
	r := s.Msg.ExtensionRanges[0]
	s.Msg.ExtensionRanges = nil
	return &Edit{Op: "delete-extension-range", Desc: fmt.Sprintf("message %s: delete extension range %d-%d", s.Full, r.Start, r.End),
		Rules: []string{"EXTENSION_MESSAGE_NO_DELETE"}, File: s.File.Path, ElemID: s.Msg.ID, Mention: []string{fmt.Sprintf("%d", r.Start), s.Msg.Name}}, true
}

func extended(ws *Workspace, full string) bool {
	for _, f := range ws.AllFiles() {
		for _, x := range f.Extensions {
			if x.Extendee == full {
				return true
			}
		}
		found := false
		f.WalkMessages(func(m MsgRef) {
			for _, x := range m.Msg.Extensions {
				if x.Extendee == full {
					found = true
				}
			}
		})
		if found {
			return true
		}
	}
	return false
}

func opRenameEnumValue(e *Editor, ws *Workspace) (*Edit, bool) {
	type site struct {
		er EnumRef
		v  *EnumValue
	}
	var sites []site
	for _, er := range enumSites(ws, nil) {
		for _, v := range er.Enum.Values {
			sites = append(sites, site{er, v})
		}
	}
	if len(sites) == 0 {
		return nil, false
	}
	s := sites[e.pick("site", len(sites))]
	old := s.v.Name
	s.v.Name = UpperSnake(s.er.Enum.Name) + "_" + strings.ToUpper(e.fresh())
	return &Edit{Op: "rename-enum-value", Desc: fmt.Sprintf("%s: %s -> %s", s.er.Full, old, s.v.Name), Rules: []string{"ENUM_VALUE_SAME_NAME"},
		File: s.er.File.Path, ElemID: s.v.ID, Mention: []string{numStr(s.v.Number), old}}, true
}

func opChangeJSType(e *Editor, ws *Workspace) (*Edit, bool) {
	sites := fieldSites(ws, func(s fieldSite) bool {
		switch s.fld.Type {
		case "int64", "uint64", "sint64", "fixed64", "sfixed64":
			return s.fld.TypeKind == "scalar" && s.fld.MapKey == ""
		}
		return false
	})
	if len(sites) == 0 {
		return nil, false
	}
	s := sites[e.pick("site", len(sites))]
	cur, _ := GetOption(s.fld.Options, "jstype")
	next := map[string]string{"": "JS_STRING", "JS_STRING": "JS_NUMBER", "JS_NUMBER": "JS_STRING"}[cur]
	s.fld.Options = SetOption(s.fld.Options, "jstype", next)
	return &Edit{Op: "change-jstype", Desc: fmt.Sprintf("%s.%s jstype %q -> %s", s.msg.Full, s.fld.Name, cur, next), Rules: []string{"FIELD_SAME_JSTYPE"},
		File: s.file.Path, ElemID: s.fld.ID, Mention: []string{numStr(s.fld.Number), `"` + s.fld.Name + `"`}}, true
}

func opChangeCType(e *Editor, ws *Workspace) (*Edit, bool) {
	sites := fieldSites(ws, func(s fieldSite) bool {
		return s.fld.TypeKind == "scalar" && (s.fld.Type == "string" || s.fld.Type == "bytes") && s.fld.MapKey == "" && s.file.Syntax != Editions
	})
	if len(sites) == 0 {
		return nil, false
	}
	s := sites[e.pick("site", len(sites))]
	cur, _ := GetOption(s.fld.Options, "ctype")
	next := map[string]string{"": "CORD", "CORD": "STRING_PIECE", "STRING_PIECE": "CORD"}[cur]
	s.fld.Options = SetOption(s.fld.Options, "ctype", next)
	return &Edit{Op: "change-ctype", Desc: fmt.Sprintf("%s.%s ctype %q -> %s", s.msg.Full, s.fld.Name, cur, next), Rules: []string{"FIELD_SAME_CPP_STRING_TYPE"},
		File: s.file.Path, ElemID: s.fld.ID, Mention: []string{numStr(s.fld.Number), `"` + s.fld.Name + `"`}}, true
}

func opNoStandardDescriptorAccessor(e *Editor, ws *Workspace) (*Edit, bool) {
	sites := msgSites(ws, func(m MsgRef) bool {
		return !isGroupBody(m) && !hasOpt(m.Msg.Options, "no_standard_descriptor_accessor")
	})
	if len(sites) == 0 {
		return nil, false
	}
	s := sites[e.pick("site", len(sites))]
	s.Msg.Options = SetOption(s.Msg.Options, "no_standard_descriptor_accessor", "true")
	return &Edit{Op: "no-standard-descriptor-accessor", Desc: s.Full + ": no_standard_descriptor_accessor = true",
		Rules: []string{"MESSAGE_NO_REMOVE_STANDARD_DESCRIPTOR_ACCESSOR"}, File: s.File.Path, ElemID: s.Msg.ID, Mention: []string{s.Msg.Name, "no_standard_descriptor_accessor"}}, true
}

func OpMessageSetWireFormat(e *Editor, ws *Workspace) (*Edit, bool) {
	// only messages without fields but with an extension range may be message sets; simplest: proto2 message with no fields
	sites := msgSites(ws, func(m MsgRef) bool {
		return isProto2ish(m.File.Syntax) && len(m.Msg.Fields) == 0 && !isGroupBody(m) && len(m.Msg.ExtensionRanges) > 0 && !hasOpt(m.Msg.Options, "message_set_wire_format")
	})
	if len(sites) == 0 {
		return nil, false
	}
	s := sites[e.pick("site", len(sites))]
	if extended(ws, "."+s.Full) {
		return nil, false // message-set extensions must be messages; keep it simple
	}
	s.Msg.Options = SetOption(s.Msg.Options, "message_set_wire_format", "true")
	return &Edit{Op: "message-set-wire-format", Desc: s.Full + ": message_set_wire_format = true",
		Rules: []string{"MESSAGE_SAME_MESSAGE_SET_WIRE_FORMAT"}, File: s.File.Path, ElemID: s.Msg.ID, Mention: []string{s.Msg.Name, "message_set_wire_format"}}, true
}

// editions feature operators

func opEnumClosedOpen(e *Editor, ws *Workspace) (*Edit, bool) {
	refs := typeRefs(ws)
	sites := enumSites(ws, func(er EnumRef) bool { return er.File.Syntax == Editions && refs["."+er.Full] == 0 })
	if len(sites) == 0 {
		return nil, false
	}
	s := sites[e.pick("site", len(sites))]
	cur, _ := GetOption(s.Enum.Options, "features.enum_type")
	next := "CLOSED"
	if cur == "CLOSED" {
		next = "OPEN"
	}
	s.Enum.Options = SetOption(s.Enum.Options, "features.enum_type", next)
	return &Edit{Op: "enum-closed-open", Desc: fmt.Sprintf("%s: features.enum_type -> %s", s.Full, next), Rules: []string{"ENUM_SAME_TYPE"},
		File: s.File.Path, ElemID: s.Enum.ID, Mention: []string{s.Enum.Name}}, true
}

func opJSONFormat(e *Editor, ws *Workspace) (*Edit, bool) {
	if e.pick("msgorenum", 2) == 0 {
		sites := msgSites(ws, func(m MsgRef) bool {
			return m.File.Syntax == Editions && !isGroupBody(m) && !hasOpt(m.Msg.Options, "features.json_format")
		})
		if len(sites) == 0 {
			return nil, false
		}
		s := sites[e.pick("site", len(sites))]
		s.Msg.Options = SetOption(s.Msg.Options, "features.json_format", "LEGACY_BEST_EFFORT")
		return &Edit{Op: "message-json-format", Desc: s.Full + ": features.json_format = LEGACY_BEST_EFFORT", Rules: []string{"MESSAGE_SAME_JSON_FORMAT"},
			File: s.File.Path, ElemID: s.Msg.ID, Mention: []string{s.Msg.Name}}, true
	}
	sites := enumSites(ws, func(er EnumRef) bool {
		return er.File.Syntax == Editions && !hasOpt(er.Enum.Options, "features.json_format")
	})
	if len(sites) == 0 {
		return nil, false
	}
	s := sites[e.pick("site", len(sites))]
	s.Enum.Options = SetOption(s.Enum.Options, "features.json_format", "LEGACY_BEST_EFFORT")
	return &Edit{Op: "enum-json-format", Desc: s.Full + ": features.json_format = LEGACY_BEST_EFFORT", Rules: []string{"ENUM_SAME_JSON_FORMAT"},
		File: s.File.Path, ElemID: s.Enum.ID, Mention: []string{s.Enum.Name}}, true
}

func opUTF8Validation(e *Editor, ws *Workspace) (*Edit, bool) {
	sites := fieldSites(ws, func(s fieldSite) bool {
		return s.file.Syntax == Editions && s.fld.TypeKind == "scalar" && s.fld.Type == "string" && s.fld.MapKey == "" && !hasOpt(s.fld.Options, "features.utf8_validation")
	})
	if len(sites) == 0 {
		return nil, false
	}
	s := sites[e.pick("site", len(sites))]
	s.fld.Options = SetOption(s.fld.Options, "features.utf8_validation", "NONE")
	return &Edit{Op: "field-utf8-validation", Desc: fmt.Sprintf("%s.%s: features.utf8_validation = NONE", s.msg.Full, s.fld.Name), Rules: []string{"FIELD_SAME_UTF8_VALIDATION"},
		File: s.file.Path, ElemID: s.fld.ID, Mention: []string{numStr(s.fld.Number), `"` + s.fld.Name + `"`}}, true
}

// sinkFiles are user files nobody imports.
func sinkFiles(ws *Workspace) []*File {
	var out []*File
	for _, f := range userFiles(ws) {
		if len(importers(ws, f.Path)) == 0 {
			out = append(out, f)
		}
	}
	return out
}

func opDeleteFile(e *Editor, ws *Workspace) (*Edit, bool) {
	sinks := sinkFiles(ws)
	var cands []*File
	for _, f := range sinks {
		if m := ws.ModuleOf(f); m != nil && len(m.Files) >= 2 {
			cands = append(cands, f)
		}
	}
	if len(cands) == 0 {
		return nil, false
	}
	f := cands[e.pick("file", len(cands))]
	m := ws.ModuleOf(f)
	var out []*File
	for _, g := range m.Files {
		if g != f {
			out = append(out, g)
		}
	}
	m.Files = out
	rules := []string{"FILE_NO_DELETE"}
	pkgSurvives := false
	for _, g := range ws.AllFiles() {
		if g.Package == f.Package {
			pkgSurvives = true
		}
	}
	if !pkgSurvives {
		rules = append(rules, "PACKAGE_NO_DELETE")
	} else {
		if len(f.Messages) > 0 {
			rules = append(rules, "PACKAGE_MESSAGE_NO_DELETE")
		}
		if len(f.Enums) > 0 {
			rules = append(rules, "PACKAGE_ENUM_NO_DELETE")
		}
		if len(f.Services) > 0 {
			rules = append(rules, "PACKAGE_SERVICE_NO_DELETE")
		}
		if len(f.Extensions) > 0 {
			rules = append(rules, "PACKAGE_EXTENSION_NO_DELETE")
		}
	}
	mention := map[string][]string{"FILE_NO_DELETE": {f.Path}, "PACKAGE_NO_DELETE": {f.Package}}
	var names []string
	for _, x := range f.Messages {
		names = append(names, x.Name)
	}
	mention["PACKAGE_MESSAGE_NO_DELETE"] = names
	names = nil
	for _, x := range f.Enums {
		names = append(names, x.Name)
	}
	mention["PACKAGE_ENUM_NO_DELETE"] = names
	names = nil
	for _, x := range f.Services {
		names = append(names, x.Name)
	}
	mention["PACKAGE_SERVICE_NO_DELETE"] = names
	names = nil
	for _, x := range f.Extensions {
		names = append(names, x.Name)
	}
	mention["PACKAGE_EXTENSION_NO_DELETE"] = names
	return &Edit{Op: "delete-file", Desc: "delete file " + f.Path, Rules: rules, File: "", Mention: []string{f.Path}, PerRuleMention: mention}, true
}

func opChangePackage(e *Editor, ws *Workspace) (*Edit, bool) {
	var cands []*File
	for _, f := range sinkFiles(ws) {
		// no sibling file of the same package (their names would stay in the old package and references break)
		alone := true
		for _, g := range ws.AllFiles() {
			if g != f && g.Package == f.Package {
				alone = false
			}
		}
		if alone && f.Package != "" {
			cands = append(cands, f)
		}
	}
	if len(cands) == 0 {
		return nil, false
	}
	f := cands[e.pick("file", len(cands))]
	old := f.Package
	neu := "moved." + strings.ReplaceAll(e.fresh(), "_", "") + ".v1"
	f.Package = neu
	re := func(s string) string {
		if s == "."+old || strings.HasPrefix(s, "."+old+".") {
			return "." + neu + strings.TrimPrefix(s, "."+old)
		}
		return s
	}
	fixField := func(fld *Field) {
		if fld.TypeKind != "scalar" {
			fld.Type = re(fld.Type)
		}
		if fld.Extendee != "" {
			fld.Extendee = re(fld.Extendee)
		}
	}
	var fixMsg func(m *Message)
	fixMsg = func(m *Message) {
		for _, fld := range m.Fields {
			fixField(fld)
			if fld.Group != nil {
				fixMsg(fld.Group)
			}
		}
		for _, x := range m.Extensions {
			fixField(x)
		}
		for _, n := range m.Nested {
			fixMsg(n)
		}
	}
	for _, m := range f.Messages {
		fixMsg(m)
	}
	for _, x := range f.Extensions {
		fixField(x)
	}
	for _, s := range f.Services {
		for _, m := range s.Methods {
			m.Input, m.Output = re(m.Input), re(m.Output)
		}
	}
	return &Edit{Op: "change-package", Desc: fmt.Sprintf("%s: package %s -> %s", f.Path, old, neu), Rules: []string{"FILE_SAME_PACKAGE"},
		File: f.Path, ElemID: f.ID + "#package", Mention: []string{old, neu}}, true
}

// Proto3ToProto2 rewrites a proto3 sink file as proto2.
func opChangeSyntax(e *Editor, ws *Workspace) (*Edit, bool) {
	refs := typeRefs(ws)
	var cands []*File
	for _, f := range sinkFiles(ws) {
		if f.Syntax != Proto3 {
			continue
		}
		ok := true
		// its enums become closed: nothing in a proto3 file may reference them; a sink's enums can only be referenced by itself
		f.WalkEnums(func(er EnumRef) {
			if refs["."+er.Full] > 0 {
				ok = false
			}
		})
		if ok {
			cands = append(cands, f)
		}
	}
	if len(cands) == 0 {
		return nil, false
	}
	f := cands[e.pick("file", len(cands))]
	f.Syntax = Proto2
	f.WalkMessages(func(m MsgRef) {
		for _, fld := range m.Msg.Fields {
			if fld.Label == LabelNone && fld.Oneof == "" && fld.MapKey == "" {
				fld.Label = LabelOptional
			}
		}
	})
	return &Edit{Op: "change-syntax", Desc: f.Path + ": proto3 -> proto2", Rules: []string{"FILE_SAME_SYNTAX"}, File: f.Path, Mention: []string{"proto3", "proto2"}}, true
}

// BreakingOps is the catalogue.
var BreakingOps = []BreakingOp{
	{"delete-field", opDeleteField},
	{"delete-enum-value", opDeleteEnumValue},
	{"delete-message", opDeleteMessage},
	{"delete-enum", opDeleteEnum},
	{"delete-service", opDeleteService},
	{"delete-rpc", opDeleteRPC},
	{"delete-extension", opDeleteExtension},
	{"delete-file", opDeleteFile},
	{"move-message", opMoveMessage},
	{"change-scalar-kind", opChangeScalarKind},
	{"change-map-kind", opChangeMapKind},
	{"scalar-to-message-or-enum", opScalarToMessageOrEnum},
	{"retarget-message-field", opRetargetMessageField},
	{"optional-to-repeated", opOptionalToRepeated},
	{"repeated-to-optional", opRepeatedToOptional},
	{"optional-to-required", opOptionalToRequired},
	{"required-to-optional", opRequiredToOptional},
	{"rename-field", opRenameField},
	{"change-json-name", opChangeJSONName},
	{"move-out-of-oneof", opMoveOutOfOneof},
	{"move-into-oneof", opMoveIntoOneof},
	{"change-default", opChangeDefault},
	{"delete-oneof", opDeleteOneof},
	{"change-rpc", opChangeRPC},
	{"change-file-option", opChangeFileOption},
	{"delete-reserved", opDeleteReserved},
	{"delete-extension-range", opDeleteExtensionRange},
	{"rename-enum-value", opRenameEnumValue},
	{"change-jstype", opChangeJSType},
	{"change-ctype", opChangeCType},
	{"no-standard-descriptor-accessor", opNoStandardDescriptorAccessor},
	// message_set_wire_format: MESSAGE_SAME_MESSAGE_SET_WIRE_FORMAT is a deprecated no-op rule (protobuf-go cannot
	// handle message sets); the operator exists but is not part of the catalogue.
	{"enum-closed-open", opEnumClosedOpen},
	{"json-format", opJSONFormat},
	{"field-utf8-validation", opUTF8Validation},
	{"change-package", opChangePackage},
	{"change-syntax", opChangeSyntax},
}

// ApplyBreaking tries operators starting at a drawn index until one applies.
func (e *Editor) ApplyBreaking(ws *Workspace) *Edit {
	// a few independent uniform draws first: an operator's share then follows its own applicability instead of
	// inheriting the share of inapplicable operators listed before it
	for try := 0; try < 6; try++ {
		if ed, ok := BreakingOps[e.pick("op", len(BreakingOps))].Apply(e, ws); ok {
			return ed
		}
	}
	start := e.pick("op", len(BreakingOps))
	for k := 0; k < len(BreakingOps); k++ {
		op := BreakingOps[(start+k)%len(BreakingOps)]
		if ed, ok := op.Apply(e, ws); ok {
			return ed
		}
	}
	return nil
}

// ApplyBreakingNamed applies the named catalogue operator, or returns nil if it has no applicable site.
func (e *Editor) ApplyBreakingNamed(ws *Workspace, name string) *Edit {
	for _, op := range BreakingOps {
		if op.Name == name {
			if ed, ok := op.Apply(e, ws); ok {
				return ed
			}
		}
	}
	return nil
}

// ---------------------------------------------------------------------------------------------
// rule -> category membership per configuration version (reference copy of the documented tables)

var allCats = []string{"FILE", "PACKAGE", "WIRE_JSON", "WIRE"}

func cats(s string) []string {
	switch s {
	case "F":
		return []string{"FILE"}
	case "P":
		return []string{"PACKAGE"}
	case "FP":
		return []string{"FILE", "PACKAGE"}
	case "FPJ":
		return []string{"FILE", "PACKAGE", "WIRE_JSON"}
	case "FPJW":
		return allCats
	case "J":
		return []string{"WIRE_JSON"}
	case "JW":
		return []string{"WIRE_JSON", "WIRE"}
	case "W":
		return []string{"WIRE"}
	case "":
		return []string{}
	}
	panic("bad cats " + s)
}

// ruleCats[rule] = {v1beta1, v1, v2}; "-" = rule does not exist in that version; "" = exists, no category.
var ruleCats = map[string][3]string{
	"ENUM_NO_DELETE":                                 {"F", "F", "F"},
	"ENUM_SAME_JSON_FORMAT":                          {"FPJ", "FPJ", "FPJ"},
	"ENUM_SAME_TYPE":                                 {"FP", "FP", "FP"},
	"ENUM_VALUE_NO_DELETE":                           {"FP", "FP", "FP"},
	"ENUM_VALUE_NO_DELETE_UNLESS_NAME_RESERVED":      {"J", "J", "J"},
	"ENUM_VALUE_NO_DELETE_UNLESS_NUMBER_RESERVED":    {"JW", "JW", "JW"},
	"ENUM_VALUE_SAME_NAME":                           {"FPJ", "FPJ", "FPJ"},
	"EXTENSION_MESSAGE_NO_DELETE":                    {"FP", "FP", "FP"},
	"EXTENSION_NO_DELETE":                            {"-", "-", "F"},
	"FIELD_NO_DELETE":                                {"FP", "FP", "FP"},
	"FIELD_NO_DELETE_UNLESS_NAME_RESERVED":           {"J", "J", "J"},
	"FIELD_NO_DELETE_UNLESS_NUMBER_RESERVED":         {"JW", "JW", "JW"},
	"FIELD_SAME_CTYPE":                               {"", "", "-"},
	"FIELD_SAME_CARDINALITY":                         {"FPJW", "FP", "FP"},
	"FIELD_SAME_CPP_STRING_TYPE":                     {"FP", "FP", "FP"},
	"FIELD_SAME_DEFAULT":                             {"-", "-", "FPJW"},
	"FIELD_SAME_JSON_NAME":                           {"FPJ", "FPJ", "FPJ"},
	"FIELD_SAME_JSTYPE":                              {"FP", "FP", "FP"},
	"FIELD_SAME_JAVA_UTF8_VALIDATION":                {"FP", "FP", "FP"},
	"FIELD_SAME_LABEL":                               {"", "", "-"},
	"FIELD_SAME_NAME":                                {"FPJ", "FPJ", "FPJ"},
	"FIELD_SAME_ONEOF":                               {"FPJW", "FPJW", "FPJW"},
	"FIELD_SAME_TYPE":                                {"FPJW", "FP", "FP"},
	"FIELD_SAME_UTF8_VALIDATION":                     {"FP", "FP", "FP"},
	"FIELD_WIRE_COMPATIBLE_CARDINALITY":              {"W", "W", "W"},
	"FIELD_WIRE_COMPATIBLE_TYPE":                     {"-", "W", "W"},
	"FIELD_WIRE_JSON_COMPATIBLE_CARDINALITY":         {"J", "J", "J"},
	"FIELD_WIRE_JSON_COMPATIBLE_TYPE":                {"-", "J", "J"},
	"FILE_NO_DELETE":                                 {"F", "F", "F"},
	"FILE_SAME_CC_ENABLE_ARENAS":                     {"FP", "FP", "FP"},
	"FILE_SAME_CC_GENERIC_SERVICES":                  {"FP", "FP", "FP"},
	"FILE_SAME_CSHARP_NAMESPACE":                     {"FP", "FP", "FP"},
	"FILE_SAME_GO_PACKAGE":                           {"FP", "FP", "FP"},
	"FILE_SAME_JAVA_GENERIC_SERVICES":                {"FP", "FP", "FP"},
	"FILE_SAME_JAVA_MULTIPLE_FILES":                  {"FP", "FP", "FP"},
	"FILE_SAME_JAVA_OUTER_CLASSNAME":                 {"FP", "FP", "FP"},
	"FILE_SAME_JAVA_PACKAGE":                         {"FP", "FP", "FP"},
	"FILE_SAME_OBJC_CLASS_PREFIX":                    {"FP", "FP", "FP"},
	"FILE_SAME_OPTIMIZE_FOR":                         {"FP", "FP", "FP"},
	"FILE_SAME_PACKAGE":                              {"F", "FPJW", "FPJW"},
	"FILE_SAME_PHP_CLASS_PREFIX":                     {"FP", "FP", "FP"},
	"FILE_SAME_PHP_METADATA_NAMESPACE":               {"FP", "FP", "FP"},
	"FILE_SAME_PHP_NAMESPACE":                        {"FP", "FP", "FP"},
	"FILE_SAME_PY_GENERIC_SERVICES":                  {"FP", "FP", "FP"},
	"FILE_SAME_RUBY_PACKAGE":                         {"FP", "FP", "FP"},
	"FILE_SAME_SWIFT_PREFIX":                         {"FP", "FP", "FP"},
	"FILE_SAME_SYNTAX":                               {"FP", "FP", "FP"},
	"MESSAGE_NO_DELETE":                              {"F", "F", "F"},
	"MESSAGE_NO_REMOVE_STANDARD_DESCRIPTOR_ACCESSOR": {"FP", "FP", "FP"},
	"MESSAGE_SAME_JSON_FORMAT":                       {"FPJ", "FPJ", "FPJ"},
	"MESSAGE_SAME_MESSAGE_SET_WIRE_FORMAT":           {"", "", ""},
	"MESSAGE_SAME_REQUIRED_FIELDS":                   {"FPJW", "FPJW", "FPJW"},
	"ONEOF_NO_DELETE":                                {"FP", "FP", "FP"},
	"PACKAGE_ENUM_NO_DELETE":                         {"P", "P", "P"},
	"PACKAGE_EXTENSION_NO_DELETE":                    {"-", "-", "P"},
	"PACKAGE_MESSAGE_NO_DELETE":                      {"P", "P", "P"},
	"PACKAGE_NO_DELETE":                              {"P", "P", "P"},
	"PACKAGE_SERVICE_NO_DELETE":                      {"P", "P", "P"},
	"RPC_NO_DELETE":                                  {"FP", "FP", "FP"},
	"RPC_SAME_CLIENT_STREAMING":                      {"FPJW", "FPJW", "FPJW"},
	"RPC_SAME_IDEMPOTENCY_LEVEL":                     {"FPJW", "FPJW", "FPJW"},
	"RPC_SAME_REQUEST_TYPE":                          {"FPJW", "FPJW", "FPJW"},
	"RPC_SAME_RESPONSE_TYPE":                         {"FPJW", "FPJW", "FPJW"},
	"RPC_SAME_SERVER_STREAMING":                      {"FPJW", "FPJW", "FPJW"},
	"RESERVED_ENUM_NO_DELETE":                        {"FPJW", "FPJW", "FPJW"},
	"RESERVED_MESSAGE_NO_DELETE":                     {"FPJW", "FPJW", "FPJW"},
	"SERVICE_NO_DELETE":                              {"F", "F", "F"},
}

// Versions of the configuration file.
var Versions = []string{"v1beta1", "v1", "v2"}

// Categories in strictness order.
var Categories = []string{"FILE", "PACKAGE", "WIRE_JSON", "WIRE"}

// RuleExists reports whether the rule exists in the version.
func RuleExists(rule, version string) bool {
	c, ok := ruleCats[rule]
	if !ok {
		return false
	}
	return c[verIdx(version)] != "-"
}

func verIdx(version string) int {
	switch version {
	case "v1beta1":
		return 0
	case "v1":
		return 1
	}
	return 2
}

// RuleInCategory reports documented membership.
func RuleInCategory(rule, category, version string) bool {
	c, ok := ruleCats[rule]
	if !ok || c[verIdx(version)] == "-" {
		return false
	}
	for _, x := range cats(c[verIdx(version)]) {
		if x == category {
			return true
		}
	}
	return false
}

// ExpectedRules filters an edit's documented rules by category membership in the version.
func (ed *Edit) ExpectedRules(category, version string) []string {
	var out []string
	for _, r := range ed.Rules {
		if RuleInCategory(r, category, version) {
			out = append(out, r)
		}
	}
	sort.Strings(out)
	return out
}

// AllBreakingRules lists every rule id of the reference table.
func AllBreakingRules() []string {
	var out []string
	for r := range ruleCats {
		out = append(out, r)
	}
	sort.Strings(out)
	return out
}

// ElemFor returns the element id the annotation of rule must lie within.
func (ed *Edit) ElemFor(rule string) string {
	if id, ok := ed.PerRuleElem[rule]; ok {
		return id
	}
	return ed.ElemID
}

// MentionsFor returns the acceptable mention strings for a rule.
func (ed *Edit) MentionsFor(rule string) []string {
	if m, ok := ed.PerRuleMention[rule]; ok && len(m) > 0 {
		return m
	}
	return ed.Mention
}
