package protogen

// Value-level cases: one small file whose two versions differ only in a number set (reserved ranges of a
// message or enum, extension ranges) or in one field default. The reference decides, by interval arithmetic
// or by parsing the literals itself, whether the older version's values are all still there.

import (
	"fmt"
	"math"
	"math/big"
	"sort"
	"strconv"
	"strings"

	"pgregory.net/rapid"
)

// ValueCase is one generated (old, new) pair.
type ValueCase struct {
	Kind     string   `json:"kind"` // default | msg-reserved | enum-reserved | ext-range
	Syntax   string   `json:"syntax"`
	Path     string   `json:"path"`
	Old      string   `json:"old"`
	New      string   `json:"new"`
	Breaking bool     `json:"breaking"` // reference verdict
	Rule     string   `json:"rule"`
	Mention  []string `json:"mention"`
	Start    Pos      `json:"start"` // span of the element in New
	End      Pos      `json:"end"`
	Desc     string   `json:"desc"`
	Steps    []string `json:"steps"`
}

// Iv is a closed interval of numbers.
type Iv struct{ S, E int64 }

func (v Iv) String() string {
	if v.S == v.E {
		return fmt.Sprintf("%d", v.S)
	}
	return fmt.Sprintf("%d-%d", v.S, v.E)
}

// Uncovered returns the parts of old that no interval of cur covers (reference interval arithmetic).
func Uncovered(old, cur []Iv) []Iv {
	c := append([]Iv(nil), cur...)
	sort.Slice(c, func(i, j int) bool { return c[i].S < c[j].S })
	var out []Iv
	for _, o := range old {
		at := o.S
		for _, x := range c {
			if x.E < at {
				continue
			}
			if x.S > o.E {
				break
			}
			if x.S > at {
				out = append(out, Iv{at, x.S - 1})
			}
			at = x.E + 1
			if at > o.E {
				break
			}
		}
		if at <= o.E {
			out = append(out, Iv{at, o.E})
		}
	}
	return out
}

type valGen struct {
	t *rapid.T
	n int
}

func (g *valGen) label(s string) string { g.n++; return fmt.Sprintf("%s#%d", s, g.n) }
func (g *valGen) intn(s string, lo, hi int) int {
	return rapid.IntRange(lo, hi).Draw(g.t, g.label(s))
}
func (g *valGen) coin(s string) bool { return rapid.Bool().Draw(g.t, g.label(s)) }

// pick is a fair choice in [0,n) built from coin flips (rapid's integer generators favour small values).
func (g *valGen) pick(s string, n int) int {
	if n <= 1 {
		return 0
	}
	bits := 0
	for 1<<bits < n {
		bits++
	}
	for {
		v := 0
		for b := 0; b < bits; b++ {
			if g.coin(s) {
				v |= 1 << b
			}
		}
		if v < n {
			return v
		}
	}
}

// intervals draws 1..5 disjoint increasing intervals in [lo, hi]; neighbours may be adjacent (gap 0).
func (g *valGen) intervals(lo, hi int64) []Iv {
	var out []Iv
	at := lo + int64(g.intn("first", 0, 6))
	n := g.intn("nranges", 1, 5)
	for i := 0; i < n; i++ {
		w := int64(0)
		if g.coin("wide") {
			w = int64(g.intn("width", 1, 6))
		}
		if at+w > hi {
			break
		}
		out = append(out, Iv{at, at + w})
		at += w + 1 + int64(g.intn("gap", 0, 4))
	}
	if len(out) == 0 {
		out = []Iv{{lo, lo}}
	}
	return out
}

func cloneIvs(v []Iv) []Iv { return append([]Iv(nil), v...) }

func sortIvs(v []Iv) { sort.Slice(v, func(i, j int) bool { return v[i].S < v[j].S }) }

// valid: sorted copy is disjoint, inside [lo,hi], and avoids the forbidden numbers.
func validIvs(v []Iv, lo, hi int64, forbidden []int64) bool {
	c := cloneIvs(v)
	sortIvs(c)
	for i, x := range c {
		if x.S > x.E || x.S < lo || x.E > hi {
			return false
		}
		if i > 0 && x.S <= c[i-1].E {
			return false
		}
		for _, f := range forbidden {
			if f >= x.S && f <= x.E {
				return false
			}
		}
	}
	return true
}

// transform applies one growing or shrinking step to the (sorted) interval list; it returns the new list
// and a description, or nil if the drawn step does not apply.
func (g *valGen) transform(v []Iv, grow bool, lo, hi int64, forbidden []int64) ([]Iv, string) {
	c := cloneIvs(v)
	sortIvs(c)
	if len(c) == 0 {
		return nil, ""
	}
	i := g.pick("which", len(c))
	d := int64(g.intn("delta", 1, 3))
	var desc string
	if grow {
		switch g.pick("grow", 6) {
		case 0:
			c[i].S -= d
			desc = fmt.Sprintf("widen start of %v by %d", v[i], d)
		case 1:
			c[i].E += d
			desc = fmt.Sprintf("widen end of %v by %d", v[i], d)
		case 2: // merge with the next interval (also covers the gap between them)
			if i+1 >= len(c) {
				return nil, ""
			}
			desc = fmt.Sprintf("merge %v and %v", c[i], c[i+1])
			c[i].E = c[i+1].E
			c = append(c[:i+1], c[i+2:]...)
		case 3: // split into two adjacent pieces
			if c[i].E == c[i].S {
				return nil, ""
			}
			cut := c[i].S + int64(g.intn("cut", 0, int(min64(c[i].E-c[i].S-1, 5))))
			desc = fmt.Sprintf("split %v after %d (adjacent pieces)", c[i], cut)
			c = append(c, Iv{cut + 1, c[i].E})
			c[i].E = cut
		case 4: // a new interval right after interval i (adjacent or with a gap)
			s := c[i].E + 1 + int64(g.intn("newgap", 0, 2))
			n := Iv{s, s + int64(g.intn("newwidth", 0, 3))}
			desc = fmt.Sprintf("add %v", n)
			c = append(c, n)
		case 5: // a new interval far away
			s := hi - int64(g.intn("fromtop", 0, 40))
			n := Iv{s, min64(hi, s+int64(g.intn("newwidth", 0, 3)))}
			desc = fmt.Sprintf("add %v", n)
			c = append(c, n)
		}
	} else {
		switch g.pick("shrink", 5) {
		case 0:
			if c[i].E-c[i].S < d {
				return nil, ""
			}
			c[i].S += d
			desc = fmt.Sprintf("shrink start of %v by %d", v[i], d)
		case 1:
			if c[i].E-c[i].S < d {
				return nil, ""
			}
			c[i].E -= d
			desc = fmt.Sprintf("shrink end of %v by %d", v[i], d)
		case 2:
			desc = fmt.Sprintf("delete %v", c[i])
			c = append(c[:i], c[i+1:]...)
		case 3: // punch a hole: drop one interior number
			if c[i].E-c[i].S < 2 {
				return nil, ""
			}
			hole := c[i].S + 1 + int64(g.intn("hole", 0, int(min64(c[i].E-c[i].S-2, 5))))
			desc = fmt.Sprintf("drop %d out of %v", hole, c[i])
			c = append(c, Iv{hole + 1, c[i].E})
			c[i].E = hole - 1
		case 4: // shift
			desc = fmt.Sprintf("shift %v by %d", c[i], d)
			c[i].S += d
			c[i].E += d
		}
	}
	if !validIvs(c, lo, hi, forbidden) {
		return nil, ""
	}
	sortIvs(c)
	return c, desc
}

func min64(a, b int64) int64 {
	if a < b {
		return a
	}
	return b
}

// renderIvs writes the intervals as one or several statements ("reserved 1, 3 to 5;"), in drawn order.
func (g *valGen) renderIvs(keyword string, v []Iv, maxVal int64, indent string) []string {
	c := cloneIvs(v)
	if g.coin("shuffle") {
		for i := len(c) - 1; i > 0; i-- {
			j := g.pick("shufflej", i+1)
			c[i], c[j] = c[j], c[i]
		}
	}
	var lines []string
	var cur []string
	flush := func() {
		if len(cur) > 0 {
			lines = append(lines, indent+keyword+" "+strings.Join(cur, ", ")+";")
			cur = nil
		}
	}
	for _, x := range c {
		s := fmt.Sprintf("%d", x.S)
		if x.E != x.S {
			end := fmt.Sprintf("%d", x.E)
			if x.E == maxVal && g.coin("max") {
				end = "max"
			}
			s += " to " + end
		} else if g.intn("single-as-range", 0, 5) == 0 {
			s += " to " + s
		}
		cur = append(cur, s)
		if g.intn("newstatement", 0, 2) == 0 {
			flush()
		}
	}
	flush()
	return lines
}

const msgMax, enumMax, enumMin = int64(536870911), int64(math.MaxInt32), int64(math.MinInt32)

// GenRangeCase draws a number-set case. With wantBreaking the newer version loses at least one number of the
// older one (growing steps may be mixed in); without it every step only grows or restructures the set.
func GenRangeCase(t *rapid.T, wantBreaking bool) *ValueCase {
	g := &valGen{t: t}
	kinds := []string{"msg-reserved", "enum-reserved", "ext-range"}
	if !wantBreaking {
		kinds = kinds[:2] // extension ranges are not among the additive things of the statement
	}
	c := &ValueCase{Kind: kinds[g.pick("kind", len(kinds))], Path: "vals/v1/vals.proto"}
	c.Syntax = []string{"proto2", "proto3", "editions"}[g.pick("syntax", 3)]
	if c.Kind == "ext-range" && c.Syntax == "proto3" {
		c.Syntax = "proto2"
	}
	var lo, hi int64
	var forbidden []int64
	var old []Iv
	switch c.Kind {
	case "msg-reserved", "ext-range":
		lo, hi = 1, msgMax
		forbidden = []int64{4500, 4501, 4600, 4601, 4602, 4603, 4604, 4605, 19000, 19999}
		switch g.pick("region", 4) {
		case 0, 1:
			old = g.intervals(1, 60)
		case 2: // near the top of the number space
			old = g.intervals(msgMax-40, msgMax)
			if g.coin("tomax") {
				old[len(old)-1].E = msgMax
			}
		case 3:
			old = append(g.intervals(1, 30), Iv{msgMax - int64(g.intn("tail", 0, 9)), msgMax})
		}
	case "enum-reserved":
		lo, hi = enumMin, enumMax
		forbidden = []int64{0, 1000, 1001}
		switch g.pick("region", 5) {
		case 0:
			old = g.intervals(1, 60)
		case 1:
			old = g.intervals(-60, -1)
		case 2:
			old = append(g.intervals(-40, -1), g.intervals(1, 40)...)
		case 3:
			old = g.intervals(enumMax-40, enumMax)
			if g.coin("tomax") {
				old[len(old)-1].E = enumMax
			}
		case 4:
			old = g.intervals(enumMin, enumMin+40)
			if g.coin("tomin") {
				old[0].S = enumMin
			}
		}
	}
	if !validIvs(old, lo, hi, forbidden) {
		t.Skip("drawn intervals not valid")
	}
	cur := cloneIvs(old)
	steps := g.intn("steps", 1, 3)
	shrinkAt := -1
	if wantBreaking {
		shrinkAt = g.pick("shrinkat", steps)
	}
	for k := 0; k < steps; k++ {
		grow := !wantBreaking || (k != shrinkAt && g.coin("growstep"))
		for try := 0; try < 6; try++ {
			if next, desc := g.transform(cur, grow, lo, hi, forbidden); next != nil {
				cur = next
				c.Steps = append(c.Steps, desc)
				break
			}
		}
	}
	if len(c.Steps) == 0 {
		t.Skip("no step applicable")
	}
	missing := Uncovered(old, cur)
	c.Breaking = len(missing) > 0
	c.Desc = fmt.Sprintf("%s %v -> %v (%s); missing %v", c.Kind, old, cur, strings.Join(c.Steps, "; "), missing)

	nested := g.coin("nested")
	elemName := "Target"
	render := func(v []Iv) (string, Pos, Pos) {
		var b []string
		switch c.Syntax {
		case "proto2":
			b = append(b, `syntax = "proto2";`)
		case "proto3":
			b = append(b, `syntax = "proto3";`)
		default:
			b = append(b, `edition = "2023";`)
		}
		b = append(b, "", "package vals.v1;", "")
		ind := ""
		if nested {
			b = append(b, "message Outer {")
			ind = "  "
		}
		label := ""
		if c.Syntax == "proto2" {
			label = "optional "
		}
		var start, end Pos
		if c.Kind == "enum-reserved" {
			start = Pos{Line: len(b) + 1, Col: len(ind) + 1}
			b = append(b, ind+"enum "+elemName+" {")
			b = append(b, ind+"  TARGET_UNSPECIFIED = 0;")
			b = append(b, g.renderIvs("reserved", v, enumMax, ind+"  ")...)
			b = append(b, ind+"  TARGET_KEPT = 1000;")
			b = append(b, ind+"}")
			end = Pos{Line: len(b), Col: len(ind) + 2}
		} else {
			start = Pos{Line: len(b) + 1, Col: len(ind) + 1}
			b = append(b, ind+"message "+elemName+" {")
			b = append(b, ind+"  "+label+"int32 kept = 4500;")
			kw := "reserved"
			if c.Kind == "ext-range" {
				kw = "extensions"
			} else if c.Syntax != "proto3" {
				b = append(b, ind+"  extensions 4600 to 4605;")
			}
			b = append(b, g.renderIvs(kw, v, msgMax, ind+"  ")...)
			b = append(b, ind+"  "+label+"string also_kept = 4501;")
			b = append(b, ind+"}")
			end = Pos{Line: len(b), Col: len(ind) + 2}
		}
		if nested {
			b = append(b, "}")
		}
		return strings.Join(b, "\n") + "\n", start, end
	}
	if len(cur) == 0 {
		// every interval deleted: no statement at all
	}
	c.Old, _, _ = render(old)
	c.New, c.Start, c.End = render(cur)
	switch c.Kind {
	case "msg-reserved":
		c.Rule = "RESERVED_MESSAGE_NO_DELETE"
	case "enum-reserved":
		c.Rule = "RESERVED_ENUM_NO_DELETE"
	case "ext-range":
		c.Rule = "EXTENSION_MESSAGE_NO_DELETE"
	}
	c.Mention = []string{elemName}
	return c
}

// ---------------------------------------------------------------------------------------------
// defaults

// defaultPools: explicit default literals per type; numerically neighbouring values are next to each other.
var defaultPools = map[string][]string{
	"int32":  {"1", "-1", "7", "2147483645", "2147483646", "2147483647", "-2147483647", "-2147483648"},
	"uint32": {"1", "7", "2147483647", "2147483648", "4294967293", "4294967294", "4294967295"},
	"int64": {"1", "-1", "4294967295", "4294967296", "9007199254740991", "9007199254740992", "9007199254740993",
		"9223372036854775805", "9223372036854775806", "9223372036854775807", "-9007199254740992", "-9007199254740993",
		"-9223372036854775807", "-9223372036854775808"},
	"uint64": {"1", "4294967296", "9007199254740992", "9007199254740993", "9223372036854775807", "9223372036854775808",
		"18446744073709551613", "18446744073709551614", "18446744073709551615"},
	"float": {"1.5", "-1.5", "0.5", "0.1", "1e10", "1e-10", "16777216", "16777218", "3.4028233e38", "3.4028235e38", "-3.4028235e38",
		"1e-45", "1.17549435e-38", "inf", "-inf", "nan"},
	"double": {"1.5", "-1.5", "0.1", "0.1000000000000001", "1e100", "9007199254740992", "9007199254740994",
		"1.7976931348623155e308", "1.7976931348623157e308", "-1.7976931348623157e308", "4.9e-324", "1e-323", "inf", "-inf", "nan"},
	"bool":   {"true", "false"},
	"string": {`"a"`, `"b"`, `"A"`, `"a "`, `"ab"`, `"é"`, `"a\n"`},
	"bytes":  {`"a"`, `"b"`, `"\000"`, `"\001"`, `"a\000"`, `"\377"`},
	"enum":   {"CHOICE_ONE", "CHOICE_TWO", "CHOICE_THREE"},
}

var defaultTypes = []string{"int32", "sint32", "sfixed32", "uint32", "fixed32", "int64", "sint64", "sfixed64", "uint64", "fixed64",
	"float", "double", "bool", "string", "bytes", "enum"}

func poolOf(typ string) []string {
	switch typ {
	case "sint32", "sfixed32":
		return defaultPools["int32"]
	case "fixed32":
		return defaultPools["uint32"]
	case "sint64", "sfixed64":
		return defaultPools["int64"]
	case "fixed64":
		return defaultPools["uint64"]
	}
	return defaultPools[typ]
}

// SameDefault is the reference comparison of two default literals of one type.
func SameDefault(typ, a, b string) bool {
	switch typ {
	case "float", "double":
		bits := 64
		if typ == "float" {
			bits = 32
		}
		x, err1 := strconv.ParseFloat(a, bits)
		y, err2 := strconv.ParseFloat(b, bits)
		if err1 != nil || err2 != nil {
			panic(fmt.Sprintf("bad float literal %q %q", a, b))
		}
		if math.IsNaN(x) || math.IsNaN(y) {
			return math.IsNaN(x) && math.IsNaN(y)
		}
		return x == y
	case "bool", "string", "bytes", "enum":
		return a == b
	}
	x, ok1 := new(big.Int).SetString(a, 10)
	y, ok2 := new(big.Int).SetString(b, 10)
	if !ok1 || !ok2 {
		panic(fmt.Sprintf("bad int literal %q %q", a, b))
	}
	return x.Cmp(y) == 0
}

// GenDefaultCase draws a message with 2-7 defaulted fields and changes the default of one of them to a
// different value of the same type (Breaking is the reference verdict and is always true here).
func GenDefaultCase(t *rapid.T) *ValueCase {
	g := &valGen{t: t}
	c := &ValueCase{Kind: "default", Path: "vals/v1/vals.proto", Rule: "FIELD_SAME_DEFAULT"}
	c.Syntax = []string{"proto2", "editions"}[g.pick("syntax", 2)]
	n := g.intn("fields", 2, 7)
	type fld struct {
		typ, def string
		num      int
		ext      bool
	}
	var fs []fld
	for i := 0; i < n; i++ {
		typ := defaultTypes[g.pick("type", len(defaultTypes))]
		pool := poolOf(typ)
		fs = append(fs, fld{typ: typ, def: pool[g.pick("value", len(pool))], num: i + 1 + 10*g.intn("numgap", 0, 3)})
	}
	seen := map[int]bool{}
	for i := range fs {
		for seen[fs[i].num] {
			fs[i].num++
		}
		seen[fs[i].num] = true
	}
	target := g.pick("target", n)
	typ := fs[target].typ
	pool := poolOf(typ)
	oldDef := fs[target].def
	var newDef string
	idx := 0
	for i, v := range pool {
		if v == oldDef {
			idx = i
		}
	}
	// half of the time a numerically neighbouring value, else any other value
	var cands []string
	if g.coin("neighbour") {
		for _, j := range []int{idx - 1, idx + 1} {
			if j >= 0 && j < len(pool) && !SameDefault(typ, pool[j], oldDef) {
				cands = append(cands, pool[j])
			}
		}
	}
	if len(cands) == 0 {
		for _, v := range pool {
			if !SameDefault(typ, v, oldDef) {
				cands = append(cands, v)
			}
		}
	}
	newDef = cands[g.pick("newvalue", len(cands))]
	nested := g.coin("nested")
	asExt := g.intn("extension", 0, 4) == 0
	render := func(targetDef string) (string, Pos, Pos) {
		var b []string
		if c.Syntax == "proto2" {
			b = append(b, `syntax = "proto2";`)
		} else {
			b = append(b, `edition = "2023";`)
		}
		b = append(b, "", "package vals.v1;", "")
		b = append(b, "enum Choice {", "  CHOICE_UNSPECIFIED = 0;", "  CHOICE_ONE = 1;", "  CHOICE_TWO = 2;", "  CHOICE_THREE = 3;", "}", "")
		label := ""
		if c.Syntax == "proto2" {
			label = "optional "
		}
		line := func(ind string, i int, f fld) string {
			d := f.def
			if i == target {
				d = targetDef
			}
			ty := f.typ
			if ty == "enum" {
				ty = "Choice"
			}
			return fmt.Sprintf("%s%s%s f%d = %d [default = %s];", ind, label, ty, f.num, f.num, d)
		}
		var start, end Pos
		ind := ""
		if nested {
			b = append(b, "message Outer {")
			ind = "  "
		}
		b = append(b, ind+"message Holder {")
		if asExt {
			b = append(b, ind+"  extensions 1 to 1000;")
		} else {
			for i, f := range fs {
				if i == target {
					start = Pos{Line: len(b) + 1, Col: len(ind) + 3}
				}
				b = append(b, line(ind+"  ", i, f))
				if i == target {
					end = Pos{Line: len(b), Col: len(b[len(b)-1]) + 1}
				}
			}
		}
		b = append(b, ind+"}")
		if nested {
			b = append(b, "}")
		}
		if asExt {
			holder := "Holder"
			if nested {
				holder = "Outer.Holder"
			}
			b = append(b, "", "extend "+holder+" {")
			for i, f := range fs {
				if i == target {
					start = Pos{Line: len(b) + 1, Col: 3}
				}
				b = append(b, line("  ", i, f))
				if i == target {
					end = Pos{Line: len(b), Col: len(b[len(b)-1]) + 1}
				}
			}
			b = append(b, "}")
		}
		return strings.Join(b, "\n") + "\n", start, end
	}
	c.Old, _, _ = render(oldDef)
	c.New, c.Start, c.End = render(newDef)
	c.Breaking = !SameDefault(typ, oldDef, newDef)
	c.Mention = []string{fmt.Sprintf("f%d", fs[target].num)}
	where := "field"
	if asExt {
		where = "extension"
	}
	c.Desc = fmt.Sprintf("%s %s f%d: default %s -> %s", where, typ, fs[target].num, oldDef, newDef)
	c.Steps = []string{typ}
	return c
}

// ---------------------------------------------------------------------------------------------
// deletions with and without the reservation a category demands

// DeleteCase is a ValueCase with several expected rules.
type DeleteCase struct {
	ValueCase
	Rules []string `json:"rules"`
}

// GenDeleteCase deletes one field of a message or one number (with all its alias names) of an enum and
// reserves its number (exactly, by a covering range, by a range that just misses it, not at all) and its
// name(s) (all, some, a look-alike, none). The expected rules follow from those facts alone.
func GenDeleteCase(t *rapid.T) *DeleteCase {
	g := &valGen{t: t}
	c := &DeleteCase{}
	c.Path = "vals/v1/vals.proto"
	c.Syntax = []string{"proto2", "proto3", "editions"}[g.pick("syntax", 3)]
	isEnum := g.coin("enum")
	c.Kind = "delete-field"
	if isEnum {
		c.Kind = "delete-enum-value"
	}
	type member struct {
		num   int64
		names []string
	}
	n := g.intn("members", 2, 5)
	var ms []member
	used := map[int64]bool{}
	for i := 0; i < n; i++ {
		num := int64(i*7 + 1 + g.intn("numjitter", 0, 4))
		if isEnum && i == 0 {
			num = 0
		}
		if isEnum && g.intn("negative", 0, 5) == 0 && i > 0 {
			num = -num
		}
		for used[num] {
			num++
		}
		used[num] = true
		m := member{num: num}
		k := 1
		if isEnum && g.intn("aliased", 0, 2) == 0 {
			k = g.intn("names", 2, 3)
		}
		for j := 0; j < k; j++ {
			if isEnum {
				m.names = append(m.names, fmt.Sprintf("TARGET_M%d_N%d", i, j))
			} else {
				m.names = append(m.names, fmt.Sprintf("member_%d", i))
			}
		}
		ms = append(ms, m)
	}
	victim := 1 + g.pick("victim", n-1)
	v := ms[victim]
	// number reservation
	var ranges []Iv
	numCovered := false
	switch g.pick("reservenumber", 5) {
	case 0: // none
	case 1:
		ranges, numCovered = []Iv{{v.num, v.num}}, true
	case 2: // a covering range that does not swallow a surviving member
		lo, hi := v.num, v.num
		for d := 0; d < g.intn("below", 0, 2) && !used[lo-1] && lo-1 != 0 && (isEnum || lo-1 >= 1); d++ {
			lo--
		}
		for d := 0; d < g.intn("above", 0, 2) && !used[hi+1] && hi+1 != 0; d++ {
			hi++
		}
		ranges, numCovered = []Iv{{lo, hi}}, true
	case 3: // just misses it from above
		if !used[v.num+1] && v.num+1 != 0 {
			ranges = []Iv{{v.num + 1, v.num + 1}}
			if !used[v.num+2] && v.num+2 != 0 && g.coin("wider") {
				ranges[0].E = v.num + 2
			}
		}
	case 4: // just misses it from below
		if !used[v.num-1] && v.num-1 != 0 && (isEnum || v.num-1 >= 1) {
			ranges = []Iv{{v.num - 1, v.num - 1}}
		}
	}
	// name reservation
	var resNames []string
	allNames := false
	switch g.pick("reservenames", 4) {
	case 0:
	case 1:
		resNames, allNames = append(resNames, v.names...), true
	case 2: // all but one (with a single name: none)
		skip := g.pick("skip", len(v.names))
		for i, nm := range v.names {
			if i != skip {
				resNames = append(resNames, nm)
			}
		}
	case 3: // look-alikes only
		for _, nm := range v.names {
			resNames = append(resNames, nm+"_")
		}
		if g.coin("casing") && !isEnum {
			resNames = []string{strings.ToUpper(v.names[0])}
		}
	}
	c.Rules = []string{"FIELD_NO_DELETE"}
	if !numCovered {
		c.Rules = append(c.Rules, "FIELD_NO_DELETE_UNLESS_NUMBER_RESERVED")
	}
	if !allNames {
		c.Rules = append(c.Rules, "FIELD_NO_DELETE_UNLESS_NAME_RESERVED")
	}
	if isEnum {
		for i := range c.Rules {
			c.Rules[i] = "ENUM_VALUE" + strings.TrimPrefix(c.Rules[i], "FIELD")
		}
	}
	c.Rule = c.Rules[0]
	c.Breaking = true
	nested := g.coin("nested")
	render := func(deleted bool) (string, Pos, Pos) {
		var b []string
		switch c.Syntax {
		case "proto2":
			b = append(b, `syntax = "proto2";`)
		case "proto3":
			b = append(b, `syntax = "proto3";`)
		default:
			b = append(b, `edition = "2023";`)
		}
		b = append(b, "", "package vals.v1;", "")
		ind := ""
		if nested {
			b = append(b, "message Outer {")
			ind = "  "
		}
		label := ""
		if c.Syntax == "proto2" {
			label = "optional "
		}
		start := Pos{Line: len(b) + 1, Col: len(ind) + 1}
		aliased := false
		for i, m := range ms {
			if len(m.names) > 1 && !(deleted && i == victim) {
				aliased = true
			}
		}
		if isEnum {
			b = append(b, ind+"enum Target {")
			if aliased {
				b = append(b, ind+"  option allow_alias = true;")
			}
		} else {
			b = append(b, ind+"message Target {")
		}
		for i, m := range ms {
			if deleted && i == victim {
				continue
			}
			for _, nm := range m.names {
				if isEnum {
					b = append(b, fmt.Sprintf("%s  %s = %d;", ind, nm, m.num))
				} else {
					b = append(b, fmt.Sprintf("%s  %sint32 %s = %d;", ind, label, nm, m.num))
				}
			}
		}
		if deleted {
			if len(ranges) > 0 {
				b = append(b, g.renderIvs("reserved", ranges, math.MaxInt64, ind+"  ")...)
			}
			if len(resNames) > 0 {
				var q []string
				for _, nm := range resNames {
					if c.Syntax == "editions" {
						q = append(q, nm)
					} else {
						q = append(q, `"`+nm+`"`)
					}
				}
				b = append(b, ind+"  reserved "+strings.Join(q, ", ")+";")
			}
		}
		b = append(b, ind+"}")
		end := Pos{Line: len(b), Col: len(ind) + 2}
		if nested {
			b = append(b, "}")
		}
		return strings.Join(b, "\n") + "\n", start, end
	}
	c.Old, _, _ = render(false)
	c.New, c.Start, c.End = render(true)
	c.Mention = append([]string{fmt.Sprintf("%d", v.num)}, v.names...)
	c.Desc = fmt.Sprintf("%s %v=%d; reserved numbers %v (covers: %v), reserved names %v (all: %v)", c.Kind, v.names, v.num, ranges, numCovered, resNames, allNames)
	return c
}

// GenReservedNamesCase: a message or enum that reserves names (with or without reserved numbers next to them);
// the newer version drops, adds, reorders or re-spells names. Breaking iff an old name is no longer reserved.
func GenReservedNamesCase(t *rapid.T, wantBreaking bool) *ValueCase {
	g := &valGen{t: t}
	isEnum := g.coin("enum")
	c := &ValueCase{Kind: "msg-reserved-names", Path: "vals/v1/vals.proto", Rule: "RESERVED_MESSAGE_NO_DELETE"}
	if isEnum {
		c.Kind, c.Rule = "enum-reserved-names", "RESERVED_ENUM_NO_DELETE"
	}
	c.Syntax = []string{"proto2", "proto3", "editions"}[g.pick("syntax", 3)]
	pool := []string{"old_name", "legacy", "legacy_", "Legacy", "removed_field", "tmp", "a", "removed_field_2"}
	if isEnum {
		pool = []string{"TARGET_OLD", "TARGET_LEGACY", "TARGET_LEGACY_", "target_legacy", "TARGET_REMOVED", "TARGET_TMP", "A", "TARGET_REMOVED_2"}
	}
	nOld := g.intn("names", 1, 4)
	perm := rapid.Permutation(seq8(len(pool))).Draw(t, g.label("nameperm"))
	old := []string{}
	for _, i := range perm[:nOld] {
		old = append(old, pool[i])
	}
	rest := []string{}
	for _, i := range perm[nOld:] {
		rest = append(rest, pool[i])
	}
	withRanges := g.coin("withranges")
	cur := append([]string{}, old...)
	steps := g.intn("steps", 1, 3)
	dropAt := -1
	if wantBreaking {
		dropAt = g.pick("dropat", steps)
	}
	for k := 0; k < steps; k++ {
		switch {
		case k == dropAt || (wantBreaking && g.intn("alsodrop", 0, 3) == 0):
			if len(cur) == 0 {
				continue
			}
			i := g.pick("drop", len(cur))
			if g.coin("respell") && len(rest) > 0 {
				c.Steps = append(c.Steps, fmt.Sprintf("replace %s by %s", cur[i], rest[0]))
				cur[i], rest = rest[0], rest[1:]
			} else {
				c.Steps = append(c.Steps, "drop "+cur[i])
				cur = append(cur[:i], cur[i+1:]...)
			}
		case len(rest) > 0 && g.coin("add"):
			c.Steps = append(c.Steps, "add "+rest[0])
			cur, rest = append(cur, rest[0]), rest[1:]
		default:
			c.Steps = append(c.Steps, "reorder")
			for i := len(cur) - 1; i > 0; i-- {
				j := g.pick("shuf", i+1)
				cur[i], cur[j] = cur[j], cur[i]
			}
		}
	}
	have := map[string]bool{}
	for _, n := range cur {
		have[n] = true
	}
	var missing []string
	for _, n := range old {
		if !have[n] {
			missing = append(missing, n)
		}
	}
	c.Breaking = len(missing) > 0
	nested := g.coin("nested")
	render := func(names []string) (string, Pos, Pos) {
		var b []string
		switch c.Syntax {
		case "proto2":
			b = append(b, `syntax = "proto2";`)
		case "proto3":
			b = append(b, `syntax = "proto3";`)
		default:
			b = append(b, `edition = "2023";`)
		}
		b = append(b, "", "package vals.v1;", "")
		ind := ""
		if nested {
			b = append(b, "message Outer {")
			ind = "  "
		}
		label := ""
		if c.Syntax == "proto2" {
			label = "optional "
		}
		start := Pos{Line: len(b) + 1, Col: len(ind) + 1}
		if isEnum {
			b = append(b, ind+"enum Target {", ind+"  TARGET_UNSPECIFIED = 0;")
		} else {
			b = append(b, ind+"message Target {", ind+"  "+label+"int32 kept = 4500;")
		}
		if withRanges {
			b = append(b, ind+"  reserved 5 to 7, 9;")
		}
		// one statement or one per name
		quote := func(n string) string {
			if c.Syntax == "editions" {
				return n
			}
			return `"` + n + `"`
		}
		if len(names) > 0 {
			if g.coin("onestatement") {
				var q []string
				for _, n := range names {
					q = append(q, quote(n))
				}
				b = append(b, ind+"  reserved "+strings.Join(q, ", ")+";")
			} else {
				for _, n := range names {
					b = append(b, ind+"  reserved "+quote(n)+";")
				}
			}
		}
		b = append(b, ind+"}")
		end := Pos{Line: len(b), Col: len(ind) + 2}
		if nested {
			b = append(b, "}")
		}
		return strings.Join(b, "\n") + "\n", start, end
	}
	c.Old, _, _ = render(old)
	c.New, c.Start, c.End = render(cur)
	c.Mention = []string{"Target"}
	c.Desc = fmt.Sprintf("%s %v -> %v (%s; reserved numbers alongside: %v); missing %v", c.Kind, old, cur, strings.Join(c.Steps, "; "), withRanges, missing)
	return c
}

func seq8(n int) []int {
	out := make([]int, n)
	for i := range out {
		out[i] = i
	}
	return out
}
