package protogen

import (
	"fmt"
	"strings"
)

// Additive / cosmetic operators: the documentation promises that none of them is a breaking change
// in any category. Each mutates ws in place.

func (e *Editor) newScalarField(f *File, m *Message) *Field {
	fld := &Field{ID: e.id(), Name: e.fresh(), Number: e.freshNumber(m), Type: Scalars[e.pick("addscalar", len(Scalars))], TypeKind: "scalar", Comment: "added field."}
	switch f.Syntax {
	case Proto3:
		fld.Label = []string{LabelNone, LabelOptional, LabelRepeated}[e.pick("addlabel3", 3)]
	case Editions:
		fld.Label = []string{LabelNone, LabelRepeated}[e.pick("addlabele", 2)]
	default:
		fld.Label = []string{LabelOptional, LabelRepeated}[e.pick("addlabel2", 2)]
	}
	return fld
}

func addField(e *Editor, ws *Workspace) (*Edit, bool) {
	sites := msgSites(ws, func(m MsgRef) bool { return !hasOpt(m.Msg.Options, "message_set_wire_format") })
	if len(sites) == 0 {
		return nil, false
	}
	s := sites[e.pick("site", len(sites))]
	fld := e.newScalarField(s.File, s.Msg)
	// sometimes a message/enum typed field of a type of the same file
	if e.pick("reftype", 3) == 0 {
		var cands []struct{ full, kind string }
		s.File.WalkMessages(func(m MsgRef) {
			if !isGroupBody(m) {
				cands = append(cands, struct{ full, kind string }{"." + m.Full, "message"})
			}
		})
		s.File.WalkEnums(func(er EnumRef) {
			cands = append(cands, struct{ full, kind string }{"." + er.Full, "enum"})
		})
		if len(cands) > 0 {
			c := cands[e.pick("reftypeidx", len(cands))]
			fld.Type, fld.TypeKind = c.full, c.kind
		}
	}
	s.Msg.Fields = append(s.Msg.Fields, fld)
	return &Edit{Op: "add-field", Desc: fmt.Sprintf("add field %s=%d to %s", fld.Name, fld.Number, s.Full), Compatible: true, File: s.File.Path, ElemID: fld.ID}, true
}

func (e *Editor) newMessage(f *File) *Message {
	m := &Message{ID: e.id(), Name: lowerSnakeToPascal(e.fresh()), Comment: "added message."}
	n := e.intn("newmsgfields", 0, 3)
	for i := 0; i < n; i++ {
		fld := e.newScalarField(f, m)
		fld.Number = int32(i + 1)
		m.Fields = append(m.Fields, fld)
	}
	return m
}

func addMessage(e *Editor, ws *Workspace) (*Edit, bool) {
	files := userFiles(ws)
	if len(files) == 0 {
		return nil, false
	}
	f := files[e.pick("file", len(files))]
	m := e.newMessage(f)
	if e.pick("nested", 2) == 0 {
		var hosts []MsgRef
		f.WalkMessages(func(r MsgRef) {
			if !isGroupBody(r) {
				hosts = append(hosts, r)
			}
		})
		if len(hosts) > 0 {
			h := hosts[e.pick("host", len(hosts))]
			h.Msg.Nested = append(h.Msg.Nested, m)
			return &Edit{Op: "add-nested-message", Desc: "add message " + m.Name + " inside " + h.Full, Compatible: true, File: f.Path, ElemID: m.ID}, true
		}
	}
	f.Messages = append(f.Messages, m)
	return &Edit{Op: "add-message", Desc: "add message " + m.Name + " to " + f.Path, Compatible: true, File: f.Path, ElemID: m.ID}, true
}

func (e *Editor) newEnum() *Enum {
	en := &Enum{ID: e.id(), Name: lowerSnakeToPascal(e.fresh()), Comment: "added enum."}
	prefix := UpperSnake(en.Name) + "_"
	en.Values = append(en.Values, &EnumValue{ID: e.id(), Name: prefix + "UNSPECIFIED", Number: 0, Comment: "zero."})
	for i := 0; i < e.intn("newenumvals", 0, 3); i++ {
		en.Values = append(en.Values, &EnumValue{ID: e.id(), Name: prefix + strings.ToUpper(e.fresh()), Number: int32(i + 1), Comment: "value."})
	}
	return en
}

func addEnum(e *Editor, ws *Workspace) (*Edit, bool) {
	files := userFiles(ws)
	if len(files) == 0 {
		return nil, false
	}
	f := files[e.pick("file", len(files))]
	en := e.newEnum()
	if e.pick("nested", 2) == 0 {
		var hosts []MsgRef
		f.WalkMessages(func(r MsgRef) {
			if !isGroupBody(r) {
				hosts = append(hosts, r)
			}
		})
		if len(hosts) > 0 {
			h := hosts[e.pick("host", len(hosts))]
			h.Msg.Enums = append(h.Msg.Enums, en)
			return &Edit{Op: "add-nested-enum", Desc: "add enum " + en.Name + " inside " + h.Full, Compatible: true, File: f.Path, ElemID: en.ID}, true
		}
	}
	f.Enums = append(f.Enums, en)
	return &Edit{Op: "add-enum", Desc: "add enum " + en.Name + " to " + f.Path, Compatible: true, File: f.Path, ElemID: en.ID}, true
}

func addEnumValue(e *Editor, ws *Workspace) (*Edit, bool) {
	sites := enumSites(ws, nil)
	if len(sites) == 0 {
		return nil, false
	}
	s := sites[e.pick("site", len(sites))]
	used := map[int32]bool{}
	for _, v := range s.Enum.Values {
		used[v.Number] = true
	}
	for _, r := range s.Enum.ReservedRanges {
		for k := r.Start; k <= r.End && k-r.Start < 100000; k++ {
			used[k] = true
		}
	}
	for k := range e.tomb[s.Enum.ID] {
		used[k] = true
	}
	var n int32
	for {
		n = int32(e.intn("newvalnum", 300, 5000))
		if !used[n] {
			break
		}
	}
	v := &EnumValue{ID: e.id(), Name: UpperSnake(s.Enum.Name) + "_" + strings.ToUpper(e.fresh()), Number: n, Comment: "added value."}
	s.Enum.Values = append(s.Enum.Values, v)
	return &Edit{Op: "add-enum-value", Desc: fmt.Sprintf("add value %s=%d to %s", v.Name, n, s.Full), Compatible: true, File: s.File.Path, ElemID: v.ID}, true
}

func (e *Editor) newMethod(f *File) *Method {
	name := lowerSnakeToPascal(e.fresh())
	req := &Message{ID: e.id(), Name: name + "Request", Comment: "added request."}
	resp := &Message{ID: e.id(), Name: name + "Response", Comment: "added response."}
	f.Messages = append(f.Messages, req, resp)
	return &Method{ID: e.id(), Name: name, Comment: "added rpc.", Input: "." + FullName(f.Package, req.Name), Output: "." + FullName(f.Package, resp.Name)}
}

func addService(e *Editor, ws *Workspace) (*Edit, bool) {
	files := userFiles(ws)
	if len(files) == 0 {
		return nil, false
	}
	f := files[e.pick("file", len(files))]
	s := &Service{ID: e.id(), Name: lowerSnakeToPascal(e.fresh()) + "Service", Comment: "added service."}
	s.Methods = append(s.Methods, e.newMethod(f))
	f.Services = append(f.Services, s)
	return &Edit{Op: "add-service", Desc: "add service " + s.Name + " to " + f.Path, Compatible: true, File: f.Path, ElemID: s.ID}, true
}

func addRPC(e *Editor, ws *Workspace) (*Edit, bool) {
	type site struct {
		f *File
		s *Service
	}
	var sites []site
	for _, f := range userFiles(ws) {
		for _, s := range f.Services {
			sites = append(sites, site{f, s})
		}
	}
	if len(sites) == 0 {
		return nil, false
	}
	x := sites[e.pick("site", len(sites))]
	m := e.newMethod(x.f)
	x.s.Methods = append(x.s.Methods, m)
	return &Edit{Op: "add-rpc", Desc: "add rpc " + m.Name + " to " + x.s.Name, Compatible: true, File: x.f.Path, ElemID: m.ID}, true
}

func addOneof(e *Editor, ws *Workspace) (*Edit, bool) {
	sites := msgSites(ws, func(m MsgRef) bool { return !hasOpt(m.Msg.Options, "message_set_wire_format") })
	if len(sites) == 0 {
		return nil, false
	}
	s := sites[e.pick("site", len(sites))]
	o := &Oneof{ID: e.id(), Name: e.fresh(), Comment: "added oneof."}
	s.Msg.Oneofs = append(s.Msg.Oneofs, o)
	for i := 0; i < e.intn("oneofmembers", 1, 3); i++ {
		fld := e.newScalarField(s.File, s.Msg)
		fld.Label = LabelNone
		fld.Oneof = o.Name
		s.Msg.Fields = append(s.Msg.Fields, fld)
	}
	return &Edit{Op: "add-oneof", Desc: "add oneof " + o.Name + " (new fields) to " + s.Full, Compatible: true, File: s.File.Path, ElemID: o.ID}, true
}

func addReserved(e *Editor, ws *Workspace) (*Edit, bool) {
	sites := msgSites(ws, func(m MsgRef) bool { return !hasOpt(m.Msg.Options, "message_set_wire_format") })
	if len(sites) == 0 {
		return nil, false
	}
	s := sites[e.pick("site", len(sites))]
	if e.pick("rangeorname", 2) == 0 {
		u := usedNumbers(s.Msg)
		for k := range e.tomb[s.Msg.ID] {
			u[k] = true
		}
		var start int32
		for {
			start = int32(e.intn("resstart", 20000, 90000))
			ok := true
			for k := start; k <= start+3; k++ {
				if u[k] {
					ok = false
				}
			}
			if ok {
				break
			}
		}
		r := Range{start, start + int32(e.intn("reslen", 0, 3))}
		s.Msg.ReservedRanges = append(s.Msg.ReservedRanges, r)
		return &Edit{Op: "add-reserved-range", Desc: fmt.Sprintf("reserve %d-%d in %s", r.Start, r.End, s.Full), Compatible: true, File: s.File.Path, ElemID: s.Msg.ID}, true
	}
	n := e.fresh()
	s.Msg.ReservedNames = append(s.Msg.ReservedNames, n)
	return &Edit{Op: "add-reserved-name", Desc: fmt.Sprintf("reserve name %s in %s", n, s.Full), Compatible: true, File: s.File.Path, ElemID: s.Msg.ID}, true
}

func addFile(e *Editor, ws *Workspace) (*Edit, bool) {
	files := userFiles(ws)
	if len(files) == 0 {
		return nil, false
	}
	tmpl := files[e.pick("file", len(files))]
	m := ws.ModuleOf(tmpl)
	dir := tmpl.Path[:strings.LastIndex(tmpl.Path, "/")+1]
	f := &File{ID: e.id(), Path: dir + e.fresh() + ".proto", Syntax: tmpl.Syntax, Package: tmpl.Package}
	for _, o := range tmpl.Options {
		if !strings.HasPrefix(o.Name, "(") {
			f.Options = append(f.Options, o)
		}
	}
	f.Messages = append(f.Messages, e.newMessage(f))
	if e.pick("withenum", 2) == 0 {
		f.Enums = append(f.Enums, e.newEnum())
	}
	m.Files = append(m.Files, f)
	return &Edit{Op: "add-file", Desc: "add file " + f.Path, Compatible: true, File: f.Path}, true
}

func recomment(e *Editor, ws *Workspace) (*Edit, bool) {
	files := userFiles(ws)
	if len(files) == 0 {
		return nil, false
	}
	f := files[e.pick("file", len(files))]
	tag := e.fresh()
	f.Comment = "re-commented " + tag
	f.WalkMessages(func(m MsgRef) {
		if m.Msg.Comment != "" {
			m.Msg.Comment = "changed comment " + tag + "\nsecond line"
		} else {
			m.Msg.Comment = "new comment " + tag
		}
		for _, fld := range m.Msg.Fields {
			if e.pick("fieldcomment", 2) == 0 {
				fld.Comment = ""
			} else {
				fld.Comment = "c " + tag
			}
		}
	})
	f.WalkEnums(func(er EnumRef) { er.Enum.Comment = "enum comment " + tag })
	return &Edit{Op: "recomment", Desc: "change comments of " + f.Path, Compatible: true, File: f.Path}, true
}

// AdditiveOps is the catalogue of compatible edits.
var AdditiveOps = []BreakingOp{
	{"add-field", addField},
	{"add-message", addMessage},
	{"add-enum", addEnum},
	{"add-enum-value", addEnumValue},
	{"add-service", addService},
	{"add-rpc", addRPC},
	{"add-oneof", addOneof},
	{"add-reserved", addReserved},
	{"add-file", addFile},
	{"recomment", recomment},
}

// ApplyAdditive applies one additive/cosmetic edit.
func (e *Editor) ApplyAdditive(ws *Workspace) *Edit {
	start := e.pick("addop", len(AdditiveOps))
	for k := 0; k < len(AdditiveOps); k++ {
		op := AdditiveOps[(start+k)%len(AdditiveOps)]
		if ed, ok := op.Apply(e, ws); ok {
			return ed
		}
	}
	return nil
}

// LayoutNoise re-lays a file out: extra blank lines, spaces and comments between tokens.
type LayoutNoise struct {
	E *Editor
}

// Gap implements Noise.
func (n LayoutNoise) Gap(sameLine bool) string {
	switch n.E.intn("gap", 0, 11) {
	case 0:
		return "  "
	case 1:
		return "\n"
	case 2:
		return "/* n */ "
	case 3:
		return "// n\n"
	case 4:
		return "\n\n"
	}
	return ""
}
