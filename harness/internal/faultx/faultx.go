// Package faultx is the fault-injection machinery shared by the fault_enumeration checks
// (C09, C15): a storage.ReadWriteBucket wrapper that numbers every mutating event and can fail
// or "crash" at any of them, and a failing io.Writer for the archive writers.
//
// Event numbering (0-based, in the order the calls arrive): every Put call, every Write call on
// an object returned by Put, every Close of such an object, every Delete and every DeleteAll.
// SetExternalPath/SetLocalPath and all reads are not events.
//
// The wrapper models a failing / dying disk *below* the wrapped bucket. Two consequences:
//
//   - Crash(k): from event k on nothing is forwarded to the wrapped bucket any more and every
//     call, reads included, returns ErrCrashed. Deferred closes and error-path clean-ups of the
//     code under test therefore have no effect on the wrapped bucket: that is the state a killed
//     process leaves behind. No panics are used, so this is safe inside thread.Parallelize.
//   - An injected Write error on an object that was opened with storage.PutWithAtomic() is
//     sticky in the way the disk bucket's own atomic writer makes a real write error sticky: the
//     later Close is not forwarded (the object is never published) and returns the injected
//     error. Without this the wrapper would make the wrapped atomic writer publish a prefix that
//     its own contract (rename only after every write succeeded) can never publish.
//
// Objects whose Close was not forwarded stay open in the wrapped bucket; Reap closes them once
// all observations of a case are done (so that file descriptors do not pile up).
package faultx

import (
	"context"
	"errors"
	"fmt"
	"sync"

	"github.com/bufbuild/buf/private/pkg/storage"
)

// Kind is the kind of a mutating event.
type Kind int

const (
	KindPut Kind = iota
	KindWrite
	KindClose
	KindDelete
	KindDeleteAll
)

func (k Kind) String() string {
	switch k {
	case KindPut:
		return "put"
	case KindWrite:
		return "write"
	case KindClose:
		return "close"
	case KindDelete:
		return "delete"
	case KindDeleteAll:
		return "deleteall"
	}
	return "?"
}

// Event is one recorded mutating event.
type Event struct {
	Index  int    `json:"i"`
	Kind   Kind   `json:"-"`
	KindS  string `json:"kind"`
	Path   string `json:"path"`
	Len    int    `json:"len,omitempty"` // Write: len(p)
	Atomic bool   `json:"atomic,omitempty"`
	// Data is a copy of the bytes of a Write of at most KeepData bytes (so that a sweep can
	// choose structural cut points such as line boundaries); nil otherwise.
	Data []byte `json:"-"`
}

// KeepData is the largest Write whose bytes are kept in the event log.
const KeepData = 4096

// Variant selects how a failing event behaves.
type Variant int

const (
	// VarError: the event is not forwarded at all and returns an error
	// (Put/Delete/DeleteAll: error; Write: (0, err); Close: error, wrapped object stays open).
	VarError Variant = iota
	// VarShortWrite (Write only; on other kinds same as VarError): the first half (at least
	// one byte if len>1, possibly zero bytes) of the data is forwarded, then (n<len, err).
	VarShortWrite
	// VarCloseForwarded (Close only; on other kinds same as VarError): the wrapped object is
	// closed (so the data is published) but Close still reports an error.
	VarCloseForwarded
	// VarCloseLost (Close only; not part of Variants): write-behind. While a plan contains this
	// variant every Write is only buffered by the wrapper and flushed to the wrapped object when
	// its Close is reached; the failing Close drops the buffered data and is not forwarded: the
	// data that Write accepted never reaches the disk (full disk, quota, NFS write-behind), and
	// Close is the only call that reports it.
	VarCloseLost
)

func (v Variant) String() string {
	switch v {
	case VarError:
		return "error"
	case VarShortWrite:
		return "short-write"
	case VarCloseForwarded:
		return "close-forwarded"
	case VarCloseLost:
		return "close-lost-data"
	}
	return "?"
}

// Variants lists the distinct failure variants that apply to an event kind.
func Variants(k Kind) []Variant {
	switch k {
	case KindWrite:
		return []Variant{VarError, VarShortWrite}
	case KindClose:
		return []Variant{VarError, VarCloseForwarded}
	}
	return []Variant{VarError}
}

// ErrCrashed is returned by every call after the crash point.
var ErrCrashed = errors.New("faultx: process crashed (simulated)")

// InjectedError is the error returned by a failing event.
type InjectedError struct {
	Event Event
	Var   Variant
}

func (e *InjectedError) Error() string {
	return fmt.Sprintf("faultx: injected %s failure at event %d (%s %q)", e.Var, e.Event.Index, e.Event.KindS, e.Event.Path)
}

// IsInjected reports whether err contains an injected failure or the crash sentinel.
func IsInjected(err error) bool {
	var ie *InjectedError
	return errors.As(err, &ie) || errors.Is(err, ErrCrashed)
}

// Plan says what the bucket does. The zero Plan only counts.
type Plan struct {
	// Fail maps event index -> variant for the events that fail.
	Fail map[int]Variant
	// CrashAt >= 0: the event with this index and everything after it is not performed.
	// Use -1 (NoCrash) for none. NewPlan sets -1.
	CrashAt int
	// CrashPrefix > 0: if the crash event itself (index == CrashAt) is a Write of more than
	// CrashPrefix bytes, its first CrashPrefix bytes still reach the wrapped object before the
	// crash: a process killed in the middle of a write (a torn write).
	CrashPrefix int
	// ShortN maps the index of a VarShortWrite failure to the number of bytes that are
	// forwarded before the error (0 < n < len); without an entry half of the data is forwarded.
	ShortN map[int]int
	// Hook, if set, is called (outside the lock) before each event is handled, with the event
	// about to happen. Used by child processes to os.Exit at an event.
	Hook func(Event)
}

// NoCrash is the CrashAt value meaning "never".
const NoCrash = -1

// Count returns a plan that only counts.
func Count() Plan { return Plan{CrashAt: NoCrash} }

// FailAt returns a plan failing event k with variant v.
func FailAt(k int, v Variant) Plan { return Plan{CrashAt: NoCrash, Fail: map[int]Variant{k: v}} }

// FailAt2 returns a plan failing two events.
func FailAt2(k1 int, v1 Variant, k2 int, v2 Variant) Plan {
	return Plan{CrashAt: NoCrash, Fail: map[int]Variant{k1: v1, k2: v2}}
}

// CrashAt returns a plan crashing at event k.
func CrashAt(k int) Plan { return Plan{CrashAt: k} }

// CrashInWrite returns a plan crashing at event k after the first n bytes of that event (if it is
// a Write longer than n) were written.
func CrashInWrite(k, n int) Plan { return Plan{CrashAt: k, CrashPrefix: n} }

// ShortWriteAt returns a plan where Write event k forwards its first n bytes and then fails.
func ShortWriteAt(k, n int) Plan {
	return Plan{CrashAt: NoCrash, Fail: map[int]Variant{k: VarShortWrite}, ShortN: map[int]int{k: n}}
}

// Bucket is the fault-injecting wrapper.
type Bucket struct {
	under storage.ReadWriteBucket
	plan  Plan

	buffered bool // write-behind mode (a VarCloseLost failure is planned)

	mu      sync.Mutex
	next    int
	crashed bool
	fired   []Event // events that failed by injection (not counting post-crash ones)
	log     []Event
	open    map[*object]struct{}
}

// New wraps under with the plan.
func New(under storage.ReadWriteBucket, plan Plan) *Bucket {
	b := &Bucket{under: under, plan: plan, open: map[*object]struct{}{}}
	for _, v := range plan.Fail {
		if v == VarCloseLost {
			b.buffered = true
		}
	}
	return b
}

// Events returns the number of events seen so far (including failed and post-crash ones).
func (b *Bucket) Events() int { b.mu.Lock(); defer b.mu.Unlock(); return b.next }

// Log returns a copy of the event log.
func (b *Bucket) Log() []Event {
	b.mu.Lock()
	defer b.mu.Unlock()
	return append([]Event(nil), b.log...)
}

// Fired returns the injected failures that actually happened.
func (b *Bucket) Fired() []Event {
	b.mu.Lock()
	defer b.mu.Unlock()
	return append([]Event(nil), b.fired...)
}

// Crashed reports whether the crash point was reached.
func (b *Bucket) Crashed() bool { b.mu.Lock(); defer b.mu.Unlock(); return b.crashed }

// Disturbed reports whether any injected failure fired or the crash point was reached.
func (b *Bucket) Disturbed() bool {
	b.mu.Lock()
	defer b.mu.Unlock()
	return b.crashed || len(b.fired) > 0
}

// CrashNow makes the bucket behave as crashed from now on (used from the storageos atomic-close
// hook to simulate a kill between temp-file close and rename).
func (b *Bucket) CrashNow() { b.mu.Lock(); b.crashed = true; b.mu.Unlock() }

// Reap closes every wrapped object whose Close was never forwarded. Call it only after all
// observations of the case are finished (closing an atomic object publishes it).
func (b *Bucket) Reap() {
	b.mu.Lock()
	objs := make([]*object, 0, len(b.open))
	for o := range b.open {
		objs = append(objs, o)
	}
	b.open = map[*object]struct{}{}
	b.mu.Unlock()
	for _, o := range objs {
		_ = o.under.Close()
	}
}

type decision struct {
	ev      Event
	crashed bool
	torn    int // > 0: this is the crash event and this many bytes are still to be forwarded
	fail    bool
	variant Variant
}

// event registers one event and decides its fate.
func (b *Bucket) event(kind Kind, path string, n int, atomic bool, data []byte) decision {
	b.mu.Lock()
	ev := Event{Index: b.next, Kind: kind, KindS: kind.String(), Path: path, Len: n, Atomic: atomic}
	if kind == KindWrite && len(data) <= KeepData {
		ev.Data = append([]byte(nil), data...)
	}
	b.next++
	b.log = append(b.log, ev)
	d := decision{ev: ev}
	if !b.crashed && b.plan.CrashAt >= 0 && ev.Index >= b.plan.CrashAt {
		b.crashed = true
		if ev.Index == b.plan.CrashAt && kind == KindWrite && b.plan.CrashPrefix > 0 && b.plan.CrashPrefix < n {
			d.torn = b.plan.CrashPrefix
		}
	}
	if b.crashed {
		d.crashed = true
	} else if v, ok := b.plan.Fail[ev.Index]; ok {
		d.fail = true
		d.variant = v
		b.fired = append(b.fired, ev)
	}
	hook := b.plan.Hook
	b.mu.Unlock()
	if hook != nil {
		hook(ev)
	}
	return d
}

func (b *Bucket) isCrashed() bool { b.mu.Lock(); defer b.mu.Unlock(); return b.crashed }

// ---- ReadBucket

func (b *Bucket) Get(ctx context.Context, path string) (storage.ReadObjectCloser, error) {
	if b.isCrashed() {
		return nil, ErrCrashed
	}
	return b.under.Get(ctx, path)
}

func (b *Bucket) Stat(ctx context.Context, path string) (storage.ObjectInfo, error) {
	if b.isCrashed() {
		return nil, ErrCrashed
	}
	return b.under.Stat(ctx, path)
}

func (b *Bucket) Walk(ctx context.Context, prefix string, f func(storage.ObjectInfo) error) error {
	if b.isCrashed() {
		return ErrCrashed
	}
	return b.under.Walk(ctx, prefix, f)
}

// ---- WriteBucket

func (b *Bucket) Put(ctx context.Context, path string, options ...storage.PutOption) (storage.WriteObjectCloser, error) {
	atomic := storage.NewPutOptions(options).Atomic()
	d := b.event(KindPut, path, 0, atomic, nil)
	if d.crashed {
		return nil, ErrCrashed
	}
	if d.fail {
		return nil, &InjectedError{Event: d.ev, Var: d.variant}
	}
	under, err := b.under.Put(ctx, path, options...)
	if err != nil {
		return nil, err
	}
	o := &object{b: b, under: under, path: path, atomic: atomic}
	b.mu.Lock()
	b.open[o] = struct{}{}
	b.mu.Unlock()
	return o, nil
}

func (b *Bucket) Delete(ctx context.Context, path string) error {
	d := b.event(KindDelete, path, 0, false, nil)
	if d.crashed {
		return ErrCrashed
	}
	if d.fail {
		return &InjectedError{Event: d.ev, Var: d.variant}
	}
	return b.under.Delete(ctx, path)
}

func (b *Bucket) DeleteAll(ctx context.Context, prefix string) error {
	d := b.event(KindDeleteAll, prefix, 0, false, nil)
	if d.crashed {
		return ErrCrashed
	}
	if d.fail {
		return &InjectedError{Event: d.ev, Var: d.variant}
	}
	return b.under.DeleteAll(ctx, prefix)
}

func (b *Bucket) SetExternalAndLocalPathsSupported() bool {
	return b.under.SetExternalAndLocalPathsSupported()
}

type object struct {
	b      *Bucket
	under  storage.WriteObjectCloser
	path   string
	atomic bool

	mu       sync.Mutex
	writeErr error // first injected write error (sticky for atomic objects)
	closed   bool
	pending  []byte // write-behind mode: accepted but not yet forwarded
}

func (o *object) Write(p []byte) (int, error) {
	d := o.b.event(KindWrite, o.path, len(p), o.atomic, p)
	if d.crashed {
		if d.torn > 0 {
			n, _ := o.under.Write(p[:d.torn])
			return n, ErrCrashed
		}
		return 0, ErrCrashed
	}
	if d.fail {
		err := &InjectedError{Event: d.ev, Var: d.variant}
		o.mu.Lock()
		if o.writeErr == nil {
			o.writeErr = err
		}
		o.mu.Unlock()
		if d.variant == VarShortWrite && len(p) > 0 {
			cut := len(p) / 2
			if n, ok := o.b.plan.ShortN[d.ev.Index]; ok && n > 0 && n < len(p) {
				cut = n
			}
			n, uerr := o.under.Write(p[:cut])
			if uerr != nil {
				return n, errors.Join(err, uerr)
			}
			return n, err
		}
		return 0, err
	}
	if o.b.buffered {
		o.mu.Lock()
		o.pending = append(o.pending, p...)
		o.mu.Unlock()
		return len(p), nil
	}
	return o.under.Write(p)
}

func (o *object) SetExternalPath(externalPath string) error {
	if o.b.isCrashed() {
		return ErrCrashed
	}
	return o.under.SetExternalPath(externalPath)
}

func (o *object) SetLocalPath(localPath string) error {
	if o.b.isCrashed() {
		return ErrCrashed
	}
	return o.under.SetLocalPath(localPath)
}

func (o *object) Close() error {
	d := o.b.event(KindClose, o.path, 0, o.atomic, nil)
	if d.crashed {
		return ErrCrashed
	}
	o.mu.Lock()
	if o.closed {
		o.mu.Unlock()
		return storage.ErrClosed
	}
	o.closed = true
	writeErr := o.writeErr
	o.mu.Unlock()
	if d.fail && d.variant != VarCloseForwarded {
		// not forwarded: the wrapped object stays open (reaped later); buffered data is lost
		o.mu.Lock()
		o.pending = nil
		o.mu.Unlock()
		return &InjectedError{Event: d.ev, Var: d.variant}
	}
	o.mu.Lock()
	pending := o.pending
	o.pending = nil
	o.mu.Unlock()
	if len(pending) > 0 && !(o.atomic && writeErr != nil) {
		if _, err := o.under.Write(pending); err != nil {
			o.b.mu.Lock()
			delete(o.b.open, o)
			o.b.mu.Unlock()
			return errors.Join(err, o.under.Close())
		}
	}
	if o.atomic && writeErr != nil {
		// atomic contract: a failed write is never published; Close reports the write error.
		if d.fail {
			return errors.Join(writeErr, &InjectedError{Event: d.ev, Var: d.variant})
		}
		return writeErr
	}
	o.b.mu.Lock()
	delete(o.b.open, o)
	o.b.mu.Unlock()
	err := o.under.Close()
	if d.fail {
		return errors.Join(&InjectedError{Event: d.ev, Var: d.variant}, err)
	}
	return err
}

var _ storage.ReadWriteBucket = (*Bucket)(nil)
