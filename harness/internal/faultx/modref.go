package faultx

import (
	"context"
	"encoding/hex"
	"fmt"
	"sort"
	"strings"

	"github.com/bufbuild/buf/private/bufpkg/bufmodule"
	"github.com/bufbuild/buf/private/bufpkg/bufparse"
	"github.com/bufbuild/buf/private/pkg/storage"
	"github.com/bufbuild/buf/private/pkg/storage/storagemem"
	"github.com/google/uuid"
	"golang.org/x/crypto/sha3"
)

// FileSpec describes one generated file: content = Content(Seed, Size).
type FileSpec struct {
	Path string `json:"path"`
	Size int    `json:"size"`
	Seed uint32 `json:"seed"`
}

// Data renders the file content.
func (f FileSpec) Data() []byte { return Content(f.Seed, f.Size) }

// DepSpec is one dependency module key.
type DepSpec struct {
	Name   string `json:"name"`   // registry/owner/name
	Commit string `json:"commit"` // uuid
	Digest string `json:"digest"` // b5:<hex> or shake256:<hex>
}

// ModuleSpec is a replayable description of one module data.
type ModuleSpec struct {
	Name       string     `json:"name"`   // registry/owner/name
	Commit     string     `json:"commit"` // uuid
	DigestType string     `json:"digest_type"`
	Files      []FileSpec `json:"files"`
	Deps       []DepSpec  `json:"deps,omitempty"`
	// BufYAMLName is the file name of the v1beta1/v1 configuration side object: "buf.yaml"
	// (also when empty) or the legacy, still supported "buf.mod".
	BufYAMLName string  `json:"buf_yaml_name,omitempty"`
	BufYAML     *string `json:"buf_yaml,omitempty"` // v1 buf.yaml side object
	BufLock     *string `json:"buf_lock,omitempty"` // v1 buf.lock side object
}

// FilesMap returns path -> content.
func (m ModuleSpec) FilesMap() map[string][]byte {
	out := make(map[string][]byte, len(m.Files))
	for _, f := range m.Files {
		out[f.Path] = f.Data()
	}
	return out
}

func shake256Hex(data []byte) string {
	out := make([]byte, 64)
	sha3.ShakeSum256(out, data)
	return hex.EncodeToString(out)
}

// HashCache memoizes the per-file shake256 of byte-identical contents (same path, same bytes) so
// that the reference digest of a served module that equals the original is not re-hashed for
// every read. It never changes a result.
type HashCache struct {
	byPath map[string]cachedHash
}

type cachedHash struct {
	data []byte
	hex  string
}

// NewHashCache pre-hashes the given files.
func NewHashCache(files ...map[string][]byte) *HashCache {
	c := &HashCache{byPath: map[string]cachedHash{}}
	for _, m := range files {
		for p, d := range m {
			c.byPath[p] = cachedHash{d, shake256Hex(d)}
		}
	}
	return c
}

func (c *HashCache) hash(path string, data []byte) string {
	if c != nil {
		if e, ok := c.byPath[path]; ok && bytesEqual(e.data, data) {
			return e.hex
		}
	}
	return shake256Hex(data)
}

func bytesEqual(a, b []byte) bool {
	if len(a) != len(b) {
		return false
	}
	for i := range a {
		if a[i] != b[i] {
			return false
		}
	}
	return true
}

// RefManifestDigest is the reference files digest: shake256 over the manifest text, one line
// "shake256:<hex of shake256(content)>  <path>\n" per file, sorted by path.
func RefManifestDigest(files map[string][]byte, cache ...*HashCache) string {
	var hc *HashCache
	if len(cache) > 0 {
		hc = cache[0]
	}
	var b strings.Builder
	for _, p := range SortedKeys(files) {
		b.WriteString("shake256:")
		b.WriteString(hc.hash(p, files[p]))
		b.WriteString("  ")
		b.WriteString(p)
		b.WriteString("\n")
	}
	return "shake256:" + shake256Hex([]byte(b.String()))
}

// RefB5Digest is the reference b5 module digest: shake256 over the files digest string followed
// by the sorted dependency digest strings, joined with "\n" (no trailing newline).
func RefB5Digest(files map[string][]byte, depDigests []string, cache ...*HashCache) string {
	deps := append([]string(nil), depDigests...)
	sort.Strings(deps)
	parts := append([]string{RefManifestDigest(files, cache...)}, deps...)
	return "b5:" + shake256Hex([]byte(strings.Join(parts, "\n")))
}

// RefB4Digest is the reference b4 digest: the manifest digest over the module files plus the v1
// buf.yaml / buf.lock side objects under their file names. Dependencies are not hashed.
func RefB4Digest(files map[string][]byte, side map[string][]byte, cache ...*HashCache) string {
	all := make(map[string][]byte, len(files)+len(side))
	for p, d := range files {
		all[p] = d
	}
	for p, d := range side {
		all[p] = d
	}
	return RefManifestDigest(all, cache...)
}

// ConfigName is the file name of the configuration side object.
func (m ModuleSpec) ConfigName() string {
	if m.BufYAMLName == "" {
		return "buf.yaml"
	}
	return m.BufYAMLName
}

// SideFiles returns the side objects by file name.
func (m ModuleSpec) SideFiles() map[string][]byte {
	out := map[string][]byte{}
	if m.BufYAML != nil {
		out[m.ConfigName()] = []byte(*m.BufYAML)
	}
	if m.BufLock != nil {
		out["buf.lock"] = []byte(*m.BufLock)
	}
	return out
}

// RefDigest is the reference digest string for the spec's digest type.
func (m ModuleSpec) RefDigest() string {
	if m.DigestType == "b4" {
		return RefB4Digest(m.FilesMap(), m.SideFiles())
	}
	deps := make([]string, len(m.Deps))
	for i, d := range m.Deps {
		deps[i] = d.Digest
	}
	return RefB5Digest(m.FilesMap(), deps)
}

// NewKey builds a ModuleKey from name, commit and digest string.
func NewKey(name, commit, digest string) (bufmodule.ModuleKey, error) {
	fullName, err := bufparse.ParseFullName(name)
	if err != nil {
		return nil, err
	}
	id, err := uuid.Parse(commit)
	if err != nil {
		return nil, err
	}
	d, err := bufmodule.ParseDigest(digest)
	if err != nil {
		return nil, err
	}
	return bufmodule.NewModuleKey(fullName, id, func() (bufmodule.Digest, error) { return d, nil })
}

// Key is the module key pinned to the reference digest.
func (m ModuleSpec) Key() (bufmodule.ModuleKey, error) {
	return NewKey(m.Name, m.Commit, m.RefDigest())
}

// DepKeys builds the dependency keys.
func (m ModuleSpec) DepKeys() ([]bufmodule.ModuleKey, error) {
	out := make([]bufmodule.ModuleKey, len(m.Deps))
	for i, d := range m.Deps {
		k, err := NewKey(d.Name, d.Commit, d.Digest)
		if err != nil {
			return nil, fmt.Errorf("dep %d: %w", i, err)
		}
		out[i] = k
	}
	return out, nil
}

// MemBucket puts files into a fresh in-memory bucket.
func MemBucket(ctx context.Context, files map[string][]byte) (storage.ReadWriteBucket, error) {
	b := storagemem.NewReadWriteBucket()
	for _, p := range SortedKeys(files) {
		if err := storage.PutPath(ctx, b, p, files[p]); err != nil {
			return nil, err
		}
	}
	return b, nil
}

// ModuleData builds the ModuleData a registry download would hand to the cache.
func (m ModuleSpec) ModuleData(ctx context.Context) (bufmodule.ModuleKey, bufmodule.ModuleData, error) {
	key, err := m.Key()
	if err != nil {
		return nil, nil, err
	}
	data, err := m.ModuleDataForKey(ctx, key)
	return key, data, err
}

// WithDigestType returns the same module (files, side objects, dependency names and commits)
// described for the other digest type: the dependency digests carry that type's prefix.
func (m ModuleSpec) WithDigestType(dt string) ModuleSpec {
	out := m
	out.DigestType = dt
	prefix := "b5:"
	if dt == "b4" {
		prefix = "shake256:"
	}
	out.Deps = make([]DepSpec, len(m.Deps))
	for i, d := range m.Deps {
		d.Digest = prefix + d.Digest[strings.IndexByte(d.Digest, ':')+1:]
		out.Deps[i] = d
	}
	return out
}

// ModuleDataForKey builds the ModuleData of this module bound to the REQUESTING key, as a
// registry download does: the key's pinned digest is what the data is verified against.
func (m ModuleSpec) ModuleDataForKey(ctx context.Context, key bufmodule.ModuleKey) (bufmodule.ModuleData, error) {
	_, data, err := m.moduleDataWithKey(ctx, key)
	return data, err
}

func (m ModuleSpec) moduleDataWithKey(ctx context.Context, key bufmodule.ModuleKey) (bufmodule.ModuleKey, bufmodule.ModuleData, error) {
	deps, err := m.DepKeys()
	if err != nil {
		return nil, nil, err
	}
	bucket, err := MemBucket(ctx, m.FilesMap())
	if err != nil {
		return nil, nil, err
	}
	var yamlObj, lockObj bufmodule.ObjectData
	if m.BufYAML != nil {
		if yamlObj, err = bufmodule.NewObjectData(m.ConfigName(), []byte(*m.BufYAML)); err != nil {
			return nil, nil, err
		}
	}
	if m.BufLock != nil {
		if lockObj, err = bufmodule.NewObjectData("buf.lock", []byte(*m.BufLock)); err != nil {
			return nil, nil, err
		}
	}
	data := bufmodule.NewModuleData(
		ctx,
		key,
		func() (storage.ReadBucket, error) { return bucket, nil },
		func() ([]bufmodule.ModuleKey, error) { return deps, nil },
		func() (bufmodule.ObjectData, error) { return yamlObj, nil },
		func() (bufmodule.ObjectData, error) { return lockObj, nil },
	)
	return key, data, nil
}

// ReadAll reads every object of a bucket into a map.
func ReadAll(ctx context.Context, b storage.ReadBucket) (map[string][]byte, error) {
	paths, err := storage.AllPaths(ctx, b, "")
	if err != nil {
		return nil, err
	}
	out := make(map[string][]byte, len(paths))
	for _, p := range paths {
		d, err := storage.ReadPath(ctx, b, p)
		if err != nil {
			return nil, fmt.Errorf("%s: %w", p, err)
		}
		out[p] = d
	}
	return out, nil
}
