package faultx

import (
	"bytes"
	"fmt"
	"io"
	"sync"
)

// Writer is an io.Writer that numbers its Write calls and can fail one of them (or everything
// after a byte budget). It keeps everything that was accepted in Buf.
type Writer struct {
	// FailCall >= 0: the Write call with this index fails. -1: none.
	FailCall int
	// Short: the failing call accepts the first half of its data before failing.
	Short bool
	// Sticky: every call after the failing one fails too (a dead device) instead of succeeding.
	Sticky bool
	// ByteBudget >= 0: accept at most this many bytes in total, then fail every call (the call
	// that crosses the budget is a short write). -1: unlimited.
	ByteBudget int

	mu     sync.Mutex
	Buf    bytes.Buffer
	calls  int
	failed bool
	sizes  []int
}

// NewWriter returns a counting writer that never fails.
func NewWriter() *Writer { return &Writer{FailCall: -1, ByteBudget: -1} }

// ErrWriter is the error of a failing Writer.
type ErrWriter struct {
	Call int
	Why  string
}

func (e *ErrWriter) Error() string {
	return fmt.Sprintf("faultx: injected writer failure at call %d (%s)", e.Call, e.Why)
}

func (w *Writer) Write(p []byte) (int, error) {
	w.mu.Lock()
	defer w.mu.Unlock()
	call := w.calls
	w.calls++
	w.sizes = append(w.sizes, len(p))
	if w.failed && w.Sticky {
		return 0, &ErrWriter{Call: call, Why: "sticky"}
	}
	if w.ByteBudget >= 0 && w.Buf.Len()+len(p) > w.ByteBudget {
		n := w.ByteBudget - w.Buf.Len()
		if n < 0 {
			n = 0
		}
		w.Buf.Write(p[:n])
		w.failed = true
		return n, &ErrWriter{Call: call, Why: "byte budget"}
	}
	if call == w.FailCall {
		w.failed = true
		n := 0
		if w.Short {
			n = len(p) / 2
			w.Buf.Write(p[:n])
		}
		return n, &ErrWriter{Call: call, Why: "fail call"}
	}
	return w.Buf.Write(p)
}

// Calls returns the number of Write calls seen.
func (w *Writer) Calls() int { w.mu.Lock(); defer w.mu.Unlock(); return w.calls }

// Failed reports whether the writer returned an injected error at least once.
func (w *Writer) Failed() bool { w.mu.Lock(); defer w.mu.Unlock(); return w.failed }

// Bytes returns what the writer accepted.
func (w *Writer) Bytes() []byte {
	w.mu.Lock()
	defer w.mu.Unlock()
	return append([]byte(nil), w.Buf.Bytes()...)
}

var _ io.Writer = (*Writer)(nil)

// ChunkReader is an io.Reader that hands out data in chunks of at most Chunk bytes and
// implements nothing else (so io.Copy cannot take a WriterTo shortcut).
type ChunkReader struct {
	Data  []byte
	Chunk int
	off   int
}

func (c *ChunkReader) Read(p []byte) (int, error) {
	if c.off >= len(c.Data) {
		return 0, io.EOF
	}
	n := len(p)
	if c.Chunk > 0 && n > c.Chunk {
		n = c.Chunk
	}
	if n > len(c.Data)-c.off {
		n = len(c.Data) - c.off
	}
	copy(p, c.Data[c.off:c.off+n])
	c.off += n
	return n, nil
}

// Content returns size bytes that are a deterministic function of (seed, size): a xorshift
// stream rendered as printable text with newlines (no math/rand).
func Content(seed uint32, size int) []byte {
	out := make([]byte, size)
	x := uint64(seed)*2654435761 + 0x9E3779B97F4A7C15
	if x == 0 {
		x = 1
	}
	const alpha = "abcdefghijklmnopqrstuvwxyz0123456789 ;={}"
	for i := range out {
		x ^= x << 13
		x ^= x >> 7
		x ^= x << 17
		if i%61 == 60 {
			out[i] = '\n'
		} else {
			out[i] = alpha[x%uint64(len(alpha))]
		}
	}
	return out
}
