package faultx

import (
	"io/fs"
	"os"
	"os/signal"
	"path/filepath"
	"sort"
	"sync"
	"syscall"
)

// SnapshotDir reads every regular file below dir (dot files included) into a map keyed by the
// slash-separated path relative to dir. It does not go through any bucket implementation.
func SnapshotDir(dir string) (map[string][]byte, error) {
	out := map[string][]byte{}
	err := filepath.WalkDir(dir, func(p string, d fs.DirEntry, err error) error {
		if err != nil {
			return err
		}
		if !d.Type().IsRegular() {
			return nil
		}
		rel, err := filepath.Rel(dir, p)
		if err != nil {
			return err
		}
		data, err := os.ReadFile(p)
		if err != nil {
			return err
		}
		out[filepath.ToSlash(rel)] = data
		return nil
	})
	return out, err
}

// SortedKeys returns the keys of m in sorted order.
func SortedKeys[V any](m map[string]V) []string {
	ks := make([]string, 0, len(m))
	for k := range m {
		ks = append(ks, k)
	}
	sort.Strings(ks)
	return ks
}

// SortedIntKeys returns the keys of m in increasing order.
func SortedIntKeys[V any](m map[int]V) []int {
	ks := make([]int, 0, len(m))
	for k := range m {
		ks = append(ks, k)
	}
	sort.Ints(ks)
	return ks
}

var (
	xfszOnce sync.Once
	rlimitMu sync.Mutex
)

// WithFileSizeLimit runs f while the process' soft RLIMIT_FSIZE is limit bytes, so that a
// write(2) that would grow a regular file beyond limit fails with EFBIG (after a short write up
// to the limit): a *real* write failure inside os.File. The limit is process wide, therefore f
// must be short, must not log to files, and nothing else may write files concurrently (one
// process per shard, tests are sequential). SIGXFSZ is ignored for the whole process.
func WithFileSizeLimit(limit uint64, f func()) error {
	xfszOnce.Do(func() { signal.Ignore(syscall.SIGXFSZ) })
	rlimitMu.Lock()
	defer rlimitMu.Unlock()
	var old syscall.Rlimit
	if err := syscall.Getrlimit(syscall.RLIMIT_FSIZE, &old); err != nil {
		return err
	}
	lim := old
	lim.Cur = limit
	if err := syscall.Setrlimit(syscall.RLIMIT_FSIZE, &lim); err != nil {
		return err
	}
	defer func() { _ = syscall.Setrlimit(syscall.RLIMIT_FSIZE, &old) }()
	f()
	return nil
}
