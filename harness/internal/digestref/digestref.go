// Package digestref is an independent re-implementation of buf's module digests, written from the
// published construction and NOT calling any bufbuild/buf helper:
//
//	file digest   = "shake256:" + hex(SHAKE256-512(content))
//	manifest      = for every file, sorted by path (byte order): <file digest> SP SP <path> LF
//	files digest  = "shake256:" + hex(SHAKE256-512(manifest text))
//	b5            = "b5:" + hex(SHAKE256-512(join("\n", files digest, sorted(b5 strings of all
//	                direct and transitive dependencies))))
//	b4            = "shake256:" + hex(SHAKE256-512(manifest over module files + the v1 buf.yaml and
//	                buf.lock objects under their file names))
//
// A module's files are: every path with extension ".proto", the root "LICENSE", and the first
// existing of the root files buf.md, README.md, README.markdown.
package digestref

import (
	"encoding/hex"
	"sort"
	"strings"

	"golang.org/x/crypto/sha3"
)

// DocFileOrder is the documented precedence of the documentation file.
var DocFileOrder = []string{"buf.md", "README.md", "README.markdown"}

func shake(data []byte) string {
	out := make([]byte, 64)
	sha3.ShakeSum256(out, data)
	return hex.EncodeToString(out)
}

// FileDigest is the content digest string of one file.
func FileDigest(content []byte) string { return "shake256:" + shake(content) }

// IsProto reports whether the path's extension is ".proto".
func IsProto(path string) bool {
	// The extension is the suffix of the last path element starting at its last dot; "proto"
	// contains neither a dot nor a slash, so this is a plain suffix test.
	return strings.HasSuffix(path, ".proto")
}

// ChosenDoc returns the documentation file that counts for this file set ("" if none).
func ChosenDoc(files map[string][]byte) string {
	for _, d := range DocFileOrder {
		if _, ok := files[d]; ok {
			return d
		}
	}
	return ""
}

// ModuleFiles filters a file set down to the files that make up the module.
func ModuleFiles(files map[string][]byte) map[string][]byte {
	out := map[string][]byte{}
	doc := ChosenDoc(files)
	for p, c := range files {
		if IsProto(p) || p == "LICENSE" || (doc != "" && p == doc) {
			out[p] = c
		}
	}
	return out
}

// ManifestText is the canonical manifest of a file set (all files given, unfiltered).
func ManifestText(files map[string][]byte) string {
	paths := make([]string, 0, len(files))
	for p := range files {
		paths = append(paths, p)
	}
	sort.Strings(paths)
	var b strings.Builder
	for _, p := range paths {
		b.WriteString(FileDigest(files[p]))
		b.WriteString("  ")
		b.WriteString(p)
		b.WriteByte('\n')
	}
	return b.String()
}

// FilesDigest is the digest string of the manifest of the module files of the set.
func FilesDigest(files map[string][]byte) string {
	return "shake256:" + shake([]byte(ManifestText(ModuleFiles(files))))
}

// B5 is the b5 module digest string; depB5 are the b5 strings of every direct and transitive
// dependency (any order, duplicates removed by the caller).
func B5(files map[string][]byte, depB5 []string) string {
	deps := append([]string(nil), depB5...)
	sort.Strings(deps)
	parts := append([]string{FilesDigest(files)}, deps...)
	return "b5:" + shake([]byte(strings.Join(parts, "\n")))
}

// B4 is the legacy digest: manifest over the module files plus the given extra objects
// (v1 buf.yaml / buf.lock under their file names); dependencies do not enter directly.
func B4(files map[string][]byte, objects map[string][]byte) string {
	all := ModuleFiles(files)
	for n, c := range objects {
		all[n] = c
	}
	return "shake256:" + shake([]byte(ManifestText(all)))
}
