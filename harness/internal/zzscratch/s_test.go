package zzscratch

import (
	"context"
	"fmt"
	"path/filepath"
	"testing"

	"github.com/bufbuild/bufverif/internal/bufcli"
)

func TestScratch(t *testing.T) {
	ctx := context.Background()
	tmp := t.TempDir()
	env := bufcli.Env(tmp)
	proto := "syntax = \"proto3\";\n\npackage acme.v1;\n\n// buf:lint:ignore ENUM_PASCAL_CASE\nenum legacy_kind {\n  LEGACY_KIND_UNSPECIFIED = 0;\n}\nservice FooAPI {}\n"
	files := map[string]string{
		"w2/buf.yaml":                "version: v2\nmodules:\n  - path: proto/m0\n    lint:\n      service_suffix: API\n  - path: mod1\nlint:\n  disallow_comment_ignores: true\n  ignore:\n    - mod1/acme\n    - does/not/exist\n",
		"w2/proto/m0/acme/v1/a.proto": proto,
		"w2/mod1/acme/v1/b.proto":     "syntax = \"proto3\";\n\npackage acme.v1;\n\nmessage foo {}\n",
		"w1/buf.work.yaml":           "version: v1\ndirectories:\n  - proto/m0\n  - mod1\n",
		"w1/proto/m0/buf.yaml":       "version: v1\nlint:\n  service_suffix: API\n  allow_comment_ignores: true\n",
		"w1/proto/m0/acme/v1/a.proto": proto,
		"w1/mod1/buf.yaml":           "version: v1beta1\nlint:\n  ignore:\n    - nope\n",
		"w1/mod1/acme/v1/b.proto":     "syntax = \"proto3\";\n\npackage acme.v1;\n\nmessage foo {}\n",
		"cfg.yaml":                   "version: v2\nlint:\n  use:\n    - STANDARD\n",
	}
	if err := bufcli.WriteFiles(tmp, files); err != nil {
		t.Fatal(err)
	}
	run := func(args ...string) {
		code, out, errs := bufcli.Run(ctx, env, "", args...)
		fmt.Printf("$ buf %v\nexit=%d\n%s--stderr: %s\n", args, code, out, errs)
	}
	run("lint", filepath.Join(tmp, "w2"), "--error-format=json")
	run("lint", filepath.Join(tmp, "w1"), "--error-format=json")
	run("lint", filepath.Join(tmp, "w1/proto/m0"), "--error-format=json")
	for _, enc := range []string{"binpb", "json", "txtpb"} {
		img := filepath.Join(tmp, "img."+enc)
		run("build", filepath.Join(tmp, "w2"), "-o", img)
		run("lint", img, "--error-format=json", "--config", `{"version":"v2"}`)
	}
	img := filepath.Join(tmp, "img.binpb")
	run("lint", img, "--error-format=json", "--config", filepath.Join(tmp, "cfg.yaml"))
	run("lint", img, "--error-format=json", "--config", `{"version":"v1","lint":{"use":["NOPE"]}}`)
	run("lint", img, "--error-format=json", "--config", `{"version":"v1","lint":{"use":["ENUM_PASCAL_CASE"],"except":["ENUM_PASCAL_CASE"]}}`)
	run("breaking", filepath.Join(tmp, "w2"), "--against", filepath.Join(tmp, "w1"), "--error-format=json")
	run("breaking", img, "--against", img, "--error-format=json", "--config", `{"version":"v2"}`)
}
