// Package evid is the shared bookkeeping of every check: counters, class
// histogram, distinct non-trivial set, samples, violations with replay files,
// known-finding classification and the per-shard evidence file.
//
// One Recorder per process (one process per property shard). The Python driver
// /verif/check merges the shard files into /verif/evidence/<id>.json.
package evid

import (
	"encoding/json"
	"flag"
	"fmt"
	"hash/fnv"
	"os"
	"path/filepath"
	"sort"
	"strconv"
	"strings"
	"sync"
	"testing"
	"time"

	"pgregory.net/rapid"
)

// Violation is one falsified oracle.
type Violation struct {
	Test    string `json:"test"`
	Key     string `json:"key"`
	Message string `json:"message"`
	Replay  string `json:"replay"`
}

type knownFinding struct {
	Property string `json:"property"`
	Key      string `json:"key"`
	What     string `json:"what"`
	Status   string `json:"status"`
}

// Recorder accumulates evidence for one process.
type Recorder struct {
	mu          sync.Mutex
	Property    string
	Tier        string
	Seed        int64
	Shard       int
	NShards     int
	start       time.Time
	evaluations int64
	distinct    map[uint64]struct{}
	classes     map[string]int64
	excluded    map[string]int64
	samples     []any
	sampleSeen  int64
	maxSamples  int
	violations  []Violation
	knownHits   map[string]int64
	knownOpen   map[string]string // key -> what
	lastFail    map[string]*failRec
	exhaustive  bool
	notes       []string
	replayDir   string
	outPath     string
	extra       map[string]any
	current     string
}

type failRec struct {
	key, msg string
	c        any
}

var global *Recorder

// R returns the process-wide recorder.
func R() *Recorder { return global }

func envInt(name string, def int64) int64 {
	if s := os.Getenv(name); s != "" {
		if v, err := strconv.ParseInt(s, 10, 64); err == nil {
			return v
		}
	}
	return def
}

// Main is called from TestMain of every property package.
func Main(m *testing.M, property string) {
	r := &Recorder{
		Property:   property,
		Tier:       os.Getenv("VERIF_TIER"),
		Seed:       envInt("VERIF_SEED", 1),
		Shard:      int(envInt("VERIF_SHARD", 0)),
		NShards:    int(envInt("VERIF_NSHARDS", 1)),
		start:      time.Now(),
		distinct:   map[uint64]struct{}{},
		classes:    map[string]int64{},
		excluded:   map[string]int64{},
		knownHits:  map[string]int64{},
		knownOpen:  map[string]string{},
		lastFail:   map[string]*failRec{},
		maxSamples: 5,
		replayDir:  os.Getenv("VERIF_REPLAY_DIR"),
		outPath:    os.Getenv("VERIF_OUT"),
		extra:      map[string]any{},
	}
	if r.Tier == "" {
		r.Tier = "quick"
	}
	if r.NShards < 1 {
		r.NShards = 1
	}
	if r.replayDir == "" {
		r.replayDir = "/verif/replay"
	}
	r.loadKnown()
	global = r
	flag.Parse()
	// Never let rapid replay or write its own fail files: runs are a pure function of the seed.
	_ = flag.Set("rapid.nofailfile", "true")
	_ = os.RemoveAll("testdata/rapid")
	code := m.Run()
	r.write()
	if len(r.violations) > 0 && code == 0 {
		code = 1
	}
	os.Exit(code)
}

func (r *Recorder) loadKnown() {
	path := os.Getenv("VERIF_KNOWN")
	if path == "" {
		path = "/verif/KNOWN_FINDINGS.json"
	}
	data, err := os.ReadFile(path)
	if err != nil {
		return
	}
	var doc struct {
		Findings []knownFinding `json:"findings"`
	}
	if err := json.Unmarshal(data, &doc); err != nil {
		return
	}
	for _, f := range doc.Findings {
		if f.Property == r.Property && f.Status == "open" {
			r.knownOpen[f.Key] = f.What
		}
	}
}

// Thorough reports whether this is the thorough tier.
func (r *Recorder) Thorough() bool { return r.Tier == "thorough" }

// ShardSeed is the PRNG seed for this shard (never 0, which rapid treats as random).
func (r *Recorder) ShardSeed(salt int) uint64 {
	s := uint64(r.Seed)*1000003 + uint64(r.Shard)*7919 + uint64(salt)*104729 + 1
	if s == 0 {
		s = 1
	}
	return s
}

// Scale picks the per-shard case count: quick or thorough total divided by the shards.
func (r *Recorder) Scale(quick, thorough int) int {
	n := quick
	if r.Thorough() {
		n = thorough
	}
	n = (n + r.NShards - 1) / r.NShards
	if n < 1 {
		n = 1
	}
	return n
}

// Pick returns quick or thorough.
func (r *Recorder) Pick(quick, thorough int) int {
	if r.Thorough() {
		return thorough
	}
	return quick
}

// Mine reports whether item i of an enumerated space belongs to this shard.
func (r *Recorder) Mine(i int) bool { return i%r.NShards == r.Shard }

// Eval counts one oracle evaluation.
func (r *Recorder) Eval() {
	r.mu.Lock()
	r.evaluations++
	r.mu.Unlock()
}

// EvalN counts n oracle evaluations.
func (r *Recorder) EvalN(n int) {
	r.mu.Lock()
	r.evaluations += int64(n)
	r.mu.Unlock()
}

// Hash is the canonical-encoding hash used for the distinct set.
func Hash(canon string) uint64 {
	h := fnv.New64a()
	_, _ = h.Write([]byte(canon))
	return h.Sum64()
}

// NonTrivial records a case that satisfies the property's non-triviality rule.
func (r *Recorder) NonTrivial(canon string) {
	h := Hash(canon)
	r.mu.Lock()
	r.distinct[h] = struct{}{}
	r.mu.Unlock()
}

// Class bumps a class-histogram counter.
func (r *Recorder) Class(name string) {
	r.mu.Lock()
	r.classes[name]++
	r.mu.Unlock()
}

// ClassN bumps a class-histogram counter by n.
func (r *Recorder) ClassN(name string, n int) {
	r.mu.Lock()
	r.classes[name] += int64(n)
	r.mu.Unlock()
}

// Excluded counts a case shape excluded by construction (open known finding).
func (r *Recorder) Excluded(key string) {
	r.mu.Lock()
	r.excluded[key]++
	r.mu.Unlock()
}

// Sample keeps a few actual cases (first ones, then sparse replacement, deterministic).
func (r *Recorder) Sample(v any) {
	r.mu.Lock()
	defer r.mu.Unlock()
	r.sampleSeen++
	if len(r.samples) < r.maxSamples {
		r.samples = append(r.samples, v)
		return
	}
	// deterministic sparse replacement: powers of 4
	n := r.sampleSeen
	if n&(n-1) == 0 && bitsLen(n)%2 == 1 {
		r.samples[int(bitsLen(n)/2)%r.maxSamples] = v
	}
}

func bitsLen(n int64) int {
	l := 0
	for n > 0 {
		l++
		n >>= 1
	}
	return l
}

// SetExhaustive marks the run as a complete enumeration of a finite space.
func (r *Recorder) SetExhaustive(b bool) { r.mu.Lock(); r.exhaustive = b; r.mu.Unlock() }

// Note adds a free-text note to the evidence.
func (r *Recorder) Note(s string) { r.mu.Lock(); r.notes = append(r.notes, s); r.mu.Unlock() }

// Extra sets an extra coverage key.
func (r *Recorder) Extra(k string, v any) { r.mu.Lock(); r.extra[k] = v; r.mu.Unlock() }

// IsKnown reports whether key is an open known finding of this property.
func (r *Recorder) IsKnown(key string) bool {
	r.mu.Lock()
	defer r.mu.Unlock()
	_, ok := r.knownOpen[key]
	return ok
}

// TB is the subset of testing.TB / rapid.T that the recorder needs.
type TB interface {
	Fatalf(format string, args ...any)
	Helper()
}

// Fail records a falsified oracle. key classifies the failure by root-cause trigger; c is the
// failing case (JSON-serialisable) that becomes the replay file. If key is an open known finding
// the hit is counted and Fail returns true without failing the test (the caller should stop
// checking this case and return); otherwise the test is failed (rapid shrinks, and the last
// recorded case per test — the minimal one — is written as the replay file).
func (r *Recorder) Fail(t TB, key, msg string, c any) bool {
	t.Helper()
	r.mu.Lock()
	test := r.current
	if _, ok := r.knownOpen[key]; ok {
		r.knownHits[key]++
		r.mu.Unlock()
		return true
	}
	r.lastFail[test] = &failRec{key: key, msg: msg, c: c}
	r.mu.Unlock()
	t.Fatalf("VERIF-FAIL key=%s: %s", key, msg)
	return false
}

// KnownObserved records that the directed regression for an open known finding still fails.
func (r *Recorder) KnownObserved(key string) {
	r.mu.Lock()
	r.knownHits[key]++
	r.mu.Unlock()
}

// Flush turns the last recorded failure of a test into a violation with a replay file.
// Call it (deferred) from the top-level test function that ran rapid.Check.
func (r *Recorder) Flush(test string) {
	r.mu.Lock()
	defer r.mu.Unlock()
	f := r.lastFail[test]
	if f == nil {
		return
	}
	delete(r.lastFail, test)
	_ = os.MkdirAll(r.replayDir, 0o755)
	name := fmt.Sprintf("%s-%s-seed%d-shard%d.json", r.Property, sanitize(test), r.Seed, r.Shard)
	path := filepath.Join(r.replayDir, name)
	doc := map[string]any{
		"property": r.Property,
		"test":     test,
		"key":      f.key,
		"message":  f.msg,
		"case":     f.c,
	}
	data, err := json.MarshalIndent(doc, "", " ")
	if err != nil {
		data, _ = json.MarshalIndent(map[string]any{
			"property": r.Property, "test": test, "key": f.key, "message": f.msg,
			"case": fmt.Sprintf("%+v", f.c),
		}, "", " ")
	}
	_ = os.WriteFile(path, data, 0o644)
	r.violations = append(r.violations, Violation{Test: test, Key: f.key, Message: trunc(f.msg, 2000), Replay: path})
}

func sanitize(s string) string {
	return strings.Map(func(c rune) rune {
		if c >= 'a' && c <= 'z' || c >= 'A' && c <= 'Z' || c >= '0' && c <= '9' || c == '_' || c == '-' {
			return c
		}
		return '_'
	}, s)
}

func trunc(s string, n int) string {
	if len(s) > n {
		return s[:n] + "…"
	}
	return s
}

// Check runs a rapid property with the given number of cases under the shard seed and flushes
// failures of that test into violations.
func (r *Recorder) Check(t *testing.T, checks int, salt int, prop func(*rapid.T)) {
	t.Helper()
	_ = flag.Set("rapid.checks", strconv.Itoa(checks))
	_ = flag.Set("rapid.seed", strconv.FormatUint(r.ShardSeed(salt), 10))
	defer r.Begin(t)()
	rapid.Check(t, prop)
}

// Begin marks t as the test that subsequent Fail calls belong to; the returned function flushes
// its last failure into a violation + replay file. Use as `defer r.Begin(t)()`.
func (r *Recorder) Begin(t *testing.T) func() {
	name := t.Name()
	r.mu.Lock()
	r.current = name
	r.mu.Unlock()
	return func() { r.Flush(name) }
}

// ReplayCase loads the "case" member of a replay file into v. Returns false if no replay is requested.
func ReplayCase(v any) (bool, error) {
	path := os.Getenv("VERIF_REPLAY")
	if path == "" {
		return false, nil
	}
	data, err := os.ReadFile(path)
	if err != nil {
		return true, err
	}
	var doc struct {
		Case json.RawMessage `json:"case"`
	}
	if err := json.Unmarshal(data, &doc); err != nil {
		return true, err
	}
	return true, json.Unmarshal(doc.Case, v)
}

// ReplayTest returns the test name recorded in the replay file, if any.
func ReplayTest() string {
	path := os.Getenv("VERIF_REPLAY")
	if path == "" {
		return ""
	}
	data, err := os.ReadFile(path)
	if err != nil {
		return ""
	}
	var doc struct {
		Test string `json:"test"`
	}
	_ = json.Unmarshal(data, &doc)
	return doc.Test
}

type shardDoc struct {
	Property    string            `json:"property"`
	Tier        string            `json:"tier"`
	Seed        int64             `json:"seed"`
	Shard       int               `json:"shard"`
	NShards     int               `json:"nshards"`
	Evaluations int64             `json:"evaluations"`
	Distinct    []string          `json:"distinct"`
	Classes     map[string]int64  `json:"classes"`
	Excluded    map[string]int64  `json:"excluded"`
	Samples     []any             `json:"samples"`
	Violations  []Violation       `json:"violations"`
	KnownHits   map[string]int64  `json:"known_hits"`
	KnownWhat   map[string]string `json:"known_what"`
	Exhaustive  bool              `json:"exhaustive"`
	Notes       []string          `json:"notes"`
	Extra       map[string]any    `json:"extra"`
	WallS       float64           `json:"wall_s"`
}

func (r *Recorder) write() {
	r.mu.Lock()
	defer r.mu.Unlock()
	if r.outPath == "" {
		return
	}
	d := shardDoc{
		Property: r.Property, Tier: r.Tier, Seed: r.Seed, Shard: r.Shard, NShards: r.NShards,
		Evaluations: r.evaluations, Classes: r.classes, Excluded: r.excluded, Samples: r.samples,
		Violations: r.violations, KnownHits: r.knownHits, KnownWhat: map[string]string{},
		Exhaustive: r.exhaustive, Notes: r.notes, Extra: r.extra,
		WallS: time.Since(r.start).Seconds(),
	}
	for k := range r.knownHits {
		d.KnownWhat[k] = r.knownOpen[k]
	}
	for h := range r.distinct {
		d.Distinct = append(d.Distinct, strconv.FormatUint(h, 36))
	}
	sort.Strings(d.Distinct)
	data, err := json.Marshal(d)
	if err != nil {
		// samples not serialisable: degrade to strings
		for i, s := range d.Samples {
			d.Samples[i] = fmt.Sprintf("%+v", s)
		}
		data, _ = json.Marshal(d)
	}
	_ = os.WriteFile(r.outPath, data, 0o644)
}
