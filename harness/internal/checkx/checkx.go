// Package checkx wraps bufcheck.Client construction and configuration building for the
// lint/breaking checks.
package checkx

import (
	"context"
	"sync"

	"github.com/bufbuild/buf/private/bufpkg/bufcheck"
	"github.com/bufbuild/buf/private/bufpkg/bufconfig"
	"github.com/bufbuild/buf/private/bufpkg/bufimage"
	"github.com/bufbuild/buf/private/bufpkg/bufplugin"
	"github.com/bufbuild/buf/private/pkg/wasm"
	"github.com/bufbuild/bufverif/internal/bufx"
)

var (
	once   sync.Once
	client bufcheck.Client
	cerr   error
)

// Client returns the process-wide check client (creation is the expensive part).
func Client() (bufcheck.Client, error) {
	once.Do(func() {
		client, cerr = bufcheck.NewClient(bufx.Logger, bufcheck.NewLocalRunnerProvider(wasm.UnimplementedRuntime, bufplugin.NopPluginKeyProvider, bufplugin.NopPluginDataProvider))
	})
	return client, cerr
}

// FileVersion parses "v1beta1" | "v1" | "v2".
func FileVersion(v string) bufconfig.FileVersion {
	switch v {
	case "v1beta1":
		return bufconfig.FileVersionV1Beta1
	case "v1":
		return bufconfig.FileVersionV1
	}
	return bufconfig.FileVersionV2
}

// BreakingConfig builds a breaking config using the given ids/categories.
func BreakingConfig(version string, use, except, ignore []string, ignoreOnly map[string][]string, ignoreUnstable bool) (bufconfig.BreakingConfig, error) {
	cc, err := bufconfig.NewEnabledCheckConfig(FileVersion(version), use, except, ignore, ignoreOnly, false)
	if err != nil {
		return nil, err
	}
	return bufconfig.NewBreakingConfig(cc, ignoreUnstable), nil
}

// LintOptions are the lint rule options.
type LintOptions struct {
	EnumZeroValueSuffix string `json:"enum_zero_value_suffix,omitempty"`
	RPCAllowSame        bool   `json:"rpc_allow_same_request_response,omitempty"`
	RPCAllowEmptyReq    bool   `json:"rpc_allow_google_protobuf_empty_requests,omitempty"`
	RPCAllowEmptyResp   bool   `json:"rpc_allow_google_protobuf_empty_responses,omitempty"`
	ServiceSuffix       string `json:"service_suffix,omitempty"`
	AllowCommentIgnores bool   `json:"allow_comment_ignores,omitempty"`
}

// LintConfig builds a lint config.
func LintConfig(version string, use, except, ignore []string, ignoreOnly map[string][]string, o LintOptions) (bufconfig.LintConfig, error) {
	cc, err := bufconfig.NewEnabledCheckConfig(FileVersion(version), use, except, ignore, ignoreOnly, false)
	if err != nil {
		return nil, err
	}
	return bufconfig.NewLintConfig(cc, o.EnumZeroValueSuffix, o.RPCAllowSame, o.RPCAllowEmptyReq, o.RPCAllowEmptyResp, o.ServiceSuffix, o.AllowCommentIgnores), nil
}

// Breaking runs the breaking check and flattens the result.
func Breaking(ctx context.Context, cfg bufconfig.BreakingConfig, image, against bufimage.Image) ([]bufx.Ann, error) {
	c, err := Client()
	if err != nil {
		return nil, err
	}
	return bufx.Annotations(c.Breaking(ctx, cfg, image, against))
}

// Lint runs the lint check and flattens the result.
func Lint(ctx context.Context, cfg bufconfig.LintConfig, image bufimage.Image) ([]bufx.Ann, error) {
	c, err := Client()
	if err != nil {
		return nil, err
	}
	return bufx.Annotations(c.Lint(ctx, cfg, image))
}
