package bucketmodel

import (
	"os"
	"testing"
)

// FastScratchDir returns a fresh directory for worlds that are created, listed and torn down
// hundreds of thousands of times. It prefers a memory file system (/dev/shm) because fourteen
// shards doing metadata operations on one journalled file system serialise on its journal; the
// fallback is t.TempDir(). The directory is removed when the test ends.
// Set VERIF_NO_SHM=1 to force the fallback. The second result names the file system used.
func FastScratchDir(t testing.TB) (string, string) {
	if os.Getenv("VERIF_NO_SHM") == "" {
		if fi, err := os.Stat("/dev/shm"); err == nil && fi.IsDir() {
			if dir, err := os.MkdirTemp("/dev/shm", "bufverif-*"); err == nil {
				t.Cleanup(func() { _ = os.RemoveAll(dir) })
				return dir, "tmpfs:/dev/shm"
			}
		}
	}
	return t.TempDir(), "TMPDIR"
}
