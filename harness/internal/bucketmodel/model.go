// Package bucketmodel is the reference side of the storage checks: a bucket is a map from
// normalised relative path to bytes, and every combinator of private/pkg/storage (prefix map,
// filter with a matcher expression, union with duplicate detection, overlay, external-path strip)
// is a pure function on such maps, written here from the documentation of the combinators and
// without using buf's normalpath or path/filepath.
package bucketmodel

import (
	"sort"
	"strings"

	"github.com/bufbuild/buf/private/pkg/storage"
	"github.com/bufbuild/bufverif/internal/pathgen"
)

// Model is the reference bucket: normalised relative path -> content.
type Model map[string][]byte

// Clone copies the map (contents are shared, they are never mutated).
func (m Model) Clone() Model {
	out := make(Model, len(m))
	for k, v := range m {
		out[k] = v
	}
	return out
}

// Keys returns the sorted paths.
func (m Model) Keys() []string {
	ks := make([]string, 0, len(m))
	for k := range m {
		ks = append(ks, k)
	}
	sort.Strings(ks)
	return ks
}

// Under returns the sorted paths that are path-wise under (or equal to) the normalised prefix.
func (m Model) Under(prefix string) []string {
	var ks []string
	for k := range m {
		if pathgen.Under(prefix, k) {
			ks = append(ks, k)
		}
	}
	sort.Strings(ks)
	return ks
}

// DeleteAll removes everything path-wise under (or equal to) the normalised prefix.
func (m Model) DeleteAll(prefix string) {
	for k := range m {
		if pathgen.Under(prefix, k) {
			delete(m, k)
		}
	}
}

// PrefixFree reports whether no path is a directory prefix of another (a disk bucket cannot hold
// a file "a" and a file "a/b").
func PrefixFree(keys []string) bool {
	set := map[string]bool{}
	for _, k := range keys {
		set[k] = true
	}
	for _, k := range keys {
		for _, anc := range Ancestors(k) {
			if set[anc] {
				return false
			}
		}
	}
	return true
}

// Ancestors returns the proper directory prefixes of a normalised path: "a/b/c" -> ["a", "a/b"].
func Ancestors(path string) []string {
	var out []string
	for i := 0; i < len(path); i++ {
		if path[i] == '/' {
			out = append(out, path[:i])
		}
	}
	return out
}

// ---------------------------------------------------------------------------------------------
// matcher expressions

// Matcher is a serialisable matcher expression together with its reference semantics.
type Matcher struct {
	Kind string     `json:"kind"` // ext | base | equal | equal-or-contained | contained | or | and | not
	Arg  string     `json:"arg,omitempty"`
	Subs []*Matcher `json:"subs,omitempty"`
}

func lastComponent(path string) string {
	if i := strings.LastIndexByte(path, '/'); i >= 0 {
		return path[i+1:]
	}
	return path
}

// Match is the documented meaning of the expression for a normalised path.
func (m *Matcher) Match(path string) bool {
	switch m.Kind {
	case "ext": // "the extension": from the last dot of the last component
		base := lastComponent(path)
		i := strings.LastIndexByte(base, '.')
		if i < 0 {
			return m.Arg == ""
		}
		return base[i:] == m.Arg
	case "base":
		return lastComponent(path) == m.Arg
	case "equal":
		return path == m.Arg
	case "equal-or-contained":
		return pathgen.Under(m.Arg, path)
	case "contained":
		return pathgen.StrictlyUnder(m.Arg, path)
	case "or":
		for _, s := range m.Subs {
			if s.Match(path) {
				return true
			}
		}
		return false
	case "and":
		for _, s := range m.Subs {
			if !s.Match(path) {
				return false
			}
		}
		return true
	case "not":
		return !m.Subs[0].Match(path)
	}
	panic("harness: unknown matcher kind " + m.Kind)
}

// Build constructs the storage.Matcher under test.
func (m *Matcher) Build() storage.Matcher {
	subs := func() []storage.Matcher {
		out := make([]storage.Matcher, len(m.Subs))
		for i, s := range m.Subs {
			out[i] = s.Build()
		}
		return out
	}
	switch m.Kind {
	case "ext":
		return storage.MatchPathExt(m.Arg)
	case "base":
		return storage.MatchPathBase(m.Arg)
	case "equal":
		return storage.MatchPathEqual(m.Arg)
	case "equal-or-contained":
		return storage.MatchPathEqualOrContained(m.Arg)
	case "contained":
		return storage.MatchPathContained(m.Arg)
	case "or":
		return storage.MatchOr(subs()...)
	case "and":
		return storage.MatchAnd(subs()...)
	case "not":
		return storage.MatchNot(m.Subs[0].Build())
	}
	panic("harness: unknown matcher kind " + m.Kind)
}

// ---------------------------------------------------------------------------------------------
// read views

// View is a serialisable tree of read-side combinators over numbered base stores.
type View struct {
	Kind    string   `json:"kind"` // store | map | filter | union | overlay | strip
	Store   int      `json:"store,omitempty"`
	Prefix  string   `json:"prefix,omitempty"`
	Matcher *Matcher `json:"matcher,omitempty"`
	Subs    []*View  `json:"subs,omitempty"`
}

// RefView is what a view must look like.
//
//	Objs:    get/stat succeed with exactly these bytes
//	Dups:    get/stat must report an error that is not "not exist" (the path is in two members of a union)
//	WalkErr: a Walk whose prefix contains one of these paths must return an error
//
// Every other path does not exist. A Walk with no WalkErr path under its prefix visits exactly the
// Objs paths under the prefix, each once.
type RefView struct {
	Objs    Model
	Dups    map[string]bool
	WalkErr map[string]bool
}

// AllKeys returns every path the view knows about in any role, sorted.
func (r RefView) AllKeys() []string {
	set := map[string]bool{}
	for k := range r.Objs {
		set[k] = true
	}
	for k := range r.Dups {
		set[k] = true
	}
	for k := range r.WalkErr {
		set[k] = true
	}
	ks := make([]string, 0, len(set))
	for k := range set {
		ks = append(ks, k)
	}
	sort.Strings(ks)
	return ks
}

// WalkMustFail reports whether a walk under the normalised prefix meets a duplicate.
func (r RefView) WalkMustFail(prefix string) bool {
	for k := range r.WalkErr {
		if pathgen.Under(prefix, k) {
			return true
		}
	}
	return false
}

// Ref evaluates the view on the models of the base stores.
func (v *View) Ref(models []Model) RefView {
	out := RefView{Objs: Model{}, Dups: map[string]bool{}, WalkErr: map[string]bool{}}
	switch v.Kind {
	case "store":
		out.Objs = models[v.Store].Clone()
	case "strip":
		return v.Subs[0].Ref(models)
	case "map": // the view behaves as if the bucket had been created on the prefix
		c := v.Subs[0].Ref(models)
		for k, d := range c.Objs {
			if pathgen.StrictlyUnder(v.Prefix, k) {
				out.Objs[pathgen.Rel(v.Prefix, k)] = d
			}
		}
		for k := range c.Dups {
			if pathgen.StrictlyUnder(v.Prefix, k) {
				out.Dups[pathgen.Rel(v.Prefix, k)] = true
			}
		}
		for k := range c.WalkErr {
			if pathgen.StrictlyUnder(v.Prefix, k) {
				out.WalkErr[pathgen.Rel(v.Prefix, k)] = true
			}
		}
	case "filter": // the view behaves as if it only contained matching paths
		c := v.Subs[0].Ref(models)
		for k, d := range c.Objs {
			if v.Matcher.Match(k) {
				out.Objs[k] = d
			}
		}
		for k := range c.Dups {
			if v.Matcher.Match(k) {
				out.Dups[k] = true
			}
		}
		// the member below still meets its duplicates while walking, matched or not
		out.WalkErr = c.WalkErr
	case "union": // logically unique members; a path in two members is an error, not a choice
		count := map[string]int{}
		for _, s := range v.Subs {
			c := s.Ref(models)
			for k, d := range c.Objs {
				count[k]++
				out.Objs[k] = d
			}
			for k := range c.Dups {
				out.Dups[k] = true
			}
			for k := range c.WalkErr {
				out.WalkErr[k] = true
			}
		}
		for k, n := range count {
			if n > 1 {
				out.Dups[k] = true
				out.WalkErr[k] = true
			}
		}
		for k := range out.Dups {
			delete(out.Objs, k)
		}
	case "overlay": // the first member that has the path wins
		decided := map[string]bool{}
		for _, s := range v.Subs {
			c := s.Ref(models)
			for k := range c.Dups {
				if !decided[k] {
					decided[k] = true
					out.Dups[k] = true
				}
			}
			for k, d := range c.Objs {
				if !decided[k] {
					decided[k] = true
					out.Objs[k] = d
				}
			}
			for k := range c.WalkErr {
				out.WalkErr[k] = true
			}
		}
	default:
		panic("harness: unknown view kind " + v.Kind)
	}
	return out
}

// Build constructs the combinator stack under test over the given base buckets.
func (v *View) Build(stores []storage.ReadBucket) storage.ReadBucket {
	subs := func() []storage.ReadBucket {
		out := make([]storage.ReadBucket, len(v.Subs))
		for i, s := range v.Subs {
			out[i] = s.Build(stores)
		}
		return out
	}
	switch v.Kind {
	case "store":
		return stores[v.Store]
	case "strip":
		return storage.StripReadBucketExternalPaths(v.Subs[0].Build(stores))
	case "map":
		return storage.MapReadBucket(v.Subs[0].Build(stores), storage.MapOnPrefix(v.Prefix))
	case "filter":
		return storage.FilterReadBucket(v.Subs[0].Build(stores), v.Matcher.Build())
	case "union":
		return storage.MultiReadBucket(subs()...)
	case "overlay":
		return storage.OverlayReadBucket(subs()...)
	}
	panic("harness: unknown view kind " + v.Kind)
}

// HasKind reports whether the tree contains a node of the kind.
func (v *View) HasKind(kind string) bool {
	if v.Kind == kind {
		return true
	}
	for _, s := range v.Subs {
		if s.HasKind(kind) {
			return true
		}
	}
	return false
}

// Depth is the number of combinators on the longest branch.
func (v *View) Depth() int {
	d := 0
	for _, s := range v.Subs {
		if sd := s.Depth(); sd > d {
			d = sd
		}
	}
	if v.Kind == "store" {
		return 0
	}
	return d + 1
}
