// Package pathgen is the path-string side of the storage checks (C13, C14): a pure reference
// normaliser written from the documented bucket path rules ("cleaned, to-slash'ed, relative, must
// not jump the bucket context"), the bounded-exhaustive path enumeration of DESIGN §3.2 and rapid
// generators for longer hostile strings and for alternative spellings of a plain path.
//
// Nothing in here imports path, path/filepath or buf's normalpath: the point of the reference is
// to be independent of them.
package pathgen

import (
	"strings"

	"pgregory.net/rapid"
)

// Verdict classifies a path string lexically (unix rules: "/" is the only separator).
type Verdict int

const (
	// OK : relative and stays inside the directory it is interpreted in.
	OK Verdict = iota
	// Escapes : relative, but climbs above its starting directory at some point ("..", "a/../..").
	Escapes
	// Absolute : starts with a separator.
	Absolute
)

func (v Verdict) String() string {
	switch v {
	case OK:
		return "ok"
	case Escapes:
		return "escapes"
	default:
		return "absolute"
	}
}

// Hostile reports whether a bucket must reject the path.
func (v Verdict) Hostile() bool { return v != OK }

// RefNormalize is the reference normal form of a path: components are separated by "/", empty and
// "." components vanish, ".." removes the component before it. A ".." with nothing left to remove
// makes a relative path escape (the normal form then starts with ".."), and is dropped for an
// absolute path. The normal form of a path without components is "." ("/" if absolute).
func RefNormalize(p string) (string, Verdict) {
	abs := len(p) > 0 && p[0] == '/'
	var stack []string
	ups := 0
	start := 0
	for i := 0; i <= len(p); i++ {
		if i < len(p) && p[i] != '/' {
			continue
		}
		comp := p[start:i]
		start = i + 1
		switch comp {
		case "", ".":
		case "..":
			if len(stack) > 0 {
				stack = stack[:len(stack)-1]
			} else if !abs {
				ups++
			}
		default:
			stack = append(stack, comp)
		}
	}
	var parts []string
	for i := 0; i < ups; i++ {
		parts = append(parts, "..")
	}
	parts = append(parts, stack...)
	norm := strings.Join(parts, "/")
	switch {
	case abs:
		return "/" + norm, Absolute
	case ups > 0:
		return norm, Escapes
	case norm == "":
		return ".", OK
	default:
		return norm, OK
	}
}

// Ups is the number of levels a relative path climbs above its starting directory (0 for absolute).
func Ups(p string) int {
	n, v := RefNormalize(p)
	if v != Escapes {
		return 0
	}
	c := 0
	for _, comp := range strings.Split(n, "/") {
		if comp == ".." {
			c++
		}
	}
	return c
}

// Split returns the components of a normal form ("." has none).
func Split(norm string) []string {
	if norm == "." || norm == "" {
		return nil
	}
	return strings.Split(norm, "/")
}

// Under reports whether the normalised relative path lies path-wise under (or equals) the
// normalised relative prefix: "a/b" and "a" are under "a", "ab" is not; everything is under ".".
func Under(prefix, path string) bool {
	if prefix == "." || prefix == "" {
		return true
	}
	if path == prefix {
		return true
	}
	return len(path) > len(prefix) && path[:len(prefix)] == prefix && path[len(prefix)] == '/'
}

// StrictlyUnder is Under without equality.
func StrictlyUnder(prefix, path string) bool { return path != prefix && Under(prefix, path) }

// Rel re-roots a normalised path that is Under(prefix): Rel("a","a/b/c") = "b/c"; the prefix itself
// gives ".".
func Rel(prefix, path string) string {
	if prefix == "." || prefix == "" {
		return path
	}
	if path == prefix {
		return "."
	}
	return path[len(prefix)+1:]
}

// JoinNorm joins two normalised relative paths.
func JoinNorm(a, b string) string {
	switch {
	case a == "." || a == "":
		if b == "" {
			return "."
		}
		return b
	case b == "." || b == "":
		return a
	default:
		return a + "/" + b
	}
}

// StripComponents drops the first k components of a normal form; ok=false when nothing is left
// (documented behaviour of tar --strip-components style options).
func StripComponents(norm string, k int) (string, bool) {
	comps := Split(norm)
	if k == 0 {
		return norm, true
	}
	if len(comps) <= k {
		return "", false
	}
	return strings.Join(comps[k:], "/"), true
}

// Alphabet is the component alphabet of the bounded-exhaustive sweep (DESIGN §3.2).
var Alphabet = []string{"a", "b", ".", "..", "", "a.b", "..a"}

// Enumerate returns every distinct string obtained by joining 1..maxComponents alphabet components
// with "/", each also with a leading and/or trailing "/". Shorter sequences come first, so the
// first failing string of a sweep is a short one. The order is fixed.
func Enumerate(maxComponents int) []string {
	seen := map[string]struct{}{}
	var out []string
	add := func(s string) {
		if _, ok := seen[s]; ok {
			return
		}
		seen[s] = struct{}{}
		out = append(out, s)
	}
	var level []string // joined sequences of the current length
	level = append(level, Alphabet...)
	for n := 1; n <= maxComponents; n++ {
		for _, s := range level {
			add(s)
			add("/" + s)
			add(s + "/")
			add("/" + s + "/")
		}
		if n == maxComponents {
			break
		}
		next := make([]string, 0, len(level)*len(Alphabet))
		for _, s := range level {
			for _, c := range Alphabet {
				next = append(next, s+"/"+c)
			}
		}
		level = next
	}
	return out
}

// RawCount is the number of (sequence, slash-variant) pairs Enumerate goes through before
// removing duplicates.
func RawCount(maxComponents int) int {
	total, p := 0, 1
	for n := 1; n <= maxComponents; n++ {
		p *= len(Alphabet)
		total += 4 * p
	}
	return total
}

// odd components for the random generator: unicode, spaces (single and doubled), backslashes,
// NUL-free control characters, dot look-alikes, a windows drive.
var oddComponents = []string{
	"a", "b", "in.txt", "a.b", "..a", "...", "..b.", ". .", " ", "  ", "a b", "a  b", " a", "a ",
	"\\", "..\\", "..\\..\\x", "a\\b", "\\..", "C:", "C:\\x", "é", "ü.txt", "日本", "\u202e", "\u2026",
	"\u2025", "\uff0e\uff0e", "\t", "\x01", "a\nb", "\r", "~", "%2e%2e", "%2f", "*", "?", "._x", "-", "--", "$HOME",
}

// GenComponent draws one path component that contains no "/" and no NUL.
func GenComponent() *rapid.Generator[string] {
	return rapid.OneOf(
		rapid.SampledFrom(oddComponents),
		rapid.SampledFrom([]string{"a", "b", "in.txt", "a.b", "..a"}),
		rapid.StringOfN(rapid.RuneFrom([]rune{'a', 'b', '.', ' ', '\\', 'é', '\t', '-', '日', '\u200b', ':', '~'}), 1, 6, -1),
	)
}

// GenHostilePath draws a path of up to 12 components. At most maxUps components are ".." so that
// even a bucket without any validation stays inside a scratch world that is maxUps levels deep.
func GenHostilePath(maxUps int) *rapid.Generator[string] {
	return rapid.Custom(func(t *rapid.T) string {
		n := rapid.IntRange(1, 12).Draw(t, "ncomp")
		ups := rapid.IntRange(0, maxUps).Draw(t, "ups")
		comps := make([]string, n)
		for i := range comps {
			switch rapid.IntRange(0, 9).Draw(t, "ckind") {
			case 0:
				comps[i] = ""
			case 1, 2:
				comps[i] = "."
			case 3, 4, 5:
				if ups > 0 {
					ups--
					comps[i] = ".."
				} else {
					comps[i] = GenComponent().Draw(t, "comp")
				}
			default:
				comps[i] = GenComponent().Draw(t, "comp")
			}
		}
		s := strings.Join(comps, "/")
		switch rapid.IntRange(0, 7).Draw(t, "slashes") {
		case 0:
			s = "/" + s
		case 1:
			s = s + "/"
		case 2:
			s = "/" + s + "/"
		case 3:
			s = "./" + s
		}
		return s
	})
}

// Respell draws an alternative spelling of the plain normalised relative path norm (never "."):
// "./" prefixes, doubled separators, "/./", "x/../" detours and a trailing "/". The reference
// normal form of the result is norm again (callers may assert that as a harness self-check).
func Respell(t *rapid.T, norm string) string {
	comps := Split(norm)
	var b strings.Builder
	if rapid.IntRange(0, 3).Draw(t, "lead") == 0 {
		b.WriteString("./")
	}
	for i, c := range comps {
		if i > 0 {
			switch rapid.IntRange(0, 5).Draw(t, "sep") {
			case 0:
				b.WriteString("//")
			case 1:
				b.WriteString("/./")
			case 2:
				b.WriteString("/zz/../")
			case 3:
				b.WriteString("/./zz/..//")
			default:
				b.WriteString("/")
			}
		}
		b.WriteString(c)
	}
	switch rapid.IntRange(0, 5).Draw(t, "trail") {
	case 0:
		b.WriteString("/")
	case 1:
		b.WriteString("/.")
	case 2:
		b.WriteString("/zz/..")
	}
	return b.String()
}
