// Package refcompile calls the Protobuf compiler (protocompile) directly, without any of buf's
// module/image machinery: the reference for "what the compiler produces for that source text".
package refcompile

import (
	"context"
	"errors"
	"io"
	"os"
	"sort"
	"strings"

	"github.com/bufbuild/buf/private/gen/data/datawkt"
	"github.com/bufbuild/protocompile"
	"github.com/bufbuild/protocompile/linker"
	"github.com/bufbuild/protocompile/parser"
	"github.com/bufbuild/protocompile/protoutil"
	"github.com/bufbuild/protocompile/reporter"
	"google.golang.org/protobuf/reflect/protoreflect"
	"google.golang.org/protobuf/types/descriptorpb"
)

// ErrPos is a compile error with its position.
type ErrPos struct {
	File    string
	Line    int
	Col     int
	Message string
}

// Result of a direct compilation.
type Result struct {
	// Files holds the descriptor of every file in the import closure of the targets.
	Files map[string]*descriptorpb.FileDescriptorProto
	// Unused maps file -> set of import paths the compiler reported as unused.
	Unused map[string]map[string]bool
	// NoSyntax is the set of files the compiler warned about for lacking a syntax statement.
	NoSyntax map[string]bool
	Errors   []ErrPos
	Err      error
}

// Compile compiles targets (sorted) from sources (import path -> text), falling back to the
// built-in well-known types for paths that sources does not contain.
func Compile(ctx context.Context, sources map[string]string, targets []string, withSourceInfo bool) *Result {
	res := &Result{Files: map[string]*descriptorpb.FileDescriptorProto{}, Unused: map[string]map[string]bool{}, NoSyntax: map[string]bool{}}
	targets = append([]string{}, targets...)
	sort.Strings(targets)
	var errs, warns []reporter.ErrorWithPos
	mode := protocompile.SourceInfoExtraOptionLocations
	if !withSourceInfo {
		mode = protocompile.SourceInfoNone
	}
	compiler := protocompile.Compiler{
		MaxParallelism: 1,
		SourceInfoMode: mode,
		Resolver: &protocompile.SourceResolver{Accessor: func(path string) (io.ReadCloser, error) {
			if txt, ok := sources[path]; ok {
				return io.NopCloser(strings.NewReader(txt)), nil
			}
			if obj, err := datawkt.ReadBucket.Get(ctx, path); err == nil {
				return obj, nil
			}
			return nil, os.ErrNotExist
		}},
		Reporter: reporter.NewReporter(
			func(e reporter.ErrorWithPos) error { errs = append(errs, e); return nil },
			func(e reporter.ErrorWithPos) { warns = append(warns, e) },
		),
	}
	files, err := compiler.Compile(ctx, targets...)
	for _, e := range errs {
		p := e.GetPosition()
		res.Errors = append(res.Errors, ErrPos{File: p.Filename, Line: p.Line, Col: p.Col, Message: e.Unwrap().Error()})
	}
	if err != nil {
		res.Err = err
		var ewp reporter.ErrorWithPos
		if len(res.Errors) == 0 && errors.As(err, &ewp) {
			p := ewp.GetPosition()
			res.Errors = append(res.Errors, ErrPos{File: p.Filename, Line: p.Line, Col: p.Col, Message: ewp.Unwrap().Error()})
		}
		return res
	}
	for _, w := range warns {
		p := w.GetPosition()
		if w.Unwrap() == parser.ErrNoSyntax {
			res.NoSyntax[p.Filename] = true
		}
		var unused linker.ErrorUnusedImport
		if errors.As(w.Unwrap(), &unused) {
			if res.Unused[p.Filename] == nil {
				res.Unused[p.Filename] = map[string]bool{}
			}
			res.Unused[p.Filename][unused.UnusedImport()] = true
		}
	}
	var rec func(fd protoreflect.FileDescriptor)
	rec = func(fd protoreflect.FileDescriptor) {
		if _, ok := res.Files[fd.Path()]; ok {
			return
		}
		res.Files[fd.Path()] = protoutil.ProtoFromFileDescriptor(fd)
		imps := fd.Imports()
		for i := 0; i < imps.Len(); i++ {
			rec(imps.Get(i).FileDescriptor)
		}
	}
	for _, f := range files {
		rec(f)
	}
	return res
}
