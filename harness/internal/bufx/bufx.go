// Package bufx holds thin helpers over buf's exported APIs: building module sets and images from
// generated workspaces, running the CLI in-process, and flattening annotations.
package bufx

import (
	"context"
	"errors"
	"fmt"
	"io"
	"log/slog"
	"sort"

	"github.com/bufbuild/buf/private/bufpkg/bufanalysis"
	"github.com/bufbuild/buf/private/bufpkg/bufimage"
	"github.com/bufbuild/buf/private/bufpkg/bufmodule"
	"github.com/bufbuild/buf/private/bufpkg/bufparse"
	"github.com/bufbuild/buf/private/pkg/storage"
	"github.com/bufbuild/buf/private/pkg/storage/storagemem"
	"github.com/bufbuild/bufverif/internal/protogen"
	"github.com/google/uuid"
)

// Logger discards everything.
var Logger = slog.New(slog.NewTextHandler(io.Discard, &slog.HandlerOptions{Level: slog.LevelError + 10}))

// ModuleSpec says how one module of a workspace is added to the module set.
type ModuleSpec struct {
	Target       bool
	TargetPaths  []string // module-relative
	ExcludePaths []string // module-relative
	ProtoFile    string   // proto file target path (module-relative); mutually exclusive with TargetPaths
	IncludePkg   bool     // include_package_files for ProtoFile
}

// CommitUUID derives a deterministic commit id from a string.
func CommitUUID(s string) uuid.UUID {
	return uuid.NewSHA1(uuid.NameSpaceOID, []byte(s))
}

// BucketFor returns a mem bucket for path->text.
func BucketFor(files map[string]string) (storage.ReadBucket, error) {
	data := make(map[string][]byte, len(files))
	for p, t := range files {
		data[p] = []byte(t)
	}
	return storagemem.NewReadBucket(data)
}

// WrapBucket optionally wraps each module bucket (e.g. to shuffle Walk order).
type WrapBucket func(moduleDir string, b storage.ReadBucket) storage.ReadBucket

// ModuleSet builds a bufmodule.ModuleSet from rendered module files. specs maps module dir -> spec;
// a missing spec means "target, everything". order gives the order in which modules are added.
func ModuleSet(ctx context.Context, ws *protogen.Workspace, byModule map[string]map[string]string, specs map[string]ModuleSpec, order []string, wrap WrapBucket) (bufmodule.ModuleSet, error) {
	b := bufmodule.NewModuleSetBuilder(ctx, Logger, bufmodule.NopModuleDataProvider, bufmodule.NopCommitProvider)
	if order == nil {
		for _, m := range ws.Modules {
			order = append(order, m.Dir)
		}
	}
	for _, dir := range order {
		var m *protogen.Module
		for _, x := range ws.Modules {
			if x.Dir == dir {
				m = x
			}
		}
		if m == nil {
			return nil, fmt.Errorf("harness: unknown module dir %q", dir)
		}
		bucket, err := BucketFor(byModule[m.Dir])
		if err != nil {
			return nil, err
		}
		if wrap != nil {
			bucket = wrap(m.Dir, bucket)
		}
		spec, ok := specs[m.Dir]
		if !ok {
			spec = ModuleSpec{Target: true}
		}
		var opts []bufmodule.LocalModuleOption
		if m.Name != "" {
			fn, err := bufparse.ParseFullName(m.Name)
			if err != nil {
				return nil, err
			}
			opts = append(opts, bufmodule.LocalModuleWithFullNameAndCommitID(fn, CommitUUID(m.Name)))
		}
		if spec.Target && (len(spec.TargetPaths) > 0 || len(spec.ExcludePaths) > 0) {
			opts = append(opts, bufmodule.LocalModuleWithTargetPaths(spec.TargetPaths, spec.ExcludePaths))
		}
		if spec.Target && spec.ProtoFile != "" {
			opts = append(opts, bufmodule.LocalModuleWithProtoFileTargetPath(spec.ProtoFile, spec.IncludePkg))
		}
		b.AddLocalModule(bucket, m.Dir, spec.Target, opts...)
	}
	return b.Build()
}

// BuildImage builds the image of a whole rendered workspace (every module a target).
func BuildImage(ctx context.Context, ws *protogen.Workspace, byModule map[string]map[string]string, opts ...bufimage.BuildImageOption) (bufimage.Image, error) {
	ms, err := ModuleSet(ctx, ws, byModule, nil, nil, nil)
	if err != nil {
		return nil, err
	}
	return bufimage.BuildImage(ctx, Logger, bufmodule.ModuleSetToModuleReadBucketWithOnlyProtoFiles(ms), opts...)
}

// BuildWorkspace renders and builds.
func BuildWorkspace(ctx context.Context, ws *protogen.Workspace) (bufimage.Image, *protogen.RenderedWorkspace, error) {
	rw := ws.Render()
	img, err := BuildImage(ctx, ws, rw.ByModule)
	return img, rw, err
}

// Ann is a flattened annotation.
type Ann struct {
	Path     string `json:"path"`
	External string `json:"external,omitempty"`
	Line     int    `json:"line"`
	Col      int    `json:"col"`
	EndLine  int    `json:"end_line"`
	EndCol   int    `json:"end_col"`
	Type     string `json:"type"`
	Message  string `json:"message"`
}

func (a Ann) String() string {
	return fmt.Sprintf("%s:%d:%d:%s:%s", a.Path, a.Line, a.Col, a.Type, a.Message)
}

// Annotations flattens an error returned by build/lint/breaking: (annotations, nil) if it is a
// FileAnnotationSet, (nil, nil) if err is nil, (nil, err) for any other error.
func Annotations(err error) ([]Ann, error) {
	if err == nil {
		return nil, nil
	}
	var fas bufanalysis.FileAnnotationSet
	if !errors.As(err, &fas) {
		return nil, err
	}
	var out []Ann
	for _, fa := range fas.FileAnnotations() {
		a := Ann{Line: fa.StartLine(), Col: fa.StartColumn(), EndLine: fa.EndLine(), EndCol: fa.EndColumn(), Type: fa.Type(), Message: fa.Message()}
		if fi := fa.FileInfo(); fi != nil {
			a.Path = fi.Path()
			a.External = fi.ExternalPath()
		}
		out = append(out, a)
	}
	return out, nil
}

// SortAnns sorts annotations canonically.
func SortAnns(a []Ann) {
	sort.Slice(a, func(i, j int) bool { return a[i].String() < a[j].String() })
}
