// C11 — an image faithfully stands in for its sources, in every encoding.
//
// (a) encoding_test.go  image -> {binpb,json,txtpb,yaml} x {none,gzip,zstd} x {--exclude-imports,
//     --exclude-source-info, --as-file-descriptor-set} -> read back == original, at the API level
//     (protoencoding + bufimage + buffetch reader/writer) and through `buf build` in-process.
// (b) packaging_test.go  dir / tar / tar.gz / tgz / tar.zst / zip (+strip_components, +subdir) build to
//     byte-identical images; `buf export` output builds to the same descriptors.
// (c) paths_test.go      --path / --exclude-path: module-level targeting vs image-level filtering, both
//     against the documented selection (reference written here), API and CLI.
// (d) checks_test.go     lint / breaking against the image == against the sources, API and CLI.
//
// Oracles: round trip; differential of two independent code paths; reference selection model. All
// descriptor comparisons are made after re-interpreting both sides with a resolver the harness
// builds from the ORIGINAL image with protodesc/dynamicpb (custom options are parsed fields, never
// opaque bytes).
package c11

import (
	"context"
	"encoding/json"
	"os"
	"testing"

	"github.com/bufbuild/bufverif/internal/evid"
)

func TestMain(m *testing.M) { evid.Main(m, "C11") }

// TestReplay re-runs the oracle of a saved case (sources, flags, path sets are all in the case).
func TestReplay(t *testing.T) {
	var kind struct {
		Kind string `json:"kind"`
	}
	ok, err := evid.ReplayCase(&kind)
	if !ok {
		t.Skip("no VERIF_REPLAY")
	}
	if err != nil {
		t.Fatal(err)
	}
	r := evid.R()
	defer r.Begin(t)()
	ctx := context.Background()
	load := func(v any) {
		if _, err := evid.ReplayCase(v); err != nil {
			t.Fatal(err)
		}
	}
	switch kind.Kind {
	case "enc-api":
		var c EncCase
		load(&c)
		runEncAPI(ctx, t, r, &c, t.TempDir())
	case "enc-cli":
		var c EncCase
		load(&c)
		runEncCLI(ctx, t, r, &c)
	case "packaging":
		var c PkgCase
		load(&c)
		runPackaging(ctx, t, r, &c)
	case "paths-api":
		var c PathCase
		load(&c)
		runPathsAPI(ctx, t, r, &c)
	case "paths-cli":
		var c PathCase
		load(&c)
		runPathsCLI(ctx, t, r, &c)
	case "checks-api":
		var c ChkCase
		load(&c)
		runChecksAPI(ctx, t, r, &c)
	case "checks-cli":
		var c ChkCase
		load(&c)
		runChecksCLI(ctx, t, r, &c)
	default:
		data, _ := json.Marshal(kind)
		t.Fatalf("harness: unknown case kind %s in %s", data, os.Getenv("VERIF_REPLAY"))
	}
}
