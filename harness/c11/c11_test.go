package c11

import (
	"testing"

	"github.com/bufbuild/bufverif/internal/evid"
)

func TestMain(m *testing.M) { evid.Main(m, "C11") }
