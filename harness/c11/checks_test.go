package c11

// (d) lint / breaking against the image = lint / breaking against the sources.

import (
	"context"
	"encoding/json"
	"fmt"
	"path/filepath"
	"sort"
	"strings"
	"testing"

	"github.com/bufbuild/buf/private/bufpkg/bufimage"
	imagev1 "github.com/bufbuild/buf/private/gen/proto/go/buf/alpha/image/v1"
	"github.com/bufbuild/buf/private/pkg/protoencoding"
	"github.com/bufbuild/bufverif/internal/bufx"
	"github.com/bufbuild/bufverif/internal/checkx"
	"github.com/bufbuild/bufverif/internal/evid"
	"github.com/bufbuild/bufverif/internal/protogen"
	"pgregory.net/rapid"
)

// ChkCase is the replayable input of one lint / breaking comparison.
type ChkCase struct {
	Kind    string   `json:"kind"`     // checks-api | checks-cli
	What    string   `json:"what"`     // lint | breaking
	Src     Src      `json:"src"`      // current sources
	Old     *Src     `json:"old"`      // previous sources (breaking)
	Version string   `json:"version"`  // config version (api)
	Use     []string `json:"use"`      // rule ids / categories
	Except  []string `json:"except"`   // rule ids / categories
	Format  string   `json:"format"`   // image encoding the image side goes through
	YAMLDoc string   `json:"buf_yaml"` // cli: extra top-level config appended to buf.yaml
}

func annKey(a bufx.Ann) string {
	return fmt.Sprintf("%s:%d:%d:%d:%d:%s:%s", a.Path, a.Line, a.Col, a.EndLine, a.EndCol, a.Type, a.Message)
}

// annSet is the deduplicated, sorted set of annotations: the CLI merges the per-module results of a
// workspace into one FileAnnotationSet, which is documented to deduplicate (a file that two modules
// import is reported once).
func annSet(as []bufx.Ann) []string {
	seen := map[string]bool{}
	out := make([]string, 0, len(as))
	for _, a := range as {
		if k := annKey(a); !seen[k] {
			seen[k] = true
			out = append(out, k)
		}
	}
	sort.Strings(out)
	return out
}

func diffSets(a, b []string) (onlyA, onlyB []string) {
	inB := map[string]int{}
	for _, x := range b {
		inB[x]++
	}
	for _, x := range a {
		if inB[x] > 0 {
			inB[x]--
		} else {
			onlyA = append(onlyA, x)
		}
	}
	inA := map[string]int{}
	for _, x := range a {
		inA[x]++
	}
	for _, x := range b {
		if inA[x] > 0 {
			inA[x]--
		} else {
			onlyB = append(onlyB, x)
		}
	}
	return
}

// throughEncoding serializes the image in the given format and reads it back the way an image input is read.
func throughEncoding(img bufimage.Image, format string) (bufimage.Image, error) {
	pi, err := bufimage.ImageToProtoImage(img)
	if err != nil {
		return nil, err
	}
	c := &EncCase{Format: format}
	data, err := marshalerFor(c, img.Resolver()).Marshal(pi)
	if err != nil {
		return nil, err
	}
	back := &imagev1.Image{}
	if format == "binpb" {
		if err := protoencoding.NewWireUnmarshaler(nil).Unmarshal(data, back); err != nil {
			return nil, err
		}
		return bufimage.NewImageForProto(back)
	}
	if err := unmarshalerFor(format, img.Resolver()).Unmarshal(data, back); err != nil {
		return nil, err
	}
	return bufimage.NewImageForProto(back, bufimage.WithNoReparse())
}

// perModuleImages builds, for every module, the image the CLI checks for a source input: that
// module targeted, every other module a dependency.
func perModuleImages(ctx context.Context, s Src) ([]bufimage.Image, error) {
	var out []bufimage.Image
	for _, m := range s.Mods {
		specs := map[string]bufx.ModuleSpec{}
		for _, o := range s.Mods {
			specs[o.Dir] = bufx.ModuleSpec{Target: o.Dir == m.Dir}
		}
		img, err := s.buildSpecs(ctx, specs)
		if err != nil {
			return nil, err
		}
		out = append(out, img)
	}
	return out, nil
}

func runChecksAPI(ctx context.Context, t fataler, r *evid.Recorder, c *ChkCase) {
	// The unit of lint / breaking for a workspace is the module (each module is checked as the target
	// with the other modules as its dependencies), so the image that "stands in for the sources" is
	// the image of that unit: per module, the image straight from the build (sources: external paths,
	// compiler output) is compared with the same image after serialization in c.Format.
	mods, err := perModuleImages(ctx, c.Src)
	if err != nil {
		t.Fatalf("harness: workspace does not build: %v", err)
	}
	var oldMods []bufimage.Image
	if c.What == "breaking" {
		if oldMods, err = perModuleImages(ctx, *c.Old); err != nil {
			t.Fatalf("harness: old workspace does not build: %v", err)
		}
		if len(mods) != len(oldMods) {
			t.Fatalf("harness: module lists differ")
		}
	}
	var srcAnns, imgAnns []bufx.Ann
	for i, m := range mods {
		imgSide, err := throughEncoding(m, c.Format)
		r.Eval()
		if err != nil {
			r.Fail(t, "roundtrip:"+c.Format+":read-failed", fmt.Sprintf("image of module %s does not survive %s: %v", c.Src.Mods[i].Dir, c.Format, err), c)
			return
		}
		switch c.What {
		case "lint":
			cfg, err := checkx.LintConfig(c.Version, c.Use, c.Except, nil, nil, checkx.LintOptions{})
			if err != nil {
				t.Fatalf("harness: lint config: %v", err)
			}
			a, err := checkx.Lint(ctx, cfg, m)
			if err != nil {
				r.Fail(t, "lint-differs:source-side-error", err.Error(), c)
				return
			}
			b, err := checkx.Lint(ctx, cfg, imgSide)
			if err != nil {
				r.Fail(t, "lint-differs:image-side-error", err.Error(), c)
				return
			}
			srcAnns, imgAnns = append(srcAnns, a...), append(imgAnns, b...)
		case "breaking":
			oldImgSide, err := throughEncoding(oldMods[i], c.Format)
			if err != nil {
				r.Fail(t, "roundtrip:"+c.Format+":read-failed", fmt.Sprintf("image of old module %s does not survive %s: %v", c.Old.Mods[i].Dir, c.Format, err), c)
				return
			}
			cfg, err := checkx.BreakingConfig(c.Version, c.Use, c.Except, nil, nil, false)
			if err != nil {
				t.Fatalf("harness: breaking config: %v", err)
			}
			a, err := checkx.Breaking(ctx, cfg, m, oldMods[i])
			if err != nil {
				r.Fail(t, "breaking-differs:source-side-error", err.Error(), c)
				return
			}
			b, err := checkx.Breaking(ctx, cfg, imgSide, oldImgSide)
			if err != nil {
				r.Fail(t, "breaking-differs:image-side-error", err.Error(), c)
				return
			}
			srcAnns, imgAnns = append(srcAnns, a...), append(imgAnns, b...)
		}
	}
	finishChecks(t, r, c, annSet(srcAnns), annSet(imgAnns), "")
}

func finishChecks(t fataler, r *evid.Recorder, c *ChkCase, src, img []string, how string) {
	r.Class(c.Kind + ":" + c.What)
	r.Class(c.Kind + ":format:" + c.Format)
	if len(c.Src.Mods) >= 2 {
		r.Class(c.Kind + ":multi-module")
	}
	if len(src) > 0 {
		r.Class(c.Kind + ":" + c.What + ":has-annotations")
		r.NonTrivial(fmt.Sprintf("%s|%s|%s|%v|%v|%s", c.Kind, c.What, c.Src.canon(), c.Use, c.Except, c.Format))
		r.Sample(map[string]any{"kind": c.Kind, "what": c.What, "use": c.Use, "except": c.Except, "format": c.Format, "annotations": len(src), "modules": len(c.Src.Mods)})
	}
	onlySrc, onlyImg := diffSets(src, img)
	if len(onlySrc) > 0 || len(onlyImg) > 0 {
		r.Fail(t, c.What+"-differs:image-vs-source", fmt.Sprintf("%s%s with use=%v except=%v: only against the sources: %v; only against the image: %v", how, c.What, c.Use, c.Except, trim(onlySrc, 4), trim(onlyImg, 4)), c)
	}
}

func trim(a []string, n int) []string {
	if len(a) > n {
		return append(append([]string{}, a[:n]...), fmt.Sprintf("... %d more", len(a)-n))
	}
	return a
}

func genRuleSelection(t *rapid.T, what string) (use, except []string) {
	if what == "lint" {
		pool := []string{"STANDARD", "MINIMAL", "BASIC", "COMMENTS", "UNARY_RPC", "STANDARD", "STANDARD"}
		use = []string{pool[rapid.IntRange(0, len(pool)-1).Draw(t, "use")]}
		if rapid.IntRange(0, 2).Draw(t, "use2") == 0 {
			use = append(use, "COMMENTS")
		}
		if rapid.IntRange(0, 3).Draw(t, "except") == 0 {
			except = []string{[]string{"PACKAGE_VERSION_SUFFIX", "FIELD_LOWER_SNAKE_CASE", "ENUM_ZERO_VALUE_SUFFIX", "IMPORT_USED"}[rapid.IntRange(0, 3).Draw(t, "exceptid")]}
		}
	} else {
		use = []string{[]string{"FILE", "PACKAGE", "WIRE_JSON", "WIRE", "FILE"}[rapid.IntRange(0, 4).Draw(t, "use")]}
		if rapid.IntRange(0, 3).Draw(t, "except") == 0 {
			except = []string{[]string{"FIELD_NO_DELETE", "FILE_NO_DELETE", "FIELD_SAME_TYPE", "RPC_NO_DELETE"}[rapid.IntRange(0, 3).Draw(t, "exceptid")]}
		}
	}
	use = dedupe(use)
	if what == "lint" {
		// PROTOVALIDATE builds a CEL environment per message (seconds per image) and is not exercised by the harness
		except = append(except, "PROTOVALIDATE")
	}
	return
}

func dedupe(a []string) []string {
	seen := map[string]bool{}
	var out []string
	for _, x := range a {
		if !seen[x] {
			seen[x] = true
			out = append(out, x)
		}
	}
	return out
}

// genChk draws a workspace (with planted lint violations) or an (old, new) pair.
func genChk(ctx context.Context, t *rapid.T, kind string) *ChkCase {
	c := &ChkCase{Kind: kind, Version: "v2"}
	c.What = []string{"lint", "breaking"}[rapid.IntRange(0, 1).Draw(t, "what")]
	cfg := protogen.DefaultConfig()
	cfg.CustomOptions = true
	cfg.MaxFiles = 5
	ws := protogen.GenWorkspace(t, cfg)
	// no MessageSet messages here (addLegacyNested): on this tree `buf lint` / `buf breaking` fail with a
	// system error on any message_set_wire_format message, for a source input and an image input alike,
	// so there is nothing to compare (observation reported separately; not a C11 matter)
	ed := protogen.NewEditor(t)
	if c.What == "lint" {
		for i := 0; i < rapid.IntRange(0, 3).Draw(t, "plants"); i++ {
			ed.ApplyPlant(ws)
		}
		c.Src = srcOf(ws)
	} else {
		old := srcOf(ws)
		c.Old = &old
		nw := ws.Clone()
		for i := 0; i < rapid.IntRange(1, 4).Draw(t, "edits"); i++ {
			ed.ApplyBreaking(nw)
		}
		c.Src = srcOf(nw)
		if len(c.Src.Mods) != len(old.Mods) {
			t.Skip("edit changed the module list")
		}
		for _, m := range c.Src.Mods {
			if len(c.Src.Files[m.Dir]) == 0 {
				t.Skip("edit emptied a module")
			}
		}
	}
	if _, err := c.Src.buildFull(ctx); err != nil {
		t.Skip("edited combination does not build")
	}
	c.Use, c.Except = genRuleSelection(t, c.What)
	c.Format = formats[rapid.IntRange(0, 3).Draw(t, "format")]
	return c
}

func TestChecksAPI(t *testing.T) {
	r := evid.R()
	ctx := context.Background()
	r.Check(t, r.Scale(120, 2500), 6, func(t *rapid.T) {
		c := genChk(ctx, t, "checks-api")
		if c.What == "lint" {
			c.Version = []string{"v1", "v2"}[rapid.IntRange(0, 1).Draw(t, "version")]
			var ex []string
			for _, id := range c.Except {
				if protogen.LintRuleExists(id, c.Version) {
					ex = append(ex, id)
				}
			}
			c.Except = ex
		}
		runChecksAPI(ctx, t, r, c)
	})
}

// ---------------------------------------------------------------------------------------------
// CLI

type jsonAnn struct {
	Path        string `json:"path"`
	StartLine   int    `json:"start_line"`
	StartColumn int    `json:"start_column"`
	EndLine     int    `json:"end_line"`
	EndColumn   int    `json:"end_column"`
	Type        string `json:"type"`
	Message     string `json:"message"`
}

// parseAnns parses --error-format=json output; prefixes are "<root>/<module dir>/" strings to strip
// from external paths (a directory input reports on-disk paths, an image input import paths).
func parseAnns(out string, prefixes []string) ([]string, error) {
	var res []string
	for _, line := range strings.Split(out, "\n") {
		line = strings.TrimSpace(line)
		if line == "" {
			continue
		}
		var a jsonAnn
		if err := json.Unmarshal([]byte(line), &a); err != nil {
			return nil, fmt.Errorf("not a JSON annotation: %q", line)
		}
		for _, p := range prefixes {
			if strings.HasPrefix(a.Path, p) {
				a.Path = filepath.ToSlash(strings.TrimPrefix(a.Path, p))
				break
			}
		}
		res = append(res, fmt.Sprintf("%s:%d:%d:%d:%d:%s:%s", a.Path, a.StartLine, a.StartColumn, a.EndLine, a.EndColumn, a.Type, a.Message))
	}
	sort.Strings(res)
	return res, nil
}

func prefixesOf(root string, s Src) []string {
	var out []string
	for _, m := range s.Mods {
		out = append(out, filepath.Join(root, filepath.FromSlash(m.Dir))+string(filepath.Separator))
	}
	// longest first, so that nested module directories cannot shadow each other
	sort.Slice(out, func(i, j int) bool { return len(out[i]) > len(out[j]) })
	return out
}

func (c *ChkCase) yamlExtra() string {
	var b strings.Builder
	b.WriteString(c.What + ":\n  use:\n")
	for _, u := range c.Use {
		b.WriteString("    - " + u + "\n")
	}
	if len(c.Except) > 0 {
		b.WriteString("  except:\n")
		for _, u := range c.Except {
			b.WriteString("    - " + u + "\n")
		}
	}
	return b.String()
}

// moduleEntries returns the on-disk paths of the top-level entries of a module: `--path` on all of
// them targets exactly that module (a module directory itself cannot be a --path).
func moduleEntries(root string, s Src, dir string) []string {
	set := map[string]bool{}
	for p := range s.Files[dir] {
		set[strings.SplitN(p, "/", 2)[0]] = true
	}
	var out []string
	for _, e := range protogen.SortedKeys(set) {
		out = append(out, filepath.Join(root, filepath.FromSlash(dir), e))
	}
	return out
}

func runChecksCLI(ctx context.Context, t fataler, r *evid.Recorder, c *ChkCase) {
	cli := newCLI(t, "c11chk-")
	defer cli.close()
	root := filepath.Join(cli.dir, "new")
	extra := c.yamlExtra()
	writeTree(t, root, c.Src.treeFiles(extra))
	cfgFile := filepath.Join(root, "buf.yaml")
	ext := map[string]string{"binpb": "binpb", "json": "json.gz", "txtpb": "txtpb.zst", "yaml": "yaml"}[c.Format]
	oldRoot := filepath.Join(cli.dir, "old")
	prefixes := prefixesOf(root, c.Src)
	var sargs []string
	if c.What == "lint" {
		sargs = []string{"lint", root, "--error-format=json"}
	} else {
		writeTree(t, oldRoot, c.Old.treeFiles(extra))
		sargs = []string{"breaking", root, "--against", oldRoot, "--error-format=json"}
		prefixes = append(prefixes, prefixesOf(oldRoot, *c.Old)...)
	}
	okCode := func(code int) bool { return code == 0 || code == 100 }
	scode, sout, serr := cli.run(ctx, sargs...)
	r.Eval()
	how := fmt.Sprintf("[buf %s] vs per-module images: ", strings.Join(relArgs(sargs, cli.dir), " "))
	if !okCode(scode) {
		r.Fail(t, c.What+"-differs:source-side-error", fmt.Sprintf("%sexit %d: %s", how, scode, serr), c)
		return
	}
	sa, err := parseAnns(sout, prefixes)
	if err != nil {
		r.Fail(t, c.What+"-differs:source-side-error", how+err.Error(), c)
		return
	}
	// the image side: one image per module (the unit the workspace is checked in), built by targeting
	// exactly that module, then checked as an image input with the workspace's configuration
	var ia []string
	icodeAll := 0
	build := func(src Src, rt string, dir, out string) bool {
		args := []string{"build", rt, "-o", out}
		for _, e := range moduleEntries(rt, src, dir) {
			args = append(args, "--path", e)
		}
		if code, _, stderr := cli.run(ctx, args...); code != 0 {
			r.Fail(t, c.What+"-differs:image-side-error", fmt.Sprintf("buf %s: exit %d: %s", strings.Join(relArgs(args, cli.dir), " "), code, stderr), c)
			return false
		}
		return true
	}
	for i, m := range c.Src.Mods {
		img := filepath.Join(cli.dir, fmt.Sprintf("new-%d.%s", i, ext))
		if !build(c.Src, root, m.Dir, img) {
			return
		}
		var iargs []string
		if c.What == "lint" {
			iargs = []string{"lint", img, "--config", cfgFile, "--error-format=json"}
		} else {
			oldImg := filepath.Join(cli.dir, fmt.Sprintf("old-%d.%s", i, ext))
			if !build(*c.Old, oldRoot, c.Old.Mods[i].Dir, oldImg) {
				return
			}
			iargs = []string{"breaking", img, "--against", oldImg, "--config", cfgFile, "--error-format=json"}
		}
		icode, iout, ierr := cli.run(ctx, iargs...)
		if !okCode(icode) {
			r.Fail(t, c.What+"-differs:image-side-error", fmt.Sprintf("buf %s: exit %d: %s", strings.Join(relArgs(iargs, cli.dir), " "), icode, ierr), c)
			return
		}
		if icode > icodeAll {
			icodeAll = icode
		}
		a, err := parseAnns(iout, prefixes)
		if err != nil {
			r.Fail(t, c.What+"-differs:image-side-error", err.Error(), c)
			return
		}
		ia = append(ia, a...)
	}
	ia = dedupe(ia)
	sort.Strings(ia)
	if scode != icodeAll {
		r.Fail(t, c.What+"-differs:exit-code", fmt.Sprintf("%sexit code %d against the sources, %d against the images", how, scode, icodeAll), c)
		return
	}
	finishChecks(t, r, c, dedupe(sa), ia, how)
}

func TestChecksCLI(t *testing.T) {
	r := evid.R()
	ctx := context.Background()
	r.Check(t, r.Scale(32, 500), 7, func(t *rapid.T) {
		c := genChk(ctx, t, "checks-cli")
		runChecksCLI(ctx, t, r, c)
	})
}
