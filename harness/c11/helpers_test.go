package c11

import (
	"archive/tar"
	"archive/zip"
	"bytes"
	"compress/gzip"
	"context"
	"fmt"
	"os"
	"path/filepath"
	"sort"
	"strings"

	"github.com/bufbuild/buf/private/bufpkg/bufimage"
	"github.com/bufbuild/buf/private/bufpkg/bufmodule"
	imagev1 "github.com/bufbuild/buf/private/gen/proto/go/buf/alpha/image/v1"
	"github.com/bufbuild/bufverif/internal/bufcli"
	"github.com/bufbuild/bufverif/internal/bufx"
	"github.com/bufbuild/bufverif/internal/protogen"
	"google.golang.org/protobuf/encoding/protowire"
	"google.golang.org/protobuf/proto"
	"google.golang.org/protobuf/reflect/protodesc"
	"google.golang.org/protobuf/reflect/protoreflect"
	"google.golang.org/protobuf/reflect/protoregistry"
	"google.golang.org/protobuf/types/descriptorpb"
	"google.golang.org/protobuf/types/dynamicpb"
)

// fataler is what both *testing.T and *rapid.T offer.
type fataler interface {
	Fatalf(string, ...any)
	Helper()
}

// Mod is one module of the generated workspace.
type Mod struct {
	Dir  string `json:"dir"`
	Name string `json:"name,omitempty"`
}

// Src is the replayable source tree: module list + rendered files (module dir -> import path -> text).
type Src struct {
	Mods  []Mod                        `json:"modules"`
	Files map[string]map[string]string `json:"files"`
}

func srcOf(ws *protogen.Workspace) Src {
	s := Src{Files: ws.Render().ByModule}
	for _, m := range ws.Modules {
		s.Mods = append(s.Mods, Mod{Dir: m.Dir, Name: m.Name})
	}
	return s
}

// wsOf rebuilds the (file-less) workspace skeleton bufx.ModuleSet needs.
func (s Src) wsOf() *protogen.Workspace {
	ws := &protogen.Workspace{}
	for _, m := range s.Mods {
		ws.Modules = append(ws.Modules, &protogen.Module{Dir: m.Dir, Name: m.Name})
	}
	return ws
}

// allPaths returns every import path of the tree, sorted.
func (s Src) allPaths() []string {
	var out []string
	for _, fs := range s.Files {
		for p := range fs {
			out = append(out, p)
		}
	}
	sort.Strings(out)
	return out
}

// moduleOf returns the module dir owning the import path.
func (s Src) moduleOf(path string) string {
	for _, m := range s.Mods {
		if _, ok := s.Files[m.Dir][path]; ok {
			return m.Dir
		}
	}
	return ""
}

func (s Src) canon() string {
	var b strings.Builder
	for _, m := range s.Mods {
		fmt.Fprintf(&b, "M(%s,%s)", m.Dir, m.Name)
		for _, p := range protogen.SortedPaths(s.Files[m.Dir]) {
			fmt.Fprintf(&b, "%s:%d;", p, evidHash(s.Files[m.Dir][p]))
		}
	}
	return b.String()
}

func evidHash(s string) uint64 {
	h := uint64(1469598103934665603)
	for i := 0; i < len(s); i++ {
		h ^= uint64(s[i])
		h *= 1099511628211
	}
	return h
}

// buildFull builds the image of the whole tree (every module a target) through the module-set API.
func (s Src) buildFull(ctx context.Context, opts ...bufimage.BuildImageOption) (bufimage.Image, error) {
	return bufx.BuildImage(ctx, s.wsOf(), s.Files, opts...)
}

// buildSpecs builds with per-module specs.
func (s Src) buildSpecs(ctx context.Context, specs map[string]bufx.ModuleSpec, opts ...bufimage.BuildImageOption) (bufimage.Image, error) {
	set, err := bufx.ModuleSet(ctx, s.wsOf(), s.Files, specs, nil, nil)
	if err != nil {
		return nil, err
	}
	return bufimage.BuildImage(ctx, bufx.Logger, bufmodule.ModuleSetToModuleReadBucketWithOnlyProtoFiles(set), opts...)
}

// bufYAML renders the v2 buf.yaml of the tree; extra is appended verbatim (top-level lint/breaking).
func (s Src) bufYAML(extra string) string {
	var y strings.Builder
	y.WriteString("version: v2\nmodules:\n")
	for _, m := range s.Mods {
		fmt.Fprintf(&y, "  - path: %s\n", m.Dir)
		if m.Name != "" {
			fmt.Fprintf(&y, "    name: %s\n", m.Name)
		}
	}
	y.WriteString(extra)
	return y.String()
}

// treeFiles returns workspace-relative path -> content, including buf.yaml.
func (s Src) treeFiles(extraYAML string) map[string]string {
	out := map[string]string{"buf.yaml": s.bufYAML(extraYAML)}
	for _, m := range s.Mods {
		for p, txt := range s.Files[m.Dir] {
			out[m.Dir+"/"+p] = txt
		}
	}
	return out
}

func writeTree(t fataler, root string, files map[string]string) {
	t.Helper()
	for p, txt := range files {
		full := filepath.Join(root, filepath.FromSlash(p))
		if err := os.MkdirAll(filepath.Dir(full), 0o755); err != nil {
			t.Fatalf("harness: %v", err)
		}
		if err := os.WriteFile(full, []byte(txt), 0o644); err != nil {
			t.Fatalf("harness: %v", err)
		}
	}
}

func sortedKeys(m map[string]string) []string { return protogen.SortedPaths(m) }

// tarBytes packs files (sorted) under an optional prefix directory.
func tarBytes(t fataler, files map[string]string, prefix string) []byte {
	t.Helper()
	var buf bytes.Buffer
	tw := tar.NewWriter(&buf)
	for _, p := range sortedKeys(files) {
		name := p
		if prefix != "" {
			name = prefix + "/" + p
		}
		if err := tw.WriteHeader(&tar.Header{Name: name, Mode: 0o644, Size: int64(len(files[p])), Typeflag: tar.TypeReg}); err != nil {
			t.Fatalf("harness: %v", err)
		}
		if _, err := tw.Write([]byte(files[p])); err != nil {
			t.Fatalf("harness: %v", err)
		}
	}
	if err := tw.Close(); err != nil {
		t.Fatalf("harness: %v", err)
	}
	return buf.Bytes()
}

func gzipBytes(t fataler, data []byte) []byte {
	t.Helper()
	var buf bytes.Buffer
	zw := gzip.NewWriter(&buf)
	if _, err := zw.Write(data); err != nil {
		t.Fatalf("harness: %v", err)
	}
	if err := zw.Close(); err != nil {
		t.Fatalf("harness: %v", err)
	}
	return buf.Bytes()
}

func zipBytes(t fataler, files map[string]string, prefix string, deflate bool) []byte {
	t.Helper()
	var buf bytes.Buffer
	zw := zip.NewWriter(&buf)
	for _, p := range sortedKeys(files) {
		name := p
		if prefix != "" {
			name = prefix + "/" + p
		}
		method := zip.Store
		if deflate {
			method = zip.Deflate
		}
		w, err := zw.CreateHeader(&zip.FileHeader{Name: name, Method: method})
		if err != nil {
			t.Fatalf("harness: %v", err)
		}
		if _, err := w.Write([]byte(files[p])); err != nil {
			t.Fatalf("harness: %v", err)
		}
	}
	if err := zw.Close(); err != nil {
		t.Fatalf("harness: %v", err)
	}
	return buf.Bytes()
}

// ---------------------------------------------------------------------------------------------
// CLI

type cliEnv struct {
	dir string // scratch dir of the case
	env map[string]string
}

func newCLI(t fataler, prefix string) *cliEnv {
	t.Helper()
	dir, err := os.MkdirTemp("", prefix)
	if err != nil {
		t.Fatalf("harness: %v", err)
	}
	home := filepath.Join(dir, ".home")
	if err := os.MkdirAll(home, 0o755); err != nil {
		t.Fatalf("harness: %v", err)
	}
	return &cliEnv{dir: dir, env: map[string]string{"HOME": home, "BUF_CACHE_DIR": filepath.Join(home, "cache"), "PATH": os.Getenv("PATH")}}
}

func (c *cliEnv) close() { _ = os.RemoveAll(c.dir) }

func (c *cliEnv) run(ctx context.Context, args ...string) (int, string, string) {
	nCLI++
	return bufcli.Run(ctx, c.env, "", args...)
}

var nCLI int

// ---------------------------------------------------------------------------------------------
// descriptor normalisation: re-interpret every descriptor against a resolver built from the
// ORIGINAL image with the protobuf-go runtime directly (protodesc + dynamicpb), so that custom
// options are parsed extension fields on both sides of a comparison and never opaque bytes.

type refResolver struct {
	files *protoregistry.Files
	types *dynamicpb.Types
}

// withoutMessageSet returns copies of the descriptors in which message_set_wire_format is cleared:
// the Go protobuf runtime refuses to link MessageSet messages, and the reference resolver only needs
// the extension and message types, never that option. The inputs are not modified.
func withoutMessageSet(fdps []*descriptorpb.FileDescriptorProto) []*descriptorpb.FileDescriptorProto {
	var fix func(ms []*descriptorpb.DescriptorProto)
	fix = func(ms []*descriptorpb.DescriptorProto) {
		for _, m := range ms {
			if m.GetOptions().GetMessageSetWireFormat() {
				m.Options.MessageSetWireFormat = nil
			}
			fix(m.NestedType)
		}
	}
	out := make([]*descriptorpb.FileDescriptorProto, len(fdps))
	for i, f := range fdps {
		out[i] = proto.Clone(f).(*descriptorpb.FileDescriptorProto)
		fix(out[i].MessageType)
	}
	return out
}

func newRefResolver(fdps []*descriptorpb.FileDescriptorProto) (*refResolver, error) {
	files, err := protodesc.NewFiles(&descriptorpb.FileDescriptorSet{File: withoutMessageSet(fdps)})
	if err != nil {
		return nil, err
	}
	return &refResolver{files: files, types: dynamicpb.NewTypes(files)}, nil
}

func (r *refResolver) FindExtensionByName(n protoreflect.FullName) (protoreflect.ExtensionType, error) {
	return r.types.FindExtensionByName(n)
}
func (r *refResolver) FindExtensionByNumber(m protoreflect.FullName, n protoreflect.FieldNumber) (protoreflect.ExtensionType, error) {
	return r.types.FindExtensionByNumber(m, n)
}
func (r *refResolver) FindMessageByName(n protoreflect.FullName) (protoreflect.MessageType, error) {
	return r.types.FindMessageByName(n)
}
func (r *refResolver) FindMessageByURL(u string) (protoreflect.MessageType, error) {
	return r.types.FindMessageByURL(u)
}

// norm re-encodes m deterministically and decodes it with the reference resolver.
func (r *refResolver) norm(m proto.Message) (proto.Message, error) {
	data, err := proto.MarshalOptions{Deterministic: true}.Marshal(m)
	if err != nil {
		return nil, err
	}
	out := m.ProtoReflect().New().Interface()
	if err := (proto.UnmarshalOptions{Resolver: r}).Unmarshal(data, out); err != nil {
		return nil, err
	}
	return out, nil
}

// hasUnknownOptions reports whether any options message anywhere in m still carries unknown bytes
// (used to make sure the normalisation really interpreted the custom options).
func countOptionExtensions(m protoreflect.Message) (ext int, unknown int) {
	m.Range(func(fd protoreflect.FieldDescriptor, v protoreflect.Value) bool {
		if fd.IsExtension() {
			ext++
		}
		switch {
		case fd.IsMap():
		case fd.IsList() && fd.Message() != nil:
			l := v.List()
			for i := 0; i < l.Len(); i++ {
				e, u := countOptionExtensions(l.Get(i).Message())
				ext, unknown = ext+e, unknown+u
			}
		case fd.Message() != nil:
			e, u := countOptionExtensions(v.Message())
			ext, unknown = ext+e, unknown+u
		}
		return true
	})
	if strings.HasSuffix(string(m.Descriptor().FullName()), "Options") && len(m.GetUnknown()) > 0 {
		unknown++
	}
	return
}

// fileView is what the oracle compares per file.
type fileView struct {
	Path         string
	FDP          *descriptorpb.FileDescriptorProto
	IsImport     bool
	NoSyntax     bool
	UnusedDeps   []int32
	Module       string
	ModuleCommit string
}

func viewsOfImage(img bufimage.Image) []fileView {
	var out []fileView
	for _, f := range img.Files() {
		v := fileView{Path: f.Path(), FDP: f.FileDescriptorProto(), IsImport: f.IsImport(), NoSyntax: f.IsSyntaxUnspecified(), UnusedDeps: f.UnusedDependencyIndexes()}
		if fn := f.FullName(); fn != nil {
			v.Module = fn.String()
		}
		out = append(out, v)
	}
	return out
}

// viewsOfProtoImage reads the wire-level image message directly (no bufimage involved).
func viewsOfProtoImage(pi *imagev1.Image) ([]fileView, error) {
	var out []fileView
	for _, f := range pi.GetFile() {
		// the ImageFile message is field-compatible with FileDescriptorProto + field 8042
		data, err := proto.MarshalOptions{Deterministic: true}.Marshal(f)
		if err != nil {
			return nil, err
		}
		fdp := &descriptorpb.FileDescriptorProto{}
		if err := proto.Unmarshal(data, fdp); err != nil {
			return nil, err
		}
		fdp.ProtoReflect().SetUnknown(dropField(fdp.ProtoReflect().GetUnknown(), 8042))
		v := fileView{Path: f.GetName(), FDP: fdp}
		if ext := f.GetBufExtension(); ext != nil {
			v.IsImport = ext.GetIsImport()
			v.NoSyntax = ext.GetIsSyntaxUnspecified()
			v.UnusedDeps = ext.GetUnusedDependency()
			if mi := ext.GetModuleInfo(); mi != nil && mi.GetName() != nil {
				v.Module = mi.GetName().GetRemote() + "/" + mi.GetName().GetOwner() + "/" + mi.GetName().GetRepository()
				v.ModuleCommit = mi.GetCommit()
			}
		}
		out = append(out, v)
	}
	return out, nil
}

func decodeImage(data []byte) (*imagev1.Image, error) {
	pi := &imagev1.Image{}
	if err := proto.Unmarshal(data, pi); err != nil {
		return nil, err
	}
	return pi, nil
}

func fdpsOf(vs []fileView) []*descriptorpb.FileDescriptorProto {
	out := make([]*descriptorpb.FileDescriptorProto, len(vs))
	for i, v := range vs {
		out[i] = v.FDP
	}
	return out
}

// cmpOpts says which parts of a file view must agree.
type cmpOpts struct {
	ignoreModule     bool
	ignoreOrder      bool
	clearSourceInfo  bool // expected = original with source_code_info cleared
	dropImports      bool // expected = original without import files
	ignoreImportFlag bool
	descriptorsOnly  bool // FileDescriptorSet: only descriptors + order
	// unusedDepsOfTargetsOnly: compare the unused-dependency marker of non-import files only. The
	// compiler reports unused imports for the files it is asked to compile, so an import file carries
	// the marker only if it was a target when the image was first built. (The syntax-unspecified marker
	// is always compared: that warning is produced for every parsed file.)
	unusedDepsOfTargetsOnly bool
}

// compareViews compares got with want under a reference resolver. Returns (what, message).
func compareViews(res *refResolver, want, got []fileView, o cmpOpts) (string, string) {
	var exp []fileView
	for _, w := range want {
		if o.dropImports && w.IsImport {
			continue
		}
		exp = append(exp, w)
	}
	if len(exp) != len(got) {
		return "file-set", fmt.Sprintf("expected %d files %v, got %d files %v", len(exp), pathsOf(exp), len(got), pathsOf(got))
	}
	gotBy := map[string]fileView{}
	for _, g := range got {
		if _, dup := gotBy[g.Path]; dup {
			return "file-set", fmt.Sprintf("path %s occurs twice in the result", g.Path)
		}
		gotBy[g.Path] = g
	}
	for i, w := range exp {
		g, ok := gotBy[w.Path]
		if !ok {
			return "file-set", fmt.Sprintf("result lacks %s (has %v)", w.Path, pathsOf(got))
		}
		if !o.ignoreOrder && got[i].Path != w.Path {
			return "order", fmt.Sprintf("file %d is %s, expected %s (expected order %v, got %v)", i, got[i].Path, w.Path, pathsOf(exp), pathsOf(got))
		}
		wf := w.FDP
		if o.clearSourceInfo && wf.SourceCodeInfo != nil {
			wf = proto.Clone(wf).(*descriptorpb.FileDescriptorProto)
			wf.SourceCodeInfo = nil
		}
		wn, err := res.norm(wf)
		if err != nil {
			return "harness", fmt.Sprintf("cannot normalise expected %s: %v", w.Path, err)
		}
		gn, err := res.norm(g.FDP)
		if err != nil {
			return "descriptor-undecodable", fmt.Sprintf("%s: result descriptor cannot be decoded against the image's own types: %v", w.Path, err)
		}
		if !proto.Equal(wn, gn) {
			return "descriptor", fmt.Sprintf("%s: descriptor differs: %s", w.Path, firstDiff(wn.ProtoReflect(), gn.ProtoReflect(), w.Path))
		}
		if o.descriptorsOnly {
			continue
		}
		if !o.ignoreImportFlag && w.IsImport != g.IsImport {
			return "import-flag", fmt.Sprintf("%s: is_import=%v, expected %v", w.Path, g.IsImport, w.IsImport)
		}
		// the missing-syntax warning is produced for every file the compiler parses, imports included
		if w.NoSyntax != g.NoSyntax {
			return "syntax-unspecified", fmt.Sprintf("%s: is_syntax_unspecified=%v, expected %v (is_import=%v)", w.Path, g.NoSyntax, w.NoSyntax, g.IsImport)
		}
		if o.unusedDepsOfTargetsOnly && w.IsImport && g.IsImport {
			if !o.ignoreModule && w.Module != g.Module {
				return "module-name", fmt.Sprintf("%s: module %q, expected %q", w.Path, g.Module, w.Module)
			}
			continue
		}
		if fmt.Sprint(normIdx(w.UnusedDeps)) != fmt.Sprint(normIdx(g.UnusedDeps)) {
			return "unused-dependency", fmt.Sprintf("%s: unused_dependency=%v, expected %v", w.Path, g.UnusedDeps, w.UnusedDeps)
		}
		if !o.ignoreModule && w.Module != g.Module {
			return "module-name", fmt.Sprintf("%s: module %q, expected %q", w.Path, g.Module, w.Module)
		}
	}
	return "", ""
}

func normIdx(a []int32) []int32 {
	out := append([]int32{}, a...)
	sort.Slice(out, func(i, j int) bool { return out[i] < out[j] })
	return out
}

func pathsOf(vs []fileView) []string {
	out := make([]string, len(vs))
	for i, v := range vs {
		out[i] = v.Path
		if v.IsImport {
			out[i] += "(import)"
		}
	}
	return out
}

// firstDiff describes the first differing field (depth first) of two messages of the same type.
func firstDiff(a, b protoreflect.Message, at string) string {
	var out string
	seen := map[protoreflect.FieldNumber]bool{}
	check := func(fd protoreflect.FieldDescriptor) bool {
		if seen[fd.Number()] && !fd.IsExtension() {
			return true
		}
		seen[fd.Number()] = true
		ha, hb := a.Has(fd), b.Has(fd)
		name := string(fd.Name())
		if fd.IsExtension() {
			name = "(" + string(fd.FullName()) + ")"
		}
		if ha != hb {
			out = fmt.Sprintf("%s.%s present=%v vs %v", at, name, ha, hb)
			return false
		}
		va, vb := a.Get(fd), b.Get(fd)
		switch {
		case fd.IsList():
			la, lb := va.List(), vb.List()
			if la.Len() != lb.Len() {
				out = fmt.Sprintf("%s.%s has %d vs %d elements", at, name, la.Len(), lb.Len())
				return false
			}
			for i := 0; i < la.Len(); i++ {
				if fd.Message() != nil {
					if !proto.Equal(la.Get(i).Message().Interface(), lb.Get(i).Message().Interface()) {
						out = firstDiff(la.Get(i).Message(), lb.Get(i).Message(), fmt.Sprintf("%s.%s[%d]", at, name, i))
						return false
					}
				} else if !va.Equal(vb) {
					out = fmt.Sprintf("%s.%s[%d]: %v vs %v", at, name, i, la.Get(i), lb.Get(i))
					return false
				}
			}
		case fd.IsMap():
			if !va.Equal(vb) {
				out = fmt.Sprintf("%s.%s map differs", at, name)
				return false
			}
		case fd.Message() != nil:
			if !proto.Equal(va.Message().Interface(), vb.Message().Interface()) {
				out = firstDiff(va.Message(), vb.Message(), at+"."+name)
				return false
			}
		default:
			if !va.Equal(vb) {
				out = fmt.Sprintf("%s.%s: %v vs %v", at, name, va, vb)
				return false
			}
		}
		return true
	}
	cont := true
	a.Range(func(fd protoreflect.FieldDescriptor, _ protoreflect.Value) bool { cont = check(fd); return cont })
	if cont {
		b.Range(func(fd protoreflect.FieldDescriptor, _ protoreflect.Value) bool { cont = check(fd); return cont })
	}
	if out == "" && !bytes.Equal(a.GetUnknown(), b.GetUnknown()) {
		out = fmt.Sprintf("%s: unknown fields %x vs %x", at, []byte(a.GetUnknown()), []byte(b.GetUnknown()))
	}
	if out == "" {
		out = at + ": (difference not located)"
	}
	return out
}

// depOrdered checks "dependencies first" and closure. Returns a message or "".
func depOrdered(vs []fileView) string {
	pos := map[string]int{}
	for i, v := range vs {
		pos[v.Path] = i
	}
	for i, v := range vs {
		for _, d := range v.FDP.GetDependency() {
			j, ok := pos[d]
			if !ok {
				return fmt.Sprintf("%s depends on %s which is not in the image", v.Path, d)
			}
			if j >= i {
				return fmt.Sprintf("%s (index %d) precedes its dependency %s (index %d)", v.Path, i, d, j)
			}
		}
	}
	return ""
}

// dropField removes every occurrence of field num from raw unknown bytes.
func dropField(raw protoreflect.RawFields, num protowire.Number) protoreflect.RawFields {
	var out protoreflect.RawFields
	for len(raw) > 0 {
		n, typ, tl := protowire.ConsumeTag(raw)
		if tl < 0 {
			return append(out, raw...)
		}
		vl := protowire.ConsumeFieldValue(n, typ, raw[tl:])
		if vl < 0 {
			return append(out, raw...)
		}
		if n != num {
			out = append(out, raw[:tl+vl]...)
		}
		raw = raw[tl+vl:]
	}
	return out
}
