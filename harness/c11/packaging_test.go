package c11

// (b) every packaging of the same tree builds to the same image.

import (
	"context"
	"fmt"
	"os"
	"path/filepath"
	"strings"
	"testing"

	"github.com/bufbuild/bufverif/internal/evid"
	"github.com/bufbuild/bufverif/internal/protogen"
	"pgregory.net/rapid"
)

// PkgCase is the replayable input of one packaging comparison.
type PkgCase struct {
	Kind   string   `json:"kind"` // packaging
	Src    Src      `json:"src"`
	Kinds  []string `json:"packagings"`
	Prefix string   `json:"prefix,omitempty"` // directory prefix inside the archives (undone with strip_components / subdir)
}

var packagingKinds = []string{"tar", "tar.gz", "tgz", "tar.zst", "zip", "zip-deflate", "tar+strip_components", "tar.gz+subdir", "zip+subdir", "zip+strip_components", "tar#format", "export", "export-of-tar"}

func runPackaging(ctx context.Context, t fataler, r *evid.Recorder, c *PkgCase) {
	cli := newCLI(t, "c11pkg-")
	defer cli.close()
	root := filepath.Join(cli.dir, "ws")
	tree := c.Src.treeFiles("")
	writeTree(t, root, tree)
	code, ref, stderr := cli.run(ctx, "build", root, "-o", "-")
	r.Eval()
	if code != 0 {
		r.Fail(t, "packaging:dir", fmt.Sprintf("buf build <dir> on a generated buildable workspace: exit %d: %s", code, stderr), c)
		return
	}
	refPI, err := decodeImage([]byte(ref))
	if err != nil {
		r.Fail(t, "packaging:dir", fmt.Sprintf("buf build <dir> -o - did not print an image: %v", err), c)
		return
	}
	want, err := viewsOfProtoImage(refPI)
	if err != nil {
		t.Fatalf("harness: %v", err)
	}
	res, err := newRefResolver(fdpsOf(want))
	if err != nil {
		t.Fatalf("harness: reference resolver: %v", err)
	}
	// the API-level build of the same tree must agree with the CLI build (cross-check of the reference)
	if img, err := c.Src.buildFull(ctx); err != nil {
		t.Fatalf("harness: generated workspace does not build: %v", err)
	} else if what, m := compareViews(res, viewsOfImage(img), want, cmpOpts{}); what != "" {
		r.Fail(t, "packaging:dir:"+what, "buf build <dir> -o - differs from the module-set build of the same files: "+m, c)
		return
	}
	prefix := c.Prefix
	if prefix == "" {
		prefix = "pre"
	}
	write := func(name string, data []byte) string {
		p := filepath.Join(cli.dir, name)
		if err := os.WriteFile(p, data, 0o644); err != nil {
			t.Fatalf("harness: %v", err)
		}
		return p
	}
	nHere := 0
	for _, kind := range c.Kinds {
		var input string
		switch kind {
		case "tar":
			input = write("a.tar", tarBytes(t, tree, ""))
		case "tar.gz":
			input = write("b.tar.gz", gzipBytes(t, tarBytes(t, tree, "")))
		case "tgz":
			input = write("c.tgz", gzipBytes(t, tarBytes(t, tree, "")))
		case "tar.zst":
			// produced by buf itself? no writer for archives exists; zstd archives are made with klauspost through the harness
			input = write("d.tar.zst", zstdBytes(t, tarBytes(t, tree, "")))
		case "zip":
			input = write("e.zip", zipBytes(t, tree, "", false))
		case "zip-deflate":
			input = write("f.zip", zipBytes(t, tree, "", true))
		case "tar+strip_components":
			input = write("g.tar", tarBytes(t, tree, prefix)) + fmt.Sprintf("#strip_components=%d", strings.Count(prefix, "/")+1)
		case "tar.gz+subdir":
			input = write("h.tar.gz", gzipBytes(t, tarBytes(t, tree, prefix))) + "#subdir=" + prefix
		case "zip+subdir":
			input = write("i.zip", zipBytes(t, tree, prefix, true)) + "#subdir=" + prefix
		case "zip+strip_components":
			input = write("j.zip", zipBytes(t, tree, prefix, false)) + fmt.Sprintf("#strip_components=%d", strings.Count(prefix, "/")+1)
		case "tar#format":
			input = write("k.data", gzipBytes(t, tarBytes(t, tree, ""))) + "#format=tar,compression=gzip"
		case "export", "export-of-tar":
			src := root
			if kind == "export-of-tar" {
				src = write("x.tar", tarBytes(t, tree, ""))
			}
			outDir := filepath.Join(cli.dir, "exported-"+kind)
			code, _, stderr := cli.run(ctx, "export", src, "-o", outDir)
			r.Eval()
			if code != 0 {
				r.Fail(t, "packaging:"+kind, fmt.Sprintf("buf export: exit %d: %s", code, stderr), c)
				return
			}
			// export promises: the .proto files of the image of the source, at their import paths, in one directory
			// (well-known types that are not part of the workspace are not exported)
			var exported []string
			_ = filepath.Walk(outDir, func(p string, info os.FileInfo, err error) error {
				if err == nil && !info.IsDir() {
					rel, _ := filepath.Rel(outDir, p)
					exported = append(exported, filepath.ToSlash(rel))
				}
				return nil
			})
			all := c.Src.allPaths()
			if strings.Join(sortedCopy(exported), ",") != strings.Join(all, ",") {
				r.Fail(t, "packaging:"+kind+":file-set", fmt.Sprintf("buf export wrote %v, the workspace's .proto files are %v", sortedCopy(exported), all), c)
				return
			}
			for _, p := range all {
				data, err := os.ReadFile(filepath.Join(outDir, filepath.FromSlash(p)))
				if err != nil {
					t.Fatalf("harness: %v", err)
				}
				if string(data) != c.Src.Files[c.Src.moduleOf(p)][p] {
					r.Fail(t, "packaging:"+kind+":content", fmt.Sprintf("exported %s differs from the source file", p), c)
					return
				}
			}
			code, out, stderr := cli.run(ctx, "build", outDir, "-o", "-")
			if code != 0 {
				r.Fail(t, "packaging:"+kind, fmt.Sprintf("buf build <export output>: exit %d: %s", code, stderr), c)
				return
			}
			pi, err := decodeImage([]byte(out))
			if err != nil {
				r.Fail(t, "packaging:"+kind, fmt.Sprintf("not an image: %v", err), c)
				return
			}
			got, err := viewsOfProtoImage(pi)
			if err != nil {
				t.Fatalf("harness: %v", err)
			}
			// one directory, no buf.yaml: module names legitimately disappear; the file order does not change
			// (target files are documented to be taken sorted by path, whatever module they live in)
			if what, m := compareViews(res, want, got, cmpOpts{ignoreModule: true}); what != "" {
				r.Fail(t, "packaging:"+kind+":"+what, m, c)
				return
			}
			if m := depOrdered(got); m != "" {
				r.Fail(t, "packaging:"+kind+":order", m, c)
				return
			}
			r.Class("packaging:" + kind)
			nHere++
			continue
		default:
			t.Fatalf("harness: unknown packaging %q", kind)
		}
		code, out, stderr := cli.run(ctx, "build", input, "-o", "-")
		r.Eval()
		if code != 0 {
			r.Fail(t, "packaging:"+kind, fmt.Sprintf("buf build %s: exit %d: %s", strings.Join(relArgs([]string{input}, cli.dir), ""), code, stderr), c)
			return
		}
		if out != ref {
			detail := "images decode to the same files"
			if pi, err := decodeImage([]byte(out)); err != nil {
				detail = "output is not an image: " + err.Error()
			} else if got, err := viewsOfProtoImage(pi); err == nil {
				if what, m := compareViews(res, want, got, cmpOpts{}); what != "" {
					detail = what + ": " + m
				}
			}
			r.Fail(t, "packaging:"+kind, fmt.Sprintf("buf build %s -o - (%d bytes) is not byte-identical to buf build <dir> -o - (%d bytes): %s", strings.Join(relArgs([]string{input}, cli.dir), ""), len(out), len(ref), detail), c)
			return
		}
		r.Class("packaging:" + kind)
		nHere++
	}
	if len(c.Src.Mods) >= 2 {
		r.Class("packaging:multi-module")
	}
	if hasStemShape(c.Src) {
		r.Class("packaging:file-or-directory-shares-stem-with-sibling-directory")
	}
	if nHere >= 3 && len(c.Src.allPaths()) >= 2 {
		r.NonTrivial("packaging|" + c.Src.canon() + "|" + strings.Join(c.Kinds, ","))
		r.Sample(map[string]any{"kind": "packaging", "files": c.Src.allPaths(), "packagings": c.Kinds})
	}
}

// addStemShapes adds tiny extra files whose names make "order of directory entries" and "order of
// full paths" disagree: a file `<dir>.proto` next to the directory `<dir>/` ('.' sorts before '/'),
// and a directory `<dir>-x/` next to `<dir>/` ('-' sorts before '/'). A directory packaging is
// enumerated entry by entry, an archive by full path; the built image must not depend on that.
func addStemShapes(t *rapid.T, src *Src) {
	n := rapid.IntRange(0, 3).Draw(t, "stem-shapes")
	for k := 0; k < n; k++ {
		m := src.Mods[rapid.IntRange(0, len(src.Mods)-1).Draw(t, "stem-module")]
		dirs := dirsOf(protogen.SortedPaths(src.Files[m.Dir]))
		if len(dirs) == 0 {
			continue
		}
		d := dirs[rapid.IntRange(0, len(dirs)-1).Draw(t, "stem-dir")]
		p := d + ".proto"
		if rapid.Bool().Draw(t, "stem-kind") {
			p = d + "-x/extra.proto"
		}
		if src.moduleOf(p) != "" {
			continue
		}
		src.Files[m.Dir][p] = fmt.Sprintf("syntax = \"proto3\";\npackage stemshape%d.v1;\nmessage StemShape%d {\n  string value = 1;\n}\n", k, k)
	}
}

func hasStemShape(src Src) bool {
	for _, p := range src.allPaths() {
		if strings.HasSuffix(p, "-x/extra.proto") {
			return true
		}
		if d := strings.TrimSuffix(p, ".proto"); d != p {
			for _, q := range src.allPaths() {
				if strings.HasPrefix(q, d+"/") {
					return true
				}
			}
		}
	}
	return false
}

func sortedCopy(a []string) []string {
	out := append([]string{}, a...)
	sortStrings(out)
	return out
}

func TestPackagings(t *testing.T) {
	r := evid.R()
	ctx := context.Background()
	r.Check(t, r.Scale(28, 560), 3, func(t *rapid.T) {
		src, _ := genSrc(t, false)
		addStemShapes(t, &src)
		c := &PkgCase{Kind: "packaging", Src: src}
		perm := rapid.Permutation(packagingKinds).Draw(t, "kinds")
		c.Kinds = perm[:rapid.IntRange(3, 6).Draw(t, "n-kinds")]
		c.Prefix = []string{"pre", "deep/er", "x.y"}[rapid.IntRange(0, 2).Draw(t, "prefix")]
		runPackaging(ctx, t, r, c)
	})
}
