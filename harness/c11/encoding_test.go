package c11

// (a) encoding matrix: image -> {binpb,json,txtpb,yaml} x {none,gzip,zstd} x
// {--exclude-imports, --exclude-source-info, --as-file-descriptor-set} -> read back -> equals the original.

import (
	"bytes"
	"context"
	"fmt"
	"io"
	"os"
	"path/filepath"
	"strings"
	"testing"

	"github.com/bufbuild/buf/private/buf/buffetch"
	"github.com/bufbuild/buf/private/bufpkg/bufimage"
	imagev1 "github.com/bufbuild/buf/private/gen/proto/go/buf/alpha/image/v1"
	"github.com/bufbuild/buf/private/pkg/app"
	"github.com/bufbuild/buf/private/pkg/protoencoding"
	"github.com/bufbuild/buf/private/pkg/storage/storageos"
	"github.com/bufbuild/bufverif/internal/bufx"
	"github.com/bufbuild/bufverif/internal/evid"
	"github.com/bufbuild/bufverif/internal/protogen"
	"google.golang.org/protobuf/encoding/protowire"
	"google.golang.org/protobuf/proto"
	"google.golang.org/protobuf/reflect/protodesc"
	"google.golang.org/protobuf/reflect/protoreflect"
	"google.golang.org/protobuf/types/descriptorpb"
	"pgregory.net/rapid"
)

var (
	formats      = []string{"binpb", "json", "txtpb", "yaml"}
	compressions = []string{"none", "gzip", "zstd"}
)

// EncCase is the replayable input of one encoding round trip.
type EncCase struct {
	Kind           string   `json:"kind"` // enc-api | enc-cli
	Src            Src      `json:"src"`
	NonTarget      []string `json:"non_target_modules,omitempty"` // api: module dirs added as non-target (their files are imports)
	Format         string   `json:"format"`
	Compression    string   `json:"compression"`
	Spelling       string   `json:"spelling"` // ext | options | deprecated
	UseProtoNames  bool     `json:"use_proto_names,omitempty"`
	UseEnumNumbers bool     `json:"use_enum_numbers,omitempty"`
	ExcludeImports bool     `json:"exclude_imports,omitempty"`
	ExcludeSrcInfo bool     `json:"exclude_source_info,omitempty"`
	AsFDS          bool     `json:"as_file_descriptor_set,omitempty"`
	FlagsOnRead    bool     `json:"flags_on_read,omitempty"` // cli: --exclude-* given to the reading command instead of the writing one
	Recipe         string   `json:"recipe,omitempty"`        // api: bootstrap (two-pass, as the controller) | resolver (image resolver known)
	Unknown        []UnkInj `json:"unknown_fields,omitempty"`
}

// UnkInj is one unknown field injected into the proto image before writing.
type UnkInj struct {
	File  int    `json:"file"`  // index into image files
	Where string `json:"where"` // file | message | field | file-options | message-options
	Num   int32  `json:"num"`
	Value string `json:"value"`
}

// outRefs returns the output reference given to the writing command and the reference given to the
// reading command (same path, format/compression options kept, marshal options dropped).
func (c *EncCase) outRefs(base string) (string, string) {
	ext := map[string]string{"none": "", "gzip": ".gz", "zstd": ".zst", "": ""}[c.Compression]
	comp := c.Compression
	if comp == "" {
		comp = "none"
	}
	path := base + "." + c.Format + ext
	var ropts []string
	switch c.Spelling {
	case "options":
		path = base + ".img"
		ropts = []string{"format=" + c.Format, "compression=" + comp}
	case "deprecated":
		switch {
		case c.Format == "binpb" && comp == "gzip":
			path, ropts = base+".x", []string{"format=bingz"}
		case c.Format == "json" && comp == "gzip":
			path, ropts = base+".x", []string{"format=jsongz"}
		case c.Format == "binpb" && comp == "none":
			path = base + ".bin"
		}
	}
	wopts := append([]string{}, ropts...)
	if c.UseProtoNames {
		wopts = append(wopts, "use_proto_names=true")
	}
	if c.UseEnumNumbers {
		wopts = append(wopts, "use_enum_numbers=true")
	}
	join := func(o []string) string {
		if len(o) == 0 {
			return path
		}
		return path + "#" + strings.Join(o, ",")
	}
	return join(wopts), join(ropts)
}

func genEncCommon(t *rapid.T, c *EncCase) {
	c.Format = formats[rapid.IntRange(0, 3).Draw(t, "format")]
	c.Compression = compressions[rapid.IntRange(0, 2).Draw(t, "compression")]
	c.Spelling = []string{"ext", "ext", "options", "deprecated"}[rapid.IntRange(0, 3).Draw(t, "spelling")]
	// use_proto_names / use_enum_numbers are option keys of the json and yaml formats only (not of the deprecated jsongz)
	if (c.Format == "json" || c.Format == "yaml") && c.Spelling != "deprecated" {
		c.UseProtoNames = rapid.IntRange(0, 3).Draw(t, "protonames") == 0
		c.UseEnumNumbers = rapid.IntRange(0, 3).Draw(t, "enumnumbers") == 0
	}
	c.ExcludeImports = rapid.IntRange(0, 3).Draw(t, "excl-imports") == 0
	c.ExcludeSrcInfo = rapid.IntRange(0, 3).Draw(t, "excl-srcinfo") == 0
	c.AsFDS = rapid.IntRange(0, 4).Draw(t, "as-fds") == 0
}

func genSrc(t *rapid.T, thorough bool) (Src, *protogen.Workspace) {
	cfg := protogen.DefaultConfig()
	cfg.CustomOptions = true
	if thorough {
		cfg.MaxFiles, cfg.MaxPackages = 8, 5
	}
	ws := protogen.GenWorkspace(t, cfg)
	addLegacyNested(t, ws)
	return srcOf(ws), ws
}

// addLegacyNested gives some proto2 files a NESTED message that uses the legacy MessageSet wire format
// (`option message_set_wire_format = true;` + an extension range, no fields) inside a parent that has
// no legacy feature itself: an option the Go runtime cannot link, which buf therefore strips from the
// copies it builds its resolvers from. The image itself must keep it through every read and write.
func addLegacyNested(t *rapid.T, ws *protogen.Workspace) {
	for _, f := range ws.AllFiles() {
		if f.Syntax != protogen.Proto2 && f.Syntax != protogen.SyntaxUnspecified {
			continue
		}
		if len(f.Messages) == 0 || f.Package == "options.v1" || rapid.IntRange(0, 2).Draw(t, "legacy-nested") != 0 {
			continue
		}
		parent := f.Messages[rapid.IntRange(0, len(f.Messages)-1).Draw(t, "legacy-parent")]
		if len(parent.Nested) > 0 && rapid.Bool().Draw(t, "legacy-deeper") {
			parent = parent.Nested[0]
		}
		parent.Nested = append(parent.Nested, &protogen.Message{
			ID:              parent.ID + "-legacyset",
			Name:            "VerifLegacySet",
			Comment:         "VerifLegacySet message.",
			Options:         []protogen.Option{{Name: "message_set_wire_format", Value: "true"}},
			ExtensionRanges: []protogen.Range{{Start: 4, End: 1000}},
		})
	}
}

func hasNestedMessageSet(vs []fileView) bool {
	var rec func(ms []*descriptorpb.DescriptorProto, depth int) bool
	rec = func(ms []*descriptorpb.DescriptorProto, depth int) bool {
		for _, m := range ms {
			if depth > 0 && m.GetOptions().GetMessageSetWireFormat() {
				return true
			}
			if rec(m.NestedType, depth+1) {
				return true
			}
		}
		return false
	}
	for _, v := range vs {
		if rec(v.FDP.MessageType, 0) {
			return true
		}
	}
	return false
}

// hasCustomOption reports whether any descriptor of the views carries an extension in an options message.
func hasCustomOption(res *refResolver, vs []fileView) bool {
	for _, v := range vs {
		n, err := res.norm(v.FDP)
		if err != nil {
			continue
		}
		if ext, _ := countOptionExtensions(n.ProtoReflect()); ext > 0 {
			return true
		}
	}
	return false
}

func injectUnknown(t fataler, pi *imagev1.Image, inj []UnkInj) {
	t.Helper()
	add := func(m protoreflect.Message, u UnkInj) {
		raw := m.GetUnknown()
		raw = protowire.AppendTag(raw, protowire.Number(u.Num), protowire.BytesType)
		raw = protowire.AppendString(raw, u.Value)
		m.SetUnknown(raw)
	}
	for _, u := range inj {
		if u.File >= len(pi.GetFile()) {
			continue
		}
		f := pi.GetFile()[u.File]
		switch u.Where {
		case "file":
			add(f.ProtoReflect(), u)
		case "message":
			if len(f.GetMessageType()) > 0 {
				add(f.GetMessageType()[0].ProtoReflect(), u)
			}
		case "field":
			if len(f.GetMessageType()) > 0 && len(f.GetMessageType()[0].GetField()) > 0 {
				add(f.GetMessageType()[0].GetField()[0].ProtoReflect(), u)
			}
		case "file-options":
			if f.GetOptions() == nil {
				f.SetOptions(&descriptorpb.FileOptions{})
			}
			add(f.GetOptions().ProtoReflect(), u)
		case "message-options":
			if len(f.GetMessageType()) > 0 {
				m := f.GetMessageType()[0]
				if m.Options == nil {
					m.Options = &descriptorpb.MessageOptions{}
				}
				add(m.Options.ProtoReflect(), u)
			}
		}
	}
}

func genUnknown(t *rapid.T, nFiles int) []UnkInj {
	n := rapid.IntRange(1, 3).Draw(t, "n-unknown")
	var out []UnkInj
	seen := map[string]bool{}
	for i := 0; i < n; i++ {
		u := UnkInj{
			File:  rapid.IntRange(0, nFiles-1).Draw(t, "unk-file"),
			Where: []string{"file", "message", "field", "file-options", "message-options"}[rapid.IntRange(0, 4).Draw(t, "unk-where")],
			Num:   int32(rapid.IntRange(90001, 90009).Draw(t, "unk-num")),
			Value: rapid.StringMatching(`[a-z]{0,6}`).Draw(t, "unk-value"),
		}
		k := fmt.Sprintf("%d/%s", u.File, u.Where)
		if seen[k] {
			continue // one unknown field per message: the relative order of several is not part of the claim
		}
		seen[k] = true
		out = append(out, u)
	}
	return out
}

// ---------------------------------------------------------------------------------------------
// API level

var (
	msgRefParser = buffetch.NewMessageRefParser(bufx.Logger)
	fetchWriter  = buffetch.NewWriter(bufx.Logger)
	fetchReader  = buffetch.NewMessageReader(bufx.Logger, storageos.NewProvider(), nil, nil, nil)
)

func marshalerFor(c *EncCase, res protoencoding.Resolver) protoencoding.Marshaler {
	switch c.Format {
	case "json":
		var o []protoencoding.JSONMarshalerOption
		if c.UseProtoNames {
			o = append(o, protoencoding.JSONMarshalerWithUseProtoNames())
		}
		if c.UseEnumNumbers {
			o = append(o, protoencoding.JSONMarshalerWithUseEnumNumbers())
		}
		return protoencoding.NewJSONMarshaler(res, o...)
	case "txtpb":
		return protoencoding.NewTxtpbMarshaler(res)
	case "yaml":
		o := []protoencoding.YAMLMarshalerOption{protoencoding.YAMLMarshalerWithIndent()}
		if c.UseProtoNames {
			o = append(o, protoencoding.YAMLMarshalerWithUseProtoNames())
		}
		if c.UseEnumNumbers {
			o = append(o, protoencoding.YAMLMarshalerWithUseEnumNumbers())
		}
		return protoencoding.NewYAMLMarshaler(res, o...)
	}
	return protoencoding.NewWireMarshaler()
}

func unmarshalerFor(format string, res protoencoding.Resolver) protoencoding.Unmarshaler {
	switch format {
	case "json":
		return protoencoding.NewJSONUnmarshaler(res)
	case "txtpb":
		return protoencoding.NewTxtpbUnmarshaler(res)
	case "yaml":
		return protoencoding.NewYAMLUnmarshaler(res)
	}
	return protoencoding.NewWireUnmarshaler(res)
}

// throughFetch writes data with the buffetch writer (compression per the output reference) and
// reads it back with the buffetch reader.
func throughFetch(ctx context.Context, ref string, data []byte) ([]byte, []byte, error) {
	container := app.NewContainer(map[string]string{}, bytes.NewReader(nil), io.Discard, io.Discard, "buf")
	mref, err := msgRefParser.GetMessageRef(ctx, ref)
	if err != nil {
		return nil, nil, fmt.Errorf("parse ref %q: %w", ref, err)
	}
	wc, err := fetchWriter.PutMessageFile(ctx, container, mref)
	if err != nil {
		return nil, nil, fmt.Errorf("put: %w", err)
	}
	if _, err := wc.Write(data); err != nil {
		return nil, nil, fmt.Errorf("write: %w", err)
	}
	if err := wc.Close(); err != nil {
		return nil, nil, fmt.Errorf("close: %w", err)
	}
	onDisk, err := os.ReadFile(mref.Path())
	if err != nil {
		return nil, nil, fmt.Errorf("harness: output not at %s: %w", mref.Path(), err)
	}
	rc, err := fetchReader.GetMessageFile(ctx, container, mref)
	if err != nil {
		return nil, nil, fmt.Errorf("get: %w", err)
	}
	defer rc.Close()
	back, err := io.ReadAll(rc)
	if err != nil {
		return nil, nil, fmt.Errorf("read: %w", err)
	}
	return onDisk, back, nil
}

func runEncAPI(ctx context.Context, t fataler, r *evid.Recorder, c *EncCase, tmp string) {
	specs := map[string]bufx.ModuleSpec{}
	for _, d := range c.NonTarget {
		specs[d] = bufx.ModuleSpec{Target: false}
	}
	img, err := c.Src.buildSpecs(ctx, specs)
	if err != nil {
		t.Fatalf("harness: generated workspace does not build: %v", err)
	}
	viaBuildOption := c.ExcludeSrcInfo && len(c.Unknown) == 0
	orig, err := bufimage.ImageToProtoImage(img)
	if err != nil {
		t.Fatalf("harness: %v", err)
	}
	orig = proto.Clone(orig).(*imagev1.Image)
	injectUnknown(t, orig, c.Unknown)
	want, err := viewsOfProtoImage(orig)
	if err != nil {
		t.Fatalf("harness: %v", err)
	}
	res, err := newRefResolver(fdpsOf(want))
	if err != nil {
		t.Fatalf("harness: reference resolver: %v", err)
	}
	if c.ExcludeImports {
		// Precondition of re-reading an image WITHOUT its imports: the remaining files must be linkable on
		// their own with placeholders for what is missing (protobuf-go's AllowUnresolvable). That is not
		// the case when a retained file reaches a type through a public import of an omitted file, or has
		// a delimited (group-encoded) field whose message type lives in an omitted file. Only non-WKT
		// import files (dependency-only modules) can cause it; such cases are counted and skipped.
		var kept []*descriptorpb.FileDescriptorProto
		for _, v := range want {
			if !v.IsImport {
				kept = append(kept, v.FDP)
			}
		}
		if _, err := (protodesc.FileOptions{AllowUnresolvable: true}).NewFiles(&descriptorpb.FileDescriptorSet{File: withoutMessageSet(kept)}); err != nil {
			r.Excluded("exclude-imports:remaining-files-not-linkable-without-the-omitted-imports")
			return
		}
	}
	// the message that is written: what PutImage documents
	src := img
	if viaBuildOption {
		// what `buf build <sources> --exclude-source-info` does
		src, err = c.Src.buildSpecs(ctx, specs, bufimage.WithExcludeSourceCodeInfo())
		if err != nil {
			r.Fail(t, "roundtrip:exclude-source-info:build-failed", err.Error(), c)
			return
		}
	}
	if len(c.Unknown) > 0 {
		// an image that carries unknown fields can only come from a serialized image
		src, err = bufimage.NewImageForProto(proto.Clone(orig).(*imagev1.Image))
		if err != nil {
			r.Fail(t, "roundtrip:binpb:image-with-unknown-fields-rejected", fmt.Sprintf("NewImageForProto on an image with unknown fields %v: %v", c.Unknown, err), c)
			return
		}
	}
	put := src
	if c.ExcludeImports {
		put = bufimage.ImageWithoutImports(put)
	}
	var msg proto.Message
	if c.AsFDS {
		msg = bufimage.ImageToFileDescriptorSet(put)
	} else {
		msg, err = bufimage.ImageToProtoImage(put)
		if err != nil {
			r.Fail(t, "roundtrip:"+c.Format+":to-proto-image-failed", err.Error(), c)
			return
		}
	}
	if c.ExcludeSrcInfo && !viaBuildOption {
		// what `buf build <image> --exclude-source-info` does
		msg = proto.Clone(msg)
		switch m := msg.(type) {
		case *imagev1.Image:
			for _, f := range m.GetFile() {
				f.ClearSourceCodeInfo()
			}
		case *descriptorpb.FileDescriptorSet:
			for _, f := range m.GetFile() {
				f.SourceCodeInfo = nil
			}
		}
	}
	data, err := marshalerFor(c, src.Resolver()).Marshal(msg)
	r.Eval()
	key := "roundtrip:" + c.Format + ":"
	if err != nil {
		r.Fail(t, key+"marshal-failed", fmt.Sprintf("marshal as %s: %v", c.Format, err), c)
		return
	}
	if c.Compression != "" {
		ref, _ := c.outRefs(filepath.Join(tmp, "img"))
		onDisk, back, err := throughFetch(ctx, ref, data)
		if err != nil {
			if strings.HasPrefix(err.Error(), "harness") {
				t.Fatalf("%v", err)
			}
			r.Fail(t, "roundtrip:compression:"+c.Compression+":io-failed", fmt.Sprintf("%s: %v", ref, err), c)
			return
		}
		if !bytes.Equal(back, data) {
			r.Fail(t, "roundtrip:compression:"+c.Compression+":bytes-differ", fmt.Sprintf("%s: wrote %d bytes, read back %d bytes (on disk %d)", ref, len(data), len(back), len(onDisk)), c)
			return
		}
		if c.Compression != "none" && bytes.Equal(onDisk, data) && len(data) > 64 {
			r.Fail(t, "roundtrip:compression:"+c.Compression+":not-compressed", fmt.Sprintf("%s: file content equals the uncompressed message", ref), c)
			return
		}
		data = back
	}
	// read back
	var boot protoencoding.Resolver
	if c.Format != "binpb" {
		if c.Recipe == "bootstrap" {
			first := msg.ProtoReflect().New().Interface()
			if err := unmarshalerFor(c.Format, nil).Unmarshal(data, first); err != nil {
				r.Fail(t, key+"read-failed", fmt.Sprintf("first (bootstrap) unmarshal pass: %v", err), c)
				return
			}
			var fdps []*descriptorpb.FileDescriptorProto
			switch m := first.(type) {
			case *imagev1.Image:
				vs, err := viewsOfProtoImage(m)
				if err != nil {
					t.Fatalf("harness: %v", err)
				}
				fdps = fdpsOf(vs)
			case *descriptorpb.FileDescriptorSet:
				fdps = m.GetFile()
			}
			boot, err = protoencoding.NewResolver(fdps...)
			if err != nil {
				r.Fail(t, key+"read-failed", fmt.Sprintf("bootstrap resolver: %v", err), c)
				return
			}
		} else {
			boot = src.Resolver()
		}
	}
	back := msg.ProtoReflect().New().Interface()
	if err := unmarshalerFor(c.Format, boot).Unmarshal(data, back); err != nil {
		r.Fail(t, key+"read-failed", fmt.Sprintf("unmarshal: %v", err), c)
		return
	}
	var got []fileView
	o := cmpOpts{dropImports: c.ExcludeImports, clearSourceInfo: c.ExcludeSrcInfo}
	switch m := back.(type) {
	case *descriptorpb.FileDescriptorSet:
		o.descriptorsOnly = true
		for _, f := range m.GetFile() {
			got = append(got, fileView{Path: f.GetName(), FDP: f})
		}
	case *imagev1.Image:
		var opts []bufimage.NewImageForProtoOption
		if c.Format != "binpb" {
			opts = append(opts, bufimage.WithNoReparse())
		}
		img2, err := bufimage.NewImageForProto(m, opts...)
		if err != nil {
			r.Fail(t, key+"read-failed", fmt.Sprintf("NewImageForProto: %v", err), c)
			return
		}
		got = viewsOfImage(img2)
	}
	classifyEnc(r, c, res, want)
	if len(c.Unknown) == 0 {
		// writing and reading must not modify the in-memory image that was written
		now, err := bufimage.ImageToProtoImage(img)
		if err != nil {
			t.Fatalf("harness: %v", err)
		}
		nowViews, err := viewsOfProtoImage(now)
		if err != nil {
			t.Fatalf("harness: %v", err)
		}
		for i, v := range nowViews {
			if !proto.Equal(v.FDP, want[i].FDP) {
				r.Fail(t, key+"source-image-mutated", fmt.Sprintf("after writing and reading, the in-memory image that was written has changed: %s", firstDiff(want[i].FDP.ProtoReflect(), v.FDP.ProtoReflect(), v.Path)), c)
				return
			}
		}
	}
	if what, m := compareViews(res, want, got, o); what != "" {
		if what == "harness" {
			t.Fatalf("harness: %s", m)
		}
		r.Fail(t, key+what, fmt.Sprintf("%s/%s (exclude-imports=%v exclude-source-info=%v fds=%v recipe=%s): %s", c.Format, c.Compression, c.ExcludeImports, c.ExcludeSrcInfo, c.AsFDS, c.Recipe, m), c)
	}
}

func classifyEnc(r *evid.Recorder, c *EncCase, res *refResolver, want []fileView) {
	comp := c.Compression
	if comp == "" {
		comp = "uncompressed-api"
	}
	r.Class(c.Kind + ":" + c.Format + "/" + comp)
	r.Class(c.Kind + ":spelling:" + c.Spelling)
	if c.ExcludeImports {
		r.Class(c.Kind + ":exclude-imports")
	}
	if c.ExcludeSrcInfo {
		r.Class(c.Kind + ":exclude-source-info")
	}
	if c.AsFDS {
		r.Class(c.Kind + ":as-file-descriptor-set")
	}
	if len(c.Unknown) > 0 {
		r.Class(c.Kind + ":unknown-fields")
	}
	nImp, nNoSyn, nUnused, nNamed := 0, 0, 0, 0
	for _, v := range want {
		if v.IsImport {
			nImp++
		}
		if v.NoSyntax {
			nNoSyn++
		}
		if len(v.UnusedDeps) > 0 {
			nUnused++
		}
		if v.Module != "" {
			nNamed++
		}
	}
	if nImp > 0 {
		r.Class(c.Kind + ":has-import-files")
	}
	for _, v := range want {
		if v.IsImport && !strings.HasPrefix(v.Path, "google/protobuf/") {
			r.Class(c.Kind + ":has-non-wkt-import-files")
			break
		}
	}
	if nNoSyn > 0 {
		r.Class(c.Kind + ":has-syntax-unspecified")
	}
	if hasNestedMessageSet(want) {
		r.Class(c.Kind + ":has-nested-message-set-option")
	}
	if nUnused > 0 {
		r.Class(c.Kind + ":has-unused-dependency")
	}
	if nNamed > 0 {
		r.Class(c.Kind + ":has-module-name")
	}
	if hasCustomOption(res, want) {
		r.Class(c.Kind + ":has-custom-option")
		if c.Format != "binpb" {
			r.NonTrivial(fmt.Sprintf("%s|%s|%s|%s|%v%v%v%v", c.Kind, c.Src.canon(), c.Format, c.Compression, c.ExcludeImports, c.ExcludeSrcInfo, c.AsFDS, c.NonTarget))
			r.Sample(map[string]any{"kind": c.Kind, "files": c.Src.allPaths(), "format": c.Format, "compression": c.Compression, "exclude_imports": c.ExcludeImports, "exclude_source_info": c.ExcludeSrcInfo, "as_fds": c.AsFDS})
		}
	}
}

func TestEncodingAPI(t *testing.T) {
	r := evid.R()
	ctx := context.Background()
	tmp := t.TempDir()
	n := 0
	r.Check(t, r.Scale(480, 12000), 1, func(t *rapid.T) {
		n++
		src, _ := genSrc(t, r.Thorough())
		c := &EncCase{Kind: "enc-api", Src: src}
		genEncCommon(t, c)
		if c.Format != "binpb" {
			c.Recipe = []string{"bootstrap", "resolver"}[rapid.IntRange(0, 1).Draw(t, "recipe")]
			if c.Format == "yaml" {
				// the two-pass recipe for yaml is exercised through the CLI (TestEncodingCLI)
				c.Recipe = "resolver"
			}
		}
		// some modules only as dependencies (their files are imports of the image)
		for i, m := range src.Mods {
			if i > 0 && rapid.IntRange(0, 2).Draw(t, "nontarget") == 0 {
				c.NonTarget = append(c.NonTarget, m.Dir)
			}
		}
		if c.ExcludeImports && reexportsTarget(src, c.NonTarget) {
			// An image WITHOUT its imports can only be linked again (resolver for custom options, both the
			// bootstrap pass and NewImageForProto's reparse) when the omitted files are not needed to link
			// the remaining ones. protogen does not keep the module graph acyclic, so a dependency-only
			// module may publicly re-export a file of a target module, through which a target file then
			// reaches its type: impossible for real dependency modules (module cycles). Excluded.
			r.Excluded("exclude-imports:dependency-module-publicly-reexports-target-file")
			c.ExcludeImports = false
		}
		if c.Format == "binpb" && !c.AsFDS && rapid.IntRange(0, 1).Draw(t, "unknown") == 0 {
			c.Unknown = genUnknown(t, len(src.allPaths()))
		}
		if rapid.IntRange(0, 2).Draw(t, "compress") != 0 {
			c.Compression = "" // marshal/unmarshal only
		}
		dir := filepath.Join(tmp, fmt.Sprintf("c%d", n))
		if err := os.MkdirAll(dir, 0o755); err != nil {
			t.Fatalf("harness: %v", err)
		}
		defer os.RemoveAll(dir)
		runEncAPI(ctx, t, r, c, dir)
	})
}

// reexportsTarget reports whether a file of a dependency-only module publicly imports a file of a target module.
func reexportsTarget(src Src, nonTarget []string) bool {
	non := map[string]bool{}
	for _, d := range nonTarget {
		non[d] = true
	}
	for _, m := range src.Mods {
		if !non[m.Dir] {
			continue
		}
		for _, txt := range src.Files[m.Dir] {
			for _, line := range strings.Split(txt, "\n") {
				if strings.HasPrefix(line, "import public \"") {
					p := strings.TrimSuffix(strings.TrimPrefix(line, "import public \""), "\";")
					if owner := src.moduleOf(p); owner != "" && !non[owner] {
						return true
					}
				}
			}
		}
	}
	return false
}

// ---------------------------------------------------------------------------------------------
// CLI level

func runEncCLI(ctx context.Context, t fataler, r *evid.Recorder, c *EncCase) {
	img, err := c.Src.buildFull(ctx)
	if err != nil {
		t.Fatalf("harness: generated workspace does not build: %v", err)
	}
	cli := newCLI(t, "c11enc-")
	defer cli.close()
	root := filepath.Join(cli.dir, "ws")
	writeTree(t, root, c.Src.treeFiles(""))
	input := root
	want := viewsOfImage(img)
	key := "roundtrip:" + c.Format + ":"
	if len(c.Unknown) > 0 {
		// the input is a serialized image carrying unknown fields
		pi, err := bufimage.ImageToProtoImage(img)
		if err != nil {
			t.Fatalf("harness: %v", err)
		}
		pi = proto.Clone(pi).(*imagev1.Image)
		injectUnknown(t, pi, c.Unknown)
		data, err := proto.MarshalOptions{Deterministic: true}.Marshal(pi)
		if err != nil {
			t.Fatalf("harness: %v", err)
		}
		input = filepath.Join(cli.dir, "in.binpb")
		if err := os.WriteFile(input, data, 0o644); err != nil {
			t.Fatalf("harness: %v", err)
		}
		if want, err = viewsOfProtoImage(pi); err != nil {
			t.Fatalf("harness: %v", err)
		}
	}
	res, err := newRefResolver(fdpsOf(want))
	if err != nil {
		t.Fatalf("harness: reference resolver: %v", err)
	}
	var filterFlags []string
	if c.ExcludeImports {
		filterFlags = append(filterFlags, "--exclude-imports")
	}
	if c.ExcludeSrcInfo {
		filterFlags = append(filterFlags, "--exclude-source-info")
	}
	wref, rref := c.outRefs(filepath.Join(cli.dir, "out"))
	wargs := []string{"build", input, "-o", wref}
	rargs := []string{"build", rref, "-o", "-#format=binpb"}
	if c.FlagsOnRead && !c.AsFDS {
		rargs = append(rargs, filterFlags...)
	} else {
		wargs = append(wargs, filterFlags...)
	}
	if c.AsFDS {
		wargs = append(wargs, "--as-file-descriptor-set")
		rargs = append(rargs, "--as-file-descriptor-set")
	}
	code, _, stderr := cli.run(ctx, wargs...)
	r.Eval()
	if code != 0 {
		r.Fail(t, key+"write-failed", fmt.Sprintf("buf %s: exit %d: %s", strings.Join(relArgs(wargs, cli.dir), " "), code, stderr), c)
		return
	}
	code, stdout, stderr := cli.run(ctx, rargs...)
	if code != 0 {
		r.Fail(t, key+"read-failed", fmt.Sprintf("buf %s: exit 0; buf %s: exit %d: %s", strings.Join(relArgs(wargs, cli.dir), " "), strings.Join(relArgs(rargs, cli.dir), " "), code, firstLines(stderr, 4)), c)
		return
	}
	o := cmpOpts{dropImports: c.ExcludeImports, clearSourceInfo: c.ExcludeSrcInfo}
	var got []fileView
	if c.AsFDS {
		fds := &descriptorpb.FileDescriptorSet{}
		if err := proto.Unmarshal([]byte(stdout), fds); err != nil {
			r.Fail(t, key+"read-failed", fmt.Sprintf("output of the reading command is not a FileDescriptorSet: %v", err), c)
			return
		}
		o.descriptorsOnly = true
		for _, f := range fds.GetFile() {
			got = append(got, fileView{Path: f.GetName(), FDP: f})
		}
	} else {
		pi, err := decodeImage([]byte(stdout))
		if err != nil {
			r.Fail(t, key+"read-failed", fmt.Sprintf("output of the reading command is not an image: %v", err), c)
			return
		}
		if got, err = viewsOfProtoImage(pi); err != nil {
			t.Fatalf("harness: %v", err)
		}
	}
	classifyEnc(r, c, res, want)
	if what, m := compareViews(res, want, got, o); what != "" {
		if what == "harness" {
			t.Fatalf("harness: %s", m)
		}
		r.Fail(t, key+what, fmt.Sprintf("buf %s; buf %s: %s", strings.Join(relArgs(wargs, cli.dir), " "), strings.Join(relArgs(rargs, cli.dir), " "), m), c)
	}
}

func relArgs(args []string, dir string) []string {
	out := make([]string, len(args))
	for i, a := range args {
		out[i] = strings.ReplaceAll(a, dir+string(filepath.Separator), "")
	}
	return out
}

func firstLines(s string, n int) string {
	lines := strings.SplitN(s, "\n", n+1)
	if len(lines) > n {
		lines = lines[:n]
	}
	return strings.Join(lines, "\n")
}

func TestEncodingCLI(t *testing.T) {
	r := evid.R()
	ctx := context.Background()
	r.Check(t, r.Scale(72, 1600), 2, func(t *rapid.T) {
		src, _ := genSrc(t, false)
		c := &EncCase{Kind: "enc-cli", Src: src}
		genEncCommon(t, c)
		c.FlagsOnRead = rapid.Bool().Draw(t, "flags-on-read")
		if c.Format == "binpb" && !c.AsFDS && rapid.IntRange(0, 1).Draw(t, "unknown") == 0 {
			c.Unknown = genUnknown(t, len(src.allPaths()))
		}
		runEncCLI(ctx, t, r, c)
	})
}
