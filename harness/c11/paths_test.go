package c11

// (c) path selections: module-level targeting vs image-level filtering, API and CLI.

import (
	"bytes"
	"context"
	"fmt"
	"os"
	"path/filepath"
	"sort"
	"strings"
	"testing"

	"github.com/bufbuild/buf/private/bufpkg/bufimage"
	"github.com/bufbuild/bufverif/internal/bufx"
	"github.com/bufbuild/bufverif/internal/evid"
	"github.com/bufbuild/bufverif/internal/protogen"
	"github.com/klauspost/compress/zstd"
	"google.golang.org/protobuf/proto"
	"pgregory.net/rapid"
)

func zstdBytes(t fataler, data []byte) []byte {
	t.Helper()
	var buf bytes.Buffer
	w, err := zstd.NewWriter(&buf)
	if err != nil {
		t.Fatalf("harness: %v", err)
	}
	if _, err := w.Write(data); err != nil {
		t.Fatalf("harness: %v", err)
	}
	if err := w.Close(); err != nil {
		t.Fatalf("harness: %v", err)
	}
	return buf.Bytes()
}

func sortStrings(a []string) { sort.Strings(a) }

// PathCase is the replayable input of one path selection.
type PathCase struct {
	Kind    string   `json:"kind"` // paths-api | paths-cli
	Src     Src      `json:"src"`
	Paths   []string `json:"paths"`         // image-root relative files / directories (all exist)
	Exclude []string `json:"exclude_paths"` // image-root relative; no path lies inside or equals an exclude path
	Image   string   `json:"image_format,omitempty"`

	demotedNoSyntax int // observed: import files of the result that have no syntax statement and are workspace files
}

func (c *PathCase) countDemoted(vs []fileView) {
	c.demotedNoSyntax = 0
	for _, v := range vs {
		if v.IsImport && v.NoSyntax && c.Src.moduleOf(v.Path) != "" {
			c.demotedNoSyntax++
		}
	}
}

func under(dirOrFile, path string) bool {
	return dirOrFile == path || strings.HasPrefix(path, dirOrFile+"/")
}

// refTargets is the documented selection: a file is targeted iff (there is no --path or it is
// equal to / inside some --path) and it is not equal to / inside any --exclude-path.
func (c *PathCase) refTargets() map[string]bool {
	out := map[string]bool{}
	for _, p := range c.Src.allPaths() {
		inc := len(c.Paths) == 0
		for _, tp := range c.Paths {
			if under(tp, p) {
				inc = true
			}
		}
		for _, ep := range c.Exclude {
			if under(ep, p) {
				inc = false
			}
		}
		if inc {
			out[p] = true
		}
	}
	return out
}

// moduleSpecs translates the image-level selection into per-module targeting, the way the
// workspace layer documents it: a module that no --path points into is not a target (its files
// can only be imports); exclude paths only apply to target modules.
func (c *PathCase) moduleSpecs() map[string]bufx.ModuleSpec {
	specs := map[string]bufx.ModuleSpec{}
	for _, m := range c.Src.Mods {
		has := func(p string) bool {
			for f := range c.Src.Files[m.Dir] {
				if under(p, f) {
					return true
				}
			}
			return false
		}
		spec := bufx.ModuleSpec{Target: len(c.Paths) == 0}
		for _, p := range c.Paths {
			if has(p) {
				spec.Target = true
				spec.TargetPaths = append(spec.TargetPaths, p)
			}
		}
		if spec.Target {
			for _, e := range c.Exclude {
				if has(e) {
					spec.ExcludePaths = append(spec.ExcludePaths, e)
				}
			}
		}
		specs[m.Dir] = spec
	}
	return specs
}

func dirsOf(paths []string) []string {
	set := map[string]bool{}
	for _, p := range paths {
		for d := p; strings.Contains(d, "/"); {
			d = d[:strings.LastIndex(d, "/")]
			set[d] = true
		}
	}
	return protogen.SortedKeys(set)
}

// genSrcNoSyntax is genSrc with more files lacking a syntax statement: a proto2 file rendered without
// its `syntax = "proto2";` line is the same schema, and path selections then regularly demote such a
// file from target to import.
func genSrcNoSyntax(t *rapid.T, thorough bool) Src {
	cfg := protogen.DefaultConfig()
	cfg.CustomOptions = true
	if thorough {
		cfg.MaxFiles, cfg.MaxPackages = 8, 5
	}
	ws := protogen.GenWorkspace(t, cfg)
	addLegacyNested(t, ws)
	for _, f := range ws.AllFiles() {
		if f.Syntax == protogen.Proto2 && rapid.Bool().Draw(t, "drop-syntax-line") {
			f.Syntax = protogen.SyntaxUnspecified
		}
	}
	return srcOf(ws)
}

func genPathSets(t *rapid.T, src Src) ([]string, []string) {
	files := src.allPaths()
	dirs := dirsOf(files)
	cands := append(append([]string{}, files...), dirs...)
	inc := map[string]bool{}
	exc := map[string]bool{}
	mode := rapid.IntRange(0, 9).Draw(t, "pathmode")
	switch {
	case mode <= 3 && len(dirs) > 0:
		// an include directory and an exclude strictly inside it
		d := dirs[rapid.IntRange(0, len(dirs)-1).Draw(t, "incdir")]
		inc[d] = true
		var inside []string
		for _, c := range cands {
			if c != d && under(d, c) {
				inside = append(inside, c)
			}
		}
		if len(inside) > 0 {
			exc[inside[rapid.IntRange(0, len(inside)-1).Draw(t, "excinside")]] = true
		}
		fallthrough
	default:
		nInc := rapid.IntRange(0, 2).Draw(t, "ninc")
		nExc := rapid.IntRange(0, 2).Draw(t, "nexc")
		if mode == 9 {
			nInc = 0 // exclude-only selections
			if nExc == 0 {
				nExc = 1
			}
			inc = map[string]bool{}
		}
		for i := 0; i < nInc; i++ {
			inc[cands[rapid.IntRange(0, len(cands)-1).Draw(t, "inc")]] = true
		}
		for i := 0; i < nExc; i++ {
			exc[cands[rapid.IntRange(0, len(cands)-1).Draw(t, "exc")]] = true
		}
	}
	if len(inc) == 0 && len(exc) == 0 {
		inc[cands[rapid.IntRange(0, len(cands)-1).Draw(t, "inc1")]] = true
	}
	// the stated precondition: no --path lies inside or equals an --exclude-path
	for e := range exc {
		for i := range inc {
			if under(e, i) {
				delete(exc, e)
			}
		}
	}
	// a selection that targets nothing is not a buildable input: drop excludes (largest first) until something is left
	incs, excs := protogen.SortedKeys(inc), protogen.SortedKeys(exc)
	for len(excs) > 0 {
		pc := PathCase{Src: src, Paths: incs, Exclude: excs}
		if len(pc.refTargets()) > 0 {
			break
		}
		excs = excs[1:]
	}
	return incs, excs
}

func (c *PathCase) classify(r *evid.Recorder, targets map[string]bool) {
	r.Class(c.Kind)
	switch {
	case len(c.Paths) > 0 && len(c.Exclude) > 0:
		r.Class(c.Kind + ":include+exclude")
	case len(c.Paths) > 0:
		r.Class(c.Kind + ":include-only")
	default:
		r.Class(c.Kind + ":exclude-only")
	}
	if len(c.Src.Mods) >= 2 {
		r.Class(c.Kind + ":multi-module")
	}
	if len(targets) < len(c.Src.allPaths()) {
		r.Class(c.Kind + ":strict-subset")
	}
	if c.demotedNoSyntax > 0 {
		r.Class(c.Kind + ":no-syntax-file-demoted-to-import")
	}
	// non-trivial: an include directory and an exclude that both intersect (contain files of) one directory
	for _, p := range c.Paths {
		for _, e := range c.Exclude {
			if e != p && under(p, e) && !strings.HasSuffix(p, ".proto") {
				nIn, nEx := 0, 0
				for _, f := range c.Src.allPaths() {
					if under(p, f) {
						nIn++
						if under(e, f) {
							nEx++
						}
					}
				}
				if nEx > 0 && nEx < nIn {
					r.NonTrivial(fmt.Sprintf("%s|%s|%v|%v", c.Kind, c.Src.canon(), c.Paths, c.Exclude))
					r.Sample(map[string]any{"kind": c.Kind, "files": c.Src.allPaths(), "paths": c.Paths, "exclude_paths": c.Exclude, "targets": protogen.SortedKeys(targets)})
					return
				}
			}
		}
	}
}

// checkSelection checks one result against the documented selection.
func checkSelection(which string, vs []fileView, targets map[string]bool) (string, string) {
	seen := map[string]bool{}
	for _, v := range vs {
		if seen[v.Path] {
			return "duplicate-file", fmt.Sprintf("%s: %s occurs twice", which, v.Path)
		}
		seen[v.Path] = true
		if v.IsImport == targets[v.Path] {
			return "import-flag", fmt.Sprintf("%s: %s has is_import=%v but the selection targets it=%v (files %v)", which, v.Path, v.IsImport, targets[v.Path], pathsOf(vs))
		}
	}
	for p := range targets {
		if !seen[p] {
			return "file-set", fmt.Sprintf("%s: lacks the targeted file %s (has %v)", which, p, pathsOf(vs))
		}
	}
	if m := depOrdered(vs); m != "" {
		return "order", which + ": " + m
	}
	// closure minimality: every import file is reachable from a target
	reach := map[string]bool{}
	by := map[string]fileView{}
	for _, v := range vs {
		by[v.Path] = v
	}
	var rec func(p string)
	rec = func(p string) {
		if reach[p] {
			return
		}
		reach[p] = true
		for _, d := range by[p].FDP.GetDependency() {
			rec(d)
		}
	}
	for p := range targets {
		rec(p)
	}
	for _, v := range vs {
		if !reach[v.Path] {
			return "extra-file", fmt.Sprintf("%s: contains %s which no targeted file needs (targets %v)", which, v.Path, protogen.SortedKeys(targets))
		}
	}
	return "", ""
}

func runPathsAPI(ctx context.Context, t fataler, r *evid.Recorder, c *PathCase) {
	full, err := c.Src.buildFull(ctx)
	if err != nil {
		t.Fatalf("harness: generated workspace does not build: %v", err)
	}
	targets := c.refTargets()
	r.Eval()
	if len(targets) == 0 {
		// selecting nothing is the documented "no target files" error on both sides, not an image
		r.Class("paths-api:empty-selection")
		return
	}
	res, err := newRefResolver(fdpsOf(viewsOfImage(full)))
	if err != nil {
		t.Fatalf("harness: reference resolver: %v", err)
	}
	modImg, modErr := c.Src.buildSpecs(ctx, c.moduleSpecs())
	imgA, errA := bufimage.ImageWithOnlyPathsAllowNotExist(full, c.Paths, c.Exclude)
	// the strict variant ("errors if a path does not exist") is only compared when every --path still
	// selects a file after the excludes: it reports an include directory whose files are all excluded
	// as "no matching file", a combination the CLI (which uses the lenient variant) never produces
	strict := true
	for _, p := range c.Paths {
		keeps := false
		for f := range targets {
			if under(p, f) {
				keeps = true
			}
		}
		strict = strict && keeps
	}
	imgB, errB := imgA0(full), error(nil)
	if strict {
		imgB, errB = bufimage.ImageWithOnlyPaths(full, c.Paths, c.Exclude)
		r.Class("paths-api:strict-variant-compared")
	}
	desc := fmt.Sprintf("paths=%v exclude=%v", c.Paths, c.Exclude)
	if modErr != nil {
		r.Fail(t, "path-targeting:module-level-failed", fmt.Sprintf("%s: module-level targeting failed: %v", desc, modErr), c)
		return
	}
	if errA != nil {
		r.Fail(t, "path-targeting:image-level-failed", fmt.Sprintf("%s: ImageWithOnlyPathsAllowNotExist failed: %v", desc, errA), c)
		return
	}
	if errB != nil {
		r.Fail(t, "path-targeting:image-level-failed", fmt.Sprintf("%s: ImageWithOnlyPaths failed although every path exists: %v", desc, errB), c)
		return
	}
	if !strict {
		imgB = imgA
	}
	mv, av, bv := viewsOfImage(modImg), viewsOfImage(imgA), viewsOfImage(imgB)
	for _, x := range []struct {
		name string
		vs   []fileView
	}{{"module-level", mv}, {"image-level(allow-not-exist)", av}, {"image-level", bv}} {
		if what, m := checkSelection(x.name, x.vs, targets); what != "" {
			r.Fail(t, "path-targeting:"+what, desc+": "+m, c)
			return
		}
	}
	for _, x := range []struct {
		name string
		vs   []fileView
	}{{"image-level(allow-not-exist)", av}, {"image-level", bv}} {
		if what, m := compareViews(res, mv, x.vs, cmpOpts{ignoreOrder: true, unusedDepsOfTargetsOnly: true}); what != "" {
			if what == "harness" {
				t.Fatalf("harness: %s", m)
			}
			r.Fail(t, "path-targeting:"+what, fmt.Sprintf("%s: module-level vs %s: %s", desc, x.name, m), c)
			return
		}
	}
	c.countDemoted(mv)
	if strings.Join(pathsOf(mv), ",") == strings.Join(pathsOf(av), ",") {
		r.Class("paths-api:order-identical")
	} else {
		r.Class("paths-api:order-differs(both dependency-ordered)")
	}
	c.classify(r, targets)
}

func imgA0(img bufimage.Image) bufimage.Image { return img }

func TestPathsAPI(t *testing.T) {
	r := evid.R()
	ctx := context.Background()
	r.Check(t, r.Scale(640, 15000), 4, func(t *rapid.T) {
		src := genSrcNoSyntax(t, r.Thorough())
		c := &PathCase{Kind: "paths-api", Src: src}
		c.Paths, c.Exclude = genPathSets(t, src)
		runPathsAPI(ctx, t, r, c)
	})
}

// diskPaths maps an image-root relative path to the on-disk paths of the directory input: one per
// module that has files under it.
func (c *PathCase) diskPaths(root, p string) []string {
	var out []string
	for _, m := range c.Src.Mods {
		for f := range c.Src.Files[m.Dir] {
			if under(p, f) {
				out = append(out, filepath.Join(root, filepath.FromSlash(m.Dir), filepath.FromSlash(p)))
				break
			}
		}
	}
	return out
}

func runPathsCLI(ctx context.Context, t fataler, r *evid.Recorder, c *PathCase) {
	cli := newCLI(t, "c11path-")
	defer cli.close()
	root := filepath.Join(cli.dir, "ws")
	writeTree(t, root, c.Src.treeFiles(""))
	targets := c.refTargets()
	if len(targets) == 0 {
		r.Class("paths-cli:empty-selection")
		return
	}
	format := c.Image
	if format == "" {
		format = "binpb"
	}
	imgFile := filepath.Join(cli.dir, "full."+format)
	code, _, stderr := cli.run(ctx, "build", root, "-o", imgFile)
	if code != 0 {
		r.Fail(t, "path-targeting:build-failed", fmt.Sprintf("buf build <dir> -o full.%s: exit %d: %s", format, code, stderr), c)
		return
	}
	dargs := []string{"build", root, "-o", "-"}
	iargs := []string{"build", imgFile, "-o", "-"}
	for _, p := range c.Paths {
		for _, dp := range c.diskPaths(root, p) {
			dargs = append(dargs, "--path", dp)
		}
		iargs = append(iargs, "--path", p)
	}
	for _, e := range c.Exclude {
		for _, dp := range c.diskPaths(root, e) {
			dargs = append(dargs, "--exclude-path", dp)
		}
		iargs = append(iargs, "--exclude-path", e)
	}
	desc := fmt.Sprintf("[buf %s] vs [buf %s]", strings.Join(relArgs(dargs, cli.dir), " "), strings.Join(relArgs(iargs, cli.dir), " "))
	dcode, dout, derr := cli.run(ctx, dargs...)
	icode, iout, ierr := cli.run(ctx, iargs...)
	r.Eval()
	if dcode != 0 {
		r.Fail(t, "path-targeting:source-input-failed", fmt.Sprintf("%s: the directory input failed: exit %d: %s", desc, dcode, derr), c)
		return
	}
	if icode != 0 {
		r.Fail(t, "path-targeting:image-input-failed", fmt.Sprintf("%s: the image input failed: exit %d: %s", desc, icode, ierr), c)
		return
	}
	// the result for a source input is a function of the SET of paths (target files are documented to be
	// taken sorted by path): the same flags in sorted order must give the same bytes
	if sorted := sortedFlagArgs(dargs); strings.Join(sorted, "\x00") != strings.Join(dargs, "\x00") {
		r.Class("paths-cli:flags-in-non-lexical-order")
		scode, sout, serr := cli.run(ctx, sorted...)
		if scode != 0 {
			r.Fail(t, "path-targeting:source-input-failed", fmt.Sprintf("[buf %s]: exit %d: %s", strings.Join(relArgs(sorted, cli.dir), " "), scode, serr), c)
			return
		}
		if sout != dout {
			r.Fail(t, "path-targeting:depends-on-flag-order", fmt.Sprintf("[buf %s] and [buf %s] (same flags, sorted) print different images (%d vs %d bytes)", strings.Join(relArgs(dargs, cli.dir), " "), strings.Join(relArgs(sorted, cli.dir), " "), len(dout), len(sout)), c)
			return
		}
	}
	dpi, err := decodeImage([]byte(dout))
	if err != nil {
		r.Fail(t, "path-targeting:source-input-failed", fmt.Sprintf("%s: not an image: %v", desc, err), c)
		return
	}
	ipi, err := decodeImage([]byte(iout))
	if err != nil {
		r.Fail(t, "path-targeting:image-input-failed", fmt.Sprintf("%s: not an image: %v", desc, err), c)
		return
	}
	dv, err := viewsOfProtoImage(dpi)
	if err != nil {
		t.Fatalf("harness: %v", err)
	}
	iv, err := viewsOfProtoImage(ipi)
	if err != nil {
		t.Fatalf("harness: %v", err)
	}
	data, err := os.ReadFile(imgFile)
	if err != nil {
		t.Fatalf("harness: %v", err)
	}
	_ = data
	full, err := c.Src.buildFull(ctx)
	if err != nil {
		t.Fatalf("harness: %v", err)
	}
	res, err := newRefResolver(fdpsOf(viewsOfImage(full)))
	if err != nil {
		t.Fatalf("harness: %v", err)
	}
	for _, x := range []struct {
		name string
		vs   []fileView
	}{{"directory input", dv}, {"image input", iv}} {
		if what, m := checkSelection(x.name, x.vs, targets); what != "" {
			r.Fail(t, "path-targeting:"+what, desc+": "+m, c)
			return
		}
	}
	if what, m := compareViews(res, dv, iv, cmpOpts{ignoreOrder: true, unusedDepsOfTargetsOnly: true}); what != "" {
		if what == "harness" {
			t.Fatalf("harness: %s", m)
		}
		r.Fail(t, "path-targeting:"+what, desc+": "+m, c)
		return
	}
	if dout == iout {
		r.Class("paths-cli:byte-identical")
	} else if strings.Join(pathsOf(dv), ",") != strings.Join(pathsOf(iv), ",") {
		r.Class("paths-cli:order-differs(both dependency-ordered)")
	} else if proto.Equal(dpi, ipi) {
		r.Class("paths-cli:equal-not-byte-identical")
	} else {
		r.Class("paths-cli:same-after-reinterpretation")
	}
	c.countDemoted(dv)
	r.Class("paths-cli:image-format:" + format)
	c.classify(r, targets)
}

// sortedFlagArgs returns args with the (--path|--exclude-path, value) pairs sorted.
func sortedFlagArgs(args []string) []string {
	var head, pairs []string
	for i := 0; i < len(args); i++ {
		if (args[i] == "--path" || args[i] == "--exclude-path") && i+1 < len(args) {
			pairs = append(pairs, args[i]+"\x00"+args[i+1])
			i++
			continue
		}
		head = append(head, args[i])
	}
	sort.Strings(pairs)
	out := append([]string{}, head...)
	for _, p := range pairs {
		kv := strings.SplitN(p, "\x00", 2)
		out = append(out, kv[0], kv[1])
	}
	return out
}

func TestPathsCLI(t *testing.T) {
	r := evid.R()
	ctx := context.Background()
	r.Check(t, r.Scale(48, 1100), 5, func(t *rapid.T) {
		src := genSrcNoSyntax(t, false)
		c := &PathCase{Kind: "paths-cli", Src: src}
		c.Paths, c.Exclude = genPathSets(t, src)
		// flags in drawn, not sorted, order
		c.Paths = rapid.Permutation(c.Paths).Draw(t, "path-order")
		c.Exclude = rapid.Permutation(c.Exclude).Draw(t, "exclude-order")
		c.Image = []string{"binpb", "binpb", "json", "txtpb.gz", "yaml.zst"}[rapid.IntRange(0, 4).Draw(t, "imgformat")]
		runPathsCLI(ctx, t, r, c)
	})
}
