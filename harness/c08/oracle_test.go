package c08

import (
	"bytes"
	"context"
	"errors"
	"fmt"
	"os"
	"path/filepath"
	"sort"
	"strings"

	"github.com/bufbuild/buf/private/bufpkg/bufcas"
	"github.com/bufbuild/buf/private/bufpkg/bufmodule"
	"github.com/bufbuild/buf/private/bufpkg/bufmodule/bufmodulestore"
	"github.com/bufbuild/buf/private/bufpkg/bufmodule/bufmoduletesting"
	"github.com/bufbuild/buf/private/bufpkg/bufparse"
	"github.com/bufbuild/buf/private/pkg/filelock"
	"github.com/bufbuild/buf/private/pkg/slogext"
	"github.com/bufbuild/buf/private/pkg/storage"
	"github.com/bufbuild/buf/private/pkg/storage/storagearchive"
	"github.com/bufbuild/buf/private/pkg/storage/storagemem"
	"github.com/bufbuild/buf/private/pkg/storage/storageos"
	"github.com/bufbuild/bufverif/internal/digestref"
	"github.com/google/uuid"
)

// harnessError marks a failure of the harness itself (temp dir, file write): never a violation.
type harnessError struct{ err error }

func (h harnessError) Error() string { return "harness: " + h.err.Error() }

// ---------------------------------------------------------------------------------------------
// backends

// shuffleBucket enumerates the objects of the wrapped bucket in a permuted order.
type shuffleBucket struct {
	storage.ReadBucket
	perm []int
}

func (s shuffleBucket) Walk(ctx context.Context, prefix string, f func(storage.ObjectInfo) error) error {
	var infos []storage.ObjectInfo
	if err := s.ReadBucket.Walk(ctx, prefix, func(info storage.ObjectInfo) error {
		infos = append(infos, info)
		return nil
	}); err != nil {
		return err
	}
	sort.Slice(infos, func(i, j int) bool { return infos[i].Path() < infos[j].Path() })
	done := make([]bool, len(infos))
	for _, p := range s.perm {
		if p < len(infos) {
			done[p] = true
			if err := f(infos[p]); err != nil {
				return err
			}
		}
	}
	for i := len(infos) - 1; i >= 0; i-- { // more objects than the permutation covers: reversed
		if !done[i] {
			if err := f(infos[i]); err != nil {
				return err
			}
		}
	}
	return nil
}

type cleanup struct{ dirs []string }

func (c *cleanup) run() {
	for _, d := range c.dirs {
		_ = os.RemoveAll(d)
	}
}

// bucketFor materialises the files of a module in the backend the view asks for.
func bucketFor(ctx context.Context, m Mod, mv ModView, cl *cleanup) (storage.ReadBucket, error) {
	files := fileMap(m)
	if mv.StripNonModule {
		files = digestref.ModuleFiles(files)
	}
	mem, err := storagemem.NewReadBucket(files)
	if err != nil {
		return nil, fmt.Errorf("storagemem.NewReadBucket: %w", err)
	}
	var bucket storage.ReadBucket = mem
	switch mv.Backend {
	case "mem":
	case "os":
		dir, err := os.MkdirTemp("", "c08-")
		if err != nil {
			return nil, harnessError{err}
		}
		cl.dirs = append(cl.dirs, dir)
		for p, data := range files {
			full := filepath.Join(dir, filepath.FromSlash(p))
			if err := os.MkdirAll(filepath.Dir(full), 0o755); err != nil {
				return nil, harnessError{err}
			}
			if err := os.WriteFile(full, data, 0o644); err != nil {
				return nil, harnessError{err}
			}
		}
		rw, err := storageos.NewProvider().NewReadWriteBucket(dir)
		if err != nil {
			return nil, fmt.Errorf("storageos bucket: %w", err)
		}
		bucket = rw
	case "tar":
		var buf bytes.Buffer
		if err := storagearchive.Tar(ctx, mem, &buf); err != nil {
			return nil, fmt.Errorf("Tar: %w", err)
		}
		dst := storagemem.NewReadWriteBucket()
		if err := storagearchive.Untar(ctx, &buf, dst); err != nil {
			return nil, fmt.Errorf("Untar: %w", err)
		}
		bucket = dst
	case "zip", "zipc":
		var buf bytes.Buffer
		if err := storagearchive.Zip(ctx, mem, &buf, mv.Backend == "zipc"); err != nil {
			return nil, fmt.Errorf("Zip: %w", err)
		}
		dst := storagemem.NewReadWriteBucket()
		if err := storagearchive.Unzip(ctx, bytes.NewReader(buf.Bytes()), int64(buf.Len()), dst); err != nil {
			return nil, fmt.Errorf("Unzip: %w", err)
		}
		bucket = dst
	default:
		return nil, harnessError{fmt.Errorf("unknown backend %q", mv.Backend)}
	}
	if mv.Shuffle != nil {
		bucket = shuffleBucket{ReadBucket: bucket, perm: mv.Shuffle}
	}
	return bucket, nil
}

// ---------------------------------------------------------------------------------------------
// building a workspace the way buf does: remote modules from a BSR stand-in, local modules from buckets

type observed struct {
	b5, b4 []string
}

func commitID(view int, idx int, salt int) uuid.UUID {
	var u uuid.UUID
	u[0], u[1], u[2], u[3] = byte(view), byte(idx), byte(salt>>8), byte(salt)
	u[6] = 0x40 // version 4
	u[8] = 0x80 // RFC 4122 variant
	u[15] = 1
	return u
}

func objectData(o *Obj) (bufmodule.ObjectData, error) {
	if o == nil {
		return nil, nil
	}
	return bufmodule.NewObjectData(o.Name, o.Data)
}

// altProvider hands out the module data of the BSR stand-in with the bucket replaced by another
// materialisation of the same directory (other backend, non-module files present, shuffled walk).
type altProvider struct {
	inner   bufmodule.ModuleDataProvider
	buckets map[string]storage.ReadBucket // by full name
}

func (a altProvider) GetModuleDatasForModuleKeys(ctx context.Context, keys []bufmodule.ModuleKey) ([]bufmodule.ModuleData, error) {
	datas, err := a.inner.GetModuleDatasForModuleKeys(ctx, keys)
	if err != nil {
		return nil, err
	}
	out := make([]bufmodule.ModuleData, len(datas))
	for i, d := range datas {
		d := d
		b, ok := a.buckets[d.ModuleKey().FullName().String()]
		if !ok {
			out[i] = d
			continue
		}
		out[i] = bufmodule.NewModuleData(ctx, d.ModuleKey(),
			func() (storage.ReadBucket, error) { return b, nil },
			d.DepModuleKeys,
			d.V1Beta1OrV1BufYAMLObjectData,
			d.V1Beta1OrV1BufLockObjectData,
		)
	}
	return out, nil
}

// pinnedProvider is a registry stand-in built by the harness itself: every remote module is served
// with a module key whose digest is the published construction's value and with pinned dependency
// keys for its whole closure plus its forks. buf re-computes the digest when the data is used (tamper
// check); a disagreement surfaces as *bufmodule.DigestMismatchError carrying buf's own value.
type pinnedProvider struct {
	datas map[string]bufmodule.ModuleData // by full name
}

func (p pinnedProvider) GetModuleDatasForModuleKeys(ctx context.Context, keys []bufmodule.ModuleKey) ([]bufmodule.ModuleData, error) {
	out := make([]bufmodule.ModuleData, len(keys))
	for i, k := range keys {
		d, ok := p.datas[k.FullName().String()]
		if !ok {
			return nil, fmt.Errorf("pinned provider: no module %s", k.FullName().String())
		}
		out[i] = d
	}
	return out, nil
}

func pinnedKey(name string, id uuid.UUID, digest string) (bufmodule.ModuleKey, error) {
	fn, err := bufparse.ParseFullName(name)
	if err != nil {
		return nil, err
	}
	return bufmodule.NewModuleKey(fn, id, func() (bufmodule.Digest, error) { return bufmodule.ParseDigest(digest) })
}

// storeProvider serves module data only out of a module data store (the module cache format).
type storeProvider struct {
	store bufmodulestore.ModuleDataStore
}

func (s storeProvider) GetModuleDatasForModuleKeys(ctx context.Context, keys []bufmodule.ModuleKey) ([]bufmodule.ModuleData, error) {
	found, notFound, err := s.store.GetModuleDatasForModuleKeys(ctx, keys)
	if err != nil {
		return nil, err
	}
	if len(notFound) > 0 {
		return nil, fmt.Errorf("module data store lost %d module(s) that were just put, first %s", len(notFound), notFound[0].String())
	}
	return found, nil
}

// observe builds the module graph under the view and returns every module's digests.
func observe(ctx context.Context, viewNo int, mods []Mod, v View) (_ observed, retErr error) {
	cl := &cleanup{}
	defer cl.run()
	if len(v.Mods) != len(mods) {
		return observed{}, harnessError{fmt.Errorf("view has %d modules, model %d", len(v.Mods), len(mods))}
	}
	if hasTwins(mods) && v.RemoteVia != "pinned" {
		return observed{}, harnessError{fmt.Errorf("a graph with forked dependencies needs remote_via=pinned")}
	}
	var (
		remoteIdx      []int
		keys           []bufmodule.ModuleKey
		provider       bufmodule.ModuleDataProvider
		commitProvider bufmodule.CommitProvider = bufmodule.NopCommitProvider
	)
	if v.RemoteVia == "pinned" {
		var err error
		remoteIdx, keys, provider, err = buildPinned(ctx, viewNo, mods, v, cl)
		if err != nil {
			return observed{}, err
		}
	} else {
		// 1. the BSR stand-in with every remote module
		var remoteDatas []bufmoduletesting.ModuleData
		altBuckets := map[string]storage.ReadBucket{}
		for i, mv := range v.Mods {
			if !mv.Remote {
				continue
			}
			bucket, err := bucketFor(ctx, mods[i], mv, cl)
			if err != nil {
				return observed{}, wrapStage("backend:"+mv.Backend, err)
			}
			yaml, err := objectData(mods[i].Yaml)
			if err != nil {
				return observed{}, harnessError{err}
			}
			lock, err := objectData(mods[i].Lock)
			if err != nil {
				return observed{}, harnessError{err}
			}
			remoteDatas = append(remoteDatas, bufmoduletesting.ModuleData{
				Name:              mv.Name,
				CommitID:          commitID(viewNo, i, mv.Commit),
				Bucket:            bucket,
				BufYAMLObjectData: yaml,
				BufLockObjectData: lock,
			})
			remoteIdx = append(remoteIdx, i)
			if v.RemoteVia == "wrap" {
				// a second, differently materialised copy for the module data handed to the workspace
				mv2 := mv
				mv2.StripNonModule = false
				if mv2.Backend == "mem" {
					mv2.Backend = "tar"
				} else {
					mv2.Backend = "mem"
				}
				b2, err := bucketFor(ctx, mods[i], mv2, cl)
				if err != nil {
					return observed{}, wrapStage("backend:"+mv2.Backend, err)
				}
				altBuckets[mv.Name] = b2
			}
		}
		omni, err := bufmoduletesting.NewOmniProvider(remoteDatas...)
		if err != nil {
			return observed{}, wrapStage("omni-provider", err)
		}
		if len(remoteIdx) > 0 {
			refs := make([]bufparse.Ref, len(remoteIdx))
			for k, i := range remoteIdx {
				fn, err := bufparse.ParseFullName(v.Mods[i].Name)
				if err != nil {
					return observed{}, harnessError{err}
				}
				refs[k], err = bufparse.NewRef(fn.Registry(), fn.Owner(), fn.Name(), "")
				if err != nil {
					return observed{}, harnessError{err}
				}
			}
			keys, err = omni.GetModuleKeysForModuleRefs(ctx, refs, bufmodule.DigestTypeB5)
			if err != nil {
				return observed{}, wrapStage("module-keys", err)
			}
		}
		provider, commitProvider = omni, omni
		switch v.RemoteVia {
		case "omni":
		case "wrap":
			provider = altProvider{inner: omni, buckets: altBuckets}
		case "store-dir", "store-tar":
			if len(keys) > 0 {
				var opts []bufmodulestore.ModuleDataStoreOption
				if v.RemoteVia == "store-tar" {
					opts = append(opts, bufmodulestore.ModuleDataStoreWithTar())
				}
				store := bufmodulestore.NewModuleDataStore(slogext.NopLogger, storagemem.NewReadWriteBucket(), filelock.NewNopLocker(), opts...)
				datas, err := omni.GetModuleDatasForModuleKeys(ctx, keys)
				if err != nil {
					return observed{}, wrapStage("module-datas", err)
				}
				if err := store.PutModuleDatas(ctx, datas); err != nil {
					return observed{}, wrapStage("store-put", err)
				}
				provider = storeProvider{store: store}
			}
		default:
			return observed{}, harnessError{fmt.Errorf("unknown remote_via %q", v.RemoteVia)}
		}
	}
	// 2. the workspace
	builder := bufmodule.NewModuleSetBuilder(ctx, slogext.NopLogger, provider, commitProvider)
	opaque := make([]string, len(mods))
	for k, i := range remoteIdx {
		mv := v.Mods[i]
		var opts []bufmodule.RemoteModuleOption
		if mv.Target && (len(mv.TargetPaths) > 0 || len(mv.ExcludePaths) > 0) {
			opts = append(opts, bufmodule.RemoteModuleWithTargetPaths(mv.TargetPaths, mv.ExcludePaths))
		}
		builder.AddRemoteModule(keys[k], mv.Target, opts...)
		opaque[i] = mv.Name
	}
	for i, mv := range v.Mods {
		if mv.Remote {
			continue
		}
		bucket, err := bucketFor(ctx, mods[i], mv, cl)
		if err != nil {
			return observed{}, wrapStage("backend:"+mv.Backend, err)
		}
		bucketID := fmt.Sprintf("dir/%d", i)
		opaque[i] = bucketID
		var opts []bufmodule.LocalModuleOption
		if mv.Name != "" {
			fn, err := bufparse.ParseFullName(mv.Name)
			if err != nil {
				return observed{}, harnessError{err}
			}
			if mv.Commit%2 == 0 {
				opts = append(opts, bufmodule.LocalModuleWithFullName(fn))
			} else {
				opts = append(opts, bufmodule.LocalModuleWithFullNameAndCommitID(fn, commitID(viewNo, i, mv.Commit)))
			}
			opaque[i] = mv.Name
		}
		if mv.Desc != "" {
			opts = append(opts, bufmodule.LocalModuleWithDescription(mv.Desc))
		}
		if mv.Target && (len(mv.TargetPaths) > 0 || len(mv.ExcludePaths) > 0) {
			opts = append(opts, bufmodule.LocalModuleWithTargetPaths(mv.TargetPaths, mv.ExcludePaths))
		}
		yaml, err := objectData(mods[i].Yaml)
		if err != nil {
			return observed{}, harnessError{err}
		}
		lock, err := objectData(mods[i].Lock)
		if err != nil {
			return observed{}, harnessError{err}
		}
		if yaml != nil {
			opts = append(opts, bufmodule.LocalModuleWithV1Beta1OrV1BufYAMLObjectData(yaml))
		}
		if lock != nil {
			opts = append(opts, bufmodule.LocalModuleWithV1Beta1OrV1BufLockObjectData(lock))
		}
		builder.AddLocalModule(bucket, bucketID, mv.Target, opts...)
	}
	ms, err := builder.Build()
	if err != nil {
		return observed{}, wrapStage("module-set-build", err)
	}
	if len(v.Retarget) > 0 {
		ids := make([]string, len(v.Retarget))
		for k, i := range v.Retarget {
			ids[k] = opaque[i]
		}
		ms, err = ms.WithTargetOpaqueIDs(ids...)
		if err != nil {
			return observed{}, wrapStage("retarget", err)
		}
	}
	out := observed{b5: make([]string, len(mods)), b4: make([]string, len(mods))}
	for i := range mods {
		mod := ms.GetModuleForOpaqueID(opaque[i])
		if mod == nil {
			return observed{}, wrapStage("module-set-lookup", fmt.Errorf("module %d (%s) is not in the module set", i, opaque[i]))
		}
		if mod.IsLocal() == v.Mods[i].Remote {
			return observed{}, harnessError{fmt.Errorf("module %d local=%v but view remote=%v", i, mod.IsLocal(), v.Mods[i].Remote)}
		}
		d5, err := mod.Digest(bufmodule.DigestTypeB5)
		if err != nil {
			var mismatch *bufmodule.DigestMismatchError
			if v.RemoteVia == "pinned" && errors.As(err, &mismatch) {
				// the pinned digest IS the published construction's value: buf computed another one
				return observed{}, wrapStage("pinned-digest-mismatch", fmt.Errorf(
					"asked for the digest of module %d: for remote module %s (dependencies incl. forks: %d pinned keys) buf computes %s, the published construction gives %s",
					i, mismatch.FullName, pinnedCount(mods, mismatch.FullName.String(), v), mismatch.ActualDigest, mismatch.ExpectedDigest))
			}
			return observed{}, wrapStage(fmt.Sprintf("digest-b5:module%d", i), err)
		}
		d4, err := mod.Digest(bufmodule.DigestTypeB4)
		if err != nil {
			return observed{}, wrapStage(fmt.Sprintf("digest-b4:module%d", i), err)
		}
		out.b5[i], out.b4[i] = d5.String(), d4.String()
		if again, err := mod.Digest(bufmodule.DigestTypeB5); err != nil || again.String() != out.b5[i] {
			return observed{}, wrapStage("digest-b5-repeat", fmt.Errorf("second call gave %v, %v", again, err))
		}
	}
	return out, nil
}

// buildPinned serves every remote module of the view from the harness' own registry stand-in.
func buildPinned(ctx context.Context, viewNo int, mods []Mod, v View, cl *cleanup) ([]int, []bufmodule.ModuleKey, bufmodule.ModuleDataProvider, error) {
	ref := reference(mods)
	clos := closure(mods)
	pp := pinnedProvider{datas: map[string]bufmodule.ModuleData{}}
	keyOf := make([]bufmodule.ModuleKey, len(mods))
	var remoteIdx []int
	var keys []bufmodule.ModuleKey
	for i, mv := range v.Mods {
		if !mv.Remote {
			continue
		}
		key, err := pinnedKey(mv.Name, commitID(viewNo, i, mv.Commit), ref.b5[i])
		if err != nil {
			return nil, nil, nil, harnessError{err}
		}
		keyOf[i] = key
		var depKeys []bufmodule.ModuleKey
		for _, d := range clos[i] {
			if keyOf[d] == nil {
				return nil, nil, nil, harnessError{fmt.Errorf("remote module %d depends on local module %d", i, d)}
			}
			depKeys = append(depKeys, keyOf[d])
		}
		for k, d := range mods[i].Twins {
			// the fork: other name, other commit, content (hence digest) of module d
			id := commitID(viewNo+100, i, 1000+k)
			fork, err := pinnedKey(fmt.Sprintf("buf.build/forks/of-m%d-for-m%d-%d", d, i, k), id, ref.b5[d])
			if err != nil {
				return nil, nil, nil, harnessError{err}
			}
			depKeys = append(depKeys, fork)
		}
		if len(depKeys) > 1 && mv.Commit%2 == 1 {
			// the order of pinned keys is irrelevant
			for a, b := 0, len(depKeys)-1; a < b; a, b = a+1, b-1 {
				depKeys[a], depKeys[b] = depKeys[b], depKeys[a]
			}
		}
		bucket, err := bucketFor(ctx, mods[i], mv, cl)
		if err != nil {
			return nil, nil, nil, wrapStage("backend:"+mv.Backend, err)
		}
		yaml, err := objectData(mods[i].Yaml)
		if err != nil {
			return nil, nil, nil, harnessError{err}
		}
		lock, err := objectData(mods[i].Lock)
		if err != nil {
			return nil, nil, nil, harnessError{err}
		}
		pp.datas[mv.Name] = bufmodule.NewModuleData(ctx, key,
			func() (storage.ReadBucket, error) { return bucket, nil },
			func() ([]bufmodule.ModuleKey, error) { return depKeys, nil },
			func() (bufmodule.ObjectData, error) { return yaml, nil },
			func() (bufmodule.ObjectData, error) { return lock, nil },
		)
		remoteIdx = append(remoteIdx, i)
		keys = append(keys, key)
	}
	return remoteIdx, keys, pp, nil
}

func pinnedCount(mods []Mod, name string, v View) int {
	cl := closure(mods)
	for i, mv := range v.Mods {
		if mv.Name == name {
			return len(cl[i]) + len(mods[i].Twins)
		}
	}
	return -1
}

type stageError struct {
	stage string
	err   error
}

func (s stageError) Error() string { return s.stage + ": " + s.err.Error() }
func (s stageError) Unwrap() error { return s.err }

func wrapStage(stage string, err error) error {
	var h harnessError
	if errors.As(err, &h) {
		return err
	}
	return stageError{stage: stage, err: err}
}

// ---------------------------------------------------------------------------------------------
// the oracle

type verdict struct {
	key, msg string
	harness  bool
}

func bad(key, format string, args ...any) *verdict {
	return &verdict{key: key, msg: fmt.Sprintf(format, args...)}
}

func errVerdict(what string, err error) *verdict {
	var h harnessError
	if errors.As(err, &h) {
		return &verdict{harness: true, msg: err.Error()}
	}
	stage := "unknown"
	var s stageError
	if errors.As(err, &s) {
		stage = s.stage
		if i := strings.IndexByte(stage, ':'); i >= 0 && strings.HasPrefix(stage, "digest-") {
			stage = stage[:i]
		}
	}
	if stage == "pinned-digest-mismatch" {
		return bad("digest-ref-mismatch", "%s: %v", what, err)
	}
	return bad("digest-error:"+stage, "%s: buf failed on a valid module graph: %v", what, err)
}

func describeView(v View, i int) string {
	mv := v.Mods[i]
	return fmt.Sprintf("{name=%q remote=%v backend=%s shuffled=%v stripNonModule=%v target=%v targetPaths=%q via=%s retarget=%v}",
		mv.Name, mv.Remote, mv.Backend, mv.Shuffle != nil, mv.StripNonModule, mv.Target, mv.TargetPaths, v.RemoteVia, v.Retarget)
}

// checkCase runs the whole oracle on one case; nil = holds.
func checkCase(ctx context.Context, c Case) *verdict {
	if len(c.Mods) == 0 || len(c.Mods2) != len(c.Mods) {
		return &verdict{harness: true, msg: "harness: malformed case"}
	}
	ref1, ref2 := reference(c.Mods), reference(c.Mods2)
	oa, err := observe(ctx, 1, c.Mods, c.A)
	if err != nil {
		return errVerdict("view A", err)
	}
	ob, err := observe(ctx, 2, c.Mods, c.B)
	if err != nil {
		return errVerdict("view B", err)
	}
	oc, err := observe(ctx, 3, c.Mods2, c.C)
	if err != nil {
		return errVerdict("view C (perturbed)", err)
	}
	// (c) sensitivity, and its converse: exactly the modules whose module files / dependencies
	// changed get another digest
	want := expectedB5Change(c.Mods, c.Mods2)
	for i := range c.Mods {
		changed := oa.b5[i] != oc.b5[i]
		if want[i] && !changed {
			return bad("digest-insensitive:"+c.Pert.Kind,
				"perturbation %s of module %d (%s %s) changed the module files or a dependency of module %d, but its b5 digest stayed %s",
				c.Pert.Kind, c.Pert.Mod, c.Pert.Path, c.Pert.Note, i, oa.b5[i])
		}
		if !want[i] && changed {
			key := "digest-oversensitive:" + c.Pert.Kind
			if c.Pert.Kind == "none" {
				key = "digest-not-invariant" // only the presentation differs between view A and view C
			}
			return bad(key,
				"perturbation %s of module %d (%s %s) left module files and dependencies of module %d unchanged, but its b5 digest went from %s (view %s) to %s (view %s); reference %s",
				c.Pert.Kind, c.Pert.Mod, c.Pert.Path, c.Pert.Note, i, oa.b5[i], describeView(c.A, i), oc.b5[i], describeView(c.C, i), ref1.b5[i])
		}
		b4same := sameModuleFiles(c.Mods[i], c.Mods2[i]) && sameObjs(c.Mods[i], c.Mods2[i])
		if b4same != (oa.b4[i] == oc.b4[i]) {
			key := "b4-insensitive:" + c.Pert.Kind
			if b4same {
				key = "b4-oversensitive:" + c.Pert.Kind
			}
			return bad(key, "perturbation %s of module %d (%s %s): module %d files+objects same=%v but b4 %s -> %s",
				c.Pert.Kind, c.Pert.Mod, c.Pert.Path, c.Pert.Note, i, b4same, oa.b4[i], oc.b4[i])
		}
	}
	// (b) invariance across presentations
	for i := range c.Mods {
		if oa.b5[i] != ob.b5[i] {
			return bad("digest-not-invariant", "module %d: same files and dependencies, b5 %s under %s but %s under %s (reference %s)",
				i, oa.b5[i], describeView(c.A, i), ob.b5[i], describeView(c.B, i), ref1.b5[i])
		}
		if oa.b4[i] != ob.b4[i] {
			return bad("b4-not-invariant", "module %d: same files and objects, b4 %s under %s but %s under %s (reference %s)",
				i, oa.b4[i], describeView(c.A, i), ob.b4[i], describeView(c.B, i), ref1.b4[i])
		}
	}
	// (a) the published construction
	for i := range c.Mods {
		if oa.b5[i] != ref1.b5[i] {
			return bad("digest-ref-mismatch", "module %d: Module.Digest(b5)=%s, published construction gives %s; module files %q, dependencies %v, view %s",
				i, oa.b5[i], ref1.b5[i], moduleFilePaths(c.Mods[i]), closure(c.Mods)[i], describeView(c.A, i))
		}
		if oc.b5[i] != ref2.b5[i] {
			return bad("digest-ref-mismatch", "perturbed module %d: Module.Digest(b5)=%s, published construction gives %s; module files %q, dependencies %v, view %s",
				i, oc.b5[i], ref2.b5[i], moduleFilePaths(c.Mods2[i]), closure(c.Mods2)[i], describeView(c.C, i))
		}
		if oa.b4[i] != ref1.b4[i] {
			return bad("b4-ref-mismatch", "module %d: Module.Digest(b4)=%s, construction gives %s; module files %q view %s",
				i, oa.b4[i], ref1.b4[i], moduleFilePaths(c.Mods[i]), describeView(c.A, i))
		}
		if oc.b4[i] != ref2.b4[i] {
			return bad("b4-ref-mismatch", "perturbed module %d: Module.Digest(b4)=%s, construction gives %s", i, oc.b4[i], ref2.b4[i])
		}
	}
	// (d) manifests of the complete directory of one module
	if c.ManifestMod < 0 || c.ManifestMod >= len(c.Mods) {
		return &verdict{harness: true, msg: "harness: manifest_mod out of range"}
	}
	mv := c.A.Mods[c.ManifestMod]
	mv.StripNonModule = false
	return checkManifest(ctx, fileMap(c.Mods[c.ManifestMod]), mv)
}

// checkManifest: canonical text, parse/print round trip and file-set construction for one file set.
func checkManifest(ctx context.Context, files map[string][]byte, mv ModView) *verdict {
	want := digestref.ManifestText(files)
	paths := make([]string, 0, len(files))
	for p := range files {
		paths = append(paths, p)
	}
	sort.Strings(paths)
	// nodes in a permuted order
	order := make([]int, 0, len(paths))
	seen := make([]bool, len(paths))
	for _, p := range mv.Shuffle {
		if p < len(paths) {
			order = append(order, p)
			seen[p] = true
		}
	}
	for i := range paths {
		if !seen[i] {
			order = append(order, i)
		}
	}
	nodes := make([]bufcas.FileNode, 0, len(paths))
	for _, k := range order {
		d, err := bufcas.NewDigestForContent(bytes.NewReader(files[paths[k]]))
		if err != nil {
			return bad("manifest-error", "NewDigestForContent(%q): %v", paths[k], err)
		}
		if d.String() != digestref.FileDigest(files[paths[k]]) {
			return bad("file-digest-ref-mismatch", "content digest of %q is %s, SHAKE256 gives %s", paths[k], d.String(), digestref.FileDigest(files[paths[k]]))
		}
		pd, err := bufcas.ParseDigest(d.String())
		if err != nil || !bufcas.DigestEqual(pd, d) {
			return bad("digest-roundtrip", "ParseDigest(%q) = %v, %v", d.String(), pd, err)
		}
		n, err := bufcas.NewFileNode(paths[k], d)
		if err != nil {
			return bad("file-node-rejected", "NewFileNode(%q) rejected a valid normalized relative path: %v", paths[k], err)
		}
		pn, err := bufcas.ParseFileNode(n.String())
		if err != nil {
			return bad("manifest-roundtrip", "ParseFileNode(%q) failed: %v", n.String(), err)
		}
		if pn.Path() != n.Path() || !bufcas.DigestEqual(pn.Digest(), n.Digest()) {
			return bad("manifest-roundtrip", "ParseFileNode(%q) gave path %q digest %s", n.String(), pn.Path(), pn.Digest())
		}
		nodes = append(nodes, n)
	}
	m, err := bufcas.NewManifest(nodes)
	if err != nil {
		return bad("manifest-error", "NewManifest over unique paths %q: %v", paths, err)
	}
	if got := m.String(); got != want {
		return bad("manifest-text-mismatch", "Manifest.String() =\n%q\ncanonical text is\n%q", got, want)
	}
	if v := manifestRoundTrip(m); v != nil {
		return v
	}
	md, err := bufcas.ManifestToDigest(m)
	if err != nil || md.String() != digestref.FileDigest([]byte(want)) {
		return bad("manifest-digest-mismatch", "ManifestToDigest = %v, %v; want %s", md, err, digestref.FileDigest([]byte(want)))
	}
	blob, err := bufcas.ManifestToBlob(m)
	if err != nil {
		return bad("manifest-error", "ManifestToBlob: %v", err)
	}
	if bm, err := bufcas.BlobToManifest(blob); err != nil || bm.String() != want {
		return bad("manifest-roundtrip", "BlobToManifest(ManifestToBlob(m)) = %v, %v for manifest\n%q", bm, err, want)
	}
	// file set from a bucket over the same files
	cl := &cleanup{}
	defer cl.run()
	bucket, err := bucketFor(ctx, Mod{Files: filesOf(files)}, mv, cl)
	if err != nil {
		return errVerdict("manifest bucket", wrapStage("backend:"+mv.Backend, err))
	}
	fs, err := bufcas.NewFileSetForBucket(ctx, bucket)
	if err != nil {
		return bad("manifest-error", "NewFileSetForBucket(%s): %v", mv.Backend, err)
	}
	if got := fs.Manifest().String(); got != want {
		return bad("fileset-manifest-mismatch", "NewFileSetForBucket(%s, shuffled=%v).Manifest() =\n%q\ncanonical text is\n%q", mv.Backend, mv.Shuffle != nil, got, want)
	}
	for _, p := range paths {
		b := fs.BlobSet().GetBlob(fs.Manifest().GetDigest(p))
		if b == nil || !bytes.Equal(b.Content(), files[p]) {
			return bad("fileset-blob-mismatch", "blob for %q missing or with other content", p)
		}
	}
	dst := storagemem.NewReadWriteBucket()
	if err := bufcas.PutFileSetToBucket(ctx, fs, dst); err != nil {
		return bad("manifest-error", "PutFileSetToBucket: %v", err)
	}
	fs2, err := bufcas.NewFileSetForBucket(ctx, dst)
	if err != nil || fs2.Manifest().String() != want {
		return bad("fileset-roundtrip", "file set put to a bucket and read back has another manifest (%v)", err)
	}
	return nil
}

func manifestRoundTrip(m bufcas.Manifest) *verdict {
	text := m.String()
	pm, err := bufcas.ParseManifest(text)
	if err != nil {
		return bad("manifest-roundtrip", "ParseManifest(m.String()) failed: %v\nmanifest text:\n%q", err, text)
	}
	a, b := m.FileNodes(), pm.FileNodes()
	if len(a) != len(b) {
		return bad("manifest-roundtrip", "ParseManifest(m.String()) has %d nodes, m has %d; text\n%q", len(b), len(a), text)
	}
	for i := range a {
		if a[i].Path() != b[i].Path() || !bufcas.DigestEqual(a[i].Digest(), b[i].Digest()) {
			return bad("manifest-roundtrip", "node %d: %q %s parsed back as %q %s", i, a[i].Path(), a[i].Digest(), b[i].Path(), b[i].Digest())
		}
	}
	if again := pm.String(); again != text {
		return bad("manifest-not-fixpoint", "String() of the re-parsed manifest differs:\n%q\nvs\n%q", again, text)
	}
	return nil
}

func filesOf(files map[string][]byte) []File {
	paths := make([]string, 0, len(files))
	for p := range files {
		paths = append(paths, p)
	}
	sort.Strings(paths)
	out := make([]File, len(paths))
	for i, p := range paths {
		out[i] = File{Path: p, Tail: files[p]}
	}
	return out
}
