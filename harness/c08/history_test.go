package c08

import (
	"bytes"
	"context"
	"errors"
	"fmt"
	"io"
	"sync"
	"testing"

	"github.com/bufbuild/buf/private/bufpkg/bufcas"
	"github.com/bufbuild/buf/private/bufpkg/bufmodule"
	"github.com/bufbuild/buf/private/bufpkg/bufmodule/bufmoduletesting"
	"github.com/bufbuild/buf/private/pkg/storage"
	"github.com/bufbuild/buf/private/pkg/storage/storagemem"
	"github.com/bufbuild/bufverif/internal/digestref"
	"github.com/bufbuild/bufverif/internal/evid"
	"pgregory.net/rapid"
)

// Purity over histories: a digest is a function of the content alone, whatever was computed (or failed
// to be computed) before in the same process. A case is a sequence of digest computations - content
// digests, blobs, file sets, module b5/b4 digests - some of which fail midway (a reader or bucket
// object that delivers some bytes and then an error, a cancelled context), some run on several
// goroutines. After every step each successful result must equal the independent reference, and a
// computation whose input failed must not report success.

type histOp struct {
	Kind   string `json:"kind"` // content | blob | fileset | module | parallel
	Data   []byte `json:"data,omitempty"`
	Files  []File `json:"files,omitempty"`
	Fail   bool   `json:"fail,omitempty"`    // the input fails midway
	FailAt int    `json:"fail_at,omitempty"` // bytes delivered before the error
	FailOn int    `json:"fail_on,omitempty"` // index of the file whose object fails (fileset/module)
	Cancel bool   `json:"cancel,omitempty"`  // fileset: context already cancelled
	Par    int    `json:"par,omitempty"`     // parallel: number of goroutines; goroutine FailOn fails if Fail
}

type histCase struct {
	Ops []histOp `json:"ops"`
}

var errInjected = errors.New("injected read failure")

// failingReader delivers the first n bytes of data, then fails.
type failingReader struct {
	data []byte
	n    int
	off  int
}

func (f *failingReader) Read(p []byte) (int, error) {
	if f.off >= f.n {
		return 0, errInjected
	}
	k := copy(p, f.data[f.off:f.n])
	f.off += k
	return k, nil
}

// faultyBucket makes the object at path fail after n bytes.
type faultyBucket struct {
	storage.ReadBucket
	path string
	n    int
}

type faultyObject struct {
	storage.ReadObjectCloser
	n, off int
}

func (o *faultyObject) Read(p []byte) (int, error) {
	if o.off >= o.n {
		return 0, errInjected
	}
	if len(p) > o.n-o.off {
		p = p[:o.n-o.off]
	}
	k, err := o.ReadObjectCloser.Read(p)
	o.off += k
	if err == io.EOF {
		return k, errInjected // the object was shorter than n: still a failing read
	}
	return k, err
}

func (b faultyBucket) Get(ctx context.Context, path string) (storage.ReadObjectCloser, error) {
	obj, err := b.ReadBucket.Get(ctx, path)
	if err != nil || path != b.path {
		return obj, err
	}
	return &faultyObject{ReadObjectCloser: obj, n: b.n}, nil
}

func clampFail(n, length int) int {
	if n > length {
		return length
	}
	if n < 0 {
		return 0
	}
	return n
}

func histContent(data []byte, fail bool, failAt int) *verdict {
	var r io.Reader = bytes.NewReader(data)
	if fail {
		r = &failingReader{data: data, n: clampFail(failAt, len(data))}
	}
	d, err := bufcas.NewDigestForContent(r)
	if fail {
		if err == nil {
			return bad("digest-of-failed-read", "NewDigestForContent returned %s although its reader failed after %d of %d bytes", d, clampFail(failAt, len(data)), len(data))
		}
		return nil
	}
	if err != nil {
		return bad("digest-error:content", "NewDigestForContent on %d in-memory bytes failed: %v", len(data), err)
	}
	if want := digestref.FileDigest(data); d.String() != want {
		return bad("digest-depends-on-history", "NewDigestForContent(%d bytes) = %s, SHAKE256 of the content is %s", len(data), d, want)
	}
	return nil
}

func histFiles(op histOp) (map[string][]byte, []string) {
	files := map[string][]byte{}
	for _, f := range op.Files {
		files[f.Path] = f.Data()
	}
	return files, sortedKeys(files)
}

func histBucket(op histOp) (storage.ReadBucket, map[string][]byte, *verdict) {
	files, paths := histFiles(op)
	mem, err := storagemem.NewReadBucket(files)
	if err != nil {
		return nil, nil, &verdict{harness: true, msg: "harness: " + err.Error()}
	}
	var bucket storage.ReadBucket = mem
	if op.Fail && len(paths) > 0 {
		p := paths[op.FailOn%len(paths)]
		bucket = faultyBucket{ReadBucket: mem, path: p, n: clampFail(op.FailAt, len(files[p]))}
	}
	return bucket, files, nil
}

func runHistOp(ctx context.Context, i int, op histOp) *verdict {
	where := fmt.Sprintf("step %d (%s)", i, op.Kind)
	switch op.Kind {
	case "content":
		if v := histContent(op.Data, op.Fail, op.FailAt); v != nil {
			v.msg = where + ": " + v.msg
			return v
		}
	case "blob":
		var r io.Reader = bytes.NewReader(op.Data)
		if op.Fail {
			r = &failingReader{data: op.Data, n: clampFail(op.FailAt, len(op.Data))}
		}
		b, err := bufcas.NewBlobForContent(r)
		switch {
		case op.Fail && err == nil:
			return bad("digest-of-failed-read", "%s: NewBlobForContent succeeded although its reader failed", where)
		case op.Fail:
		case err != nil:
			return bad("digest-error:blob", "%s: %v", where, err)
		case b.Digest().String() != digestref.FileDigest(op.Data) || !bytes.Equal(b.Content(), op.Data):
			return bad("digest-depends-on-history", "%s: blob digest %s, SHAKE256 of the content is %s", where, b.Digest(), digestref.FileDigest(op.Data))
		}
	case "fileset":
		bucket, files, v := histBucket(op)
		if v != nil {
			return v
		}
		cctx := ctx
		if op.Cancel {
			c, cancel := context.WithCancel(ctx)
			cancel()
			cctx = c
		}
		fs, err := bufcas.NewFileSetForBucket(cctx, bucket)
		failing := (op.Fail && len(files) > 0) || (op.Cancel && len(files) > 0)
		switch {
		case op.Fail && len(files) > 0 && err == nil:
			return bad("digest-of-failed-read", "%s: NewFileSetForBucket succeeded although an object failed midway", where)
		case failing && err != nil:
		case err != nil:
			return bad("digest-error:fileset", "%s: %v", where, err)
		case err == nil && !op.Fail:
			if got, want := fs.Manifest().String(), digestref.ManifestText(files); got != want {
				return bad("digest-depends-on-history", "%s: manifest\n%q\nreference\n%q", where, got, want)
			}
		}
	case "module":
		bucket, files, v := histBucket(op)
		if v != nil {
			return v
		}
		ms, err := bufmoduletesting.NewModuleSetForBucket(bucket)
		if err != nil {
			return bad("digest-error:module-set", "%s: %v", where, err)
		}
		mods := ms.Modules()
		if len(mods) != 1 {
			return &verdict{harness: true, msg: "harness: expected one module"}
		}
		failsOnModuleFile := false
		if fb, ok := bucket.(faultyBucket); ok {
			_, failsOnModuleFile = digestref.ModuleFiles(files)[fb.path]
		}
		for _, dt := range []bufmodule.DigestType{bufmodule.DigestTypeB5, bufmodule.DigestTypeB4} {
			d, err := mods[0].Digest(dt)
			switch {
			case failsOnModuleFile && err == nil:
				return bad("digest-of-failed-read", "%s: Module.Digest(%v) = %s although a module file failed midway", where, dt, d)
			case failsOnModuleFile:
			case err != nil:
				return bad("digest-error:module", "%s: Module.Digest(%v): %v", where, dt, err)
			default:
				want := digestref.B5(files, nil)
				if dt == bufmodule.DigestTypeB4 {
					want = digestref.B4(files, nil)
				}
				if d.String() != want {
					return bad("digest-depends-on-history", "%s: Module.Digest(%v) = %s, the published construction gives %s", where, dt, d, want)
				}
			}
		}
	case "parallel":
		n := op.Par
		if n < 2 {
			n = 2
		}
		out := make([]*verdict, n)
		var wg sync.WaitGroup
		for g := 0; g < n; g++ {
			wg.Add(1)
			go func(g int) {
				defer wg.Done()
				data := append(append([]byte{}, op.Data...), byte(g)) // every goroutine its own content
				for rep := 0; rep < 3; rep++ {
					if v := histContent(data, op.Fail && g == op.FailOn%n && rep == 0, op.FailAt); v != nil {
						v.msg = fmt.Sprintf("%s, goroutine %d: %s", where, g, v.msg)
						out[g] = v
						return
					}
				}
			}(g)
		}
		wg.Wait()
		for _, v := range out {
			if v != nil {
				return v
			}
		}
	default:
		return &verdict{harness: true, msg: "harness: unknown history op " + op.Kind}
	}
	return nil
}

func checkHistory(ctx context.Context, c histCase) *verdict {
	for i, op := range c.Ops {
		if v := runHistOp(ctx, i, op); v != nil {
			if !v.harness && i > 0 {
				v.msg += fmt.Sprintf(" (preceded by %d step(s), the previous one %s fail=%v)", i, c.Ops[i-1].Kind, c.Ops[i-1].Fail)
			}
			return v
		}
	}
	return nil
}

func genHistFiles(t *rapid.T, lbl string) []File {
	fs := []File{{Path: "a/" + lbl + ".proto", Tail: genBytes(t, lbl+"-anchor", true)}}
	for k := 0; k < rapid.IntRange(0, 3).Draw(t, lbl+"-n"); k++ {
		p := rapid.SampledFrom([]string{"b b.proto", "LICENSE", "buf.md", "README.md", "x.txt", "d/e  f.proto", "buf.yaml"}).Draw(t, lbl+"-p")
		dup := false
		for _, f := range fs {
			if f.Path == p {
				dup = true
			}
		}
		if !dup {
			fs = append(fs, File{Path: p, Tail: genBytes(t, lbl+"-b", digestref.IsProto(p))})
		}
	}
	return fs
}

func genHistory(t *rapid.T) histCase {
	var c histCase
	n := rapid.IntRange(2, 10).Draw(t, "nops")
	for i := 0; i < n; i++ {
		lbl := fmt.Sprintf("op%d", i)
		op := histOp{Kind: rapid.SampledFrom([]string{"content", "content", "blob", "fileset", "module", "parallel"}).Draw(t, lbl+"-kind")}
		op.Fail = rapid.IntRange(0, 2).Draw(t, lbl+"-fail") == 0
		switch op.Kind {
		case "content", "blob", "parallel":
			op.Data = genBytes(t, lbl+"-data", false)
			if op.Kind == "parallel" {
				op.Par = rapid.IntRange(2, 4).Draw(t, lbl+"-par")
				op.FailOn = rapid.IntRange(0, 3).Draw(t, lbl+"-failon")
			}
			op.FailAt = rapid.IntRange(0, len(op.Data)+1).Draw(t, lbl+"-failat")
		default:
			op.Files = genHistFiles(t, lbl)
			op.FailOn = rapid.IntRange(0, 7).Draw(t, lbl+"-failon")
			op.FailAt = rapid.IntRange(0, 48).Draw(t, lbl+"-failat")
			if op.Kind == "fileset" && !op.Fail {
				op.Cancel = rapid.IntRange(0, 5).Draw(t, lbl+"-cancel") == 0
			}
		}
		c.Ops = append(c.Ops, op)
	}
	return c
}

// TestDigestHistories: sequences of digest computations, some failing midway, in one process.
func TestDigestHistories(t *testing.T) {
	r := evid.R()
	ctx := context.Background()
	r.Check(t, r.Scale(1200, 40000), 4, func(t *rapid.T) {
		c := genHistory(t)
		r.Eval()
		failedBefore, nontrivial := false, false
		for _, op := range c.Ops {
			r.Class("history:op:" + op.Kind)
			if op.Fail {
				r.Class("history:op-fails-midway")
			} else if failedBefore {
				nontrivial = true
			}
			if op.Cancel {
				r.Class("history:cancelled-context")
			}
			if op.Fail && op.FailAt > 0 {
				failedBefore = true
			}
		}
		if nontrivial {
			r.Class("history:success-after-a-partial-read-failure")
			r.NonTrivial(canon(c))
		}
		report(t, r, checkHistory(ctx, c), replayCase{Kind: "history", History: &c})
	})
}
