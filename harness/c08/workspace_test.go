package c08

import (
	"bytes"
	"context"
	"fmt"
	"os"
	"path/filepath"
	"sort"
	"strings"
	"testing"

	"github.com/bufbuild/buf/private/buf/buftarget"
	"github.com/bufbuild/buf/private/buf/bufworkspace"
	"github.com/bufbuild/buf/private/bufpkg/bufmodule"
	"github.com/bufbuild/buf/private/bufpkg/bufmodule/bufmoduletesting"
	"github.com/bufbuild/buf/private/bufpkg/bufplugin"
	"github.com/bufbuild/buf/private/pkg/slogext"
	"github.com/bufbuild/buf/private/pkg/storage"
	"github.com/bufbuild/buf/private/pkg/storage/storagemem"
	"github.com/bufbuild/buf/private/pkg/storage/storageos"
	"github.com/bufbuild/bufverif/internal/digestref"
	"github.com/bufbuild/bufverif/internal/evid"
	"pgregory.net/rapid"
)

// Workspace level: a module of a v2 workspace consists of the .proto files of its directory, its own
// LICENSE and its own documentation file (first existing of buf.md, README.md, README.markdown); only
// when the module directory has NO documentation file (resp. no LICENSE) does the one at the workspace
// root stand in (documented v2 fallback). The digest observed through bufworkspace must equal the
// published construction over exactly those files, equal the digest of the module directory built
// alone whenever nothing is inherited, and must not react to workspace-root files that the module
// does not inherit.

type wsModule struct {
	Dir   string `json:"dir"`
	Name  string `json:"name,omitempty"`
	Files []File `json:"files"` // module-directory relative
}

type wsCase struct {
	Modules []wsModule `json:"modules"`
	Root    []File     `json:"root"`  // files at the workspace root (besides buf.yaml)
	Root2   []File     `json:"root2"` // the perturbed workspace root
	Pert    string     `json:"pert"`
	Backend string     `json:"backend"` // mem | os
}

func filesMap(fs []File) map[string][]byte {
	out := map[string][]byte{}
	for _, f := range fs {
		out[f.Path] = f.Data()
	}
	return out
}

// wsExpectedFiles is the reference file set of a workspace module.
func wsExpectedFiles(m wsModule, root []File) map[string][]byte {
	own, rootFiles := filesMap(m.Files), filesMap(root)
	out := map[string][]byte{}
	for p, c := range own {
		if digestref.IsProto(p) {
			out[p] = c
		}
	}
	if d := digestref.ChosenDoc(own); d != "" {
		out[d] = own[d]
	} else if d := digestref.ChosenDoc(rootFiles); d != "" {
		out[d] = rootFiles[d]
	}
	if c, ok := own["LICENSE"]; ok {
		out["LICENSE"] = c
	} else if c, ok := rootFiles["LICENSE"]; ok {
		out["LICENSE"] = c
	}
	return out
}

func (c wsCase) bufYAML() string {
	var b strings.Builder
	b.WriteString("version: v2\nmodules:\n")
	for _, m := range c.Modules {
		fmt.Fprintf(&b, "  - path: %q\n", m.Dir)
		if m.Name != "" {
			fmt.Fprintf(&b, "    name: %s\n", m.Name)
		}
	}
	return b.String()
}

func (c wsCase) tree(root []File) map[string][]byte {
	out := map[string][]byte{"buf.yaml": []byte(c.bufYAML())}
	for _, f := range root {
		out[f.Path] = f.Data()
	}
	for _, m := range c.Modules {
		for _, f := range m.Files {
			out[m.Dir+"/"+f.Path] = f.Data()
		}
	}
	return out
}

func wsBucket(tree map[string][]byte, backend string, cl *cleanup) (storage.ReadBucket, error) {
	if backend == "mem" {
		return storagemem.NewReadBucket(tree)
	}
	dir, err := os.MkdirTemp("", "c08ws-")
	if err != nil {
		return nil, harnessError{err}
	}
	cl.dirs = append(cl.dirs, dir)
	for p, data := range tree {
		full := filepath.Join(dir, filepath.FromSlash(p))
		if err := os.MkdirAll(filepath.Dir(full), 0o755); err != nil {
			return nil, harnessError{err}
		}
		if err := os.WriteFile(full, data, 0o644); err != nil {
			return nil, harnessError{err}
		}
	}
	return storageos.NewProvider().NewReadWriteBucket(dir)
}

type wsObserved struct {
	digest []string
	files  [][]string
}

func wsObserve(ctx context.Context, c wsCase, root []File) (wsObserved, error) {
	cl := &cleanup{}
	defer cl.run()
	bucket, err := wsBucket(c.tree(root), c.Backend, cl)
	if err != nil {
		return wsObserved{}, wrapStage("workspace-bucket", err)
	}
	omni, err := bufmoduletesting.NewOmniProvider()
	if err != nil {
		return wsObserved{}, wrapStage("omni-provider", err)
	}
	targeting, err := buftarget.NewBucketTargeting(ctx, slogext.NopLogger, bucket, ".", nil, nil, buftarget.TerminateAtControllingWorkspace)
	if err != nil {
		return wsObserved{}, wrapStage("bucket-targeting", err)
	}
	ws, err := bufworkspace.NewWorkspaceProvider(slogext.NopLogger, omni, omni, omni, bufplugin.NopPluginKeyProvider).GetWorkspaceForBucket(ctx, bucket, targeting)
	if err != nil {
		return wsObserved{}, wrapStage("workspace", err)
	}
	out := wsObserved{}
	for i, m := range c.Modules {
		id := m.Dir
		if m.Name != "" {
			id = m.Name
		}
		mod := ws.GetModuleForOpaqueID(id)
		if mod == nil {
			var ids []string
			for _, x := range ws.Modules() {
				ids = append(ids, x.OpaqueID())
			}
			return wsObserved{}, wrapStage("workspace-lookup", fmt.Errorf("module %d (%q) not in the workspace; it has %q", i, id, ids))
		}
		d, err := mod.Digest(bufmodule.DigestTypeB5)
		if err != nil {
			return wsObserved{}, wrapStage("digest-b5", err)
		}
		var paths []string
		if err := mod.WalkFileInfos(ctx, func(fi bufmodule.FileInfo) error {
			paths = append(paths, fi.Path())
			return nil
		}); err != nil {
			return wsObserved{}, wrapStage("walk", err)
		}
		sort.Strings(paths)
		out.digest = append(out.digest, d.String())
		out.files = append(out.files, paths)
	}
	return out, nil
}

func wsAlone(ctx context.Context, m wsModule) (string, error) {
	ms, err := bufmoduletesting.NewModuleSetForPathToData(filesMap(m.Files))
	if err != nil {
		return "", wrapStage("module-alone", err)
	}
	mods := ms.Modules()
	if len(mods) != 1 {
		return "", harnessError{fmt.Errorf("module set for one directory has %d modules", len(mods))}
	}
	d, err := mods[0].Digest(bufmodule.DigestTypeB5)
	if err != nil {
		return "", wrapStage("digest-b5", err)
	}
	return d.String(), nil
}

func sortedKeys(m map[string][]byte) []string {
	out := make([]string, 0, len(m))
	for k := range m {
		out = append(out, k)
	}
	sort.Strings(out)
	return out
}

func sameFileMaps(a, b map[string][]byte) bool {
	if len(a) != len(b) {
		return false
	}
	for k, v := range a {
		if w, ok := b[k]; !ok || !bytes.Equal(v, w) {
			return false
		}
	}
	return true
}

func checkWorkspace(ctx context.Context, c wsCase) *verdict {
	o1, err := wsObserve(ctx, c, c.Root)
	if err != nil {
		return errVerdict("workspace", err)
	}
	o2, err := wsObserve(ctx, c, c.Root2)
	if err != nil {
		return errVerdict("perturbed workspace", err)
	}
	for i, m := range c.Modules {
		for k, root := range [][]File{c.Root, c.Root2} {
			o := o1
			if k == 1 {
				o = o2
			}
			want := wsExpectedFiles(m, root)
			if got := o.files[i]; strings.Join(got, "\x00") != strings.Join(sortedKeys(want), "\x00") {
				return bad("workspace-module-files-mismatch", "module %q of the workspace (root files %q, own files %q) consists of %q, expected %q",
					m.Dir, sortedKeys(filesMap(root)), sortedKeys(filesMap(m.Files)), got, sortedKeys(want))
			}
			if ref := digestref.B5(want, nil); o.digest[i] != ref {
				return bad("workspace-digest-ref-mismatch", "module %q through bufworkspace has digest %s, the published construction over its files %q gives %s",
					m.Dir, o.digest[i], sortedKeys(want), ref)
			}
		}
		unchanged := sameFileMaps(wsExpectedFiles(m, c.Root), wsExpectedFiles(m, c.Root2))
		if unchanged && o1.digest[i] != o2.digest[i] {
			return bad("workspace-digest-depends-on-file-outside-module", "perturbation %s of the workspace root changed the digest of module %q (%s -> %s) although the module inherits nothing that changed", c.Pert, m.Dir, o1.digest[i], o2.digest[i])
		}
		if !unchanged && o1.digest[i] == o2.digest[i] {
			return bad("workspace-digest-insensitive:inherited-root-file", "perturbation %s of the workspace root changed a file module %q inherits, the digest stayed %s", c.Pert, m.Dir, o1.digest[i])
		}
		own := filesMap(m.Files)
		if _, hasLicense := own["LICENSE"]; hasLicense && digestref.ChosenDoc(own) != "" {
			alone, err := wsAlone(ctx, m)
			if err != nil {
				return errVerdict("module alone", err)
			}
			if alone != o1.digest[i] {
				return bad("workspace-module-vs-alone-mismatch", "module %q has its own doc and LICENSE: digest %s inside the workspace, %s when its directory is built alone", m.Dir, o1.digest[i], alone)
			}
		}
	}
	return nil
}

var wsDirs = []string{"proto", "api/v1", "mods/a b", "third_party/x"}

func genDocLicense(t *rapid.T, lbl string) []File {
	var fs []File
	for _, d := range digestref.DocFileOrder {
		if rapid.IntRange(0, 2).Draw(t, lbl+"-"+d) == 0 {
			fs = append(fs, File{Path: d, Tail: genBytes(t, lbl+"-"+d+"-b", false)})
		}
	}
	if rapid.Bool().Draw(t, lbl+"-license") {
		fs = append(fs, File{Path: "LICENSE", Tail: genBytes(t, lbl+"-license-b", false)})
	}
	if rapid.IntRange(0, 2).Draw(t, lbl+"-other") == 0 {
		fs = append(fs, File{Path: rapid.SampledFrom([]string{"x.txt", "README", "docs/README.md", "LICENSE.txt"}).Draw(t, lbl+"-on"), Tail: genBytes(t, lbl+"-ob", false)})
	}
	return fs
}

func genWorkspaceCase(t *rapid.T) wsCase {
	c := wsCase{Backend: rapid.SampledFrom([]string{"mem", "os"}).Draw(t, "backend")}
	dirs := rapid.Permutation(wsDirs).Draw(t, "dirs")[:rapid.IntRange(1, 3).Draw(t, "nmods")]
	for i, dir := range dirs {
		lbl := fmt.Sprintf("m%d", i)
		m := wsModule{Dir: dir}
		if rapid.Bool().Draw(t, lbl+"-named") {
			m.Name = fmt.Sprintf("buf.build/acme/ws%d", i)
		}
		for k := 0; k < rapid.IntRange(1, 3).Draw(t, lbl+"-nproto"); k++ {
			m.Files = append(m.Files, File{Path: fmt.Sprintf("pkg%d/%s%d.proto", i, rapid.SampledFrom([]string{"a", "b c", "é"}).Draw(t, lbl+"-pn"), k), Tail: genBytes(t, lbl+"-pb", true)})
		}
		m.Files = append(m.Files, genDocLicense(t, lbl)...)
		c.Modules = append(c.Modules, m)
	}
	c.Root = genDocLicense(t, "root")
	// perturbation of the workspace root only
	c.Root2 = append([]File{}, c.Root...)
	for i := range c.Root2 {
		c.Root2[i].Tail = append([]byte{}, c.Root2[i].Tail...)
	}
	have := filesMap(c.Root)
	kinds := []string{"none", "add-root-doc", "add-root-license"}
	if len(c.Root) > 0 {
		kinds = append(kinds, "modify-root-file", "modify-root-file", "remove-root-file")
	}
	c.Pert = rapid.SampledFrom(kinds).Draw(t, "pert")
	switch c.Pert {
	case "add-root-doc":
		d := rapid.SampledFrom(digestref.DocFileOrder).Draw(t, "pert-doc")
		if _, ok := have[d]; !ok {
			c.Root2 = append(c.Root2, File{Path: d, Tail: genBytes(t, "pert-b", false)})
		}
	case "add-root-license":
		if _, ok := have["LICENSE"]; !ok {
			c.Root2 = append(c.Root2, File{Path: "LICENSE", Tail: genBytes(t, "pert-b", false)})
		}
	case "modify-root-file":
		k := rapid.IntRange(0, len(c.Root2)-1).Draw(t, "pert-k")
		c.Root2[k].Tail = append(c.Root2[k].Tail, rapid.SliceOfN(rapid.Byte(), 1, 3).Draw(t, "pert-x")...)
	case "remove-root-file":
		k := rapid.IntRange(0, len(c.Root2)-1).Draw(t, "pert-k")
		c.Root2 = append(c.Root2[:k:k], c.Root2[k+1:]...)
	}
	return c
}

// TestWorkspaceDocLicense: modules built through bufworkspace (v2 buf.yaml, modules below the root).
func TestWorkspaceDocLicense(t *testing.T) {
	r := evid.R()
	ctx := context.Background()
	r.Check(t, r.Scale(600, 20000), 3, func(t *rapid.T) {
		c := genWorkspaceCase(t)
		r.Eval()
		r.Class("workspace:modules=" + fmt.Sprint(len(c.Modules)))
		r.Class("workspace:pert:" + c.Pert)
		rootDoc := digestref.ChosenDoc(filesMap(c.Root))
		nontrivial := false
		for _, m := range c.Modules {
			own := digestref.ChosenDoc(filesMap(m.Files))
			switch {
			case own == "" && rootDoc != "":
				r.Class("workspace:module-inherits-root-doc")
			case own != "" && rootDoc != "" && own != rootDoc:
				r.Class("workspace:module-doc-and-root-doc-with-different-names")
				nontrivial = true
			case own != "" && rootDoc != "":
				r.Class("workspace:module-doc-and-root-doc-with-the-same-name")
			}
			if _, ok := filesMap(m.Files)["LICENSE"]; !ok {
				if _, ok := filesMap(c.Root)["LICENSE"]; ok {
					r.Class("workspace:module-inherits-root-license")
				}
			}
		}
		if nontrivial && c.Pert != "none" {
			r.NonTrivial(canon(c))
		}
		report(t, r, checkWorkspace(ctx, c), replayCase{Kind: "workspace", Workspace: &c})
	})
}
