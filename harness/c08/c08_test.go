// C08 — module digests are a pure, sensitive function of content; manifests are canonical.
//
// Oracle: internal/digestref re-implements the published b5 (and legacy b4) construction directly on
// golang.org/x/crypto/sha3. Generated module graphs (local and remote modules, remote ones served
// by bufmoduletesting.NewOmniProvider with pinned dependency keys) are presented to buf three times:
// view A and view B show the same content through different backends / walk orders / names /
// targeting / non-module files, view C shows a perturbed copy. Checked: digest == reference,
// A == B, and A != C exactly for the modules whose module files or dependencies changed.
// The manifest part checks the canonical text and the print/parse round trip of bufcas manifests.
package c08

import (
	"context"
	"encoding/json"
	"fmt"
	"sort"
	"strings"
	"testing"

	"github.com/bufbuild/bufverif/internal/digestref"
	"github.com/bufbuild/bufverif/internal/evid"
	"pgregory.net/rapid"
)

func TestMain(m *testing.M) { evid.Main(m, "C08") }

type replayCase struct {
	Kind      string            `json:"kind"` // "modules" | "manifest" | "workspace"
	Modules   *Case             `json:"modules,omitempty"`
	Manifest  *manifestCase     `json:"manifest,omitempty"`
	Workspace *wsCase           `json:"workspace,omitempty"`
	History   *histCase         `json:"history,omitempty"`
	Hint      map[string]string `json:"hint,omitempty"`
}

func canon(v any) string {
	b, err := json.Marshal(v)
	if err != nil {
		panic(err)
	}
	return string(b)
}

func classify(r *evid.Recorder, c Case) {
	r.Class(fmt.Sprintf("modules=%d", len(c.Mods)))
	r.Class("pert:" + c.Pert.Kind)
	edges, maxDeps := 0, 0
	for i, m := range c.Mods {
		edges += len(m.Deps)
		if n := len(closure(c.Mods)[i]); n > maxDeps {
			maxDeps = n
		}
		if len(nonModuleFilePaths(m)) > 0 {
			r.Class("module-with-non-module-files")
		}
		for _, f := range m.Files {
			switch {
			case strings.Contains(f.Path, "  "):
				r.Class("path:doubled-space")
			case strings.Contains(f.Path, " "):
				r.Class("path:space")
			}
			if !isASCII(f.Path) {
				r.Class("path:unicode")
			}
			if strings.Count(f.Path, "/") >= 4 {
				r.Class("path:deep")
			}
			if len(f.Tail) == 0 && f.Head == "" {
				r.Class("file:empty")
			}
		}
		docs := 0
		for _, d := range digestref.DocFileOrder {
			if _, ok := fileMap(m)[d]; ok {
				docs++
			}
		}
		if docs >= 2 {
			r.Class("module-with-shadowed-doc")
		}
		if m.Yaml != nil || m.Lock != nil {
			r.Class("module-with-v1-objects")
		}
		if strings.HasPrefix(m.Anchor, "google/protobuf/") {
			r.Class("module-shipping-a-well-known-type-path")
			for _, o := range c.Mods {
				for _, d := range o.Deps {
					if d == i {
						r.Class("dependency-only-through-a-well-known-type-import")
					}
				}
			}
		}
		if len(m.Twins) > 0 {
			r.Class("module-depending-on-a-fork-of-a-dependency")
		}
	}
	if edges > 0 {
		r.Class("graph-with-deps")
	}
	if maxDeps >= 2 {
		r.Class("module-with>=2-deps")
	}
	for _, v := range []View{c.A, c.B, c.C} {
		r.Class("via:" + v.RemoteVia)
		for _, mv := range v.Mods {
			r.Class("backend:" + mv.Backend)
			if mv.Remote {
				r.Class("view-module:remote")
			} else {
				r.Class("view-module:local")
			}
			if mv.Shuffle != nil {
				r.Class("view-module:shuffled")
			}
			if len(mv.TargetPaths) > 0 {
				r.Class("view-module:target-paths")
			}
			if !mv.Target {
				r.Class("view-module:non-target")
			}
		}
	}
	want := expectedB5Change(c.Mods, c.Mods2)
	n := 0
	for _, w := range want {
		if w {
			n++
		}
	}
	switch {
	case n == 0:
		r.Class("expect:no-digest-changes")
	case n == 1:
		r.Class("expect:one-digest-changes")
	default:
		r.Class("expect:dependents-change-too")
	}
	// non-trivial: the perturbed module has >= 3 module files and >= 1 non-module file, takes part in
	// a dependency, and a perturbation was applied
	t := c.Pert.Mod
	inDep := len(c.Mods[t].Deps) > 0
	for _, m := range c.Mods {
		for _, d := range m.Deps {
			if d == t {
				inDep = true
			}
		}
	}
	if c.Pert.Kind != "none" && inDep && len(moduleFilePaths(c.Mods[t])) >= 3 && len(nonModuleFilePaths(c.Mods[t])) >= 1 {
		r.NonTrivial(canon(c))
		r.Sample(summary(c))
	}
}

func isASCII(s string) bool {
	for i := 0; i < len(s); i++ {
		if s[i] >= 0x80 {
			return false
		}
	}
	return true
}

// summary is a compact, readable rendering of a case for the evidence file.
func summary(c Case) map[string]any {
	mods := make([]map[string]any, len(c.Mods))
	for i, m := range c.Mods {
		mods[i] = map[string]any{
			"module_files":     moduleFilePaths(m),
			"non_module_files": nonModuleFilePaths(m),
			"deps":             m.Deps,
			"view_a":           describeView(c.A, i),
			"view_b":           describeView(c.B, i),
		}
	}
	return map[string]any{"modules": mods, "perturbation": c.Pert}
}

func report(t evid.TB, r *evid.Recorder, v *verdict, rc replayCase) {
	if v == nil {
		return
	}
	if v.harness {
		t.Fatalf("%s", v.msg)
		return
	}
	r.Fail(t, v.key, v.msg, rc)
}

// TestModuleDigests: oracle parts (a) (b) (c) on generated module graphs, (d) on one module directory.
func TestModuleDigests(t *testing.T) {
	r := evid.R()
	ctx := context.Background()
	r.Check(t, r.Scale(4000, 42000), 1, func(t *rapid.T) {
		c := genCase(t)
		r.Eval()
		classify(r, c)
		report(t, r, checkCase(ctx, c), replayCase{Kind: "modules", Modules: &c})
	})
}

// ---------------------------------------------------------------------------------------------
// manifests over arbitrary valid paths (no module structure needed)

type manifestCase struct {
	Files   []File `json:"files"`
	Backend string `json:"backend"`
	Shuffle []int  `json:"shuffle,omitempty"`
}

var extraComponents = []string{"\"q\"", "`", "{x}", "a|b", "<x>", "!", "^", "a​b", "a  b", "　", "a  ", "  a", "shake256:00", "  x", "a   b   c"}

func genAnyPath(t *rapid.T, lbl string) string {
	depth := rapid.SampledFrom([]int{1, 1, 1, 2, 2, 3, 4, 6, 9}).Draw(t, lbl+"-depth")
	parts := make([]string, depth)
	for i := range parts {
		if rapid.IntRange(0, 3).Draw(t, lbl+"-x") == 0 {
			parts[i] = rapid.SampledFrom(extraComponents).Draw(t, lbl+"-xc")
		} else {
			parts[i] = genComponent(t, lbl+"-c")
		}
	}
	p := strings.Join(parts, "/")
	if rapid.IntRange(0, 2).Draw(t, lbl+"-ext") == 0 {
		p += rapid.SampledFrom([]string{".proto", ".txt", " .proto", "  "}).Draw(t, lbl+"-e")
	}
	return p
}

func genManifestCase(t *rapid.T) manifestCase {
	n := rapid.SampledFrom([]int{0, 1, 1, 2, 3, 4, 5, 6, 8, 10, 12}).Draw(t, "n")
	c := manifestCase{Files: []File{}}
	paths := map[string]bool{}
	for i := 0; i < n; i++ {
		lbl := fmt.Sprintf("f%d", i)
		p := genAnyPath(t, lbl)
		if base := p[strings.LastIndexByte(p, '/')+1:]; strings.HasPrefix(base, "._") {
			evid.R().Excluded("basename-dot-underscore-prefix")
			continue
		}
		if !treeOK(paths, p) {
			continue
		}
		paths[p] = true
		c.Files = append(c.Files, File{Path: p, Tail: genBytes(t, lbl+"-data", false)})
	}
	c.Backend = rapid.SampledFrom([]string{"mem", "mem", "os", "tar", "zip", "zipc"}).Draw(t, "backend")
	if rapid.Bool().Draw(t, "shuf") {
		c.Shuffle = rapid.Permutation(iota32()).Draw(t, "perm")
	}
	return c
}

func checkManifestCase(ctx context.Context, c manifestCase) *verdict {
	files := map[string][]byte{}
	for _, f := range c.Files {
		files[f.Path] = f.Data()
	}
	return checkManifest(ctx, files, ModView{Backend: c.Backend, Shuffle: c.Shuffle})
}

// TestManifestPaths: oracle part (d) on file sets of 0-12 arbitrary valid relative paths.
func TestManifestPaths(t *testing.T) {
	r := evid.R()
	ctx := context.Background()
	r.Check(t, r.Scale(10000, 140000), 2, func(t *rapid.T) {
		c := genManifestCase(t)
		r.Eval()
		r.Class(fmt.Sprintf("manifest:files=%s", bucketCount(len(c.Files))))
		r.Class("manifest:backend:" + c.Backend)
		for _, f := range c.Files {
			if strings.Contains(f.Path, "  ") {
				r.Class("manifest:path:doubled-space")
			}
			if strings.HasPrefix(f.Path, " ") || strings.HasSuffix(f.Path, " ") {
				r.Class("manifest:path:edge-space")
			}
			if !isASCII(f.Path) {
				r.Class("manifest:path:unicode")
			}
		}
		report(t, r, checkManifestCase(ctx, c), replayCase{Kind: "manifest", Manifest: &c})
	})
}

func bucketCount(n int) string {
	switch {
	case n == 0:
		return "0"
	case n <= 2:
		return "1-2"
	case n <= 6:
		return "3-6"
	default:
		return "7-12"
	}
}

// TestReplay re-runs the oracle on a saved case (no generator).
func TestReplay(t *testing.T) {
	var c replayCase
	ok, err := evid.ReplayCase(&c)
	if !ok {
		t.Skip("no VERIF_REPLAY")
	}
	if err != nil {
		t.Fatal(err)
	}
	r := evid.R()
	defer r.Begin(t)()
	ctx := context.Background()
	r.Eval()
	switch {
	case c.Kind == "modules" && c.Modules != nil:
		report(t, r, checkCase(ctx, *c.Modules), c)
	case c.Kind == "manifest" && c.Manifest != nil:
		report(t, r, checkManifestCase(ctx, *c.Manifest), c)
	case c.Kind == "workspace" && c.Workspace != nil:
		report(t, r, checkWorkspace(ctx, *c.Workspace), c)
	case c.Kind == "history" && c.History != nil:
		report(t, r, checkHistory(ctx, *c.History), c)
	default:
		t.Fatalf("harness: replay case of unknown kind %q", c.Kind)
	}
}

var _ = sort.Strings
