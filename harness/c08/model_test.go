package c08

import (
	"bytes"
	"sort"
	"strings"

	"github.com/bufbuild/bufverif/internal/digestref"
)

// File is one file of a module directory. The content is Head (the import statements of a .proto
// file, plain text) followed by Tail (arbitrary bytes).
type File struct {
	Path string `json:"path"`
	Head string `json:"head,omitempty"`
	Tail []byte `json:"tail"`
}

// Data is the file content.
func (f File) Data() []byte { return append([]byte(f.Head), f.Tail...) }

// Obj is a v1 buf.yaml / buf.lock object handed to the module next to the bucket (enters b4 only).
type Obj struct {
	Name string `json:"name"`
	Data []byte `json:"data"`
}

// Mod is the content of one module: everything a digest may depend on.
type Mod struct {
	Files  []File `json:"files"`
	Anchor string `json:"anchor"` // the .proto file other modules import; carries this module's imports
	Deps   []int  `json:"deps"`   // indices (< own index) of the modules imported directly
	// Twins lists dependencies (members of the transitive closure) that this module additionally
	// depends on a second time through a content-identical module published under another name
	// (a fork/mirror): the same b5 digest then occurs once more among the dependency digests.
	// buf rejects two modules with the same .proto paths inside one workspace, so a twin can only
	// be a pinned dependency key of a remote module; a module with twins is always presented remote.
	Twins []int `json:"twins,omitempty"`
	Yaml  *Obj  `json:"yaml,omitempty"`
	Lock  *Obj  `json:"lock,omitempty"`
}

// ModView is how one module is presented to buf: nothing in here may influence a digest.
type ModView struct {
	Name           string   `json:"name"` // "" = unnamed local module
	Remote         bool     `json:"remote"`
	Backend        string   `json:"backend"` // mem | os | tar | zip | zipc
	Shuffle        []int    `json:"shuffle,omitempty"`
	StripNonModule bool     `json:"strip_non_module,omitempty"`
	Target         bool     `json:"target"`
	TargetPaths    []string `json:"target_paths,omitempty"`
	ExcludePaths   []string `json:"exclude_paths,omitempty"`
	Desc           string   `json:"desc,omitempty"`
	Commit         int      `json:"commit"`
}

// View is one presentation of a whole module graph.
type View struct {
	Mods      []ModView `json:"mods"`
	RemoteVia string    `json:"remote_via"` // omni | wrap | store-dir | store-tar | pinned
	Retarget  []int     `json:"retarget,omitempty"`
}

// Pert describes the perturbation that turned Mods into Mods2 (informational: the oracle compares
// the two models, it does not re-apply the perturbation).
type Pert struct {
	Kind string `json:"kind"`
	Mod  int    `json:"mod"`
	Path string `json:"path,omitempty"`
	Note string `json:"note,omitempty"`
}

// Case is one complete input of the module-digest oracle.
type Case struct {
	Mods        []Mod `json:"mods"`
	Mods2       []Mod `json:"mods2"`
	Pert        Pert  `json:"pert"`
	A           View  `json:"view_a"`
	B           View  `json:"view_b"`
	C           View  `json:"view_c"`
	ManifestMod int   `json:"manifest_mod"`
}

func fileMap(m Mod) map[string][]byte {
	out := make(map[string][]byte, len(m.Files))
	for _, f := range m.Files {
		out[f.Path] = f.Data()
	}
	return out
}

func objMap(m Mod) map[string][]byte {
	out := map[string][]byte{}
	if m.Yaml != nil {
		out[m.Yaml.Name] = m.Yaml.Data
	}
	if m.Lock != nil {
		out[m.Lock.Name] = m.Lock.Data
	}
	return out
}

// closure returns for every module the sorted set of its direct and transitive dependencies.
func closure(mods []Mod) [][]int {
	out := make([][]int, len(mods))
	for i, m := range mods {
		set := map[int]bool{}
		for _, d := range m.Deps {
			set[d] = true
			for _, dd := range out[d] {
				set[dd] = true
			}
		}
		for d := range set {
			out[i] = append(out[i], d)
		}
		sort.Ints(out[i])
	}
	return out
}

type refDigests struct {
	b5, b4 []string
}

// reference computes the expected digests of every module from the model alone.
func reference(mods []Mod) refDigests {
	cl := closure(mods)
	r := refDigests{b5: make([]string, len(mods)), b4: make([]string, len(mods))}
	for i, m := range mods {
		var deps []string
		for _, d := range cl[i] {
			deps = append(deps, r.b5[d])
		}
		for _, d := range m.Twins {
			deps = append(deps, r.b5[d]) // the fork has the digest of the module it mirrors
		}
		files := fileMap(m)
		r.b5[i] = digestref.B5(files, deps)
		r.b4[i] = digestref.B4(files, objMap(m))
	}
	return r
}

func sameModuleFiles(a, b Mod) bool {
	fa, fb := digestref.ModuleFiles(fileMap(a)), digestref.ModuleFiles(fileMap(b))
	if len(fa) != len(fb) {
		return false
	}
	for p, c := range fa {
		c2, ok := fb[p]
		if !ok || !bytes.Equal(c, c2) {
			return false
		}
	}
	return true
}

func sameObjs(a, b Mod) bool {
	oa, ob := objMap(a), objMap(b)
	if len(oa) != len(ob) {
		return false
	}
	for n, c := range oa {
		c2, ok := ob[n]
		if !ok || !bytes.Equal(c, c2) {
			return false
		}
	}
	return true
}

// expectedB5Change: module i's b5 digest must differ between the two models iff its module files
// differ, its dependency set differs, or any dependency's digest must differ.
func expectedB5Change(a, b []Mod) []bool {
	ca, cb := closure(a), closure(b)
	out := make([]bool, len(a))
	for i := range a {
		ch := !sameModuleFiles(a[i], b[i]) || !sameInts(a[i].Twins, b[i].Twins)
		for _, d := range a[i].Twins {
			if out[d] {
				ch = true
			}
		}
		if len(ca[i]) != len(cb[i]) {
			ch = true
		} else {
			for k := range ca[i] {
				if ca[i][k] != cb[i][k] || out[ca[i][k]] {
					ch = true
				}
			}
		}
		out[i] = ch
	}
	return out
}

func sameInts(a, b []int) bool {
	x, y := append([]int{}, a...), append([]int{}, b...)
	sort.Ints(x)
	sort.Ints(y)
	if len(x) != len(y) {
		return false
	}
	for i := range x {
		if x[i] != y[i] {
			return false
		}
	}
	return true
}

func hasTwins(mods []Mod) bool {
	for _, m := range mods {
		if len(m.Twins) > 0 {
			return true
		}
	}
	return false
}

func moduleFilePaths(m Mod) []string {
	var out []string
	for p := range digestref.ModuleFiles(fileMap(m)) {
		out = append(out, p)
	}
	sort.Strings(out)
	return out
}

func nonModuleFilePaths(m Mod) []string {
	mf := digestref.ModuleFiles(fileMap(m))
	var out []string
	for _, f := range m.Files {
		if _, ok := mf[f.Path]; !ok {
			out = append(out, f.Path)
		}
	}
	sort.Strings(out)
	return out
}

func cloneMods(mods []Mod) []Mod {
	out := make([]Mod, len(mods))
	for i, m := range mods {
		c := m
		c.Files = make([]File, len(m.Files))
		for k, f := range m.Files {
			c.Files[k] = File{Path: f.Path, Head: f.Head, Tail: append([]byte(nil), f.Tail...)}
		}
		c.Deps = append([]int(nil), m.Deps...)
		c.Twins = append([]int(nil), m.Twins...)
		out[i] = c
	}
	return out
}

// treeOK reports whether path can be added to the file set as a regular file: not present, no
// proper prefix of it is a file, and it is not a directory of an existing file.
func treeOK(paths map[string]bool, path string) bool {
	if paths[path] {
		return false
	}
	for p := range paths {
		if strings.HasPrefix(p, path+"/") || strings.HasPrefix(path, p+"/") {
			return false
		}
	}
	return true
}
