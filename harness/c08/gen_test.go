package c08

import (
	"fmt"
	"strings"

	"github.com/bufbuild/bufverif/internal/digestref"
	"github.com/bufbuild/bufverif/internal/evid"
	"pgregory.net/rapid"
)

// ---------------------------------------------------------------------------------------------
// paths

// Path components. Entries starting with "!" are shapes that are excluded by construction: they are
// replaced by a harmless component and the exclusion is counted in the evidence.
var components = []string{
	"a", "b", "c", "pkg", "v1", "A", "x.y", "a.b.c",
	"a b", "a  b", "a   b", " ", "  ", " a", "a ", " a  b ",
	"é", "日本語", "ñ-x", "Ω Ω", "a b", "😀", "é",
	"..a", "a..", "...", "-", "_", "--x", "~", "#h", "a,b", "a:b", "a@b", "[x]", "(x)", "x'y", "$x", "%41", "a=b", "a;b", "a&b", "a+b", "a*b", "a?b",
	"LICENSE", "buf.md", "x.proto", "proto", "README.md",
	"!newline", "!dotunderscore",
}

// quote and backslash free subset used for the files other modules import by string literal
var plainComponents = []string{
	"a", "b", "c", "pkg", "v1", "x.y", "a b", "a  b", " ", "é", "日本語", "..a", "...", "-", "a,b", "x.proto", "LICENSE",
}

func genComponent(t *rapid.T, label string) string {
	r := evid.R()
	var c string
	if rapid.IntRange(0, 5).Draw(t, label+"-rnd") == 0 {
		c = rapid.StringMatching(`[a-zA-Z0-9 _.\-éß日]{1,6}`).Draw(t, label+"-rs")
		if c == "." || c == ".." {
			c = c + "x"
		}
		if strings.HasPrefix(c, "._") {
			r.Excluded("basename-dot-underscore-prefix")
			c = "x" + c
		}
		return c
	}
	c = rapid.SampledFrom(components).Draw(t, label)
	switch c {
	case "!newline":
		// "a\nb": NewFileNode accepts it but a line-based manifest cannot represent it.
		r.Excluded("path-with-newline")
		return "a_b"
	case "!dotunderscore":
		// "._x" base names are deliberately dropped by Untar/Unzip (AppleDouble files).
		r.Excluded("basename-dot-underscore-prefix")
		return "_.x"
	}
	return c
}

func genDir(t *rapid.T, label string, plain bool) string {
	depth := rapid.SampledFrom([]int{0, 0, 0, 1, 1, 2, 2, 3, 5, 8}).Draw(t, label+"-depth")
	parts := make([]string, depth)
	for i := range parts {
		if plain {
			parts[i] = rapid.SampledFrom(plainComponents).Draw(t, label+"-pc")
		} else {
			parts[i] = genComponent(t, label+"-c")
		}
	}
	return strings.Join(parts, "/")
}

func join(dir, base string) string {
	if dir == "" {
		return base
	}
	return dir + "/" + base
}

func genProtoPath(t *rapid.T, label string, plain bool) string {
	dir := genDir(t, label, plain)
	var base string
	if plain {
		base = rapid.SampledFrom(plainComponents).Draw(t, label+"-pb")
	} else {
		base = genComponent(t, label+"-b")
		if rapid.IntRange(0, 29).Draw(t, label+"-bare") == 0 {
			base = "" // a file named ".proto"
		}
	}
	if strings.HasPrefix(base, "._") {
		base = "x" + base
	}
	return join(dir, base+".proto")
}

var rootNonModule = []string{
	"buf.yaml", "buf.lock", "buf.gen.yaml", "buf.work.yaml", "buf.mod", "x.txt", "license", "LICENSE.txt", "LICENSE.md",
	"README", "readme.md", "README.MD", "Buf.md", "buf.MD", "README.markdown.bak", "a.protox", "a.proto.bak", "a.PROTO", "proto", "a.proto ", "a.proto~",
	"Makefile", ".gitignore", "go.mod",
}

var nestedNonModule = []string{"LICENSE", "buf.md", "README.md", "README.markdown", "buf.yaml", "x.txt", "a.json", "notes"}

func genNonModulePath(t *rapid.T, label string) string {
	if rapid.Bool().Draw(t, label+"-root") {
		return rapid.SampledFrom(rootNonModule).Draw(t, label+"-rn")
	}
	dir := genDir(t, label, false)
	if dir == "" {
		dir = genComponent(t, label+"-d")
	}
	return join(dir, rapid.SampledFrom(nestedNonModule).Draw(t, label+"-nn"))
}

// ---------------------------------------------------------------------------------------------
// contents

// genBytes: arbitrary bytes including empty; forProto removes the byte 'p' so that the lenient
// import scanner buf runs over every .proto file can never see an `import`/`package` keyword in it.
func genBytes(t *rapid.T, label string, forProto bool) []byte {
	var b []byte
	switch rapid.IntRange(0, 9).Draw(t, label+"-shape") {
	case 0:
		b = []byte{}
	case 1:
		b = rapid.SliceOfN(rapid.Byte(), 200, 3000).Draw(t, label+"-long")
	case 2:
		b = []byte(rapid.SampledFrom([]string{
			"syntax = \"proto3\";\n", "message M {}\n", "\n", "\r\n", "\x00", "  ", "// c\n", "\xef\xbb\xbf", "shake256:00  x\n",
		}).Draw(t, label+"-text"))
	default:
		b = rapid.SliceOfN(rapid.Byte(), 0, 40).Draw(t, label+"-b")
	}
	if forProto {
		b = noP(b)
	}
	if b == nil {
		b = []byte{}
	}
	return b
}

func noP(b []byte) []byte {
	out := append([]byte{}, b...)
	for i, c := range out {
		if c == 'p' {
			out[i] = 'q'
		}
	}
	return out
}

// well-known-type paths a module of the graph may ship itself; google/protobuf/empty.proto is
// reserved for imports that must resolve to the built-in copy.
var providedWKTPaths = []string{
	"google/protobuf/timestamp.proto", "google/protobuf/any.proto", "google/protobuf/duration.proto", "google/protobuf/descriptor.proto",
	"google/protobuf/compiler/plugin.proto", "google/protobuf/struct.proto", "google/protobuf/wrappers.proto", "google/protobuf/field_mask.proto",
}

var importForms = []string{
	"import \"%s\";\n", "import \"%s\";\n", "import public \"%s\";\n", "import weak \"%s\";\n", "import\t'%s' ;\n", "  import \"%s\";",
}

// ---------------------------------------------------------------------------------------------
// module graphs

type genState struct {
	protoPaths map[string]bool // .proto paths used anywhere in the graph (must be globally unique)
}

func genMod(t *rapid.T, st *genState, idx int, prev []Mod) Mod {
	lbl := fmt.Sprintf("m%d", idx)
	m := Mod{Deps: []int{}}
	paths := map[string]bool{}
	add := func(f File) bool {
		if !treeOK(paths, f.Path) {
			return false
		}
		if digestref.IsProto(f.Path) {
			if st.protoPaths[f.Path] {
				return false
			}
			st.protoPaths[f.Path] = true
		}
		paths[f.Path] = true
		m.Files = append(m.Files, f)
		return true
	}
	// dependencies
	for j := 0; j < idx; j++ {
		if rapid.IntRange(0, 9).Draw(t, lbl+"-dep") < 5 {
			m.Deps = append(m.Deps, j)
		}
	}
	// now and then the module also depends on a fork (same content, other name) of a dependency
	if len(m.Deps) > 0 && rapid.IntRange(0, 7).Draw(t, lbl+"-twin") == 0 {
		cl := closure(append(append([]Mod{}, prev...), m))[idx]
		for k := 0; k < rapid.IntRange(1, 2).Draw(t, lbl+"-ntwins"); k++ {
			m.Twins = append(m.Twins, rapid.SampledFrom(cl).Draw(t, lbl+"-twinof"))
		}
	}
	// anchor
	for k := 0; ; k++ {
		p := genProtoPath(t, lbl+"-anchor", true)
		if k > 0 {
			p = join(fmt.Sprintf("m%d_%d", idx, k), p)
		}
		if k == 0 && rapid.IntRange(0, 3).Draw(t, lbl+"-wktanchor") == 0 {
			// the module ships a file at a well-known-type path (a wellknowntypes-style module or a
			// vendored copy): modules importing it depend on this module like on any other
			p = rapid.SampledFrom(providedWKTPaths).Draw(t, lbl+"-wktpath")
		}
		var head strings.Builder
		if rapid.Bool().Draw(t, lbl+"-syntax") {
			head.WriteString("syntax = \"proto3\";\n")
		}
		for _, d := range m.Deps {
			fmt.Fprintf(&head, rapid.SampledFrom(importForms).Draw(t, lbl+"-form"), prev[d].Anchor)
		}
		if rapid.IntRange(0, 3).Draw(t, lbl+"-wkt") == 0 {
			// a well-known type nobody in the graph ships (reserved: never an anchor): not a dependency
			head.WriteString("import \"google/protobuf/empty.proto\";\n")
		}
		if head.Len() > 0 && !strings.HasSuffix(head.String(), "\n") {
			head.WriteString("\n")
		}
		if add(File{Path: p, Head: head.String(), Tail: genBytes(t, lbl+"-anchor-tail", true)}) {
			m.Anchor = p
			break
		}
	}
	n := rapid.SampledFrom([]int{0, 1, 2, 3, 3, 4, 5, 6, 8, 10, 12}).Draw(t, lbl+"-nfiles")
	for k := 0; k < n; k++ {
		fl := fmt.Sprintf("%s-f%d", lbl, k)
		switch kind := rapid.IntRange(0, 9).Draw(t, fl+"-kind"); {
		case kind <= 3:
			f := File{Path: genProtoPath(t, fl, false), Tail: genBytes(t, fl+"-tail", true)}
			if rapid.IntRange(0, 4).Draw(t, fl+"-self") == 0 {
				f.Head = fmt.Sprintf("import \"%s\";\n", m.Anchor) // import inside the module
			}
			add(f)
		case kind == 4:
			add(File{Path: "LICENSE", Tail: genBytes(t, fl+"-lic", false)})
		case kind <= 6:
			add(File{Path: rapid.SampledFrom(digestref.DocFileOrder).Draw(t, fl+"-doc"), Tail: genBytes(t, fl+"-docb", false)})
		default:
			f := File{Path: genNonModulePath(t, fl), Tail: genBytes(t, fl+"-nm", false)}
			if digestref.IsProto(f.Path) {
				// a component such as "x.proto" at the end: would be a module file with unchecked content
				f.Path += ".txt"
			}
			add(f)
		}
	}
	// duplicate content between two files (blob de-duplication)
	if len(m.Files) >= 3 && rapid.IntRange(0, 4).Draw(t, lbl+"-dup") == 0 {
		a := rapid.IntRange(1, len(m.Files)-1).Draw(t, lbl+"-dupa")
		b := rapid.IntRange(1, len(m.Files)-1).Draw(t, lbl+"-dupb")
		if a != b && m.Files[a].Head == "" && m.Files[b].Head == "" {
			src := m.Files[a].Tail
			if digestref.IsProto(m.Files[b].Path) {
				src = noP(src)
			}
			m.Files[b].Tail = append([]byte{}, src...)
		}
	}
	if rapid.IntRange(0, 2).Draw(t, lbl+"-yaml") == 0 {
		m.Yaml = &Obj{Name: rapid.SampledFrom([]string{"buf.yaml", "buf.mod"}).Draw(t, lbl+"-yamln"), Data: genBytes(t, lbl+"-yamlb", false)}
	}
	if rapid.IntRange(0, 3).Draw(t, lbl+"-lock") == 0 {
		m.Lock = &Obj{Name: "buf.lock", Data: genBytes(t, lbl+"-lockb", false)}
	}
	return m
}

func genMods(t *rapid.T) ([]Mod, *genState) {
	st := &genState{protoPaths: map[string]bool{}}
	n := rapid.SampledFrom([]int{1, 2, 2, 3, 3, 3, 4, 4, 5}).Draw(t, "nmods")
	var mods []Mod
	for i := 0; i < n; i++ {
		mods = append(mods, genMod(t, st, i, mods))
	}
	return mods, st
}

// ---------------------------------------------------------------------------------------------
// views

func genView(t *rapid.T, lbl string, mods []Mod) View {
	v := View{Mods: make([]ModView, len(mods))}
	anyTarget := false
	for i, m := range mods {
		l := fmt.Sprintf("%s-m%d", lbl, i)
		mv := ModView{
			Backend: rapid.SampledFrom([]string{"mem", "mem", "os", "tar", "zip", "zipc"}).Draw(t, l+"-backend"),
			Remote:  rapid.IntRange(0, 2).Draw(t, l+"-remote") == 0,
			Target:  rapid.IntRange(0, 2).Draw(t, l+"-target") != 0,
			Commit:  rapid.IntRange(1, 1000).Draw(t, l+"-commit"),
		}
		if rapid.Bool().Draw(t, l+"-shuf") {
			mv.Shuffle = rapid.Permutation(iota32()).Draw(t, l+"-perm")
		}
		mv.StripNonModule = rapid.IntRange(0, 3).Draw(t, l+"-strip") == 0
		if rapid.IntRange(0, 2).Draw(t, l+"-named") != 0 {
			mv.Name = fmt.Sprintf("%s/%s/%s%d",
				rapid.SampledFrom([]string{"buf.build", "bsr.example.com", "localhost:8080"}).Draw(t, l+"-reg"),
				rapid.SampledFrom([]string{"acme", "zed", "a-b"}).Draw(t, l+"-owner"),
				rapid.SampledFrom([]string{"mod", "zz", "aa", "pet-store"}).Draw(t, l+"-nm"), i)
		}
		if mv.Target && rapid.IntRange(0, 2).Draw(t, l+"-tp") == 0 {
			mv.TargetPaths = genTargetPaths(t, l+"-tps", m)
			if rapid.Bool().Draw(t, l+"-ep") {
				mv.ExcludePaths = genTargetPaths(t, l+"-eps", m)
			}
		}
		if rapid.IntRange(0, 3).Draw(t, l+"-desc") == 0 {
			mv.Desc = fmt.Sprintf("path: %s #%d", rapid.SampledFrom([]string{"proto", "x y", "."}).Draw(t, l+"-descs"), i)
		}
		anyTarget = anyTarget || mv.Target
		v.Mods[i] = mv
	}
	// a fork can only be a pinned dependency key: modules with twins are remote
	for i := range mods {
		if len(mods[i].Twins) > 0 {
			v.Mods[i].Remote = true
		}
	}
	// remote modules can only depend on remote modules: close the flag downwards
	for i := len(mods) - 1; i >= 0; i-- {
		if v.Mods[i].Remote {
			for _, d := range mods[i].Deps {
				v.Mods[d].Remote = true
			}
		}
	}
	for i := range v.Mods {
		mv := &v.Mods[i]
		if mv.Remote && mv.Name == "" {
			mv.Name = fmt.Sprintf("buf.build/remote/r%d", i)
		}
		if mv.Remote {
			mv.Desc = ""
		}
	}
	if !anyTarget {
		v.Mods[len(mods)-1].Target = true
	}
	v.RemoteVia = rapid.SampledFrom([]string{"omni", "wrap", "store-dir", "store-tar", "pinned"}).Draw(t, lbl+"-via")
	if hasTwins(mods) {
		v.RemoteVia = "pinned" // the registry stand-in cannot hold two modules with the same .proto paths
	}
	if rapid.IntRange(0, 2).Draw(t, lbl+"-retarget") == 0 {
		for i := range mods {
			if rapid.Bool().Draw(t, lbl+"-rt") {
				v.Retarget = append(v.Retarget, i)
			}
		}
	}
	return v
}

func iota32() []int {
	out := make([]int, 32)
	for i := range out {
		out[i] = i
	}
	return out
}

func genTargetPaths(t *rapid.T, lbl string, m Mod) []string {
	var out []string
	seen := map[string]bool{}
	for k := 0; k < rapid.IntRange(1, 2).Draw(t, lbl+"-n"); k++ {
		f := m.Files[rapid.IntRange(0, len(m.Files)-1).Draw(t, lbl+"-f")]
		p := f.Path
		if i := strings.LastIndexByte(p, '/'); i > 0 && rapid.Bool().Draw(t, lbl+"-dir") {
			p = p[:i]
		}
		if rapid.IntRange(0, 5).Draw(t, lbl+"-missing") == 0 {
			p = "no/such/dir"
		}
		if !seen[p] {
			seen[p] = true
			out = append(out, p)
		}
	}
	return out
}

// ---------------------------------------------------------------------------------------------
// perturbations

func flipByte(t *rapid.T, lbl string, old byte, proto bool) byte {
	nb := old ^ byte(rapid.IntRange(1, 255).Draw(t, lbl))
	if proto && nb == 'p' {
		nb = 'q'
		if old == 'q' {
			nb = 'r'
		}
	}
	return nb
}

// genPert returns the perturbed copy of mods.
func genPert(t *rapid.T, mods []Mod, st *genState) ([]Mod, Pert) {
	out := cloneMods(mods)
	// prefer modules that others depend on
	var withDependents []int
	for i := range mods {
		for j := i + 1; j < len(mods); j++ {
			for _, d := range mods[j].Deps {
				if d == i {
					withDependents = append(withDependents, i)
				}
			}
		}
	}
	ti := rapid.IntRange(0, len(mods)-1).Draw(t, "pert-mod")
	if len(withDependents) > 0 && rapid.Bool().Draw(t, "pert-dep") {
		ti = rapid.SampledFrom(withDependents).Draw(t, "pert-depmod")
	}
	m := &out[ti]
	isMod := map[string]bool{}
	for _, p := range moduleFilePaths(*m) {
		isMod[p] = true
	}
	var modIdx, nonIdx, protoNonAnchor []int
	paths := map[string]bool{}
	for k, f := range m.Files {
		paths[f.Path] = true
		if isMod[f.Path] {
			modIdx = append(modIdx, k)
			if digestref.IsProto(f.Path) && f.Path != m.Anchor {
				protoNonAnchor = append(protoNonAnchor, k)
			}
		} else {
			nonIdx = append(nonIdx, k)
		}
	}
	doc := digestref.ChosenDoc(fileMap(*m))
	kinds := []string{"none", "append", "add-proto", "add-nonmodule"}
	var withTail []int
	for _, k := range modIdx {
		if len(m.Files[k].Tail) > 0 {
			withTail = append(withTail, k)
		}
	}
	if len(withTail) > 0 {
		kinds = append(kinds, "flip", "flip", "truncate")
	}
	if len(protoNonAnchor) > 0 {
		kinds = append(kinds, "rename", "remove")
	}
	if len(modIdx) >= 2 {
		kinds = append(kinds, "swap-content")
	}
	if !paths["LICENSE"] && treeOK(paths, "LICENSE") {
		kinds = append(kinds, "add-license")
	} else if paths["LICENSE"] {
		kinds = append(kinds, "remove-license")
	}
	if doc == "" {
		kinds = append(kinds, "add-doc")
	} else {
		kinds = append(kinds, "remove-doc", "add-shadowed-doc")
		if doc != "buf.md" {
			kinds = append(kinds, "add-preferred-doc")
		}
	}
	if len(nonIdx) > 0 {
		kinds = append(kinds, "remove-nonmodule", "modify-nonmodule")
	}
	if len(m.Deps) > 0 {
		kinds = append(kinds, "add-twin-dep")
	}
	if len(m.Twins) > 0 {
		kinds = append(kinds, "remove-twin-dep", "remove-twin-dep")
	}
	kind := rapid.SampledFrom(kinds).Draw(t, "pert-kind")
	p := Pert{Kind: kind, Mod: ti}
	removeAt := func(k int) {
		m.Files = append(m.Files[:k:k], m.Files[k+1:]...)
	}
	switch kind {
	case "none":
	case "add-twin-dep":
		d := rapid.SampledFrom(closure(mods)[ti]).Draw(t, "pert-twinof")
		m.Twins = append(m.Twins, d)
		p.Note = fmt.Sprintf("also depend on a fork of module %d", d)
	case "remove-twin-dep":
		k := rapid.IntRange(0, len(m.Twins)-1).Draw(t, "pert-twin")
		p.Note = fmt.Sprintf("no longer depend on the fork of module %d", m.Twins[k])
		m.Twins = append(m.Twins[:k:k], m.Twins[k+1:]...)
	case "flip":
		k := rapid.SampledFrom(withTail).Draw(t, "pert-file")
		f := &m.Files[k]
		pos := rapid.IntRange(0, len(f.Tail)-1).Draw(t, "pert-pos")
		f.Tail[pos] = flipByte(t, "pert-mask", f.Tail[pos], digestref.IsProto(f.Path))
		p.Path, p.Note = f.Path, fmt.Sprintf("tail byte %d", pos)
	case "append":
		k := rapid.SampledFrom(modIdx).Draw(t, "pert-file")
		f := &m.Files[k]
		extra := rapid.SliceOfN(rapid.Byte(), 1, 3).Draw(t, "pert-extra")
		if digestref.IsProto(f.Path) {
			extra = noP(extra)
		}
		f.Tail = append(f.Tail, extra...)
		p.Path = f.Path
	case "truncate":
		k := rapid.SampledFrom(withTail).Draw(t, "pert-file")
		f := &m.Files[k]
		cut := rapid.IntRange(1, len(f.Tail)).Draw(t, "pert-cut")
		f.Tail = f.Tail[:len(f.Tail)-cut]
		p.Path, p.Note = f.Path, fmt.Sprintf("cut %d", cut)
	case "rename":
		k := rapid.SampledFrom(protoNonAnchor).Draw(t, "pert-file")
		old := m.Files[k].Path
		delete(paths, old)
		np := genProtoPath(t, "pert-newpath", false)
		if rapid.Bool().Draw(t, "pert-near") {
			// a minimal rename: one more space / another case
			np = strings.TrimSuffix(old, ".proto") + rapid.SampledFrom([]string{" ", "_", "x", "  "}).Draw(t, "pert-suffix") + ".proto"
		}
		if st.protoPaths[np] || !treeOK(paths, np) {
			np = join(fmt.Sprintf("renamed_m%d", ti), "r.proto")
		}
		st.protoPaths[np] = true
		m.Files[k].Path = np
		p.Path, p.Note = old, "-> "+np
	case "remove":
		k := rapid.SampledFrom(protoNonAnchor).Draw(t, "pert-file")
		p.Path = m.Files[k].Path
		removeAt(k)
	case "swap-content":
		a := rapid.SampledFrom(modIdx).Draw(t, "pert-a")
		b := rapid.SampledFrom(modIdx).Draw(t, "pert-b")
		fa, fb := &m.Files[a], &m.Files[b]
		ta, tb := fa.Tail, fb.Tail
		if digestref.IsProto(fa.Path) {
			tb = noP(tb)
		}
		if digestref.IsProto(fb.Path) {
			ta = noP(ta)
		}
		fa.Tail, fb.Tail = append([]byte{}, tb...), append([]byte{}, ta...)
		p.Path, p.Note = fa.Path, "<-> "+fb.Path
	case "add-proto":
		np := genProtoPath(t, "pert-newpath", false)
		if st.protoPaths[np] || !treeOK(paths, np) {
			np = join(fmt.Sprintf("added_m%d", ti), "n.proto")
		}
		st.protoPaths[np] = true
		m.Files = append(m.Files, File{Path: np, Tail: genBytes(t, "pert-newb", true)})
		p.Path = np
	case "add-license":
		m.Files = append(m.Files, File{Path: "LICENSE", Tail: genBytes(t, "pert-newb", false)})
		p.Path = "LICENSE"
	case "remove-license", "remove-doc":
		target := "LICENSE"
		if kind == "remove-doc" {
			target = doc
		}
		for k, f := range m.Files {
			if f.Path == target {
				removeAt(k)
				break
			}
		}
		p.Path = target
	case "add-doc":
		np := rapid.SampledFrom(digestref.DocFileOrder).Draw(t, "pert-doc")
		if treeOK(paths, np) {
			m.Files = append(m.Files, File{Path: np, Tail: genBytes(t, "pert-newb", false)})
		}
		p.Path = np
	case "add-shadowed-doc", "add-preferred-doc":
		// every other doc path: the ones after `doc` in the order are ignored, the ones before replace it
		var cands []string
		before := true
		for _, d := range digestref.DocFileOrder {
			if d == doc {
				before = false
				continue
			}
			if paths[d] || !treeOK(paths, d) {
				continue
			}
			if (kind == "add-preferred-doc") == before {
				cands = append(cands, d)
			}
		}
		if len(cands) > 0 {
			np := rapid.SampledFrom(cands).Draw(t, "pert-doc")
			m.Files = append(m.Files, File{Path: np, Tail: genBytes(t, "pert-newb", false)})
			p.Path = np
		} else {
			p.Note = "no candidate"
		}
	case "add-nonmodule":
		np := genNonModulePath(t, "pert-newpath")
		if digestref.IsProto(np) {
			np += ".txt"
		}
		if isDocName(np) || np == "LICENSE" || !treeOK(paths, np) {
			np = "added-non-module.txt"
		}
		if treeOK(paths, np) {
			m.Files = append(m.Files, File{Path: np, Tail: genBytes(t, "pert-newb", false)})
		}
		p.Path = np
	case "remove-nonmodule":
		k := rapid.SampledFrom(nonIdx).Draw(t, "pert-file")
		p.Path = m.Files[k].Path
		removeAt(k)
	case "modify-nonmodule":
		k := rapid.SampledFrom(nonIdx).Draw(t, "pert-file")
		f := &m.Files[k]
		f.Tail = append(f.Tail, rapid.SliceOfN(rapid.Byte(), 1, 3).Draw(t, "pert-extra")...)
		p.Path = f.Path
	}
	return out, p
}

func isDocName(p string) bool {
	for _, d := range digestref.DocFileOrder {
		if p == d {
			return true
		}
	}
	return false
}

func genCase(t *rapid.T) Case {
	mods, st := genMods(t)
	mods2, pert := genPert(t, mods, st)
	c := Case{Mods: mods, Mods2: mods2, Pert: pert}
	c.A = genView(t, "A", mods)
	c.B = genView(t, "B", mods)
	c.C = genView(t, "C", mods2)
	c.ManifestMod = rapid.IntRange(0, len(mods)-1).Draw(t, "manifest-mod")
	return c
}
