package c20

// (c) CLI level, compile diagnostics of multi-module workspaces: 2-4 modules of which 1..all fail to
// compile; build, lint and breaking --against in every --error-format, repeated under GOMAXPROCS /
// thread-parallelism perturbation.  Every format and every repetition must report the same set of
// (file, line, column) compile diagnostics.
//
// Reference (derived from the unchanged tree, stated in props.json): `buf build` compiles the whole
// workspace and reports every compile diagnostic of every broken file; `buf lint` and `buf breaking`
// compile one image per target module in the order of the module directory paths and stop at the first
// module that fails, i.e. they report exactly build's diagnostics of the broken module whose directory
// sorts first.

import (
	"context"
	"encoding/json"
	"fmt"
	"os"
	"path/filepath"
	"runtime"
	"sort"
	"strconv"
	"strings"
	"testing"

	"github.com/bufbuild/buf/private/pkg/osext"
	"github.com/bufbuild/buf/private/pkg/thread"
	"github.com/bufbuild/bufverif/internal/bufcli"
	"github.com/bufbuild/bufverif/internal/evid"
	"pgregory.net/rapid"
)

// Pi is a schedule perturbation.
type Pi struct {
	GoMaxProcs  int `json:"gomaxprocs"`
	Parallelism int `json:"parallelism"`
}

func withPi(pi Pi, fn func()) {
	oldProcs := runtime.GOMAXPROCS(pi.GoMaxProcs)
	oldPar := thread.Parallelism()
	thread.SetParallelism(pi.Parallelism)
	defer func() {
		thread.SetParallelism(oldPar)
		runtime.GOMAXPROCS(oldProcs)
	}()
	fn()
}

// MultiCase is the replayable scenario.
type MultiCase struct {
	Kind    string            `json:"kind"` // "multi"
	Files   map[string]string `json:"files"`
	Against map[string]string `json:"against"`
	Modules []string          `json:"modules"` // module directories
	Broken  []string          `json:"broken"`  // module directories that fail to compile
	Command string            `json:"command"` // lint | breaking
	Runs    []MultiRun        `json:"runs"`
}

// MultiRun is one invocation.
type MultiRun struct {
	Format string `json:"format"`
	Pi     Pi     `json:"pi"`
}

type diag struct {
	Path string
	Line int
	Col  int
}

func (d diag) String() string { return fmt.Sprintf("%s:%d:%d", d.Path, d.Line, d.Col) }

func diagSet(ds []diag) string {
	ss := make([]string, len(ds))
	for i, d := range ds {
		ss[i] = d.String()
	}
	sort.Strings(ss)
	return strings.Join(ss, "\n")
}

// decodeDiags decodes annotation output of any format into (path, line, column) triples.
func decodeDiags(format, out string) ([]diag, error) {
	var ds []diag
	switch format {
	case "text":
		recs, err := decodeText(out)
		if err != nil {
			return nil, err
		}
		for _, r := range recs {
			ds = append(ds, diag{r.Path, r.Line, r.Col})
		}
	case "msvs":
		recs, err := decodeMSVS(out)
		if err != nil {
			return nil, err
		}
		for _, r := range recs {
			ds = append(ds, diag{r.Path, r.Line, r.Col})
		}
	case "json":
		recs, err := decodeJSON(out)
		if err != nil {
			return nil, err
		}
		for _, r := range recs {
			ds = append(ds, diag{r.Path, r.Line, r.Col})
		}
	case "github-actions":
		recs, err := decodeGitHub(out)
		if err != nil {
			return nil, err
		}
		for _, r := range recs {
			l, c := r.Line, r.Col
			if l < 0 {
				l = 1
			}
			if c < 0 {
				c = 1
			}
			ds = append(ds, diag{r.Path, l, c})
		}
	case "junit":
		recs, err := decodeJUnit(out)
		if err != nil {
			return nil, err
		}
		for _, r := range recs {
			// failure message = path:line:col:message ; suite = path without a trailing .proto
			path := r.Suite
			if strings.HasPrefix(r.Message, r.Suite+".proto:") {
				path = r.Suite + ".proto"
			} else if !strings.HasPrefix(r.Message, r.Suite+":") {
				return nil, fmt.Errorf("junit failure message %q does not start with the suite path %q", r.Message, r.Suite)
			}
			parts := strings.SplitN(r.Message[len(path)+1:], ":", 3)
			if len(parts) != 3 {
				return nil, fmt.Errorf("junit failure message %q: no line:col:message", r.Message)
			}
			l, err1 := strconv.Atoi(parts[0])
			c, err2 := strconv.Atoi(parts[1])
			if err1 != nil || err2 != nil {
				return nil, fmt.Errorf("junit failure message %q: no line:col", r.Message)
			}
			ds = append(ds, diag{path, l, c})
		}
	default:
		return nil, fmt.Errorf("unknown format %s", format)
	}
	return ds, nil
}

var multiDirs = []string{"ma", "mb", "mod c", "prötö", "it's", "a<b>&c", "50%off", "x,y", "src/m1", "src/m 2", "zz"}

func genMultiCase(t *rapid.T) *MultiCase {
	c := &MultiCase{Kind: "multi", Files: map[string]string{}, Against: map[string]string{}}
	nMod := rapid.IntRange(2, 4).Draw(t, "modules")
	dirs := rapid.Permutation(multiDirs).Draw(t, "dirs")[:nMod]
	c.Modules = append([]string{}, dirs...)
	// buf.yaml lists the modules in drawn (not sorted) order
	c.Files["buf.yaml"] = bufYAML(c.Modules, "STANDARD")
	c.Against["buf.yaml"] = c.Files["buf.yaml"]
	nBroken := rapid.IntRange(1, nMod).Draw(t, "broken")
	brokenIdx := rapid.Permutation([]int{0, 1, 2, 3}[:nMod]).Draw(t, "brokenwhich")[:nBroken]
	isBroken := map[int]bool{}
	for _, i := range brokenIdx {
		isBroken[i] = true
		c.Broken = append(c.Broken, dirs[i])
	}
	sort.Strings(c.Broken)
	for i, d := range dirs {
		pkg := fmt.Sprintf("pk%d.v1", i)
		nFiles := rapid.IntRange(1, 5).Draw(t, "files")
		breakAt := map[int]string{}
		if isBroken[i] {
			nb := rapid.IntRange(1, min(2, nFiles)).Draw(t, "brokenfiles")
			for _, k := range rapid.Permutation([]int{0, 1, 2, 3, 4}[:nFiles]).Draw(t, "brokenfilewhich")[:nb] {
				breakAt[k] = rapid.SampledFrom([]string{"syntax", "type", "two-types"}).Draw(t, "breakkind")
			}
		}
		for k := 0; k < nFiles; k++ {
			var b strings.Builder
			fmt.Fprintf(&b, "syntax = \"proto3\";\n\npackage %s;\n\n", pkg)
			if breakAt[k] == "import" {
				b.WriteString("import \"nope/missing.proto\";\n\n")
			}
			nMsg := rapid.IntRange(1, 6).Draw(t, "msgs")
			for m := 0; m < nMsg; m++ {
				fmt.Fprintf(&b, "message M%dF%dN%d {\n  string id = 1;\n  int32 count = 2;\n}\n", i, k, m)
			}
			clean := b.String()
			if breakAt[k] == "import" {
				clean = strings.Replace(clean, "import \"nope/missing.proto\";\n\n", "", 1)
			}
			switch breakAt[k] {
			case "syntax":
				fmt.Fprintf(&b, "message Broken%d_%d {\n", i, k)
			case "type":
				fmt.Fprintf(&b, "message Broken%d_%d {\n  NoSuchType a = 1;\n}\n", i, k)
			case "two-types":
				fmt.Fprintf(&b, "message Broken%d_%d {\n  NoSuchType a = 1;\n  string ok = 2;\n  other.Missing b = 3;\n}\n", i, k)
			}
			rel := fmt.Sprintf("%s/pk%d/v1/file_%d.proto", d, i, k)
			c.Files[rel] = b.String()
			c.Against[rel] = clean
		}
	}
	c.Command = rapid.SampledFrom([]string{"lint", "breaking"}).Draw(t, "command")
	pis := []Pi{{1, 1}, {2, 2}, {4, 4}, {8, 8}, {16, 16}, {16, 2}, {4, 1}, {2, 8}}
	for _, f := range allFormats {
		c.Runs = append(c.Runs, MultiRun{Format: f, Pi: rapid.SampledFrom(pis).Draw(t, "pi")})
	}
	for i := 0; i < 4; i++ {
		c.Runs = append(c.Runs, MultiRun{Format: rapid.SampledFrom(allFormats).Draw(t, "repformat"), Pi: rapid.SampledFrom(pis).Draw(t, "reppi")})
	}
	return c
}

func moduleOf(c *MultiCase, path string) string {
	best := ""
	for _, m := range c.Modules {
		if strings.HasPrefix(path, m+"/") && len(m) > len(best) {
			best = m
		}
	}
	return best
}

func checkMulti(c *MultiCase, tmp string) (key, msg string, err error) {
	root := filepath.Join(tmp, "ws")
	if err := writeTree(root, c.Files); err != nil {
		return "", "", err
	}
	if err := writeTree(filepath.Join(tmp, "against"), c.Against); err != nil {
		return "", "", err
	}
	cwd, err := os.Getwd()
	if err != nil {
		return "", "", err
	}
	if err := osext.Chdir(root); err != nil {
		return "", "", err
	}
	defer func() { _ = osext.Chdir(cwd) }()
	env := map[string]string{"HOME": filepath.Join(tmp, "home"), "BUF_CACHE_DIR": filepath.Join(tmp, "cache"), "PATH": os.Getenv("PATH")}
	run := func(pi Pi, args ...string) (code int, so, se string) {
		withPi(pi, func() { code, so, se = bufcli.Run(context.Background(), env, "", args...) })
		return
	}
	// reference: buf build, sequential
	code, so, se := run(Pi{1, 1}, "build", "--error-format", "json")
	if code != 100 || so != "" {
		return "exit-code:build", fmt.Sprintf("modules %v fail to compile: buf build must exit 100 with the diagnostics on stderr, got exit %d\n--- stdout:\n%s\n--- stderr:\n%s", c.Broken, code, so, se), nil
	}
	ref, derr := decodeDiags("json", se)
	if derr != nil {
		return "malformed:json", fmt.Sprintf("%v\n--- stderr:\n%s", derr, se), nil
	}
	byModule := map[string][]diag{}
	for _, d := range ref {
		byModule[moduleOf(c, d.Path)] = append(byModule[moduleOf(c, d.Path)], d)
	}
	var refBroken []string
	for m := range byModule {
		refBroken = append(refBroken, m)
	}
	sort.Strings(refBroken)
	if strings.Join(refBroken, "|") != strings.Join(c.Broken, "|") {
		return "format-disagree:planted", fmt.Sprintf("buf build reports diagnostics for modules %q, planted in %q\n--- stderr:\n%s", refBroken, c.Broken, se), nil
	}
	// build in every format reports the full set
	for _, r := range c.Runs[:len(allFormats)] {
		code, so, se := run(r.Pi, "build", "--error-format", r.Format)
		got, derr := decodeDiags(r.Format, se)
		if derr != nil {
			return "malformed:" + r.Format, fmt.Sprintf("buf build --error-format %s: %v\n--- stderr:\n%s", r.Format, derr, se), nil
		}
		if code != 100 || so != "" || diagSet(got) != diagSet(ref) {
			return "format-disagree:" + r.Format, fmt.Sprintf("buf build --error-format %s under %+v: exit %d, diagnostics\n%s\nwant (build --error-format json, sequential)\n%s", r.Format, r.Pi, code, diagSet(got), diagSet(ref)), nil
		}
	}
	// lint / breaking: the broken module whose directory sorts first, in every format and repetition
	want := diagSet(byModule[c.Broken[0]])
	args := []string{c.Command}
	if c.Command == "breaking" {
		args = append(args, "--against", "../against")
	}
	var first string
	for i, r := range c.Runs {
		code, so, se := run(r.Pi, append(append([]string{}, args...), "--error-format", r.Format)...)
		got, derr := decodeDiags(r.Format, so)
		if derr != nil {
			return "malformed:" + r.Format, fmt.Sprintf("buf %s --error-format %s: %v\n--- stdout:\n%s", c.Command, r.Format, derr, so), nil
		}
		desc := fmt.Sprintf("buf %s --error-format %s (run %d, GOMAXPROCS=%d parallelism=%d) -> exit %d\n--- stdout:\n%s\n--- stderr:\n%s", strings.Join(args, " "), r.Format, i, r.Pi.GoMaxProcs, r.Pi.Parallelism, code, so, se)
		if code != 100 {
			return "exit-code:" + c.Command, "modules " + strings.Join(c.Broken, ", ") + " fail to compile: want exit 100\n" + desc, nil
		}
		if i == 0 {
			first = diagSet(got)
		}
		if diagSet(got) != first {
			return "format-disagree:nondeterministic", fmt.Sprintf("the same input reports different compile diagnostics in different runs / formats:\nrun 0 (%s):\n%s\nrun %d:\n%s\n%s", c.Runs[0].Format, first, i, diagSet(got), desc), nil
		}
		if diagSet(got) != want {
			return "format-disagree:" + c.Command + "-vs-build", fmt.Sprintf("buf %s reports\n%s\nbut the diagnostics buf build reports for the first broken module %q are\n%s\n%s", c.Command, diagSet(got), c.Broken[0], want, desc), nil
		}
	}
	return "", "", nil
}

func TestMultiModuleCompileErrors(t *testing.T) {
	r := evid.R()
	base := t.TempDir()
	n := 0
	r.Check(t, r.Scale(60, 1500), 3, func(t *rapid.T) {
		n++
		c := genMultiCase(t)
		tmp := filepath.Join(base, fmt.Sprintf("multi-%d", n))
		defer os.RemoveAll(tmp)
		key, msg, err := checkMulti(c, tmp)
		if err != nil {
			t.Fatalf("harness: %v", err)
		}
		r.Eval()
		r.Class("multi-" + c.Command)
		r.Class(fmt.Sprintf("multi-%d-modules-%d-broken", len(c.Modules), len(c.Broken)))
		if len(c.Broken) >= 2 {
			b, _ := json.Marshal(c.Files)
			r.NonTrivial("multi|" + c.Command + "|" + string(b))
		}
		if key != "" {
			r.Fail(t, key, msg, c)
		}
	})
}
