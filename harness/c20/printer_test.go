package c20

// (a) printer level: arbitrary annotation lists, every format, decode and compare with the input.

import (
	"bytes"
	"fmt"
	"sort"
	"strings"
	"testing"

	"github.com/bufbuild/buf/private/bufpkg/bufanalysis"
	"github.com/bufbuild/bufverif/internal/evid"
	"pgregory.net/rapid"
)

var allFormats = []string{"text", "json", "msvs", "junit", "github-actions"}

// Ann is the plain-data form of one annotation (the replayable input).
type Ann struct {
	NoFile       bool   `json:"no_file,omitempty"`
	Path         string `json:"path"`
	ExternalPath string `json:"external_path"`
	StartLine    int    `json:"start_line"`
	StartCol     int    `json:"start_col"`
	EndLine      int    `json:"end_line"`
	EndCol       int    `json:"end_col"`
	Type         string `json:"type"`
	Message      string `json:"message"`
	Plugin       string `json:"plugin,omitempty"`
}

type fileInfo struct{ path, external string }

func (f fileInfo) Path() string         { return f.path }
func (f fileInfo) ExternalPath() string { return f.external }

func (a Ann) build() bufanalysis.FileAnnotation {
	var fi bufanalysis.FileInfo
	if !a.NoFile {
		fi = fileInfo{a.Path, a.ExternalPath}
	}
	return bufanalysis.NewFileAnnotation(fi, a.StartLine, a.StartCol, a.EndLine, a.EndCol, a.Type, a.Message, a.Plugin)
}

func fromAnnotation(fa bufanalysis.FileAnnotation) Ann {
	a := Ann{StartLine: fa.StartLine(), StartCol: fa.StartColumn(), EndLine: fa.EndLine(), EndCol: fa.EndColumn(), Type: fa.Type(), Message: fa.Message(), Plugin: fa.PluginName()}
	if fi := fa.FileInfo(); fi != nil {
		a.Path, a.ExternalPath = fi.Path(), fi.ExternalPath()
	} else {
		a.NoFile = true
	}
	return a
}

func atLeast1(n int) int {
	if n < 1 {
		return 1
	}
	return n
}

func (a Ann) shownPath() string {
	if a.NoFile {
		return "<input>"
	}
	return a.ExternalPath
}

func (a Ann) shownMessage() string {
	if a.Plugin != "" {
		return a.Message + " (" + a.Plugin + ")"
	}
	return a.Message
}

func (a Ann) textLine() string {
	return fmt.Sprintf("%s:%d:%d:%s", a.shownPath(), atLeast1(a.StartLine), atLeast1(a.StartCol), a.shownMessage())
}

// ---- hostile text ----------------------------------------------------------------------------

var hostileAtoms = []string{
	"\"", "'", "<", ">", "&", "&amp;", "&#10;", "]]>", "<!--", "-->", "<a b=\"c\">", "\n", "\r", "\r\n", "\t", "::", ":", ",", "%", "%0A", "%0D", "%25", "%3A", "%2C",
	"=", "(", ")", " ", "  ", "\\", "\\n", "/", ";", "|", "é", "日本", "😀", " ", " ", "ß", "{", "}", "[", "]", "#", "?", "*", "`", "$", "::error file=x::",
}

var plainWords = []string{"field", "Message", "name", "foo", "bar.baz", "must", "be", "PascalCase", "v1", "x"}

func genText(t *rapid.T, label string, allowNewline bool, minAtoms int) string {
	n := rapid.IntRange(minAtoms, 6).Draw(t, label+"n")
	var b strings.Builder
	for i := 0; i < n; i++ {
		if rapid.IntRange(0, 2).Draw(t, label+"kind") == 0 {
			b.WriteString(plainWords[rapid.IntRange(0, len(plainWords)-1).Draw(t, label+"word")])
			continue
		}
		a := hostileAtoms[rapid.IntRange(0, len(hostileAtoms)-1).Draw(t, label+"atom")]
		if !allowNewline && strings.ContainsAny(a, "\r\n") {
			a = " "
		}
		b.WriteString(a)
	}
	return b.String()
}

func genPath(t *rapid.T, allowNewline bool) string {
	switch rapid.IntRange(0, 5).Draw(t, "pathshape") {
	case 0:
		return "a/b/c.proto"
	case 1:
		return "dir with space/é/文件.proto"
	case 2:
		return genText(t, "p", allowNewline, 1) + ".proto"
	case 3:
		return "proto/" + genText(t, "pd", allowNewline, 1) + "/x.proto"
	case 4:
		return "x.proto.proto"
	default:
		return genText(t, "pn", allowNewline, 1)
	}
}

func genAnn(t *rapid.T, allowNewline bool, paths []string) Ann {
	var a Ann
	if rapid.IntRange(0, 19).Draw(t, "nofile") == 0 {
		a.NoFile = true
	} else {
		a.ExternalPath = paths[rapid.IntRange(0, len(paths)-1).Draw(t, "path")]
		a.Path = a.ExternalPath
		if rapid.IntRange(0, 3).Draw(t, "extdiffers") == 0 {
			a.Path = "internal/" + a.ExternalPath
		}
	}
	if rapid.IntRange(0, 9).Draw(t, "nopos") > 0 {
		a.StartLine = rapid.IntRange(1, 3000).Draw(t, "line")
		if rapid.IntRange(0, 9).Draw(t, "nocol") > 0 {
			a.StartCol = rapid.IntRange(1, 200).Draw(t, "col")
		}
		switch rapid.IntRange(0, 3).Draw(t, "end") {
		case 0:
		case 1:
			a.EndLine, a.EndCol = a.StartLine, a.StartCol
		default:
			a.EndLine = a.StartLine + rapid.IntRange(0, 5).Draw(t, "endl")
			if rapid.IntRange(0, 4).Draw(t, "noendcol") > 0 {
				a.EndCol = rapid.IntRange(1, 200).Draw(t, "endc")
			}
		}
	}
	if rapid.IntRange(0, 2).Draw(t, "realtype") > 0 {
		a.Type = rapid.SampledFrom([]string{"FIELD_LOWER_SNAKE_CASE", "MESSAGE_PASCAL_CASE", "COMPILE", "FIELD_NO_DELETE", "ENUM_ZERO_VALUE_SUFFIX"}).Draw(t, "type")
	} else {
		a.Type = genText(t, "ty", allowNewline, 1)
	}
	a.Message = genText(t, "msg", allowNewline, 1)
	if rapid.IntRange(0, 4).Draw(t, "plugin") == 0 {
		a.Plugin = rapid.SampledFrom([]string{"buf-plugin-x", "p:q", "a,b", "pl%ug", "x\ny"}).Draw(t, "pluginname")
		if !allowNewline {
			a.Plugin = strings.ReplaceAll(a.Plugin, "\n", " ")
		}
	}
	return a
}

// PrinterCase is the replayable input of the printer-level check.
type PrinterCase struct {
	Kind string `json:"kind"` // "printer"
	Anns []Ann  `json:"annotations"`
}

func hostile(s string) bool {
	return strings.ContainsAny(s, "\"'<>&\n\r%,:\t") || strings.Contains(s, "::") || func() bool {
		for _, r := range s {
			if r > 127 {
				return true
			}
		}
		return false
	}()
}

// checkPrinters prints the set in every format and compares the decoded output with the input.
func checkPrinters(anns []Ann) (key, msg string, facts map[string]bool) {
	facts = map[string]bool{}
	fas := make([]bufanalysis.FileAnnotation, len(anns))
	for i, a := range anns {
		fas[i] = a.build()
	}
	set := bufanalysis.NewFileAnnotationSet(fas...)
	if set == nil {
		return "", "", facts
	}
	var want []Ann
	for _, fa := range set.FileAnnotations() {
		want = append(want, fromAnnotation(fa))
	}
	// reference facts about the set itself: sorted by (path, line, column), no exact duplicates, nothing invented
	inKeys := map[string]bool{}
	for _, a := range anns {
		b := a
		b.Plugin, b.Path = "", ""
		inKeys[fmt.Sprintf("%+v", b)] = true
	}
	seen := map[string]bool{}
	for i, a := range want {
		b := a
		b.Plugin, b.Path = "", ""
		k := fmt.Sprintf("%+v", b)
		if !inKeys[k] {
			return "set:invented", fmt.Sprintf("annotation %+v of the set is not one of the inputs", a), facts
		}
		if seen[k] {
			return "set:duplicate", fmt.Sprintf("annotation %+v appears twice in the de-duplicated set", a), facts
		}
		seen[k] = true
		if i > 0 {
			p := want[i-1]
			less := func(x, y Ann) bool {
				if x.NoFile != y.NoFile {
					return x.NoFile
				}
				if x.ExternalPath != y.ExternalPath {
					return x.ExternalPath < y.ExternalPath
				}
				if x.StartLine != y.StartLine {
					return x.StartLine < y.StartLine
				}
				return x.StartCol < y.StartCol
			}
			if less(a, p) {
				return "set:unsorted", fmt.Sprintf("annotation %d (%s) sorts before its predecessor (%s)", i, a.textLine(), p.textLine()), facts
			}
		}
	}
	if len(seen) != len(inKeys) {
		return "set:lost", fmt.Sprintf("%d distinct input annotations, %d in the set", len(inKeys), len(seen)), facts
	}
	newline := false
	textOK, msvsOK := true, true
	for _, a := range want {
		if strings.ContainsAny(a.shownPath()+a.shownMessage(), "\n") {
			newline = true
		}
		if strings.ContainsAny(a.shownPath()+a.shownMessage(), "\n") || strings.Contains(a.shownPath(), ":") {
			textOK = false
		}
		if strings.ContainsAny(a.shownPath()+a.shownMessage()+a.Type, "\n") || strings.Contains(a.shownPath(), ") : error ") || strings.Index(a.Type+" : "+a.shownMessage(), " : ") != len(a.Type) || a.Type == "" {
			msvsOK = false
		}
	}
	facts["newline"] = newline
	out := map[string]string{}
	for _, f := range allFormats {
		var b bytes.Buffer
		if err := bufanalysis.PrintFileAnnotationSet(&b, set, f); err != nil {
			return "malformed:" + f, fmt.Sprintf("PrintFileAnnotationSet(%s) failed: %v", f, err), facts
		}
		out[f] = b.String()
	}
	bad := func(f, what string) (string, string, map[string]bool) {
		return "roundtrip:" + f, fmt.Sprintf("%s\n--- %s output:\n%s", what, f, out[f]), facts
	}
	// json
	recs, err := decodeJSON(out["json"])
	if err != nil {
		return "malformed:json", fmt.Sprintf("%v\n--- output:\n%s", err, out["json"]), facts
	}
	if len(recs) != len(want) {
		return bad("json", fmt.Sprintf("%d annotations printed, %d in the set", len(recs), len(want)))
	}
	for i, a := range want {
		exp := Rec{Path: a.ExternalPath, Line: atLeast1(a.StartLine), Col: atLeast1(a.StartCol), EndLine: atLeast1(a.EndLine), EndCol: atLeast1(a.EndCol), HasEnd: true, Type: a.Type, HasType: true, Message: a.Message, Plugin: a.Plugin}
		if a.NoFile {
			exp.Path = ""
		}
		if recs[i] != exp {
			return bad("json", fmt.Sprintf("annotation %d decodes to %+v, want %+v", i, recs[i], exp))
		}
	}
	// github-actions
	recs, err = decodeGitHub(out["github-actions"])
	if err != nil {
		return "malformed:github-actions", fmt.Sprintf("%v\n--- output:\n%q", err, out["github-actions"]), facts
	}
	if len(recs) != len(want) {
		return bad("github-actions", fmt.Sprintf("%d commands printed, %d annotations in the set", len(recs), len(want)))
	}
	for i, a := range want {
		exp := Rec{Path: a.shownPath(), Line: -1, Col: -1, EndLine: -1, EndCol: -1, Message: a.shownMessage()}
		if a.StartLine > 0 {
			exp.Line = a.StartLine
			if a.StartCol > 0 {
				exp.Col = a.StartCol
			}
			if a.EndLine > 0 {
				exp.EndLine, exp.HasEnd = a.EndLine, true
				if a.EndCol > 0 {
					exp.EndCol = a.EndCol
				}
			}
		}
		if recs[i] != exp {
			return bad("github-actions", fmt.Sprintf("annotation %d decodes to %+v, want %+v", i, recs[i], exp))
		}
	}
	// junit
	jrecs, err := decodeJUnit(out["junit"])
	if err != nil {
		return "malformed:junit", fmt.Sprintf("%v\n--- output:\n%s", err, out["junit"]), facts
	}
	if len(jrecs) != len(want) {
		return bad("junit", fmt.Sprintf("%d test cases printed, %d annotations in the set", len(jrecs), len(want)))
	}
	for i, a := range want {
		name := a.Type
		if a.StartCol != 0 {
			name += fmt.Sprintf("_%d_%d", a.StartLine, a.StartCol)
		} else if a.StartLine != 0 {
			name += fmt.Sprintf("_%d", a.StartLine)
		}
		exp := JUnitRec{Suite: strings.TrimSuffix(a.shownPath(), ".proto"), CaseName: name, Message: a.textLine(), Type: a.Type}
		if jrecs[i] != exp {
			return bad("junit", fmt.Sprintf("test case %d decodes to %+v, want %+v", i, jrecs[i], exp))
		}
	}
	// text / msvs (only for texts that keep one annotation per line and an unambiguous split)
	if textOK {
		recs, err = decodeText(out["text"])
		if err != nil {
			return "malformed:text", fmt.Sprintf("%v\n--- output:\n%s", err, out["text"]), facts
		}
		if len(recs) != len(want) {
			return bad("text", fmt.Sprintf("%d lines printed, %d annotations in the set", len(recs), len(want)))
		}
		for i, a := range want {
			exp := Rec{Path: a.shownPath(), Line: atLeast1(a.StartLine), Col: atLeast1(a.StartCol), EndLine: -1, EndCol: -1, Message: a.shownMessage()}
			if recs[i] != exp {
				return bad("text", fmt.Sprintf("line %d decodes to %+v, want %+v", i, recs[i], exp))
			}
		}
		facts["text-asserted"] = true
	}
	if msvsOK {
		recs, err = decodeMSVS(out["msvs"])
		if err != nil {
			return "malformed:msvs", fmt.Sprintf("%v\n--- output:\n%s", err, out["msvs"]), facts
		}
		if len(recs) != len(want) {
			return bad("msvs", fmt.Sprintf("%d lines printed, %d annotations in the set", len(recs), len(want)))
		}
		for i, a := range want {
			exp := Rec{Path: a.shownPath(), Line: atLeast1(a.StartLine), Col: atLeast1(a.StartCol), EndLine: -1, EndCol: -1, Type: a.Type, HasType: true, Message: a.shownMessage()}
			if recs[i] != exp {
				return bad("msvs", fmt.Sprintf("line %d decodes to %+v, want %+v", i, recs[i], exp))
			}
		}
		facts["msvs-asserted"] = true
	}
	return "", "", facts
}

func TestPrinters(t *testing.T) {
	r := evid.R()
	r.Check(t, r.Scale(8000, 300000), 1, func(t *rapid.T) {
		allowNewline := rapid.IntRange(0, 9).Draw(t, "newlines") < 3
		nPaths := rapid.IntRange(1, 3).Draw(t, "npaths")
		paths := make([]string, nPaths)
		for i := range paths {
			paths[i] = genPath(t, allowNewline)
		}
		n := rapid.IntRange(1, 6).Draw(t, "n")
		anns := make([]Ann, 0, n+1)
		for i := 0; i < n; i++ {
			anns = append(anns, genAnn(t, allowNewline, paths))
		}
		if rapid.IntRange(0, 4).Draw(t, "dup") == 0 {
			anns = append(anns, anns[rapid.IntRange(0, len(anns)-1).Draw(t, "dupwhich")])
		}
		c := PrinterCase{Kind: "printer", Anns: anns}
		key, msg, facts := checkPrinters(anns)
		r.Eval()
		files := map[string]bool{}
		host := false
		for _, a := range anns {
			files[a.ExternalPath] = true
			if hostile(a.ExternalPath) || hostile(a.Message) {
				host = true
			}
		}
		r.Class("printer-case")
		if facts["newline"] {
			r.Class("printer-newline-in-text")
		}
		if facts["text-asserted"] {
			r.Class("printer-text-asserted")
		}
		if facts["msvs-asserted"] {
			r.Class("printer-msvs-asserted")
		}
		if host {
			r.Class("printer-hostile-text")
		}
		if host || (len(anns) >= 2 && len(files) >= 2) {
			var keys []string
			for _, a := range anns {
				keys = append(keys, fmt.Sprintf("%+v", a))
			}
			sort.Strings(keys)
			r.NonTrivial("printer|" + strings.Join(keys, "|"))
			r.Sample(c)
		}
		if key != "" {
			r.Fail(t, key, msg, c)
		}
	})
}
