package c20

// (b) CLI level: generated lint-clean, formatted workspaces with planted problems; the whole buf CLI
// runs in-process (internal/bufcli) from inside the workspace directory.

import (
	"bytes"
	"context"
	"encoding/json"
	"fmt"
	"os"
	"path/filepath"
	"sort"
	"strings"
	"testing"

	"github.com/bufbuild/buf/private/buf/bufformat"
	"github.com/bufbuild/buf/private/pkg/osext"
	"github.com/bufbuild/bufverif/internal/bufcli"
	"github.com/bufbuild/bufverif/internal/evid"
	"github.com/bufbuild/bufverif/internal/protogen"
	"github.com/bufbuild/protocompile/parser"
	"github.com/bufbuild/protocompile/reporter"
	"pgregory.net/rapid"
)

// Plant is one planted problem.
type Plant struct {
	Kind string `json:"kind"` // lint | breaking | compile | missing-import | format
	File string `json:"file"` // workspace-relative path of the file that carries it
	Rule string `json:"rule,omitempty"`
	Line int    `json:"line,omitempty"` // line of the planted element in the final text (lint, compile)
}

// CLICase is the replayable CLI scenario.
type CLICase struct {
	Kind    string            `json:"kind"` // "cli"
	Files   map[string]string `json:"files"`
	Against map[string]string `json:"against,omitempty"`
	Command string            `json:"command"` // build | lint | breaking | format
	Plants  []Plant           `json:"plants,omitempty"`
	Op      string            `json:"op,omitempty"`       // operational failure: no-input | bad-yaml | unknown-rule | unknown-flag
	FmtMode string            `json:"fmt_mode,omitempty"` // format only: "-d" (default) | "stdout" | "-w" | "-d -w" | "-o"
}

var hostileDirs = []string{"mod", "proto dir", "prötö", "文件夹", "it's", `say "hi"`, "a<b>&c", "50%off", "x,y", "tab\there", "dir=eq", "(paren)", "semi;colon", "#hash", "a&amp;b"}

func formatText(path, src string) (string, error) {
	n, err := parser.Parse(path, strings.NewReader(src), reporter.NewHandler(nil))
	if err != nil {
		return "", err
	}
	var b bytes.Buffer
	if err := bufformat.FormatFileNode(&b, n); err != nil {
		return "", err
	}
	return b.String(), nil
}

func lineOf(text, needle string) int {
	i := strings.Index(text, needle)
	if i < 0 {
		return 0
	}
	return 1 + strings.Count(text[:i], "\n")
}

func bufYAML(dirs []string, lintUse string) string {
	var b strings.Builder
	b.WriteString("version: v2\nmodules:\n")
	for _, d := range dirs {
		q, _ := json.Marshal(d)
		fmt.Fprintf(&b, "  - path: %s\n", q)
	}
	fmt.Fprintf(&b, "lint:\n  use:\n    - %s\nbreaking:\n  use:\n    - FILE\n", lintUse)
	return b.String()
}

// genCLICase draws a scenario.
func genCLICase(t *rapid.T) *CLICase {
	cfg := protogen.StyledConfig()
	cfg.MaxModules, cfg.MaxPackages, cfg.MaxFiles, cfg.MaxMessages, cfg.MaxNested, cfg.MaxFields, cfg.MaxEnums = 2, 2, 3, 2, 1, 3, 1
	cfg.NamedModules = false
	cfg.WKT = false
	ws := protogen.GenWorkspace(t, cfg)
	rw := ws.Render()
	// hostile module directory names
	dirOf := map[string]string{}
	var dirs []string
	perm := rapid.Permutation(hostileDirs).Draw(t, "dirs")
	for i, m := range ws.Modules {
		d := perm[i%len(perm)]
		if rapid.IntRange(0, 2).Draw(t, "nested") == 0 {
			d = "src/" + d
		}
		dirOf[m.Dir] = d
		dirs = append(dirs, d)
	}
	c := &CLICase{Kind: "cli", Files: map[string]string{}, Against: map[string]string{}}
	var protoFiles []string
	for _, m := range ws.Modules {
		for p, text := range rw.ByModule[m.Dir] {
			rel := dirOf[m.Dir] + "/" + p
			ft, err := formatText(rel, text)
			for i := 0; err == nil && i < 3; i++ {
				// `format --exit-code` on an untouched tree must be clean: start from a fixpoint of the formatter
				var again string
				if again, err = formatText(rel, ft); again == ft {
					break
				}
				ft = again
			}
			if err != nil {
				t.Fatalf("harness: cannot format generated file: %v", err)
			}
			c.Files[rel] = ft
			c.Against[rel] = ft
			protoFiles = append(protoFiles, rel)
		}
	}
	sort.Strings(protoFiles)
	c.Files["buf.yaml"] = bufYAML(dirs, "STANDARD")
	c.Against["buf.yaml"] = c.Files["buf.yaml"]
	c.Command = rapid.SampledFrom([]string{"build", "lint", "breaking", "format", "lint", "breaking", "format"}).Draw(t, "command")
	if c.Command == "format" {
		c.FmtMode = rapid.SampledFrom([]string{"-d", "stdout", "-w", "-d -w", "-o"}).Draw(t, "fmtmode")
	}

	if rapid.IntRange(0, 9).Draw(t, "op") == 0 {
		c.Op = rapid.SampledFrom([]string{"no-input", "bad-yaml", "unknown-rule", "unknown-flag"}).Draw(t, "opkind")
		switch c.Op {
		case "bad-yaml":
			c.Files["buf.yaml"] = "version: v2\nmodules: [\n  - path: {{\n"
		case "unknown-rule":
			c.Files["buf.yaml"] = bufYAML(dirs, "NO_SUCH_RULE_ID")
			c.Command = "lint"
		}
		return c
	}

	nPlants := rapid.IntRange(0, 3).Draw(t, "nplants")
	seq := 0
	hasCompile, hasMissing := false, false
	for i := 0; i < nPlants; i++ {
		file := protoFiles[rapid.IntRange(0, len(protoFiles)-1).Draw(t, "plantfile")]
		text := c.Files[file]
		seq++
		kind := rapid.SampledFrom([]string{"lint", "lint", "lint", "breaking", "compile", "missing-import", "format"}).Draw(t, "plantkind")
		switch kind {
		case "lint":
			switch rapid.IntRange(0, 2).Draw(t, "lintkind") {
			case 0:
				name := fmt.Sprintf("bad_message_name_%d", seq)
				text += "message " + name + " {}\n"
				c.Files[file] = text
				c.Plants = append(c.Plants, Plant{Kind: "lint", File: file, Rule: "MESSAGE_PASCAL_CASE", Line: lineOf(text, "message "+name)})
			case 1:
				name := fmt.Sprintf("BadFieldName%d", seq)
				lbl := ""
				if strings.Contains(text, `syntax = "proto2"`) {
					lbl = "optional "
				}
				text += fmt.Sprintf("message PlantedHolder%d {\n  %sstring %s = 1;\n}\n", seq, lbl, name)
				c.Files[file] = text
				c.Plants = append(c.Plants, Plant{Kind: "lint", File: file, Rule: "FIELD_LOWER_SNAKE_CASE", Line: lineOf(text, "string "+name)})
			default:
				name := fmt.Sprintf("bad_enum_name_%d", seq)
				text += fmt.Sprintf("enum %s {\n  %s_UNSPECIFIED = 0;\n}\n", name, strings.ToUpper(name))
				c.Files[file] = text
				c.Plants = append(c.Plants, Plant{Kind: "lint", File: file, Rule: "ENUM_PASCAL_CASE", Line: lineOf(text, "enum "+name)})
			}
		case "breaking":
			// delete the planted-for-deletion field: first add it to both trees, then remove it from the current one
			name := fmt.Sprintf("DeleteHolder%d", seq)
			lbl := ""
			if strings.Contains(text, `syntax = "proto2"`) {
				lbl = "optional "
			}
			with := text + fmt.Sprintf("message %s {\n  %sstring keep_me = 1;\n  %sstring delete_me = 2;\n}\n", name, lbl, lbl)
			without := text + fmt.Sprintf("message %s {\n  %sstring keep_me = 1;\n}\n", name, lbl)
			c.Against[file] = c.Against[file] + with[len(text):]
			c.Files[file] = without
			c.Plants = append(c.Plants, Plant{Kind: "breaking", File: file, Rule: "FIELD_NO_DELETE", Line: lineOf(without, "message "+name)})
		case "compile":
			if hasCompile || hasMissing {
				continue
			}
			hasCompile = true
			name := fmt.Sprintf("CompileBad%d", seq)
			lbl := ""
			if strings.Contains(text, `syntax = "proto2"`) {
				lbl = "optional "
			}
			text += fmt.Sprintf("message %s {\n  %sNoSuchType%d broken = 1;\n}\n", name, lbl, seq)
			c.Files[file] = text
			c.Plants = append(c.Plants, Plant{Kind: "compile", File: file, Rule: "COMPILE", Line: lineOf(text, fmt.Sprintf("NoSuchType%d broken", seq))})
		case "missing-import":
			if hasCompile || hasMissing || c.Command == "format" {
				continue
			}
			hasMissing = true
			// a new file whose only import does not exist (the formatter would otherwise re-sort imports)
			dir := filepath.Dir(file)
			nf := dir + fmt.Sprintf("/missing_import_%d.proto", seq)
			pkg := ""
			for _, l := range strings.Split(text, "\n") {
				if strings.HasPrefix(l, "package ") {
					pkg = l
				}
			}
			c.Files[nf] = "syntax = \"proto3\";\n\n" + pkg + "\n\nimport \"nope/does_not_exist.proto\";\n"
			c.Plants = append(c.Plants, Plant{Kind: "missing-import", File: nf, Rule: "COMPILE", Line: lineOf(c.Files[nf], "import \"nope")})
		case "format":
			if !strings.Contains(text, "message ") {
				continue
			}
			c.Files[file] = strings.Replace(text, "message ", "message    ", 1)
			c.Plants = append(c.Plants, Plant{Kind: "format", File: file})
		}
	}
	return c
}

func writeTree(root string, files map[string]string) error {
	for p, text := range files {
		full := filepath.Join(root, filepath.FromSlash(p))
		if err := os.MkdirAll(filepath.Dir(full), 0o755); err != nil {
			return err
		}
		if err := os.WriteFile(full, []byte(text), 0o644); err != nil {
			return err
		}
	}
	return nil
}

type runResult struct {
	exit           int
	stdout, stderr string
}

// expectation for the scenario's command.
type expectation struct {
	exit        int // 0, 100, or -1 = operational (anything but 0 and 100)
	annotations []Plant
	stream      string // where annotations are printed: stdout | stderr
	noAnnots    bool   // exit 100 without annotations (missing import, format diff)
}

func expect(c *CLICase) expectation {
	var e expectation
	if c.Op != "" {
		e.exit = -1
		return e
	}
	has := map[string][]Plant{}
	for _, p := range c.Plants {
		has[p.Kind] = append(has[p.Kind], p)
	}
	e.stream = "stdout"
	if c.Command == "build" {
		e.stream = "stderr"
	}
	switch c.Command {
	case "format":
		if len(has["format"]) > 0 {
			e.exit, e.noAnnots = 100, true
		}
		return e
	default:
		if len(has["missing-import"]) > 0 {
			// reported like any other compile error: one annotation naming the import statement
			e.exit, e.annotations = 100, has["missing-import"]
			if c.Command != "build" {
				e.stream = "stdout"
			}
			return e
		}
		if len(has["compile"]) > 0 {
			e.exit, e.annotations = 100, has["compile"]
			if c.Command != "build" {
				e.stream = "stdout"
			}
			return e
		}
		switch c.Command {
		case "lint":
			e.annotations = has["lint"]
		case "breaking":
			e.annotations = has["breaking"]
		}
		if len(e.annotations) > 0 {
			e.exit = 100
		}
	}
	return e
}

func cliArgs(c *CLICase, format string) []string {
	var args []string
	switch c.Command {
	case "build":
		args = []string{"build", "--error-format", format}
	case "lint":
		args = []string{"lint", "--error-format", format}
	case "breaking":
		args = []string{"breaking", "--against", "../against", "--error-format", format}
	case "format":
		args = []string{"format", "--exit-code", "--error-format", format}
		switch c.FmtMode {
		case "", "-d":
			args = append(args, "-d")
		case "-w":
			args = append(args, "-w")
		case "-d -w":
			args = append(args, "-d", "-w")
		case "-o":
			args = append(args, "-o", "../formatted-out")
		}
	}
	switch c.Op {
	case "no-input":
		args = append(args, "no-such-dir")
	case "unknown-flag":
		args = append(args, "--no-such-flag")
	}
	return args
}

// checkCLI runs the scenario and returns a falsification (key, msg) or "".
func checkCLI(c *CLICase, tmp string) (key, msg string, err error) {
	root := filepath.Join(tmp, "ws")
	if err := writeTree(root, c.Files); err != nil {
		return "", "", fmt.Errorf("cannot write workspace: %w", err)
	}
	if len(c.Against) > 0 {
		if err := writeTree(filepath.Join(tmp, "against"), c.Against); err != nil {
			return "", "", fmt.Errorf("cannot write against tree: %w", err)
		}
	}
	cwd, err := os.Getwd()
	if err != nil {
		return "", "", err
	}
	// buf caches the working directory (osext.Getwd); osext.Chdir resets that cache
	if err := osext.Chdir(root); err != nil {
		return "", "", err
	}
	defer func() { _ = osext.Chdir(cwd) }()
	env := map[string]string{
		"HOME":          filepath.Join(tmp, "home"),
		"BUF_CACHE_DIR": filepath.Join(tmp, "cache"),
		"PATH":          os.Getenv("PATH"),
	}
	exp := expect(c)
	results := map[string]runResult{}
	for i, f := range allFormats {
		if i > 0 && c.Command == "format" {
			// format -w rewrites the sources and -o leaves an output directory: every run starts from the same tree
			if err := writeTree(root, c.Files); err != nil {
				return "", "", err
			}
			_ = os.RemoveAll(filepath.Join(tmp, "formatted-out"))
		}
		code, so, se := bufcli.Run(context.Background(), env, "", cliArgs(c, f)...)
		results[f] = runResult{code, so, se}
	}
	describe := func(f string) string {
		r := results[f]
		return fmt.Sprintf("buf %s -> exit %d\n--- stdout:\n%s\n--- stderr:\n%s", strings.Join(cliArgs(c, f), " "), r.exit, r.stdout, r.stderr)
	}
	// exit status: the same for every format, and the expected class
	for _, f := range allFormats {
		r := results[f]
		if r.exit != results["text"].exit {
			return "exit-code:" + c.Command, fmt.Sprintf("exit status depends on the error format: text=%d %s=%d\n%s", results["text"].exit, f, r.exit, describe(f)), nil
		}
		switch exp.exit {
		case -1:
			if r.exit == 0 || r.exit == 100 {
				return "exit-code:" + c.Command, fmt.Sprintf("operational failure %q must exit with a status other than 0 and 100\n%s", c.Op, describe(f)), nil
			}
		default:
			if r.exit != exp.exit {
				return "exit-code:" + c.Command, fmt.Sprintf("planted %+v: want exit %d\n%s", c.Plants, exp.exit, describe(f)), nil
			}
		}
	}
	if exp.exit == -1 {
		return "", "", nil
	}
	if c.Command == "format" {
		r := results["text"]
		mode := c.FmtMode
		if mode == "" {
			mode = "-d"
		}
		wantsDiff := mode == "-d" || mode == "-d -w"
		if r.stderr != "" {
			return "exit-code:format", "format printed to stderr\n" + describe("text"), nil
		}
		if wantsDiff && exp.exit == 0 && r.stdout != "" {
			return "exit-code:format", "exit 0 but a diff was printed\n" + describe("text"), nil
		}
		if wantsDiff && exp.exit == 100 && !strings.Contains(r.stdout, "@@") {
			return "exit-code:format", "exit 100 but no diff on stdout\n" + describe("text"), nil
		}
		if (mode == "-w" || mode == "-o") && r.stdout != "" {
			return "exit-code:format", "format " + mode + " printed to stdout\n" + describe("text"), nil
		}
		if mode == "-w" || mode == "-d -w" {
			// the sources were rewritten: a second run has nothing left to report
			code, so, se := bufcli.Run(context.Background(), env, "", "format", "--exit-code", "-d")
			if code != 0 || so != "" || se != "" {
				return "exit-code:format", fmt.Sprintf("after format %s a second `format --exit-code -d` exits %d\n--- stdout:\n%s\n--- stderr:\n%s", mode, code, so, se), nil
			}
		}
		return "", "", nil
	}
	stream := func(f string) (ann, other string) {
		if exp.stream == "stderr" {
			return results[f].stderr, results[f].stdout
		}
		return results[f].stdout, results[f].stderr
	}
	if exp.exit == 0 || exp.noAnnots {
		for _, f := range allFormats {
			ann, other := stream(f)
			if f == "junit" && exp.exit == 0 {
				// nothing at all is printed for a clean run (no empty <testsuites/>)
			}
			if ann != "" {
				return "exit-code:" + c.Command, fmt.Sprintf("no annotation expected (planted %+v) but something was printed\n%s", c.Plants, describe(f)), nil
			}
			if exp.exit == 0 && other != "" {
				return "exit-code:" + c.Command, "exit 0 but something was printed\n" + describe(f), nil
			}
		}
		return "", "", nil
	}
	// annotations: decode every format
	jsonOut, _ := stream("json")
	jrecs, derr := decodeJSON(jsonOut)
	if derr != nil {
		return "malformed:json", fmt.Sprintf("%v\n%s", derr, describe("json")), nil
	}
	if len(jrecs) == 0 {
		return "exit-code:" + c.Command, "exit 100 but no annotation was printed\n" + describe("json"), nil
	}
	// agreement with what was planted: same multiset of (path, rule), planted line
	type pr struct{ path, rule string }
	want := map[pr][]int{}
	for _, p := range exp.annotations {
		want[pr{p.File, p.Rule}] = append(want[pr{p.File, p.Rule}], p.Line)
	}
	got := map[pr][]int{}
	for _, r := range jrecs {
		got[pr{r.Path, r.Type}] = append(got[pr{r.Path, r.Type}], r.Line)
	}
	for k, lines := range want {
		g := got[k]
		if len(g) != len(lines) {
			return "format-disagree:planted", fmt.Sprintf("planted %d x %s in %q, reported %d\n%s", len(lines), k.rule, k.path, len(g), describe("json")), nil
		}
		sort.Ints(g)
		sort.Ints(lines)
		for i := range g {
			if k.rule != "FIELD_NO_DELETE" && g[i] != lines[i] {
				return "format-disagree:planted", fmt.Sprintf("%s planted at %s:%d, reported at line %d\n%s", k.rule, k.path, lines[i], g[i], describe("json")), nil
			}
		}
	}
	for k := range got {
		if _, ok := want[k]; !ok {
			// is the generated baseline dirty (a harness problem), or did a planted problem leak into another file?
			if err := osext.Chdir(filepath.Join(tmp, "against")); err == nil {
				code, so, se := bufcli.Run(context.Background(), env, "", "lint")
				_ = osext.Chdir(root)
				if code != 0 {
					return "", "", fmt.Errorf("generated baseline workspace is not lint-clean (exit %d):\n%s%s", code, so, se)
				}
			}
			return "format-disagree:planted", fmt.Sprintf("annotation %s in %q was not planted (planted: %+v)\n%s", k.rule, k.path, exp.annotations, describe("json")), nil
		}
	}
	// sortedness by (path, line, col)
	for i := 1; i < len(jrecs); i++ {
		a, b := jrecs[i-1], jrecs[i]
		if a.Path > b.Path || (a.Path == b.Path && (a.Line > b.Line || (a.Line == b.Line && a.Col > b.Col))) {
			return "format-disagree:json", "annotations are not sorted by path, line, column\n" + describe("json"), nil
		}
	}
	// every other format against the JSON list
	textOut, _ := stream("text")
	trecs, derr := decodeText(textOut)
	if derr != nil {
		return "malformed:text", fmt.Sprintf("%v\n%s", derr, describe("text")), nil
	}
	msvsOut, _ := stream("msvs")
	mrecs, derr := decodeMSVS(msvsOut)
	if derr != nil {
		return "malformed:msvs", fmt.Sprintf("%v\n%s", derr, describe("msvs")), nil
	}
	ghOut, _ := stream("github-actions")
	grecs, derr := decodeGitHub(ghOut)
	if derr != nil {
		return "malformed:github-actions", fmt.Sprintf("%v\n%s", derr, describe("github-actions")), nil
	}
	juOut, _ := stream("junit")
	urecs, derr := decodeJUnit(juOut)
	if derr != nil {
		return "malformed:junit", fmt.Sprintf("%v\n%s", derr, describe("junit")), nil
	}
	for name, n := range map[string]int{"text": len(trecs), "msvs": len(mrecs), "github-actions": len(grecs), "junit": len(urecs)} {
		if n != len(jrecs) {
			return "format-disagree:" + name, fmt.Sprintf("json carries %d annotations, %s carries %d\n%s\n%s", len(jrecs), name, n, describe("json"), describe(name)), nil
		}
	}
	for i, j := range jrecs {
		shown := j.Message
		if j.Plugin != "" {
			shown += " (" + j.Plugin + ")"
		}
		if tr := trecs[i]; tr.Path != j.Path || tr.Line != j.Line || tr.Col != j.Col || tr.Message != shown {
			return "format-disagree:text", fmt.Sprintf("annotation %d: json %+v, text %+v\n%s", i, j, tr, describe("text")), nil
		}
		if m := mrecs[i]; m.Path != j.Path || m.Line != j.Line || m.Col != j.Col || m.Type != j.Type || m.Message != shown {
			return "format-disagree:msvs", fmt.Sprintf("annotation %d: json %+v, msvs %+v\n%s", i, j, m, describe("msvs")), nil
		}
		g := grecs[i]
		if g.Path != j.Path || g.Message != shown || (g.Line != -1 && g.Line != j.Line) || (g.Col != -1 && g.Col != j.Col) ||
			(g.EndLine != -1 && g.EndLine != j.EndLine) || (g.EndCol != -1 && g.EndCol != j.EndCol) ||
			(g.Line == -1 && j.Line != 1) || (g.Col == -1 && j.Col != 1) {
			return "format-disagree:github-actions", fmt.Sprintf("annotation %d: json %+v, github-actions %+v\n%s", i, j, g, describe("github-actions")), nil
		}
		u := urecs[i]
		textLine := fmt.Sprintf("%s:%d:%d:%s", j.Path, j.Line, j.Col, shown)
		nameOK := u.CaseName == fmt.Sprintf("%s_%d_%d", j.Type, j.Line, j.Col) || (j.Col == 1 && u.CaseName == fmt.Sprintf("%s_%d", j.Type, j.Line)) || (j.Line == 1 && j.Col == 1 && u.CaseName == j.Type)
		if u.Suite != strings.TrimSuffix(j.Path, ".proto") || !nameOK || u.Message != textLine || u.Type != j.Type {
			return "format-disagree:junit", fmt.Sprintf("annotation %d: json %+v, junit %+v\n%s", i, j, u, describe("junit")), nil
		}
	}
	return "", "", nil
}

func TestCLI(t *testing.T) {
	r := evid.R()
	base := t.TempDir()
	n := 0
	r.Check(t, r.Scale(240, 6000), 2, func(t *rapid.T) {
		n++
		c := genCLICase(t)
		tmp := filepath.Join(base, fmt.Sprintf("case-%d", n))
		defer os.RemoveAll(tmp)
		key, msg, err := checkCLI(c, tmp)
		if err != nil {
			t.Fatalf("harness: %v", err)
		}
		r.Eval()
		r.Class("cli-" + c.Command)
		if c.FmtMode != "" {
			r.Class("cli-format-mode " + c.FmtMode)
		}
		if c.Op != "" {
			r.Class("cli-op-" + c.Op)
		}
		files := map[string]bool{}
		for _, p := range c.Plants {
			r.Class("cli-plant-" + p.Kind)
			files[p.File] = true
		}
		if len(c.Plants) == 0 && c.Op == "" {
			r.Class("cli-clean")
		}
		e := expect(c)
		hostilePath := false
		for p := range c.Files {
			if hostile(filepath.Dir(p)) {
				hostilePath = true
			}
		}
		if (len(e.annotations) >= 2 && len(files) >= 2) || (len(e.annotations) >= 1 && hostilePath) {
			b, _ := json.Marshal(c.Plants)
			var names []string
			for p := range c.Files {
				names = append(names, p)
			}
			sort.Strings(names)
			r.NonTrivial("cli|" + c.Command + "|" + string(b) + "|" + strings.Join(names, "|"))
			r.Sample(map[string]any{"command": c.Command, "plants": c.Plants, "files": names})
		}
		if key != "" {
			r.Fail(t, key, msg, c)
		}
	})
}

// TestReplay re-runs the oracle on a saved case: a printer-level annotation list or a CLI scenario.
func TestReplay(t *testing.T) {
	var probe struct {
		Kind string `json:"kind"`
	}
	ok, err := evid.ReplayCase(&probe)
	if !ok {
		t.Skip("no VERIF_REPLAY")
	}
	if err != nil {
		t.Fatal(err)
	}
	r := evid.R()
	defer r.Begin(t)()
	switch probe.Kind {
	case "printer":
		var c PrinterCase
		if _, err := evid.ReplayCase(&c); err != nil {
			t.Fatal(err)
		}
		r.Eval()
		if key, msg, _ := checkPrinters(c.Anns); key != "" {
			r.Fail(t, key, msg, c)
		}
	case "cli":
		var c CLICase
		if _, err := evid.ReplayCase(&c); err != nil {
			t.Fatal(err)
		}
		key, msg, err := checkCLI(&c, t.TempDir())
		if err != nil {
			t.Fatalf("harness: %v", err)
		}
		r.Eval()
		if key != "" {
			r.Fail(t, key, msg, &c)
		}
	case "two":
		var c TwoCase
		if _, err := evid.ReplayCase(&c); err != nil {
			t.Fatal(err)
		}
		key, msg, err := checkTwo(&c, t.TempDir())
		if err != nil {
			t.Fatalf("harness: %v", err)
		}
		r.Eval()
		if key != "" {
			r.Fail(t, key, msg, &c)
		}
	case "multi":
		var c MultiCase
		if _, err := evid.ReplayCase(&c); err != nil {
			t.Fatal(err)
		}
		key, msg, err := checkMulti(&c, t.TempDir())
		if err != nil {
			t.Fatalf("harness: %v", err)
		}
		r.Eval()
		if key != "" {
			r.Fail(t, key, msg, &c)
		}
	default:
		t.Fatalf("harness: unknown replay kind %q", probe.Kind)
	}
}
