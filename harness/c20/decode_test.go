package c20

// Decoders for the five annotation formats, written from the documented shape of each format
// (not from print.go):
//
//	text            path:line:col:message
//	msvs            path(line,col) : error TYPE : message
//	json            one JSON object per line {path,start_line,start_column,end_line,end_column,type,message,plugin}
//	junit           <testsuites><testsuite name=path-without-.proto><testcase name=TYPE_line_col><failure message=text type=TYPE/>
//	github-actions  ::error file=…,line=…,col=…,endLine=…,endColumn=…::message   (workflow-command escaping)

import (
	"encoding/json"
	"encoding/xml"
	"fmt"
	"regexp"
	"strconv"
	"strings"
)

// Rec is one decoded annotation; fields a format does not carry stay at their zero value / -1.
type Rec struct {
	Path    string `json:"path"`
	Line    int    `json:"line"` // -1 = not carried
	Col     int    `json:"col"`
	EndLine int    `json:"end_line"`
	EndCol  int    `json:"end_col"`
	Type    string `json:"type"`
	Message string `json:"message"` // for text/msvs/github-actions/junit: message incl. " (plugin)" suffix
	Plugin  string `json:"plugin"`
	HasType bool   `json:"has_type"`
	HasEnd  bool   `json:"has_end"`
}

func splitLines(out string) ([]string, error) {
	if out == "" {
		return nil, nil
	}
	if !strings.HasSuffix(out, "\n") {
		return nil, fmt.Errorf("output does not end with a newline")
	}
	return strings.Split(strings.TrimSuffix(out, "\n"), "\n"), nil
}

// decodeText decodes `path:line:col:message` lines (unambiguous only when the path has no ':').
func decodeText(out string) ([]Rec, error) {
	lines, err := splitLines(out)
	if err != nil {
		return nil, err
	}
	var recs []Rec
	for _, l := range lines {
		parts := strings.SplitN(l, ":", 4)
		if len(parts) != 4 {
			return nil, fmt.Errorf("text line %q is not path:line:col:message", l)
		}
		line, err1 := strconv.Atoi(parts[1])
		col, err2 := strconv.Atoi(parts[2])
		if err1 != nil || err2 != nil {
			return nil, fmt.Errorf("text line %q: line/col are not numbers", l)
		}
		recs = append(recs, Rec{Path: parts[0], Line: line, Col: col, Message: parts[3], EndLine: -1, EndCol: -1})
	}
	return recs, nil
}

var msvsRe = regexp.MustCompile(`^(.*?)\((\d+),(\d+)\) : error (.*?) : (.*)$`)

// decodeMSVS decodes `path(line,col) : error TYPE : message` (unambiguous when path has no "(n,n) : error "
// and TYPE has no " : ").
func decodeMSVS(out string) ([]Rec, error) {
	lines, err := splitLines(out)
	if err != nil {
		return nil, err
	}
	var recs []Rec
	for _, l := range lines {
		m := msvsRe.FindStringSubmatch(l)
		if m == nil {
			return nil, fmt.Errorf("msvs line %q is not path(line,col) : error TYPE : message", l)
		}
		line, _ := strconv.Atoi(m[2])
		col, _ := strconv.Atoi(m[3])
		recs = append(recs, Rec{Path: m[1], Line: line, Col: col, Type: m[4], HasType: true, Message: m[5], EndLine: -1, EndCol: -1})
	}
	return recs, nil
}

func decodeJSON(out string) ([]Rec, error) {
	lines, err := splitLines(out)
	if err != nil {
		return nil, err
	}
	var recs []Rec
	for _, l := range lines {
		var x struct {
			Path        string `json:"path"`
			StartLine   int    `json:"start_line"`
			StartColumn int    `json:"start_column"`
			EndLine     int    `json:"end_line"`
			EndColumn   int    `json:"end_column"`
			Type        string `json:"type"`
			Message     string `json:"message"`
			Plugin      string `json:"plugin"`
		}
		dec := json.NewDecoder(strings.NewReader(l))
		dec.DisallowUnknownFields()
		if err := dec.Decode(&x); err != nil {
			return nil, fmt.Errorf("json line %q: %v", l, err)
		}
		if dec.More() {
			return nil, fmt.Errorf("json line %q: trailing data", l)
		}
		recs = append(recs, Rec{Path: x.Path, Line: x.StartLine, Col: x.StartColumn, EndLine: x.EndLine, EndCol: x.EndColumn, HasEnd: true, Type: x.Type, HasType: true, Message: x.Message, Plugin: x.Plugin})
	}
	return recs, nil
}

type junitDoc struct {
	XMLName xml.Name `xml:"testsuites"`
	Suites  []struct {
		Name     string `xml:"name,attr"`
		Tests    int    `xml:"tests,attr"`
		Failures int    `xml:"failures,attr"`
		Errors   int    `xml:"errors,attr"`
		Cases    []struct {
			Name    string `xml:"name,attr"`
			Failure *struct {
				Message string `xml:"message,attr"`
				Type    string `xml:"type,attr"`
			} `xml:"failure"`
		} `xml:"testcase"`
	} `xml:"testsuite"`
}

// JUnitRec is a decoded JUnit test case.
type JUnitRec struct {
	Suite    string // testsuite name
	CaseName string // TYPE[_line[_col]]
	Message  string // failure message (the text rendering)
	Type     string
}

func decodeJUnit(out string) ([]JUnitRec, error) {
	dec := xml.NewDecoder(strings.NewReader(out))
	dec.Strict = true
	var doc junitDoc
	if err := dec.Decode(&doc); err != nil {
		return nil, fmt.Errorf("junit output is not well-formed XML: %v", err)
	}
	// nothing but whitespace may follow
	if tok, err := dec.Token(); err == nil {
		if cd, ok := tok.(xml.CharData); !ok || strings.TrimSpace(string(cd)) != "" {
			return nil, fmt.Errorf("junit output has trailing content %v", tok)
		}
	}
	var recs []JUnitRec
	for _, s := range doc.Suites {
		if s.Tests != len(s.Cases) || s.Failures != len(s.Cases) {
			return nil, fmt.Errorf("junit testsuite %q: tests=%d failures=%d but %d test cases", s.Name, s.Tests, s.Failures, len(s.Cases))
		}
		for _, c := range s.Cases {
			if c.Failure == nil {
				return nil, fmt.Errorf("junit testcase %q has no failure element", c.Name)
			}
			recs = append(recs, JUnitRec{Suite: s.Name, CaseName: c.Name, Message: c.Failure.Message, Type: c.Failure.Type})
		}
	}
	return recs, nil
}

// Workflow-command un-escaping (actions/toolkit command.ts: escapeData / escapeProperty).
func ghUnescapeData(s string) (string, error) { return ghUnescape(s, false) }
func ghUnescapeProp(s string) (string, error) { return ghUnescape(s, true) }

func ghUnescape(s string, prop bool) (string, error) {
	var b strings.Builder
	for i := 0; i < len(s); i++ {
		c := s[i]
		if c == '\r' || c == '\n' {
			return "", fmt.Errorf("raw line break inside a workflow command")
		}
		if prop && (c == ':' || c == ',') {
			return "", fmt.Errorf("raw %q inside a property value", c)
		}
		if c != '%' {
			b.WriteByte(c)
			continue
		}
		if i+3 > len(s) {
			return "", fmt.Errorf("dangling %% escape in %q", s)
		}
		code := strings.ToUpper(s[i+1 : i+3])
		switch {
		case code == "25":
			b.WriteByte('%')
		case code == "0D":
			b.WriteByte('\r')
		case code == "0A":
			b.WriteByte('\n')
		case prop && code == "3A":
			b.WriteByte(':')
		case prop && code == "2C":
			b.WriteByte(',')
		default:
			return "", fmt.Errorf("unescaped '%%' in %q", s)
		}
		i += 2
	}
	return b.String(), nil
}

// decodeGitHub decodes `::error k=v,k=v::data` lines; every output line must be exactly one command.
func decodeGitHub(out string) ([]Rec, error) {
	lines, err := splitLines(out)
	if err != nil {
		return nil, err
	}
	var recs []Rec
	for _, l := range lines {
		const prefix = "::error "
		if !strings.HasPrefix(l, prefix) {
			return nil, fmt.Errorf("github-actions line %q is not an ::error command", l)
		}
		rest := l[len(prefix):]
		i := strings.Index(rest, "::")
		if i < 0 {
			return nil, fmt.Errorf("github-actions line %q has no '::' before the message", l)
		}
		props, data := rest[:i], rest[i+2:]
		r := Rec{Line: -1, Col: -1, EndLine: -1, EndCol: -1}
		seen := map[string]bool{}
		for _, kv := range strings.Split(props, ",") {
			eq := strings.IndexByte(kv, '=')
			if eq <= 0 {
				return nil, fmt.Errorf("github-actions line %q: property %q is not key=value", l, kv)
			}
			k, raw := kv[:eq], kv[eq+1:]
			if seen[k] {
				return nil, fmt.Errorf("github-actions line %q: duplicate property %q", l, k)
			}
			seen[k] = true
			val, err := ghUnescapeProp(raw)
			if err != nil {
				return nil, fmt.Errorf("github-actions line %q: %v", l, err)
			}
			num := func() (int, error) {
				n, err := strconv.Atoi(val)
				if err != nil || n <= 0 {
					return 0, fmt.Errorf("github-actions line %q: property %s=%q is not a positive number", l, k, val)
				}
				return n, nil
			}
			var nerr error
			switch k {
			case "file":
				r.Path = val
			case "line":
				r.Line, nerr = num()
			case "col":
				r.Col, nerr = num()
			case "endLine":
				r.EndLine, nerr = num()
				r.HasEnd = true
			case "endColumn":
				r.EndCol, nerr = num()
			default:
				return nil, fmt.Errorf("github-actions line %q: unknown property %q", l, k)
			}
			if nerr != nil {
				return nil, nerr
			}
		}
		if !seen["file"] {
			return nil, fmt.Errorf("github-actions line %q: no file property", l)
		}
		msg, err := ghUnescapeData(data)
		if err != nil {
			return nil, fmt.Errorf("github-actions line %q: %v", l, err)
		}
		r.Message = msg
		recs = append(recs, r)
	}
	return recs, nil
}
