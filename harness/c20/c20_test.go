// C20 — exit status and every diagnostic format tell the same verdict.
//
// (a) printer level (printer_test.go): arbitrary annotation lists with hostile texts, all five formats,
// decoded by decoders written from the documented formats (decode_test.go).
// (b) CLI level (cli_test.go): generated workspaces with planted problems, build / lint / breaking /
// format --exit-code run in-process with every --error-format; exit status and decoded output are
// compared with what was planted and with each other.
package c20

import (
	"testing"

	"github.com/bufbuild/bufverif/internal/evid"
)

func TestMain(m *testing.M) { evid.Main(m, "C20") }
