package c20

// (d) CLI level, commands with two inputs and non-directory inputs: `buf breaking <input> --against <against>`
// with the compile problem planted on the input side, on the against side, on both or on neither (then
// optionally a breaking change), the against side given as a directory or a tarball, optionally with
// --against-config; and build / lint on a tarball input.  In every --error-format the verdict must be the
// same: annotations printed (well-formed, nothing else on stdout, nothing on stderr) <=> exit 100,
// nothing printed <=> exit 0, operational errors (nonexistent against directory) neither 0 nor 100.

import (
	"archive/tar"
	"bytes"
	"context"
	"encoding/json"
	"fmt"
	"os"
	"path/filepath"
	"sort"
	"strings"
	"testing"

	"github.com/bufbuild/buf/private/pkg/osext"
	"github.com/bufbuild/bufverif/internal/bufcli"
	"github.com/bufbuild/bufverif/internal/evid"
	"pgregory.net/rapid"
)

// TwoCase is the replayable scenario.
type TwoCase struct {
	Kind          string            `json:"kind"` // "two"
	Files         map[string]string `json:"files"`
	Against       map[string]string `json:"against"`
	Command       string            `json:"command"`        // breaking | lint | build
	InputForm     string            `json:"input_form"`     // dir | tar
	AgainstForm   string            `json:"against_form"`   // dir | tar | missing   (breaking only)
	AgainstConfig bool              `json:"against_config"` // pass --against-config ../against/buf.yaml
	BrokenInput   []string          `json:"broken_input"`   // files of the input that do not compile
	BrokenAgainst []string          `json:"broken_against"` // files of the against tree that do not compile
	Breaking      bool              `json:"breaking"`       // a field was deleted (FIELD_NO_DELETE expected)
}

func tarOf(files map[string]string) []byte {
	var buf bytes.Buffer
	tw := tar.NewWriter(&buf)
	var names []string
	for p := range files {
		names = append(names, p)
	}
	sort.Strings(names)
	for _, p := range names {
		_ = tw.WriteHeader(&tar.Header{Name: p, Mode: 0o644, Size: int64(len(files[p])), Typeflag: tar.TypeReg})
		_, _ = tw.Write([]byte(files[p]))
	}
	_ = tw.Close()
	return buf.Bytes()
}

func genTwoCase(t *rapid.T) *TwoCase {
	c := &TwoCase{Kind: "two", Files: map[string]string{}, Against: map[string]string{}}
	nMod := rapid.IntRange(1, 2).Draw(t, "modules")
	dirs := rapid.Permutation(multiDirs).Draw(t, "dirs")[:nMod]
	yaml := bufYAML(dirs, "STANDARD")
	c.Files["buf.yaml"], c.Against["buf.yaml"] = yaml, yaml
	var protos []string
	for i, d := range dirs {
		for k := 0; k < rapid.IntRange(1, 3).Draw(t, "files"); k++ {
			rel := fmt.Sprintf("%s/pk%d/v1/file_%d.proto", d, i, k)
			text := fmt.Sprintf("syntax = \"proto3\";\n\npackage pk%d.v1;\n\nmessage M%dF%d {\n  string id = 1;\n  int32 count = 2;\n}\n", i, i, k)
			c.Files[rel], c.Against[rel] = text, text
			protos = append(protos, rel)
		}
	}
	sort.Strings(protos)
	c.Command = rapid.SampledFrom([]string{"breaking", "breaking", "breaking", "lint", "build"}).Draw(t, "command")
	c.InputForm = rapid.SampledFrom([]string{"dir", "dir", "tar"}).Draw(t, "inputform")
	breakFile := func(files map[string]string, label string) string {
		f := protos[rapid.IntRange(0, len(protos)-1).Draw(t, label)]
		if rapid.Bool().Draw(t, label+"kind") {
			files[f] += "message Broken {\n"
		} else {
			files[f] += "message Broken {\n  NoSuchType x = 1;\n}\n"
		}
		return f
	}
	side := rapid.SampledFrom([]string{"none", "input", "against", "both"}).Draw(t, "side")
	if c.Command != "breaking" && (side == "against" || side == "both") {
		side = "input"
	}
	if side == "input" || side == "both" {
		c.BrokenInput = []string{breakFile(c.Files, "brokeninput")}
	}
	if c.Command == "breaking" {
		c.AgainstForm = rapid.SampledFrom([]string{"dir", "dir", "tar", "missing"}).Draw(t, "againstform")
		c.AgainstConfig = c.AgainstForm == "dir" && rapid.IntRange(0, 3).Draw(t, "againstconfig") == 0
		if side == "against" || side == "both" {
			c.BrokenAgainst = []string{breakFile(c.Against, "brokenagainst")}
		}
		if side == "none" && rapid.Bool().Draw(t, "breakingchange") {
			f := protos[rapid.IntRange(0, len(protos)-1).Draw(t, "breakingfile")]
			c.Files[f] = strings.Replace(c.Files[f], "  int32 count = 2;\n", "", 1)
			c.Breaking = true
		}
	}
	return c
}

func checkTwo(c *TwoCase, tmp string) (key, msg string, err error) {
	root := filepath.Join(tmp, "ws")
	if err := writeTree(root, c.Files); err != nil {
		return "", "", err
	}
	if err := writeTree(filepath.Join(tmp, "against"), c.Against); err != nil {
		return "", "", err
	}
	if err := os.WriteFile(filepath.Join(tmp, "ws.tar"), tarOf(c.Files), 0o644); err != nil {
		return "", "", err
	}
	if err := os.WriteFile(filepath.Join(tmp, "against.tar"), tarOf(c.Against), 0o644); err != nil {
		return "", "", err
	}
	cwd, err := os.Getwd()
	if err != nil {
		return "", "", err
	}
	if err := osext.Chdir(root); err != nil {
		return "", "", err
	}
	defer func() { _ = osext.Chdir(cwd) }()
	env := map[string]string{"HOME": filepath.Join(tmp, "home"), "BUF_CACHE_DIR": filepath.Join(tmp, "cache"), "PATH": os.Getenv("PATH")}
	args := []string{c.Command}
	if c.InputForm == "tar" {
		args = append(args, "../ws.tar")
	}
	if c.Command == "breaking" {
		switch c.AgainstForm {
		case "tar":
			args = append(args, "--against", "../against.tar")
		case "missing":
			args = append(args, "--against", "../no-such-against-dir")
		default:
			args = append(args, "--against", "../against")
		}
		if c.AgainstConfig {
			args = append(args, "--against-config", "../against/buf.yaml")
		}
	}
	compileProblem := len(c.BrokenInput) > 0 || (len(c.BrokenAgainst) > 0 && c.AgainstForm != "missing")
	// a nonexistent against directory is an operational error unless the input already failed to compile
	operational := c.Command == "breaking" && c.AgainstForm == "missing" && len(c.BrokenInput) == 0
	wantExit := 0
	if compileProblem || (c.Breaking && !operational) {
		wantExit = 100
	}
	annStream := "stdout"
	if c.Command == "build" {
		annStream = "stderr"
	}
	var firstSet string
	for i, f := range allFormats {
		code, so, se := bufcli.Run(context.Background(), env, "", append(append([]string{}, args...), "--error-format", f)...)
		desc := fmt.Sprintf("buf %s --error-format %s -> exit %d\n--- stdout:\n%s\n--- stderr:\n%s", strings.Join(args, " "), f, code, so, se)
		if operational {
			if code == 0 || code == 100 {
				return "exit-code:" + c.Command, "a nonexistent --against directory is an operational error: exit status must be neither 0 nor 100\n" + desc, nil
			}
			if so != "" {
				return "exit-code:" + c.Command, "operational error but something was printed on stdout\n" + desc, nil
			}
			continue
		}
		if code != wantExit {
			return "exit-code:" + c.Command, fmt.Sprintf("broken input files %q, broken against files %q, breaking change %v: want exit %d\n%s", c.BrokenInput, c.BrokenAgainst, c.Breaking, wantExit, desc), nil
		}
		ann, other := so, se
		if annStream == "stderr" {
			ann, other = se, so
		}
		if wantExit == 0 {
			if so != "" || se != "" {
				return "exit-code:" + c.Command, "exit 0 but something was printed\n" + desc, nil
			}
			continue
		}
		if other != "" {
			return "exit-code:" + c.Command, "exit 100: nothing but the annotations may be printed, but the other stream is not empty\n" + desc, nil
		}
		ds, derr := decodeDiags(f, ann)
		if derr != nil {
			return "malformed:" + f, fmt.Sprintf("%v\n%s", derr, desc), nil
		}
		if len(ds) == 0 {
			return "exit-code:" + c.Command, "exit 100 but no annotation was printed\n" + desc, nil
		}
		if compileProblem {
			for _, d := range ds {
				ok := false
				for _, b := range append(append([]string{}, c.BrokenInput...), c.BrokenAgainst...) {
					if strings.HasSuffix(d.Path, b) {
						ok = true
					}
				}
				if !ok {
					return "format-disagree:planted", fmt.Sprintf("diagnostic at %s is in none of the files that were broken (%q, %q)\n%s", d, c.BrokenInput, c.BrokenAgainst, desc), nil
				}
			}
		}
		if i == 0 {
			firstSet = diagSet(ds)
		} else if diagSet(ds) != firstSet {
			return "format-disagree:" + f, fmt.Sprintf("--error-format %s reports\n%s\nbut --error-format %s reported\n%s\n%s", f, diagSet(ds), allFormats[0], firstSet, desc), nil
		}
	}
	return "", "", nil
}

func TestTwoInputs(t *testing.T) {
	r := evid.R()
	base := t.TempDir()
	n := 0
	r.Check(t, r.Scale(100, 3000), 4, func(t *rapid.T) {
		n++
		c := genTwoCase(t)
		tmp := filepath.Join(base, fmt.Sprintf("two-%d", n))
		defer os.RemoveAll(tmp)
		key, msg, err := checkTwo(c, tmp)
		if err != nil {
			t.Fatalf("harness: %v", err)
		}
		r.Eval()
		r.Class("two-" + c.Command + "-input-" + c.InputForm)
		if c.Command == "breaking" {
			r.Class("two-against-" + c.AgainstForm)
			if c.AgainstConfig {
				r.Class("two-against-config")
			}
		}
		switch {
		case len(c.BrokenInput) > 0 && len(c.BrokenAgainst) > 0:
			r.Class("two-broken-both")
		case len(c.BrokenInput) > 0:
			r.Class("two-broken-input")
		case len(c.BrokenAgainst) > 0:
			r.Class("two-broken-against")
		case c.Breaking:
			r.Class("two-breaking-change")
		default:
			r.Class("two-clean")
		}
		if len(c.BrokenAgainst) > 0 || c.InputForm == "tar" || c.AgainstForm == "tar" {
			b, _ := json.Marshal(c)
			r.NonTrivial("two|" + string(b))
		}
		if key != "" {
			r.Fail(t, key, msg, c)
		}
	})
}
