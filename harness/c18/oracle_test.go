package c18

// Oracle of C18: frame condition, reference values, source-info sweep, disabled == untouched.

import (
	"fmt"
	"runtime/debug"
	"slices"
	"sort"
	"strings"

	"github.com/bufbuild/buf/private/bufpkg/bufconfig"
	"github.com/bufbuild/buf/private/bufpkg/bufimage"
	"github.com/bufbuild/buf/private/bufpkg/bufimage/bufimagemodify"
	"google.golang.org/protobuf/proto"
	"google.golang.org/protobuf/reflect/protoreflect"
	"google.golang.org/protobuf/types/descriptorpb"
)

type verdict struct {
	key, msg   string
	harness    error
	nonTrivial bool
	classes    []string
}

func (v *verdict) class(c string) {
	if c != "" {
		v.classes = append(v.classes, c)
	}
}

func fail(v *verdict, key, format string, args ...any) *verdict {
	v.key, v.msg = key, fmt.Sprintf(format, args...)
	return v
}

// fieldRef is one field (or extension) of a file with its source path.
type fieldRef struct {
	full string
	path []int32
	fd   *descriptorpb.FieldDescriptorProto
}

func join(scope, name string) string {
	if scope == "" {
		return name
	}
	return scope + "." + name
}

func fieldsOf(f *descriptorpb.FileDescriptorProto) []fieldRef {
	var out []fieldRef
	var msg func(scope string, p []int32, m *descriptorpb.DescriptorProto)
	msg = func(scope string, p []int32, m *descriptorpb.DescriptorProto) {
		n := join(scope, m.GetName())
		for i, fd := range m.Field {
			out = append(out, fieldRef{join(n, fd.GetName()), append(slices.Clone(p), 2, int32(i)), fd})
		}
		for i, fd := range m.Extension {
			out = append(out, fieldRef{join(n, fd.GetName()), append(slices.Clone(p), 6, int32(i)), fd})
		}
		for i, nm := range m.NestedType {
			msg(n, append(slices.Clone(p), 3, int32(i)), nm)
		}
	}
	for i, m := range f.MessageType {
		msg(f.GetPackage(), []int32{4, int32(i)}, m)
	}
	for i, fd := range f.Extension {
		out = append(out, fieldRef{join(f.GetPackage(), fd.GetName()), []int32{7, int32(i)}, fd})
	}
	return out
}

// governed option accessors over FileOptions via reflection (by field number)
func fileOptField(num int32) protoreflect.FieldDescriptor {
	return (&descriptorpb.FileOptions{}).ProtoReflect().Descriptor().Fields().ByNumber(protoreflect.FieldNumber(num))
}

func optState(opts *descriptorpb.FileOptions, num int32) (present bool, val protoreflect.Value) {
	fd := fileOptField(num)
	if opts == nil {
		return false, fd.Default()
	}
	m := opts.ProtoReflect()
	return m.Has(fd), m.Get(fd)
}

func valString(o *optInfo, v protoreflect.Value) string {
	switch o.kind {
	case "bool":
		return fmt.Sprint(v.Bool())
	case "optimize":
		return descriptorpb.FileOptions_OptimizeMode(v.Enum()).String()
	}
	return fmt.Sprintf("%q", v.String())
}

func clearGoverned(f *descriptorpb.FileDescriptorProto) {
	if f.Options != nil {
		m := f.Options.ProtoReflect()
		for _, o := range governed {
			m.Clear(fileOptField(o.num))
		}
		if proto.Size(f.Options) == 0 {
			f.Options = nil
		}
	}
	for _, fr := range fieldsOf(f) {
		if fr.fd.Options != nil {
			fr.fd.Options.Jstype = nil
			if proto.Size(fr.fd.Options) == 0 {
				fr.fd.Options = nil
			}
		}
	}
	f.SourceCodeInfo = nil
}

// fieldScopedDisableMatches: is there a disable rule that names a field but no option and matches the file?
func fieldScopedDisableMatches(m managedSpec, f fileInfo) bool {
	for _, d := range m.Disables {
		if d.Field != "" && d.FieldOption == "" && d.FileOption == "" && fileMatches(d, f) {
			return true
		}
	}
	return false
}

func jstypeOf(fd *descriptorpb.FieldDescriptorProto) *descriptorpb.FieldOptions_JSType {
	if fd.Options == nil {
		return nil
	}
	return fd.Options.Jstype
}

func hasPrefix(p, prefix []int32) bool {
	return len(p) >= len(prefix) && slices.Equal(p[:len(prefix)], prefix)
}

// buildConfig turns the abstract spec into a bufconfig value (directly, or through buf.gen.yaml text).
func buildConfig(m managedSpec) (bufconfig.GenerateManagedConfig, error) {
	switch m.Form {
	case "yaml-v2", "yaml-v1":
		file, err := bufconfig.ReadBufGenYAMLFile(strings.NewReader(m.YAML))
		if err != nil {
			return nil, fmt.Errorf("reading buf.gen.yaml:\n%s\n%w", m.YAML, err)
		}
		return file.GenerateConfig().GenerateManagedConfig(), nil
	}
	var disables []bufconfig.ManagedDisableRule
	var overrides []bufconfig.ManagedOverrideRule
	for _, d := range m.Disables {
		fo, err := fileOptionConst(d.FileOption)
		if err != nil {
			return nil, err
		}
		fieldOpt := bufconfig.FieldOptionUnspecified
		if d.FieldOption == "jstype" {
			fieldOpt = bufconfig.FieldOptionJSType
		}
		r, err := bufconfig.NewManagedDisableRule(d.Path, d.Module, d.Field, fo, fieldOpt)
		if err != nil {
			return nil, fmt.Errorf("disable rule %+v: %w", d, err)
		}
		disables = append(disables, r)
	}
	for _, o := range m.Overrides {
		if o.FieldOption == "jstype" {
			r, err := bufconfig.NewManagedOverrideRuleForFieldOption(o.Path, o.Module, o.Field, bufconfig.FieldOptionJSType, o.Value)
			if err != nil {
				return nil, fmt.Errorf("override rule %+v: %w", o, err)
			}
			overrides = append(overrides, r)
			continue
		}
		fo, err := fileOptionConst(o.FileOption)
		if err != nil {
			return nil, err
		}
		r, err := bufconfig.NewManagedOverrideRuleForFileOption(o.Path, o.Module, fo, o.Value)
		if err != nil {
			return nil, fmt.Errorf("override rule %+v: %w", o, err)
		}
		overrides = append(overrides, r)
	}
	return bufconfig.NewGenerateManagedConfig(m.Enabled, disables, overrides), nil
}

var fileOptionConsts = map[string]bufconfig.FileOption{
	"":                              bufconfig.FileOptionUnspecified,
	"java_package":                  bufconfig.FileOptionJavaPackage,
	"java_package_prefix":           bufconfig.FileOptionJavaPackagePrefix,
	"java_package_suffix":           bufconfig.FileOptionJavaPackageSuffix,
	"java_outer_classname":          bufconfig.FileOptionJavaOuterClassname,
	"java_multiple_files":           bufconfig.FileOptionJavaMultipleFiles,
	"java_string_check_utf8":        bufconfig.FileOptionJavaStringCheckUtf8,
	"optimize_for":                  bufconfig.FileOptionOptimizeFor,
	"go_package":                    bufconfig.FileOptionGoPackage,
	"go_package_prefix":             bufconfig.FileOptionGoPackagePrefix,
	"cc_enable_arenas":              bufconfig.FileOptionCcEnableArenas,
	"objc_class_prefix":             bufconfig.FileOptionObjcClassPrefix,
	"csharp_namespace":              bufconfig.FileOptionCsharpNamespace,
	"csharp_namespace_prefix":       bufconfig.FileOptionCsharpNamespacePrefix,
	"php_namespace":                 bufconfig.FileOptionPhpNamespace,
	"php_metadata_namespace":        bufconfig.FileOptionPhpMetadataNamespace,
	"php_metadata_namespace_suffix": bufconfig.FileOptionPhpMetadataNamespaceSuffix,
	"ruby_package":                  bufconfig.FileOptionRubyPackage,
	"ruby_package_suffix":           bufconfig.FileOptionRubyPackageSuffix,
}

func fileOptionConst(name string) (bufconfig.FileOption, error) {
	c, ok := fileOptionConsts[name]
	if !ok {
		return 0, fmt.Errorf("unknown file option %q", name)
	}
	return c, nil
}

// safeModify calls Modify and turns a panic into a value: a crash on a valid image and a valid config is a
// violation (managed mode was not applied), not a harness failure.
func safeModify(image bufimage.Image, config bufconfig.GenerateManagedConfig) (err error, panicked string) {
	defer func() {
		if p := recover(); p != nil {
			stack := string(debug.Stack())
			if i := strings.Index(stack, "bufimagemodify."); i >= 0 {
				stack = stack[i:]
			}
			if len(stack) > 600 {
				stack = stack[:600] + "…"
			}
			err, panicked = nil, fmt.Sprintf("%v [at %s]", p, strings.ReplaceAll(stack, "\n", " | "))
		}
	}()
	return bufimagemodify.Modify(image, config), ""
}

// runOracle applies managed mode to image and checks the four clauses. infos describes the files.
func runOracle(image bufimage.Image, infos map[string]fileInfo, m managedSpec) *verdict {
	v := &verdict{}
	config, err := buildConfig(m)
	if err != nil {
		v.harness = err
		return v
	}
	beforeImage, err := bufimage.CloneImage(image)
	if err != nil {
		v.harness = err
		return v
	}
	before := map[string]*descriptorpb.FileDescriptorProto{}
	for _, f := range beforeImage.Files() {
		before[f.Path()] = f.FileDescriptorProto()
	}
	err, panicked := safeModify(image, config)
	if panicked != "" {
		return fail(v, "modify-panic", "bufimagemodify.Modify panicked on a valid image and a valid managed config (form %s, enabled=%v, disable=%+v, override=%+v): %s", m.Form, m.Enabled, m.Disables, m.Overrides, panicked)
	}
	if err != nil {
		return fail(v, "modify-error", "bufimagemodify.Modify failed on a valid image and a valid managed config: %v", err)
	}
	if len(image.Files()) != len(before) {
		return fail(v, "frame:files", "image has %d files after Modify, %d before", len(image.Files()), len(before))
	}
	distinctMatchers := map[string]map[string]bool{}
	for _, r := range m.Overrides {
		target := r.FileOption
		if r.FieldOption != "" {
			target = r.FieldOption
		}
		for _, o := range governed {
			if target == o.prefix || target == o.suffix {
				target = o.name
			}
		}
		if distinctMatchers[target] == nil {
			distinctMatchers[target] = map[string]bool{}
		}
		distinctMatchers[target][r.Path+"|"+r.Module+"|"+r.Field] = true
	}
	twoOverrides := false
	for _, ms := range distinctMatchers {
		if len(ms) >= 2 {
			twoOverrides = true
		}
	}
	changedAnything := false
	var sourceChecks []func() (string, string)

	for _, imageFile := range image.Files() {
		path := imageFile.Path()
		after := imageFile.FileDescriptorProto()
		b := before[path]
		if b == nil {
			return fail(v, "frame:files", "file %s appeared", path)
		}
		info, ok := infos[path]
		if !ok {
			v.harness = fmt.Errorf("no file info for %s", path)
			return v
		}
		// (4) disabled => untouched; WKT and blanket-disabled files identical incl. governed fields and source info
		switch {
		case !m.Enabled:
			if !proto.Equal(b, after) {
				return fail(v, "disabled-changed", "managed mode is disabled but %s changed: %s", path, firstDiff(b, after))
			}
			continue
		case info.WKT:
			if !proto.Equal(b, after) {
				return fail(v, "wkt-changed", "well-known type file %s was modified: %s", path, firstDiff(b, after))
			}
			v.class("file:wkt")
			continue
		case blanketDisabled(m, info):
			if !proto.Equal(b, after) {
				return fail(v, "blanket-disabled-changed", "file %s (module %q) is exempted by a disable rule without option, but changed: %s", path, info.Module, firstDiff(b, after))
			}
			v.class("file:blanket-disabled")
			continue
		}
		// (1) frame
		fb, fa := proto.Clone(b).(*descriptorpb.FileDescriptorProto), proto.Clone(after).(*descriptorpb.FileDescriptorProto)
		clearGoverned(fb)
		clearGoverned(fa)
		if !proto.Equal(fb, fa) {
			d := firstDiff(fb, fa)
			return fail(v, "frame:"+diffKey(d), "file %s: something other than a governed option changed: %s", path, d)
		}
		// (2) values + which governed options changed
		var changedNums []int32
		for i := range governed {
			o := &governed[i]
			bp, bv := optState(b.Options, o.num)
			ap, av := optState(after.Options, o.num)
			changed := bp != ap || !bv.Equal(av)
			if changed {
				changedNums = append(changedNums, o.num)
				changedAnything = true
			}
			e := expectFileOption(m, o, info)
			v.class("opt:" + e.class)
			desc := func() string {
				return fmt.Sprintf("file %s (package %q, module %q) option %s: before set=%v %s, after set=%v %s; config disable=%+v override=%+v", path, info.Package, info.Module, o.name, bp, valString(o, bv), ap, valString(o, av), m.Disables, m.Overrides)
			}
			switch {
			case e.unchanged:
				if changed {
					return fail(v, "value:"+o.name+":not-exempted", "%s — must be unchanged (%s)", desc(), e.why)
				}
			case e.assert:
				okv := false
				var want string
				switch o.kind {
				case "bool":
					okv, want = av.Bool() == e.b, fmt.Sprint(e.b)
				case "optimize":
					okv, want = descriptorpb.FileOptions_OptimizeMode(av.Enum()).String() == e.opt, e.opt
				default:
					okv, want = av.String() == e.str, fmt.Sprintf("%q", e.str)
				}
				if !okv {
					key := "value:" + o.name
					if !changed && fieldScopedDisableMatches(m, info) {
						// root cause: a disable rule that names a field (and no option) is treated as exempting the whole file
						key = "value:field-scoped-disable-exempts-file-options"
					}
					return fail(v, key, "%s — expected %s (%s)", desc(), want, e.why)
				}
			}
		}
		// jstype
		bFields, aFields := fieldsOf(b), fieldsOf(after)
		var changedFieldPaths [][]int32
		for i, fr := range aFields {
			bj, aj := jstypeOf(bFields[i].fd), jstypeOf(fr.fd)
			changed := (bj == nil) != (aj == nil) || (bj != nil && *bj != *aj)
			if changed {
				changedFieldPaths = append(changedFieldPaths, append(slices.Clone(fr.path), 8, 6))
				changedAnything = true
			}
			e := expectJSType(m, info, fr.full, fr.fd.GetType().String())
			v.class(e.class)
			desc := func() string {
				return fmt.Sprintf("file %s field %s (%s): jstype before %v, after %v; config disable=%+v override=%+v", path, fr.full, fr.fd.GetType(), bj, aj, m.Disables, m.Overrides)
			}
			switch {
			case e.unchanged:
				if changed {
					return fail(v, "value:jstype:not-exempted", "%s — must be unchanged (%s)", desc(), e.why)
				}
			case e.assert:
				if fr.fd.GetOptions().GetJstype().String() != e.opt {
					return fail(v, "value:jstype", "%s — expected %s (%s)", desc(), e.opt, e.why)
				}
			}
		}
		// (3) source info: checked after every file has passed (1) and (2)
		if (b.SourceCodeInfo == nil) != (after.SourceCodeInfo == nil) {
			return fail(v, "sourceinfo:presence", "file %s: source_code_info presence changed", path)
		}
		sourceChecks = append(sourceChecks, func() (string, string) {
			key, msg := checkSourceInfo(b.GetSourceCodeInfo().GetLocation(), after.GetSourceCodeInfo().GetLocation(), changedNums, changedFieldPaths)
			if key == "" {
				return "", ""
			}
			return key, fmt.Sprintf("file %s: %s (governed options changed: %v, jstype changed at %v)", path, msg, changedNums, changedFieldPaths)
		})
	}
	// report the most specific source-info failure last so that an unexplained one is never hidden by a classified one
	var classified [2]string
	for _, chk := range sourceChecks {
		key, msg := chk()
		switch {
		case key == "":
		case strings.Count(key, ":") >= 2:
			if classified[0] == "" {
				classified = [2]string{key, msg}
			}
		default:
			return fail(v, key, "%s", msg)
		}
	}
	if classified[0] != "" {
		return fail(v, classified[0], "%s", classified[1])
	}
	if m.Enabled && len(m.Disables) >= 1 && twoOverrides {
		v.nonTrivial = true
	}
	if changedAnything {
		v.class("modified-something")
	}
	return v
}

// checkSourceInfo: removed = exactly the locations of rewritten options. The location of the enclosing
// options message ([8] of the same `option` statement; a field's [..., 8] once all of its option
// locations are gone) may go with them; everything else stays, unchanged and in order.
func checkSourceInfo(before, after []*descriptorpb.SourceCodeInfo_Location, changedNums []int32, changedFieldPaths [][]int32) (string, string) {
	must := make([]bool, len(before))
	may := make([]bool, len(before))
	for i, l := range before {
		for _, n := range changedNums {
			if hasPrefix(l.Path, []int32{8, n}) {
				must[i] = true
			}
		}
		for _, p := range changedFieldPaths {
			if hasPrefix(l.Path, p) {
				must[i] = true
			}
		}
	}
	for i, l := range before {
		if slices.Equal(l.Path, []int32{8}) {
			for j, o := range before {
				if must[j] && len(o.Path) == 2 && slices.Equal(o.Span, l.Span) {
					may[i] = true
				}
			}
		}
		if n := len(l.Path); n >= 3 && l.Path[n-1] == 8 && !slices.Equal(l.Path, []int32{8}) {
			// a FieldOptions location: may go iff it had option locations and all of them go
			children, gone := 0, 0
			for j, o := range before {
				if len(o.Path) > n && hasPrefix(o.Path, l.Path) {
					children++
					if must[j] {
						gone++
					}
				}
			}
			if children > 0 && children == gone {
				may[i] = true
			}
		}
	}
	j := 0
	for i, l := range before {
		kept := j < len(after) && proto.Equal(l, after[j])
		switch {
		case must[i] && kept:
			return "sourceinfo:not-removed", fmt.Sprintf("location #%d path %v span %v belongs to a rewritten option but is still present", i, l.Path, l.Span)
		case must[i]:
		case kept:
			j++
		case may[i]:
		default:
			got := "end of list"
			if j < len(after) {
				got = fmt.Sprintf("path %v span %v", after[j].Path, after[j].Span)
			}
			key := "sourceinfo:over-removed"
			if n := len(l.Path); n >= 3 && l.Path[n-1] == 8 {
				children := 0
				for _, o := range before {
					if len(o.Path) > n && hasPrefix(o.Path, l.Path) {
						children++
					}
				}
				if children == 0 {
					// e.g. `[json_name = "x"]` / `[default = 1]`: a FieldOptions location without any option location below it
					key += ":field-options-location-without-option-locations"
				}
			}
			return key, fmt.Sprintf("location #%d path %v span %v does not belong to a rewritten option but was removed or altered (next location after Modify: %s)", i, l.Path, l.Span, got)
		}
	}
	if j != len(after) {
		return "sourceinfo:added", fmt.Sprintf("%d location(s) after Modify have no counterpart before, first: path %v", len(after)-j, after[j].Path)
	}
	return "", ""
}

// diffKey turns ".options.java_generic_services: ..." into "options.java_generic_services".
func diffKey(d string) string {
	head := d
	if i := strings.Index(d, ":"); i >= 0 {
		head = d[:i]
	}
	var b strings.Builder
	depth := 0
	for _, c := range head {
		switch {
		case c == '[':
			depth++
		case c == ']':
			depth--
		case depth == 0:
			b.WriteRune(c)
		}
	}
	return strings.TrimPrefix(b.String(), ".")
}

// firstDiff describes the first difference between two messages of the same type (recursively).
func firstDiff(a, b proto.Message) string {
	return diffAt(a.ProtoReflect(), b.ProtoReflect(), "")
}

func msgLabel(m protoreflect.Message) string {
	if fd := m.Descriptor().Fields().ByName("name"); fd != nil && fd.Kind() == protoreflect.StringKind && !fd.IsList() {
		return m.Get(fd).String()
	}
	return ""
}

func clip(s string) string {
	if len(s) > 200 {
		return s[:200] + "…"
	}
	return s
}

func diffAt(ar, br protoreflect.Message, path string) string {
	fds := ar.Descriptor().Fields()
	for i := 0; i < fds.Len(); i++ {
		fd := fds.Get(i)
		here := path + "." + string(fd.Name())
		if ar.Has(fd) != br.Has(fd) {
			return fmt.Sprintf("%s: presence %v vs %v", here, ar.Has(fd), br.Has(fd))
		}
		if !ar.Has(fd) {
			continue
		}
		switch {
		case fd.IsMap():
			continue
		case fd.IsList():
			al, bl := ar.Get(fd).List(), br.Get(fd).List()
			if al.Len() != bl.Len() {
				return fmt.Sprintf("%s: %d vs %d elements", here, al.Len(), bl.Len())
			}
			for j := 0; j < al.Len(); j++ {
				if fd.Message() != nil {
					if !proto.Equal(al.Get(j).Message().Interface(), bl.Get(j).Message().Interface()) {
						return diffAt(al.Get(j).Message(), bl.Get(j).Message(), fmt.Sprintf("%s[%d %s]", here, j, msgLabel(al.Get(j).Message())))
					}
				} else if !al.Get(j).Equal(bl.Get(j)) {
					return fmt.Sprintf("%s[%d]: %v vs %v", here, j, clip(al.Get(j).String()), clip(bl.Get(j).String()))
				}
			}
		case fd.Message() != nil:
			if !proto.Equal(ar.Get(fd).Message().Interface(), br.Get(fd).Message().Interface()) {
				return diffAt(ar.Get(fd).Message(), br.Get(fd).Message(), here)
			}
		default:
			if !ar.Get(fd).Equal(br.Get(fd)) {
				return fmt.Sprintf("%s: %v vs %v", here, clip(ar.Get(fd).String()), clip(br.Get(fd).String()))
			}
		}
	}
	var ax, bx []string
	ar.Range(func(fd protoreflect.FieldDescriptor, _ protoreflect.Value) bool {
		if fd.IsExtension() {
			ax = append(ax, string(fd.FullName()))
		}
		return true
	})
	br.Range(func(fd protoreflect.FieldDescriptor, _ protoreflect.Value) bool {
		if fd.IsExtension() {
			bx = append(bx, string(fd.FullName()))
		}
		return true
	})
	sort.Strings(ax)
	sort.Strings(bx)
	return fmt.Sprintf("%s.<extensions>: extension/unknown fields differ (extensions %v vs %v, %d vs %d unknown bytes)", path, ax, bx, len(ar.GetUnknown()), len(br.GetUnknown()))
}
