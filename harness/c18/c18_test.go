// C18 — managed mode rewrites only what it governs.
//
// Cases: protogen workspaces (file options, custom options, WKT imports, named modules, with and
// without source info, extra pre-set governed options planted locally) × managed configurations drawn
// as abstract rule lists and handed to buf as bufconfig values, as buf.gen.yaml v2 text or as
// buf.gen.yaml v1 text. The oracle (oracle_test.go) compares a deep clone taken before
// bufimagemodify.Modify with the modified image against the reference model in model_test.go.
package c18

import (
	"context"
	"encoding/json"
	"fmt"
	"sort"
	"strings"
	"testing"

	"github.com/bufbuild/buf/private/bufpkg/bufimage"
	"github.com/bufbuild/buf/private/bufpkg/bufmodule"
	"github.com/bufbuild/bufverif/internal/bufx"
	"github.com/bufbuild/bufverif/internal/evid"
	"github.com/bufbuild/bufverif/internal/protogen"
	"pgregory.net/rapid"
)

func TestMain(m *testing.M) { evid.Main(m, "C18") }

type modSrc struct {
	Dir   string            `json:"dir"`
	Name  string            `json:"name,omitempty"`
	Files map[string]string `json:"files"`
}

type c18Case struct {
	Modules      []modSrc    `json:"modules"`
	NoSourceInfo bool        `json:"no_source_info,omitempty"`
	Managed      managedSpec `json:"managed"`
}

func buildImage(ctx context.Context, c *c18Case) (bufimage.Image, map[string]fileInfo, error) {
	ws := &protogen.Workspace{}
	byModule := map[string]map[string]string{}
	owner := map[string]string{}
	for _, m := range c.Modules {
		ws.Modules = append(ws.Modules, &protogen.Module{Dir: m.Dir, Name: m.Name})
		byModule[m.Dir] = m.Files
		for p := range m.Files {
			owner[p] = m.Name
		}
	}
	ms, err := bufx.ModuleSet(ctx, ws, byModule, nil, nil, nil)
	if err != nil {
		return nil, nil, err
	}
	var opts []bufimage.BuildImageOption
	if c.NoSourceInfo {
		opts = append(opts, bufimage.WithExcludeSourceCodeInfo())
	}
	image, err := bufimage.BuildImage(ctx, bufx.Logger, bufmodule.ModuleSetToModuleReadBucketWithOnlyProtoFiles(ms), opts...)
	if err != nil {
		return nil, nil, err
	}
	infos := map[string]fileInfo{}
	for _, f := range image.Files() {
		_, mine := owner[f.Path()]
		infos[f.Path()] = fileInfo{
			Path:    f.Path(),
			Package: f.FileDescriptorProto().GetPackage(),
			Module:  owner[f.Path()],
			WKT:     !mine && strings.HasPrefix(f.Path(), "google/protobuf/"),
		}
		if !mine && !strings.HasPrefix(f.Path(), "google/protobuf/") {
			return nil, nil, fmt.Errorf("image file %s belongs to no module of the case", f.Path())
		}
	}
	return image, infos, nil
}

func pick[T any](t *rapid.T, label string, l []T) T {
	return l[rapid.IntRange(0, len(l)-1).Draw(t, label)]
}

func chance(t *rapid.T, label string, oneIn int) bool {
	return rapid.IntRange(0, oneIn-1).Draw(t, label) == oneIn-1 // rapid favours small values: the last value is the rare one
}

func genConfig() protogen.GenConfig {
	cfg := protogen.DefaultConfig()
	cfg.CustomOptions = true
	cfg.FileOptions = true
	cfg.NamedModules = true
	cfg.MaxFiles = 5
	cfg.MaxMessages = 3
	cfg.MaxFields = 5
	cfg.SyntaxUnspec = false
	return cfg
}

// plantOptions pre-sets further governed (and some ungoverned) file options on some files.
func plantOptions(t *rapid.T, ws *protogen.Workspace) {
	extra := []protogen.Option{
		{Name: "optimize_for", Value: "CODE_SIZE"},
		{Name: "optimize_for", Value: "SPEED"},
		{Name: "cc_enable_arenas", Value: "false"},
		{Name: "cc_enable_arenas", Value: "true"},
		{Name: "java_string_check_utf8", Value: "true"},
		{Name: "java_multiple_files", Value: "false"},
		{Name: "java_outer_classname", Value: `"PresetOuter"`},
		{Name: "objc_class_prefix", Value: `"PRE"`},
		{Name: "php_namespace", Value: `"Preset\\Ns"`},
		{Name: "php_metadata_namespace", Value: `"Preset\\Meta"`},
		{Name: "ruby_package", Value: `"Preset::Ruby"`},
		{Name: "csharp_namespace", Value: `"Preset.Cs"`},
		{Name: "java_package", Value: `"preset.java"`},
		{Name: "go_package", Value: `"preset.example/go;presetpb"`},
		// not governed: must survive untouched
		{Name: "java_generic_services", Value: "true"},
		{Name: "swift_prefix", Value: `"SW"`},
		{Name: "php_class_prefix", Value: `"PC"`},
		{Name: "deprecated", Value: "true"},
	}
	for _, f := range ws.AllFiles() {
		n := rapid.IntRange(0, 4).Draw(t, "planted")
		for i := 0; i < n; i++ {
			o := pick(t, "planted-opt", extra)
			if o.Name == "java_string_check_utf8" && f.Syntax == protogen.Editions {
				continue // not allowed with editions
			}
			f.Options = protogen.SetOption(f.Options, o.Name, o.Value)
		}
	}
}

type pools struct {
	paths, dirs, modules []string
	fields64, fieldsOther []string
	existing              map[string][]string // option name -> values present in the image (unquoted)
}

func makePools(image bufimage.Image, infos map[string]fileInfo) *pools {
	p := &pools{existing: map[string][]string{}}
	dirs, mods := map[string]bool{}, map[string]bool{}
	for _, f := range image.Files() {
		info := infos[f.Path()]
		p.paths = append(p.paths, f.Path())
		parts := strings.Split(f.Path(), "/")
		for i := 1; i < len(parts); i++ {
			dirs[strings.Join(parts[:i], "/")] = true
		}
		if info.Module != "" {
			mods[info.Module] = true
		}
		if info.WKT {
			continue
		}
		for _, fr := range fieldsOf(f.FileDescriptorProto()) {
			if jsTypePermitted[fr.fd.GetType().String()] {
				p.fields64 = append(p.fields64, fr.full)
			} else {
				p.fieldsOther = append(p.fieldsOther, fr.full)
			}
		}
		for i := range governed {
			o := &governed[i]
			if o.kind != "string" {
				continue
			}
			if set, v := optState(f.FileDescriptorProto().Options, o.num); set && v.String() != "" {
				p.existing[o.name] = append(p.existing[o.name], v.String())
			}
		}
	}
	for d := range dirs {
		p.dirs = append(p.dirs, d)
	}
	for m := range mods {
		p.modules = append(p.modules, m)
	}
	sort.Strings(p.dirs)
	sort.Strings(p.modules)
	return p
}

// matcher draws a (path, module) pair: any / file / directory / module / both / non-matching.
func (p *pools) matcher(t *rapid.T) (string, string) {
	var path, module string
	switch rapid.IntRange(0, 9).Draw(t, "matcher") {
	case 0, 1:
	case 2, 3:
		path = pick(t, "m-file", p.paths)
	case 4, 5:
		if len(p.dirs) > 0 {
			path = pick(t, "m-dir", p.dirs)
		}
	case 6, 7:
		if len(p.modules) > 0 {
			module = pick(t, "m-module", p.modules)
		}
	case 8:
		if len(p.modules) > 0 {
			module = pick(t, "m-module2", p.modules)
		}
		if len(p.dirs) > 0 {
			path = pick(t, "m-dir2", p.dirs)
		}
	default:
		if rapid.Bool().Draw(t, "m-nomatch-kind") {
			path = "no/such/dir"
		} else {
			module = "buf.build/acme/absent"
		}
	}
	return path, module
}

var overrideTargets = []string{
	"java_package", "java_package_prefix", "java_package_suffix", "go_package_prefix", "go_package",
	"java_multiple_files", "java_outer_classname", "java_string_check_utf8", "optimize_for", "cc_enable_arenas",
	"objc_class_prefix", "csharp_namespace", "csharp_namespace_prefix", "php_namespace", "php_metadata_namespace",
	"php_metadata_namespace_suffix", "ruby_package", "ruby_package_suffix", "jstype",
}

// focusTargets: what the first overrides of a config are about (jstype and the prefix/suffix families more often).
var focusTargets = []string{
	"jstype", "java_package", "go_package_prefix", "ruby_package", "csharp_namespace", "jstype", "java_package_prefix", "optimize_for",
	"java_multiple_files", "php_metadata_namespace", "objc_class_prefix", "java_outer_classname", "cc_enable_arenas", "php_namespace",
	"java_string_check_utf8", "go_package", "java_package_suffix", "csharp_namespace_prefix", "ruby_package_suffix", "php_metadata_namespace_suffix",
}

func (p *pools) value(t *rapid.T, target string) any {
	k := rapid.IntRange(0, 3).Draw(t, "valvariant")
	switch target {
	case "java_multiple_files", "java_string_check_utf8", "cc_enable_arenas":
		return rapid.Bool().Draw(t, "boolval")
	case "optimize_for":
		return pick(t, "optval", []string{"SPEED", "CODE_SIZE", "LITE_RUNTIME"})
	case "jstype":
		return pick(t, "jsval", []string{"JS_STRING", "JS_NUMBER", "JS_NORMAL"})
	case "java_package_prefix":
		return []string{"net", "org.acme", "dev", "io.gen"}[k]
	case "java_package_suffix":
		return []string{"gen", "proto", "v", "out.pb"}[k]
	case "go_package_prefix":
		return []string{"example.com/gen", "github.com/acme/gen/v2", "gen", "acme.dev/x"}[k]
	case "csharp_namespace_prefix":
		return []string{"Acme", "Acme.Gen", "X", "Corp.Apis"}[k]
	case "ruby_package_suffix":
		return []string{"Gen", "Proto", "Pb", "Out"}[k]
	case "php_metadata_namespace_suffix":
		return []string{"Meta", "Metadata", "M", "GPB"}[k]
	}
	// value override of a string option: sometimes a value some file already has
	if ex := p.existing[target]; len(ex) > 0 && k == 3 {
		return pick(t, "existingval", ex)
	}
	return fmt.Sprintf("%s.ov%d", strings.ReplaceAll(target, "_", ""), k)
}

func (p *pools) fieldName(t *rapid.T) string {
	switch k := rapid.IntRange(0, 5).Draw(t, "fieldkind"); {
	case k <= 2 && len(p.fields64) > 0:
		return pick(t, "field64", p.fields64)
	case k <= 4 && len(p.fieldsOther) > 0:
		return pick(t, "fieldother", p.fieldsOther)
	case k == 5:
		return "no.such.Message.field"
	}
	return ""
}

// genManaged draws the abstract rule list.
func genManaged(t *rapid.T, p *pools) managedSpec {
	m := managedSpec{Enabled: !chance(t, "managed-off", 10)}
	focus := pick(t, "focus", focusTargets)
	nOver := []int{3, 4, 2, 5, 1, 6, 0}[rapid.IntRange(0, 6).Draw(t, "overrides")] // rapid favours the first entries
	for i := 0; i < nOver; i++ {
		target := focus
		if i >= 2 && rapid.Bool().Draw(t, "other-target") {
			target = pick(t, "target", overrideTargets)
		} else if i == 1 {
			// same governed option through its sibling pseudo-option sometimes
			for _, o := range governed {
				if o.name == focus || o.prefix == focus || o.suffix == focus {
					sib := []string{o.name}
					if o.prefix != "" {
						sib = append(sib, o.prefix)
					}
					if o.suffix != "" {
						sib = append(sib, o.suffix)
					}
					target = pick(t, "sibling", sib)
				}
			}
		}
		r := rule{Value: p.value(t, target)}
		r.Path, r.Module = p.matcher(t)
		if target == "jstype" {
			r.FieldOption = "jstype"
			if rapid.Bool().Draw(t, "js-field") {
				r.Field = p.fieldName(t)
			}
		} else {
			r.FileOption = target
		}
		m.Overrides = append(m.Overrides, r)
	}
	nDis := []int{1, 2, 0, 3}[rapid.IntRange(0, 3).Draw(t, "disables")]
	for i := 0; i < nDis; i++ {
		var r rule
		r.Path, r.Module = p.matcher(t)
		switch rapid.IntRange(0, 7).Draw(t, "disable-kind") {
		case 0: // blanket: needs a matcher
			if r.Path == "" && r.Module == "" {
				r.Path = pick(t, "blanket-path", p.paths)
			}
		case 1, 2:
			r.FileOption = focus
			if focus == "jstype" {
				r.FileOption, r.FieldOption = "", "jstype"
			}
		case 3, 4:
			r.FileOption = pick(t, "disable-opt", overrideTargets[:len(overrideTargets)-1])
		case 5:
			r.FieldOption = "jstype"
			if rapid.Bool().Draw(t, "dis-js-field") {
				r.Field = p.fieldName(t)
			}
		case 6: // a field, every field option
			r.Field = p.fieldName(t)
			if r.Field == "" {
				r.FieldOption = "jstype"
			}
		default:
			r.FileOption = pick(t, "disable-opt2", []string{"java_package_prefix", "go_package_prefix", "ruby_package_suffix", "java_package_suffix"})
		}
		m.Disables = append(m.Disables, r)
	}
	return m
}

func yamlScalar(v any) string {
	switch x := v.(type) {
	case bool:
		return fmt.Sprint(x)
	case string:
		b, _ := json.Marshal(x)
		return string(b)
	}
	return fmt.Sprint(v)
}

func renderV2(m managedSpec) string {
	var b strings.Builder
	b.WriteString("version: v2\nmanaged:\n")
	fmt.Fprintf(&b, "  enabled: %v\n", m.Enabled)
	item := func(r rule, withValue bool) {
		first := true
		kv := func(k, v string) {
			if first {
				fmt.Fprintf(&b, "    - %s: %s\n", k, v)
				first = false
			} else {
				fmt.Fprintf(&b, "      %s: %s\n", k, v)
			}
		}
		if r.FileOption != "" {
			kv("file_option", r.FileOption)
		}
		if r.FieldOption != "" {
			kv("field_option", r.FieldOption)
		}
		if r.Module != "" {
			kv("module", r.Module)
		}
		if r.Path != "" {
			kv("path", yamlScalar(r.Path))
		}
		if r.Field != "" {
			kv("field", r.Field)
		}
		if withValue {
			kv("value", yamlScalar(r.Value))
		}
	}
	if len(m.Disables) > 0 {
		b.WriteString("  disable:\n")
		for _, r := range m.Disables {
			item(r, false)
		}
	}
	if len(m.Overrides) > 0 {
		b.WriteString("  override:\n")
		for _, r := range m.Overrides {
			item(r, true)
		}
	}
	b.WriteString("plugins:\n  - local: protoc-gen-nothing\n    out: gen\n")
	return b.String()
}

// genV1 draws a v1-shaped managed section and returns its YAML plus the rule list the v1
// documentation gives it: `except` = the option is not managed for that module; precedence
// per-file override > per-module override > default.
func genV1(t *rapid.T, p *pools) managedSpec {
	m := managedSpec{Enabled: !chance(t, "managed-off", 10), Form: "yaml-v1"}
	var b strings.Builder
	b.WriteString("version: v1\nmanaged:\n")
	fmt.Fprintf(&b, "  enabled: %v\n", m.Enabled)
	var defaults, moduleOverrides, fileOverrides []rule
	for _, name := range []string{"cc_enable_arenas", "java_multiple_files", "java_string_check_utf8"} {
		if rapid.Bool().Draw(t, "v1-"+name) {
			val := rapid.Bool().Draw(t, "v1-bool")
			fmt.Fprintf(&b, "  %s: %v\n", name, val)
			defaults = append(defaults, rule{FileOption: name, Value: val})
		}
	}
	mods := append([]string{}, p.modules...)
	mods = append(mods, "buf.build/acme/absent")
	section := func(key, exceptOpt, overrideOpt string, hasDefault, defaultRequired bool) {
		if !rapid.Bool().Draw(t, "v1-sec-"+key) {
			return
		}
		var lines []string
		if hasDefault && (defaultRequired || rapid.Bool().Draw(t, "v1-default")) {
			val := p.value(t, overrideOpt)
			lines = append(lines, fmt.Sprintf("    default: %s", yamlScalar(val)))
			defaults = append(defaults, rule{FileOption: overrideOpt, Value: val})
		}
		perm := rapid.Permutation(mods).Draw(t, "v1-mods")
		nEx := rapid.IntRange(0, 1).Draw(t, "v1-except")
		nOv := rapid.IntRange(0, 2).Draw(t, "v1-override")
		if nEx > 0 {
			lines = append(lines, "    except:")
			lines = append(lines, "      - "+perm[0])
			m.Disables = append(m.Disables, rule{Module: perm[0], FileOption: exceptOpt})
		}
		var ov []string
		for i := nEx; i < nEx+nOv && i < len(perm); i++ {
			val := p.value(t, overrideOpt)
			ov = append(ov, fmt.Sprintf("      %s: %s", perm[i], yamlScalar(val)))
			moduleOverrides = append(moduleOverrides, rule{Module: perm[i], FileOption: overrideOpt, Value: val})
		}
		if len(ov) > 0 {
			lines = append(lines, "    override:")
			lines = append(lines, ov...)
		}
		if len(lines) == 0 {
			return
		}
		fmt.Fprintf(&b, "  %s:\n%s\n", key, strings.Join(lines, "\n"))
	}
	section("java_package_prefix", "java_package", "java_package_prefix", true, true)
	section("csharp_namespace", "csharp_namespace", "csharp_namespace", false, false)
	section("optimize_for", "optimize_for", "optimize_for", true, true)
	section("go_package_prefix", "go_package", "go_package_prefix", true, true)
	section("objc_class_prefix", "objc_class_prefix", "objc_class_prefix", true, false)
	section("ruby_package", "ruby_package", "ruby_package", false, false)
	// per-file overrides: exact file paths, value options only
	if rapid.Bool().Draw(t, "v1-perfile") {
		keys := []string{"JAVA_PACKAGE", "GO_PACKAGE", "CSHARP_NAMESPACE", "RUBY_PACKAGE", "OBJC_CLASS_PREFIX", "OPTIMIZE_FOR", "JAVA_MULTIPLE_FILES", "CC_ENABLE_ARENAS", "JAVA_OUTER_CLASSNAME", "PHP_NAMESPACE", "PHP_METADATA_NAMESPACE", "JAVA_STRING_CHECK_UTF8"}
		n := rapid.IntRange(1, 3).Draw(t, "v1-perfile-n")
		used := map[string]bool{}
		b.WriteString("  override:\n")
		for i := 0; i < n; i++ {
			key := pick(t, "v1-perfile-key", keys)
			if used[key] {
				continue
			}
			used[key] = true
			fmt.Fprintf(&b, "    %s:\n", key)
			opt := strings.ToLower(key)
			files := map[string]bool{}
			nFiles := rapid.IntRange(1, 2).Draw(t, "v1-perfile-files")
			for j := 0; j < nFiles; j++ {
				path := pick(t, "v1-perfile-path", p.paths)
				if files[path] {
					continue
				}
				files[path] = true
				val := p.value(t, opt)
				// the v1 per-file map is string -> string
				fmt.Fprintf(&b, "      %s: %s\n", yamlScalar(path), yamlScalar(fmt.Sprint(val)))
				fileOverrides = append(fileOverrides, rule{Path: path, FileOption: opt, Value: val})
			}
		}
	}
	b.WriteString("plugins:\n  - plugin: nothing\n    out: gen\n")
	m.YAML = b.String()
	m.Overrides = append(append(defaults, moduleOverrides...), fileOverrides...)
	return m
}

func canonManaged(m managedSpec) string {
	b, _ := json.Marshal(m)
	return string(b)
}

func TestManaged(t *testing.T) {
	r := evid.R()
	ctx := context.Background()
	r.Check(t, r.Scale(4000, 60000), 1, func(t *rapid.T) {
		ws := protogen.GenWorkspace(t, genConfig())
		plantOptions(t, ws)
		rw := ws.Render()
		c := &c18Case{NoSourceInfo: chance(t, "no-source-info", 5)}
		for _, m := range ws.Modules {
			c.Modules = append(c.Modules, modSrc{Dir: m.Dir, Name: m.Name, Files: rw.ByModule[m.Dir]})
		}
		image, infos, err := buildImage(ctx, c)
		if err != nil {
			for _, m := range c.Modules {
				for p, txt := range m.Files {
					t.Logf("=== %s/%s\n%s", m.Dir, p, txt)
				}
			}
			t.Fatalf("harness: generated workspace does not build: %v", err)
		}
		p := makePools(image, infos)
		var m managedSpec
		switch form := rapid.IntRange(0, 9).Draw(t, "form"); {
		case form == 8:
			m = genV1(t, p)
		case form == 9 || form == 7:
			m = genManaged(t, p)
			m.Form = "yaml-v2"
			m.YAML = renderV2(m)
		default:
			m = genManaged(t, p)
			m.Form = "value"
		}
		c.Managed = m

		r.Class("form:" + m.Form)
		if !m.Enabled {
			r.Class("managed:disabled")
		}
		if c.NoSourceInfo {
			r.Class("image:no-source-info")
		}
		wkt, named := false, false
		for _, info := range infos {
			wkt = wkt || info.WKT
			named = named || info.Module != ""
		}
		if wkt {
			r.Class("image:has-wkt-files")
		}
		if named {
			r.Class("image:has-named-module")
		}
		for _, d := range m.Disables {
			switch {
			case isBlanket(d):
				r.Class("disable:blanket")
			case d.Field != "":
				r.Class("disable:field")
			case d.FieldOption != "":
				r.Class("disable:field-option")
			default:
				r.Class("disable:file-option")
			}
		}
		for _, o := range m.Overrides {
			kind := "value"
			if strings.HasSuffix(o.FileOption, "_prefix") {
				kind = "prefix"
			} else if strings.HasSuffix(o.FileOption, "_suffix") {
				kind = "suffix"
			} else if o.FieldOption != "" {
				kind = "jstype"
			}
			by := "any"
			switch {
			case o.Path != "" && o.Module != "":
				by = "path+module"
			case o.Path != "":
				by = "path"
			case o.Module != "":
				by = "module"
			}
			r.Class("override:" + kind + ":" + by)
		}

		v := runOracle(image, infos, m)
		if v.harness != nil {
			t.Fatalf("harness: %v", v.harness)
		}
		r.Eval()
		seen := map[string]bool{}
		for _, cl := range v.classes {
			if !seen[cl] {
				seen[cl] = true
				r.Class("case-has:" + cl)
			}
		}
		if v.key != "" {
			r.Fail(t, v.key, v.msg, c)
			return
		}
		if v.nonTrivial {
			r.NonTrivial(ws.Canon() + "|" + canonManaged(m))
			r.Class("non-trivial")
			r.Sample(map[string]any{"files": p.paths, "managed": m})
		}
	})
}

// TestReplay re-runs the oracle on a saved case (no generator).
func TestReplay(t *testing.T) {
	var c c18Case
	ok, err := evid.ReplayCase(&c)
	if !ok {
		t.Skip("no VERIF_REPLAY")
	}
	if err != nil {
		t.Fatal(err)
	}
	r := evid.R()
	defer r.Begin(t)()
	image, infos, err := buildImage(context.Background(), &c)
	if err != nil {
		t.Fatalf("harness: replay case does not build: %v", err)
	}
	v := runOracle(image, infos, c.Managed)
	if v.harness != nil {
		t.Fatalf("harness: %v", v.harness)
	}
	r.Eval()
	if v.key != "" {
		r.Fail(t, v.key, v.msg, c)
		return
	}
	fmt.Println("replay: oracle holds")
}
