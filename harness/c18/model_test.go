package c18

// Reference model of managed mode, written from the documentation (buf.gen.yaml reference embedded
// in `buf generate --help`: "If multiple overrides for the same option apply to a file or field, the
// last rule takes effect", "disable ... takes precedence over overrides"; managed-mode docs for the
// default values). It never looks at bufimagemodify.

import (
	"path"
	"regexp"
	"strings"
)

// rule is one disable or override rule in the abstract (the three config forms are rendered from it).
type rule struct {
	Path        string `json:"path,omitempty"`
	Module      string `json:"module,omitempty"`
	Field       string `json:"field,omitempty"`
	FileOption  string `json:"file_option,omitempty"`
	FieldOption string `json:"field_option,omitempty"`
	Value       any    `json:"value,omitempty"` // overrides only: string | bool
}

type managedSpec struct {
	Enabled   bool   `json:"enabled"`
	Disables  []rule `json:"disable,omitempty"`
	Overrides []rule `json:"override,omitempty"`
	Form      string `json:"form"`           // "value" | "yaml-v2" | "yaml-v1"
	YAML      string `json:"yaml,omitempty"` // the text that was read for the yaml forms
}

// governed file options: name, FileOptions field number, value kind, prefix / suffix pseudo-options
type optInfo struct {
	name   string
	num    int32
	kind   string // "string" | "bool" | "optimize"
	prefix string
	suffix string
}

var governed = []optInfo{
	{"java_package", 1, "string", "java_package_prefix", "java_package_suffix"},
	{"java_outer_classname", 8, "string", "", ""},
	{"java_multiple_files", 10, "bool", "", ""},
	{"java_string_check_utf8", 27, "bool", "", ""},
	{"optimize_for", 9, "optimize", "", ""},
	{"go_package", 11, "string", "go_package_prefix", ""},
	{"cc_enable_arenas", 31, "bool", "", ""},
	{"objc_class_prefix", 36, "string", "", ""},
	{"csharp_namespace", 37, "string", "csharp_namespace_prefix", ""},
	{"php_namespace", 41, "string", "", ""},
	{"php_metadata_namespace", 44, "string", "", "php_metadata_namespace_suffix"},
	{"ruby_package", 45, "string", "", "ruby_package_suffix"},
}

func governedByName(n string) *optInfo {
	for i := range governed {
		if governed[i].name == n {
			return &governed[i]
		}
	}
	return nil
}

// fileInfo is what the model knows about one image file.
type fileInfo struct {
	Path    string
	Package string
	Module  string // full name of the module that owns it ("" if unnamed or WKT)
	WKT     bool
}

// fileMatches: a rule's path names the file itself or a directory that contains it; its module names
// the module the file belongs to. Empty means "any".
func fileMatches(r rule, f fileInfo) bool {
	if r.Path != "" && r.Path != "." && r.Path != f.Path && !strings.HasPrefix(f.Path, r.Path+"/") {
		return false
	}
	if r.Module != "" && r.Module != f.Module {
		return false
	}
	return true
}

// isBlanket: no option and no field named, i.e. "do not modify anything for these files".
func isBlanket(r rule) bool {
	return r.FileOption == "" && r.FieldOption == "" && r.Field == ""
}

// fileOptionDisabled: a disable rule exempts file option `name` of file f when it matches the file and
// either names that option or names no option at all. A rule scoped to a field or to a field option
// says nothing about file options.
func fileOptionDisabled(m managedSpec, name string, f fileInfo) bool {
	for _, d := range m.Disables {
		if d.FieldOption != "" || d.Field != "" {
			continue
		}
		if d.FileOption != "" && d.FileOption != name {
			continue
		}
		if fileMatches(d, f) {
			return true
		}
	}
	return false
}

func blanketDisabled(m managedSpec, f fileInfo) bool {
	for _, d := range m.Disables {
		if isBlanket(d) && fileMatches(d, f) {
			return true
		}
	}
	return false
}

// expectation for one (file, option)
type expect struct {
	unchanged bool   // the option must be exactly as before
	assert    bool   // the value below is asserted
	str       string // expected value of a string option
	b         bool
	opt       string // SPEED | CODE_SIZE | LITE_RUNTIME
	why       string
	class     string // generator-health class
}

var versionRE = regexp.MustCompile(`^v[0-9]+(((alpha|beta)[0-9]*)|(p[0-9]+(alpha|beta)[0-9]*)|(test.*))?$`)

func pkgParts(pkg string) []string { return strings.Split(pkg, ".") }

func hasVersion(pkg string) bool {
	p := pkgParts(pkg)
	return versionRE.MatchString(p[len(p)-1])
}

// pascal: first letter of every word upper-cased; words are separated by non-alphanumerics.
func pascal(s string) string {
	var b strings.Builder
	up := true
	for _, c := range s {
		isAlnum := c >= 'a' && c <= 'z' || c >= 'A' && c <= 'Z' || c >= '0' && c <= '9'
		if !isAlnum {
			up = true
			continue
		}
		if up && c >= 'a' && c <= 'z' {
			c = c - 'a' + 'A'
		}
		up = false
		b.WriteRune(c)
	}
	return b.String()
}

func pascalParts(pkg, sep string) string {
	parts := pkgParts(pkg)
	for i, p := range parts {
		parts[i] = pascal(p)
	}
	return strings.Join(parts, sep)
}

func joinNonEmpty(sep string, parts ...string) string {
	var out []string
	for _, p := range parts {
		if p != "" {
			out = append(out, p)
		}
	}
	return strings.Join(out, sep)
}

// defaultString computes the documented closed formula for a string option given prefix/suffix.
// ok=false: no documented formula (no assertion); empty result with ok=true: option left alone.
func defaultString(o *optInfo, f fileInfo, prefix, suffix string) (string, bool) {
	if f.Package == "" {
		return "", false
	}
	switch o.name {
	case "java_package":
		// "com." + package; java_package_prefix replaces "com", java_package_suffix is appended
		return joinNonEmpty(".", prefix, f.Package, suffix), true
	case "java_outer_classname":
		// PascalCase(file name without extension) + "Proto"
		base := path.Base(f.Path)
		return pascal(strings.TrimSuffix(base, ".proto")) + "Proto", true
	case "go_package":
		// only with go_package_prefix: <prefix>/<dir of the file>, and ";<name><version>" for a versioned
		// package with >= 2 components (override.go: goPackageImportPathForFile documents this derivation)
		if prefix == "" {
			return "", true
		}
		v := prefix
		if dir := path.Dir(f.Path); dir != "." {
			v = prefix + "/" + dir
		}
		if parts := pkgParts(f.Package); hasVersion(f.Package) && len(parts) >= 2 {
			v += ";" + parts[len(parts)-2] + parts[len(parts)-1]
		}
		return v, true
	case "csharp_namespace":
		return joinNonEmpty(".", prefix, pascalParts(f.Package, ".")), true
	case "ruby_package":
		return joinNonEmpty("::", pascalParts(f.Package, "::"), suffix), true
	case "php_namespace":
		return pascalParts(f.Package, `\`), true
	case "objc_class_prefix":
		// upper-cased initials of the package components without the version; padded with X to three
		// letters; GPB (reserved by protobuf) becomes GPX
		parts := pkgParts(f.Package)
		if hasVersion(f.Package) {
			parts = parts[:len(parts)-1]
		}
		var b strings.Builder
		for _, p := range parts {
			if p != "" {
				b.WriteString(strings.ToUpper(p[:1]))
			}
		}
		s := b.String()
		for len(s) < 3 {
			s += "X"
		}
		if s == "GPB" {
			s = "GPX"
		}
		return s, true
	}
	return "", false // php_metadata_namespace: default not asserted
}

func defaultPrefix(o *optInfo) string {
	if o.name == "java_package" {
		return "com"
	}
	return ""
}

// expectFileOption is the reference precedence model for one governed file option of one file.
func expectFileOption(m managedSpec, o *optInfo, f fileInfo) expect {
	if !m.Enabled {
		return expect{unchanged: true, why: "managed mode disabled"}
	}
	if f.WKT {
		return expect{unchanged: true, why: "well-known type file"}
	}
	if fileOptionDisabled(m, o.name, f) {
		return expect{unchanged: true, why: "disabled by a disable rule", class: "disabled"}
	}
	var matched []rule
	for _, r := range m.Overrides {
		if r.FileOption == "" || !fileMatches(r, f) {
			continue
		}
		if r.FileOption == o.name || (o.prefix != "" && r.FileOption == o.prefix) || (o.suffix != "" && r.FileOption == o.suffix) {
			matched = append(matched, r)
		}
	}
	switch o.kind {
	case "bool":
		if len(matched) > 0 {
			return expect{assert: true, b: matched[len(matched)-1].Value.(bool), why: "last matching override", class: "override"}
		}
		if o.name == "java_multiple_files" {
			return expect{assert: true, b: true, why: "documented default true", class: "default"}
		}
		return expect{why: "default not asserted", class: "default-unasserted"}
	case "optimize":
		if len(matched) > 0 {
			return expect{assert: true, opt: matched[len(matched)-1].Value.(string), why: "last matching override", class: "override"}
		}
		return expect{why: "default not asserted", class: "default-unasserted"}
	}
	// string options with optional prefix / suffix pseudo-options
	if (o.prefix != "" && fileOptionDisabled(m, o.prefix, f)) || (o.suffix != "" && fileOptionDisabled(m, o.suffix, f)) {
		return expect{why: "prefix/suffix pseudo-option disabled: outcome not documented", class: "subopt-disabled"}
	}
	lastValue := -1
	for i, r := range matched {
		if r.FileOption == o.name {
			lastValue = i
		}
	}
	if len(matched) > 0 && lastValue == len(matched)-1 {
		return expect{assert: true, str: matched[lastValue].Value.(string), why: "last matching override is a value override", class: "override-value"}
	}
	pick := func(rs []rule, name, dflt string) string {
		v := dflt
		for _, r := range rs {
			if r.FileOption == name {
				v = r.Value.(string)
			}
		}
		return v
	}
	if lastValue == -1 {
		prefix, suffix := defaultPrefix(o), ""
		if o.prefix != "" {
			prefix = pick(matched, o.prefix, prefix)
		}
		if o.suffix != "" {
			suffix = pick(matched, o.suffix, "")
		}
		if o.name == "php_metadata_namespace" {
			return expect{why: "php_metadata_namespace default/suffix formula not asserted", class: "default-unasserted"}
		}
		v, ok := defaultString(o, f, prefix, suffix)
		if !ok {
			return expect{why: "no documented default", class: "default-unasserted"}
		}
		cl := "default"
		if len(matched) > 0 {
			cl = "override-prefix-suffix"
		}
		if v == "" {
			return expect{unchanged: true, why: "no default without a prefix", class: cl}
		}
		return expect{assert: true, str: v, why: "default formula with the last matching prefix/suffix", class: cl}
	}
	// a value override followed by prefix/suffix overrides: the documentation only says "the last rule
	// takes effect". Reading A: rules before the value override are forgotten, defaults included.
	// Reading B: the value override is merely superseded. Assert only where both agree.
	if o.name == "php_metadata_namespace" {
		return expect{why: "php_metadata_namespace suffix formula not asserted", class: "default-unasserted"}
	}
	after := matched[lastValue+1:]
	ap, as := "", ""
	bp, bs := defaultPrefix(o), ""
	if o.prefix != "" {
		ap, bp = pick(after, o.prefix, ""), pick(matched, o.prefix, bp)
	}
	if o.suffix != "" {
		as, bs = pick(after, o.suffix, ""), pick(matched, o.suffix, "")
	}
	va, oka := defaultString(o, f, ap, as)
	vb, okb := defaultString(o, f, bp, bs)
	if !oka || !okb || va != vb || va == "" {
		return expect{why: "value override followed by prefix/suffix override: precedence not documented", class: "ambiguous-override-sequence"}
	}
	return expect{assert: true, str: va, why: "prefix/suffix overrides after the last value override", class: "override-prefix-suffix"}
}

// jstype
var jsTypePermitted = map[string]bool{"TYPE_INT64": true, "TYPE_UINT64": true, "TYPE_SINT64": true, "TYPE_FIXED64": true, "TYPE_SFIXED64": true}

// expectJSType: reference model for one field (full name, descriptor type name) of file f.
func expectJSType(m managedSpec, f fileInfo, field, typ string) expect {
	if !m.Enabled {
		return expect{unchanged: true, why: "managed mode disabled"}
	}
	if f.WKT {
		return expect{unchanged: true, why: "well-known type file"}
	}
	var matched []rule
	for _, r := range m.Overrides {
		if r.FieldOption == "jstype" && fileMatches(r, f) && (r.Field == "" || r.Field == field) {
			matched = append(matched, r)
		}
	}
	if len(matched) == 0 {
		return expect{unchanged: true, why: "no jstype override applies"}
	}
	for _, d := range m.Disables {
		if d.FileOption != "" {
			continue
		}
		if d.FieldOption != "" && d.FieldOption != "jstype" {
			continue
		}
		if fileMatches(d, f) && (d.Field == "" || d.Field == field) {
			return expect{unchanged: true, why: "disabled by a disable rule", class: "jstype-disabled"}
		}
	}
	if !jsTypePermitted[typ] {
		return expect{unchanged: true, why: "jstype only applies to 64-bit integer fields", class: "jstype-not-64bit"}
	}
	return expect{assert: true, opt: matched[len(matched)-1].Value.(string), why: "last matching jstype override", class: "jstype-override"}
}
