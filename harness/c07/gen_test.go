package c07

// Grammar-based source text generator.  The generator first builds a token list (the grammar), then
// the noise layer renders it, drawing for every token gap what goes there: nothing, blanks, tabs,
// line breaks, blank lines, `//` and `/* */` comments.  Semantics (unique names, resolvable types,
// valid numbers, option values of the right type) are kept valid by construction unless the "wild"
// switch of a file is on, so that most files link and the compiled-descriptor comparison runs.
// Every random choice is a rapid draw.

import (
	"fmt"
	"os"
	"strings"

	"github.com/bufbuild/bufverif/internal/evid"
	"pgregory.net/rapid"
)

func evidExcluded() { evid.R().Excluded(keyKnownEmpty) }

// off reports whether a generator trigger was switched off for a development run (C07_OFF=a,b,c).
// In the check itself every trigger is on.
var offSet = func() map[string]bool {
	m := map[string]bool{}
	for _, k := range strings.Split(os.Getenv("C07_OFF"), ",") {
		if k != "" {
			m[k] = true
		}
	}
	return m
}()

func off(k string) bool { return offSet[k] }

func excluded(key string) { evid.R().Excluded(key) }

// noGlue replaces an empty separator next to a comment by a blank unless this file may carry
// comments glued to a neighbouring token (trigger of the open finding not-idempotent:whitespace:at-comment).
func (g *fgen) noGlue(sp string) string {
	if sp != "" || g.glueOK {
		return sp
	}
	excluded("not-idempotent:whitespace:at-comment")
	return " "
}

var depFiles = map[string]string{
	"dep/alpha.proto": "syntax = \"proto3\";\npackage dep;\nmessage Alpha { string id = 1; }\n",
	"dep/beta.proto":  "syntax = \"proto2\";\npackage dep;\nmessage Beta { optional string id = 1; }\n",
}

type tkKind uint8

const (
	kPunct tkKind = iota
	kWord         // identifier, keyword, number
	kStr          // string literal
)

type tk struct {
	s     string
	k     tkKind
	bol   bool   // canonical layout starts a new line before this token
	decl  bool   // first token of a declaration/statement
	empty bool   // the ';' of an empty statement
	in    int    // indentation level (canonical)
	lit   bool   // token inside a message literal
	tag   string // "compact-eq": '=' of a compact option, "lit-sep": separator inside a message literal
}

// Facts are the structural features of a generated file (classes, non-triviality).
type Facts struct {
	Syntax          string
	Wild            bool
	EmptyStmts      int
	EmptyStmtCmts   bool // comments were allowed next to empty statements
	AdjacentStrings int
	MsgLiterals     int
	AnyLiterals     int
	AngleLiterals   int
	ArrayLiterals   int
	DupImports      int
	FileOptions     int
	RepeatedFileOpt int
	Groups          int
	Maps            int
	Oneofs          int
	Extends         int
	ExtRanges       int
	Reserved        int
	Services        int
	RPCBodies       int
	Streams         int
	Nested          int
	CompactOptions  int
	NumForms        int
	Escapes         int
	OddComments     int // comments in a gap that is neither "own line above a declaration" nor "end of line after ;"
	PlainComments   int
	DetachedBlocks  int
	InterleavedHdr  bool
	CRLF            bool
	CustomPrelude   bool
	Tokens          int
}

type fgen struct {
	t     *rapid.T
	toks  []tk
	ind   int
	facts Facts

	syntax string // proto2 | proto3 | editions | ""
	pkg    string
	wild   bool
	custom bool // custom option prelude present (Cfg, Kind, extensions of *Options)
	seq    int
	cseq   int

	msgs     []string // fully-qualified message names usable as field types
	enums    []string // fully-qualified enum names
	imported map[string]bool

	litDepth   int
	litFocus   bool // literal-heavy file: several message-literal options with nested literals
	usedKw     map[string]bool
	forceNums  []int
	extendable []extTarget

	allowEmptyCmt bool
	glueOK        bool // comments may touch a neighbouring token (no blank between)
	nameCmtOK     bool // comments between a compact option name and its '='
	sepCmtOK      bool // comments next to a message-literal separator
	mixSpelling   bool // custom file options may be spelled (x), (pkg.x) and (.pkg.x) in one file
	fileOptStyle  int
	mixedEOL      bool // every line break is drawn: LF or CRLF
	crlfBlankOK   bool // CRLF files may have a blank line inside a block comment
	blockEndOK    bool // line comments may contain "*/" (e.g. a glob `**/*.proto`)
	crlf          bool
	noisy         int // percentage of gaps that get noise
}

// pct is true with probability p%; the draw shrinks towards false.
func (g *fgen) pct(label string, p int) bool { return rapid.IntRange(0, 99).Draw(g.t, label) >= 100-p }
func (g *fgen) intn(label string, lo, hi int) int {
	if hi <= lo {
		return lo
	}
	return rapid.IntRange(lo, hi).Draw(g.t, label)
}
func (g *fgen) pick(label string, xs ...string) string { return xs[g.intn(label, 0, len(xs)-1)] }

// ---- token emission --------------------------------------------------------------------------

func (g *fgen) emit(s string, k tkKind) *tk {
	g.toks = append(g.toks, tk{s: s, k: k, in: g.ind, lit: g.litDepth > 0})
	return &g.toks[len(g.toks)-1]
}
func (g *fgen) w(s string) *tk { return g.emit(s, kWord) }
func (g *fgen) p(s string) *tk { return g.emit(s, kPunct) }

// start emits the first token of a statement.
func (g *fgen) start(s string) *tk {
	t := g.w(s)
	t.bol, t.decl = true, true
	return t
}
func (g *fgen) open(s string) { g.p(s); g.ind++ }
func (g *fgen) close(s string) {
	g.ind--
	t := g.p(s)
	t.bol = true
	t.in = g.ind
}

// emptyStmts emits 0..n empty statements (where the grammar allows `semicolons`).
func (g *fgen) emptyStmts(label string, p int) {
	if !g.pct(label, p) || off("empty-stmt") {
		return
	}
	n := g.intn(label+"n", 1, 2)
	for i := 0; i < n; i++ {
		t := g.p(";")
		t.empty = true
		t.bol = g.pct(label+"bol", 50)
		g.facts.EmptyStmts++
	}
}

// end emits the terminating ';' of a statement, possibly followed by extra empty statements.
func (g *fgen) end() {
	g.p(";")
	g.emptyStmts("extra", 4)
}

var identWords = []string{"alpha", "bravo", "cedar", "delta", "ember", "fjord", "grove", "harbor", "iris", "kelp", "lumen", "maple", "nectar", "olive", "pearl", "quartz", "raven", "sable", "tundra", "umber"}

// keyword-like identifiers that the grammar accepts as field / enum value names
var kwFieldNames = []string{"syntax", "import", "package", "to", "max", "stream", "returns", "rpc", "service", "map", "weak", "public", "true_", "inf_", "edition", "string_", "bool_", "message_", "enum_", "option_"}

func (g *fgen) lower() string {
	g.seq++
	return fmt.Sprintf("%s_%d", identWords[g.intn("word", 0, len(identWords)-1)], g.seq)
}
func (g *fgen) upper() string {
	g.seq++
	w := identWords[g.intn("word", 0, len(identWords)-1)]
	return fmt.Sprintf("%s%s%d", strings.ToUpper(w[:1]), w[1:], g.seq)
}
func (g *fgen) fieldName() string {
	if g.pct("kwname", 6) {
		g.seq++
		n := kwFieldNames[g.intn("kw", 0, len(kwFieldNames)-1)]
		if strings.HasSuffix(n, "_") {
			return fmt.Sprintf("%s%d", n, g.seq)
		}
		// a bare keyword as a name: once per file (names must be unique per scope)
		if g.usedKw == nil {
			g.usedKw = map[string]bool{}
		}
		if !g.usedKw[n] {
			g.usedKw[n] = true
			return n
		}
		return fmt.Sprintf("%s_%d", n, g.seq)
	}
	return g.lower()
}

// dotted emits a (possibly qualified) identifier as separate tokens: a . b . c
func (g *fgen) dotted(name string, first bool) {
	parts := strings.Split(name, ".")
	for i, p := range parts {
		if p == "" { // leading dot
			t := g.p(".")
			if first && i == 0 {
				t.bol, t.decl = true, true
			}
			continue
		}
		if i > 0 && parts[i-1] != "" {
			g.p(".")
		}
		t := g.w(p)
		if first && i == 0 {
			t.bol, t.decl = true, true
		}
	}
}

// ---- literals --------------------------------------------------------------------------------

// intLit renders a non-negative integer in decimal, hex or octal.
func (g *fgen) intLit(v uint64) string {
	switch g.intn("intform", 0, 9) {
	case 0:
		g.facts.NumForms++
		return fmt.Sprintf("0x%X", v)
	case 1:
		g.facts.NumForms++
		return fmt.Sprintf("0X%x", v)
	case 2:
		if v > 0 {
			g.facts.NumForms++
			return fmt.Sprintf("0%o", v)
		}
	}
	return fmt.Sprintf("%d", v)
}

// str emits a string value as 1..3 adjacent string literal tokens.
func (g *fgen) str(content string) {
	n := 1
	if g.pct("adj", 12) {
		n = g.intn("adjn", 2, 3)
		g.facts.AdjacentStrings++
	}
	rs := []rune(content)
	cuts := make([]int, 0, n+1)
	cuts = append(cuts, 0)
	for i := 1; i < n; i++ {
		cuts = append(cuts, g.intn("cut", cuts[len(cuts)-1], len(rs)))
	}
	cuts = append(cuts, len(rs))
	for i := 0; i < n; i++ {
		g.emit(g.quote(string(rs[cuts[i]:cuts[i+1]])), kStr)
	}
}

// strBytes is str for arbitrary byte content.
func (g *fgen) quote(s string) string {
	q := byte('"')
	if g.pct("squote", 25) {
		q = '\''
	}
	var b strings.Builder
	b.WriteByte(q)
	esc := g.pct("escapes", 15)
	for _, r := range s {
		switch {
		case r == rune(q) || r == '\\':
			b.WriteByte('\\')
			b.WriteRune(r)
		case r == '\n':
			b.WriteString(`\n`)
		case r == '\r':
			b.WriteString(`\r`)
		case r == '\t':
			b.WriteString(`\t`)
		case r == 0:
			b.WriteString(`\000`)
		case r < 0x20 || r == 0x7f:
			fmt.Fprintf(&b, `\x%02x`, r)
		case esc && r < 0x80 && g.pct("escthis", 30):
			g.facts.Escapes++
			switch g.intn("escform", 0, 3) {
			case 0:
				fmt.Fprintf(&b, `\x%02X`, r)
			case 1:
				fmt.Fprintf(&b, `\%03o`, r)
			case 2:
				fmt.Fprintf(&b, `\u%04x`, r)
			default:
				fmt.Fprintf(&b, `\U%08x`, r)
			}
		case esc && r >= 0x80 && g.pct("escuni", 50):
			g.facts.Escapes++
			if r > 0xffff {
				fmt.Fprintf(&b, `\U%08X`, r)
			} else {
				fmt.Fprintf(&b, `\u%04X`, r)
			}
		default:
			b.WriteRune(r)
		}
	}
	b.WriteByte(q)
	return b.String()
}

var strContents = []string{"", "x", "hello world", "a/b.c", "it's", `say "hi"`, "tab\there", "line\nbreak", "back\\slash", "héllo ✓", "日本語", "// not a comment", "/* nor this */", "semi;colon", "{brace}", "[1, 2]", "50%", "a,b;c"}

func (g *fgen) someString() string { return strContents[g.intn("strc", 0, len(strContents)-1)] }

// ---- option values ---------------------------------------------------------------------------

// Custom option prelude (names are relative to the file's package):
//
//	message Cfg { s, i, d, b, ri[], rs[], sub, subs[], k, raw, f, rd[], u64 ; extensions 100 to 199 (proto2) }
//	enum Kind { KIND_A = 0; KIND_B = 1; }
//	extend Cfg { optional string cfg_ext = 100; } (proto2)
//	extend google.protobuf.XOptions { cfg (Cfg), tag (repeated string), num (repeated int32), str (string), flag (bool), dbl (double), kind (Kind) }
type optTarget struct{ short, extendee string }

var optTargets = []optTarget{
	{"f", "FileOptions"}, {"m", "MessageOptions"}, {"fl", "FieldOptions"}, {"o", "OneofOptions"}, {"e", "EnumOptions"},
	{"ev", "EnumValueOptions"}, {"s", "ServiceOptions"}, {"r", "MethodOptions"}, {"x", "ExtensionRangeOptions"},
}

type custOpt struct {
	suffix, typ string
	repeated    bool
}

var custOpts = []custOpt{
	{"cfg", "Cfg", false}, {"tag", "string", true}, {"num", "int32", true}, {"str", "string", false},
	{"flag", "bool", false}, {"dbl", "double", false}, {"kind", "Kind", false}, {"cfgs", "Cfg", true}, {"any", "Any", false},
}

func (g *fgen) qual(name string) string {
	if g.pkg == "" {
		return name
	}
	return g.pkg + "." + name
}

// typeRef renders a reference to the fully-qualified type fq (no leading dot in fq).
func (g *fgen) typeRef(fq string, first bool) {
	g.typeRefStyle(fq, first, g.intn("refstyle", 0, 3))
}

func (g *fgen) typeRefStyle(fq string, first bool, style int) {
	switch style {
	case 0:
		g.dotted("."+fq, first)
	case 1:
		if g.pkg != "" && strings.HasPrefix(fq, g.pkg+".") {
			g.dotted(strings.TrimPrefix(fq, g.pkg+"."), first)
			return
		}
		g.dotted(fq, first)
	default:
		g.dotted(fq, first)
	}
}

// optNameCustom emits `( pkg.name )`.
func (g *fgen) optNameCustom(name string) {
	g.p("(")
	style := g.intn("refstyle", 0, 3)
	if strings.HasPrefix(name, "f_") && !g.mixSpelling && style != g.fileOptStyle {
		// one spelling per file for file options (open finding: different spellings of one repeated option are re-sorted)
		if (style == 0) != (g.fileOptStyle == 0) || (style == 1) != (g.fileOptStyle == 1) {
			excluded("meaning:repeated-option-reordered:different-spelling")
		}
		style = g.fileOptStyle
	}
	g.typeRefStyle(g.qual(name), false, style)
	g.p(")")
}

func (g *fgen) floatLit() {
	neg := g.pct("fneg", 30)
	if neg {
		g.p("-")
	}
	g.facts.NumForms++
	form := g.intn("fform", 0, 9)
	switch form {
	case 0:
		g.w("inf")
	case 1:
		g.w("nan")
	case 2:
		g.w("1e3")
	case 3:
		g.w(".5")
	case 4:
		g.w("2.5E-3")
	case 5:
		g.w("1.")
	case 6:
		g.w("0.0")
	case 7:
		g.w(fmt.Sprintf("%d", g.intn("fint", 0, 1000)))
	case 8:
		g.w("3.14159")
	default:
		g.w("1e+10")
	}
}

func (g *fgen) intValue(signed bool, max int) {
	if signed && g.pct("ineg", 30) {
		g.p("-")
	}
	g.w(g.intLit(uint64(g.intn("ival", 0, max))))
}

// scalarValue emits a value of the given scalar/enum type.
func (g *fgen) scalarValue(typ string) {
	switch typ {
	case "string":
		g.str(g.someString())
	case "bytes":
		g.str(g.pick("bytesc", "", "raw", "\x01\x02", "b\xc3\xa9", "nul\x00x"))
	case "bool":
		g.w(g.pick("boolv", "true", "false"))
	case "double", "float":
		g.floatLit()
	case "int32", "int64", "sint32", "sint64", "sfixed32", "sfixed64":
		g.intValue(true, 100000)
	case "uint32", "uint64", "fixed32", "fixed64":
		g.intValue(false, 100000)
	case "Kind":
		g.w(g.pick("kindv", "KIND_A", "KIND_B"))
	default:
		g.w("0")
	}
}

type cfgField struct {
	name, typ string
	repeated  bool
}

var cfgFields = []cfgField{
	{"s", "string", false}, {"i", "int32", false}, {"d", "double", false}, {"b", "bool", false}, {"ri", "int64", true},
	{"rs", "string", true}, {"sub", "Cfg", false}, {"subs", "Cfg", true}, {"k", "Kind", false}, {"raw", "bytes", false},
	{"f", "float", false}, {"rd", "double", true}, {"u64", "uint64", false}, {"any", "Any", false},
}

// litSep emits an optional separator of a message literal, tagged by the kind of value in front of it:
// "lit-sep-c" after a composite scalar (-1, -inf, "a" "b"), "lit-sep" otherwise.
func (g *fgen) litSep(s string) {
	tag := "lit-sep"
	if n := len(g.toks); n >= 2 {
		last, before := g.toks[n-1], g.toks[n-2]
		if before.s == "-" || (last.k == kStr && before.k == kStr) {
			tag = "lit-sep-c"
		}
	}
	g.p(s).tag = tag
}

// anyLiteral emits a google.protobuf.Any value in its expanded form: a message literal whose only field is
// `[type.googleapis.com/<pkg>.Cfg]` with an empty or non-empty Cfg body.
func (g *fgen) anyLiteral(depth int) {
	g.litDepth++
	defer func() { g.litDepth-- }()
	g.facts.MsgLiterals++
	g.facts.AnyLiterals++
	op, cl := "{", "}"
	if depth > 0 && g.pct("angle", 25) {
		op, cl = "<", ">"
		g.facts.AngleLiterals++
	}
	g.open(op)
	t := g.p("[")
	t.bol = true
	g.dotted("type.googleapis.com", false)
	g.p("/")
	g.dotted(g.qual("Cfg"), false)
	g.p("]")
	if g.pct("colon", 60) {
		g.p(":")
	}
	if g.pct("anyempty", 45) {
		g.open(g.pick("anyemptyopen", "{", "{", "<"))
		g.ind--
		if g.toks[len(g.toks)-1].s == "<" {
			g.p(">")
		} else {
			g.p("}")
		}
	} else {
		g.msgLiteral(depth + 1)
	}
	switch g.intn("sep", 0, 3) {
	case 0:
		g.litSep(",")
	case 1:
		g.litSep(";")
	}
	g.close(cl)
}

// msgLiteral emits a message literal for a Cfg value.
func (g *fgen) msgLiteral(depth int) {
	g.litDepth++
	defer func() { g.litDepth-- }()
	g.facts.MsgLiterals++
	op, cl := "{", "}"
	if depth > 0 && g.pct("angle", 40) {
		op, cl = "<", ">"
		g.facts.AngleLiterals++
	}
	g.open(op)
	n := g.intn("litfields", 0, 4)
	if g.litFocus && depth < 2 && n < 2 {
		n = 2
	}
	used := map[string]bool{}
	for i := 0; i < n; i++ {
		f := cfgFields[g.intn("litfield", 0, len(cfgFields)-1)]
		if g.litFocus && depth < 2 && g.pct("nestmore", 40) {
			f = cfgFields[g.pick2("nestwhich", 6, 7)] // sub / subs
		}
		if (f.typ == "Cfg" || f.typ == "Any") && depth >= 2 {
			f = cfgFields[0]
		}
		if !f.repeated && used[f.name] {
			continue
		}
		used[f.name] = true
		if f.name == "s" && g.syntax == "proto2" && g.pct("extkey", 15) && !used["[ext]"] {
			used["[ext]"] = true
			t := g.p("[")
			t.bol = true
			g.dotted(g.qual("cfg_ext"), false) // no leading dot allowed here
			g.p("]")
			g.p(":")
			g.str(g.someString())
		} else {
			t := g.w(f.name)
			t.bol = true
			switch {
			case f.typ == "Cfg" && f.repeated && g.pct("listform", 60):
				if g.pct("colon", 60) {
					g.p(":")
				}
				g.facts.ArrayLiterals++
				g.open("[")
				m := g.intn("listn", 0, 3)
				for j := 0; j < m; j++ {
					if j > 0 {
						g.p(",")
					}
					g.msgLiteral(depth + 1)
				}
				g.close("]")
			case f.typ == "Cfg":
				if g.pct("colon", 60) {
					g.p(":")
				}
				g.msgLiteral(depth + 1)
			case f.typ == "Any":
				if g.pct("colon", 60) {
					g.p(":")
				}
				g.anyLiteral(depth + 1)
			case f.repeated && g.pct("listform", 50):
				g.p(":")
				g.facts.ArrayLiterals++
				g.open("[")
				m := g.intn("listn", 0, 4)
				for j := 0; j < m; j++ {
					if j > 0 {
						g.p(",")
					}
					g.scalarValue(f.typ)
				}
				g.close("]")
			default:
				g.p(":")
				g.scalarValue(f.typ)
			}
		}
		switch g.intn("sep", 0, 3) {
		case 0:
			g.litSep(",")
		case 1:
			g.litSep(";")
		}
	}
	g.close(cl)
}

// wildOption emits an option that does not resolve: option (a.b).c = ...
func (g *fgen) wildOptionBody() {
	g.p("(")
	g.dotted(g.pick("wildopt", "a.b", ".x.y.z", "undefined_opt", "foo.bar.baz"), false)
	g.p(")")
	if g.pct("wildsub", 50) {
		g.p(".")
		g.w(g.pick("wildsubn", "c", "inner", "value"))
		if g.pct("wildsub2", 30) {
			g.p(".")
			g.p("(")
			g.dotted("q.r", false)
			g.p(")")
		}
	}
	g.p("=")
	switch g.intn("wildval", 0, 5) {
	case 0:
		g.str(g.someString())
	case 1:
		g.floatLit()
	case 2:
		g.w(g.pick("wildid", "FOO", "true", "inf", "nan", "some_ident"))
	case 3:
		g.intValue(true, 1<<30)
	default:
		g.wildLiteral(0)
	}
}

// wildLiteral emits a free-form message literal (no schema).
func (g *fgen) wildLiteral(depth int) {
	g.litDepth++
	defer func() { g.litDepth-- }()
	g.facts.MsgLiterals++
	op, cl := "{", "}"
	if depth > 0 && g.pct("angle", 40) {
		op, cl = "<", ">"
		g.facts.AngleLiterals++
	}
	g.open(op)
	n := g.intn("wlitn", 0, 4)
	for i := 0; i < n; i++ {
		switch g.intn("wkey", 0, 9) {
		case 0:
			t := g.p("[")
			t.bol = true
			g.dotted("some.ext.name", false)
			g.p("]")
		case 1:
			if off("any-url") {
				t := g.w("anyoff")
				t.bol = true
				break
			}
			t := g.p("[")
			t.bol = true
			g.dotted("type.googleapis.com", false)
			g.p("/")
			g.dotted("some.Msg", false)
			g.p("]")
		default:
			t := g.w(g.pick("wfield", "a", "b", "name", "value", "items", "nested"))
			t.bol = true
		}
		kind := g.intn("wval", 0, 9)
		if depth >= 2 && kind >= 6 {
			kind = 0
		}
		switch {
		case kind <= 1:
			g.p(":")
			g.str(g.someString())
		case kind == 2:
			g.p(":")
			g.floatLit()
		case kind == 3:
			g.p(":")
			g.intValue(true, 99999)
		case kind == 4:
			g.p(":")
			g.w(g.pick("wident", "FOO", "true", "false", "inf", "BAR_BAZ"))
		case kind == 5:
			g.p(":")
			if g.pct("wneg", 50) {
				g.p("-")
			}
			g.w(g.pick("wspecial", "inf", "nan", "infinity"))
		case kind == 6 || kind == 7:
			if g.pct("colon", 50) {
				g.p(":")
			}
			g.wildLiteral(depth + 1)
		default:
			g.p(":")
			g.facts.ArrayLiterals++
			g.open("[")
			m := g.intn("wlistn", 0, 3)
			for j := 0; j < m; j++ {
				if j > 0 {
					g.p(",")
				}
				switch g.intn("wlistel", 0, 3) {
				case 0:
					g.str(g.someString())
				case 1:
					g.intValue(true, 500)
				case 2:
					g.floatLit()
				default:
					g.wildLiteral(depth + 1)
				}
			}
			g.close("]")
		}
		switch g.intn("sep", 0, 3) {
		case 0:
			g.litSep(",")
		case 1:
			g.litSep(";")
		}
	}
	g.close(cl)
}

// optionStmt emits `option <body> ;` for the target kind with the given standard candidates.
type stdOpt struct{ name, typ string }

func (g *fgen) optionStmt(target string, std []stdOpt, used map[string]bool) {
	g.start("option")
	g.optionBody(target, std, used)
	g.end()
}

func (g *fgen) optionBody(target string, std []stdOpt, used map[string]bool) {
	if g.wild && g.pct("wildoptp", 30) && !(off("reorder") && target == "f") {
		g.wildOptionBody()
		return
	}
	if g.custom && (len(std) == 0 || g.pct("usecustom", 45)) {
		// keep non-repeated custom options unique per element
		for tries := 0; tries < 4; tries++ {
			mark := len(g.toks)
			factsSave := g.facts
			o := custOpts[g.intn("custpick", 0, len(custOpts)-1)]
			key := "(" + target + "_" + o.suffix + ")"
			if (!o.repeated || (off("reorder") && target == "f")) && used[key] && (!g.wild || off("reorder")) {
				g.toks, g.facts = g.toks[:mark], factsSave
				continue
			}
			used[key] = true
			g.customOptionNamed(target, o)
			return
		}
	}
	if len(std) > 0 {
		for tries := 0; tries < 6; tries++ {
			o := std[g.intn("stdopt", 0, len(std)-1)]
			if used[o.name] && (!g.wild || off("reorder")) {
				continue
			}
			if o.name == "java_string_check_utf8" && g.syntax == "editions" {
				continue
			}
			used[o.name] = true
			g.dotted(o.name, false)
			g.p("=")
			g.stdValue(o.typ)
			return
		}
	}
	// nothing valid is left for this element
	if g.custom && !(off("reorder") && target == "f") {
		g.customOptionNamed(target, custOpts[1]) // repeated tag: may be given any number of times
		return
	}
	g.wildNote()
	g.wildOptionBody()
}

func (g *fgen) wildNote() { g.wild = true }

func (g *fgen) customOptionNamed(target string, o custOpt) {
	name := target + "_" + o.suffix
	if o.typ == "Cfg" && !o.repeated && g.pct("subfield", 25) {
		g.optNameCustom(name)
		g.p(".")
		f := cfgFields[g.intn("subf", 0, 3)]
		g.w(f.name)
		g.p("=")
		g.scalarValue(f.typ)
		// (x_cfg).s twice or together with (x_cfg) = {...} does not link: mark by name
		return
	}
	g.optNameCustom(name)
	g.p("=")
	switch o.typ {
	case "Cfg":
		g.msgLiteral(0)
	case "Any":
		g.anyLiteral(0)
	default:
		g.scalarValue(o.typ)
	}
}

func (g *fgen) stdValue(typ string) {
	switch {
	case typ == "jsonname":
		g.str(strings.ReplaceAll(g.lower(), "_", "") + "Json")
	case typ == "string" || typ == "bool":
		g.scalarValue(typ)
	case strings.HasPrefix(typ, "enum:"):
		vals := strings.Split(strings.TrimPrefix(typ, "enum:"), ",")
		g.w(vals[g.intn("enumv", 0, len(vals)-1)])
	default:
		g.scalarValue(typ)
	}
}

var fileStdOpts = []stdOpt{
	{"java_package", "string"}, {"java_outer_classname", "string"}, {"java_multiple_files", "bool"}, {"java_string_check_utf8", "bool"},
	{"optimize_for", "enum:SPEED,CODE_SIZE"}, {"go_package", "string"}, {"cc_generic_services", "bool"},
	{"java_generic_services", "bool"}, {"py_generic_services", "bool"}, {"deprecated", "bool"}, {"cc_enable_arenas", "bool"},
	{"objc_class_prefix", "string"}, {"csharp_namespace", "string"}, {"swift_prefix", "string"}, {"php_class_prefix", "string"},
	{"php_namespace", "string"}, {"php_metadata_namespace", "string"}, {"ruby_package", "string"},
}
var msgStdOpts = []stdOpt{{"deprecated", "bool"}, {"no_standard_descriptor_accessor", "bool"}, {"deprecated_legacy_json_field_conflicts", "bool"}}
var enumStdOpts = []stdOpt{{"deprecated", "bool"}, {"deprecated_legacy_json_field_conflicts", "bool"}}
var svcStdOpts = []stdOpt{{"deprecated", "bool"}}
var rpcStdOpts = []stdOpt{{"deprecated", "bool"}, {"idempotency_level", "enum:IDEMPOTENCY_UNKNOWN,NO_SIDE_EFFECTS,IDEMPOTENT"}}
var valStdOpts = []stdOpt{{"deprecated", "bool"}, {"debug_redact", "bool"}}

// compactOptions emits `[ a = b , c = d ]`.
func (g *fgen) compactOptions(target string, std []stdOpt, nmin, nmax int, extra func(used map[string]bool) bool) {
	n := g.intn("ncompact", nmin, nmax)
	if n == 0 {
		return
	}
	g.facts.CompactOptions++
	mark := len(g.toks)
	defer func() {
		for i := mark; i < len(g.toks); i++ {
			if g.toks[i].s == "=" {
				g.toks[i].tag = "compact-eq"
			}
		}
	}()
	g.open("[")
	used := map[string]bool{}
	for i := 0; i < n; i++ {
		if i > 0 {
			g.p(",")
		}
		if extra != nil && i == 0 && extra(used) {
			continue
		}
		g.optionBody(target, std, used)
	}
	g.ind--
	g.p("]")
}

// ---- declarations ----------------------------------------------------------------------------

var scalarTypes = []string{"int32", "int64", "uint32", "uint64", "sint32", "sint64", "fixed32", "fixed64", "sfixed32", "sfixed64", "bool", "string", "bytes", "double", "float"}
var mapKeyTypes = []string{"int32", "int64", "uint32", "uint64", "sint32", "sint64", "fixed32", "fixed64", "sfixed32", "sfixed64", "bool", "string"}

type numAlloc struct {
	used   map[int]bool
	capped bool // a `reserved N to max` exists: only small numbers are free
}

type extTarget struct {
	fq   string
	nums []int // extension numbers that are inside the declared ranges and still free
}

func (g *fgen) fieldNum(a *numAlloc) int {
	if len(g.forceNums) > 0 {
		n := g.forceNums[0]
		g.forceNums = g.forceNums[1:]
		return n
	}
	for {
		var n int
		switch g.intn("numrange", 0, 9) {
		case 0:
			n = g.intn("bignum", 1000, 18999)
		case 1:
			n = g.intn("hugenum", 20000, 536870911)
		default:
			n = g.intn("num", 1, 60)
		}
		if a.capped && n >= 100 {
			n = g.intn("smallnum", 1, 99)
		}
		if n >= 100 && n <= 299 { // reserved for extension ranges / reserved statements
			continue
		}
		if !a.used[n] {
			a.used[n] = true
			return n
		}
	}
}

// fieldType emits a field type and returns (kind, typeName).
func (g *fgen) fieldType(first bool, allowMsg bool) (kind, name string) {
	k := g.intn("ftype", 0, 9)
	switch {
	case k >= 7 && allowMsg && len(g.msgs) > 0:
		m := g.msgs[g.intn("msgref", 0, len(g.msgs)-1)]
		g.typeRef(m, first)
		return "message", m
	case k == 6 && len(g.enums) > 0:
		e := g.enums[g.intn("enumref", 0, len(g.enums)-1)]
		g.typeRef(e, first)
		return "enum", e
	case k == 5 && g.wild:
		g.dotted(g.pick("unresolved", "Unknown", ".no.such.Type", "missing.Thing"), first)
		return "message", "?"
	}
	s := scalarTypes[g.intn("scalar", 0, len(scalarTypes)-1)]
	t := g.w(s)
	if first {
		t.bol, t.decl = true, true
	}
	return "scalar", s
}

// field emits one field in a message (inOneof / inExtend change the label rules).
func (g *fgen) field(a *numAlloc, where string) {
	label := ""
	switch where {
	case "oneof":
	case "extend":
		switch g.syntax {
		case "proto2", "":
			label = g.pick("xlabel", "optional", "optional", "repeated")
		case "proto3":
			label = g.pick("xlabel3", "", "optional", "repeated")
		default:
			label = g.pick("xlabele", "", "", "repeated")
		}
	default:
		switch g.syntax {
		case "proto2", "":
			label = g.pick("label2", "optional", "optional", "repeated", "required")
		case "proto3":
			label = g.pick("label3", "", "", "optional", "repeated")
		default:
			label = g.pick("labele", "", "", "repeated")
		}
	}
	first := true
	if label != "" {
		g.start(label)
		first = false
	}
	kind, typ := g.fieldType(first, true)
	name := g.fieldName()
	g.w(name)
	g.p("=")
	g.w(g.intLit(uint64(g.fieldNum(a))))
	if g.pct("fieldopts", 30) {
		g.compactOptions("fl", g.fieldStdOpts(kind, typ, label, where), 1, 3, func(used map[string]bool) bool {
			if (g.syntax == "proto2" || g.syntax == "") && label == "optional" && kind == "scalar" && where != "oneofX" && g.pct("default", 50) {
				used["default"] = true
				g.w("default")
				g.p("=")
				g.scalarValue(typ)
				return true
			}
			if (g.syntax == "proto2" || g.syntax == "") && label == "optional" && kind == "enum" && typ == g.qual("Kind") && g.pct("defaultenum", 50) {
				used["default"] = true
				g.w("default")
				g.p("=")
				g.w("KIND_B")
				return true
			}
			return false
		})
	}
	if where == "extend" {
		g.p(";")
	} else {
		g.end()
	}
}

func (g *fgen) fieldStdOpts(kind, typ, label, where string) []stdOpt {
	opts := []stdOpt{{"deprecated", "bool"}, {"json_name", "jsonname"}, {"debug_redact", "bool"}}
	if where == "extend" {
		opts = opts[:1] // json_name is not allowed on extensions
		opts = append(opts, stdOpt{"debug_redact", "bool"})
	}
	if kind == "scalar" && strings.Contains(typ, "64") {
		opts = append(opts, stdOpt{"jstype", "enum:JS_NORMAL,JS_STRING,JS_NUMBER"})
	}
	if kind == "scalar" && (typ == "string" || typ == "bytes") && g.syntax != "editions" {
		opts = append(opts, stdOpt{"ctype", "enum:STRING,CORD,STRING_PIECE"})
	}
	if label == "repeated" && kind != "message" && typ != "string" && typ != "bytes" && g.syntax != "editions" {
		opts = append(opts, stdOpt{"packed", "bool"})
	}
	if kind == "message" && where != "oneof" {
		opts = append(opts, stdOpt{"lazy", "bool"})
	}
	if g.syntax == "editions" && kind == "scalar" && typ == "string" {
		opts = append(opts, stdOpt{"features.utf8_validation", "enum:VERIFY,NONE"})
	}
	return opts
}

func (g *fgen) mapField(a *numAlloc) {
	g.facts.Maps++
	g.start("map")
	g.p("<")
	g.w(mapKeyTypes[g.intn("mapkey", 0, len(mapKeyTypes)-1)])
	g.p(",")
	g.fieldType(false, true)
	g.p(">")
	g.w(g.fieldName())
	g.p("=")
	g.w(g.intLit(uint64(g.fieldNum(a))))
	if g.pct("mapopts", 15) {
		g.compactOptions("fl", []stdOpt{{"deprecated", "bool"}}, 1, 1, nil)
	}
	g.end()
}

func (g *fgen) group(a *numAlloc, scope string, depth int, where string) {
	g.facts.Groups++
	name := g.upper()
	if where == "oneof" {
		g.start("group")
	} else {
		g.start(g.pick("glabel", "optional", "repeated", "required"))
		g.w("group")
	}
	g.w(name)
	g.p("=")
	g.w(g.intLit(uint64(g.fieldNum(a))))
	if g.pct("groupopts", 20) && !off("group-options") {
		g.compactOptions("fl", []stdOpt{{"deprecated", "bool"}}, 1, 1, nil)
	}
	g.messageBody(scope+"."+name, depth+1, true)
	if where == "message" {
		g.emptyStmts("aftergroup", 4)
	}
}

func (g *fgen) oneof(a *numAlloc, scope string, depth int) {
	g.facts.Oneofs++
	g.start("oneof")
	g.w(g.lower())
	g.open("{")
	if g.custom && g.pct("oneofopt", 20) {
		g.start("option")
		g.optionBody("o", nil, map[string]bool{})
		g.p(";")
	}
	n := g.intn("oneoffields", 1, 3)
	for i := 0; i < n; i++ {
		if (g.syntax == "proto2" || g.syntax == "") && g.pct("oneofgroup", 10) {
			g.group(a, scope, depth, "oneof")
			continue
		}
		// oneof fields: no label, single ';'
		kind, typ := g.fieldType(true, true)
		g.w(g.fieldName())
		g.p("=")
		g.w(g.intLit(uint64(g.fieldNum(a))))
		if g.pct("fieldopts", 20) {
			g.compactOptions("fl", g.fieldStdOpts(kind, typ, "", "oneof"), 1, 2, nil)
		}
		g.p(";")
	}
	g.close("}")
	g.emptyStmts("afteroneof", 4)
}

func (g *fgen) rangesList(label string, lo, hi int, allowMax bool, a *numAlloc) (covered []int) {
	negOK := label == "eres" && g.wild
	n := g.intn(label+"n", 1, 3)
	cur := lo
	for i := 0; i < n && cur < hi; i++ {
		if i > 0 {
			g.p(",")
		}
		start := cur + g.intn(label+"gap", 0, 5)
		if negOK && i == 0 && g.pct(label+"neg", 30) {
			g.p("-")
			g.w(g.intLit(uint64(g.intn(label+"negv", 1, 50))))
			if g.pct(label+"negto", 50) {
				g.w("to")
				g.w(g.intLit(uint64(start)))
			}
			cur = start + 1
			continue
		}
		g.w(g.intLit(uint64(start)))
		cur = start + 1
		covered = append(covered, start)
		if g.pct(label+"to", 50) {
			g.w("to")
			bigUsed := false
			if a != nil {
				for k := range a.used {
					if k >= start {
						bigUsed = true
					}
				}
			}
			if allowMax && i == n-1 && !bigUsed && g.pct(label+"max", 30) {
				g.w("max")
				cur = hi
				if a != nil {
					a.capped = true
				}
			} else {
				end := start + g.intn(label+"len", 0, 20)
				if end >= hi {
					end = hi - 1
				}
				if end < start {
					end = start
				}
				g.w(g.intLit(uint64(end)))
				cur = end + 1
				for k := start + 1; k <= end && len(covered) < 8; k++ {
					covered = append(covered, k)
				}
			}
		}
	}
	return covered
}

func (g *fgen) reservedNames() {
	n := g.intn("resnames", 1, 3)
	for i := 0; i < n; i++ {
		if i > 0 {
			g.p(",")
		}
		if g.syntax == "editions" {
			g.w(g.lower())
		} else {
			g.str(g.lower())
		}
	}
}

func (g *fgen) messageBody(fq string, depth int, isGroup bool) {
	g.open("{")
	g.emptyStmts("bodystart", 6)
	a := &numAlloc{used: map[int]bool{}}
	used := map[string]bool{}
	n := g.intn("members", 0, 6)
	hasExtRange, hasReservedRange := false, false
	for i := 0; i < n; i++ {
		switch k := g.intn("member", 0, 19); {
		case k <= 7:
			g.field(a, "message")
		case k == 8:
			g.mapField(a)
		case k == 9 && (g.syntax == "proto2" || g.syntax == ""):
			g.group(a, fq, depth, "message")
		case k == 10:
			g.oneof(a, fq, depth)
		case k == 11 && depth < 2:
			g.facts.Nested++
			g.message(fq, depth+1)
		case k == 12:
			g.enum(fq)
		case k == 13 && g.syntax != "proto3" && !hasExtRange:
			hasExtRange = true
			g.facts.ExtRanges++
			g.start("extensions")
			covered := g.rangesList("ext", 100, 200, false, nil)
			if g.pct("extopts", 30) {
				nmax := 1
				if g.custom {
					nmax = 2
				}
				g.compactOptions("x", []stdOpt{{"verification", "enum:UNVERIFIED"}}, 1, nmax, nil)
			}
			g.end()
			g.extendable = append(g.extendable, extTarget{fq: fq, nums: covered})
		case k == 14 && !hasReservedRange:
			hasReservedRange = true
			g.facts.Reserved++
			g.start("reserved")
			g.rangesList("res", 200, 300, true, a)
			g.end()
		case k == 15:
			g.facts.Reserved++
			g.start("reserved")
			g.reservedNames()
			g.end()
		case k == 16:
			g.optionStmt("m", msgStdOpts, used)
		case (k == 17 || k == 19) && g.syntax != "proto3" && hasExtRange && depth < 2:
			g.extend(len(g.extendable) - 1)
		case k == 18:
			g.emptyStmts("member", 100)
		default:
			g.field(a, "message")
		}
	}
	g.close("}")
}

func (g *fgen) message(scope string, depth int) {
	name := g.upper()
	fq := name
	if scope != "" {
		fq = scope + "." + name
	}
	g.msgs = append(g.msgs, fq)
	g.start("message")
	g.w(name)
	g.messageBody(fq, depth, false)
	g.emptyStmts("aftermsg", 5)
}

func (g *fgen) enum(scope string) {
	name := g.upper()
	fq := name
	if scope != "" {
		fq = scope + "." + name
	}
	g.start("enum")
	g.w(name)
	g.open("{")
	g.emptyStmts("bodystart", 6)
	used := map[string]bool{}
	alias := g.pct("alias", 15)
	if alias {
		g.start("option")
		g.w("allow_alias")
		g.p("=")
		g.w("true")
		g.end()
		used["allow_alias"] = true
	}
	prefix := strings.ToUpper(name) + "_"
	n := g.intn("values", 1, 5)
	nums := map[int]bool{}
	firstNum := 0
	for i := 0; i < n; i++ {
		num := 0
		if i > 0 {
			for {
				num = g.intn("valnum", -20, 60)
				if alias && i == 1 {
					num = firstNum
				}
				if !nums[num] || (alias && i == 1) {
					break
				}
			}
		} else if g.syntax == "proto2" && g.pct("nonzerofirst", 20) {
			num = g.intn("firstnum", 1, 9)
		}
		if i == 0 {
			firstNum = num
		}
		nums[num] = true
		vname := fmt.Sprintf("%sV%d", prefix, i)
		t := g.w(vname)
		t.bol, t.decl = true, true
		g.p("=")
		if num < 0 {
			g.p("-")
			g.w(g.intLit(uint64(-num)))
		} else {
			g.w(g.intLit(uint64(num)))
		}
		if g.pct("valopts", 20) {
			g.compactOptions("ev", valStdOpts, 1, 2, nil)
		}
		g.end()
		if g.pct("enumopt", 8) {
			g.optionStmt("e", enumStdOpts, used)
		}
	}
	if alias && n < 2 {
		// allow_alias without an alias does not link
		g.w(prefix + "ALIAS").bol = true
		g.p("=")
		g.w(fmt.Sprintf("%d", firstNum))
		g.p(";")
	}
	if g.pct("enumreserved", 20) {
		g.facts.Reserved++
		g.start("reserved")
		g.rangesList("eres", 100, 200, true, nil)
		g.end()
	}
	if g.pct("enumresnames", 15) {
		g.facts.Reserved++
		g.start("reserved")
		g.reservedNames()
		g.end()
	}
	g.close("}")
	g.emptyStmts("afterenum", 5)
	// a proto3 file may only use open enums; all enums of this file share its syntax, so they are usable
	if n > 0 {
		g.enums = append(g.enums, fq)
	}
}

// extend emits an extend block for g.extendable[idx] (a message of this file with an extension range).
func (g *fgen) extend(idx int) {
	tg := &g.extendable[idx]
	if len(tg.nums) == 0 {
		return
	}
	g.facts.Extends++
	g.start("extend")
	g.typeRef(tg.fq, false)
	g.open("{")
	a := &numAlloc{used: map[int]bool{}}
	n := g.intn("extfields", 1, 2)
	for i := 0; i < n && len(tg.nums) > 0; i++ {
		g.forceNums = []int{tg.nums[0]}
		tg.nums = tg.nums[1:]
		if (g.syntax == "proto2" || g.syntax == "") && g.pct("extgroup", 10) {
			g.facts.Groups++
			name := g.upper()
			g.start(g.pick("glabel", "optional", "repeated"))
			g.w("group")
			g.w(name)
			g.p("=")
			g.w(g.intLit(uint64(g.fieldNum(a))))
			g.messageBody(g.qual(name), 2, true)
			continue
		}
		g.field(a, "extend")
		g.forceNums = nil
	}
	g.close("}")
	g.emptyStmts("afterextend", 4)
}

func (g *fgen) service() {
	g.facts.Services++
	g.start("service")
	g.w(g.upper() + "Service")
	g.open("{")
	g.emptyStmts("bodystart", 6)
	used := map[string]bool{}
	n := g.intn("rpcs", 0, 3)
	for i := 0; i < n; i++ {
		if g.pct("svcopt", 15) {
			g.optionStmt("s", svcStdOpts, used)
		}
		g.start("rpc")
		g.w(g.upper())
		for side := 0; side < 2; side++ {
			g.p("(")
			if g.pct("stream", 25) {
				g.w("stream")
				g.facts.Streams++
			}
			if len(g.msgs) > 0 {
				g.typeRef(g.msgs[g.intn("rpcmsg", 0, len(g.msgs)-1)], false)
			} else {
				g.wildNote()
				g.dotted("Missing", false)
			}
			g.p(")")
			if side == 0 {
				g.w("returns")
			}
		}
		if g.pct("rpcbody", 45) {
			g.facts.RPCBodies++
			g.open("{")
			g.emptyStmts("bodystart", 8)
			ru := map[string]bool{}
			m := g.intn("rpcopts", 0, 2)
			for j := 0; j < m; j++ {
				g.optionStmt("r", rpcStdOpts, ru)
			}
			g.close("}")
			g.emptyStmts("afterrpc", 6)
		} else {
			g.end()
		}
	}
	g.close("}")
	g.emptyStmts("aftersvc", 5)
}

// prelude emits the custom option definitions.
func (g *fgen) prelude() {
	p2 := g.syntax == "proto2" || g.syntax == ""
	lbl := func() {
		if p2 {
			g.start("optional")
		}
	}
	fld := func(label, typ, name string, num int) {
		first := true
		if label != "" {
			g.start(label)
			first = false
		} else if p2 {
			g.start("optional")
			first = false
		}
		if typ == "Cfg" || typ == "Kind" {
			g.typeRef(g.qual(typ), first)
		} else if typ == "Any" {
			g.dotted(g.pick("anyref", "google.protobuf.Any", ".google.protobuf.Any"), first)
		} else {
			t := g.w(typ)
			if first {
				t.bol, t.decl = true, true
			}
		}
		g.w(name)
		g.p("=")
		g.w(fmt.Sprintf("%d", num))
		g.p(";")
	}
	_ = lbl
	g.start("enum")
	g.w("Kind")
	g.open("{")
	g.w("KIND_A").bol = true
	g.p("=")
	g.w("0")
	g.p(";")
	g.w("KIND_B").bol = true
	g.p("=")
	g.w("1")
	g.p(";")
	g.close("}")
	g.start("message")
	g.w("Cfg")
	g.open("{")
	for i, f := range cfgFields {
		label := ""
		if f.repeated {
			label = "repeated"
		}
		fld(label, f.typ, f.name, i+1)
	}
	if p2 {
		g.start("extensions")
		g.w("100")
		g.w("to")
		g.w("199")
		g.p(";")
	}
	g.close("}")
	if p2 {
		g.start("extend")
		g.typeRef(g.qual("Cfg"), false)
		g.open("{")
		fld("", "string", "cfg_ext", 100)
		g.close("}")
	}
	num := 50000
	for _, tg := range optTargets {
		g.start("extend")
		g.dotted(g.pick("gpref", "google.protobuf.", ".google.protobuf.")+tg.extendee, false)
		g.open("{")
		for _, o := range custOpts {
			num++
			label := ""
			if o.repeated {
				label = "repeated"
			}
			fld(label, o.typ, tg.short+"_"+o.suffix, num)
		}
		g.close("}")
	}
	g.enums = append(g.enums, g.qual("Kind"))
	g.msgs = append(g.msgs, g.qual("Cfg"))
}

var stdImportable = []struct{ path, msg string }{
	{"google/protobuf/timestamp.proto", "google.protobuf.Timestamp"},
	{"google/protobuf/duration.proto", "google.protobuf.Duration"},
	{"google/protobuf/any.proto", "google.protobuf.Any"},
	{"google/protobuf/empty.proto", "google.protobuf.Empty"},
	{"google/protobuf/wrappers.proto", "google.protobuf.StringValue"},
	{"google/protobuf/struct.proto", "google.protobuf.Struct"},
	{"google/protobuf/field_mask.proto", "google.protobuf.FieldMask"},
	{"dep/alpha.proto", "dep.Alpha"},
	{"dep/beta.proto", "dep.Beta"},
}

type importStmt struct {
	path     string
	modifier string
}

func (g *fgen) importStmt(im importStmt) {
	g.start("import")
	if im.modifier != "" {
		g.w(im.modifier)
	}
	g.str(im.path)
	g.end()
}

// genFile draws one file.
func genFile(t *rapid.T) (string, Facts) {
	g := &fgen{t: t, imported: map[string]bool{}}
	g.syntax = g.pick("syntax", "proto2", "proto3", "editions", "proto3", "proto2", "editions", "")
	g.facts.Syntax = g.syntax
	g.wild = g.pct("wild", 25)
	g.custom = g.pct("custom", 45)
	g.litFocus = g.pct("litfocus", 15)
	if g.litFocus {
		g.custom = true
	}
	g.allowEmptyCmt = g.pct("emptycmt", 10)
	g.crlf = g.pct("crlf", 5)
	g.mixedEOL = !g.crlf && g.pct("mixedeol", 3)
	g.crlfBlankOK = g.pct("crlfblankok", 20)
	// trigger shapes of open findings are generated in a small share of the files (the rest is counted
	// under excluded_by_construction) so that the search sees what lies behind them
	g.glueOK = g.pct("glueok", 4) && !off("glue")
	g.nameCmtOK = g.pct("namecmtok", 5) && !off("compact-name-trailing")
	g.sepCmtOK = g.pct("sepcmtok", 5) && !off("msglit-sep")
	g.mixSpelling = g.pct("mixspelling", 5) && !off("reorder")
	g.fileOptStyle = g.intn("fileoptstyle", 0, 3)
	g.blockEndOK = g.pct("blockend", 3) && !off("line-comment-block-end")
	g.noisy = g.pick2("noisy", 5, 15, 30, 60)
	switch g.intn("pkgform", 0, 4) {
	case 0:
		g.pkg = ""
	case 1:
		g.pkg = "acme"
	default:
		g.pkg = g.pick("pkg", "acme.v1", "a.b.c", "test.pkg.v1beta1")
	}

	// ---- header statements
	type stmt func()
	var header []stmt
	var body []stmt

	if g.pkg != "" {
		header = append(header, func() {
			g.start("package")
			g.dotted(g.pkg, false)
			g.end()
		})
	}
	// imports
	var imps []importStmt
	if g.custom {
		imps = append(imps, importStmt{path: "google/protobuf/descriptor.proto"}, importStmt{path: "google/protobuf/any.proto"})
		g.imported["google/protobuf/any.proto"] = true
	}
	nImp := g.intn("imports", 0, 4)
	for i := 0; i < nImp; i++ {
		s := stdImportable[g.intn("imp", 0, len(stdImportable)-1)]
		if g.imported[s.path] {
			continue
		}
		g.imported[s.path] = true
		mod := g.pick("impmod", "", "", "", "public", "weak")
		imps = append(imps, importStmt{path: s.path, modifier: mod})
		if mod != "weak" {
			g.msgs = append(g.msgs, s.msg)
		}
	}
	if g.wild && g.pct("missingimport", 30) {
		imps = append(imps, importStmt{path: g.pick("nopath", "nope.proto", "a/b/missing.proto", "zzz.proto")})
	}
	if len(imps) > 0 && g.pct("dupimport", 12) && !off("dup-import") {
		// duplicate import (such a file does not compile)
		d := imps[g.intn("dupwhich", 0, len(imps)-1)]
		if g.pct("dupmod", 30) {
			d.modifier = g.pick("dupmodv", "", "public", "weak")
		}
		imps = append(imps, d)
		g.facts.DupImports++
		g.wild = true
	}
	if len(imps) > 1 {
		imps = rapid.Permutation(imps).Draw(t, "impperm")
	}
	for _, im := range imps {
		im := im
		header = append(header, func() { g.importStmt(im) })
	}
	// file options
	nOpt := 0
	switch g.intn("optclass", 0, 9) {
	case 0, 1, 2:
		nOpt = 0
	case 3, 4, 5, 6:
		nOpt = g.intn("nopt", 1, 4)
	case 7, 8:
		nOpt = g.intn("nopt", 5, 12)
	default:
		nOpt = g.intn("nopt", 13, 22)
	}
	if g.litFocus {
		for i, k := 0, g.intn("litopts", 2, 4); i < k; i++ {
			header = append(header, func() {
				g.facts.FileOptions++
				g.start("option")
				g.customOptionNamed("f", custOpts[7]) // repeated Cfg: any number of message literals
				g.end()
			})
		}
	}
	usedFileOpts := map[string]bool{}
	for i := 0; i < nOpt; i++ {
		header = append(header, func() {
			g.facts.FileOptions++
			g.start("option")
			if g.custom && g.pct("repfileopt", 35) && !off("reorder") {
				// repeated custom option: order of values is meaning
				g.facts.RepeatedFileOpt++
				o := custOpts[g.pick2("repwhich", 1, 2, 7)]
				g.customOptionNamed("f", o)
			} else {
				g.optionBody("f", fileStdOpts, usedFileOpts)
			}
			g.end()
		})
	}
	if g.wild && nOpt > 0 && g.pct("dupfileopt", 30) && !off("reorder") {
		header = append(header, func() {
			g.facts.FileOptions++
			g.start("option")
			g.w("java_package")
			g.p("=")
			g.str("dup.pkg")
			g.end()
		})
		header = append(header, func() {
			g.facts.FileOptions++
			g.start("option")
			g.w("java_package")
			g.p("=")
			g.str("dup.pkg2")
			g.end()
		})
	}

	// ---- body declarations
	if g.custom {
		g.facts.CustomPrelude = true
		body = append(body, g.prelude)
	}
	nDecl := g.intn("decls", 0, 5)
	hasReal := len(header) > 0 || g.custom
	for i := 0; i < nDecl; i++ {
		k := g.intn("decl", 0, 9)
		if k != 8 {
			hasReal = true
		}
		switch {
		case k <= 4:
			body = append(body, func() { g.message(g.pkg, 0) })
		case k <= 6:
			body = append(body, func() { g.enum(g.pkg) })
		case k == 7:
			body = append(body, g.service)
		case k == 8:
			body = append(body, func() {
				if hasReal { // a file of nothing but ';' does not parse
					g.emptyStmts("filelevel", 100)
				}
			})
		default:
			body = append(body, func() {
				if len(g.extendable) > 0 && g.syntax != "proto3" {
					g.extend(g.intn("extwhich", 0, len(g.extendable)-1))
					return
				}
				g.message(g.pkg, 0)
			})
		}
	}

	// ---- emit
	switch g.syntax {
	case "proto2", "proto3":
		g.start("syntax")
		g.p("=")
		g.str(g.syntax)
		g.p(";")
	case "editions":
		g.start("edition")
		g.p("=")
		g.str("2023")
		g.p(";")
	}
	if hasReal {
		g.emptyStmts("aftersyntax", 6)
	}
	if !g.pct("sortedheader", 60) && len(header) > 1 {
		header = rapid.Permutation(header).Draw(t, "hdrperm")
	}
	if g.pct("interleave", 12) && len(header) > 0 && len(body) > 0 {
		// header statements between declarations (the prelude stays first: it defines the options... which
		// may legally be used before their definition, so any order links)
		g.facts.InterleavedHdr = true
		all := append(append([]stmt{}, header...), body...)
		all = rapid.Permutation(all).Draw(t, "allperm")
		for _, s := range all {
			s()
		}
	} else {
		for _, s := range header {
			s()
		}
		for _, s := range body {
			s()
		}
	}
	g.facts.Wild = g.wild
	g.facts.CRLF = g.crlf || g.mixedEOL
	g.facts.EmptyStmtCmts = g.allowEmptyCmt
	g.facts.Tokens = len(g.toks)
	src := g.render()
	return src, g.facts
}

func (g *fgen) pick2(label string, xs ...int) int { return xs[g.intn(label, 0, len(xs)-1)] }

// ---- noise layer ---------------------------------------------------------------------------

func (g *fgen) nl() string {
	if g.crlf || (g.mixedEOL && g.pct("eolcr", 40)) {
		return "\r\n"
	}
	return "\n"
}

var commentWords = []string{"note", "TODO: fix", "héllo ✓", "a  b", "see https://example.com/x?y=1", "x;y", "{", "}", "[deprecated = true]", "\"quoted\"", "end.", "日本"}

func (g *fgen) cid() string {
	g.cseq++
	return fmt.Sprintf("c%d", g.cseq)
}

// lineComment returns a `//` comment without the line break.
func (g *fgen) lineComment() string {
	id := g.cid()
	if g.blockEndOK && g.pct("lcblockend", 25) {
		return "// " + id + " see **/*.proto"
	}
	switch g.intn("lcform", 0, 9) {
	case 0:
		return "//" + id
	case 1:
		return "/// " + id + " doc"
	case 2:
		return "// " + id + "   " + commentWords[g.intn("cw", 0, len(commentWords)-1)] + "  \t"
	case 3:
		return "//\t" + id
	case 4:
		return "//* " + id
	case 5:
		return "// " + id + " /* inner"
	case 6:
		return "//! " + id + " // again"
	default:
		return "// " + id + " " + commentWords[g.intn("cw", 0, len(commentWords)-1)]
	}
}

// blockComment returns a `/* */` comment; multi may contain line breaks.
func (g *fgen) blockComment(multi bool, indent string) string {
	id := g.cid()
	if !multi {
		switch g.intn("bcform", 0, 7) {
		case 0:
			return "/*" + id + "*/"
		case 1:
			return "/** " + id + " */"
		case 2:
			return "/* " + id + " **/"
		case 3:
			return "/* " + id + " // not a line comment */"
		case 4:
			return "/*  " + id + "\t" + commentWords[g.intn("cw", 0, len(commentWords)-1)] + " */"
		default:
			return "/* " + id + " " + commentWords[g.intn("cw", 0, len(commentWords)-1)] + " */"
		}
	}
	nl := g.nl()
	switch g.intn("mbcform", 0, 6) {
	case 0:
		return "/*" + nl + indent + " * " + id + nl + indent + " * second" + nl + indent + " */"
	case 1:
		return "/* " + id + nl + indent + "   continued */"
	case 2:
		return "/*" + nl + indent + "  " + id + nl + indent + "      indented more" + nl + indent + "  back" + nl + indent + "*/"
	case 3:
		return "/**" + nl + indent + " * " + id + nl + indent + " *" + nl + indent + " * para" + nl + indent + " **/"
	case 4:
		return "/*" + nl + "\t" + id + nl + "\t\ttabbed" + nl + "*/"
	case 5:
		if strings.Contains(nl, "\r") && !g.crlfBlankOK {
			// CRLF + a blank line inside a block comment: trigger of not-idempotent:whitespace:crlf-block-comment
			excluded("not-idempotent:whitespace:crlf-block-comment")
			return "/* " + id + nl + indent + "   no blank */"
		}
		return "/* " + id + nl + nl + indent + "after blank */"
	default:
		return "/*" + nl + indent + " | " + id + nl + indent + " | piped" + nl + indent + " */"
	}
}

func (g *fgen) blanks() string {
	switch g.intn("blank", 0, 5) {
	case 0:
		return ""
	case 1:
		return "  "
	case 2:
		return "\t"
	default:
		return " "
	}
}

// render writes the token list with noise.
func (g *fgen) render() string {
	var b strings.Builder
	lastLineComment := false
	write := func(s string) {
		b.WriteString(s)
	}
	n := len(g.toks)
	for i := 0; i <= n; i++ {
		var prev, cur *tk
		if i > 0 {
			prev = &g.toks[i-1]
		}
		if i < n {
			cur = &g.toks[i]
		}
		gap := g.gap(prev, cur)
		// safety: a gap that starts with a comment directly after '/' would lex differently
		if prev != nil && prev.s == "/" && strings.HasPrefix(gap, "/") {
			gap = " " + gap
		}
		write(gap)
		_ = lastLineComment
		if cur != nil {
			write(cur.s)
		}
	}
	return b.String()
}

func needSpace(prev, cur *tk) bool {
	if prev == nil || cur == nil {
		return false
	}
	if prev.k == kWord && cur.k == kWord {
		return true
	}
	// a number followed by '.' or a '.' followed by a digit would lex as one float
	if prev.k == kWord && cur.s == "." && len(prev.s) > 0 && prev.s[0] >= '0' && prev.s[0] <= '9' {
		return true
	}
	if prev.s == "." && cur.k == kWord && cur.s[0] >= '0' && cur.s[0] <= '9' {
		return true
	}
	if prev.s == "-" && cur.k == kWord {
		return false
	}
	// number directly followed by a quote or an identifier directly followed by a string are fine, but keep
	// numbers apart from strings for readability of shrunk cases
	if prev.k == kWord && cur.k == kStr {
		return true
	}
	return false
}

// canonical returns the plain layout gap.
func (g *fgen) canonical(prev, cur *tk) string {
	if prev == nil {
		return ""
	}
	if cur == nil {
		return g.nl()
	}
	if cur.bol {
		return g.nl() + strings.Repeat("  ", cur.in)
	}
	if needSpace(prev, cur) {
		return " "
	}
	switch cur.s {
	case ";", ",", ")", ".", ">":
		return ""
	}
	switch prev.s {
	case "(", ".", "<", "-":
		return ""
	}
	if prev.s == "/" || cur.s == "/" {
		return ""
	}
	return " "
}

// gap draws the text between prev and cur (either may be nil: start / end of file).
func (g *fgen) gap(prev, cur *tk) string {
	nextToEmpty := (prev != nil && prev.empty) || (cur != nil && cur.empty)
	rate := g.noisy
	if rate < 35 && ((prev != nil && prev.lit) || (cur != nil && cur.lit)) {
		rate = 35 // option values are where most of the formatter's comment shuffling happens
	}
	if !g.pct("gapnoise", rate) {
		return g.canonical(prev, cur)
	}
	if prev == nil && off("leading-blank") {
		return ""
	}
	if !g.nameCmtOK && cur != nil && cur.tag == "compact-eq" {
		if g.intn("gapkindpeek", 0, 11) >= 4 {
			excluded("comment-duplicated:compact-option-name")
		}
		return " "
	}
	// known triggers only: any comment in front of a separator, and a comment behind a separator that follows
	// a composite scalar value (-1, "a" "b"); behind a separator after a plain value or a literal comments are free
	if !g.sepCmtOK && ((cur != nil && strings.HasPrefix(cur.tag, "lit-sep")) || (prev != nil && prev.tag == "lit-sep-c")) {
		if g.intn("gapkindpeek", 0, 11) >= 4 {
			excluded("comment-lost:message-literal-separator")
		}
		return " "
	}
	indent := ""
	if cur != nil {
		indent = strings.Repeat("  ", cur.in)
	}
	nl := g.nl()
	kind := g.intn("gapkind", 0, 11)
	commentsOK := true
	if nextToEmpty && !g.allowEmptyCmt {
		commentsOK = false
		if kind >= 4 {
			evidExcluded()
			kind = g.intn("gapkindws", 0, 3)
		}
	}
	_ = commentsOK
	must := ""
	if needSpace(prev, cur) {
		must = " "
	}
	switch kind {
	case 0: // minimal
		return must
	case 1: // blanks
		if must != "" || g.pct("blankany", 70) {
			return must + g.blanks()
		}
		return ""
	case 2: // line break(s)
		if prev == nil {
			return strings.Repeat(nl, g.intn("nls", 1, 3))
		}
		return strings.Repeat(nl, g.intn("nls", 1, 3)) + g.pick("indentstyle", indent, "", "\t", indent+"  ")
	case 3: // trailing blanks then line break
		return g.blanks() + nl + indent
	case 4: // own-line comments above cur
		var s strings.Builder
		if prev != nil {
			s.WriteString(nl)
			if g.pct("blankbefore", 30) {
				s.WriteString(nl)
			}
		}
		k := g.intn("ncomments", 1, 3)
		for j := 0; j < k; j++ {
			s.WriteString(indent)
			if g.pct("ownblock", 35) {
				s.WriteString(g.blockComment(g.pct("multi", 50), indent))
			} else {
				s.WriteString(g.lineComment())
			}
			s.WriteString(nl)
			if j < k-1 && g.pct("detached", 25) {
				s.WriteString(nl)
				g.facts.DetachedBlocks++
			}
			if cur != nil && cur.decl && prev != nil && (prev.s == ";" || prev.s == "}" || prev.s == "{") {
				g.facts.PlainComments++
			} else {
				g.facts.OddComments++
			}
		}
		if g.pct("blankafter", 20) {
			s.WriteString(nl)
			g.facts.DetachedBlocks++
		}
		s.WriteString(indent)
		return s.String()
	case 5: // end-of-line comment after prev
		if prev == nil {
			return g.canonical(prev, cur)
		}
		c := g.lineComment()
		if g.pct("eolblock", 25) {
			c = g.blockComment(false, indent)
		}
		if prev.s == ";" && !prev.empty {
			g.facts.PlainComments++
		} else {
			g.facts.OddComments++
		}
		sp := g.pick("eolsp", " ", "", "  ", "\t")
		sp = g.noGlue(sp)
		return sp + c + nl + indent
	case 6: // inline block comment
		g.facts.OddComments++
		sp := g.pick("insp", " ", "", must)
		sp = g.noGlue(sp)
		return sp + g.blockComment(false, indent) + g.noGlue(g.pick("insp2", " ", "", " "))
	case 7: // inline multi-line block comment
		g.facts.OddComments++
		return " " + g.blockComment(true, indent) + g.noGlue(g.pick("aftermulti", " ", nl+indent, ""))
	case 8: // line comment in the middle of a statement
		g.facts.OddComments++
		return " " + g.lineComment() + nl + indent + g.pick("cont", "", "  ", "    ")
	case 9: // several comments of mixed kinds
		var s strings.Builder
		sp := g.pick("mixsp", " ", "", nl+indent)
		sp = g.noGlue(sp)
		s.WriteString(sp)
		k := g.intn("nmixed", 2, 4)
		for j := 0; j < k; j++ {
			g.facts.OddComments++
			switch g.intn("mixkind", 0, 2) {
			case 0:
				s.WriteString(g.lineComment() + nl + indent)
			case 1:
				after := g.pick("mixafter", " ", "", nl+indent, nl+nl+indent)
				after = g.noGlue(after)
				s.WriteString(g.blockComment(false, indent) + after)
			default:
				s.WriteString(g.blockComment(true, indent) + g.pick("mixafter", " ", nl+indent, nl+nl+indent))
			}
		}
		return s.String()
	case 10: // comment then blank line (detached) then cur
		g.facts.OddComments++
		g.facts.DetachedBlocks++
		lead := nl
		if prev == nil {
			lead = ""
		}
		return lead + indent + g.lineComment() + nl + nl + indent
	default: // blank line
		if prev == nil {
			return nl + nl
		}
		return nl + nl + indent
	}
}
