package c07

// Oracle of C07.  F = bufformat.FormatFileNode ∘ parser.Parse.
//
//  1. F(x) succeeds and parses;
//  2. meaning: descriptors of x and F(x) are equal modulo source info and import order
//     (linked descriptors if x links, parser.ResultFromAST descriptors otherwise);
//  3. comments: multiset of normalised comment texts, then multiset of (text, owner);
//  4. idempotence: F(F(x)) == F(x).
//
// Nothing here looks at how the formatter works: the descriptors come from protocompile, the
// comments from the protocompile AST of input and output, the owner of a comment is computed by
// the same function on both ASTs.

import (
	"bytes"
	"context"
	"fmt"
	"math"
	"regexp"
	"sort"
	"strconv"
	"strings"

	"github.com/bufbuild/buf/private/buf/bufformat"
	"github.com/bufbuild/protocompile"
	"github.com/bufbuild/protocompile/ast"
	"github.com/bufbuild/protocompile/linker"
	"github.com/bufbuild/protocompile/parser"
	"github.com/bufbuild/protocompile/reporter"
	"google.golang.org/protobuf/encoding/protowire"
	"google.golang.org/protobuf/proto"
	"google.golang.org/protobuf/reflect/protoreflect"
	"google.golang.org/protobuf/types/descriptorpb"
)

// Case is the replayable unit: one source text (+ the files it may import).
type Case struct {
	Path    string            `json:"path"`
	Source  string            `json:"source"`
	Imports map[string]string `json:"imports,omitempty"` // other files the resolver serves (besides the standard imports)
	Origin  string            `json:"origin,omitempty"`  // which generator produced it
}

// Verdict is what the oracle found.
type Verdict struct {
	Key string // "" = property holds on this case
	Msg string
	// facts about the case (for classes / non-triviality), filled even when the property holds
	Linked        bool
	UnlinkedOK    bool
	NComments     int
	HarnessErr    string // the input is outside the domain (does not parse): generator bug
	Formatted     string
	EmptyStmtCmts bool // input has an empty statement carrying comments
}

const keyKnownEmpty = "comment-on-empty-statement"

func parseSrc(path, src string) (n *ast.FileNode, err error) {
	defer func() {
		// the parser panics on some malformed inputs (only reached by the minimiser's candidates)
		if r := recover(); r != nil {
			n, err = nil, fmt.Errorf("parser panic: %v", r)
		}
	}()
	return parser.Parse(path, strings.NewReader(src), reporter.NewHandler(nil))
}

func formatNode(n *ast.FileNode) (out string, err error) {
	defer func() {
		if r := recover(); r != nil {
			err = fmt.Errorf("panic: %v", r)
		}
	}()
	var b bytes.Buffer
	if err := bufformat.FormatFileNode(&b, n); err != nil {
		return b.String(), err
	}
	return b.String(), nil
}

// ---------------------------------------------------------------------------------------------
// descriptors

func compileLinked(c *Case, src string) (*descriptorpb.FileDescriptorProto, error) {
	files := map[string]string{}
	for p, t := range c.Imports {
		files[p] = t
	}
	files[c.Path] = src
	comp := protocompile.Compiler{
		Resolver: protocompile.WithStandardImports(&protocompile.SourceResolver{
			Accessor: protocompile.SourceAccessorFromMap(files),
		}),
		Reporter: reporter.NewReporter(func(err reporter.ErrorWithPos) error { return err }, nil),
	}
	res, err := comp.Compile(context.Background(), c.Path)
	if err != nil {
		return nil, err
	}
	lr, ok := res[0].(linker.Result)
	if !ok {
		return nil, fmt.Errorf("harness: compile result is not a linker.Result")
	}
	return proto.Clone(lr.FileDescriptorProto()).(*descriptorpb.FileDescriptorProto), nil
}

// unlinked builds the parser-level descriptor (no validation: files with duplicate imports are in
// the domain) and replaces every aggregate_value by a canonical rendering of the message literal
// taken from the AST (bracket style, optional separators and optional ':' are not meaning).
func unlinked(n *ast.FileNode) (fd *descriptorpb.FileDescriptorProto, err error) {
	defer func() {
		if r := recover(); r != nil {
			err = fmt.Errorf("panic in ResultFromAST: %v", r)
		}
	}()
	res, err := parser.ResultFromAST(n, false, reporter.NewHandler(nil))
	if err != nil {
		return nil, err
	}
	fd = res.FileDescriptorProto()
	walkUninterpreted(fd.ProtoReflect(), func(uo *descriptorpb.UninterpretedOption) {
		if uo.AggregateValue == nil {
			return
		}
		if on, ok := res.OptionNode(uo).(*ast.OptionNode); ok && on != nil && on.Val != nil {
			uo.AggregateValue = proto.String(canonValue(on.Val))
		}
	})
	return proto.Clone(fd).(*descriptorpb.FileDescriptorProto), nil
}

func walkUninterpreted(m protoreflect.Message, fn func(*descriptorpb.UninterpretedOption)) {
	if uo, ok := m.Interface().(*descriptorpb.UninterpretedOption); ok {
		fn(uo)
		return
	}
	m.Range(func(fd protoreflect.FieldDescriptor, v protoreflect.Value) bool {
		if fd.Message() == nil || fd.IsMap() {
			return true
		}
		if fd.IsList() {
			l := v.List()
			for i := 0; i < l.Len(); i++ {
				walkUninterpreted(l.Get(i).Message(), fn)
			}
			return true
		}
		walkUninterpreted(v.Message(), fn)
		return true
	})
}

// canonValue renders an option value structurally.
func canonValue(v ast.ValueNode) string {
	var b strings.Builder
	canonValueTo(&b, v)
	return b.String()
}

func canonValueTo(b *strings.Builder, v ast.ValueNode) {
	switch n := v.(type) {
	case *ast.MessageLiteralNode:
		b.WriteString("{")
		for _, el := range n.Elements {
			b.WriteString(canonFieldRef(el.Name))
			b.WriteString("=")
			canonValueTo(b, el.Val)
			b.WriteString(";")
		}
		b.WriteString("}")
	case *ast.ArrayLiteralNode:
		b.WriteString("[")
		for _, el := range n.Elements {
			canonValueTo(b, el)
			b.WriteString(",")
		}
		b.WriteString("]")
	default:
		switch x := v.Value().(type) {
		case string:
			b.WriteString("S" + strconv.Quote(x))
		case uint64:
			fmt.Fprintf(b, "U%d", x)
		case int64:
			fmt.Fprintf(b, "I%d", x)
		case float64:
			if math.IsNaN(x) {
				b.WriteString("Fnan")
			} else {
				fmt.Fprintf(b, "F%x", math.Float64bits(x))
			}
		case ast.Identifier:
			b.WriteString("ID" + string(x))
		case bool:
			fmt.Fprintf(b, "B%v", x)
		default:
			fmt.Fprintf(b, "?%T", x)
		}
	}
}

func canonFieldRef(r *ast.FieldReferenceNode) string {
	var s string
	if r.Open != nil {
		s = "["
	}
	if r.URLPrefix != nil {
		s += string(r.URLPrefix.AsIdentifier()) + "/"
	}
	s += string(r.Name.AsIdentifier())
	if r.Close != nil {
		s += "]"
	}
	return s
}

func optName(uo *descriptorpb.UninterpretedOption) string {
	var parts []string
	for _, p := range uo.Name {
		if p.GetIsExtension() {
			parts = append(parts, "("+p.GetNamePart()+")")
		} else {
			parts = append(parts, p.GetNamePart())
		}
	}
	return strings.Join(parts, ".")
}

// canonDeps canonicalises the dependency list: sorted by path with the public/weak indices
// remapped.  A path that the ORIGINAL imports more than once (such a file does not compile; the
// formatter's golden tests document that duplicates are collapsed onto the plain import) keeps
// only its path: the modifier of a duplicated import is not compared.
func canonDeps(fd *descriptorpb.FileDescriptorProto, dupInOriginal map[string]bool) {
	type dep struct {
		path         string
		public, weak bool
	}
	pub, weak := map[int32]bool{}, map[int32]bool{}
	for _, i := range fd.PublicDependency {
		pub[i] = true
	}
	for _, i := range fd.WeakDependency {
		weak[i] = true
	}
	seen := map[dep]bool{}
	var deps []dep
	for i, p := range fd.Dependency {
		d := dep{path: p, public: pub[int32(i)], weak: weak[int32(i)]}
		if dupInOriginal[p] {
			d.public, d.weak = false, false
		}
		if seen[d] {
			continue
		}
		seen[d] = true
		deps = append(deps, d)
	}
	sort.Slice(deps, func(i, j int) bool {
		if deps[i].path != deps[j].path {
			return deps[i].path < deps[j].path
		}
		if deps[i].public != deps[j].public {
			return deps[i].public
		}
		return deps[i].weak && !deps[j].weak
	})
	fd.Dependency, fd.PublicDependency, fd.WeakDependency = nil, nil, nil
	for i, d := range deps {
		fd.Dependency = append(fd.Dependency, d.path)
		if d.public {
			fd.PublicDependency = append(fd.PublicDependency, int32(i))
		}
		if d.weak {
			fd.WeakDependency = append(fd.WeakDependency, int32(i))
		}
	}
}

func dupImports(n *ast.FileNode) map[string]bool {
	cnt := map[string]int{}
	for _, d := range n.Decls {
		if imp, ok := d.(*ast.ImportNode); ok {
			cnt[imp.Name.AsString()]++
		}
	}
	out := map[string]bool{}
	for p, c := range cnt {
		if c > 1 {
			out[p] = true
		}
	}
	return out
}

// stableSortFileOptions orders the file-level uninterpreted options by name keeping the relative
// order of options with the same name (the formatter documents sorting file options).
func stableSortFileOptions(fd *descriptorpb.FileDescriptorProto) {
	if fd.Options == nil {
		return
	}
	uo := fd.Options.UninterpretedOption
	sort.SliceStable(uo, func(i, j int) bool { return optName(uo[i]) < optName(uo[j]) })
}

// fileOptionMultiset renders the file options as a sorted multiset (order-insensitive).
func fileOptionMultiset(fd *descriptorpb.FileDescriptorProto) string {
	var ss []string
	for _, uo := range fd.GetOptions().GetUninterpretedOption() {
		b, _ := proto.MarshalOptions{Deterministic: true}.Marshal(uo)
		ss = append(ss, optName(uo)+"="+string(b))
	}
	sort.Strings(ss)
	return strings.Join(ss, "\x00")
}

// compareUnlinked returns "" (equal), "reordered" (equal except for the order of same-named file
// options) or a description of the difference.
func compareUnlinked(a, b *descriptorpb.FileDescriptorProto, dup map[string]bool) string {
	a, b = proto.Clone(a).(*descriptorpb.FileDescriptorProto), proto.Clone(b).(*descriptorpb.FileDescriptorProto)
	for _, fd := range []*descriptorpb.FileDescriptorProto{a, b} {
		fd.SourceCodeInfo = nil
		canonDeps(fd, dup)
		stableSortFileOptions(fd)
	}
	if proto.Equal(a, b) {
		return ""
	}
	ma, mb := fileOptionMultiset(a), fileOptionMultiset(b)
	if ma == mb {
		a.Options, b.Options = nil, nil
		if proto.Equal(a, b) {
			return "reordered"
		}
	}
	return firstDiff(a, b)
}

func firstDiff(a, b *descriptorpb.FileDescriptorProto) string {
	sa, sb := prototextish(a), prototextish(b)
	la, lb := strings.Split(sa, "\n"), strings.Split(sb, "\n")
	for i := 0; i < len(la) || i < len(lb); i++ {
		var x, y string
		if i < len(la) {
			x = la[i]
		}
		if i < len(lb) {
			y = lb[i]
		}
		if x != y {
			return fmt.Sprintf("descriptor line %d: original %q, formatted %q", i+1, strings.TrimSpace(x), strings.TrimSpace(y))
		}
	}
	return "descriptors differ (binary only)"
}

// ---------------------------------------------------------------------------------------------
// comments

type cmt struct {
	Text    string // normalised
	Raw     string
	Owner   string // innermost named declaration
	Braced  string // innermost braced declaration
	OnEmpty bool   // attached to a token of an ast.EmptyDeclNode
	Leading bool
	Role    string // syntactic role of the token the comment is attached to (classifier only)
}

func (c cmt) where() string {
	if c.Leading {
		return c.Role + ":leading"
	}
	return c.Role + ":trailing"
}

// tokenRoles maps every token to "<grandparent>><parent>.<token kind>" (used only to classify
// falsifications by trigger, never to decide them).
func tokenRoles(f *ast.FileNode) map[ast.Token]string {
	roles := map[ast.Token]string{}
	// separators of message literals whose trailing comment the formatter is known to drop: the value in
	// front of them is a composite scalar (-1, -inf, "a" "b") or already carries a trailing comment.  After
	// any other value (a plain scalar, a {...} / <...> / [...] literal) the comment is kept on the unchanged tree.
	knownSep := map[ast.Token]bool{}
	var findSeps func(n ast.Node)
	findSeps = func(n ast.Node) {
		if ml, ok := n.(*ast.MessageLiteralNode); ok {
			for i, sep := range ml.Seps {
				if sep == nil || i >= len(ml.Elements) {
					continue
				}
				val := ml.Elements[i].Val
				switch val.(type) {
				case *ast.NegativeIntLiteralNode, *ast.SignedFloatLiteralNode, *ast.CompoundStringLiteralNode:
					knownSep[sep.Token()] = true
				}
				if f.NodeInfo(val).TrailingComments().Len() > 0 {
					knownSep[sep.Token()] = true
				}
			}
		}
		if cn, ok := n.(ast.CompositeNode); ok {
			for _, ch := range cn.Children() {
				findSeps(ch)
			}
		}
	}
	findSeps(f)
	short := func(n ast.Node) string {
		s := fmt.Sprintf("%T", n)
		s = strings.TrimPrefix(s, "*ast.")
		s = strings.TrimPrefix(s, "ast.")
		return strings.TrimSuffix(s, "Node")
	}
	var rec func(n ast.Node, parent, grand string, compact bool)
	rec = func(n ast.Node, parent, grand string, compact bool) {
		if cn, ok := n.(ast.CompositeNode); ok {
			name := short(n)
			if on, ok := n.(*ast.OptionNode); ok && on.Keyword == nil {
				name = "CompactOption"
				compact = true
			}
			for _, ch := range cn.Children() {
				rec(ch, name, parent, compact)
			}
			return
		}
		kind := "tok"
		switch t := n.(type) {
		case *ast.RuneNode:
			kind = string(t.Rune)
			if (t.Rune == ',' || t.Rune == ';') && parent == "MessageLiteral" {
				kind = "sep"
				if !knownSep[t.Token()] {
					kind = "sep-after-plain-value"
				}
			}
			if t.Rune == 0 {
				kind = "EOF"
			}
		case *ast.KeywordNode:
			kind = "keyword"
		case *ast.IdentNode:
			kind = "ident"
		case *ast.StringLiteralNode:
			kind = "string"
		case *ast.UintLiteralNode, *ast.FloatLiteralNode:
			kind = "number"
		case *ast.SpecialFloatLiteralNode:
			kind = "keyword"
		}
		r := parent + "." + kind
		switch parent {
		case "FieldReference", "CompoundIdent", "CompoundStringLiteral", "NegativeIntLiteral", "SignedFloatLiteral", "Range", "OptionName", "MessageField", "RPCType", "MapType", "CompactOptions", "ArrayLiteral", "MessageLiteral":
			r = grand + ">" + r
		}
		if compact {
			r = "compact/" + r
		}
		if tn, ok := n.(ast.TerminalNode); ok {
			roles[tn.Token()] = r
		}
	}
	rec(f, "", "", false)
	return roles
}

// normComment strips the comment delimiters and treats every run of whitespace and '*' as one
// space: the formatter re-indents block comments, aligns their '*' gutter, and rewrites a comment
// that ends up in the middle of a line as a one-line block comment.
func normComment(raw string) string {
	s := raw
	if strings.HasPrefix(s, "//") {
		s = s[2:]
	} else {
		s = strings.TrimPrefix(s, "/*")
		s = strings.TrimSuffix(s, "*/")
	}
	var b strings.Builder
	sp := false
	for _, r := range s {
		if r == ' ' || r == '\t' || r == '\n' || r == '\r' || r == '\f' || r == '\v' || r == '*' {
			sp = true
			continue
		}
		if sp && b.Len() > 0 {
			b.WriteByte(' ')
		}
		sp = false
		b.WriteRune(r)
	}
	return b.String()
}

type span struct {
	start, end ast.Token
	key        string
	braced     bool
	empty      bool
}

type owners struct {
	spans []span
}

func (o *owners) add(n ast.Node, key string, braced bool) {
	o.spans = append(o.spans, span{start: n.Start(), end: n.End(), key: key, braced: braced})
}

// lookup returns the innermost named and the innermost braced declaration containing tok.
func (o *owners) lookup(tok ast.Token) (owner, braced string, onEmpty bool) {
	owner, braced = "file", "file"
	bestLen, bestBracedLen := int(^uint(0)>>1), int(^uint(0)>>1)
	for _, s := range o.spans {
		if tok < s.start || tok > s.end {
			continue
		}
		l := int(s.end - s.start)
		if s.empty {
			onEmpty = true
			continue
		}
		if l <= bestLen {
			bestLen, owner = l, s.key
		}
		if s.braced && l <= bestBracedLen {
			bestBracedLen, braced = l, s.key
		}
	}
	return
}

func flatText(f *ast.FileNode, n ast.Node) string {
	var parts []string
	var rec func(ast.Node)
	rec = func(n ast.Node) {
		if cn, ok := n.(ast.CompositeNode); ok {
			for _, ch := range cn.Children() {
				rec(ch)
			}
			return
		}
		parts = append(parts, f.NodeInfo(n).RawText())
	}
	rec(n)
	return strings.Join(parts, " ")
}

func optionNameString(n *ast.OptionNameNode) string {
	var parts []string
	for _, p := range n.Parts {
		s := string(p.Name.AsIdentifier())
		if p.Open != nil {
			s = "(" + s + ")"
		}
		parts = append(parts, s)
	}
	return strings.Join(parts, ".")
}

func join(scope, name string) string {
	if scope == "" {
		return name
	}
	return scope + "." + name
}

func buildOwners(f *ast.FileNode) *owners {
	o := &owners{}
	pkg := ""
	for _, d := range f.Decls {
		if p, ok := d.(*ast.PackageNode); ok {
			pkg = string(p.Name.AsIdentifier())
		}
	}
	optKey := func(scope string, n *ast.OptionNode) string {
		v := ""
		if n.Val != nil {
			v = canonValue(n.Val)
		}
		return scope + "/option:" + optionNameString(n.Name) + "=" + v
	}
	var msgBody func(scope string, decls []ast.MessageElement)
	field := func(scope string, n ast.Node, name string) { o.add(n, join(scope, name), false) }
	enum := func(scope string, n *ast.EnumNode) {
		fq := join(scope, n.Name.Val)
		o.add(n, fq, true)
		for _, d := range n.Decls {
			switch e := d.(type) {
			case *ast.EnumValueNode:
				o.add(e, join(fq, e.Name.Val), false)
			case *ast.OptionNode:
				o.add(e, optKey(fq, e), false)
			case *ast.ReservedNode:
				o.add(e, fq+"/"+flatText(f, e), false)
			case *ast.EmptyDeclNode:
				o.spans = append(o.spans, span{start: e.Start(), end: e.End(), empty: true})
			}
		}
	}
	extend := func(scope string, n *ast.ExtendNode) {
		o.add(n, scope+"/extend:"+string(n.Extendee.AsIdentifier()), true)
		for _, d := range n.Decls {
			switch e := d.(type) {
			case *ast.FieldNode:
				field(scope, e, e.Name.Val)
			case *ast.GroupNode:
				fq := join(scope, e.Name.Val)
				o.add(e, fq, true)
				msgBody(fq, e.Decls)
			}
		}
	}
	msgBody = func(scope string, decls []ast.MessageElement) {
		for _, d := range decls {
			switch e := d.(type) {
			case *ast.FieldNode:
				field(scope, e, e.Name.Val)
			case *ast.MapFieldNode:
				field(scope, e, e.Name.Val)
			case *ast.GroupNode:
				fq := join(scope, e.Name.Val)
				o.add(e, fq, true)
				msgBody(fq, e.Decls)
			case *ast.OneofNode:
				ofq := join(scope, e.Name.Val)
				o.add(e, ofq, true)
				for _, od := range e.Decls {
					switch x := od.(type) {
					case *ast.FieldNode:
						field(scope, x, x.Name.Val)
					case *ast.GroupNode:
						fq := join(scope, x.Name.Val)
						o.add(x, fq, true)
						msgBody(fq, x.Decls)
					case *ast.OptionNode:
						o.add(x, optKey(ofq, x), false)
					}
				}
			case *ast.MessageNode:
				fq := join(scope, e.Name.Val)
				o.add(e, fq, true)
				msgBody(fq, e.Decls)
			case *ast.EnumNode:
				enum(scope, e)
			case *ast.ExtendNode:
				extend(scope, e)
			case *ast.OptionNode:
				o.add(e, optKey(scope, e), false)
			case *ast.ReservedNode:
				o.add(e, scope+"/"+flatText(f, e), false)
			case *ast.ExtensionRangeNode:
				// identity without the options
				var rs []string
				for _, r := range e.Ranges {
					rs = append(rs, flatText(f, r))
				}
				o.add(e, scope+"/extensions "+strings.Join(rs, ","), false)
			case *ast.EmptyDeclNode:
				o.spans = append(o.spans, span{start: e.Start(), end: e.End(), empty: true})
			}
		}
	}
	for _, d := range f.Decls {
		switch e := d.(type) {
		case *ast.ImportNode:
			o.add(e, "import:"+e.Name.AsString(), false)
		case *ast.OptionNode:
			o.add(e, optKey("file", e), false)
		case *ast.MessageNode:
			fq := join(pkg, e.Name.Val)
			o.add(e, fq, true)
			msgBody(fq, e.Decls)
		case *ast.EnumNode:
			enum(pkg, e)
		case *ast.ExtendNode:
			extend(pkg, e)
		case *ast.ServiceNode:
			fq := join(pkg, e.Name.Val)
			o.add(e, fq, true)
			for _, sd := range e.Decls {
				switch x := sd.(type) {
				case *ast.RPCNode:
					mfq := join(fq, x.Name.Val)
					o.add(x, mfq, x.OpenBrace != nil)
					for _, rd := range x.Decls {
						switch y := rd.(type) {
						case *ast.OptionNode:
							o.add(y, optKey(mfq, y), false)
						case *ast.EmptyDeclNode:
							o.spans = append(o.spans, span{start: y.Start(), end: y.End(), empty: true})
						}
					}
				case *ast.OptionNode:
					o.add(x, optKey(fq, x), false)
				case *ast.EmptyDeclNode:
					o.spans = append(o.spans, span{start: x.Start(), end: x.End(), empty: true})
				}
			}
		case *ast.EmptyDeclNode:
			o.spans = append(o.spans, span{start: e.Start(), end: e.End(), empty: true})
		}
	}
	return o
}

// collectComments lists every comment of the file with the declaration that owns the token the
// parser attributed it to.
func collectComments(f *ast.FileNode) ([]cmt, error) {
	o := buildOwners(f)
	roles := tokenRoles(f)
	var out []cmt
	toks := f.Tokens()
	nItems := 0
	for it, ok := f.Items().First(); ok; it, ok = f.Items().Next(it) {
		if _, c := f.GetItem(it); c.IsValid() {
			nItems++
		}
	}
	for tok, ok := toks.First(); ok; tok, ok = toks.Next(tok) {
		info := f.TokenInfo(tok)
		owner, braced, onEmpty := o.lookup(tok)
		add := func(cs ast.Comments, leading bool) {
			for i := 0; i < cs.Len(); i++ {
				raw := cs.Index(i).RawText()
				out = append(out, cmt{Text: normComment(raw), Raw: raw, Owner: owner, Braced: braced, OnEmpty: onEmpty, Leading: leading, Role: roles[tok]})
			}
		}
		add(info.LeadingComments(), true)
		add(info.TrailingComments(), false)
	}
	if len(out) != nItems {
		return out, fmt.Errorf("harness: %d comment items but %d attributed comments", nItems, len(out))
	}
	return out, nil
}

func multiset(keys []string) map[string]int {
	m := map[string]int{}
	for _, k := range keys {
		m[k]++
	}
	return m
}

// diffMultiset returns the keys with a lower count in b (lost) and a higher count in b (added).
func diffMultiset(a, b map[string]int) (lost, added []string) {
	for k, n := range a {
		if b[k] < n {
			lost = append(lost, k)
		}
	}
	for k, n := range b {
		if a[k] < n {
			added = append(added, k)
		}
	}
	sort.Strings(lost)
	sort.Strings(added)
	return
}

// ---------------------------------------------------------------------------------------------
// the oracle

// ownerMode selects which owner key the attachment clause uses.
func ownerOf(c cmt) string { return c.Owner }

// canonicalKey folds the trigger-level keys of the analysed root causes into one name each; keys
// of anything not analysed yet stay as they are (fine-grained).
func canonicalKey(v *Verdict, n1 *ast.FileNode) {
	k := v.Key
	has := func(sub string) bool { return strings.Contains(k, sub) }
	switch {
	case k == "format-error" && strings.Contains(v.Msg, "decrement indentation"):
		k = "format-error:indent-underflow"
	case k == "output-does-not-parse" && lineCommentWithBlockEnd(n1):
		k = "output-does-not-parse:line-comment-with-block-end"
	case strings.HasPrefix(k, "comment-duplicated:") && has("OptionName>FieldReference.") && has(":trailing") && has("compact/"):
		k = "comment-duplicated:compact-option-name"
	case strings.HasPrefix(k, "comment-lost:") && (has("MessageLiteral.sep:leading") || has("MessageLiteral.sep-after-plain-value:leading")):
		k = "comment-lost:message-literal-separator-leading"
	case strings.HasPrefix(k, "comment-lost:") && has("MessageLiteral.sep:trailing"):
		k = "comment-lost:message-literal-separator-trailing"
	case strings.HasPrefix(k, "comment-lost:Import>") && len(dupImports(n1)) > 0:
		k = "comment-lost:duplicate-import"
	case strings.HasPrefix(k, "not-idempotent:whitespace") && strings.HasPrefix(v.Formatted, "\n"):
		k = "not-idempotent:whitespace:leading-blank-line"
	case strings.HasPrefix(k, "not-idempotent:content-at-comment"):
		k = "not-idempotent:comment-restyled"
	case strings.HasPrefix(k, "not-idempotent:whitespace-at-comment"):
		k = "not-idempotent:whitespace:at-comment"
	}
	v.Key = k
}

func lineCommentWithBlockEnd(n *ast.FileNode) bool {
	seq := n.Items()
	for it, ok := seq.First(); ok; it, ok = seq.Next(it) {
		if _, cm := n.GetItem(it); cm.IsValid() {
			if raw := cm.RawText(); strings.HasPrefix(raw, "//") && strings.Contains(raw, "*/") {
				return true
			}
		}
	}
	return false
}

func runOracle(c *Case) Verdict {
	v := runOracleRaw(c)
	if v.Key != "" && v.HarnessErr == "" {
		if n1, err := parseSrc(c.Path, c.Source); err == nil {
			canonicalKey(&v, n1)
		}
	}
	return v
}

func runOracleRaw(c *Case) Verdict {
	var v Verdict
	n1, err := parseSrc(c.Path, c.Source)
	if err != nil {
		v.HarnessErr = fmt.Sprintf("input does not parse: %v", err)
		return v
	}
	cm1, err := collectComments(n1)
	if err != nil {
		v.HarnessErr = err.Error()
		return v
	}
	v.NComments = len(cm1)
	for _, x := range cm1 {
		if x.OnEmpty {
			v.EmptyStmtCmts = true
		}
	}
	// descriptors of the input (facts about the case)
	dup := dupImports(n1)
	u1, uerr1 := unlinked(n1)
	v.UnlinkedOK = uerr1 == nil
	l1, lerr1 := compileLinked(c, c.Source)
	v.Linked = lerr1 == nil
	// 1. format + parse
	out1, err := formatNode(n1)
	v.Formatted = out1
	if err != nil {
		v.Key, v.Msg = "format-error", fmt.Sprintf("FormatFileNode failed: %v", err)
		return v
	}
	n2, err := parseSrc(c.Path, out1)
	if err != nil {
		v.Key, v.Msg = "output-does-not-parse", fmt.Sprintf("formatted output does not parse: %v\n--- formatted:\n%s", err, out1)
		return v
	}
	// 2. meaning
	var unl string
	optsPermuted := false // the file option statements of x and F(x) are the same multiset
	var u2 *descriptorpb.FileDescriptorProto
	if uerr1 == nil {
		var uerr2 error
		u2, uerr2 = unlinked(n2)
		if uerr2 != nil {
			v.Key, v.Msg = "meaning:formatted-descriptor-error", fmt.Sprintf("descriptor of the original builds, of the formatted file fails: %v\n--- formatted:\n%s", uerr2, out1)
			return v
		}
		unl = compareUnlinked(u1, u2, dup)
		optsPermuted = fileOptionMultiset(u1) == fileOptionMultiset(u2)
	}
	if lerr1 == nil {
		l2, lerr2 := compileLinked(c, out1)
		if lerr2 != nil {
			v.Key, v.Msg = "meaning:formatted-does-not-link", fmt.Sprintf("original compiles, formatted does not: %v\n--- formatted:\n%s", lerr2, out1)
			return v
		}
		for _, fd := range []*descriptorpb.FileDescriptorProto{l1, l2} {
			fd.SourceCodeInfo = nil
			canonDeps(fd, dup)
		}
		// custom options are extension fields backed by per-compilation dynamic types: proto.Equal
		// never equates those, the deterministic wire form does
		if !bytes.Equal(detBytes(l1), detBytes(l2)) {
			o1, o2 := l1.Options, l2.Options
			l1.Options, l2.Options = nil, nil
			onlyFileOptions := bytes.Equal(detBytes(l1), detBytes(l2))
			l1.Options, l2.Options = o1, o2
			if onlyFileOptions && o1 != nil && o2 != nil && (sameFieldMultiset(o1, o2) || optsPermuted) {
				v.Key, v.Msg = reorderKey(u1, u2, n1), "values of a repeated file option were reordered and the compiled descriptors differ: "+firstDiff(l1, l2)+"\n--- formatted:\n"+out1
			} else {
				v.Key, v.Msg = "meaning:linked-descriptor-differs", firstDiff(l1, l2)+"\n--- formatted:\n"+out1
			}
			return v
		}
	} else if unl != "" {
		if unl == "reordered" {
			v.Key, v.Msg = reorderKey(u1, u2, n1), "file options with the same name were reordered (uninterpreted_option order differs)\n--- formatted:\n"+out1
		} else {
			v.Key, v.Msg = "meaning:descriptor-differs", unl+"\n--- formatted:\n"+out1
			if anyURLDropped(n1, n2) {
				v.Key = "meaning:any-type-url-dropped"
			}
		}
		return v
	}
	// 3. comments
	cm2, err := collectComments(n2)
	if err != nil {
		v.HarnessErr = "formatted: " + err.Error()
		return v
	}
	var t1, t2 []string
	for _, x := range cm1 {
		t1 = append(t1, x.Text)
	}
	for _, x := range cm2 {
		t2 = append(t2, x.Text)
	}
	lost, added := diffMultiset(multiset(t1), multiset(t2))
	if len(lost) > 0 {
		allOnEmpty := true
		onEmptyTexts := map[string]bool{}
		for _, x := range cm1 {
			if x.OnEmpty {
				onEmptyTexts[x.Text] = true
			}
		}
		for _, l := range lost {
			if !onEmptyTexts[l] {
				allOnEmpty = false
			}
		}
		// classify by the first lost comment that is not explained by the empty-statement finding
		key := "comment-lost"
		isLost := map[string]bool{}
		for _, l := range lost {
			isLost[l] = true
		}
		for pass := 0; pass < 2 && key == "comment-lost"; pass++ {
			for _, x := range cm1 {
				if isLost[x.Text] && (pass == 1 || !x.OnEmpty) {
					key = "comment-lost:" + x.where()
					break
				}
			}
		}
		if allOnEmpty {
			key = keyKnownEmpty
		}
		v.Key, v.Msg = key, fmt.Sprintf("comments lost by formatting: %q (added: %q)\n--- formatted:\n%s", lost, added, out1)
		return v
	}
	if len(added) > 0 {
		key := "comment-added"
		for _, x := range cm1 {
			if x.Text == added[0] {
				key = "comment-duplicated:" + x.where()
				break
			}
		}
		v.Key, v.Msg = key, fmt.Sprintf("comments in the output that are not in the input: %q\n--- formatted:\n%s", added, out1)
		return v
	}
	var o1, o2 []string
	for _, x := range cm1 {
		o1 = append(o1, x.Text+" @ "+ownerOf(x))
	}
	for _, x := range cm2 {
		o2 = append(o2, x.Text+" @ "+ownerOf(x))
	}
	if moved, to := diffMultiset(multiset(o1), multiset(o2)); len(moved) > 0 {
		key := "comment-moved"
		for _, x := range cm1 {
			if x.Text+" @ "+ownerOf(x) == moved[0] {
				key = "comment-moved:" + x.where()
				break
			}
		}
		v.Key, v.Msg = key, fmt.Sprintf("comment attached to another declaration after formatting: before %q, after %q\n--- formatted:\n%s", moved, to, out1)
		return v
	}
	// 4. idempotence
	out2, err := formatNode(n2)
	if err != nil {
		v.Key, v.Msg = "format-error", fmt.Sprintf("second FormatFileNode failed: %v", err)
		return v
	}
	if out2 != out1 {
		key := classifyNonIdempotent(c, n1, out1, out2)
		if v.EmptyStmtCmts {
			key = keyKnownEmpty
		}
		v.Key, v.Msg = key, fmt.Sprintf("format(format(x)) != format(x)\n--- first:\n%s\n--- second:\n%s", out1, out2)
		return v
	}
	return v
}

// classifyNonIdempotent names the trigger of an idempotence failure by counterfactual: does the
// failure go away when the empty statements / the comments are blanked out of the input?
func classifyNonIdempotent(c *Case, n *ast.FileNode, out1, out2 string) string {
	// idem: 1 = the variant is a fixpoint after one pass, 0 = it is not, -1 = the variant hits another failure
	idem := func(src string) int {
		m, err := parseSrc(c.Path, src)
		if err != nil {
			return -1
		}
		o1, err := formatNode(m)
		if err != nil {
			return -1
		}
		m2, err := parseSrc(c.Path, o1)
		if err != nil {
			return -1
		}
		o2, err := formatNode(m2)
		if err != nil {
			return -1
		}
		if o1 == o2 {
			return 1
		}
		return 0
	}
	ws := strings.NewReplacer(" ", "", "\t", "", "\n", "", "\r", "")
	kind := "content"
	if ws.Replace(out1) == ws.Replace(out2) {
		kind = "whitespace"
	}
	if kind == "whitespace" && strings.HasPrefix(out1, "\n") {
		return "not-idempotent:whitespace:leading-blank-line"
	}
	if kind == "whitespace" && strings.Contains(c.Source, "\r\n") && idem(strings.ReplaceAll(c.Source, "\r\n", "\n")) == 1 {
		// the same file with LF line endings is a fixpoint after one pass: the line endings are the trigger
		// (a whitespace-only "\r" line inside a block comment is taken for content when the indentation is computed)
		return "not-idempotent:whitespace:crlf-block-comment"
	}
	se, hasEmpty := blankEmptyStatements(c.Source, n)
	if hasEmpty && idem(se) == 1 {
		return "not-idempotent:empty-statement"
	}
	sc, hasCmt := blankComments(c.Source, n, -1)
	if hasCmt {
		switch idem(sc) {
		case 1:
			return "not-idempotent:" + kind + "-at-comment"
		case -1:
			// the comment-free variant runs into a different failure (e.g. a format error): undecidable by
			// counterfactual; every analysed whitespace-only case with comments is a spacing-at-comment case
			if kind == "whitespace" {
				return "not-idempotent:whitespace-at-comment"
			}
		}
	}
	if hasEmpty {
		// neither alone: both the empty statements and the comments are necessary causes
		if m, err := parseSrc(c.Path, se); err == nil {
			if sec, ok := blankComments(se, m, -1); ok && idem(sec) == 1 {
				return "not-idempotent:empty-statement"
			}
		}
	}
	return "not-idempotent:" + kind
}

func blankEmptyStatements(src string, n *ast.FileNode) (string, bool) {
	b := []byte(src)
	changed := false
	var rec func(ast.Node)
	rec = func(x ast.Node) {
		if e, ok := x.(*ast.EmptyDeclNode); ok {
			off := n.NodeInfo(e.Semicolon).Start().Offset
			if off < len(b) && b[off] == ';' {
				b[off] = ' '
				changed = true
			}
			return
		}
		if cn, ok := x.(ast.CompositeNode); ok {
			for _, ch := range cn.Children() {
				rec(ch)
			}
		}
	}
	rec(n)
	return dropBlankLines(string(b)), changed
}

// dropBlankLines removes whitespace-only lines: blank lines are a trigger of their own
// (leading-blank-line) that a counterfactual must not introduce.
func dropBlankLines(s string) string {
	var keep []string
	for _, l := range strings.Split(s, "\n") {
		if strings.TrimSpace(l) != "" {
			keep = append(keep, l)
		}
	}
	return strings.Join(keep, "\n") + "\n"
}

// blankComments overwrites comment number `only` (in source order; -1 = every comment) with blanks.
func blankComments(src string, n *ast.FileNode, only int) (string, bool) {
	b := []byte(src)
	changed := false
	seq := n.Items()
	idx := -1
	for it, ok := seq.First(); ok; it, ok = seq.Next(it) {
		if _, cm := n.GetItem(it); cm.IsValid() {
			idx++
			if only >= 0 && idx != only {
				continue
			}
			start := cm.Start().Offset
			end := start + len(cm.RawText())
			for i := start; i < end && i < len(b); i++ {
				if b[i] != '\n' {
					b[i] = ' '
				}
			}
			changed = true
		}
	}
	return dropBlankLines(string(b)), changed
}

// sameFieldMultiset reports whether two messages have the same multiset of top-level wire fields
// (i.e. differ at most in the order of repeated values / fields).
func sameFieldMultiset(a, b proto.Message) bool {
	split := func(m proto.Message) ([]string, bool) {
		raw := detBytes(m)
		var out []string
		for len(raw) > 0 {
			num, typ, n := protowire.ConsumeTag(raw)
			if n < 0 {
				return nil, false
			}
			m := protowire.ConsumeFieldValue(num, typ, raw[n:])
			if m < 0 {
				return nil, false
			}
			out = append(out, string(raw[:n+m]))
			raw = raw[n+m:]
		}
		sort.Strings(out)
		return out, true
	}
	x, ok1 := split(a)
	y, ok2 := split(b)
	if !ok1 || !ok2 || len(x) != len(y) {
		return false
	}
	for i := range x {
		if x[i] != y[i] {
			return false
		}
	}
	return true
}

// canonOptionName resolves the spelling of a file option name against the file's package: (x),
// (p3.x), (p1.p2.p3.x) and (.p1.p2.p3.x) all denote p1.p2.p3.x inside package p1.p2.p3.
func canonOptionName(uo *descriptorpb.UninterpretedOption, pkg string) string {
	var parts []string
	for _, p := range uo.Name {
		n := p.GetNamePart()
		if p.GetIsExtension() {
			if strings.HasPrefix(n, ".") {
				n = n[1:]
			} else {
				comps := strings.Split(pkg, ".")
				resolved := false
				for k := len(comps); k >= 1 && pkg != ""; k-- {
					suffix := strings.Join(comps[len(comps)-k:], ".") + "."
					if strings.HasPrefix(n, suffix) {
						n = pkg + "." + n[len(suffix):]
						resolved = true
						break
					}
				}
				if !resolved && !strings.Contains(n, ".") && pkg != "" {
					n = pkg + "." + n
				}
			}
			n = "(" + n + ")"
		}
		parts = append(parts, n)
	}
	return strings.Join(parts, ".")
}

// reorderKey decides on the input which of the two reorder findings a reordering belongs to:
// different-spelling iff every option whose values changed their relative order is written with at
// least two different spellings in the file; unstable-sort otherwise.
func reorderKey(u1, u2 *descriptorpb.FileDescriptorProto, n1 *ast.FileNode) string {
	const base = "meaning:repeated-option-reordered:"
	if u1 == nil || u2 == nil {
		return base + "unstable-sort"
	}
	pkg := u1.GetPackage()
	type group struct {
		spellings map[string]bool
		seq       []string
	}
	collect := func(fd *descriptorpb.FileDescriptorProto) map[string]*group {
		out := map[string]*group{}
		for _, uo := range fd.GetOptions().GetUninterpretedOption() {
			k := canonOptionName(uo, pkg)
			g := out[k]
			if g == nil {
				g = &group{spellings: map[string]bool{}}
				out[k] = g
			}
			g.spellings[optName(uo)] = true
			c := proto.Clone(uo).(*descriptorpb.UninterpretedOption)
			c.Name = nil
			b, _ := proto.MarshalOptions{Deterministic: true}.Marshal(c)
			g.seq = append(g.seq, string(b))
		}
		return out
	}
	g1, g2 := collect(u1), collect(u2)
	reordered, allMultiSpelled := 0, true
	for k, a := range g1 {
		b := g2[k]
		if b == nil || strings.Join(a.seq, "\x00") == strings.Join(b.seq, "\x00") {
			continue
		}
		reordered++
		if len(a.spellings) < 2 {
			allMultiSpelled = false
		}
	}
	if reordered > 0 && allMultiSpelled {
		return base + "different-spelling"
	}
	return base + "unstable-sort"
}

// anyURLDropped reports whether `[prefix/type]` references of the input are missing from the output and every
// missing one has the KNOWN trigger shape of the open finding: the reference names the only field of a message
// literal and its value is a scalar (such a literal is written on one line through writeFieldReference; it never
// links).  A reference in front of a message or list value that loses its prefix is not that finding.
var urlPrefixRe = regexp.MustCompile(`\[[^\]/=;{}]*/`)

func anyURLDropped(a, b *ast.FileNode) bool {
	type ref struct {
		key    string
		scalar bool
	}
	collect := func(f *ast.FileNode) []ref {
		var out []ref
		var rec func(ast.Node)
		rec = func(x ast.Node) {
			if mf, ok := x.(*ast.MessageFieldNode); ok && mf.Name != nil && mf.Name.URLPrefix != nil {
				scalar := true
				switch mf.Val.(type) {
				case *ast.MessageLiteralNode, *ast.ArrayLiteralNode:
					scalar = false
				}
				// nested references are judged on their own: compare the value with every URL prefix removed
				out = append(out, ref{key: canonFieldRef(mf.Name) + "=" + urlPrefixRe.ReplaceAllString(canonValue(mf.Val), "["), scalar: scalar})
			}
			if cn, ok := x.(ast.CompositeNode); ok {
				for _, ch := range cn.Children() {
					rec(ch)
				}
			}
		}
		rec(f)
		return out
	}
	left := map[string]int{}
	for _, r := range collect(b) {
		left[r.key]++
	}
	dropped, allScalar := 0, true
	for _, r := range collect(a) {
		if left[r.key] > 0 {
			left[r.key]--
			continue
		}
		dropped++
		if !r.scalar {
			allScalar = false
		}
	}
	return dropped > 0 && allScalar
}

func detBytes(m proto.Message) []byte {
	b, err := proto.MarshalOptions{Deterministic: true, AllowPartial: true}.Marshal(m)
	if err != nil {
		panic("harness: marshal: " + err.Error())
	}
	return b
}

func prototextish(m proto.Message) string {
	return protoTextMarshal(m)
}
