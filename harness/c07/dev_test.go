package c07

// Development aids (all skipped unless their environment variable is set).

import (
	"fmt"
	"os"
	"testing"

	"github.com/bufbuild/bufverif/internal/evid"
)

// TestMinimizeReplay: C07_MIN=<replay file> prints a reduced reproduction of a saved violation.
func TestMinimizeReplay(t *testing.T) {
	p := os.Getenv("C07_MIN")
	if p == "" {
		t.Skip("no C07_MIN")
	}
	os.Setenv("VERIF_REPLAY", p)
	var c Case
	if _, err := evid.ReplayCase(&c); err != nil {
		t.Fatal(err)
	}
	v := runOracle(&c)
	fmt.Printf("key=%s\n", v.Key)
	m := minimize(&c, v.Key, 6000)
	c.Source = m
	v = runOracle(&c)
	fmt.Printf("==== minimal (%d bytes)\n%s\n---- key=%s\n%.1500s\n", len(m), m, v.Key, v.Msg)
}
