package c07

import (
	"fmt"
	"os"
	"testing"

	"github.com/bufbuild/bufverif/internal/evid"
	"google.golang.org/protobuf/proto"
)

func TestDbg(t *testing.T) {
	p := os.Getenv("C07_DBG")
	if p == "" {
		t.Skip()
	}
	data, _ := os.ReadFile(p)
	c := &Case{Path: "probe.proto", Source: string(data), Imports: depFiles}
	l1, err := compileLinked(c, c.Source)
	if err != nil {
		t.Fatal(err)
	}
	n, _ := parseSrc(c.Path, c.Source)
	out, _ := formatNode(n)
	l2, err := compileLinked(c, out)
	if err != nil {
		t.Fatal(err)
	}
	b1, _ := proto.MarshalOptions{Deterministic: true}.Marshal(l1.Options)
	b2, _ := proto.MarshalOptions{Deterministic: true}.Marshal(l2.Options)
	fmt.Printf("opts1 %x unknown=%x\nopts2 %x unknown=%x\n", b1, l1.Options.ProtoReflect().GetUnknown(), b2, l2.Options.ProtoReflect().GetUnknown())
	fmt.Println(proto.Equal(l1.Options, l2.Options))
	l1.Options, l2.Options = nil, nil
	fmt.Println(proto.Equal(l1, l2))
}

// TestMinimizeReplay (development aid): C07_MIN=<replay file> prints a reduced reproduction.
func TestMinimizeReplay(t *testing.T) {
	p := os.Getenv("C07_MIN")
	if p == "" {
		t.Skip()
	}
	os.Setenv("VERIF_REPLAY", p)
	var c Case
	if _, err := evid.ReplayCase(&c); err != nil {
		t.Fatal(err)
	}
	v := runOracle(&c)
	fmt.Printf("key=%s\n", v.Key)
	m := minimize(&c, v.Key, 6000)
	c.Source = m
	v = runOracle(&c)
	fmt.Printf("==== minimal (%d bytes)\n%s\n---- key=%s\n%.1500s\n", len(m), m, v.Key, v.Msg)
}
