package c07

// One directed regression per open known finding: the minimal reproduction runs through the oracle
// on every run (shard 0).  While it still fails with its key the driver prints KNOWN-FINDING; once
// buf is repaired it is silent; if it fails in any other way that is a VIOLATION.

import (
	"testing"

	"github.com/bufbuild/bufverif/internal/evid"
)

const optPrelude = "syntax = \"proto3\";\nimport \"google/protobuf/descriptor.proto\";\nmessage Cfg { int32 a = 1; int32 b = 2; }\nextend google.protobuf.FileOptions { Cfg cfg = 50001; }\n"

var knownRepros = []struct{ key, src string }{
	{"format-error:indent-underflow", "syntax = \"proto2\";\nimport \"google/protobuf/descriptor.proto\";\nmessage Opt { optional int32 a = 1; optional int32 b = 2; }\nextend google.protobuf.FieldOptions { optional Opt opt = 50001; }\nmessage M {\n  optional group G = 1 [(opt) = {a: 1 b: 2}] {\n    optional int32 x = 1;\n  }\n}\n"},
	{"output-does-not-parse:line-comment-with-block-end", "syntax = \"proto3\";\nmessage M {\n  int32 x // matches **/*.proto\n    = 1;\n}\n"},
	{"comment-duplicated:compact-option-name", "syntax = \"proto3\";\nmessage M {\n  int32 x = 1 [\n    deprecated // why\n      = true,\n    json_name = \"y\"\n  ];\n}\n"},
	{"comment-lost:message-literal-separator-leading", optPrelude + "option (cfg) = {\n  a: 1 /* about a */ ,\n  b: 2\n};\n"},
	{"comment-lost:message-literal-separator-trailing", optPrelude + "option (cfg) = {\n  a: -1, // about a\n  b: 2\n};\n"},
	{"comment-lost:duplicate-import", "syntax = \"proto3\";\nimport \"google/protobuf/any.proto\" /*c1*/ ;\nimport weak \"google/protobuf/\" /*c2*/ \"any.proto\";\n"},
	{"meaning:any-type-url-dropped", "syntax = \"proto3\";\noption (a) = {[type.googleapis.com/foo.Msg]: 1};\n"},
	{"meaning:repeated-option-reordered:different-spelling", "syntax = \"proto3\";\npackage acme;\nimport \"google/protobuf/descriptor.proto\";\nextend google.protobuf.FileOptions { repeated string tag = 50001; }\noption (tag) = \"first\";\noption (acme.tag) = \"second\";\n"},
	{"not-idempotent:empty-statement", "syntax = \"proto3\";\nmessage M {\n  ;\n}\n"},
	{"not-idempotent:whitespace:leading-blank-line", "\n\nsyntax = \"proto3\";\n"},
	{"not-idempotent:whitespace:at-comment", "syntax = \"proto3\";\nmessage M//c\n{\n}\n"},
	{"not-idempotent:whitespace:crlf-block-comment", "syntax = \"proto3\";\r\n\r\nmessage M {\r\n  /*\r\n     free text\r\n\r\n     after blank\r\n  */\r\n  int32 x = 1;\r\n}\r\n"},
	{"not-idempotent:comment-restyled", "syntax = \"proto3\";\noption (b) = {\n  a: [\n    {name: \"x\"}\n    // c8\n  ]\n};\n"},
}

func TestKnownFindings(t *testing.T) {
	r := evid.R()
	defer r.Begin(t)()
	if r.Shard != 0 {
		return
	}
	for _, k := range knownRepros {
		c := &Case{Path: "known.proto", Source: k.src, Imports: depFiles, Origin: "directed:" + k.key}
		v := runOracle(c)
		if v.HarnessErr != "" {
			t.Fatalf("harness: directed case %s: %s", k.key, v.HarnessErr)
		}
		r.Eval()
		if v.Key == "" {
			continue // repaired
		}
		if !r.Fail(t, v.Key, v.Msg, c) {
			return
		}
	}
}
