package c07

// Text-level minimiser (development aid + used to attach a reduced reproduction to violations):
// delta debugging over the lexical items of the source (tokens and comments, each with the
// whitespace that follows it); a candidate is kept when it still parses and the oracle still
// reports the same key.

import (
	"strings"

	"github.com/bufbuild/protocompile/ast"
)

func splitItems(src string) []string {
	n, err := parseSrc("x.proto", src)
	if err != nil {
		return nil
	}
	var offs []int
	seq := n.Items()
	for it, ok := seq.First(); ok; it, ok = seq.Next(it) {
		info := n.ItemInfo(it)
		if info == nil {
			continue
		}
		offs = append(offs, info.Start().Offset)
	}
	_ = ast.Item(0)
	var out []string
	if len(offs) == 0 {
		return []string{src}
	}
	if offs[0] > 0 {
		out = append(out, src[:offs[0]])
	}
	for i := range offs {
		end := len(src)
		if i+1 < len(offs) {
			end = offs[i+1]
		}
		if end > offs[i] {
			out = append(out, src[offs[i]:end])
		}
	}
	return out
}

// minimize reduces c.Source while the oracle keeps reporting key. budget bounds the oracle runs.
func minimize(c *Case, key string, budget int) string {
	cur := c.Source
	sig := func(v Verdict) string {
		m := v.Msg
		if i := strings.IndexByte(m, '\n'); i >= 0 {
			m = m[:i]
		}
		if len(m) > 70 {
			m = m[:70]
		}
		return v.Key + "|" + m
	}
	orig := runOracle(c)
	test := func(s string) bool {
		if budget <= 0 {
			return false
		}
		budget--
		cc := *c
		cc.Source = s
		v := runOracle(&cc)
		// stay inside the domain: the reduced file must still build a descriptor / link like the original
		return v.HarnessErr == "" && v.Key == key && sig(v) == sig(orig) && v.UnlinkedOK == orig.UnlinkedOK
	}
	for round := 0; round < 6 && budget > 0; round++ {
		before := len(cur)
		items := splitItems(cur)
		if len(items) == 0 {
			break
		}
		// ddmin: remove chunks of decreasing size
		for size := len(items) / 2; size >= 1; size /= 2 {
			for i := 0; i+size <= len(items); {
				cand := strings.Join(items[:i], "") + strings.Join(items[i+size:], "")
				if test(cand) {
					items = append(append([]string{}, items[:i]...), items[i+size:]...)
				} else {
					i += size
				}
			}
			if budget <= 0 {
				break
			}
		}
		cur = strings.Join(items, "")
		// whitespace simplification per item: collapse the trailing whitespace of each item
		for i := range items {
			trimmed := strings.TrimRight(items[i], " \t\r\n\f\v")
			ws := items[i][len(trimmed):]
			for _, repl := range []string{"", " ", "\n"} {
				if repl == ws || len(repl) >= len(ws) {
					continue
				}
				old := items[i]
				items[i] = trimmed + repl
				if test(strings.Join(items, "")) {
					break
				}
				items[i] = old
			}
		}
		cur = strings.Join(items, "")
		if len(cur) >= before {
			break
		}
	}
	return cur
}
