// C07 — formatting preserves meaning and comments and is idempotent.
//
// Domains: (A) a grammar-based source-text generator with a lexical noise layer (gen_test.go),
// (B) linkable multi-file workspaces from internal/protogen rendered with the same noise layer,
// (C) the formatter's own test inputs mutated by a comment/whitespace injector.
// Oracle: oracle_test.go.
package c07

import (
	"flag"
	"fmt"
	"os"
	"sort"
	"strings"
	"testing"

	"github.com/bufbuild/bufverif/internal/evid"
	"google.golang.org/protobuf/encoding/prototext"
	"google.golang.org/protobuf/proto"
	"pgregory.net/rapid"
)

func TestMain(m *testing.M) {
	// the text-level reduction of a violation is done on replay; keep rapid's own shrinking short
	_ = flag.Set("rapid.shrinktime", "10s")
	evid.Main(m, "C07")
}

func protoTextMarshal(m proto.Message) string {
	return prototext.MarshalOptions{Multiline: true, Indent: " "}.Format(m)
}

// knownRepro is the minimal reproduction of the open finding "comment-on-empty-statement".
const knownRepro = "syntax = \"proto3\";\n/* c1 */ ; // c2\nmessage M {\n  /* c3 */ ; // c4\n}\n"

// TestKnownEmptyStatementComments runs the minimal reproduction of the open known finding through
// the oracle on every run: KNOWN-FINDING while it still fails, silent once it is repaired.
func TestKnownEmptyStatementComments(t *testing.T) {
	r := evid.R()
	defer r.Begin(t)()
	if r.Shard != 0 {
		return
	}
	c := &Case{Path: "known.proto", Source: knownRepro, Origin: "directed"}
	v := runOracle(c)
	if v.HarnessErr != "" {
		t.Fatalf("harness: %s", v.HarnessErr)
	}
	r.Eval()
	if v.Key == "" {
		return
	}
	if v.Key != keyKnownEmpty {
		r.Fail(t, v.Key, v.Msg, c)
		return
	}
	r.Fail(t, keyKnownEmpty, v.Msg, c)
}

// TestReplay re-runs the oracle on a saved case (no generator).
func TestReplay(t *testing.T) {
	var c Case
	ok, err := evid.ReplayCase(&c)
	if !ok {
		t.Skip("no VERIF_REPLAY")
	}
	if err != nil {
		t.Fatal(err)
	}
	r := evid.R()
	defer r.Begin(t)()
	v := runOracle(&c)
	if v.HarnessErr != "" {
		t.Fatalf("harness: %s", v.HarnessErr)
	}
	r.Eval()
	if v.Key != "" {
		// a replay also prints a delta-debugged reproduction (same key, still inside the domain)
		m := minimize(&c, v.Key, 3000)
		r.Fail(t, v.Key, fmt.Sprintf("reduced reproduction (%d bytes):\n%s\n--- on the saved case: %s", len(m), m, v.Msg), &c)
	}
}

// TestProbe is a development aid: C07_PROBE=<file> prints the verdict for one source file.
func TestProbe(t *testing.T) {
	p := os.Getenv("C07_PROBE")
	if p == "" {
		t.Skip("no C07_PROBE")
	}
	data, err := os.ReadFile(p)
	if err != nil {
		t.Fatal(err)
	}
	c := &Case{Path: "probe.proto", Source: string(data), Imports: depFiles}
	v := runOracle(c)
	fmt.Printf("harnessErr=%q linked=%v unlinkedOK=%v comments=%d emptyStmtCmts=%v\nkey=%q\n%s\n--- formatted:\n%s\n", v.HarnessErr, v.Linked, v.UnlinkedOK, v.NComments, v.EmptyStmtCmts, v.Key, v.Msg, v.Formatted)
	n, _ := parseSrc(c.Path, c.Source)
	if _, err := unlinked(n); err != nil {
		fmt.Printf("unlinked error: %v\n", err)
	}
	if _, err := compileLinked(c, c.Source); err != nil {
		fmt.Printf("link error: %v\n", err)
	}
	cs, _ := collectComments(n)
	for _, x := range cs {
		fmt.Printf("  IN  %-30q owner=%s braced=%s onEmpty=%v leading=%v\n", x.Text, x.Owner, x.Braced, x.OnEmpty, x.Leading)
	}
	if n2, err := parseSrc(c.Path, v.Formatted); err == nil {
		cs, _ := collectComments(n2)
		for _, x := range cs {
			fmt.Printf("  OUT %-30q owner=%s braced=%s onEmpty=%v leading=%v\n", x.Text, x.Owner, x.Braced, x.OnEmpty, x.Leading)
		}
	}
}

// ---------------------------------------------------------------------------------------------
// domain A: grammar-based generator

func factClasses(r *evid.Recorder, f Facts, v Verdict) {
	r.Class("syntax-" + map[string]string{"": "none"}[f.Syntax] + f.Syntax)
	if v.Linked {
		r.Class("linked")
	} else if v.UnlinkedOK {
		r.Class("unlinked-descriptor")
	} else {
		r.Class("no-descriptor")
	}
	if !f.Wild && !v.Linked {
		r.Class("link-expected-but-failed")
	}
	cls := func(name string, n int) {
		if n > 0 {
			r.Class(name)
		}
	}
	cls("empty-statement", f.EmptyStmts)
	cls("adjacent-strings", f.AdjacentStrings)
	cls("message-literal", f.MsgLiterals)
	cls("angle-literal", f.AngleLiterals)
	cls("any-literal", f.AnyLiterals)
	cls("array-literal", f.ArrayLiterals)
	cls("duplicate-import", f.DupImports)
	cls("repeated-file-option", f.RepeatedFileOpt)
	cls("group", f.Groups)
	cls("map", f.Maps)
	cls("oneof", f.Oneofs)
	cls("extend", f.Extends)
	cls("extension-range", f.ExtRanges)
	cls("reserved", f.Reserved)
	cls("service", f.Services)
	cls("rpc-body", f.RPCBodies)
	cls("stream", f.Streams)
	cls("nested", f.Nested)
	cls("compact-options", f.CompactOptions)
	cls("numeric-forms", f.NumForms)
	cls("string-escapes", f.Escapes)
	cls("odd-gap-comment", f.OddComments)
	cls("plain-comment", f.PlainComments)
	cls("detached-comment-block", f.DetachedBlocks)
	if f.FileOptions >= 13 {
		r.Class("file-options>=13")
	}
	if f.InterleavedHdr {
		r.Class("interleaved-header")
	}
	if f.CRLF {
		r.Class("crlf")
	}
	if f.CustomPrelude {
		r.Class("custom-option-prelude")
	}
	if v.EmptyStmtCmts {
		r.Class("comment-on-empty-statement")
	}
	if v.NComments > 0 {
		r.Class("has-comments")
	}
}

func nonTrivial(f Facts) bool {
	return f.OddComments > 0 || f.EmptyStmts > 0 || f.AdjacentStrings > 0 || f.MsgLiterals > 0 || f.DupImports > 0 || f.FileOptions >= 13
}

func TestGrammar(t *testing.T) {
	r := evid.R()
	r.Check(t, r.Scale(12000, 450000), 1, func(t *rapid.T) {
		src, facts := genFile(t)
		c := &Case{Path: "x.proto", Source: src, Imports: depFiles, Origin: "grammar"}
		v := runOracle(c)
		if v.HarnessErr != "" {
			t.Fatalf("harness: %s\n--- source:\n%s", v.HarnessErr, src)
		}
		r.Eval()
		factClasses(r, facts, v)
		if nonTrivial(facts) {
			r.NonTrivial(src)
			r.Sample(map[string]any{"source": src})
		}
		if v.Key != "" {
			if r.Fail(t, v.Key, v.Msg, c) {
				return
			}
		}
	})
}

// TestExplore is a development aid (C07_EXPLORE=n): runs n generated cases, never fails, and
// prints a histogram of falsification keys with the smallest example of each.
func TestExplore(t *testing.T) {
	nstr := os.Getenv("C07_EXPLORE")
	if nstr == "" {
		t.Skip("no C07_EXPLORE")
	}
	var n int
	fmt.Sscanf(nstr, "%d", &n)
	type ex struct {
		n   int
		src string
		msg string
	}
	hist := map[string]*ex{}
	linkFail := map[string]int{}
	linked, total := 0, 0
	r := evid.R()
	r.Check(t, n, 99, func(t *rapid.T) {
		src, facts := genFile(t)
		c := &Case{Path: "x.proto", Source: src, Imports: depFiles}
		v := runOracle(c)
		total++
		if v.HarnessErr != "" {
			e := hist["HARNESS:"+v.HarnessErr[:min(len(v.HarnessErr), 60)]]
			if e == nil {
				e = &ex{}
				hist["HARNESS:"+v.HarnessErr[:min(len(v.HarnessErr), 60)]] = e
			}
			e.n++
			if e.src == "" || len(src) < len(e.src) {
				e.src, e.msg = src, v.HarnessErr
			}
			return
		}
		if v.Linked {
			linked++
		} else if !facts.Wild {
			_, err := compileLinked(c, c.Source)
			k := fmt.Sprint(err)
			if i := strings.Index(k, ": "); i > 0 {
				k = k[i+2:]
			}
			linkFail[k[:min(len(k), 90)]]++
			if os.Getenv("C07_SHOWLINKFAIL") != "" && linkFail[k[:min(len(k), 90)]] == 1 {
				fmt.Printf("LINKFAIL %v\n%s\n", err, src)
			}
		}
		if v.Key == "" {
			return
		}
		e := hist[v.Key]
		if e == nil {
			e = &ex{}
			hist[v.Key] = e
		}
		e.n++
		if e.src == "" || len(src) < len(e.src) {
			e.src, e.msg = src, v.Msg
		}
	})
	fmt.Printf("total=%d linked=%d\n", total, linked)
	for k, n := range linkFail {
		fmt.Printf("linkfail %5d %s\n", n, k)
	}
	var keys []string
	for k := range hist {
		keys = append(keys, k)
	}
	sort.Strings(keys)
	for _, k := range keys {
		e := hist[k]
		src, msg := e.src, e.msg
		if !strings.HasPrefix(k, "HARNESS") {
			c := &Case{Path: "x.proto", Source: e.src, Imports: depFiles}
			src = minimize(c, k, 1500)
			c.Source = src
			msg = runOracle(c).Msg
		}
		fmt.Printf("==== %s  n=%d\n--- source (%d bytes):\n%.900s\n--- msg:\n%.900s\n", k, e.n, len(src), src, msg)
	}
}

// TestShrink is a development aid (C07_KEY=<key> [C07_N=n]): searches for a falsification with the
// given key, lets rapid shrink it and prints the minimal source.
func TestShrink(t *testing.T) {
	key := os.Getenv("C07_KEY")
	if key == "" {
		t.Skip("no C07_KEY")
	}
	n := 3000
	if s := os.Getenv("C07_N"); s != "" {
		fmt.Sscanf(s, "%d", &n)
	}
	var lastSrc, lastMsg string
	defer func() {
		if lastSrc == "" {
			fmt.Printf("==== nothing found for %s\n", key)
			return
		}
		c := &Case{Path: "x.proto", Source: lastSrc, Imports: depFiles}
		_ = os.WriteFile("/tmp/c07-last.proto", []byte(lastSrc), 0o644)
		m := minimize(c, key, 4000)
		c.Source = m
		v := runOracle(c)
		_ = lastMsg
		fmt.Printf("==== minimal for %s (%d bytes, rapid gave %d)\n%s\n---- msg\n%s\n", key, len(m), len(lastSrc), m, v.Msg)
	}()
	r := evid.R()
	salt := 7
	if s := os.Getenv("C07_SALT"); s != "" {
		fmt.Sscanf(s, "%d", &salt)
	}
	r.Check(t, n, salt, func(t *rapid.T) {
		src, _ := genFile(t)
		c := &Case{Path: "x.proto", Source: src, Imports: depFiles}
		v := runOracle(c)
		if v.HarnessErr != "" {
			if key == "HARNESS" {
				lastSrc, lastMsg = src, v.HarnessErr
				t.Fatalf("harness")
			}
			return
		}
		if v.Key == key {
			lastSrc, lastMsg = src, v.Msg
			t.Fatalf("found")
		}
	})
}
