package c07

// Domain B: linkable multi-file workspaces from internal/protogen; one file at a time is rendered
// with the lexical noise layer (protogen.Noise), the others canonically, and all of them are served
// to the resolver so that the compiled-descriptor comparison always runs.
// Domain C: the formatter's own test inputs with rapid-driven comment / whitespace injection.

import (
	"fmt"
	"os"
	"path/filepath"
	"sort"
	"strings"
	"testing"

	"github.com/bufbuild/bufverif/internal/evid"
	"github.com/bufbuild/bufverif/internal/protogen"
	"pgregory.net/rapid"
)

// wsNoise adapts the comment generator of the grammar domain to protogen's renderer.
type wsNoise struct {
	g    *fgen
	rate int
	odd  int
}

func (n *wsNoise) Gap(sameLine bool) string {
	g := n.g
	if !g.pct("wsgap", n.rate) {
		return ""
	}
	switch g.intn("wsgapkind", 0, 5) {
	case 0:
		return g.nl()
	case 1:
		n.odd++
		return g.blockComment(false, "") + " "
	case 2:
		n.odd++
		return g.lineComment() + g.nl()
	case 3:
		n.odd++
		return g.blockComment(true, "  ") + g.pick("wsafter", " ", g.nl())
	case 4:
		return g.nl() + g.nl()
	default:
		n.odd++
		return g.lineComment() + g.nl() + g.blockComment(false, "") + g.nl()
	}
}

func TestWorkspaceFiles(t *testing.T) {
	r := evid.R()
	r.Check(t, r.Scale(600, 40000), 2, func(t *rapid.T) {
		cfg := protogen.DefaultConfig()
		cfg.MaxModules, cfg.MaxFiles, cfg.MaxMessages = 2, 4, 3
		cfg.CustomOptions = true
		cfg.SyntaxUnspec = false
		ws := protogen.GenWorkspace(t, cfg)
		files := ws.AllFiles()
		all := map[string]string{}
		for _, f := range files {
			all[f.Path] = protogen.RenderFile(f, nil).Text
		}
		target := files[rapid.IntRange(0, len(files)-1).Draw(t, "target")]
		g := &fgen{t: t}
		noise := &wsNoise{g: g, rate: g.pick2("wsrate", 3, 10, 25)}
		src := protogen.RenderFile(target, noise).Text
		imports := map[string]string{}
		for p, s := range all {
			if p != target.Path {
				imports[p] = s
			}
		}
		c := &Case{Path: target.Path, Source: src, Imports: imports, Origin: "workspace"}
		v := runOracle(c)
		if v.HarnessErr != "" {
			t.Fatalf("harness: %s\n--- source:\n%s", v.HarnessErr, src)
		}
		r.Eval()
		r.Class("workspace-file")
		if v.Linked {
			r.Class("workspace-file-linked")
		} else {
			// these workspaces link by construction; noise must not change that
			if _, err := compileLinked(c, c.Source); err != nil {
				t.Fatalf("harness: generated workspace file does not link: %v\n--- source:\n%s", err, src)
			}
		}
		if noise.odd > 0 {
			r.NonTrivial(src)
		}
		if v.Key != "" {
			if r.Fail(t, v.Key, v.Msg, c) {
				return
			}
		}
	})
}

// ---------------------------------------------------------------------------------------------

const corpusDir = "/repo/private/buf/bufformat/testdata"

func corpusFiles(t *testing.T) []string {
	var out []string
	err := filepath.Walk(corpusDir, func(p string, info os.FileInfo, err error) error {
		if err != nil {
			return err
		}
		if !info.IsDir() && strings.HasSuffix(p, ".proto") && !strings.HasSuffix(p, ".golden.proto") {
			out = append(out, p)
		}
		return nil
	})
	if err != nil {
		t.Fatalf("harness: cannot read the formatter corpus: %v", err)
	}
	sort.Strings(out)
	return out
}

// inject inserts comments / line breaks before lexical items of src (always directly in front of
// an item, so an inserted line comment can never swallow a token).
func inject(t *rapid.T, src string, rate int) (string, int) {
	items := splitItems(src)
	if len(items) == 0 {
		return src, 0
	}
	g := &fgen{t: t}
	var b strings.Builder
	n := 0
	for i, it := range items {
		if i > 0 && g.pct("inj", rate) {
			// keep away from empty statements (open known finding) unless the coin says otherwise
			trim := strings.TrimSpace(it)
			prev := strings.TrimSpace(items[i-1])
			nearEmpty := trim == ";" || strings.HasPrefix(trim, ";") || prev == ";"
			if nearEmpty && !g.pct("injempty", 10) {
				evidExcluded()
			} else {
				n++
				switch g.intn("injkind", 0, 4) {
				case 0:
					b.WriteString(g.blockComment(false, "") + " ")
				case 1:
					b.WriteString(g.lineComment() + "\n")
				case 2:
					b.WriteString("\n")
					n--
				case 3:
					b.WriteString(g.blockComment(true, "  ") + "\n")
				default:
					b.WriteString("\n\n" + g.lineComment() + "\n\n")
				}
			}
		}
		b.WriteString(it)
	}
	return b.String(), n
}

// uniquify gives every comment of a corpus file a distinct text (" ~k" appended), so that the
// comment multisets can tell apart the many identical "// Trailing" comments of the corpus.
func uniquify(src string) string {
	items := splitItems(src)
	k := 0
	for i, it := range items {
		body := strings.TrimRight(it, " \t\r\n\f\v")
		ws := it[len(body):]
		switch {
		case strings.HasPrefix(body, "//"):
			k++
			items[i] = fmt.Sprintf("%s ~%d%s", body, k, ws)
		case strings.HasPrefix(body, "/*") && strings.HasSuffix(body, "*/") && len(body) >= 4:
			k++
			items[i] = fmt.Sprintf("%s ~%d */%s", strings.TrimSuffix(body, "*/"), k, ws)
		}
	}
	return strings.Join(items, "")
}

// TestCorpus runs the oracle over the formatter's own test inputs, unmodified and mutated.
func TestCorpus(t *testing.T) {
	r := evid.R()
	files := corpusFiles(t)
	if len(files) < 50 {
		t.Fatalf("harness: only %d corpus files found under %s", len(files), corpusDir)
	}
	texts := make([]string, len(files))
	for i, p := range files {
		data, err := os.ReadFile(p)
		if err != nil {
			t.Fatalf("harness: %v", err)
		}
		texts[i] = string(data)
		if u := uniquify(texts[i]); u != "" {
			if _, err := parseSrc("corpus.proto", u); err == nil {
				texts[i] = u
			}
		}
	}
	rounds := r.Pick(3, 60)
	r.Check(t, r.Scale(len(files)*rounds, len(files)*rounds), 3, func(t *rapid.T) {
		i := rapid.IntRange(0, len(files)-1).Draw(t, "file")
		rate := rapid.SampledFrom([]int{0, 2, 8, 20}).Draw(t, "rate")
		src, n := texts[i], 0
		if rate > 0 {
			src, n = inject(t, texts[i], rate)
		}
		rel := strings.TrimPrefix(files[i], corpusDir+"/")
		c := &Case{Path: "corpus.proto", Source: src, Imports: depFiles, Origin: "corpus:" + rel}
		v := runOracle(c)
		if v.HarnessErr != "" {
			if n == 0 {
				return // a corpus file that does not parse on its own is outside the domain
			}
			t.Fatalf("harness: injected corpus file %s does not parse: %s\n--- source:\n%s", rel, v.HarnessErr, src)
		}
		r.Eval()
		r.Class("corpus-file")
		if n > 0 {
			r.Class("corpus-file-mutated")
			r.NonTrivial(src)
		}
		if v.Key != "" {
			if r.Fail(t, v.Key, fmt.Sprintf("[%s] %s", rel, v.Msg), c) {
				return
			}
		}
	})
}
