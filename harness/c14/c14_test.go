// C14 — all bucket implementations and combinators behave as one path -> bytes map.
//
// A rapid state machine (t.Repeat) drives three stores with random histories of put / delete /
// delete-all / get / stat / walk / copy / reopen and compares every result with a reference model
// (bucketmodel.Model = map[string][]byte, path-wise prefix test from pathgen, no normalpath).
// Store 0 is always a PAIR: the same history is applied to a storagemem bucket and to a storageos
// bucket (optionally both behind the same MapReadWriteBucket wrapping) and both must agree with the
// one model, hence with each other. Read-side combinators (map, filter with matcher expressions,
// union, overlay, strip; random trees of depth <= 3 over the three stores) are built together with
// their reference function and checked with get/stat/walk on every known path and prefix, and by
// tar / zip / storage.Copy round trips into a fresh bucket.
package c14

import (
	"bytes"
	"context"
	"encoding/json"
	"errors"
	"flag"
	"fmt"
	"io"
	"io/fs"
	"os"
	"path/filepath"
	"sort"
	"strconv"
	"strings"
	"syscall"
	"testing"

	"github.com/bufbuild/buf/private/pkg/storage"
	"github.com/bufbuild/buf/private/pkg/storage/storagearchive"
	"github.com/bufbuild/buf/private/pkg/storage/storagemem"
	"github.com/bufbuild/buf/private/pkg/storage/storageos"
	"github.com/bufbuild/bufverif/internal/bucketmodel"
	"github.com/bufbuild/bufverif/internal/evid"
	"github.com/bufbuild/bufverif/internal/pathgen"
	"pgregory.net/rapid"
)

func TestMain(m *testing.M) { evid.Main(m, "C14") }

var ctx = context.Background()

func harness(format string, args ...any) { panic("harness: " + fmt.Sprintf(format, args...)) }

// universe is a prefix-free set of object paths (no path is a directory prefix of another, and no
// directory name equals a file name at the same level after re-rooting on any directory), with
// string-prefix traps: "a/b" vs "a/bc" vs "a/b.txt", "a" vs "ab" vs "a.b" vs "a b", "foo/bar" vs
// "foo/barbaz.proto" vs "foo/bar.proto", "x" vs "xy".
var universe = []string{
	"a/b/c.txt", "a/b/d.proto", "a/bc/e.txt", "a/b.txt", "ab/c.txt", "a.b/x", "a b/y z.txt", "a  b/w",
	"foo/bar/baz.proto", "foo/barbaz.proto", "foo/bar.proto", "x", "xy", "ü/é.txt", "..a/f", "dir/..b",
	"dir/sub/deep/file.bin",
}

// ---------------------------------------------------------------------------------------------
// case description (everything needed to replay a history without a generator)

type storeSpec struct {
	Backends []string `json:"backends"`        // "mem" | "os" (fast scratch dir) | "os-tmpdir"
	Wrap     []string `json:"wrap,omitempty"`  // successive MapOnPrefix prefixes (outermost bucket first)
	Chain    bool     `json:"chain,omitempty"` // one MapReadWriteBucket with all mappers instead of nesting
}

type setup struct {
	Pool   []string    `json:"pool"`
	Stores []storeSpec `json:"stores"`
}

type op struct {
	Kind    string            `json:"op"`
	Store   int               `json:"store"`
	Path    string            `json:"path,omitempty"` // as spelled
	Size    int               `json:"size,omitempty"`
	Seed    int               `json:"seed,omitempty"`
	Atomic  bool              `json:"atomic,omitempty"`
	To      int               `json:"to,omitempty"`
	Variant int               `json:"variant,omitempty"` // which backend of a pair is read
	View    *bucketmodel.View `json:"view,omitempty"`
	Format  string            `json:"format,omitempty"` // tar | zip | zip-deflate | copy
	Dest    string            `json:"dest,omitempty"`   // mem | os
	Probes  []string          `json:"probes,omitempty"`
	ToPath  string            `json:"to_path,omitempty"` // copy-path: destination path as spelled
	Extern  bool              `json:"extern,omitempty"`  // CopyWithExternalAndLocalPaths (only where the destination supports it)
	Helper  bool              `json:"helper,omitempty"`  // put through storage.PutPath instead of Put/Write/Close
	List    string            `json:"list,omitempty"`    // list: all-paths | all-object-infos | is-empty | exists
}

type c14Case struct {
	Setup setup `json:"setup"`
	Ops   []op  `json:"ops"`
}

func content(size, seed int) []byte {
	b := make([]byte, size)
	for i := range b {
		b[i] = byte((i*131 + seed*17 + i/251) % 251)
	}
	return b
}

// ---------------------------------------------------------------------------------------------
// machine

type backend struct {
	kind    string
	dir     string
	base    storage.ReadWriteBucket
	subject storage.ReadWriteBucket
}

type store struct {
	spec       storeSpec
	fullPrefix string
	sentinels  bucketmodel.Model
	backends   []*backend
	model      bucketmodel.Model
}

type machine struct {
	setup   setup
	stores  []*store
	fastDir string
	realDir string
	nDirs   int
	class   func(string)

	puts            int
	deleteAllAfter2 bool
	walkNonEmpty    bool
}

func wrapBucket(base storage.ReadWriteBucket, spec storeSpec) storage.ReadWriteBucket {
	if len(spec.Wrap) == 0 {
		return base
	}
	if spec.Chain {
		mappers := make([]storage.Mapper, len(spec.Wrap))
		for i, p := range spec.Wrap {
			mappers[i] = storage.MapOnPrefix(p)
		}
		return storage.MapReadWriteBucket(base, mappers...)
	}
	b := base
	for _, p := range spec.Wrap {
		b = storage.MapReadWriteBucket(b, storage.MapOnPrefix(p))
	}
	return b
}

func openOS(dir string) storage.ReadWriteBucket {
	if err := os.MkdirAll(dir, 0o755); err != nil {
		harness("mkdir %s: %v", dir, err)
	}
	b, err := storageos.NewProvider().NewReadWriteBucket(dir)
	if err != nil {
		harness("storageos bucket at %s: %v", dir, err)
	}
	return b
}

func (m *machine) newDir(kind string) string {
	m.nDirs++
	root := m.fastDir
	if kind == "os-tmpdir" {
		root = m.realDir
	}
	return filepath.Join(root, "b"+strconv.Itoa(m.nDirs))
}

func newMachine(su setup, fastDir, realDir string, class func(string)) *machine {
	m := &machine{setup: su, fastDir: fastDir, realDir: realDir, class: class}
	for _, spec := range su.Stores {
		st := &store{spec: spec, model: bucketmodel.Model{}, sentinels: bucketmodel.Model{}}
		st.fullPrefix = strings.Join(spec.Wrap, "/")
		if st.fullPrefix != "" {
			comps := strings.Split(st.fullPrefix, "/")
			for i := range comps {
				level := strings.Join(comps[:i], "/")
				for _, rel := range []string{"s.txt", comps[i] + "x/s.txt"} {
					k := pathgen.JoinNorm(level, rel)
					st.sentinels[k] = []byte("sentinel " + k)
				}
			}
		}
		for _, kind := range spec.Backends {
			b := &backend{kind: kind}
			if kind == "mem" {
				b.base = storagemem.NewReadWriteBucket()
			} else {
				b.dir = m.newDir(kind)
				b.base = openOS(b.dir)
			}
			for _, k := range st.sentinels.Keys() {
				if err := storage.PutPath(ctx, b.base, k, st.sentinels[k]); err != nil {
					harness("sentinel %q: %v", k, err)
				}
			}
			b.subject = wrapBucket(b.base, spec)
			st.backends = append(st.backends, b)
		}
		m.stores = append(m.stores, st)
	}
	return m
}

func (m *machine) poolSet() map[string]struct{} {
	out := map[string]struct{}{}
	for _, p := range m.setup.Pool {
		out[p] = struct{}{}
	}
	return out
}

// viewReads reports whether the view has the store as a leaf.
func (m *machine) viewReads(v *bucketmodel.View, store int) bool {
	if v.Kind == "store" {
		return v.Store == store
	}
	for _, s := range v.Subs {
		if m.viewReads(s, store) {
			return true
		}
	}
	return false
}

func (m *machine) models() []bucketmodel.Model {
	out := make([]bucketmodel.Model, len(m.stores))
	for i, s := range m.stores {
		out[i] = s.model
	}
	return out
}

func (m *machine) readBuckets(variant int) []storage.ReadBucket {
	out := make([]storage.ReadBucket, len(m.stores))
	for i, s := range m.stores {
		out[i] = s.backends[variant%len(s.backends)].subject
	}
	return out
}

func (b *backend) label(si int) string { return fmt.Sprintf("store %d (%s)", si, b.kind) }

// ---------------------------------------------------------------------------------------------
// observation helpers

// observe counts behaviour that is recorded but not asserted.
var observe func(string)

func isNotExist(err error) bool { return errors.Is(err, fs.ErrNotExist) }

func errStr(err error) string {
	if err == nil {
		return "<nil>"
	}
	return err.Error()
}

type walkResult struct {
	paths    []string
	external []string
	err      error
}

func walk(b storage.ReadBucket, prefix string) walkResult {
	var w walkResult
	w.err = b.Walk(ctx, prefix, func(info storage.ObjectInfo) error {
		w.paths = append(w.paths, info.Path())
		w.external = append(w.external, info.ExternalPath())
		return nil
	})
	return w
}

func sortedCopy(s []string) []string {
	out := append([]string{}, s...)
	sort.Strings(out)
	return out
}

// compareWalk checks visited against want (both path lists; want sorted). prefix is the normal
// form of the walked prefix and only used to classify a string-wise prefix match.
func compareWalk(what string, visited, want []string, prefix string) (string, string) {
	got := sortedCopy(visited)
	for i := 1; i < len(got); i++ {
		if got[i] == got[i-1] {
			return "walk-duplicate", fmt.Sprintf("%s visited %q more than once (visited %q)", what, got[i], visited)
		}
	}
	wantSet := map[string]bool{}
	for _, k := range want {
		wantSet[k] = true
	}
	for _, g := range got {
		if !wantSet[g] {
			key := "model-mismatch-walk"
			if n, v := pathgen.RefNormalize(g); v != pathgen.OK || n != g || g == "." {
				key = "walk-path-outside-view" // not a normalised path inside the bucket at all
			} else if prefix != "." && strings.HasPrefix(g, prefix) && !pathgen.Under(prefix, g) {
				key = "walk-prefix-stringwise"
			}
			return key, fmt.Sprintf("%s visited %q, which the model does not have under that prefix; visited %q, model %q", what, g, got, want)
		}
	}
	if len(got) != len(want) {
		return "model-mismatch-walk", fmt.Sprintf("%s visited %q, the model has %q", what, got, want)
	}
	return "", ""
}

func readAll(b storage.ReadBucket, path string) ([]byte, error) {
	obj, err := b.Get(ctx, path)
	if err != nil {
		return nil, err
	}
	data, err := io.ReadAll(obj)
	return data, errors.Join(err, obj.Close())
}

func describe(data []byte) string {
	if len(data) <= 40 {
		return fmt.Sprintf("%q", data)
	}
	return fmt.Sprintf("%d bytes %q…", len(data), data[:24])
}

// checkObject checks get and stat of one path against the expectation.
//
//	want != nil : object with these bytes;  dup : error that is not not-exist;  otherwise not-exist
//	anyErr: the path denotes the root itself: any error will do
func checkObject(b storage.ReadBucket, what, path string, want []byte, exists, dup, anyErr, strip bool) (string, string) {
	data, gerr := readAll(b, path)
	info, serr := b.Stat(ctx, path)
	switch {
	case anyErr:
		if gerr == nil || serr == nil {
			return "root-as-object", fmt.Sprintf("%s: get/stat of %q (the root itself) succeeded", what, path)
		}
	case dup:
		if gerr == nil || isNotExist(gerr) {
			return "union-duplicate-hidden", fmt.Sprintf("%s: get %q: the path is in two members of a union, got err=%s", what, path, errStr(gerr))
		}
		if serr == nil || isNotExist(serr) {
			return "union-duplicate-hidden", fmt.Sprintf("%s: stat %q: the path is in two members of a union, got err=%s", what, path, errStr(serr))
		}
	case exists:
		if gerr != nil {
			return "model-mismatch-get", fmt.Sprintf("%s: get %q failed (%s), the model has %s", what, path, errStr(gerr), describe(want))
		}
		if !bytes.Equal(data, want) {
			return "model-mismatch-get", fmt.Sprintf("%s: get %q returned %s, the model has %s", what, path, describe(data), describe(want))
		}
		if serr != nil {
			return "model-mismatch-stat", fmt.Sprintf("%s: stat %q failed (%s) although the object exists", what, path, errStr(serr))
		}
		if n, _ := pathgen.RefNormalize(path); info.Path() != n && observe != nil {
			// ObjectInfo documents Path() as normalised; storageos and the map view echo the
			// spelling they were given. Outside the property statement: counted, not asserted.
			observe("stat-path-echoes-spelling")
		}
		if strip && info.ExternalPath() != info.Path() {
			return "strip-external-path", fmt.Sprintf("%s: stat %q: external path %q differs from path %q", what, path, info.ExternalPath(), info.Path())
		}
	default:
		if gerr == nil {
			return "model-mismatch-get", fmt.Sprintf("%s: get %q returned %s, the model has no such object", what, path, describe(data))
		}
		if !isNotExist(gerr) {
			return "absent-not-notexist", fmt.Sprintf("%s: get %q of an absent object: error %q is not a not-exist error", what, path, errStr(gerr))
		}
		if serr == nil {
			return "model-mismatch-stat", fmt.Sprintf("%s: stat %q succeeded, the model has no such object", what, path)
		}
		if !isNotExist(serr) {
			return "absent-not-notexist", fmt.Sprintf("%s: stat %q of an absent object: error %q is not a not-exist error", what, path, errStr(serr))
		}
	}
	return "", ""
}

// fullCheck: Walk("") + read of everything equals the model, each path once; for wrapped stores the
// underlying bucket holds exactly the sentinels plus the model under the prefix.
// hint (normal form of a delete-all prefix, or "") classifies string-wise over-deletion.
func (m *machine) fullCheck(si int, hint string) (string, string) {
	st := m.stores[si]
	want := st.model.Keys()
	for _, b := range st.backends {
		what := b.label(si)
		w := walk(b.subject, "")
		if w.err != nil {
			return "walk-error", fmt.Sprintf("%s: Walk(\"\") failed: %v", what, w.err)
		}
		if key, msg := compareWalk(what+": Walk(\"\")", w.paths, want, "."); key != "" {
			if hint != "" && hint != "." {
				got := map[string]bool{}
				for _, p := range w.paths {
					got[p] = true
				}
				for _, k := range want {
					if !got[k] && strings.HasPrefix(k, hint) && !pathgen.Under(hint, k) {
						return "delete-all-prefix-stringwise", fmt.Sprintf("%s: DeleteAll(%q) also removed %q, which is not path-wise under the prefix", what, hint, k)
					}
				}
			}
			return key, msg
		}
		for _, k := range want {
			if key, msg := checkObject(b.subject, what, k, st.model[k], true, false, false, false); key != "" {
				return key, msg
			}
		}
		if st.fullPrefix == "" {
			continue
		}
		under := bucketmodel.Model{}
		for k, v := range st.sentinels {
			under[k] = v
		}
		for k, v := range st.model {
			under[st.fullPrefix+"/"+k] = v
		}
		uw := walk(b.base, "")
		if uw.err != nil {
			return "walk-error", fmt.Sprintf("%s: Walk(\"\") of the underlying bucket failed: %v", what, uw.err)
		}
		if key, msg := compareWalk(what+": underlying bucket of the mapped view, Walk(\"\")", uw.paths, under.Keys(), "."); key != "" {
			return "mapped-view-touched-outside", msg
		}
		for _, k := range st.sentinels.Keys() {
			v := st.sentinels[k]
			data, err := readAll(b.base, k)
			if err != nil || !bytes.Equal(data, v) {
				return "mapped-view-touched-outside", fmt.Sprintf("%s: sentinel %q beside the mapped prefix %q changed (err=%s)", what, k, st.fullPrefix, errStr(err))
			}
		}
	}
	return "", ""
}

// belowExistingFile: some proper ancestor of the path is an object of the model. A disk bucket then
// gets ENOTDIR from the OS where a memory bucket sees "nothing there"; the interface leaves the
// error open, so only the effect is checked.
func belowExistingFile(model bucketmodel.Model, norm string) bool {
	for _, anc := range bucketmodel.Ancestors(norm) {
		if _, ok := model[anc]; ok {
			return true
		}
	}
	return false
}

func isDirOf(model bucketmodel.Model, pool []string, norm string) bool {
	for k := range model {
		if pathgen.StrictlyUnder(norm, k) {
			return true
		}
	}
	for _, k := range pool { // an orphan directory may be left behind on disk after its files are gone
		if pathgen.StrictlyUnder(norm, k) {
			return true
		}
	}
	return false
}

// ---------------------------------------------------------------------------------------------
// actions

func (m *machine) apply(o op) (string, string) {
	switch o.Kind {
	case "put":
		return m.applyPut(o)
	case "delete":
		return m.applyDelete(o)
	case "delete-all":
		return m.applyDeleteAll(o)
	case "get", "stat":
		return m.applyGet(o)
	case "walk":
		return m.applyWalk(o)
	case "copy":
		return m.applyCopy(o)
	case "reopen":
		return m.applyReopen(o)
	case "view":
		return m.applyView(o)
	case "roundtrip":
		return m.applyRoundTrip(o)
	case "copy-path":
		return m.applyCopyPath(o)
	case "copy-object":
		return m.applyCopyObject(o)
	case "copy-reader":
		return m.applyCopyReader(o)
	case "list":
		return m.applyList(o)
	}
	harness("unknown op %q", o.Kind)
	return "", ""
}

func (m *machine) norm(o op) string {
	n, v := pathgen.RefNormalize(o.Path)
	if v != pathgen.OK {
		harness("generated path %q is not a contained path", o.Path)
	}
	return n
}

func (m *machine) applyPut(o op) (string, string) {
	st := m.stores[o.Store]
	n := m.norm(o)
	data := content(o.Size, o.Seed)
	for _, b := range st.backends {
		var opts []storage.PutOption
		if o.Atomic {
			opts = append(opts, storage.PutWithAtomic())
		}
		var err error
		if o.Helper {
			err = storage.PutPath(ctx, b.subject, o.Path, data, opts...)
		} else {
			var w storage.WriteObjectCloser
			w, err = b.subject.Put(ctx, o.Path, opts...)
			if err == nil {
				half := len(data) / 2
				_, err1 := w.Write(data[:half])
				_, err2 := w.Write(data[half:])
				err = errors.Join(err1, err2, w.Close())
			}
		}
		if err != nil {
			return "put-failed", fmt.Sprintf("%s: Put(%q) (normal form %q, %d bytes, atomic=%v) failed: %v", b.label(o.Store), o.Path, n, len(data), o.Atomic, err)
		}
	}
	st.model[n] = data
	m.puts++
	return m.fullCheck(o.Store, "")
}

func (m *machine) applyDelete(o op) (string, string) {
	st := m.stores[o.Store]
	n := m.norm(o)
	_, present := st.model[n]
	for _, b := range st.backends {
		err := b.subject.Delete(ctx, o.Path)
		what := fmt.Sprintf("%s: Delete(%q) (normal form %q)", b.label(o.Store), o.Path, n)
		switch {
		case present:
			if err != nil {
				return "delete-failed", fmt.Sprintf("%s of an existing object failed: %v", what, err)
			}
		case n == "." || belowExistingFile(st.model, n) || isDirOf(st.model, m.setup.Pool, n):
			// root / below a file / a directory: the interface leaves the result open; no object may change
			if err == nil {
				m.class("delete-odd-path-nil")
			} else if isNotExist(err) {
				m.class("delete-odd-path-notexist")
			} else {
				m.class("delete-odd-path-other-error")
			}
		default:
			if err == nil {
				return "delete-absent-succeeded", fmt.Sprintf("%s of an absent object returned no error", what)
			}
			if !isNotExist(err) {
				return "absent-not-notexist", fmt.Sprintf("%s of an absent object: error %q is not a not-exist error", what, err)
			}
		}
	}
	delete(st.model, n)
	return m.fullCheck(o.Store, "")
}

func (m *machine) applyDeleteAll(o op) (string, string) {
	st := m.stores[o.Store]
	n := m.norm(o)
	odd := belowExistingFile(st.model, n)
	for _, b := range st.backends {
		err := b.subject.DeleteAll(ctx, o.Path)
		if err != nil {
			if odd {
				m.class("delete-all-below-file-error")
				continue
			}
			return "delete-all-failed", fmt.Sprintf("%s: DeleteAll(%q) (normal form %q) failed: %v", b.label(o.Store), o.Path, n, err)
		}
	}
	if m.puts >= 2 {
		m.deleteAllAfter2 = true
	}
	st.model.DeleteAll(n)
	return m.fullCheck(o.Store, n)
}

func (m *machine) applyGet(o op) (string, string) {
	st := m.stores[o.Store]
	n := m.norm(o)
	want, present := st.model[n]
	for _, b := range st.backends {
		if key, msg := checkObject(b.subject, b.label(o.Store), o.Path, want, present, false, n == ".", false); key != "" {
			return key, msg + fmt.Sprintf(" (normal form %q)", n)
		}
		data, err := storage.ReadPath(ctx, b.subject, o.Path)
		switch {
		case present && (err != nil || !bytes.Equal(data, want)):
			return "model-mismatch-get", fmt.Sprintf("%s: storage.ReadPath(%q) = %s, err=%s; the model has %s", b.label(o.Store), o.Path, describe(data), errStr(err), describe(want))
		case !present && err == nil:
			return "model-mismatch-get", fmt.Sprintf("%s: storage.ReadPath(%q) returned %s, the model has no such object", b.label(o.Store), o.Path, describe(data))
		case !present && n != "." && !isNotExist(err):
			return "absent-not-notexist", fmt.Sprintf("%s: storage.ReadPath(%q) of an absent object: error %q is not a not-exist error", b.label(o.Store), o.Path, err)
		}
	}
	return "", ""
}

func (m *machine) applyWalk(o op) (string, string) {
	st := m.stores[o.Store]
	n := m.norm(o)
	want := st.model.Under(n)
	odd := belowExistingFile(st.model, n)
	if n != "." {
		m.walkNonEmpty = true
	}
	for _, b := range st.backends {
		what := fmt.Sprintf("%s: Walk(%q) (normal form %q)", b.label(o.Store), o.Path, n)
		w := walk(b.subject, o.Path)
		if w.err != nil {
			if odd && len(w.paths) == 0 {
				m.class("walk-below-file-error")
				continue
			}
			return "walk-error", fmt.Sprintf("%s failed: %v", what, w.err)
		}
		if key, msg := compareWalk(what, w.paths, want, n); key != "" {
			return key, msg
		}
	}
	return "", ""
}

// copyOptions: the external-path option is only used where every backend of the destination
// supports it (an unsupported destination fails half-way, which is C15's subject, not C14's).
func (m *machine) copyOptions(o op, to *store) ([]storage.CopyOption, string) {
	var opts []storage.CopyOption
	desc := fmt.Sprintf("atomic=%v", o.Atomic)
	if o.Atomic {
		opts = append(opts, storage.CopyWithAtomic())
	}
	if o.Extern {
		supported := true
		for _, b := range to.backends {
			supported = supported && b.subject.SetExternalAndLocalPathsSupported()
		}
		if supported {
			opts = append(opts, storage.CopyWithExternalAndLocalPaths())
			desc += ", external+local paths"
			m.class("copy-with-external-paths")
		}
	}
	return opts, desc
}

// checkBoth: full comparison of the destination and of the source store.
func (m *machine) checkBoth(from, to int) (string, string) {
	if key, msg := m.fullCheck(to, ""); key != "" {
		return key, msg
	}
	if from != to {
		return m.fullCheck(from, "")
	}
	return "", ""
}

// applyCopyPath: storage.CopyPath(A, p, B, q) is B[q] = A[p] on the maps, nothing else changes.
func (m *machine) applyCopyPath(o op) (string, string) {
	from, to := m.stores[o.Store], m.stores[o.To]
	pn := m.norm(o)
	qn, v := pathgen.RefNormalize(o.ToPath)
	if v != pathgen.OK || qn == "." {
		harness("copy-path destination %q", o.ToPath)
	}
	srcObjs, dups := from.model, map[string]bool{}
	if o.View != nil {
		ref := o.View.Ref(m.models())
		srcObjs, dups = ref.Objs, ref.Dups
	} else if o.Store == o.To && pn == qn {
		harness("copy-path of %q onto itself", pn)
	}
	data, present := srcObjs[pn]
	opts, optDesc := m.copyOptions(o, to)
	for i, dst := range to.backends {
		var src storage.ReadBucket
		srcName := ""
		switch {
		case o.View != nil:
			src = o.View.Build(m.readBuckets(o.Variant))
			srcName = "view " + viewString(o.View)
		case o.Store == o.To:
			src, srcName = dst.subject, dst.label(o.Store)
		default:
			b := from.backends[o.Variant%len(from.backends)]
			src, srcName = b.subject, b.label(o.Store)
		}
		_ = i
		err := storage.CopyPath(ctx, src, o.Path, dst.subject, o.ToPath, opts...)
		what := fmt.Sprintf("storage.CopyPath(%s, %q -> %s, %q; %s) (normal forms %q -> %q)", srcName, o.Path, dst.label(o.To), o.ToPath, optDesc, pn, qn)
		switch {
		case present:
			if err != nil {
				return "copy-path-failed", fmt.Sprintf("%s failed: %v", what, err)
			}
			got, gerr := readAll(dst.subject, qn)
			if gerr != nil || !bytes.Equal(got, data) {
				atSource := "nothing"
				if pn != qn {
					if other, oerr := readAll(dst.subject, pn); oerr == nil {
						atSource = describe(other)
					}
				}
				return "copy-helper-wrong-destination", fmt.Sprintf("%s returned no error, but the destination has %s (err=%s) at %q instead of %s; at the SOURCE path %q the destination now has %s (model: %s)",
					what, describe(got), errStr(gerr), qn, describe(data), pn, atSource, describeOpt(to.model, pn))
			}
		case dups[pn]:
			if err == nil || isNotExist(err) {
				return "union-duplicate-hidden", fmt.Sprintf("%s: the source path is in two members of a union, got err=%s", what, errStr(err))
			}
		case err == nil:
			return "copy-path-absent-succeeded", fmt.Sprintf("%s of an absent source object returned no error", what)
		case pn != "." && !isNotExist(err):
			return "absent-not-notexist", fmt.Sprintf("%s of an absent source object: error %q is not a not-exist error", what, err)
		}
	}
	if present {
		to.model[qn] = data
	}
	return m.checkBoth(o.Store, o.To)
}

func describeOpt(model bucketmodel.Model, k string) string {
	if d, ok := model[k]; ok {
		return describe(d)
	}
	return "no object"
}

// applyCopyObject: storage.CopyReadObject(B, A.Get(p)) is B[p] = A[p].
func (m *machine) applyCopyObject(o op) (string, string) {
	from, to := m.stores[o.Store], m.stores[o.To]
	if o.Store == o.To {
		harness("copy-object within one store")
	}
	pn := m.norm(o)
	data, present := from.model[pn]
	src := from.backends[o.Variant%len(from.backends)]
	opts, optDesc := m.copyOptions(o, to)
	for _, dst := range to.backends {
		what := fmt.Sprintf("storage.CopyReadObject(%s <- %s.Get(%q); %s) (normal form %q)", dst.label(o.To), src.label(o.Store), o.Path, optDesc, pn)
		obj, err := src.subject.Get(ctx, o.Path)
		if !present {
			if err == nil {
				_ = obj.Close()
				return "model-mismatch-get", fmt.Sprintf("%s: Get succeeded, the model has no such object", what)
			}
			continue
		}
		if err != nil {
			return "model-mismatch-get", fmt.Sprintf("%s: Get failed: %v", what, err)
		}
		err = errors.Join(storage.CopyReadObject(ctx, dst.subject, obj, opts...), obj.Close())
		if err != nil {
			return "copy-object-failed", fmt.Sprintf("%s failed: %v", what, err)
		}
		if got, gerr := readAll(dst.subject, pn); gerr != nil || !bytes.Equal(got, data) {
			return "copy-helper-wrong-destination", fmt.Sprintf("%s returned no error, but the destination has %s (err=%s) at %q instead of %s", what, describe(got), errStr(gerr), pn, describe(data))
		}
	}
	if present {
		to.model[pn] = data
	}
	return m.checkBoth(o.Store, o.To)
}

// applyCopyReader: storage.CopyReader(B, reader, q) is B[q] = bytes.
func (m *machine) applyCopyReader(o op) (string, string) {
	st := m.stores[o.Store]
	n := m.norm(o)
	data := content(o.Size, o.Seed)
	for _, b := range st.backends {
		if err := storage.CopyReader(ctx, b.subject, bytes.NewReader(data), o.Path); err != nil {
			return "put-failed", fmt.Sprintf("%s: storage.CopyReader(%q) (normal form %q, %d bytes) failed: %v", b.label(o.Store), o.Path, n, len(data), err)
		}
	}
	st.model[n] = data
	return m.fullCheck(o.Store, "")
}

func equalStrings(a, b []string) bool {
	if len(a) != len(b) {
		return false
	}
	for i := range a {
		if a[i] != b[i] {
			return false
		}
	}
	return true
}

// checkListing checks the read helpers built on Walk / Stat for one prefix or path.
//
//	want: sorted model paths under the prefix; mustFail: a union duplicate lies under the prefix;
//	tolerate: an error with an empty result is acceptable (prefix below an object of a disk bucket)
func checkListing(b storage.ReadBucket, what, helper, p string, want []string, mustFail bool, tolerate func(error) bool) (string, string) {
	switch helper {
	case "all-paths", "all-object-infos":
		var got []string
		var err error
		if helper == "all-paths" {
			got, err = storage.AllPaths(ctx, b, p)
		} else {
			var infos []storage.ObjectInfo
			infos, err = storage.AllObjectInfos(ctx, b, p)
			for _, info := range infos {
				got = append(got, info.Path())
			}
		}
		name := fmt.Sprintf("%s: storage.%s(%q)", what, map[string]string{"all-paths": "AllPaths", "all-object-infos": "AllObjectInfos"}[helper], p)
		if mustFail {
			if err == nil {
				return "union-duplicate-hidden", fmt.Sprintf("%s returned no error although a path under the prefix is in two members of a union (%q)", name, got)
			}
			return "", ""
		}
		if err != nil {
			if tolerate(err) && len(got) == 0 && len(want) == 0 {
				return "", ""
			}
			return "walk-error", fmt.Sprintf("%s failed: %v", name, err)
		}
		if !equalStrings(got, want) { // documented: sorted
			n, _ := pathgen.RefNormalize(p)
			if key, msg := compareWalk(name, got, want, n); key != "" {
				return key, msg
			}
			return "listing-not-sorted", fmt.Sprintf("%s returned %q, expected the sorted list %q", name, got, want)
		}
	case "is-empty":
		if mustFail {
			return "", "" // the walk stops at the first object, before or after it meets the duplicate
		}
		empty, err := storage.IsEmpty(ctx, b, p)
		if err != nil {
			if tolerate(err) && len(want) == 0 {
				return "", ""
			}
			return "walk-error", fmt.Sprintf("%s: storage.IsEmpty(%q) failed: %v", what, p, err)
		}
		if empty != (len(want) == 0) {
			return "model-mismatch-walk", fmt.Sprintf("%s: storage.IsEmpty(%q) = %v, the model has %q under the prefix", what, p, empty, want)
		}
	default:
		harness("unknown listing helper %q", helper)
	}
	return "", ""
}

// checkExists: storage.Exists(path) is "path is a key of the map".
func checkExists(b storage.ReadBucket, what, p string, present, dup, root bool) (string, string) {
	exists, err := storage.Exists(ctx, b, p)
	switch {
	case dup:
		if err == nil {
			return "union-duplicate-hidden", fmt.Sprintf("%s: storage.Exists(%q) = %v without error although the path is in two members of a union", what, p, exists)
		}
	case root:
		if exists {
			return "root-as-object", fmt.Sprintf("%s: storage.Exists(%q) (the root itself) = true", what, p)
		}
	case err != nil:
		return "absent-not-notexist", fmt.Sprintf("%s: storage.Exists(%q) failed: %v", what, p, err)
	case exists != present:
		return "model-mismatch-stat", fmt.Sprintf("%s: storage.Exists(%q) = %v, the model says %v", what, p, exists, present)
	}
	return "", ""
}

func (m *machine) applyList(o op) (string, string) {
	st := m.stores[o.Store]
	n := m.norm(o)
	for _, b := range st.backends {
		what := b.label(o.Store)
		if o.List == "exists" {
			_, present := st.model[n]
			if key, msg := checkExists(b.subject, what, o.Path, present, false, n == "."); key != "" {
				return key, msg + fmt.Sprintf(" (normal form %q)", n)
			}
			continue
		}
		odd := belowExistingFile(st.model, n)
		if key, msg := checkListing(b.subject, what, o.List, o.Path, st.model.Under(n), false, func(error) bool { return odd }); key != "" {
			return key, msg + fmt.Sprintf(" (normal form %q)", n)
		}
	}
	return "", ""
}

func (m *machine) applyCopy(o op) (string, string) {
	from, to := m.stores[o.Store], m.stores[o.To]
	src := from.backends[o.Variant%len(from.backends)]
	opts, optDesc := m.copyOptions(o, to)
	for _, dst := range to.backends {
		n, err := storage.Copy(ctx, src.subject, dst.subject, opts...)
		what := fmt.Sprintf("storage.Copy(%s -> %s, %s)", src.label(o.Store), dst.label(o.To), optDesc)
		if err != nil {
			return "copy-failed", fmt.Sprintf("%s failed: %v", what, err)
		}
		if n != len(from.model) {
			return "copy-count", fmt.Sprintf("%s reported %d objects, the source has %d", what, n, len(from.model))
		}
	}
	for k, v := range from.model {
		to.model[k] = v
	}
	return m.checkBoth(o.Store, o.To)
}

func (m *machine) applyReopen(o op) (string, string) {
	st := m.stores[o.Store]
	for _, b := range st.backends {
		if b.kind == "mem" {
			continue
		}
		// DeleteAll("") on a disk bucket removes the root directory itself; openOS recreates it
		b.base = openOS(b.dir)
		b.subject = wrapBucket(b.base, st.spec)
	}
	return m.fullCheck(o.Store, "")
}

// checkView compares one read-only bucket with its reference on every known path and prefix.
func checkView(b storage.ReadBucket, what string, ref bucketmodel.RefView, probes []string, strip bool) (string, string) {
	keys := ref.AllKeys()
	prefixSet := map[string]bool{"": true, ".": true, "nodir": true, "nodir/sub": true}
	pathSet := map[string]bool{"nodir/x": true}
	for _, k := range keys {
		pathSet[k] = true
		prefixSet[k] = true
		for _, a := range bucketmodel.Ancestors(k) {
			prefixSet[a] = true
			pathSet[a] = true // a directory is not an object
		}
	}
	for _, p := range probes {
		prefixSet[p] = true
		pathSet[p] = true
	}
	prefixes := make([]string, 0, len(prefixSet))
	for p := range prefixSet {
		prefixes = append(prefixes, p)
	}
	sort.Strings(prefixes)
	enotdir := func(err error) bool { return errors.Is(err, syscall.ENOTDIR) }
	for i, p := range prefixes {
		n, v := pathgen.RefNormalize(p)
		if v != pathgen.OK {
			harness("probe %q is not contained", p)
		}
		// the read helpers built on Walk take turns over the prefixes
		helper := []string{"all-paths", "all-object-infos", "is-empty"}[i%3]
		if key, msg := checkListing(b, what, helper, p, ref.Objs.Under(n), ref.WalkMustFail(n), enotdir); key != "" {
			return key, msg
		}
		w := walk(b, p)
		wwhat := fmt.Sprintf("%s: Walk(%q) (normal form %q)", what, p, n)
		if ref.WalkMustFail(n) {
			if w.err == nil {
				return "union-duplicate-hidden", fmt.Sprintf("%s returned no error although a path under the prefix is in two members of a union (visited %q)", wwhat, w.paths)
			}
			continue
		}
		if w.err != nil {
			// a prefix below an object of some disk member (possibly one the view hides): the OS
			// answers ENOTDIR; nothing is under such a prefix and nothing may be visited
			if errors.Is(w.err, syscall.ENOTDIR) && len(w.paths) == 0 && len(ref.Objs.Under(n)) == 0 {
				continue
			}
			return "walk-error", fmt.Sprintf("%s failed: %v", wwhat, w.err)
		}
		if key, msg := compareWalk(wwhat, w.paths, ref.Objs.Under(n), n); key != "" {
			return key, msg
		}
		if strip {
			for i := range w.paths {
				if w.external[i] != w.paths[i] {
					return "strip-external-path", fmt.Sprintf("%s: external path %q differs from path %q", wwhat, w.external[i], w.paths[i])
				}
			}
		}
	}
	paths := make([]string, 0, len(pathSet))
	for p := range pathSet {
		paths = append(paths, p)
	}
	sort.Strings(paths)
	for _, p := range paths {
		n, v := pathgen.RefNormalize(p)
		if v != pathgen.OK {
			harness("probe %q is not contained", p)
		}
		want, exists := ref.Objs[n]
		if key, msg := checkObject(b, what, p, want, exists, ref.Dups[n], n == ".", strip); key != "" {
			return key, msg
		}
		if key, msg := checkExists(b, what, p, exists, ref.Dups[n], n == "."); key != "" {
			return key, msg
		}
	}
	return "", ""
}

func (m *machine) applyView(o op) (string, string) {
	ref := o.View.Ref(m.models())
	variants := 1
	for _, s := range m.stores {
		if len(s.backends) > variants {
			variants = len(s.backends)
		}
	}
	if len(ref.Dups) > 0 {
		m.class("view-with-duplicates")
	}
	for variant := 0; variant < variants; variant++ {
		b := o.View.Build(m.readBuckets(variant))
		what := fmt.Sprintf("view %s (variant %d)", viewString(o.View), variant)
		if key, msg := checkView(b, what, ref, o.Probes, o.View.Kind == "strip"); key != "" {
			return key, msg
		}
	}
	return "", ""
}

func (m *machine) applyRoundTrip(o op) (string, string) {
	ref := o.View.Ref(m.models())
	src := o.View.Build(m.readBuckets(o.Variant))
	what := fmt.Sprintf("%s round trip of view %s", o.Format, viewString(o.View))
	var dst storage.ReadWriteBucket
	if o.Dest == "os" && bucketmodel.PrefixFree(ref.Objs.Keys()) {
		dir := m.newDir("os")
		dst = openOS(dir)
		defer os.RemoveAll(dir)
	} else {
		dst = storagemem.NewReadWriteBucket()
	}
	var err error
	var buf bytes.Buffer
	switch o.Format {
	case "tar":
		err = storagearchive.Tar(ctx, src, &buf)
	case "zip", "zip-deflate":
		err = storagearchive.Zip(ctx, src, &buf, o.Format == "zip-deflate")
	case "copy":
		var n int
		n, err = storage.Copy(ctx, src, dst)
		if err == nil && n != len(ref.Objs) {
			return "copy-count", fmt.Sprintf("%s: Copy reported %d objects, the view has %d", what, n, len(ref.Objs))
		}
	default:
		harness("unknown format %q", o.Format)
	}
	if ref.WalkMustFail(".") {
		if err == nil {
			return "union-duplicate-hidden", fmt.Sprintf("%s succeeded although a path is in two members of a union", what)
		}
		return "", ""
	}
	if err != nil {
		return "roundtrip-failed", fmt.Sprintf("%s: writing failed: %v", what, err)
	}
	switch o.Format {
	case "tar":
		err = storagearchive.Untar(ctx, bytes.NewReader(buf.Bytes()), dst)
	case "zip", "zip-deflate":
		err = storagearchive.Unzip(ctx, bytes.NewReader(buf.Bytes()), int64(buf.Len()), dst)
	}
	if err != nil {
		return "roundtrip-failed", fmt.Sprintf("%s: reading back failed: %v", what, err)
	}
	w := walk(dst, "")
	if w.err != nil {
		return "walk-error", fmt.Sprintf("%s: Walk(\"\") of the result failed: %v", what, w.err)
	}
	if key, msg := compareWalk(what+": result", w.paths, ref.Objs.Keys(), "."); key != "" {
		return "roundtrip-mismatch", msg
	}
	for _, k := range ref.Objs.Keys() {
		if key, msg := checkObject(dst, what+": result", k, ref.Objs[k], true, false, false, false); key != "" {
			return "roundtrip-mismatch", msg
		}
	}
	return "", ""
}

func viewString(v *bucketmodel.View) string {
	switch v.Kind {
	case "store":
		return fmt.Sprintf("store%d", v.Store)
	case "map":
		return fmt.Sprintf("map(%q, %s)", v.Prefix, viewString(v.Subs[0]))
	case "filter":
		mj, _ := json.Marshal(v.Matcher)
		return fmt.Sprintf("filter(%s, %s)", mj, viewString(v.Subs[0]))
	default:
		parts := make([]string, len(v.Subs))
		for i, s := range v.Subs {
			parts[i] = viewString(s)
		}
		return v.Kind + "(" + strings.Join(parts, ", ") + ")"
	}
}

// ---------------------------------------------------------------------------------------------
// generators

func genSetup(t *rapid.T) setup {
	n := rapid.IntRange(4, 10).Draw(t, "poolsize")
	perm := rapid.Permutation(universe).Draw(t, "pool")
	pool := append([]string{}, perm[:n]...)
	sort.Strings(pool)
	genWrap := func(label string) ([]string, bool) {
		switch rapid.IntRange(0, 7).Draw(t, label) {
		case 0, 1, 2:
			return nil, false
		case 3:
			return []string{"w"}, false
		case 4:
			return []string{"w/v"}, false
		case 5:
			return []string{"w/v/u"}, false
		case 6:
			return []string{"w", "v/u"}, false // map over map
		default:
			return []string{"w", "v"}, true // one bucket, two mappers
		}
	}
	su := setup{Pool: pool}
	w0, c0 := genWrap("wrap0")
	su.Stores = append(su.Stores, storeSpec{Backends: []string{"mem", "os"}, Wrap: w0, Chain: c0})
	for i := 1; i <= 2; i++ {
		kind := rapid.SampledFrom([]string{"mem", "mem", "mem", "os", "os", "os-tmpdir"}).Draw(t, "kind")
		w, c := genWrap("wrap")
		su.Stores = append(su.Stores, storeSpec{Backends: []string{kind}, Wrap: w, Chain: c})
	}
	return su
}

func spell(t *rapid.T, norm string) string {
	if norm == "." {
		return rapid.SampledFrom([]string{"", ".", "./", "zz/..", "./."}).Draw(t, "rootspelling")
	}
	if rapid.IntRange(0, 9).Draw(t, "respell") < 6 {
		return norm
	}
	s := pathgen.Respell(t, norm)
	if n, v := pathgen.RefNormalize(s); n != norm || v != pathgen.OK {
		harness("respelling %q of %q has normal form %q", s, norm, n)
	}
	return s
}

func genAncestor(t *rapid.T, pool []string) string {
	p := rapid.SampledFrom(pool).Draw(t, "of")
	anc := bucketmodel.Ancestors(p)
	if len(anc) == 0 {
		return "nodir"
	}
	return rapid.SampledFrom(anc).Draw(t, "ancestor")
}

// genObjectPath: a path for get / stat / delete.
func genObjectPath(t *rapid.T, pool []string) string {
	switch k := rapid.IntRange(0, 19).Draw(t, "pathkind"); {
	case k < 14:
		return spell(t, rapid.SampledFrom(pool).Draw(t, "poolpath"))
	case k < 16:
		return spell(t, genAncestor(t, pool))
	case k < 18:
		return spell(t, rapid.SampledFrom(pool).Draw(t, "poolpath")+"/zz")
	case k < 19:
		return spell(t, rapid.SampledFrom([]string{"nodir/x", "nodir", "a/b/c", "fo", "foo/ba", "x/y/z"}).Draw(t, "absent"))
	default:
		return spell(t, ".")
	}
}

// genPrefix: a prefix for walk / delete-all.
func genPrefix(t *rapid.T, pool []string) string {
	switch k := rapid.IntRange(0, 19).Draw(t, "prefixkind"); {
	case k < 3:
		return spell(t, ".")
	case k < 7:
		return spell(t, rapid.SampledFrom(pool).Draw(t, "poolpath"))
	case k < 14:
		return spell(t, genAncestor(t, pool))
	case k < 16:
		return spell(t, rapid.SampledFrom([]string{"nodir", "nodir/sub", "zz"}).Draw(t, "absent"))
	case k < 17:
		return spell(t, rapid.SampledFrom(pool).Draw(t, "poolpath")+"/zz")
	default:
		// a string prefix of a pool path that ends inside a component
		p := rapid.SampledFrom(pool).Draw(t, "poolpath")
		var cuts []int
		for i := 1; i < len(p); i++ {
			if p[i] != '/' && p[i-1] != '/' && (p[i]&0xC0) != 0x80 {
				cuts = append(cuts, i)
			}
		}
		if len(cuts) == 0 {
			return spell(t, "zz")
		}
		cut := p[:rapid.SampledFrom(cuts).Draw(t, "cut")]
		if n, v := pathgen.RefNormalize(cut); v != pathgen.OK || n != cut {
			return spell(t, "zz")
		}
		return spell(t, cut)
	}
}

func genMatcher(t *rapid.T, keys []string, depth int) *bucketmodel.Matcher {
	pick := func(label string) string {
		if len(keys) == 0 {
			return "nodir"
		}
		return rapid.SampledFrom(keys).Draw(t, label)
	}
	max := 7
	if depth <= 0 {
		max = 4
	}
	switch rapid.IntRange(0, max).Draw(t, "matcher") {
	case 0:
		return &bucketmodel.Matcher{Kind: "ext", Arg: rapid.SampledFrom([]string{".txt", ".proto", "", ".b", ".bin"}).Draw(t, "ext")}
	case 1:
		k := pick("basekey")
		if i := strings.LastIndexByte(k, '/'); i >= 0 {
			k = k[i+1:]
		}
		return &bucketmodel.Matcher{Kind: "base", Arg: k}
	case 2:
		return &bucketmodel.Matcher{Kind: "equal", Arg: pick("equalkey")}
	case 3, 4:
		k := pick("dirkey")
		arg := k
		if anc := bucketmodel.Ancestors(k); len(anc) > 0 && rapid.IntRange(0, 3).Draw(t, "usedir") > 0 {
			arg = rapid.SampledFrom(anc).Draw(t, "dir")
		}
		kind := rapid.SampledFrom([]string{"equal-or-contained", "contained"}).Draw(t, "containkind")
		return &bucketmodel.Matcher{Kind: kind, Arg: arg}
	case 5:
		return &bucketmodel.Matcher{Kind: "not", Subs: []*bucketmodel.Matcher{genMatcher(t, keys, depth-1)}}
	case 6:
		return &bucketmodel.Matcher{Kind: "or", Subs: []*bucketmodel.Matcher{genMatcher(t, keys, depth-1), genMatcher(t, keys, depth-1)}}
	default:
		return &bucketmodel.Matcher{Kind: "and", Subs: []*bucketmodel.Matcher{genMatcher(t, keys, depth-1), genMatcher(t, keys, depth-1)}}
	}
}

// genView draws a combinator tree of at most the given depth together with its reference.
func genView(t *rapid.T, models []bucketmodel.Model, depth int) (*bucketmodel.View, bucketmodel.RefView) {
	leaf := func() (*bucketmodel.View, bucketmodel.RefView) {
		v := &bucketmodel.View{Kind: "store", Store: rapid.IntRange(0, len(models)-1).Draw(t, "leafstore")}
		return v, v.Ref(models)
	}
	if depth <= 0 || rapid.IntRange(0, 5).Draw(t, "leaf") == 0 {
		return leaf()
	}
	var v *bucketmodel.View
	switch rapid.SampledFrom([]string{"map", "map", "filter", "filter", "union", "union", "overlay", "strip"}).Draw(t, "viewkind") {
	case "map":
		c, cref := genView(t, models, depth-1)
		// prefixes: directories of the member's paths that are not themselves paths (a bucket
		// "created on" a file is outside the model), or a directory that does not exist
		known := map[string]bool{}
		for _, k := range cref.AllKeys() {
			known[k] = true
		}
		var dirs []string
		seen := map[string]bool{}
		for _, k := range cref.AllKeys() {
			for _, a := range bucketmodel.Ancestors(k) {
				if !known[a] && !seen[a] {
					seen[a] = true
					dirs = append(dirs, a)
				}
			}
		}
		dirs = append(dirs, "nodir")
		v = &bucketmodel.View{Kind: "map", Prefix: rapid.SampledFrom(dirs).Draw(t, "mapprefix"), Subs: []*bucketmodel.View{c}}
	case "filter":
		c, cref := genView(t, models, depth-1)
		v = &bucketmodel.View{Kind: "filter", Matcher: genMatcher(t, cref.AllKeys(), 2), Subs: []*bucketmodel.View{c}}
	case "strip":
		c, _ := genView(t, models, depth-1)
		v = &bucketmodel.View{Kind: "strip", Subs: []*bucketmodel.View{c}}
	case "union", "overlay":
		kind := "union"
		if rapid.IntRange(0, 2).Draw(t, "overlay") == 0 {
			kind = "overlay"
		}
		n := rapid.IntRange(2, 3).Draw(t, "members")
		v = &bucketmodel.View{Kind: kind}
		for i := 0; i < n; i++ {
			c, _ := genView(t, models, depth-1)
			v.Subs = append(v.Subs, c)
		}
	}
	return v, v.Ref(models)
}

var opKinds = func() []string {
	weights := []struct {
		kind string
		n    int
	}{
		// rapid favours the early entries of a SampledFrom list; the most common kind goes last
		{"walk", 13}, {"delete-all", 9}, {"delete", 9}, {"copy-path", 9}, {"view", 10}, {"get", 7}, {"stat", 4},
		{"list", 7}, {"copy", 4}, {"copy-object", 3}, {"copy-reader", 3}, {"roundtrip", 5}, {"reopen", 3}, {"put", 30},
	}
	var out []string
	for _, w := range weights {
		for i := 0; i < w.n; i++ {
			out = append(out, w.kind)
		}
	}
	return out
}()

func genOp(t *rapid.T, m *machine) op {
	pool := m.setup.Pool
	o := op{Kind: rapid.SampledFrom(opKinds).Draw(t, "op")}
	o.Store = rapid.IntRange(0, len(m.stores)-1).Draw(t, "store")
	if o.Store != 0 && rapid.IntRange(0, 2).Draw(t, "preferpair") == 0 {
		o.Store = 0
	}
	switch o.Kind {
	case "put":
		o.Path = spell(t, rapid.SampledFrom(pool).Draw(t, "poolpath"))
		switch rapid.IntRange(0, 11).Draw(t, "sizeclass") {
		case 0, 1:
			o.Size = 0
		case 2:
			o.Size = 70000 + rapid.IntRange(0, 999).Draw(t, "extra")
		default:
			o.Size = rapid.IntRange(1, 64).Draw(t, "size")
		}
		o.Seed = rapid.IntRange(0, 999).Draw(t, "seed")
		o.Atomic = rapid.Bool().Draw(t, "atomic")
		o.Helper = rapid.IntRange(0, 3).Draw(t, "putpath") == 0
	case "copy-reader":
		o.Path = spell(t, rapid.SampledFrom(pool).Draw(t, "poolpath"))
		o.Size = rapid.SampledFrom([]int{0, 1, 17, 64, 40000}).Draw(t, "size")
		o.Seed = rapid.IntRange(0, 999).Draw(t, "seed")
	case "copy-path":
		// source: a store (70 %, in a third of those the destination store itself) or a view
		o.Variant = rapid.IntRange(0, 1).Draw(t, "variant")
		o.Atomic = rapid.Bool().Draw(t, "atomic")
		o.Extern = rapid.IntRange(0, 3).Draw(t, "extern") == 0
		// never read and write the same underlying object in one call (a view that reads the
		// destination store may alias any of its objects, so such a view is not used as a source)
		var srcKeys []string
		sourceKind := rapid.IntRange(0, 9).Draw(t, "source")
		if sourceKind < 3 {
			view, ref := genView(t, m.models(), rapid.IntRange(1, 3).Draw(t, "depth"))
			var free []int
			for i := range m.stores {
				if !m.viewReads(view, i) {
					free = append(free, i)
				}
			}
			if len(free) > 0 {
				o.View = view
				o.To = rapid.SampledFrom(free).Draw(t, "to")
				srcKeys = ref.AllKeys()
			}
		}
		if o.View == nil {
			if sourceKind < 5 {
				o.To = o.Store
			} else {
				o.To = (o.Store + rapid.IntRange(1, len(m.stores)-1).Draw(t, "to")) % len(m.stores)
			}
			srcKeys = m.stores[o.Store].model.Keys()
		}
		if len(srcKeys) > 0 && rapid.IntRange(0, 7).Draw(t, "existing") > 0 {
			o.Path = spell(t, rapid.SampledFrom(srcKeys).Draw(t, "srckey"))
		} else {
			o.Path = genObjectPath(t, pool)
		}
		pn, _ := pathgen.RefNormalize(o.Path)
		// destination: a different pool path in most cases; the same path only between buckets
		dests := make([]string, 0, len(pool))
		for _, q := range pool {
			if q != pn {
				dests = append(dests, q)
			}
		}
		q := rapid.SampledFrom(dests).Draw(t, "destpath")
		if _, inPool := m.poolSet()[pn]; inPool && (o.View != nil || o.To != o.Store) && rapid.IntRange(0, 4).Draw(t, "samepath") == 0 {
			q = pn
		}
		o.ToPath = spell(t, q)
	case "copy-object":
		o.To = (o.Store + rapid.IntRange(1, len(m.stores)-1).Draw(t, "to")) % len(m.stores)
		o.Variant = rapid.IntRange(0, 1).Draw(t, "variant")
		o.Atomic = rapid.Bool().Draw(t, "atomic")
		o.Extern = rapid.IntRange(0, 3).Draw(t, "extern") == 0
		if keys := m.stores[o.Store].model.Keys(); len(keys) > 0 && rapid.IntRange(0, 7).Draw(t, "existing") > 0 {
			o.Path = spell(t, rapid.SampledFrom(keys).Draw(t, "srckey"))
		} else {
			o.Path = spell(t, rapid.SampledFrom(pool).Draw(t, "poolpath"))
		}
	case "list":
		o.List = rapid.SampledFrom([]string{"all-paths", "all-object-infos", "is-empty", "exists"}).Draw(t, "helper")
		if o.List == "exists" {
			o.Path = genObjectPath(t, pool)
		} else {
			o.Path = genPrefix(t, pool)
		}
	case "delete", "get", "stat":
		o.Path = genObjectPath(t, pool)
	case "delete-all", "walk":
		o.Path = genPrefix(t, pool)
	case "copy":
		o.To = (o.Store + rapid.IntRange(1, len(m.stores)-1).Draw(t, "to")) % len(m.stores)
		o.Variant = rapid.IntRange(0, 1).Draw(t, "variant")
		o.Atomic = rapid.Bool().Draw(t, "atomic")
		o.Extern = rapid.IntRange(0, 3).Draw(t, "extern") == 0
	case "view":
		o.Store = 0
		o.View, _ = genView(t, m.models(), 3)
		for i := rapid.IntRange(0, 2).Draw(t, "nprobes"); i > 0; i-- {
			o.Probes = append(o.Probes, genPrefix(t, pool))
		}
	case "roundtrip":
		o.Store = 0
		o.View, _ = genView(t, m.models(), rapid.IntRange(0, 3).Draw(t, "depth"))
		o.Format = rapid.SampledFrom([]string{"tar", "zip", "zip-deflate", "copy"}).Draw(t, "format")
		o.Dest = rapid.SampledFrom([]string{"mem", "os"}).Draw(t, "dest")
		o.Variant = rapid.IntRange(0, 1).Draw(t, "variant")
	}
	return o
}

// ---------------------------------------------------------------------------------------------
// tests

func classifyOp(r *evid.Recorder, o op) {
	r.Class("op-" + o.Kind)
	switch o.Kind {
	case "put":
		switch {
		case o.Size == 0:
			r.Class("put-empty")
		case o.Size >= 70000:
			r.Class("put-70kB")
		}
		if o.Atomic {
			r.Class("put-atomic")
		}
	case "copy-path":
		pn, _ := pathgen.RefNormalize(o.Path)
		qn, _ := pathgen.RefNormalize(o.ToPath)
		switch {
		case o.View != nil:
			r.Class("copy-path-from-view")
		case o.Store == o.To:
			r.Class("copy-path-within-store")
		default:
			r.Class("copy-path-between-stores")
		}
		if pn != qn {
			r.Class("copy-path-different-destination")
		} else {
			r.Class("copy-path-same-path")
		}
	case "list":
		r.Class("list-" + o.List)
	case "view", "roundtrip":
		r.Class(fmt.Sprintf("view-depth-%d", o.View.Depth()))
		for _, k := range []string{"map", "filter", "union", "overlay", "strip"} {
			if o.View.HasKind(k) {
				r.Class("view-has-" + k)
			}
		}
	}
	if o.Path != "" {
		if n, _ := pathgen.RefNormalize(o.Path); n != o.Path {
			r.Class("path-alternative-spelling")
		}
	}
}

func TestHistories(t *testing.T) {
	r := evid.R()
	fastDir, fsName := bucketmodel.FastScratchDir(t)
	realDir := t.TempDir()
	steps := r.Pick(30, 60)
	_ = flag.Set("rapid.steps", strconv.Itoa(steps))
	if r.Shard == 0 {
		r.Extra("average_steps_per_history", steps)
		r.Extra("universe_paths", len(universe))
	}
	r.Extra("disk_buckets_on", fsName+" (kind os-tmpdir: TMPDIR)")
	caseNo := 0
	observe = r.Class
	r.Check(t, r.Scale(12000, 60000), 1, func(t *rapid.T) {
		caseNo++
		su := genSetup(t)
		caseFast := filepath.Join(fastDir, "c"+strconv.Itoa(caseNo))
		caseReal := filepath.Join(realDir, "c"+strconv.Itoa(caseNo))
		defer os.RemoveAll(caseFast)
		defer os.RemoveAll(caseReal)
		m := newMachine(su, caseFast, caseReal, r.Class)
		c := &c14Case{Setup: su}
		for _, s := range su.Stores {
			depth := 0
			if len(s.Wrap) > 0 {
				depth = len(strings.Split(strings.Join(s.Wrap, "/"), "/"))
			}
			r.Class(fmt.Sprintf("store-%s-mapdepth-%d", strings.Join(s.Backends, "+"), depth))
		}
		dead := false // an open known finding was hit: the stores no longer follow the model
		t.Repeat(map[string]func(*rapid.T){
			"step": func(t *rapid.T) {
				if dead {
					return
				}
				o := genOp(t, m)
				c.Ops = append(c.Ops, o)
				classifyOp(r, o)
				r.Eval()
				if key, msg := m.apply(o); key != "" {
					r.Fail(t, key, fmt.Sprintf("after %d operations: %s", len(c.Ops), msg), c)
					dead = true
				}
			},
		})
		if dead {
			return
		}
		// final: every store equals its model
		for si := range m.stores {
			if key, msg := m.fullCheck(si, ""); key != "" {
				r.Fail(t, key, "at the end of the history: "+msg, c)
				return
			}
		}
		if m.deleteAllAfter2 && m.walkNonEmpty {
			enc, _ := json.Marshal(c.Ops)
			r.NonTrivial(string(enc))
			if caseNo%97 == 0 {
				r.Sample(map[string]any{"stores": su.Stores, "pool": su.Pool, "first_operations": head(c.Ops, 12), "operations": len(c.Ops)})
			}
		}
		r.Class(fmt.Sprintf("history-length-%s", bucket(len(c.Ops))))
	})
}

func head(ops []op, n int) []op {
	if len(ops) > n {
		return ops[:n]
	}
	return ops
}

func bucket(n int) string {
	switch {
	case n < 10:
		return "00-09"
	case n < 30:
		return "10-29"
	case n < 60:
		return "30-59"
	default:
		return "60+"
	}
}

// TestReplay re-runs a saved history through the machine and its oracle (no generator).
func TestReplay(t *testing.T) {
	var c c14Case
	ok, err := evid.ReplayCase(&c)
	if !ok {
		t.Skip("no VERIF_REPLAY")
	}
	if err != nil {
		t.Fatal(err)
	}
	r := evid.R()
	defer r.Begin(t)()
	fastDir, _ := bucketmodel.FastScratchDir(t)
	m := newMachine(c.Setup, fastDir, t.TempDir(), r.Class)
	for i, o := range c.Ops {
		r.Eval()
		if key, msg := m.apply(o); key != "" {
			r.Fail(t, key, fmt.Sprintf("after %d operations: %s", i+1, msg), c)
			return
		}
	}
	for si := range m.stores {
		if key, msg := m.fullCheck(si, ""); key != "" {
			r.Fail(t, key, "at the end of the history: "+msg, c)
			return
		}
	}
}
