package c12

// Oracle of C12. Everything is decided from the pristine input descriptors, the filter and the
// output descriptors (protoreflect / descriptorpb); bufimageutil is only the system under test.

import (
	"errors"
	"fmt"
	"runtime/debug"
	"sort"
	"strings"

	"github.com/bufbuild/buf/private/bufpkg/bufimage"
	"github.com/bufbuild/buf/private/bufpkg/bufimage/bufimageutil"
	"google.golang.org/protobuf/proto"
	"google.golang.org/protobuf/reflect/protodesc"
	"google.golang.org/protobuf/reflect/protoreflect"
	"google.golang.org/protobuf/types/descriptorpb"
)

type filterSpec struct {
	Include                []string `json:"include,omitempty"`
	Exclude                []string `json:"exclude,omitempty"`
	ExcludeCustomOptions   bool     `json:"exclude_custom_options,omitempty"`
	ExcludeKnownExtensions bool     `json:"exclude_known_extensions,omitempty"`
	MutateInPlace          bool     `json:"mutate_in_place,omitempty"`
	AllowImported          bool     `json:"allow_include_of_imported_type,omitempty"`
}

func (f filterSpec) mode() string {
	switch {
	case len(f.Include) == 0:
		return "exclude-only"
	case len(f.Exclude) == 0:
		return "include-only"
	default:
		return "mixed"
	}
}

func (f filterSpec) options(include, exclude []string) []bufimageutil.ImageFilterOption {
	var o []bufimageutil.ImageFilterOption
	if len(include) > 0 {
		o = append(o, bufimageutil.WithIncludeTypes(include...))
	}
	if len(exclude) > 0 {
		o = append(o, bufimageutil.WithExcludeTypes(exclude...))
	}
	if f.ExcludeCustomOptions {
		o = append(o, bufimageutil.WithExcludeCustomOptions())
	}
	if f.ExcludeKnownExtensions {
		o = append(o, bufimageutil.WithExcludeKnownExtensions())
	}
	if f.MutateInPlace {
		o = append(o, bufimageutil.WithMutateInPlace())
	}
	if f.AllowImported {
		o = append(o, bufimageutil.WithAllowIncludeOfImportedType())
	}
	return o
}

// verdict is the outcome of one oracle evaluation.
type verdict struct {
	key, msg   string // falsified oracle (key == "" => ok)
	harness    error  // harness problem (never a violation)
	nonTrivial bool
	classes    []string
	note       string
}

func (v *verdict) class(c string) { v.classes = append(v.classes, c) }

func fail(v *verdict, key, format string, args ...any) *verdict {
	v.key, v.msg = key, fmt.Sprintf(format, args...)
	return v
}

func importMap(image bufimage.Image) map[string]bool {
	m := map[string]bool{}
	for _, f := range image.Files() {
		m[f.Path()] = f.IsImport()
	}
	return m
}

// runOracle filters `input` with f and checks the seven clauses. input is not retained.
func runOracle(input bufimage.Image, f filterSpec) *verdict {
	v := &verdict{}
	pristineImage, err := bufimage.CloneImage(input)
	if err != nil {
		v.harness = fmt.Errorf("clone: %w", err)
		return v
	}
	pristine := bufimage.ImageToFileDescriptorSet(pristineImage)
	isImport := importMap(input)
	u, err := newUniverse(pristine, isImport)
	if err != nil {
		v.harness = fmt.Errorf("input image does not link: %w", err)
		return v
	}
	rejects := u.rejections(f)
	x := u.expandExcluded(f.Exclude)
	conflicts := u.conflicts(f.Include, x)

	// ---- run the filter
	subject := input
	if f.MutateInPlace {
		if subject, err = bufimage.CloneImage(input); err != nil {
			v.harness = err
			return v
		}
	}
	result, ferr, panicked := safeFilter(subject, f.options(f.Include, f.Exclude))
	if panicked != "" {
		return fail(v, "filter-panic", "FilterImage(include=%v exclude=%v, exclude custom options=%v, exclude known extensions=%v, mutate in place=%v, allow imported=%v) panicked on a valid image: %s", f.Include, f.Exclude, f.ExcludeCustomOptions, f.ExcludeKnownExtensions, f.MutateInPlace, f.AllowImported, panicked)
	}

	// (7) copying mode leaves the input untouched (also when the filter fails)
	if !f.MutateInPlace {
		if key, msg := sameFDS(pristine, bufimage.ImageToFileDescriptorSet(input)); key != "" {
			return fail(v, "input-mutated", "copying mode changed the input image: %s", msg)
		}
	}

	// reference closure; with a documented conflict it is only used to recognise namespace-only messages
	cl := u.closure(f, x)

	// (0) the filter is rejected exactly when the reference says so, with the documented error
	if len(rejects) > 0 {
		kinds := map[string]bool{}
		for _, rj := range rejects {
			kinds[rj.kind] = true
		}
		if ferr == nil {
			return fail(v, "filter-accepted:"+rejects[0].kind, "FilterImage(include=%v exclude=%v, allow imported=%v) succeeded although %s name %q must be rejected (%s)", f.Include, f.Exclude, f.AllowImported, rejects[0].side, rejects[0].name, rejects[0].kind)
		}
		okKind := len(conflicts) > 0 ||
			(kinds[rejectNotFound] && errors.Is(ferr, bufimageutil.ErrImageFilterTypeNotFound)) ||
			(kinds[rejectIsImport] && errors.Is(ferr, bufimageutil.ErrImageFilterTypeIsImport)) ||
			// a package without files of its own: either documented error is acceptable
			(kinds[rejectNoFiles] && (errors.Is(ferr, bufimageutil.ErrImageFilterTypeIsImport) || errors.Is(ferr, bufimageutil.ErrImageFilterTypeNotFound)))
		if !okKind {
			return fail(v, "filter-error:wrong-kind", "FilterImage(include=%v exclude=%v) must fail because of %+v, but failed with a different error: %v", f.Include, f.Exclude, rejects, ferr)
		}
		for k := range kinds {
			v.class("rejected:" + k)
		}
		return v
	}

	// (1) no failure on existing, disjoint, conflict-free names
	if ferr != nil {
		if len(conflicts) > 0 {
			v.class("conflict-error")
			return v
		}
		if len(cl.need) == 0 {
			// nothing survives the filter: reporting that instead of returning an empty image is acceptable
			v.class("nothing-left-error")
			return v
		}
		key := "filter-error:" + f.mode()
		switch {
		case errors.Is(ferr, bufimageutil.ErrImageFilterTypeIsImport):
			key += ":is-import"
		case errors.Is(ferr, bufimageutil.ErrImageFilterTypeNotFound):
			key += ":not-found"
		}
		return fail(v, key, "FilterImage(include=%v exclude=%v, allow imported=%v) failed although every name exists, every included name is defined in a target file (or imported names are allowed), include and exclude are disjoint and no included element requires an excluded one: %v", f.Include, f.Exclude, f.AllowImported, ferr)
	}
	if len(conflicts) > 0 {
		v.class("conflict-ok")
	}
	if result == nil {
		return fail(v, "filter-error:"+f.mode(), "FilterImage returned a nil image without error")
	}
	out := bufimage.ImageToFileDescriptorSet(result)

	// rootCause refines a linking failure: an element of an import file that nothing needs was kept
	rootCause := func(from string) string {
		owner := from
		for owner != "" && u.byName[owner] == nil {
			if i := strings.LastIndexByte(owner, '.'); i >= 0 {
				owner = owner[:i]
			} else {
				owner = ""
			}
		}
		if e := u.byName[owner]; e != nil && e.isImport && !cl.need[owner] && !cl.encl[owner] {
			return ":unreferenced-element-of-import-file"
		}
		return ""
	}

	// (4) nothing excluded, no dangling reference
	outIdx := indexFDS(out)
	if len(conflicts) == 0 && len(cl.need) == 0 && len(out.File) > 0 && !u.keepsSomeFile(f) {
		if _, diff := sameFDS(pristine, out); diff == "" {
			return fail(v, "unfiltered-image-returned", "the filter include=%v exclude=%v leaves nothing, but FilterImage returned the complete input image (%d files) instead of an empty one", f.Include, f.Exclude, len(out.File))
		}
	}
	for _, n := range u.order {
		if x[n] && outIdx.has(n) {
			return fail(v, "excluded-present", "excluded element %s (filter exclude=%v) is still present in %s", n, f.Exclude, outIdx.fileOf[n])
		}
	}
	for _, of := range out.File {
		seen := map[string]bool{}
		for _, dep := range of.Dependency {
			if seen[dep] {
				return fail(v, "dependency-duplicated", "file %s of the result lists dependency %s twice (dependencies %v; filter include=%v exclude=%v)", of.GetName(), dep, of.Dependency, f.Include, f.Exclude)
			}
			seen[dep] = true
			if _, ok := outIdx.deps[dep]; !ok {
				return fail(v, "dependency-missing", "file %s of the result depends on %s which is not in the result (filter include=%v exclude=%v)", of.GetName(), dep, f.Include, f.Exclude)
			}
		}
	}
	visible := visibleFiles(out)
	for _, ref := range outIdx.refs {
		switch {
		case x[ref.target]:
			return fail(v, "dangling-ref"+rootCause(ref.from), "%s %s of the result refers to excluded type %s", ref.what, ref.from, ref.target)
		case !outIdx.has(ref.target):
			return fail(v, "dangling-ref"+rootCause(ref.from), "%s %s of the result (file %s) refers to %s which is not in the result (filter include=%v exclude=%v)", ref.what, ref.from, outIdx.fileOf[ref.from], ref.target, f.Include, f.Exclude)
		}
		ff, tf := outIdx.fileOf[ref.from], outIdx.fileOf[ref.target]
		if ff != tf && !visible[ff][tf] {
			return fail(v, "missing-import"+rootCause(ref.from), "%s %s of the result refers to %s, but its file %s does not import %s (dependencies %v; filter include=%v exclude=%v)", ref.what, ref.from, ref.target, ff, tf, outIdx.deps[ff], f.Include, f.Exclude)
		}
	}
	for _, sc := range outIdx.structural {
		return fail(v, sc.key+rootCause(sc.owner), "%s (filter include=%v exclude=%v)", sc.msg, f.Include, f.Exclude)
	}
	// (2) links
	outFiles, err := protodesc.NewFiles(out)
	if err != nil {
		cause := ""
		for i, q := range strings.Split(err.Error(), "\"") {
			if i%2 == 1 && cause == "" {
				cause = rootCause(q)
			}
		}
		return fail(v, "not-linkable"+cause, "result of filter include=%v exclude=%v does not link: %v", f.Include, f.Exclude, err)
	}

	// (3) completeness
	if len(conflicts) == 0 {
		wanted := make([]string, 0, len(cl.need)+len(cl.encl))
		for n := range cl.need {
			wanted = append(wanted, n)
		}
		for n := range cl.encl {
			wanted = append(wanted, n)
		}
		sort.Strings(wanted)
		for _, n := range wanted {
			if !outIdx.has(n) {
				key := "closure-missing"
				if cl.why[n] == "named by the filter" {
					key = "included-missing"
					if len(f.Include) == 0 {
						key = "unrelated-removed"
					}
				}
				return fail(v, key, "%s %s is missing from the result (needed: %s; filter include=%v exclude=%v)", u.byName[n].kind, n, cl.why[n], f.Include, f.Exclude)
			}
		}
		// needed messages keep every field whose type is not excluded
		for _, n := range wanted {
			if !cl.need[n] {
				continue
			}
			md, ok := u.byName[n].d.(protoreflect.MessageDescriptor)
			if !ok {
				continue
			}
			for i := 0; i < md.Fields().Len(); i++ {
				fd := md.Fields().Get(i)
				if fieldDropped(fd, x) {
					continue
				}
				if !outIdx.has(string(fd.FullName())) {
					return fail(v, "field-removed", "field %s of needed message %s (%s) was removed although its type is not excluded", fd.FullName(), n, cl.why[n])
				}
			}
		}
	}

	// (5) survivors unchanged
	needed := func(name string) bool { return cl.need[name] }
	cmp := &comparer{f: f, needed: needed}
	inByPath := map[string]*descriptorpb.FileDescriptorProto{}
	for _, fd := range pristine.File {
		inByPath[fd.GetName()] = fd
	}
	for _, of := range out.File {
		inf := inByPath[of.GetName()]
		if inf == nil {
			return fail(v, "survivor-changed", "result contains file %s which is not in the input", of.GetName())
		}
		if d := cmp.file(inf, of); d != "" {
			return fail(v, "survivor-changed", "%s (filter include=%v exclude=%v)", d, f.Include, f.Exclude)
		}
	}
	// file order of the result is the input order
	pos := map[string]int{}
	for i, p := range u.paths {
		pos[p] = i
	}
	for i := 1; i < len(out.File); i++ {
		if pos[out.File[i-1].GetName()] > pos[out.File[i].GetName()] {
			return fail(v, "survivor-changed", "file order changed: %s now precedes %s", out.File[i-1].GetName(), out.File[i].GetName())
		}
	}
	// comments / spans by full name
	for _, of := range out.File {
		ofd, err := outFiles.FindFileByPath(of.GetName())
		if err != nil {
			v.harness = err
			return v
		}
		ifd, err := u.files.FindFileByPath(of.GetName())
		if err != nil {
			v.harness = err
			return v
		}
		if d := compareLocations(ifd, ofd, needed); d != "" {
			return fail(v, "comment-moved", "%s (filter include=%v exclude=%v)", d, f.Include, f.Exclude)
		}
	}

	// determinism probe (needed to make sense of (6)): the same filter on a fresh clone of the same input
	if d := rerunDiffers(pristineImage, f, out); strings.HasPrefix(d, panicPrefix) {
		return fail(v, "filter-panic", "FilterImage(include=%v exclude=%v) panicked when run a second time on an identical clone of the input: %s", f.Include, f.Exclude, d)
	} else if d != "" {
		return fail(v, "nondeterministic", "FilterImage(include=%v exclude=%v) gives different results for the same input: %s", f.Include, f.Exclude, d)
	}

	// (6) idempotence. The statement speaks of applying *the same filter* twice. That is only defined
	// when the filter has no excludes: excluded names are gone after the first application and the
	// documented behaviour for a missing name is an error. With excludes, the filter minus its
	// (vanished) excludes is re-applied; it must not fail, but a difference is only recorded as a class.
	var inc2, exc2 []string
	for _, n := range f.Include {
		if outIdx.has(n) || outIdx.pkgs[n] || outIdx.parentOfDeclared(n) {
			inc2 = append(inc2, n)
		} else if u.pkgKind(n) == pkgParentOnly {
			// a package without files contributed nothing; its sub-packages may all be gone
		} else if len(conflicts) == 0 {
			return fail(v, "not-idempotent", "included name %s no longer exists after filtering, the same filter cannot be applied again", n)
		}
	}
	for _, n := range f.Exclude {
		if outIdx.has(n) || outIdx.pkgs[n] {
			exc2 = append(exc2, n) // cannot happen for elements after (4); a package name survives if other files declare it
		}
	}
	if len(inc2)+len(exc2) > 0 && len(conflicts) == 0 {
		again, err := bufimage.CloneImage(result)
		if err != nil {
			v.harness = err
			return v
		}
		same := len(f.Exclude) == len(exc2)
		result2, err, panicked := safeFilter(again, f.options(inc2, exc2))
		if panicked != "" {
			return fail(v, "filter-panic", "FilterImage(include=%v exclude=%v) applied to the result of FilterImage(include=%v exclude=%v) (other options: exclude custom options=%v, exclude known extensions=%v, mutate in place=%v, allow imported=%v) panicked: %s", inc2, exc2, f.Include, f.Exclude, f.ExcludeCustomOptions, f.ExcludeKnownExtensions, f.MutateInPlace, f.AllowImported, panicked)
		}
		if err != nil {
			return fail(v, "not-idempotent", "applying the filter (include=%v exclude=%v) to its own result failed: %v", inc2, exc2, err)
		}
		_, msg := sameFDS(out, bufimage.ImageToFileDescriptorSet(result2))
		switch {
		case msg == "" && same:
			v.class("idempotence-checked:same-filter")
		case msg == "":
			v.class("idempotence-checked:filter-minus-vanished-excludes")
		case same:
			// is the filter a function of its input at all? re-run the first application a few times
			for i := 0; i < 12; i++ {
				if d := rerunDiffers(pristineImage, f, out); strings.HasPrefix(d, panicPrefix) {
					return fail(v, "filter-panic", "FilterImage(include=%v exclude=%v) panicked on a repeated run: %s", f.Include, f.Exclude, d)
				} else if d != "" {
					return fail(v, "nondeterministic", "FilterImage(include=%v exclude=%v) gives different results for the same input (run %d): %s", f.Include, f.Exclude, i+2, d)
				}
			}
			return fail(v, "not-idempotent", "Filter(Filter(x)) != Filter(x) for include=%v exclude=%v: %s", inc2, exc2, msg)
		default:
			v.class("idempotence:filter-minus-vanished-excludes-differs")
			v.note = fmt.Sprintf("include=%v exclude=%v, second application with include=%v exclude=%v: %s", f.Include, f.Exclude, inc2, exc2, msg)
		}
	} else {
		v.class("idempotence-vacuous")
	}

	// ---- bookkeeping
	removed, shifted := shiftStats(pristine, outIdx)
	if removed && shifted {
		v.nonTrivial = true
	}
	if len(out.File) == 0 {
		v.class("result-empty")
	}
	if len(out.File) < len(pristine.File) {
		v.class("file-dropped")
	}
	return v
}

// safeFilter calls FilterImage and turns a panic into a value: a crash on a valid image and a valid
// filter is a violation (no filtered image exists), not a harness failure.
func safeFilter(image bufimage.Image, opts []bufimageutil.ImageFilterOption) (result bufimage.Image, err error, panicked string) {
	defer func() {
		if p := recover(); p != nil {
			stack := string(debug.Stack())
			if i := strings.Index(stack, "bufimageutil."); i >= 0 {
				stack = stack[i:]
			}
			if len(stack) > 600 {
				stack = stack[:600] + "…"
			}
			result, err, panicked = nil, nil, fmt.Sprintf("%v [at %s]", p, strings.ReplaceAll(stack, "\n", " | "))
		}
	}()
	result, err = bufimageutil.FilterImage(image, opts...)
	return result, err, ""
}

const panicPrefix = "PANIC: "

// rerunDiffers applies f to a fresh clone of the input and reports how the result differs from out.
func rerunDiffers(pristine bufimage.Image, f filterSpec, out *descriptorpb.FileDescriptorSet) string {
	clone, err := bufimage.CloneImage(pristine)
	if err != nil {
		return ""
	}
	again, err, panicked := safeFilter(clone, f.options(f.Include, f.Exclude))
	if panicked != "" {
		return panicPrefix + panicked
	}
	if err != nil {
		return "second run failed: " + err.Error()
	}
	_, msg := sameFDS(out, bufimage.ImageToFileDescriptorSet(again))
	return msg
}

// sameFDS compares two descriptor sets file by file.
func sameFDS(a, b *descriptorpb.FileDescriptorSet) (string, string) {
	if len(a.File) != len(b.File) {
		return "diff", fmt.Sprintf("%d files vs %d files (%v vs %v)", len(a.File), len(b.File), fdsPaths(a), fdsPaths(b))
	}
	for i := range a.File {
		if !proto.Equal(a.File[i], b.File[i]) {
			return "diff", fmt.Sprintf("file #%d %s differs from %s: %s", i, a.File[i].GetName(), b.File[i].GetName(), firstDiff(a.File[i], b.File[i]))
		}
	}
	return "", ""
}

func fdsPaths(a *descriptorpb.FileDescriptorSet) []string {
	var out []string
	for _, f := range a.File {
		out = append(out, f.GetName())
	}
	return out
}

// firstDiff describes the first difference between two messages of the same type (recursively).
func firstDiff(a, b proto.Message) string {
	return diffAt(a.ProtoReflect(), b.ProtoReflect(), "")
}

func msgLabel(m protoreflect.Message) string {
	if fd := m.Descriptor().Fields().ByName("name"); fd != nil && fd.Kind() == protoreflect.StringKind && !fd.IsList() {
		return m.Get(fd).String()
	}
	return ""
}

func clip(s string) string {
	if len(s) > 200 {
		return s[:200] + "…"
	}
	return s
}

func diffAt(ar, br protoreflect.Message, path string) string {
	fds := ar.Descriptor().Fields()
	for i := 0; i < fds.Len(); i++ {
		fd := fds.Get(i)
		here := path + "." + string(fd.Name())
		if ar.Has(fd) != br.Has(fd) {
			return fmt.Sprintf("%s: presence %v vs %v", here, ar.Has(fd), br.Has(fd))
		}
		if !ar.Has(fd) {
			continue
		}
		switch {
		case fd.IsMap():
			continue
		case fd.IsList():
			al, bl := ar.Get(fd).List(), br.Get(fd).List()
			if fd.Message() != nil {
				var an, bn []string
				for j := 0; j < al.Len(); j++ {
					an = append(an, msgLabel(al.Get(j).Message()))
				}
				for j := 0; j < bl.Len(); j++ {
					bn = append(bn, msgLabel(bl.Get(j).Message()))
				}
				if al.Len() != bl.Len() {
					return fmt.Sprintf("%s: %d elements %v vs %d elements %v", here, al.Len(), clip(fmt.Sprint(an)), bl.Len(), clip(fmt.Sprint(bn)))
				}
				for j := 0; j < al.Len(); j++ {
					if !proto.Equal(al.Get(j).Message().Interface(), bl.Get(j).Message().Interface()) {
						return diffAt(al.Get(j).Message(), bl.Get(j).Message(), fmt.Sprintf("%s[%d %s]", here, j, an[j]))
					}
				}
				continue
			}
			if al.Len() != bl.Len() {
				return fmt.Sprintf("%s: %d vs %d elements", here, al.Len(), bl.Len())
			}
			for j := 0; j < al.Len(); j++ {
				if !al.Get(j).Equal(bl.Get(j)) {
					return fmt.Sprintf("%s[%d]: %v vs %v", here, j, clip(al.Get(j).String()), clip(bl.Get(j).String()))
				}
			}
		case fd.Message() != nil:
			if !proto.Equal(ar.Get(fd).Message().Interface(), br.Get(fd).Message().Interface()) {
				return diffAt(ar.Get(fd).Message(), br.Get(fd).Message(), here)
			}
		default:
			if !ar.Get(fd).Equal(br.Get(fd)) {
				return fmt.Sprintf("%s: %v vs %v", here, clip(ar.Get(fd).String()), clip(br.Get(fd).String()))
			}
		}
	}
	var ax, bx []string
	ar.Range(func(fd protoreflect.FieldDescriptor, _ protoreflect.Value) bool {
		if fd.IsExtension() {
			ax = append(ax, string(fd.FullName()))
		}
		return true
	})
	br.Range(func(fd protoreflect.FieldDescriptor, _ protoreflect.Value) bool {
		if fd.IsExtension() {
			bx = append(bx, string(fd.FullName()))
		}
		return true
	})
	sort.Strings(ax)
	sort.Strings(bx)
	return fmt.Sprintf("%s: extension/unknown fields differ (extensions %v vs %v, %d vs %d unknown bytes)", path, ax, bx, len(ar.GetUnknown()), len(br.GetUnknown()))
}

// ---------------------------------------------------------------------------------------------
// index of an output descriptor set

type ref struct{ what, from, target string }

type fdsIndex struct {
	names  map[string]bool // every declared full name incl. fields, oneofs, enum values, methods
	fileOf map[string]string
	pkgs   map[string]bool
	deps   map[string][]string
	refs   []ref
	// structural defects that make a message unlinkable, found while indexing
	structural []structural
}

type structural struct{ key, owner, msg string }

func (x *fdsIndex) has(n string) bool { return x.names[n] }

// parentOfDeclared: n is a proper prefix of a package declared by some file of the set.
func (x *fdsIndex) parentOfDeclared(n string) bool {
	for p := range x.pkgs {
		if (n == "" && p != "") || (n != "" && strings.HasPrefix(p, n+".")) {
			return true
		}
	}
	return false
}

func join(scope, name string) string {
	if scope == "" {
		return name
	}
	return scope + "." + name
}

func indexFDS(fds *descriptorpb.FileDescriptorSet) *fdsIndex {
	x := &fdsIndex{names: map[string]bool{}, fileOf: map[string]string{}, pkgs: map[string]bool{}, deps: map[string][]string{}}
	for _, f := range fds.File {
		path := f.GetName()
		x.deps[path] = f.GetDependency()
		x.pkgs[f.GetPackage()] = true
		decl := func(n string) { x.names[n] = true; x.fileOf[n] = path }
		field := func(scope string, fd *descriptorpb.FieldDescriptorProto, what string) {
			n := join(scope, fd.GetName())
			decl(n)
			if fd.GetTypeName() != "" {
				x.refs = append(x.refs, ref{what + " (type)", n, strings.TrimPrefix(fd.GetTypeName(), ".")})
			}
			if fd.Extendee != nil {
				x.refs = append(x.refs, ref{what + " (extendee)", n, strings.TrimPrefix(fd.GetExtendee(), ".")})
			}
		}
		enum := func(scope string, e *descriptorpb.EnumDescriptorProto) {
			decl(join(scope, e.GetName()))
			for _, val := range e.Value {
				decl(join(scope, val.GetName()))
			}
		}
		var msg func(scope string, m *descriptorpb.DescriptorProto)
		msg = func(scope string, m *descriptorpb.DescriptorProto) {
			n := join(scope, m.GetName())
			decl(n)
			if m.GetOptions().GetMapEntry() && len(m.Field) != 2 {
				x.structural = append(x.structural, structural{"map-entry-broken", n, fmt.Sprintf("map entry message %s of the result has %d field(s) %v instead of key and value", n, len(m.Field), names(m.Field))})
			}
			for _, fd := range m.Field {
				field(n, fd, "field")
				if fd.OneofIndex != nil && (fd.GetOneofIndex() < 0 || int(fd.GetOneofIndex()) >= len(m.OneofDecl)) {
					x.structural = append(x.structural, structural{"oneof-index-stale", n, fmt.Sprintf("field %s.%s of the result has oneof_index %d but the message has %d oneof(s) %v", n, fd.GetName(), fd.GetOneofIndex(), len(m.OneofDecl), names(m.OneofDecl))})
				}
			}
			for _, od := range m.OneofDecl {
				decl(join(n, od.GetName()))
			}
			for _, fd := range m.Extension {
				field(n, fd, "extension")
			}
			for _, e := range m.EnumType {
				enum(n, e)
			}
			for _, nm := range m.NestedType {
				msg(n, nm)
			}
		}
		pkg := f.GetPackage()
		for _, m := range f.MessageType {
			msg(pkg, m)
		}
		for _, e := range f.EnumType {
			enum(pkg, e)
		}
		for _, fd := range f.Extension {
			field(pkg, fd, "extension")
		}
		for _, s := range f.Service {
			sn := join(pkg, s.GetName())
			decl(sn)
			for _, m := range s.Method {
				mn := join(sn, m.GetName())
				decl(mn)
				x.refs = append(x.refs, ref{"method (request)", mn, strings.TrimPrefix(m.GetInputType(), ".")},
					ref{"method (response)", mn, strings.TrimPrefix(m.GetOutputType(), ".")})
			}
		}
	}
	return x
}

// visibleFiles returns, per file, the files whose declarations it may use: its dependencies plus
// whatever those re-export through public imports (transitively).
func visibleFiles(fds *descriptorpb.FileDescriptorSet) map[string]map[string]bool {
	byPath := map[string]*descriptorpb.FileDescriptorProto{}
	for _, f := range fds.File {
		byPath[f.GetName()] = f
	}
	var addPublic func(set map[string]bool, path string)
	addPublic = func(set map[string]bool, path string) {
		f := byPath[path]
		if f == nil {
			return
		}
		for _, idx := range f.GetPublicDependency() {
			if int(idx) < len(f.Dependency) {
				if dep := f.Dependency[idx]; !set[dep] {
					set[dep] = true
					addPublic(set, dep)
				}
			}
		}
	}
	out := map[string]map[string]bool{}
	for _, f := range fds.File {
		set := map[string]bool{}
		for _, dep := range f.Dependency {
			set[dep] = true
			addPublic(set, dep)
		}
		out[f.GetName()] = set
	}
	return out
}

// shiftStats: was an element removed from a file that keeps one, and did a survivor change index?
func shiftStats(in *descriptorpb.FileDescriptorSet, out *fdsIndex) (removed, shifted bool) {
	list := func(names []string) {
		gone, kept := false, false
		for _, n := range names {
			if out.has(n) {
				kept = true
				if gone {
					shifted = true
				}
			} else {
				gone = true
			}
		}
		_ = kept
	}
	for _, f := range in.File {
		pkg := f.GetPackage()
		fileKept, fileLost := false, false
		var msg func(scope string, m *descriptorpb.DescriptorProto)
		msg = func(scope string, m *descriptorpb.DescriptorProto) {
			n := join(scope, m.GetName())
			if !out.has(n) {
				return
			}
			var fs, ns, es, xs []string
			for _, fd := range m.Field {
				fs = append(fs, join(n, fd.GetName()))
			}
			for _, nm := range m.NestedType {
				ns = append(ns, join(n, nm.GetName()))
			}
			for _, e := range m.EnumType {
				es = append(es, join(n, e.GetName()))
			}
			for _, e := range m.Extension {
				xs = append(xs, join(n, e.GetName()))
			}
			list(fs)
			list(ns)
			list(es)
			list(xs)
			for _, nm := range m.NestedType {
				msg(n, nm)
			}
		}
		var ms, es, ss, xs []string
		for _, m := range f.MessageType {
			ms = append(ms, join(pkg, m.GetName()))
		}
		for _, e := range f.EnumType {
			es = append(es, join(pkg, e.GetName()))
		}
		for _, s := range f.Service {
			ss = append(ss, join(pkg, s.GetName()))
		}
		for _, e := range f.Extension {
			xs = append(xs, join(pkg, e.GetName()))
		}
		for _, l := range [][]string{ms, es, ss, xs} {
			for _, n := range l {
				if out.has(n) {
					fileKept = true
				} else {
					fileLost = true
				}
			}
			list(l)
		}
		for _, s := range f.Service {
			var mm []string
			for _, m := range s.Method {
				mm = append(mm, join(join(pkg, s.GetName()), m.GetName()))
			}
			list(mm)
		}
		for _, m := range f.MessageType {
			msg(pkg, m)
		}
		if fileKept && fileLost {
			removed = true
		}
	}
	return removed, shifted
}

// ---------------------------------------------------------------------------------------------
// (5) survivors unchanged

type comparer struct {
	f      filterSpec
	needed func(fullName string) bool
}

func isOptionsMessage(n protoreflect.FullName) bool {
	s := string(n)
	return strings.HasPrefix(s, "google.protobuf.") && strings.HasSuffix(s, "Options")
}

// stripCustom removes extension values and unknown fields from every *Options message below m.
func stripCustom(m protoreflect.Message) {
	if isOptionsMessage(m.Descriptor().FullName()) {
		m.Range(func(fd protoreflect.FieldDescriptor, _ protoreflect.Value) bool {
			if fd.IsExtension() {
				m.Clear(fd)
			}
			return true
		})
		m.SetUnknown(nil)
	}
	var emptied []protoreflect.FieldDescriptor
	m.Range(func(fd protoreflect.FieldDescriptor, val protoreflect.Value) bool {
		if fd.Message() == nil || fd.IsMap() {
			return true
		}
		if fd.IsList() {
			l := val.List()
			for i := 0; i < l.Len(); i++ {
				stripCustom(l.Get(i).Message())
			}
			return true
		}
		sub := val.Message()
		stripCustom(sub)
		if isOptionsMessage(sub.Descriptor().FullName()) && proto.Size(sub.Interface()) == 0 {
			emptied = append(emptied, fd)
		}
		return true
	})
	for _, fd := range emptied {
		m.Clear(fd)
	}
}

func (c *comparer) norm(m proto.Message) {
	if c.f.ExcludeCustomOptions {
		stripCustom(m.ProtoReflect())
	}
}

// equal compares two descriptor messages after normalisation; both are private copies.
func (c *comparer) equal(a, b proto.Message) bool {
	c.norm(a)
	c.norm(b)
	return proto.Equal(a, b)
}

// subsequence checks that outs (names) appear in ins in the same relative order; returns the first stranger.
func subsequence(ins, outs []string) (string, bool) {
	i := 0
	for _, o := range outs {
		for i < len(ins) && ins[i] != o {
			i++
		}
		if i == len(ins) {
			return o, false
		}
		i++
	}
	return "", true
}

func names[T interface{ GetName() string }](l []T) []string {
	out := make([]string, len(l))
	for i, e := range l {
		out[i] = e.GetName()
	}
	return out
}

func byName[T interface{ GetName() string }](l []T) map[string]T {
	out := make(map[string]T, len(l))
	for _, e := range l {
		out[e.GetName()] = e
	}
	return out
}

func (c *comparer) file(in, out *descriptorpb.FileDescriptorProto) string {
	path := in.GetName()
	a := proto.Clone(in).(*descriptorpb.FileDescriptorProto)
	b := proto.Clone(out).(*descriptorpb.FileDescriptorProto)
	for _, x := range []*descriptorpb.FileDescriptorProto{a, b} {
		x.MessageType, x.EnumType, x.Service, x.Extension = nil, nil, nil, nil
		x.Dependency, x.PublicDependency, x.WeakDependency = nil, nil, nil
		x.SourceCodeInfo = nil
	}
	if !c.equal(a, b) {
		return fmt.Sprintf("file %s: file-level descriptor changed: %s", path, firstDiff(a, b))
	}
	pkg := in.GetPackage()
	if s, ok := subsequence(names(in.MessageType), names(out.MessageType)); !ok {
		return fmt.Sprintf("file %s: message %s is new or out of order", path, s)
	}
	if s, ok := subsequence(names(in.EnumType), names(out.EnumType)); !ok {
		return fmt.Sprintf("file %s: enum %s is new or out of order", path, s)
	}
	if s, ok := subsequence(names(in.Service), names(out.Service)); !ok {
		return fmt.Sprintf("file %s: service %s is new or out of order", path, s)
	}
	if s, ok := subsequence(names(in.Extension), names(out.Extension)); !ok {
		return fmt.Sprintf("file %s: extension %s is new or out of order", path, s)
	}
	inM, inE, inS, inX := byName(in.MessageType), byName(in.EnumType), byName(in.Service), byName(in.Extension)
	for _, m := range out.MessageType {
		if d := c.message(join(pkg, m.GetName()), inM[m.GetName()], m); d != "" {
			return d
		}
	}
	for _, e := range out.EnumType {
		if d := c.leaf("enum", join(pkg, e.GetName()), inE[e.GetName()], e); d != "" {
			return d
		}
	}
	for _, x := range out.Extension {
		if d := c.leaf("extension", join(pkg, x.GetName()), inX[x.GetName()], x); d != "" {
			return d
		}
	}
	for _, s := range out.Service {
		full := join(pkg, s.GetName())
		is := inS[s.GetName()]
		if m, ok := subsequence(names(is.Method), names(s.Method)); !ok {
			return fmt.Sprintf("service %s: method %s is new or out of order", full, m)
		}
		a := proto.Clone(is).(*descriptorpb.ServiceDescriptorProto)
		b := proto.Clone(s).(*descriptorpb.ServiceDescriptorProto)
		a.Method, b.Method = nil, nil
		if !c.equal(a, b) {
			return fmt.Sprintf("service %s changed: %s", full, firstDiff(a, b))
		}
		im := byName(is.Method)
		for _, m := range s.Method {
			if d := c.leaf("method", join(full, m.GetName()), im[m.GetName()], m); d != "" {
				return d
			}
		}
	}
	return ""
}

func (c *comparer) leaf(kind, full string, in, out proto.Message) string {
	a, b := proto.Clone(in), proto.Clone(out)
	if !c.equal(a, b) {
		return fmt.Sprintf("%s %s changed: %s", kind, full, firstDiff(a, b))
	}
	return ""
}

func (c *comparer) message(full string, in, out *descriptorpb.DescriptorProto) string {
	for _, chk := range []struct {
		kind    string
		in, out []string
	}{
		{"field", names(in.Field), names(out.Field)},
		{"nested message", names(in.NestedType), names(out.NestedType)},
		{"enum", names(in.EnumType), names(out.EnumType)},
		{"extension", names(in.Extension), names(out.Extension)},
		{"oneof", names(in.OneofDecl), names(out.OneofDecl)},
	} {
		if s, ok := subsequence(chk.in, chk.out); !ok {
			return fmt.Sprintf("message %s: %s %s is new or out of order", full, chk.kind, s)
		}
	}
	// expected own part: the input minus exactly the children that are absent in the output
	exp := proto.Clone(in).(*descriptorpb.DescriptorProto)
	got := proto.Clone(out).(*descriptorpb.DescriptorProto)
	exp.NestedType, exp.EnumType, exp.Extension = nil, nil, nil
	got.NestedType, got.EnumType, got.Extension = nil, nil, nil
	outFields := byName(out.Field)
	var fields []*descriptorpb.FieldDescriptorProto
	oneofUsed := make([]bool, len(exp.OneofDecl))
	for _, fd := range exp.Field {
		if _, ok := outFields[fd.GetName()]; !ok {
			continue
		}
		fields = append(fields, fd)
		if fd.OneofIndex != nil && int(fd.GetOneofIndex()) < len(oneofUsed) {
			oneofUsed[fd.GetOneofIndex()] = true
		}
	}
	remap := make([]int32, len(exp.OneofDecl))
	var oneofs []*descriptorpb.OneofDescriptorProto
	for i, od := range exp.OneofDecl {
		if oneofUsed[i] {
			remap[i] = int32(len(oneofs))
			oneofs = append(oneofs, od)
		}
	}
	for _, fd := range fields {
		if fd.OneofIndex != nil {
			fd.OneofIndex = proto.Int32(remap[fd.GetOneofIndex()])
		}
	}
	exp.Field, exp.OneofDecl = fields, oneofs
	stripped := false
	if !c.needed(full) && len(got.Field) == 0 && len(got.OneofDecl) == 0 && len(got.ExtensionRange) == 0 &&
		len(got.ReservedRange) == 0 && len(got.ReservedName) == 0 {
		// a message that is only kept as the namespace of a needed nested element may be reduced to its shell
		stripped = true
		exp.Field, exp.OneofDecl, exp.ExtensionRange, exp.ReservedRange, exp.ReservedName = nil, nil, nil, nil, nil
	}
	if !c.equal(exp, got) {
		// name the differing field if it is one
		ef := byName(exp.Field)
		for _, fd := range got.Field {
			if e := ef[fd.GetName()]; e != nil && !proto.Equal(e, fd) {
				return fmt.Sprintf("field %s.%s changed: %s", full, fd.GetName(), firstDiff(e, fd))
			}
		}
		return fmt.Sprintf("message %s changed (beyond removal of filtered children; namespace-only=%v): %s", full, stripped, firstDiff(exp, got))
	}
	inN, inE, inX := byName(in.NestedType), byName(in.EnumType), byName(in.Extension)
	for _, m := range out.NestedType {
		if d := c.message(join(full, m.GetName()), inN[m.GetName()], m); d != "" {
			return d
		}
	}
	for _, e := range out.EnumType {
		if d := c.leaf("enum", join(full, e.GetName()), inE[e.GetName()], e); d != "" {
			return d
		}
	}
	for _, x := range out.Extension {
		if d := c.leaf("extension", join(full, x.GetName()), inX[x.GetName()], x); d != "" {
			return d
		}
	}
	return ""
}

// ---------------------------------------------------------------------------------------------
// comments and spans, looked up by full name

func sameLoc(a, b protoreflect.SourceLocation, commentsMayVanish bool) string {
	if a.StartLine != b.StartLine || a.StartColumn != b.StartColumn || a.EndLine != b.EndLine || a.EndColumn != b.EndColumn {
		return fmt.Sprintf("span %d:%d-%d:%d became %d:%d-%d:%d", a.StartLine+1, a.StartColumn+1, a.EndLine+1, a.EndColumn+1, b.StartLine+1, b.StartColumn+1, b.EndLine+1, b.EndColumn+1)
	}
	if commentsMayVanish && b.LeadingComments == "" && b.TrailingComments == "" && len(b.LeadingDetachedComments) == 0 {
		return ""
	}
	if a.LeadingComments != b.LeadingComments {
		return fmt.Sprintf("leading comment %q became %q", a.LeadingComments, b.LeadingComments)
	}
	if a.TrailingComments != b.TrailingComments {
		return fmt.Sprintf("trailing comment %q became %q", a.TrailingComments, b.TrailingComments)
	}
	if strings.Join(a.LeadingDetachedComments, "\x00") != strings.Join(b.LeadingDetachedComments, "\x00") {
		return fmt.Sprintf("detached comments %q became %q", a.LeadingDetachedComments, b.LeadingDetachedComments)
	}
	return ""
}

// compareLocations walks the output file and pairs every descriptor with the input descriptor of the same name.
func compareLocations(in, out protoreflect.FileDescriptor, needed func(string) bool) string {
	if in.SourceLocations().Len() == 0 {
		if out.SourceLocations().Len() != 0 {
			return fmt.Sprintf("file %s: source info appeared", out.Path())
		}
		return ""
	}
	inLocs, outLocs := in.SourceLocations(), out.SourceLocations()
	var diff string
	check := func(a, b protoreflect.Descriptor, mayVanish bool) bool {
		if a == nil {
			diff = fmt.Sprintf("harness: no input descriptor for %s", b.FullName())
			return false
		}
		if d := sameLoc(inLocs.ByDescriptor(a), outLocs.ByDescriptor(b), mayVanish); d != "" {
			diff = fmt.Sprintf("source location of %s in %s: %s", b.FullName(), out.Path(), d)
			return false
		}
		return true
	}
	var enums func(ins, outs protoreflect.EnumDescriptors) bool
	enums = func(ins, outs protoreflect.EnumDescriptors) bool {
		for i := 0; i < outs.Len(); i++ {
			o := outs.Get(i)
			a := ins.ByName(o.Name())
			if a == nil {
				diff = fmt.Sprintf("harness: enum %s missing in input", o.FullName())
				return false
			}
			if !check(a, o, false) {
				return false
			}
			for j := 0; j < o.Values().Len(); j++ {
				ov := o.Values().Get(j)
				av := a.Values().ByName(ov.Name())
				if av == nil {
					diff = fmt.Sprintf("harness: enum value %s missing in input", ov.FullName())
					return false
				}
				if !check(av, ov, false) {
					return false
				}
			}
		}
		return true
	}
	exts := func(ins, outs protoreflect.ExtensionDescriptors) bool {
		for i := 0; i < outs.Len(); i++ {
			o := outs.Get(i)
			a := ins.ByName(o.Name())
			if a == nil {
				diff = fmt.Sprintf("harness: extension %s missing in input", o.FullName())
				return false
			}
			if !check(a, o, false) {
				return false
			}
		}
		return true
	}
	var msgs func(ins, outs protoreflect.MessageDescriptors) bool
	msgs = func(ins, outs protoreflect.MessageDescriptors) bool {
		for i := 0; i < outs.Len(); i++ {
			o := outs.Get(i)
			a := ins.ByName(o.Name())
			if a == nil {
				diff = fmt.Sprintf("harness: message %s missing in input", o.FullName())
				return false
			}
			shell := !needed(string(o.FullName())) && o.Fields().Len() == 0
			if !check(a, o, shell) {
				return false
			}
			for j := 0; j < o.Fields().Len(); j++ {
				of := o.Fields().Get(j)
				af := a.Fields().ByName(of.Name())
				if af == nil {
					diff = fmt.Sprintf("harness: field %s missing in input", of.FullName())
					return false
				}
				if !check(af, of, false) {
					return false
				}
			}
			for j := 0; j < o.Oneofs().Len(); j++ {
				oo := o.Oneofs().Get(j)
				ao := a.Oneofs().ByName(oo.Name())
				if ao == nil {
					diff = fmt.Sprintf("harness: oneof %s missing in input", oo.FullName())
					return false
				}
				if oo.IsSynthetic() {
					continue
				}
				if !check(ao, oo, false) {
					return false
				}
			}
			if !enums(a.Enums(), o.Enums()) || !exts(a.Extensions(), o.Extensions()) || !msgs(a.Messages(), o.Messages()) {
				return false
			}
		}
		return true
	}
	if !msgs(in.Messages(), out.Messages()) || !enums(in.Enums(), out.Enums()) || !exts(in.Extensions(), out.Extensions()) {
		return diff
	}
	for i := 0; i < out.Services().Len(); i++ {
		o := out.Services().Get(i)
		a := in.Services().ByName(o.Name())
		if a == nil {
			return fmt.Sprintf("harness: service %s missing in input", o.FullName())
		}
		if !check(a, o, false) {
			return diff
		}
		for j := 0; j < o.Methods().Len(); j++ {
			om := o.Methods().Get(j)
			am := a.Methods().ByName(om.Name())
			if am == nil {
				return fmt.Sprintf("harness: method %s missing in input", om.FullName())
			}
			if !check(am, om, false) {
				return diff
			}
		}
	}
	return ""
}
