// C12 — type filtering yields a self-contained, otherwise unchanged image.
//
// Cases: protogen workspaces (custom options on; plus, locally, files that declare no types and
// non-target modules whose files enter the image as imports) built through buf's real module-set +
// BuildImage path, × filters over names that exist in the image. The oracle (oracle_test.go,
// model_test.go) is a reference model over protoreflect descriptors of the input and the output.
package c12

import (
	"context"
	"encoding/json"
	"fmt"
	"sort"
	"strings"
	"testing"

	"github.com/bufbuild/buf/private/bufpkg/bufimage"
	"github.com/bufbuild/buf/private/bufpkg/bufmodule"
	"github.com/bufbuild/bufverif/internal/bufx"
	"github.com/bufbuild/bufverif/internal/evid"
	"github.com/bufbuild/bufverif/internal/protogen"
	"google.golang.org/protobuf/reflect/protoreflect"
	"pgregory.net/rapid"
)

func TestMain(m *testing.M) { evid.Main(m, "C12") }

// modSrc is one module of a case: rendered sources, replayable without the generator.
type modSrc struct {
	Dir    string            `json:"dir"`
	Name   string            `json:"name,omitempty"`
	Target bool              `json:"target"`
	// TargetPaths (module-relative files) restricts the targets of a target module; the other files only
	// enter the image as imports of targeted ones.
	TargetPaths []string          `json:"target_paths,omitempty"`
	Files       map[string]string `json:"files"`
}

type c12Case struct {
	Modules      []modSrc   `json:"modules"`
	NoSourceInfo bool       `json:"no_source_info,omitempty"`
	Filter       filterSpec `json:"filter"`
}

func buildImage(ctx context.Context, c *c12Case) (bufimage.Image, error) {
	ws := &protogen.Workspace{}
	byModule := map[string]map[string]string{}
	specs := map[string]bufx.ModuleSpec{}
	for _, m := range c.Modules {
		ws.Modules = append(ws.Modules, &protogen.Module{Dir: m.Dir, Name: m.Name})
		byModule[m.Dir] = m.Files
		specs[m.Dir] = bufx.ModuleSpec{Target: m.Target, TargetPaths: m.TargetPaths}
	}
	ms, err := bufx.ModuleSet(ctx, ws, byModule, specs, nil, nil)
	if err != nil {
		return nil, err
	}
	var opts []bufimage.BuildImageOption
	if c.NoSourceInfo {
		opts = append(opts, bufimage.WithExcludeSourceCodeInfo())
	}
	return bufimage.BuildImage(ctx, bufx.Logger, bufmodule.ModuleSetToModuleReadBucketWithOnlyProtoFiles(ms), opts...)
}

func pct(t *rapid.T, label string, p int) bool { return rapid.IntRange(0, 99).Draw(t, label) < p }

func genConfig() protogen.GenConfig {
	cfg := protogen.DefaultConfig()
	cfg.CustomOptions = true
	cfg.MaxFiles = 5
	cfg.MaxMessages = 3
	cfg.MaxFields = 5
	cfg.SyntaxUnspec = false
	return cfg
}

// fixMapEnums works around a protogen gap: map<K, E> where the closed enum E does not start at 0 is
// accepted by buf's compiler but rejected by protodesc.NewFiles (the trusted observer of this check).
// Such map fields get a scalar value type instead.
func fixMapEnums(ws *protogen.Workspace) {
	first := map[string]int32{}
	for _, f := range ws.AllFiles() {
		f.WalkEnums(func(e protogen.EnumRef) {
			if len(e.Enum.Values) > 0 {
				first["."+e.Full] = e.Enum.Values[0].Number
			}
		})
	}
	for _, f := range ws.AllFiles() {
		f.WalkMessages(func(m protogen.MsgRef) {
			for _, fld := range m.Msg.Fields {
				if fld.MapKey != "" && fld.TypeKind == "enum" && first[fld.Type] != 0 {
					fld.Type, fld.TypeKind = "int32", "scalar"
				}
			}
		})
	}
}

// addTypelessFile plants a file that declares no message/enum/service/extension.
func addTypelessFile(t *rapid.T, ws *protogen.Workspace) string {
	all := ws.AllFiles()
	var optFile *protogen.File
	var normal []*protogen.File
	for _, f := range all {
		if strings.HasPrefix(f.Path, "options/v1/") {
			optFile = f
		} else {
			normal = append(normal, f)
		}
	}
	host := normal[rapid.IntRange(0, len(normal)-1).Draw(t, "typeless-host")]
	mod := ws.ModuleOf(host)
	f := &protogen.File{ID: "typeless1", Syntax: protogen.Proto3}
	shape := rapid.IntRange(0, 4).Draw(t, "typeless-shape")
	dir := host.Path[:strings.LastIndex(host.Path, "/")]
	if pct(t, "typeless-newpkg", 40) {
		f.Package = "typeless.v1"
		f.Path = "typeless/v1/only_options.proto"
	} else {
		f.Package = host.Package
		f.Path = dir + "/only_options.proto"
	}
	switch shape {
	case 0: // syntax + package only
	case 1:
		f.Imports = []protogen.Import{{Path: "google/protobuf/empty.proto", Unused: true}}
	case 2:
		f.Options = []protogen.Option{{Name: "go_package", Value: `"example.com/gen/typeless;typelesspb"`}, {Name: "java_multiple_files", Value: "true"}}
	case 3:
		if optFile != nil {
			f.Imports = []protogen.Import{{Path: optFile.Path, Unused: true}}
		}
		f.Syntax = protogen.Proto2
	default:
		f.Syntax = protogen.Editions
		f.Comment = "A file without types."
	}
	mod.Files = append(mod.Files, f)
	// sometimes another file imports it (an unused import: nothing can be used from it)
	if pct(t, "typeless-imported", 40) {
		imp := normal[rapid.IntRange(0, len(normal)-1).Draw(t, "typeless-importer")]
		imp.Imports = append(imp.Imports, protogen.Import{Path: f.Path, Unused: true})
		return "typeless-file-imported"
	}
	return "typeless-file"
}

// addSpanFile makes a package span target and import files: a new non-target dependency module gets a
// file that declares the package of an existing file, and that file imports and uses it. Returns the
// directory of the new module.
func addSpanFile(t *rapid.T, ws *protogen.Workspace) string {
	var normal []*protogen.File
	for _, f := range ws.AllFiles() {
		if !strings.HasPrefix(f.Path, "options/v1/") && len(f.Messages) > 0 && f.ID != "typeless1" {
			normal = append(normal, f)
		}
	}
	if len(normal) == 0 {
		return ""
	}
	host := normal[rapid.IntRange(0, len(normal)-1).Draw(t, "span-host")]
	dir := host.Path[:strings.LastIndex(host.Path, "/")]
	dep := &protogen.File{ID: "spandep1", Syntax: protogen.Proto3, Package: host.Package, Path: dir + "/span_dep.proto"}
	dep.Messages = []*protogen.Message{{
		ID: "spandepmsg1", Name: "SpanDep", Comment: "SpanDep lives in a dependency module but in the same package.",
		Fields: []*protogen.Field{{ID: "spandepfld1", Name: "note", Number: 1, Type: "string", TypeKind: "scalar"}},
		Nested: []*protogen.Message{{ID: "spandepmsg2", Name: "Inner", Fields: []*protogen.Field{{ID: "spandepfld2", Name: "n", Number: 1, Type: "int32", TypeKind: "scalar"}}}},
	}}
	if rapid.Bool().Draw(t, "span-enum") {
		dep.Enums = []*protogen.Enum{{ID: "spandepenum1", Name: "SpanKind", Values: []*protogen.EnumValue{{ID: "spandepval1", Name: "SPAN_KIND_UNSPECIFIED", Number: 0}, {ID: "spandepval2", Name: "SPAN_KIND_OTHER", Number: 1}}}}
	}
	ws.Modules = append(ws.Modules, &protogen.Module{Dir: "depmod", Name: "buf.build/acme/depmod", Files: []*protogen.File{dep}})
	// the host uses it, so that it enters the image (as an import)
	m := host.Messages[rapid.IntRange(0, len(host.Messages)-1).Draw(t, "span-user")]
	used := map[int32]bool{}
	for _, fld := range m.Fields {
		used[fld.Number] = true
	}
	num := int32(30000)
	for used[num] {
		num++
	}
	fld := &protogen.Field{ID: "spanref1", Name: "span_dep_ref", Number: num, Type: "." + protogen.FullName(host.Package, "SpanDep"), TypeKind: "message"}
	if host.Syntax == protogen.Proto2 {
		fld.Label = protogen.LabelOptional
	}
	m.Fields = append(m.Fields, fld)
	host.Imports = append(host.Imports, protogen.Import{Path: dep.Path})
	return "depmod"
}

// addReexportFiles plants the `import public` shape: leaf files, a hub that publicly imports some of them,
// unrelated files, and a user file that imports the hub (and the unrelated files) and reaches the leaves
// only through the hub. Filtering by a user message drops the hub and the unrelated imports and has to
// add the leaves as direct dependencies.
func addReexportFiles(t *rapid.T, ws *protogen.Workspace) {
	mod := ws.Modules[rapid.IntRange(0, len(ws.Modules)-1).Draw(t, "reexp-module")]
	const pkg = "reexp.v1"
	str := func(id, name string) *protogen.Field {
		return &protogen.Field{ID: id, Name: name, Number: 1, Type: "string", TypeKind: "scalar"}
	}
	nLeaf := rapid.IntRange(2, 5).Draw(t, "reexp-leaves")
	leafPath := func(i int) string { return fmt.Sprintf("reexp/v1/leaf_%c.proto", 'a'+i) }
	for i := 0; i < nLeaf; i++ {
		mod.Files = append(mod.Files, &protogen.File{ID: fmt.Sprintf("reexpleaf%d", i), Path: leafPath(i), Syntax: protogen.Proto3, Package: pkg,
			Messages: []*protogen.Message{{ID: fmt.Sprintf("reexpleafmsg%d", i), Name: fmt.Sprintf("Leaf%d", i), Comment: fmt.Sprintf("Leaf%d message.", i), Fields: []*protogen.Field{str(fmt.Sprintf("reexpleaffld%d", i), "v")}}}})
	}
	hub := &protogen.File{ID: "reexphub", Path: "reexp/v1/hub.proto", Syntax: protogen.Proto3, Package: pkg,
		Messages: []*protogen.Message{{ID: "reexphubmsg", Name: "Hub", Fields: []*protogen.Field{str("reexphubfld", "v")}}}}
	public := map[int]bool{}
	for _, i := range rapid.Permutation(seqInts(nLeaf)).Draw(t, "reexp-order") {
		// at least the first two leaves are re-exported
		if i < 2 || rapid.Bool().Draw(t, "reexp-public") {
			hub.Imports = append(hub.Imports, protogen.Import{Path: leafPath(i), Public: true})
			public[i] = true
		}
	}
	mod.Files = append(mod.Files, hub)
	nUnrel := rapid.IntRange(0, 2).Draw(t, "reexp-unrelated")
	user := &protogen.File{ID: "reexpuser", Path: "reexp/v1/user.proto", Syntax: protogen.Proto3, Package: pkg}
	imports := []protogen.Import{{Path: hub.Path}}
	other := &protogen.Message{ID: "reexpothermsg", Name: "ReexpOther", Fields: []*protogen.Field{str("reexpotherfld", "v")}}
	for k := 0; k < nUnrel; k++ {
		path := fmt.Sprintf("reexp/v1/unrel_%d.proto", k)
		mod.Files = append(mod.Files, &protogen.File{ID: fmt.Sprintf("reexpunrel%d", k), Path: path, Syntax: protogen.Proto3, Package: pkg,
			Messages: []*protogen.Message{{ID: fmt.Sprintf("reexpunrelmsg%d", k), Name: fmt.Sprintf("Unrel%d", k), Fields: []*protogen.Field{str(fmt.Sprintf("reexpunrelfld%d", k), "v")}}}})
		imports = append(imports, protogen.Import{Path: path})
		other.Fields = append(other.Fields, &protogen.Field{ID: fmt.Sprintf("reexpotheruse%d", k), Name: fmt.Sprintf("u%d", k), Number: int32(k + 2), Type: fmt.Sprintf(".%s.Unrel%d", pkg, k), TypeKind: "message"})
	}
	user.Imports = rapid.Permutation(imports).Draw(t, "reexp-imports")
	nUser := rapid.IntRange(1, 2).Draw(t, "reexp-users")
	for m := 0; m < nUser; m++ {
		msg := &protogen.Message{ID: fmt.Sprintf("reexpusermsg%d", m), Name: fmt.Sprintf("ReexpUser%d", m), Comment: "Uses leaves through the hub."}
		num := int32(1)
		for i := 0; i < nLeaf; i++ {
			// the first user message uses exactly one leaf in 1 of 3 cases (fewer imports appended than dropped)
			if public[i] && (num == 1 || rapid.IntRange(0, 2).Draw(t, "reexp-use") != 0) {
				msg.Fields = append(msg.Fields, &protogen.Field{ID: fmt.Sprintf("reexpuse%d_%d", m, i), Name: fmt.Sprintf("l%d", i), Number: num, Type: fmt.Sprintf(".%s.Leaf%d", pkg, i), TypeKind: "message"})
				num++
			}
		}
		if rapid.IntRange(0, 4).Draw(t, "reexp-usehub") == 4 {
			msg.Fields = append(msg.Fields, &protogen.Field{ID: fmt.Sprintf("reexpusehub%d", m), Name: "hub", Number: num, Type: "." + pkg + ".Hub", TypeKind: "message"})
		}
		user.Messages = append(user.Messages, msg)
	}
	user.Messages = append(user.Messages, other)
	mod.Files = append(mod.Files, user)
}

func seqInts(n int) []int {
	out := make([]int, n)
	for i := range out {
		out[i] = i
	}
	return out
}

// candidate name pools drawn from the image itself
type pools struct {
	msgs, enums, svcs, methods, exts, pkgs, rpcIO, mapVals, nested, imported, extendees, optionDefs []string
	// packages by kind, and names that are not filterable at all (fields, oneofs, enum values, invented names)
	targetPkgs, mixedPkgs, importPkgs, parentPkgs, unknown []string
	withUnknown                                             bool // draw() may return names that do not exist
	reexpUsers                                              []string // messages that reach their field types only through an `import public` hub
}

func uniqSorted(m map[string]bool) []string {
	out := make([]string, 0, len(m))
	for k := range m {
		out = append(out, k)
	}
	sort.Strings(out)
	return out
}

func makePools(u *universe) *pools {
	p := &pools{pkgs: u.pkgs}
	rpcIO, mapVals, extendees := map[string]bool{}, map[string]bool{}, map[string]bool{}
	for _, n := range u.order {
		e := u.byName[n]
		if e.mapEntry {
			continue
		}
		if e.isImport {
			p.imported = append(p.imported, n)
			if strings.HasPrefix(n, "google.protobuf.") {
				continue // WKT names only through the "imported" pool
			}
		}
		if e.parent != "" && e.kind != kindMethod {
			p.nested = append(p.nested, n)
		}
		switch d := e.d.(type) {
		case protoreflect.MessageDescriptor:
			p.msgs = append(p.msgs, n)
			for i := 0; i < d.Fields().Len(); i++ {
				if fd := d.Fields().Get(i); fd.IsMap() {
					if _, mv := fieldTypeNames(fd); mv != "" {
						mapVals[mv] = true
					}
				}
			}
		case protoreflect.EnumDescriptor:
			p.enums = append(p.enums, n)
		case protoreflect.ServiceDescriptor:
			p.svcs = append(p.svcs, n)
		case protoreflect.MethodDescriptor:
			p.methods = append(p.methods, n)
			rpcIO[string(d.Input().FullName())] = true
			rpcIO[string(d.Output().FullName())] = true
		case protoreflect.ExtensionDescriptor:
			p.exts = append(p.exts, n)
			ext := string(d.ContainingMessage().FullName())
			if strings.HasPrefix(ext, "google.protobuf.") {
				p.optionDefs = append(p.optionDefs, n)
			} else {
				extendees[ext] = true
			}
		}
	}
	p.rpcIO, p.mapVals, p.extendees = uniqSorted(rpcIO), uniqSorted(mapVals), uniqSorted(extendees)
	for _, pkg := range u.pkgs {
		switch u.pkgKind(pkg) {
		case pkgTarget:
			p.targetPkgs = append(p.targetPkgs, pkg)
		case pkgMixed:
			p.mixedPkgs = append(p.mixedPkgs, pkg)
		case pkgAllImport:
			p.importPkgs = append(p.importPkgs, pkg)
		}
	}
	p.parentPkgs = u.parentOnlyPkgs()
	for _, n := range p.msgs {
		if strings.HasPrefix(n, "reexp.v1.ReexpUser") && !u.byName[n].isImport {
			p.reexpUsers = append(p.reexpUsers, n)
		}
	}
	// names a filter cannot name: regular fields, oneofs, enum values, and names that do not exist
	unknown := map[string]bool{"no.such.pkg.v1": true, "NoSuchType": true}
	for _, n := range u.order {
		e := u.byName[n]
		if e.isImport || e.mapEntry {
			continue
		}
		unknown[n+"Missing"] = true
		switch d := e.d.(type) {
		case protoreflect.MessageDescriptor:
			if d.Fields().Len() > 0 {
				unknown[string(d.Fields().Get(0).FullName())] = true
			}
			if d.Oneofs().Len() > 0 {
				unknown[string(d.Oneofs().Get(0).FullName())] = true
			}
		case protoreflect.EnumDescriptor:
			unknown[string(d.Values().Get(0).FullName())] = true
		}
	}
	for _, pkg := range u.pkgs {
		unknown[pkg+".nosuch"] = true
	}
	for n := range unknown {
		if u.byName[n] != nil || u.pkgKind(n) != "" {
			delete(unknown, n)
		}
	}
	p.unknown = uniqSorted(unknown)
	return p
}

func (p *pools) draw(t *rapid.T, label string, excludeSide bool) (string, bool) {
	type cat struct {
		w    int
		list []string
	}
	cats := []cat{
		{6, p.msgs}, {3, p.enums}, {2, p.svcs}, {3, p.methods}, {3, p.exts}, {2, p.pkgs},
		{2, p.nested}, {1, p.imported}, {2, p.extendees}, {2, p.optionDefs},
	}
	if excludeSide {
		cats = append(cats, cat{5, p.rpcIO}, cat{5, p.mapVals}, cat{1, p.parentPkgs})
	} else {
		// include side: packages of every kind (a mixed package is legal to include, an all-import or
		// parent-only one only with WithAllowIncludeOfImportedType)
		cats = append(cats, cat{1, p.rpcIO}, cat{1, p.mapVals}, cat{3, p.targetPkgs}, cat{8, p.mixedPkgs}, cat{3, p.importPkgs}, cat{3, p.parentPkgs})
	}
	if p.withUnknown {
		cats = append(cats, cat{4, p.unknown})
	}
	total := 0
	for _, c := range cats {
		if len(c.list) > 0 {
			total += c.w
		}
	}
	if total == 0 {
		return "", false
	}
	k := rapid.IntRange(0, total-1).Draw(t, label+"-cat")
	for _, c := range cats {
		if len(c.list) == 0 {
			continue
		}
		if k < c.w {
			return c.list[rapid.IntRange(0, len(c.list)-1).Draw(t, label)], true
		}
		k -= c.w
	}
	return "", false
}

// genFilter draws a filter over existing names. allowConflict keeps included names that require an excluded one.
func genFilter(t *rapid.T, u *universe) (filterSpec, bool) {
	p := makePools(u)
	f := filterSpec{
		ExcludeCustomOptions:   pct(t, "no-custom-options", 30),
		ExcludeKnownExtensions: pct(t, "no-known-extensions", 30),
		MutateInPlace:          pct(t, "in-place", 40),
		AllowImported:          rapid.Bool().Draw(t, "allow-imported"),
	}
	// rapid's integer generators favour small values; the order below gives roughly 35/30/35 after
	// includes that would be a documented error have been dropped
	mode := []int{70, 50, 0, 70, 50}[rapid.IntRange(0, 4).Draw(t, "mode")] // <40 exclude-only, 40-64 include-only, >=65 mixed
	n := rapid.IntRange(1, 5).Draw(t, "names")
	allowConflict := pct(t, "allow-conflict", 4)
	// in ~1 of 5 cases names that the reference rejects are kept (imported names / import-only or file-less
	// packages without WithAllowIncludeOfImportedType, names that do not exist): the filter must then fail
	keepRejected := rapid.IntRange(0, 4).Draw(t, "keep-rejected") == 4
	p.withUnknown = keepRejected
	inc, exc := map[string]bool{}, map[string]bool{}
	for i := 0; i < n; i++ {
		toExclude := mode < 40 || (mode >= 65 && (i == 0 || (i > 1 && rapid.Bool().Draw(t, "side"))))
		name, ok := p.draw(t, "name", toExclude)
		if !ok {
			continue
		}
		if toExclude {
			if !inc[name] {
				exc[name] = true
			}
		} else if !exc[name] {
			inc[name] = true
		}
	}
	// a message that needs files it only reaches through a public-import hub: include it more often
	if mode >= 40 && len(p.reexpUsers) > 0 && rapid.Bool().Draw(t, "reexp-user") {
		if name := p.reexpUsers[rapid.IntRange(0, len(p.reexpUsers)-1).Draw(t, "reexp-user-name")]; !exc[name] {
			inc[name] = true
		}
	}
	// a package that spans target and import files is the interesting include: name it more often
	if mode >= 40 && len(p.mixedPkgs) > 0 && rapid.IntRange(0, 2).Draw(t, "mixed-pkg") == 2 {
		if name := p.mixedPkgs[rapid.IntRange(0, len(p.mixedPkgs)-1).Draw(t, "mixed-pkg-name")]; !exc[name] {
			inc[name] = true
		}
	}
	if !keepRejected {
		for name := range exc {
			if len(u.rejections(filterSpec{Exclude: []string{name}})) > 0 {
				delete(exc, name)
			}
		}
	}
	f.Exclude = uniqSorted(exc)
	x := u.expandExcluded(f.Exclude)
	for name := range inc {
		keep := keepRejected || len(u.rejections(filterSpec{Include: []string{name}, AllowImported: f.AllowImported})) == 0
		if keep && !allowConflict && len(u.conflicts([]string{name}, x)) > 0 {
			keep = false
		}
		if !keep {
			delete(inc, name)
		}
	}
	f.Include = uniqSorted(inc)
	if len(f.Include)+len(f.Exclude) == 0 {
		// fall back to a plain exclude of some message of a non-import file
		for _, name := range p.msgs {
			if !u.byName[name].isImport {
				f.Exclude = []string{name}
				break
			}
		}
	}
	return f, allowConflict
}

func classify(r *evid.Recorder, u *universe, f filterSpec, x map[string]bool) {
	r.Class("mode:" + f.mode())
	if f.ExcludeCustomOptions {
		r.Class("opt:exclude-custom-options")
	}
	if f.ExcludeKnownExtensions {
		r.Class("opt:exclude-known-extensions")
	}
	if f.MutateInPlace {
		r.Class("opt:mutate-in-place")
	}
	if f.AllowImported {
		r.Class("opt:allow-imported")
	}
	p := makePools(u)
	in := func(l []string, n string) bool {
		for _, s := range l {
			if s == n {
				return true
			}
		}
		return false
	}
	for _, n := range f.Exclude {
		switch {
		case u.byName[n] == nil && u.pkgKind(n) == "":
			r.Class("exclude:unknown-name")
		case u.byName[n] == nil:
			r.Class("exclude:" + u.pkgKind(n))
		default:
			r.Class("exclude:" + u.byName[n].kind)
			if in(p.rpcIO, n) {
				r.Class("exclude:rpc-request-or-response-type")
			}
			if in(p.mapVals, n) {
				r.Class("exclude:map-value-type:" + u.byName[n].kind)
			}
			if u.byName[n].isImport {
				r.Class("exclude:imported-type")
			}
			if u.byName[n].parent != "" {
				r.Class("exclude:nested")
			}
		}
	}
	for _, n := range f.Include {
		switch {
		case u.byName[n] == nil && u.pkgKind(n) == "":
			r.Class("include:unknown-name")
		case u.byName[n] == nil:
			allow := ""
			if f.AllowImported {
				allow = ":allow-imported"
			}
			r.Class("include:" + u.pkgKind(n) + allow)
		default:
			r.Class("include:" + u.byName[n].kind)
			if in(p.reexpUsers, n) {
				r.Class("include:message-reaching-types-through-public-import-hub")
			}
			if u.byName[n].isImport {
				r.Class("include:imported-type")
			}
			if u.byName[n].parent != "" {
				r.Class("include:nested")
			}
		}
	}
	typeless := false
	anyImport := false
	for _, path := range u.paths {
		if len(u.fileElems[path]) == 0 {
			typeless = true
		}
		if u.isImport[path] && !strings.HasPrefix(path, "google/protobuf/") {
			anyImport = true
		}
	}
	if typeless {
		r.Class("image:has-typeless-file")
	}
	for _, pkg := range u.pkgs {
		if u.pkgKind(pkg) == pkgMixed {
			r.Class("image:has-package-with-target-and-import-files")
			break
		}
	}
	if anyImport {
		r.Class("image:has-non-target-module-files")
	}
	nOpt := 0
	for _, n := range u.order {
		nOpt += len(customOptionNames(u.byName[n].d))
	}
	if nOpt > 0 {
		r.Class("image:custom-options-in-use")
	}
}

func TestFilter(t *testing.T) {
	r := evid.R()
	ctx := context.Background()
	notes := 0
	r.Check(t, r.Scale(4000, 60000), 1, func(t *rapid.T) {
		ws := protogen.GenWorkspace(t, genConfig())
		fixMapEnums(ws)
		var genClasses []string
		if pct(t, "typeless", 40) {
			genClasses = append(genClasses, addTypelessFile(t, ws))
		}
		if rapid.IntRange(0, 3).Draw(t, "reexport-files") == 3 {
			addReexportFiles(t, ws)
			genClasses = append(genClasses, "public-import-hub")
		}
		nGenerated := len(ws.Modules)
		depDir := ""
		if rapid.IntRange(0, 2).Draw(t, "span-file") == 2 {
			if depDir = addSpanFile(t, ws); depDir != "" {
				genClasses = append(genClasses, "package-spans-dependency-module")
			}
		}
		rw := ws.Render()
		c := &c12Case{NoSourceInfo: pct(t, "no-source-info", 12)}
		nonTarget := nGenerated >= 2 && pct(t, "non-target-modules", 35)
		partial := rapid.IntRange(0, 3).Draw(t, "partial-targets") == 3
		anyTarget := false
		for i, m := range ws.Modules {
			ms := modSrc{Dir: m.Dir, Name: m.Name, Target: true, Files: rw.ByModule[m.Dir]}
			switch {
			case m.Dir == depDir:
				ms.Target = false
			case nonTarget && !(i == nGenerated-1 && !anyTarget) && rapid.Bool().Draw(t, "mod-non-target"):
				ms.Target = false
			case partial && len(m.Files) >= 2:
				// only some files of the module are targets; the rest can only enter the image as imports
				for _, f := range m.Files {
					if rapid.Bool().Draw(t, "file-target") {
						ms.TargetPaths = append(ms.TargetPaths, f.Path)
					}
				}
				if len(ms.TargetPaths) == len(m.Files) {
					ms.TargetPaths = nil
				} else if len(ms.TargetPaths) == 0 {
					ms.TargetPaths = []string{m.Files[len(m.Files)-1].Path}
				}
				if ms.TargetPaths != nil {
					genClasses = append(genClasses, "module-partially-targeted")
				}
			}
			anyTarget = anyTarget || ms.Target
			c.Modules = append(c.Modules, ms)
		}
		image, err := buildImage(ctx, c)
		if err != nil {
			for _, m := range c.Modules {
				for p, txt := range m.Files {
					t.Logf("=== %s/%s\n%s", m.Dir, p, txt)
				}
			}
			t.Fatalf("harness: generated workspace does not build: %v", err)
		}
		u, err := newUniverse(bufimage.ImageToFileDescriptorSet(image), importMap(image))
		if err != nil {
			t.Fatalf("harness: built image does not link: %v", err)
		}
		f, _ := genFilter(t, u)
		c.Filter = f
		x := u.expandExcluded(f.Exclude)
		for _, gc := range genClasses {
			r.Class("gen:" + gc)
		}
		classify(r, u, f, x)

		v := runOracle(image, f)
		if v.harness != nil {
			t.Fatalf("harness: %v", v.harness)
		}
		r.Eval()
		for _, cl := range v.classes {
			r.Class(cl)
		}
		if v.key != "" {
			r.Fail(t, v.key, v.msg, c)
			return
		}
		if v.note != "" && notes < 2 {
			notes++
			r.Note("re-applying a filter without its vanished excludes gave a different (smaller) result, not counted as a violation: " + v.note)
		}
		if v.nonTrivial {
			fj, _ := json.Marshal(f)
			r.NonTrivial(ws.Canon() + "|" + string(fj))
			r.Class("non-trivial")
			r.Sample(map[string]any{"files": u.paths, "filter": f})
		}
	})
}

// TestReplay re-runs the oracle on a saved case (no generator).
func TestReplay(t *testing.T) {
	var c c12Case
	ok, err := evid.ReplayCase(&c)
	if !ok {
		t.Skip("no VERIF_REPLAY")
	}
	if err != nil {
		t.Fatal(err)
	}
	r := evid.R()
	defer r.Begin(t)()
	image, err := buildImage(context.Background(), &c)
	if err != nil {
		t.Fatalf("harness: replay case does not build: %v", err)
	}
	// some failures depend on Go's randomised map iteration inside FilterImage: try a few times
	for i := 0; i < 30; i++ {
		v := runOracle(image, c.Filter)
		if v.harness != nil {
			t.Fatalf("harness: %v", v.harness)
		}
		r.Eval()
		if v.key != "" {
			r.Fail(t, v.key, v.msg, c)
			return
		}
		if v.note != "" && i == 0 {
			fmt.Println("replay: note (not a violation):", v.note)
		}
	}
	fmt.Println("replay: oracle holds (30 runs)")
}
