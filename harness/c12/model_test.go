package c12

// Reference model of type filtering, written over protoreflect descriptors of the *input* image
// only (never over bufimageutil internals): the element universe, the expansion of exclude names,
// the "legitimately dropped" predicates and the reference closure of a filter.

import (
	"fmt"
	"sort"
	"strings"

	"google.golang.org/protobuf/proto"
	"google.golang.org/protobuf/reflect/protodesc"
	"google.golang.org/protobuf/reflect/protoreflect"
	"google.golang.org/protobuf/reflect/protoregistry"
	"google.golang.org/protobuf/types/descriptorpb"
)

const (
	kindMessage   = "message"
	kindEnum      = "enum"
	kindService   = "service"
	kindMethod    = "method"
	kindExtension = "extension"
)

// elem is one nameable element of an image (what a filter may name, besides packages).
type elem struct {
	name     string
	kind     string
	d        protoreflect.Descriptor
	file     string
	isImport bool
	parent   string // enclosing message / service ("" for top level)
	mapEntry bool
}

type universe struct {
	files     *protoregistry.Files
	paths     []string // image order
	isImport  map[string]bool
	byName    map[string]*elem
	order     []string            // deterministic element order (file order, declaration order)
	fileElems map[string][]string // path -> element names declared in it
	pkgFiles  map[string][]string // declared package -> paths
	pkgs      []string            // declared packages, sorted
}

func newUniverse(fds *descriptorpb.FileDescriptorSet, isImport map[string]bool) (*universe, error) {
	files, err := protodesc.NewFiles(fds)
	if err != nil {
		return nil, err
	}
	u := &universe{files: files, isImport: isImport, byName: map[string]*elem{}, fileElems: map[string][]string{}, pkgFiles: map[string][]string{}}
	for _, f := range fds.File {
		path := f.GetName()
		u.paths = append(u.paths, path)
		fd, err := files.FindFileByPath(path)
		if err != nil {
			return nil, err
		}
		pkg := string(fd.Package())
		if _, ok := u.pkgFiles[pkg]; !ok {
			u.pkgs = append(u.pkgs, pkg)
		}
		u.pkgFiles[pkg] = append(u.pkgFiles[pkg], path)
		add := func(kind string, d protoreflect.Descriptor, parent string, mapEntry bool) {
			e := &elem{name: string(d.FullName()), kind: kind, d: d, file: path, isImport: isImport[path], parent: parent, mapEntry: mapEntry}
			u.byName[e.name] = e
			u.order = append(u.order, e.name)
			u.fileElems[path] = append(u.fileElems[path], e.name)
		}
		var walkMsgs func(ms protoreflect.MessageDescriptors, parent string)
		walkMsgs = func(ms protoreflect.MessageDescriptors, parent string) {
			for i := 0; i < ms.Len(); i++ {
				m := ms.Get(i)
				add(kindMessage, m, parent, m.IsMapEntry())
				name := string(m.FullName())
				for j := 0; j < m.Enums().Len(); j++ {
					add(kindEnum, m.Enums().Get(j), name, false)
				}
				for j := 0; j < m.Extensions().Len(); j++ {
					add(kindExtension, m.Extensions().Get(j), name, false)
				}
				walkMsgs(m.Messages(), name)
			}
		}
		walkMsgs(fd.Messages(), "")
		for i := 0; i < fd.Enums().Len(); i++ {
			add(kindEnum, fd.Enums().Get(i), "", false)
		}
		for i := 0; i < fd.Extensions().Len(); i++ {
			add(kindExtension, fd.Extensions().Get(i), "", false)
		}
		for i := 0; i < fd.Services().Len(); i++ {
			s := fd.Services().Get(i)
			add(kindService, s, "", false)
			for j := 0; j < s.Methods().Len(); j++ {
				add(kindMethod, s.Methods().Get(j), string(s.FullName()), false)
			}
		}
	}
	sort.Strings(u.pkgs)
	return u, nil
}

// ---- packages and the accept / reject reference

// Package kinds as seen by a filter.
const (
	pkgTarget     = "package:all-target"  // every file that declares it is a target file
	pkgMixed      = "package:mixed"       // declared by target files and by import files
	pkgAllImport  = "package:all-import"  // only import files declare it
	pkgParentOnly = "package:parent-only" // no file declares it, but it is a proper prefix of a declared package ("" included)
)

// pkgKind classifies a name as a package ("" if it is not one).
func (u *universe) pkgKind(n string) string {
	if paths, ok := u.pkgFiles[n]; ok {
		imports := 0
		for _, p := range paths {
			if u.isImport[p] {
				imports++
			}
		}
		switch imports {
		case 0:
			return pkgTarget
		case len(paths):
			return pkgAllImport
		}
		return pkgMixed
	}
	for _, declared := range u.pkgs {
		if n == "" && declared != "" {
			return pkgParentOnly
		}
		if n != "" && strings.HasPrefix(declared, n+".") {
			return pkgParentOnly
		}
	}
	return ""
}

// parentOnlyPkgs lists the proper prefixes of declared packages that no file declares (sorted, "" first).
func (u *universe) parentOnlyPkgs() []string {
	set := map[string]bool{}
	for _, declared := range u.pkgs {
		if declared != "" {
			set[""] = true
		}
		parts := strings.Split(declared, ".")
		for i := 1; i < len(parts); i++ {
			set[strings.Join(parts[:i], ".")] = true
		}
	}
	var out []string
	for n := range set {
		if _, declared := u.pkgFiles[n]; !declared && u.byName[n] == nil {
			out = append(out, n)
		}
	}
	sort.Strings(out)
	return out
}

// Rejection kinds: the documented errors of a filter name.
const (
	rejectNotFound = "not-found" // ErrImageFilterTypeNotFound: not a message/enum/service/method/extension/package of the image
	rejectIsImport = "is-import" // ErrImageFilterTypeIsImport: include of something declared only in import files, without WithAllowIncludeOfImportedType
	rejectNoFiles  = "no-files"  // include of a package no file declares (only sub-packages), without WithAllowIncludeOfImportedType: nothing of it is "defined directly in the image"
)

type rejection struct{ name, side, kind string }

// rejections is the reference for "the filter must fail": documentation of WithIncludeTypes /
// WithExcludeTypes (unknown name => not found) and of WithAllowIncludeOfImportedType ("without this
// option, only types defined directly in the image to be filtered are allowed. Excluded types are
// always allowed to be in imported files"). A package is defined directly in the image as soon as one
// target file declares it.
func (u *universe) rejections(f filterSpec) []rejection {
	var out []rejection
	for _, n := range f.Exclude {
		if u.byName[n] == nil && u.pkgKind(n) == "" {
			out = append(out, rejection{n, "exclude", rejectNotFound})
		}
	}
	for _, n := range f.Include {
		if e := u.byName[n]; e != nil {
			if e.isImport && !f.AllowImported {
				out = append(out, rejection{n, "include", rejectIsImport})
			}
			continue
		}
		switch u.pkgKind(n) {
		case "":
			out = append(out, rejection{n, "include", rejectNotFound})
		case pkgAllImport:
			if !f.AllowImported {
				out = append(out, rejection{n, "include", rejectIsImport})
			}
		case pkgParentOnly:
			if !f.AllowImported {
				out = append(out, rejection{n, "include", rejectNoFiles})
			}
		}
	}
	return out
}

// keepsSomeFile: does the filter keep a file for its own sake (even one that declares no types)? With
// includes: a file of an included package; without: a target file whose package is not excluded.
func (u *universe) keepsSomeFile(f filterSpec) bool {
	excludedPkg := map[string]bool{}
	for _, n := range f.Exclude {
		if u.byName[n] == nil {
			excludedPkg[n] = true
		}
	}
	if len(f.Include) == 0 {
		for pkg, paths := range u.pkgFiles {
			for _, p := range paths {
				if !u.isImport[p] && !excludedPkg[pkg] {
					return true
				}
			}
		}
		return false
	}
	for _, n := range f.Include {
		if u.byName[n] != nil || excludedPkg[n] {
			continue
		}
		for _, p := range u.pkgFiles[n] {
			if !u.isImport[p] || f.AllowImported {
				return true
			}
		}
	}
	return false
}

// nestedIn reports whether element name is (transitively) declared inside anc.
func (u *universe) nestedIn(name, anc string) bool {
	for e := u.byName[name]; e != nil && e.parent != ""; e = u.byName[e.parent] {
		if e.parent == anc {
			return true
		}
	}
	return false
}

// expandExcluded returns every element an exclude list removes by itself: the named element and
// everything declared inside it; for a package, everything in the files that declare exactly that package.
func (u *universe) expandExcluded(names []string) map[string]bool {
	x := map[string]bool{}
	for _, n := range names {
		if e := u.byName[n]; e != nil {
			x[n] = true
			for _, other := range u.fileElems[e.file] {
				if u.nestedIn(other, n) {
					x[other] = true
				}
			}
			continue
		}
		for _, path := range u.pkgFiles[n] {
			for _, en := range u.fileElems[path] {
				x[en] = true
			}
		}
	}
	return x
}

// fieldTypeNames returns the message/enum type a field refers to, and for map fields the value type.
func fieldTypeNames(fd protoreflect.FieldDescriptor) (typ string, mapValue string) {
	switch fd.Kind() {
	case protoreflect.MessageKind, protoreflect.GroupKind:
		typ = string(fd.Message().FullName())
		if fd.IsMap() {
			switch v := fd.MapValue(); v.Kind() {
			case protoreflect.MessageKind, protoreflect.GroupKind:
				mapValue = string(v.Message().FullName())
			case protoreflect.EnumKind:
				mapValue = string(v.Enum().FullName())
			}
		}
	case protoreflect.EnumKind:
		typ = string(fd.Enum().FullName())
	}
	return typ, mapValue
}

// fieldDropped: a field whose type (or whose map value type) is excluded is legitimately dropped.
func fieldDropped(fd protoreflect.FieldDescriptor, x map[string]bool) bool {
	typ, mv := fieldTypeNames(fd)
	return (typ != "" && x[typ]) || (mv != "" && x[mv])
}

// methodDropped: a method cannot exist without its request and response types.
func methodDropped(m protoreflect.MethodDescriptor, x map[string]bool) bool {
	return x[string(m.FullName())] || x[string(m.Input().FullName())] || x[string(m.Output().FullName())]
}

// extDropped: an extension cannot exist without its extendee, nor (as any field) without its type.
func extDropped(e protoreflect.ExtensionDescriptor, x map[string]bool) bool {
	return x[string(e.FullName())] || x[string(e.ContainingMessage().FullName())] || fieldDropped(e, x)
}

// customOptionNames lists the extension full names set in the options of d (sorted).
func customOptionNames(d protoreflect.Descriptor) []string {
	return optionExtNames(d.Options())
}

func optionExtNames(opts proto.Message) []string {
	if opts == nil {
		return nil
	}
	m := opts.ProtoReflect()
	if !m.IsValid() {
		return nil
	}
	var out []string
	m.Range(func(fd protoreflect.FieldDescriptor, _ protoreflect.Value) bool {
		if fd.IsExtension() {
			out = append(out, string(fd.FullName()))
		}
		return true
	})
	sort.Strings(out)
	return out
}

// refClosure is the reference closure of a filter: need = elements that must be present and
// complete; encl = elements that must at least be present (as a namespace for a needed element).
type refClosure struct {
	u     *universe
	x     map[string]bool
	opts  bool // custom options retained
	need  map[string]bool
	encl  map[string]bool
	files map[string]bool
	why   map[string]string
	work  []string
}

func (c *refClosure) add(name, why string) {
	if name == "" || c.need[name] || c.x[name] {
		return
	}
	if c.u.byName[name] == nil {
		return
	}
	c.need[name] = true
	c.why[name] = why
	c.work = append(c.work, name)
}

func (c *refClosure) addOption(ext, why string) {
	if !c.opts {
		return
	}
	e := c.u.byName[ext]
	if e == nil || e.kind != kindExtension {
		return // option extension not defined in the image
	}
	if extDropped(e.d.(protoreflect.ExtensionDescriptor), c.x) {
		return // the option definition itself depends on an excluded element
	}
	c.add(ext, "custom option used by "+why)
}

func (c *refClosure) addOptionsOf(d protoreflect.Descriptor, why string) {
	if !c.opts {
		return
	}
	for _, ext := range customOptionNames(d) {
		c.addOption(ext, why)
	}
}

func (c *refClosure) enclose(e *elem) {
	for p := e.parent; p != ""; {
		pe := c.u.byName[p]
		if pe == nil {
			break
		}
		if !c.need[p] && !c.encl[p] {
			c.encl[p] = true
			c.why[p] = "encloses " + e.name
			c.addOptionsOf(pe.d, p)
		}
		p = pe.parent
	}
	if !c.files[e.file] {
		c.files[e.file] = true
		if fd, err := c.u.files.FindFileByPath(e.file); err == nil {
			c.addOptionsOf(fd, "file "+e.file)
		}
	}
}

func (c *refClosure) run() {
	for len(c.work) > 0 {
		name := c.work[0]
		c.work = c.work[1:]
		e := c.u.byName[name]
		c.enclose(e)
		c.addOptionsOf(e.d, name)
		switch d := e.d.(type) {
		case protoreflect.MessageDescriptor:
			kept := map[int]bool{}
			for i := 0; i < d.Fields().Len(); i++ {
				fd := d.Fields().Get(i)
				if fieldDropped(fd, c.x) {
					continue
				}
				if od := fd.ContainingOneof(); od != nil {
					kept[od.Index()] = true
				}
				typ, mv := fieldTypeNames(fd)
				c.add(typ, "type of field "+string(fd.FullName()))
				c.add(mv, "map value type of field "+string(fd.FullName()))
				c.addOptionsOf(fd, string(fd.FullName()))
			}
			for i := 0; i < d.Oneofs().Len(); i++ {
				if kept[i] {
					c.addOptionsOf(d.Oneofs().Get(i), string(d.Oneofs().Get(i).FullName()))
				}
			}
		case protoreflect.EnumDescriptor:
			for i := 0; i < d.Values().Len(); i++ {
				c.addOptionsOf(d.Values().Get(i), string(d.Values().Get(i).FullName()))
			}
		case protoreflect.ServiceDescriptor:
		case protoreflect.MethodDescriptor:
			c.add(string(d.Input().FullName()), "request type of "+name)
			c.add(string(d.Output().FullName()), "response type of "+name)
		case protoreflect.ExtensionDescriptor: // before FieldDescriptor: extensions are fields
			c.add(string(d.ContainingMessage().FullName()), "extendee of "+name)
			typ, mv := fieldTypeNames(d)
			c.add(typ, "type of extension "+name)
			c.add(mv, "map value type of extension "+name)
		}
	}
}

// conflict describes an included name that requires an excluded element (documented error cases).
func (u *universe) conflicts(include []string, x map[string]bool) []string {
	var out []string
	for _, n := range include {
		e := u.byName[n]
		if e == nil {
			continue
		}
		switch {
		case x[n]:
			out = append(out, fmt.Sprintf("%s is itself excluded or nested in an excluded element", n))
		case e.kind == kindMethod && methodDropped(e.d.(protoreflect.MethodDescriptor), x):
			out = append(out, fmt.Sprintf("method %s has an excluded request/response type", n))
		case e.kind == kindExtension && extDropped(e.d.(protoreflect.ExtensionDescriptor), x):
			out = append(out, fmt.Sprintf("extension %s has an excluded extendee/type", n))
		}
	}
	return out
}

// roots returns the elements a filter asks for explicitly.
func (u *universe) roots(f filterSpec, x map[string]bool) []string {
	var out []string
	seen := map[string]bool{}
	push := func(n string) {
		if seen[n] || x[n] {
			return
		}
		e := u.byName[n]
		if e == nil || e.mapEntry {
			return
		}
		switch d := e.d.(type) {
		case protoreflect.MethodDescriptor:
			if methodDropped(d, x) {
				return
			}
		case protoreflect.ExtensionDescriptor:
			if extDropped(d, x) {
				return
			}
		}
		seen[n] = true
		out = append(out, n)
	}
	pushFile := func(path string) {
		for _, n := range u.fileElems[path] {
			push(n)
		}
	}
	if len(f.Include) == 0 {
		// exclude-only: everything of the non-import files that is not excluded stays
		for _, p := range u.paths {
			if !u.isImport[p] {
				pushFile(p)
			}
		}
		return out
	}
	for _, n := range f.Include {
		if e := u.byName[n]; e != nil {
			push(n)
			if e.kind == kindService {
				sd := e.d.(protoreflect.ServiceDescriptor)
				for i := 0; i < sd.Methods().Len(); i++ {
					push(string(sd.Methods().Get(i).FullName()))
				}
			}
			continue
		}
		for _, p := range u.pkgFiles[n] {
			if u.isImport[p] && !f.AllowImported {
				continue
			}
			pushFile(p)
		}
	}
	return out
}

func (u *universe) closure(f filterSpec, x map[string]bool) *refClosure {
	c := &refClosure{u: u, x: x, opts: !f.ExcludeCustomOptions, need: map[string]bool{}, encl: map[string]bool{}, files: map[string]bool{}, why: map[string]string{}}
	for _, r := range u.roots(f, x) {
		c.add(r, "named by the filter")
	}
	c.run()
	return c
}
