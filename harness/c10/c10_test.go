// C10 — workspace dependency resolution is exact and ambiguity is an error.
//
// Domain: generated multi-module workspaces whose inter-module import graph is whatever the generated
// file imports induce (DAGs, diamonds and — without any file-level cycle — module cycles), with
// planted ambiguities (a path provided by two modules, an import nobody provides), a subset of
// modules served as pinned remote modules by an in-process provider (buf.lock), modules present both
// locally and remotely, v2 buf.yaml and buf.work.yaml+v1 layouts, and every choice of target
// sub-directory.
//
// Oracle: reference reachability over the generated module graph (deps = reachable modules, direct =
// first hop, cycle error iff the module lies on a cycle), local-over-remote precedence, non-target
// files only as imports, the three ambiguity errors, and `ls-files --include-imports` = files of
// `build`.
package c10

import (
	"bytes"
	"context"
	"encoding/json"
	"errors"
	"fmt"
	"os"
	"path/filepath"
	"regexp"
	"sort"
	"strings"
	"testing"
	"time"

	"github.com/bufbuild/buf/private/buf/buftarget"
	"github.com/bufbuild/buf/private/buf/bufworkspace"
	"github.com/bufbuild/buf/private/bufpkg/bufcas"
	"github.com/bufbuild/buf/private/bufpkg/bufconfig"
	"github.com/bufbuild/buf/private/bufpkg/bufimage"
	"github.com/bufbuild/buf/private/bufpkg/bufmodule"
	"github.com/bufbuild/buf/private/bufpkg/bufmodule/bufmoduletesting"
	"github.com/bufbuild/buf/private/bufpkg/bufparse"
	"github.com/bufbuild/buf/private/bufpkg/bufplugin"
	imagev1 "github.com/bufbuild/buf/private/gen/proto/go/buf/alpha/image/v1"
	"github.com/bufbuild/buf/private/pkg/storage/storagemem"
	"github.com/bufbuild/bufverif/internal/bufcli"
	"github.com/bufbuild/bufverif/internal/bufx"
	"github.com/bufbuild/bufverif/internal/evid"
	"github.com/bufbuild/bufverif/internal/protogen"
	"github.com/google/uuid"
	"google.golang.org/protobuf/proto"
	"pgregory.net/rapid"
)

func TestMain(m *testing.M) { evid.Main(m, "C10") }

// Mod is one module of the case.
type Mod struct {
	Dir    string            `json:"dir"`
	Name   string            `json:"name,omitempty"`
	Files  map[string]string `json:"files"`
	Remote bool              `json:"remote,omitempty"` // served by the in-process provider and pinned in buf.lock
	// LocalToo: a remote module that is ALSO present locally (same name); the local copy carries an extra marker file.
	LocalToo bool `json:"local_too,omitempty"`
	// Decoy: "excludes" = the module directory also holds <dir>/zz_excluded/broken.proto, excluded in the module's
	// configuration; "includes" = all real files live under included sub-directories and <dir>/zz_outside/broken.proto
	// lies outside them (v2 only). A decoy that is not kept out breaks the build or shows up in a listing.
	Decoy string `json:"decoy,omitempty"`
	// Includes (v2 only): the module entry is `path: Dir` restricted to these sub-directories; several entries may
	// share one Dir. BucketID is the id buf documents for an unnamed module entry (see refBucketIDs).
	Includes []string `json:"includes,omitempty"`
	BucketID string   `json:"bucket_id,omitempty"`
}

const brokenProto = "syntax = \"proto3\";\npackage decoy.v1;\nmessage {\n"

// decoyFiles returns the decoy file (module-relative path -> content) of a module.
func decoyFiles(m *Mod) map[string]string {
	switch m.Decoy {
	case "excludes":
		return map[string]string{"zz_excluded/broken.proto": brokenProto}
	case "includes":
		return map[string]string{"zz_outside/broken.proto": brokenProto}
	}
	return nil
}

func topDirs(m *Mod) ([]string, bool) {
	set := map[string]bool{}
	for p := range m.Files {
		i := strings.Index(p, "/")
		if i < 0 {
			return nil, false
		}
		set[p[:i]] = true
	}
	return protogen.SortedKeys(set), len(set) > 0
}

// decoyYAML renders the includes/excludes keys of a module entry (v2, indent 4) or the build section (v1).
func decoyYAML(m *Mod, v2 bool) string {
	var b strings.Builder
	switch m.Decoy {
	case "excludes":
		if v2 {
			fmt.Fprintf(&b, "    excludes:\n      - %s/zz_excluded\n", m.Dir)
		} else {
			b.WriteString("build:\n  excludes:\n    - zz_excluded\n")
		}
	case "includes":
		tops, _ := topDirs(m)
		b.WriteString("    includes:\n")
		for _, d := range tops {
			fmt.Fprintf(&b, "      - %s/%s\n", m.Dir, d)
		}
	}
	return b.String()
}

// genDecoys draws decoys for the local modules.
func genDecoys(t *rapid.T, c *Case) {
	for i := range c.Mods {
		m := &c.Mods[i]
		if (m.Remote && !m.LocalToo) || len(m.Includes) > 0 {
			continue
		}
		switch rapid.IntRange(0, 3).Draw(t, "decoy") {
		case 0:
			m.Decoy = "excludes"
		case 1:
			if _, ok := topDirs(m); ok && !m.LocalToo && c.Layout != "v1work" {
				m.Decoy = "includes"
			}
		}
	}
}

// Case is the replayable input.
type Case struct {
	Mods    []Mod               `json:"modules"`
	Imports map[string][]string `json:"imports"` // file path -> imported paths (model)
	Layout  string              `json:"layout"`  // api | v2 | v1work
	SubDir  string              `json:"subdir"`  // target sub directory ("." = all)
	Plant   string              `json:"plant,omitempty"`
	DupPath string              `json:"dup_path,omitempty"`
	DupMods []string            `json:"dup_mods,omitempty"`
	MissIn  string              `json:"missing_import_in,omitempty"`
}

const markerFile = "localmarker/v1/local_marker.proto"

func (c *Case) modOf(path string) *Mod {
	for i := range c.Mods {
		if _, ok := c.Mods[i].Files[path]; ok {
			return &c.Mods[i]
		}
	}
	return nil
}

func opaque(m *Mod) string {
	if m.Name != "" {
		return m.Name
	}
	if m.BucketID != "" {
		return m.BucketID
	}
	return m.Dir
}

// refBucketIDs is the documented id scheme of v2 module entries: the first entry of a path is "<path>", the k-th
// is "<path>-k"; if that produces a duplicate (a directory literally named "<path>-2"), every entry gets its
// index, the first one included.
func refBucketIDs(dirs []string) []string {
	ids := func(firstHasSuffix bool) []string {
		count := map[string]int{}
		var out []string
		for _, d := range dirs {
			count[d]++
			if count[d] == 1 && !firstHasSuffix {
				out = append(out, d)
			} else {
				out = append(out, fmt.Sprintf("%s-%d", d, count[d]))
			}
		}
		return out
	}
	out := ids(false)
	seen := map[string]bool{}
	for _, id := range out {
		if seen[id] {
			return ids(true)
		}
		seen[id] = true
	}
	return out
}

// splitModule turns one unnamed local module whose files live in two or more sub-directories into two module
// entries of the same path with disjoint includes, and sometimes renames another module's directory to
// "<path>-2" (the id the second entry would get).
func splitModule(t *rapid.T, c *Case) {
	var cands []int
	for i := range c.Mods {
		m := &c.Mods[i]
		if tops, ok := topDirs(m); ok && len(tops) >= 2 && m.Name == "" && !m.Remote && !m.LocalToo {
			cands = append(cands, i)
		}
	}
	if len(cands) == 0 || !rapid.Bool().Draw(t, "split") {
		return
	}
	i := cands[rapid.IntRange(0, len(cands)-1).Draw(t, "split-module")]
	tops, _ := topDirs(&c.Mods[i])
	cut := rapid.IntRange(1, len(tops)-1).Draw(t, "split-at")
	first, second := tops[:cut], tops[cut:]
	a := Mod{Dir: c.Mods[i].Dir, Files: map[string]string{}, Includes: first}
	b := Mod{Dir: c.Mods[i].Dir, Files: map[string]string{}, Includes: second}
	for p, txt := range c.Mods[i].Files {
		top := p[:strings.Index(p, "/")]
		inFirst := false
		for _, d := range first {
			inFirst = inFirst || d == top
		}
		if inFirst {
			a.Files[p] = txt
		} else {
			b.Files[p] = txt
		}
	}
	mods := append([]Mod{}, c.Mods[:i]...)
	mods = append(mods, a, b)
	mods = append(mods, c.Mods[i+1:]...)
	c.Mods = mods
	if len(c.Mods) > 2 && rapid.IntRange(0, 2).Draw(t, "sibling-named-like-second-entry") == 0 {
		var others []int
		for j := range c.Mods {
			if c.Mods[j].Dir != a.Dir && !c.Mods[j].Remote {
				others = append(others, j)
			}
		}
		if len(others) > 0 {
			j := others[rapid.IntRange(0, len(others)-1).Draw(t, "sibling")]
			if c.SubDir == c.Mods[j].Dir {
				c.SubDir = a.Dir + "-2"
			}
			c.Mods[j].Dir = a.Dir + "-2"
		}
	}
	var dirs []string
	var idx []int
	for j := range c.Mods {
		if !c.Mods[j].Remote || c.Mods[j].LocalToo {
			dirs = append(dirs, c.Mods[j].Dir)
			idx = append(idx, j)
		}
	}
	for k, id := range refBucketIDs(dirs) {
		c.Mods[idx[k]].BucketID = id
	}
	evid.R().Class("split-module-entries-sharing-a-path")
}

// includesYAML renders the includes of a split module entry (v2, indent 4).
func includesYAML(m *Mod) string {
	if len(m.Includes) == 0 {
		return ""
	}
	var b strings.Builder
	b.WriteString("    includes:\n")
	for _, d := range m.Includes {
		fmt.Fprintf(&b, "      - %s/%s\n", m.Dir, d)
	}
	return b.String()
}

// graph returns module -> set of directly imported modules (by opaque id).
func (c *Case) graph() map[string]map[string]bool {
	g := map[string]map[string]bool{}
	for i := range c.Mods {
		m := &c.Mods[i]
		g[opaque(m)] = map[string]bool{}
	}
	for i := range c.Mods {
		m := &c.Mods[i]
		for p := range m.Files {
			for _, imp := range c.Imports[p] {
				if n := c.modOf(imp); n != nil && n != m {
					g[opaque(m)][opaque(n)] = true
				}
			}
		}
	}
	return g
}

func reach(g map[string]map[string]bool, from string) map[string]bool {
	seen := map[string]bool{}
	var rec func(x string)
	rec = func(x string) {
		for y := range g[x] {
			if !seen[y] {
				seen[y] = true
				rec(y)
			}
		}
	}
	rec(from)
	return seen
}

func anyCycle(g map[string]map[string]bool) bool {
	for m := range g {
		if reach(g, m)[m] {
			return true
		}
	}
	return false
}

// checkDeps compares Module.ModuleDeps with the reference for one module.
func checkDeps(c *Case, g map[string]map[string]bool, mod bufmodule.Module) (string, string) {
	id := mod.OpaqueID()
	deps, err := mod.ModuleDeps()
	r := reach(g, id)
	if r[id] {
		var cyc *bufmodule.ModuleCycleError
		if err == nil {
			return "cycle-not-reported", fmt.Sprintf("module %s lies on an import cycle %v but ModuleDeps succeeded with %d deps", id, g, len(deps))
		}
		if !errors.As(err, &cyc) {
			return "cycle-wrong-error", fmt.Sprintf("module %s lies on an import cycle but ModuleDeps failed with %v", id, err)
		}
		return "", ""
	}
	if err != nil {
		return "deps-error", fmt.Sprintf("ModuleDeps(%s) failed: %v (graph %v)", id, err, g)
	}
	got := map[string]bool{}
	for _, d := range deps {
		if got[d.OpaqueID()] {
			return "dep-listed-twice", fmt.Sprintf("ModuleDeps(%s) lists %s twice", id, d.OpaqueID())
		}
		got[d.OpaqueID()] = true
		if d.IsDirect() != g[id][d.OpaqueID()] {
			return "direct-flag", fmt.Sprintf("ModuleDeps(%s): %s IsDirect=%v but imported-by-a-file-of-the-module=%v (graph %v)", id, d.OpaqueID(), d.IsDirect(), g[id][d.OpaqueID()], g)
		}
	}
	for x := range r {
		if !got[x] {
			return "dep-missing", fmt.Sprintf("ModuleDeps(%s) lacks %s which is reachable through imports (graph %v, got %v)", id, x, g, protogen.SortedKeys(got))
		}
	}
	for x := range got {
		if !r[x] {
			return "dep-extra", fmt.Sprintf("ModuleDeps(%s) lists %s which is not reachable through imports (graph %v)", id, x, g)
		}
	}
	return "", ""
}

// ---------------------------------------------------------------------------------------------
// building module sets

func apiModuleSet(ctx context.Context, c *Case, targets map[string]bool) (bufmodule.ModuleSet, error) {
	b := bufmodule.NewModuleSetBuilder(ctx, bufx.Logger, bufmodule.NopModuleDataProvider, bufmodule.NopCommitProvider)
	for i := range c.Mods {
		m := &c.Mods[i]
		bucket, err := bufx.BucketFor(m.Files)
		if err != nil {
			return nil, err
		}
		var opts []bufmodule.LocalModuleOption
		if m.Name != "" {
			fn, err := bufparse.ParseFullName(m.Name)
			if err != nil {
				return nil, err
			}
			opts = append(opts, bufmodule.LocalModuleWithFullNameAndCommitID(fn, bufx.CommitUUID(m.Name)))
		}
		b.AddLocalModule(bucket, m.Dir, targets == nil || targets[m.Dir], opts...)
	}
	return b.Build()
}

func imagePaths(img bufimage.Image) (all []string, imports map[string]bool) {
	imports = map[string]bool{}
	for _, f := range img.Files() {
		all = append(all, f.Path())
		imports[f.Path()] = f.IsImport()
	}
	sort.Strings(all)
	return
}

// refClosure: files reachable from the given root files through model imports (WKTs included as leaves).
func (c *Case) refClosure(roots []string) map[string]bool {
	seen := map[string]bool{}
	var rec func(p string)
	rec = func(p string) {
		if seen[p] {
			return
		}
		seen[p] = true
		if imps, ok := c.Imports[p]; ok {
			for _, i := range imps {
				rec(i)
			}
			return
		}
		for _, d := range protogen.WKTDeps[p] {
			rec(d)
		}
	}
	for _, r := range roots {
		rec(r)
	}
	return seen
}

// ---------------------------------------------------------------------------------------------
// test 1: module-set level, all local

func runAPI(ctx context.Context, t interface {
	Fatalf(string, ...any)
	Helper()
}, r *evid.Recorder, c *Case) {
	ms, err := apiModuleSet(ctx, c, nil)
	r.Eval()
	g := c.graph()
	cyc := anyCycle(g)
	r.Class(fmt.Sprintf("api:modules-%d", len(c.Mods)))
	if cyc {
		r.Class("api:module-cycle")
	}
	if err != nil {
		r.Fail(t, "module-set-build-failed", fmt.Sprintf("ModuleSetBuilder.Build failed: %v", err), c)
		return
	}
	switch c.Plant {
	case "duplicate-path":
		r.Class("api:plant-duplicate-path")
		// every module whose reach (incl. itself) contains both providers must report the duplicate
		for _, mod := range ms.Modules() {
			set := reach(g, mod.OpaqueID())
			set[mod.OpaqueID()] = true
			if !(set[c.DupMods[0]] && set[c.DupMods[1]]) || reach(g, mod.OpaqueID())[mod.OpaqueID()] {
				continue
			}
			_, err := mod.ModuleDeps()
			var dup *bufmodule.DuplicateProtoPathError
			if err == nil || !errors.As(err, &dup) {
				r.Fail(t, "duplicate-path-not-reported", fmt.Sprintf("path %s is provided by %v, both visible from %s, but ModuleDeps returned %v", c.DupPath, c.DupMods, mod.OpaqueID(), err), c)
				return
			}
			if dup.ProtoPath != c.DupPath {
				r.Fail(t, "duplicate-path-wrong-path", fmt.Sprintf("duplicate reported for %s, planted %s", dup.ProtoPath, c.DupPath), c)
				return
			}
		}
		_, err := bufimage.BuildImage(ctx, bufx.Logger, bufmodule.ModuleSetToModuleReadBucketWithOnlyProtoFiles(ms))
		var dup *bufmodule.DuplicateProtoPathError
		if err == nil || !errors.As(err, &dup) {
			r.Fail(t, "duplicate-path-build", fmt.Sprintf("path %s is provided by %v but BuildImage returned %v", c.DupPath, c.DupMods, err), c)
		}
		r.NonTrivial(fmt.Sprintf("dup|%v", c.Mods))
		return
	case "missing-import":
		r.Class("api:plant-missing-import")
		owner := c.modOf(c.MissIn)
		for _, mod := range ms.Modules() {
			set := reach(g, mod.OpaqueID())
			if set[mod.OpaqueID()] {
				continue // cycle error takes precedence
			}
			set[mod.OpaqueID()] = true
			if !set[opaque(owner)] {
				continue
			}
			_, err := mod.ModuleDeps()
			var ine *bufmodule.ImportNotExistError
			if err == nil || !errors.As(err, &ine) {
				r.Fail(t, "missing-import-not-reported", fmt.Sprintf("%s imports a path no module provides; ModuleDeps(%s) returned %v", c.MissIn, mod.OpaqueID(), err), c)
				return
			}
		}
		_, err := bufimage.BuildImage(ctx, bufx.Logger, bufmodule.ModuleSetToModuleReadBucketWithOnlyProtoFiles(ms))
		if err == nil {
			r.Fail(t, "missing-import-build", fmt.Sprintf("%s imports a path no module provides but BuildImage succeeded", c.MissIn), c)
		}
		r.NonTrivial(fmt.Sprintf("miss|%v", c.Mods))
		return
	}
	for _, mod := range ms.Modules() {
		if key, msg := checkDeps(c, g, mod); key != "" {
			r.Fail(t, key, msg, c)
			return
		}
	}
	dag, err := bufmodule.ModuleSetToDAG(ms)
	if cyc {
		var ce *bufmodule.ModuleCycleError
		if err == nil || !errors.As(err, &ce) {
			r.Fail(t, "cycle-not-reported:dag", fmt.Sprintf("module graph %v has a cycle but ModuleSetToDAG returned %v", g, err), c)
			return
		}
	} else {
		if err != nil {
			r.Fail(t, "dag-error", fmt.Sprintf("ModuleSetToDAG failed on an acyclic graph %v: %v", g, err), c)
			return
		}
		gotEdges := map[string]bool{}
		_ = dag.WalkEdges(func(from bufmodule.Module, to bufmodule.Module) error {
			gotEdges[from.OpaqueID()+" -> "+to.OpaqueID()] = true
			return nil
		})
		want := map[string]bool{}
		for a, outs := range g {
			for b := range outs {
				want[a+" -> "+b] = true
			}
		}
		if strings.Join(protogen.SortedKeys(gotEdges), ";") != strings.Join(protogen.SortedKeys(want), ";") {
			r.Fail(t, "dag-edges", fmt.Sprintf("ModuleSetToDAG edges %v, import graph %v", protogen.SortedKeys(gotEdges), protogen.SortedKeys(want)), c)
			return
		}
	}
	// targeting one module: its files are targets, everything else enters only as imports
	if c.SubDir != "." {
		ms2, err := apiModuleSet(ctx, c, map[string]bool{c.SubDir: true})
		if err != nil {
			r.Fail(t, "module-set-build-failed", fmt.Sprintf("Build with target %s failed: %v", c.SubDir, err), c)
			return
		}
		img, err := bufimage.BuildImage(ctx, bufx.Logger, bufmodule.ModuleSetToModuleReadBucketWithOnlyProtoFiles(ms2))
		if err != nil {
			r.Fail(t, "build-failed", fmt.Sprintf("BuildImage with target %s failed: %v", c.SubDir, err), c)
			return
		}
		var tmod *Mod
		for i := range c.Mods {
			if c.Mods[i].Dir == c.SubDir {
				tmod = &c.Mods[i]
			}
		}
		var roots []string
		for p := range tmod.Files {
			roots = append(roots, p)
		}
		want := c.refClosure(roots)
		all, imports := imagePaths(img)
		if strings.Join(all, ";") != strings.Join(protogen.SortedKeys(want), ";") {
			r.Fail(t, "image-file-set", fmt.Sprintf("target module %s: image has %v, closure of its files is %v", c.SubDir, all, protogen.SortedKeys(want)), c)
			return
		}
		for p, isImp := range imports {
			_, own := tmod.Files[p]
			if isImp == own {
				r.Fail(t, "non-target-file-not-import", fmt.Sprintf("target module %s: %s IsImport=%v", c.SubDir, p, isImp), c)
				return
			}
		}
	}
	transitiveOnly := false
	for m := range g {
		for x := range reach(g, m) {
			if !g[m][x] {
				transitiveOnly = true
			}
		}
	}
	if (len(c.Mods) >= 3 && transitiveOnly) || cyc {
		r.NonTrivial(fmt.Sprintf("api|%v|%s", c.Mods, c.SubDir))
	}
	r.Sample(map[string]any{"layout": c.Layout, "graph": edgeList(g), "subdir": c.SubDir, "cycle": cyc})
}

func edgeList(g map[string]map[string]bool) []string {
	var out []string
	for a, outs := range g {
		for b := range outs {
			out = append(out, a+" -> "+b)
		}
	}
	sort.Strings(out)
	return out
}

// ---------------------------------------------------------------------------------------------
// generation

func genCase(t *rapid.T) (*Case, *protogen.Workspace) {
	cfg := protogen.DefaultConfig()
	cfg.MaxModules, cfg.MaxPackages, cfg.MaxFiles, cfg.MaxMessages, cfg.MaxFields = 5, 7, 10, 2, 3
	cfg.UnusedImports, cfg.PublicImports, cfg.Groups, cfg.Extensions, cfg.Services = false, false, false, false, false
	cfg.SyntaxUnspec = false
	ws := protogen.GenWorkspace(t, cfg)
	for i, m := range ws.Modules {
		if m.Name == "" && rapid.Bool().Draw(t, "name-it") {
			m.Name = fmt.Sprintf("buf.build/verif/mod%d", i)
		}
	}
	rw := ws.Render()
	c := &Case{Imports: map[string][]string{}, SubDir: "."}
	for _, m := range ws.Modules {
		c.Mods = append(c.Mods, Mod{Dir: m.Dir, Name: m.Name, Files: rw.ByModule[m.Dir]})
		for _, f := range m.Files {
			imps := []string{}
			for _, i := range f.Imports {
				imps = append(imps, i.Path)
			}
			c.Imports[f.Path] = imps
		}
	}
	return c, ws
}

func plant(t *rapid.T, c *Case) {
	switch rapid.IntRange(0, 9).Draw(t, "plant") {
	case 0:
		if len(c.Mods) < 2 {
			return
		}
		a := rapid.IntRange(0, len(c.Mods)-1).Draw(t, "dup-a")
		b := rapid.IntRange(0, len(c.Mods)-2).Draw(t, "dup-b")
		if b >= a {
			b++
		}
		paths := protogen.SortedPaths(c.Mods[a].Files)
		p := paths[rapid.IntRange(0, len(paths)-1).Draw(t, "dup-path")]
		c.Mods[b].Files[p] = c.Mods[a].Files[p]
		c.Plant, c.DupPath, c.DupMods = "duplicate-path", p, []string{opaque(&c.Mods[a]), opaque(&c.Mods[b])}
		sort.Strings(c.DupMods)
	case 1:
		var all []string
		for i := range c.Mods {
			all = append(all, protogen.SortedPaths(c.Mods[i].Files)...)
		}
		p := all[rapid.IntRange(0, len(all)-1).Draw(t, "miss-file")]
		m := c.modOf(p)
		lines := strings.SplitN(m.Files[p], "\n", 3)
		// after the syntax and package lines
		m.Files[p] = lines[0] + "\n" + lines[1] + "\nimport \"nobody/provides/this.proto\";\n" + lines[2]
		c.Plant, c.MissIn = "missing-import", p
	}
}

func TestModuleGraph(t *testing.T) {
	r := evid.R()
	ctx := context.Background()
	r.Check(t, r.Scale(3000, 60000), 1, func(t *rapid.T) {
		c, _ := genCase(t)
		c.Layout = "api"
		plant(t, c)
		if c.Plant == "" && len(c.Mods) > 1 && rapid.Bool().Draw(t, "targetone") {
			c.SubDir = c.Mods[rapid.IntRange(0, len(c.Mods)-1).Draw(t, "target")].Dir
		}
		runAPI(ctx, t, r, c)
	})
}

// ---------------------------------------------------------------------------------------------
// test 2: workspace level (buf.yaml v2 / buf.work.yaml + v1) with remote modules pinned in buf.lock

// downClosed marks modules remote such that every dependency of a remote module is remote.
func chooseRemote(t *rapid.T, c *Case) {
	g := c.graph()
	for i := range c.Mods {
		m := &c.Mods[i]
		if m.Name == "" || reach(g, opaque(m))[opaque(m)] {
			continue
		}
		// a remote module must be pushable: nothing it depends on may lie on a cycle (its digest would be undefined)
		cyclicBelow := false
		for x := range reach(g, opaque(m)) {
			if reach(g, x)[x] {
				cyclicBelow = true
			}
		}
		if cyclicBelow {
			continue
		}
		if !rapid.Bool().Draw(t, "remote") {
			continue
		}
		ok := true
		for x := range reach(g, opaque(m)) {
			for j := range c.Mods {
				if opaque(&c.Mods[j]) == x && c.Mods[j].Name == "" {
					ok = false
				}
			}
		}
		if !ok {
			continue
		}
		m.Remote = true
		for x := range reach(g, opaque(m)) {
			for j := range c.Mods {
				if opaque(&c.Mods[j]) == x {
					c.Mods[j].Remote = true
				}
			}
		}
	}
	// at least one local module
	local := 0
	for i := range c.Mods {
		if !c.Mods[i].Remote {
			local++
		}
	}
	if local == 0 {
		for i := range c.Mods {
			c.Mods[i].Remote = false
		}
	}
	for i := range c.Mods {
		if c.Mods[i].Remote && rapid.IntRange(0, 3).Draw(t, "localtoo") == 0 {
			c.Mods[i].LocalToo = true
		}
	}
}

func lockFor(ctx context.Context, omni bufmoduletesting.OmniProvider, names []string, version bufconfig.FileVersion) ([]byte, error) {
	var refs []bufparse.Ref
	for _, n := range names {
		fn, err := bufparse.ParseFullName(n)
		if err != nil {
			return nil, err
		}
		ref, err := bufparse.NewRef(fn.Registry(), fn.Owner(), fn.Name(), "")
		if err != nil {
			return nil, err
		}
		refs = append(refs, ref)
	}
	dt := bufmodule.DigestTypeB5
	if version != bufconfig.FileVersionV2 {
		dt = bufmodule.DigestTypeB4
	}
	keys, err := omni.GetModuleKeysForModuleRefs(ctx, refs, dt)
	if err != nil {
		return nil, err
	}
	lock, err := bufconfig.NewBufLockFile(version, keys, nil)
	if err != nil {
		return nil, err
	}
	var buf bytes.Buffer
	if err := bufconfig.WriteBufLockFile(&buf, lock); err != nil {
		return nil, err
	}
	return buf.Bytes(), nil
}

func runWorkspace(ctx context.Context, t interface {
	Fatalf(string, ...any)
	Helper()
}, r *evid.Recorder, c *Case) {
	g := c.graph()
	var remoteDatas []bufmoduletesting.ModuleData
	var remoteNames []string
	for i := range c.Mods {
		m := &c.Mods[i]
		if !m.Remote {
			continue
		}
		data := map[string][]byte{}
		for p, txt := range m.Files {
			data[p] = []byte(txt)
		}
		remoteDatas = append(remoteDatas, bufmoduletesting.ModuleData{Name: m.Name, CommitID: bufx.CommitUUID(m.Name), PathToData: data})
		remoteNames = append(remoteNames, m.Name)
	}
	sort.Strings(remoteNames)
	var omni bufmoduletesting.OmniProvider
	var err error
	if len(remoteDatas) > 0 {
		omni, err = bufmoduletesting.NewOmniProvider(remoteDatas...)
		if err != nil {
			t.Fatalf("harness: omni provider: %v", err)
		}
	} else {
		omni, err = bufmoduletesting.NewOmniProvider()
		if err != nil {
			t.Fatalf("harness: omni provider: %v", err)
		}
	}
	// workspace bucket
	files := map[string][]byte{}
	var localDirs []string
	isLocal := func(m *Mod) bool { return !m.Remote || m.LocalToo }
	for i := range c.Mods {
		m := &c.Mods[i]
		if !isLocal(m) {
			continue
		}
		localDirs = append(localDirs, m.Dir)
		for p, txt := range m.Files {
			files[m.Dir+"/"+p] = []byte(txt)
		}
		for p, txt := range decoyFiles(m) {
			files[m.Dir+"/"+p] = []byte(txt)
			r.Class("ws:decoy-" + m.Decoy)
		}
		if m.LocalToo {
			files[m.Dir+"/"+markerFile] = []byte("syntax = \"proto3\";\npackage localmarker.v1;\nmessage LocalMarker" + fmt.Sprint(i) + " {}\n")
		}
	}
	sort.Strings(localDirs)
	// deps that must be pinned: every remote module reachable from a local module, and not itself local
	pinned := map[string]bool{}
	for i := range c.Mods {
		m := &c.Mods[i]
		if !isLocal(m) {
			continue
		}
		for x := range reach(g, opaque(m)) {
			for j := range c.Mods {
				if opaque(&c.Mods[j]) == x && c.Mods[j].Remote {
					pinned[x] = true
				}
			}
		}
	}
	// a local-too module is also pinned (that is the "same-named pinned one")
	for i := range c.Mods {
		if c.Mods[i].LocalToo {
			pinned[c.Mods[i].Name] = true
			for x := range reach(g, c.Mods[i].Name) {
				pinned[x] = true
			}
		}
	}
	pins := protogen.SortedKeys(pinned)
	switch c.Layout {
	case "v2":
		var y strings.Builder
		y.WriteString("version: v2\nmodules:\n")
		for i := range c.Mods {
			m := &c.Mods[i]
			if !isLocal(m) {
				continue
			}
			fmt.Fprintf(&y, "  - path: %s\n", m.Dir)
			if m.Name != "" {
				fmt.Fprintf(&y, "    name: %s\n", m.Name)
			}
			y.WriteString(decoyYAML(m, true))
			y.WriteString(includesYAML(m))
		}
		if len(pins) > 0 {
			y.WriteString("deps:\n")
			for _, p := range pins {
				fmt.Fprintf(&y, "  - %s\n", p)
			}
			lock, err := lockFor(ctx, omni, pins, bufconfig.FileVersionV2)
			if err != nil {
				t.Fatalf("harness: lock: %v", err)
			}
			files["buf.lock"] = lock
		}
		files["buf.yaml"] = []byte(y.String())
	default: // v1work
		var w strings.Builder
		w.WriteString("version: v1\ndirectories:\n")
		for _, d := range localDirs {
			fmt.Fprintf(&w, "  - %s\n", d)
		}
		files["buf.work.yaml"] = []byte(w.String())
		for i := range c.Mods {
			m := &c.Mods[i]
			if !isLocal(m) {
				continue
			}
			var y strings.Builder
			y.WriteString("version: v1\n")
			if m.Name != "" {
				fmt.Fprintf(&y, "name: %s\n", m.Name)
			}
			y.WriteString(decoyYAML(m, false))
			// per-module pins: remote modules reachable from this module
			mp := map[string]bool{}
			for x := range reach(g, opaque(m)) {
				if pinned[x] {
					mp[x] = true
				}
			}
			if m.LocalToo {
				for x := range reach(g, m.Name) {
					mp[x] = true
				}
			}
			names := protogen.SortedKeys(mp)
			if len(names) > 0 {
				y.WriteString("deps:\n")
				for _, p := range names {
					fmt.Fprintf(&y, "  - %s\n", p)
				}
				lock, err := lockFor(ctx, omni, names, bufconfig.FileVersionV1)
				if err != nil {
					t.Fatalf("harness: lock: %v", err)
				}
				files[m.Dir+"/buf.lock"] = lock
			}
			files[m.Dir+"/buf.yaml"] = []byte(y.String())
		}
	}
	bucket, err := storagemem.NewReadBucket(files)
	if err != nil {
		t.Fatalf("harness: %v", err)
	}
	targeting, err := buftarget.NewBucketTargeting(ctx, bufx.Logger, bucket, c.SubDir, nil, nil, buftarget.TerminateAtControllingWorkspace)
	if err != nil {
		t.Fatalf("harness: bucket targeting: %v", err)
	}
	provider := bufworkspace.NewWorkspaceProvider(bufx.Logger, omni, omni, omni, bufplugin.NopPluginKeyProvider)
	wsp, err := provider.GetWorkspaceForBucket(ctx, bucket, targeting)
	r.Eval()
	r.Class("ws:" + c.Layout)
	if len(remoteNames) > 0 {
		r.Class("ws:has-remote")
	}
	if err != nil {
		r.Fail(t, "workspace-failed", fmt.Sprintf("GetWorkspaceForBucket(%s, subdir %s) failed: %v", c.Layout, c.SubDir, err), c)
		return
	}
	// which modules must be in the module set: all local ones + pinned remote ones
	for i := range c.Mods {
		m := &c.Mods[i]
		id := opaque(m)
		mod := wsp.GetModuleForOpaqueID(id)
		inSet := isLocal(m) || pinned[id]
		if !inSet {
			continue
		}
		if mod == nil {
			r.Fail(t, "module-missing", fmt.Sprintf("module %s (local=%v pinned=%v) is not in the workspace's module set (%v)", id, isLocal(m), pinned[id], bufmodule.ModuleSetOpaqueIDs(wsp)), c)
			return
		}
		if isLocal(m) != mod.IsLocal() {
			r.Fail(t, "local-over-remote", fmt.Sprintf("module %s: present locally=%v but the module set uses IsLocal=%v", id, isLocal(m), mod.IsLocal()), c)
			return
		}
		if m.LocalToo {
			r.Class("ws:local-and-pinned")
			if _, err := mod.StatFileInfo(ctx, markerFile); err != nil {
				r.Fail(t, "local-over-remote", fmt.Sprintf("module %s is present locally and pinned; the local copy (with %s) must win: %v", id, markerFile, err), c)
				return
			}
		}
		wantTarget := isLocal(m) && (c.SubDir == "." || c.SubDir == m.Dir)
		if mod.IsTarget() != wantTarget {
			r.Fail(t, "target-flag", fmt.Sprintf("module %s: IsTarget=%v, want %v (subdir %s)", id, mod.IsTarget(), wantTarget, c.SubDir), c)
			return
		}
		if isLocal(m) {
			if key, msg := checkDeps(c, g, mod); key != "" {
				r.Fail(t, key, "[workspace "+c.Layout+"] "+msg, c)
				return
			}
		}
	}
	if anyCycle(g) {
		r.Class("ws:module-cycle")
		return
	}
	img, err := bufimage.BuildImage(ctx, bufx.Logger, bufmodule.ModuleSetToModuleReadBucketWithOnlyProtoFiles(wsp))
	if err != nil {
		r.Fail(t, "build-failed", fmt.Sprintf("BuildImage of workspace (%s, subdir %s) failed: %v", c.Layout, c.SubDir, err), c)
		return
	}
	var roots []string
	targetFile := map[string]bool{}
	for i := range c.Mods {
		m := &c.Mods[i]
		if isLocal(m) && (c.SubDir == "." || c.SubDir == m.Dir) {
			for p := range m.Files {
				roots = append(roots, p)
				targetFile[p] = true
			}
			if m.LocalToo {
				roots = append(roots, markerFile)
				targetFile[markerFile] = true
			}
		}
	}
	want := c.refClosure(roots)
	all, imports := imagePaths(img)
	if strings.Join(all, ";") != strings.Join(protogen.SortedKeys(want), ";") {
		r.Fail(t, "image-file-set", fmt.Sprintf("[workspace %s subdir %s] image has %v, closure of target files is %v", c.Layout, c.SubDir, all, protogen.SortedKeys(want)), c)
		return
	}
	for p, isImp := range imports {
		if isImp == targetFile[p] {
			r.Fail(t, "non-target-file-not-import", fmt.Sprintf("[workspace %s subdir %s] %s IsImport=%v, target=%v", c.Layout, c.SubDir, p, isImp, targetFile[p]), c)
			return
		}
	}
	if len(remoteNames) > 0 && len(c.Mods) >= 3 {
		r.NonTrivial(fmt.Sprintf("ws|%v|%s|%s", c.Mods, c.Layout, c.SubDir))
	}
	r.Sample(map[string]any{"layout": c.Layout, "graph": edgeList(g), "subdir": c.SubDir, "remote": remoteNames})
}

func TestWorkspace(t *testing.T) {
	r := evid.R()
	ctx := context.Background()
	r.Check(t, r.Scale(2000, 40000), 2, func(t *rapid.T) {
		c, _ := genCase(t)
		// distinct, non-nested module dirs are produced by the generator; the marker file must not collide
		c.Layout = []string{"v2", "v1work"}[rapid.IntRange(0, 1).Draw(t, "layout")]
		chooseRemote(t, c)
		// at most one local-too module (they share the marker path)
		seen := false
		for i := range c.Mods {
			if c.Mods[i].LocalToo {
				if seen {
					c.Mods[i].LocalToo = false
				}
				seen = true
			}
		}
		var locals []string
		for i := range c.Mods {
			if !c.Mods[i].Remote || c.Mods[i].LocalToo {
				locals = append(locals, c.Mods[i].Dir)
			}
		}
		if rapid.Bool().Draw(t, "targetsub") && len(locals) > 0 {
			c.SubDir = locals[rapid.IntRange(0, len(locals)-1).Draw(t, "sub")]
		}
		if c.Layout == "v2" {
			splitModule(t, c)
		}
		genDecoys(t, c)
		runWorkspace(ctx, t, r, c)
	})
}

// ---------------------------------------------------------------------------------------------
// test 3: CLI on disk: ls-files vs build, dep graph

var edgeRe = regexp.MustCompile(`^\s*"([^"]+)" -> "([^"]+)"`)
var nodeRe = regexp.MustCompile(`^\s*"([^"]+)"\s*$`)

func runCLI(ctx context.Context, t interface {
	Fatalf(string, ...any)
	Helper()
}, r *evid.Recorder, c *Case) {
	tmp, err := os.MkdirTemp("", "c10-")
	if err != nil {
		t.Fatalf("harness: %v", err)
	}
	defer os.RemoveAll(tmp)
	var y strings.Builder
	y.WriteString("version: v2\nmodules:\n")
	for i := range c.Mods {
		m := &c.Mods[i]
		fmt.Fprintf(&y, "  - path: %s\n", m.Dir)
		if m.Name != "" {
			fmt.Fprintf(&y, "    name: %s\n", m.Name)
		}
		y.WriteString(decoyYAML(m, true))
		y.WriteString(includesYAML(m))
		onDisk := map[string]string{}
		for p, txt := range m.Files {
			onDisk[p] = txt
		}
		for p, txt := range decoyFiles(m) {
			onDisk[p] = txt
			r.Class("cli:decoy-" + m.Decoy)
		}
		for p, txt := range onDisk {
			full := filepath.Join(tmp, filepath.FromSlash(m.Dir), filepath.FromSlash(p))
			if err := os.MkdirAll(filepath.Dir(full), 0o755); err != nil {
				t.Fatalf("harness: %v", err)
			}
			if err := os.WriteFile(full, []byte(txt), 0o644); err != nil {
				t.Fatalf("harness: %v", err)
			}
		}
	}
	if err := os.WriteFile(filepath.Join(tmp, "buf.yaml"), []byte(y.String()), 0o644); err != nil {
		t.Fatalf("harness: %v", err)
	}
	env := map[string]string{"HOME": tmp, "BUF_CACHE_DIR": filepath.Join(tmp, ".cache"), "PATH": os.Getenv("PATH")}
	input := tmp
	if c.SubDir != "." {
		input = filepath.Join(tmp, filepath.FromSlash(c.SubDir))
	}
	g := c.graph()
	r.Eval()
	r.Class("cli")
	code, out, stderr := bufcli.Run(ctx, env, "", "build", input, "-o", "-")
	code2, lsout, lserr := bufcli.Run(ctx, env, "", "ls-files", input, "--include-imports", "--format=import")
	if (code == 0) != (code2 == 0) {
		r.Fail(t, "ls-files-vs-build:status", fmt.Sprintf("build exit %d (%s) but ls-files exit %d (%s)", code, stderr, code2, lserr), c)
		return
	}
	if code == 0 {
		pi := &imagev1.Image{}
		if err := proto.Unmarshal([]byte(out), pi); err != nil {
			t.Fatalf("harness: cannot unmarshal image: %v", err)
		}
		var built []string
		for _, f := range pi.GetFile() {
			built = append(built, f.GetName())
		}
		sort.Strings(built)
		listed := strings.Fields(lsout)
		sort.Strings(listed)
		if strings.Join(built, ";") != strings.Join(listed, ";") {
			r.Fail(t, "ls-files-vs-build:files", fmt.Sprintf("build puts %v in the image, ls-files --include-imports lists %v", built, listed), c)
			return
		}
		// and both are the closure of the targeted modules' files
		var roots []string
		for i := range c.Mods {
			if c.SubDir == "." || c.SubDir == c.Mods[i].Dir {
				for p := range c.Mods[i].Files {
					roots = append(roots, p)
				}
			}
		}
		if want := protogen.SortedKeys(c.refClosure(roots)); strings.Join(built, ";") != strings.Join(want, ";") {
			r.Fail(t, "image-file-set", fmt.Sprintf("[cli subdir %s] `buf build` puts %v in the image, closure of the target files is %v", c.SubDir, built, want), c)
			return
		}
	}
	// dep graph of the whole workspace
	code3, dot, derr := bufcli.Run(ctx, env, "", "dep", "graph", tmp)
	if anyCycle(g) {
		if code3 == 0 {
			r.Fail(t, "cycle-not-reported:dep-graph", fmt.Sprintf("module graph %v has a cycle but `buf dep graph` succeeded:\n%s", edgeList(g), dot), c)
		}
		r.NonTrivial(fmt.Sprintf("cli-cycle|%v", c.Mods))
		return
	}
	if code3 != 0 {
		r.Fail(t, "dep-graph-failed", fmt.Sprintf("`buf dep graph` exit %d: %s", code3, derr), c)
		return
	}
	got := map[string]bool{}
	for _, l := range strings.Split(dot, "\n") {
		if m := edgeRe.FindStringSubmatch(l); m != nil {
			got[m[1]+" -> "+m[2]] = true
		}
	}
	want := map[string]bool{}
	for a, outs := range g {
		for b := range outs {
			want[a+" -> "+b] = true
		}
	}
	if strings.Join(protogen.SortedKeys(got), ";") != strings.Join(protogen.SortedKeys(want), ";") {
		r.Fail(t, "dep-graph-edges", fmt.Sprintf("`buf dep graph` edges %v, import graph %v", protogen.SortedKeys(got), protogen.SortedKeys(want)), c)
		return
	}
	// the same graph as JSON: every module once at top level, its deps = its direct dependencies
	code4, js, jerr := bufcli.Run(ctx, env, "", "dep", "graph", tmp, "--format", "json")
	if code4 != 0 {
		r.Fail(t, "dep-graph-failed:json", fmt.Sprintf("`buf dep graph --format json` exit %d: %s", code4, jerr), c)
		return
	}
	type jmod struct {
		Name string `json:"name"`
		Deps []jmod `json:"deps"`
	}
	var mods []jmod
	if err := json.Unmarshal([]byte(js), &mods); err != nil {
		r.Fail(t, "dep-graph-json-malformed", fmt.Sprintf("%v: %s", err, js), c)
		return
	}
	gotJ := map[string]bool{}
	var walk func(m jmod)
	walk = func(m jmod) {
		for _, d := range m.Deps {
			gotJ[m.Name+" -> "+d.Name] = true
			walk(d)
		}
	}
	top := map[string]bool{}
	for _, m := range mods {
		top[m.Name] = true
		walk(m)
	}
	if strings.Join(protogen.SortedKeys(gotJ), ";") != strings.Join(protogen.SortedKeys(want), ";") {
		r.Fail(t, "dep-graph-edges:json", fmt.Sprintf("`buf dep graph --format json` edges %v, import graph %v", protogen.SortedKeys(gotJ), protogen.SortedKeys(want)), c)
		return
	}
	for a := range g {
		if !top[a] {
			r.Fail(t, "dep-graph-node-missing:json", fmt.Sprintf("module %s is not a top-level entry of `buf dep graph --format json` (%v)", a, protogen.SortedKeys(top)), c)
			return
		}
	}
	if len(c.Mods) >= 3 {
		r.NonTrivial(fmt.Sprintf("cli|%v|%s", c.Mods, c.SubDir))
	}
}

func TestCLI(t *testing.T) {
	r := evid.R()
	ctx := context.Background()
	r.Check(t, r.Scale(320, 3000), 3, func(t *rapid.T) {
		c, _ := genCase(t)
		c.Layout = "cli"
		if rapid.Bool().Draw(t, "targetsub") {
			c.SubDir = c.Mods[rapid.IntRange(0, len(c.Mods)-1).Draw(t, "sub")].Dir
		}
		splitModule(t, c)
		genDecoys(t, c)
		runCLI(ctx, t, r, c)
	})
}

func TestReplay(t *testing.T) {
	var c Case
	ok, err := evid.ReplayCase(&c)
	if !ok {
		t.Skip("no VERIF_REPLAY")
	}
	if err != nil {
		t.Fatal(err)
	}
	r := evid.R()
	defer r.Begin(t)()
	if c.Layout == "pins" {
		var pc PinCase
		if _, err := evid.ReplayCase(&pc); err != nil {
			t.Fatal(err)
		}
		runPins(context.Background(), t, r, &pc)
		return
	}
	switch c.Layout {
	case "api":
		runAPI(context.Background(), t, r, &c)
	case "dup-pinned":
		runDupPinned(context.Background(), t, r, &c)
	case "cli":
		runCLI(context.Background(), t, r, &c)
	default:
		runWorkspace(context.Background(), t, r, &c)
	}
}

// ---------------------------------------------------------------------------------------------
// test 4: several pinned commits of one remote module: the newest wins; a local module of that name wins over all

type commitProvider struct {
	times map[uuid.UUID]time.Time
}

func (p *commitProvider) GetCommitsForModuleKeys(_ context.Context, keys []bufmodule.ModuleKey) ([]bufmodule.Commit, error) {
	out := make([]bufmodule.Commit, len(keys))
	for i, k := range keys {
		ct, ok := p.times[k.CommitID()]
		if !ok {
			return nil, errors.New("unknown commit")
		}
		out[i] = bufmodule.NewCommit(k, func() (time.Time, error) { return ct, nil })
	}
	return out, nil
}

func (p *commitProvider) GetCommitsForCommitKeys(context.Context, []bufmodule.CommitKey) ([]bufmodule.Commit, error) {
	return nil, errors.New("unexpected")
}

// PinCase is the replayable input of TestNewestPinnedCommit.
type PinCase struct {
	Layout    string `json:"layout"`
	Hours     []int  `json:"create_time_hours"` // per pinned commit, in the order they are added; all distinct
	LocalToo  bool   `json:"local_too"`
	Duplicate bool   `json:"duplicate_key"` // the first key is added twice
}

func runPins(ctx context.Context, t interface {
	Fatalf(string, ...any)
	Helper()
}, r *evid.Recorder, c *PinCase) {
	name, err := bufparse.ParseFullName("buf.build/acme/dep")
	if err != nil {
		t.Fatalf("harness: %v", err)
	}
	cp := &commitProvider{times: map[uuid.UUID]time.Time{}}
	base := time.Date(2024, 1, 1, 0, 0, 0, 0, time.UTC)
	var keys []bufmodule.ModuleKey
	var newest uuid.UUID
	best := -1
	for i, h := range c.Hours {
		id := bufx.CommitUUID(fmt.Sprintf("pin-%d-%d", i, h))
		cp.times[id] = base.Add(time.Duration(h) * time.Hour)
		if h > best {
			best, newest = h, id
		}
		cd, err := bufcas.NewDigestForContent(strings.NewReader(id.String()))
		if err != nil {
			t.Fatalf("harness: %v", err)
		}
		d, err := bufmodule.NewDigest(bufmodule.DigestTypeB5, cd)
		if err != nil {
			t.Fatalf("harness: %v", err)
		}
		k, err := bufmodule.NewModuleKey(name, id, func() (bufmodule.Digest, error) { return d, nil })
		if err != nil {
			t.Fatalf("harness: %v", err)
		}
		keys = append(keys, k)
	}
	local, err := storagemem.NewReadBucket(map[string][]byte{"a/a.proto": []byte("syntax = \"proto3\";\npackage a;\n")})
	if err != nil {
		t.Fatalf("harness: %v", err)
	}
	localDep, err := storagemem.NewReadBucket(map[string][]byte{"dep/dep.proto": []byte("syntax = \"proto3\";\npackage dep;\n")})
	if err != nil {
		t.Fatalf("harness: %v", err)
	}
	// candidate order inside the builder goes through maps: repeat
	for iter := 0; iter < 12; iter++ {
		b := bufmodule.NewModuleSetBuilder(ctx, bufx.Logger, bufmodule.NopModuleDataProvider, cp)
		b.AddLocalModule(local, "local", true)
		if c.LocalToo {
			b.AddLocalModule(localDep, "localdep", false, bufmodule.LocalModuleWithFullName(name))
		}
		for i, k := range keys {
			b.AddRemoteModule(k, false)
			if i == 0 && c.Duplicate {
				b.AddRemoteModule(k, false)
			}
		}
		ms, err := b.Build()
		r.Eval()
		if err != nil {
			r.Fail(t, "module-set-build-failed", fmt.Sprintf("pins %v local=%v: %v", c.Hours, c.LocalToo, err), c)
			return
		}
		mod := ms.GetModuleForFullName(name)
		if mod == nil {
			r.Fail(t, "module-missing", fmt.Sprintf("pins %v: the pinned module is not in the module set", c.Hours), c)
			return
		}
		if c.LocalToo {
			if !mod.IsLocal() {
				r.Fail(t, "local-over-remote", fmt.Sprintf("pins %v + a local module of the same name: the module set uses a remote commit", c.Hours), c)
				return
			}
			continue
		}
		if mod.CommitID() != newest {
			r.Fail(t, "newest-commit", fmt.Sprintf("pins with create times (hours) %v: resolved the commit created at +%v, the newest is +%dh (iteration %d)", c.Hours, cp.times[mod.CommitID()].Sub(base), best, iter), c)
			return
		}
	}
	r.Class(fmt.Sprintf("pins-%d", len(c.Hours)))
	if len(c.Hours) >= 3 {
		r.NonTrivial(fmt.Sprintf("pins|%v|%v|%v", c.Hours, c.LocalToo, c.Duplicate))
	}
}

func TestNewestPinnedCommit(t *testing.T) {
	r := evid.R()
	ctx := context.Background()
	r.Check(t, r.Scale(900, 6000), 4, func(t *rapid.T) {
		n := rapid.IntRange(1, 6).Draw(t, "pins")
		hours := rapid.Permutation([]int{1, 2, 3, 5, 8, 13, 21, 34}).Draw(t, "hours")[:n]
		c := &PinCase{Layout: "pins", Hours: hours, LocalToo: rapid.IntRange(0, 4).Draw(t, "localtoo") == 0, Duplicate: rapid.Bool().Draw(t, "dup")}
		runPins(ctx, t, r, c)
	})
}
