package c10

// A path provided by a local module and by a differently named pinned (remote) module: every local module
// whose files import that path must get the duplicate reported by ModuleDeps, the module graph and the build,
// whether or not the pinned module is otherwise one of its dependencies.

import (
	"context"
	"errors"
	"fmt"
	"sort"
	"testing"

	"github.com/bufbuild/buf/private/bufpkg/bufimage"
	"github.com/bufbuild/buf/private/bufpkg/bufmodule"
	"github.com/bufbuild/buf/private/bufpkg/bufmodule/bufmoduletesting"
	"github.com/bufbuild/buf/private/bufpkg/bufparse"
	"github.com/bufbuild/bufverif/internal/bufx"
	"github.com/bufbuild/bufverif/internal/evid"
	"github.com/bufbuild/bufverif/internal/protogen"
	"pgregory.net/rapid"
)

func isWKT(p string) bool { _, ok := protogen.WKTDeps[p]; return ok }

func runDupPinned(ctx context.Context, t interface {
	Fatalf(string, ...any)
	Helper()
}, r *evid.Recorder, c *Case) {
	var remoteDatas []bufmoduletesting.ModuleData
	var remoteNames []string
	for i := range c.Mods {
		m := &c.Mods[i]
		if !m.Remote {
			continue
		}
		data := map[string][]byte{}
		for p, txt := range m.Files {
			data[p] = []byte(txt)
		}
		remoteDatas = append(remoteDatas, bufmoduletesting.ModuleData{Name: m.Name, CommitID: bufx.CommitUUID(m.Name), PathToData: data})
		remoteNames = append(remoteNames, m.Name)
	}
	sort.Strings(remoteNames)
	omni, err := bufmoduletesting.NewOmniProvider(remoteDatas...)
	if err != nil {
		t.Fatalf("harness: omni provider: %v", err)
	}
	var refs []bufparse.Ref
	for _, n := range remoteNames {
		fn, err := bufparse.ParseFullName(n)
		if err != nil {
			t.Fatalf("harness: %v", err)
		}
		ref, err := bufparse.NewRef(fn.Registry(), fn.Owner(), fn.Name(), "")
		if err != nil {
			t.Fatalf("harness: %v", err)
		}
		refs = append(refs, ref)
	}
	keys, err := omni.GetModuleKeysForModuleRefs(ctx, refs, bufmodule.DigestTypeB5)
	if err != nil {
		t.Fatalf("harness: module keys: %v", err)
	}
	b := bufmodule.NewModuleSetBuilder(ctx, bufx.Logger, omni, omni)
	for i := range c.Mods {
		m := &c.Mods[i]
		if m.Remote {
			continue
		}
		bucket, err := bufx.BucketFor(m.Files)
		if err != nil {
			t.Fatalf("harness: %v", err)
		}
		var opts []bufmodule.LocalModuleOption
		if m.Name != "" {
			fn, err := bufparse.ParseFullName(m.Name)
			if err != nil {
				t.Fatalf("harness: %v", err)
			}
			opts = append(opts, bufmodule.LocalModuleWithFullNameAndCommitID(fn, bufx.CommitUUID(m.Name)))
		}
		b.AddLocalModule(bucket, m.Dir, true, opts...)
	}
	for _, k := range keys {
		b.AddRemoteModule(k, false)
	}
	ms, err := b.Build()
	r.Eval()
	r.Class("dup-pinned:case")
	if err != nil {
		// rejecting the set outright is a way of reporting the ambiguity
		r.Class("dup-pinned:rejected-at-build")
		return
	}
	// which local modules import the duplicated path (directly, file level)
	checked := 0
	for i := range c.Mods {
		m := &c.Mods[i]
		if m.Remote {
			continue
		}
		imports := false
		for p := range m.Files {
			for _, imp := range c.Imports[p] {
				if imp == c.DupPath {
					imports = true
				}
			}
		}
		if !imports {
			continue
		}
		mod := ms.GetModuleForOpaqueID(opaque(m))
		if mod == nil {
			t.Fatalf("harness: module %s not in the set", opaque(m))
		}
		_, err := mod.ModuleDeps()
		checked++
		var dup *bufmodule.DuplicateProtoPathError
		if err == nil || !errors.As(err, &dup) {
			var cyc *bufmodule.ModuleCycleError
			if err != nil && errors.As(err, &cyc) {
				continue // a cycle is reported first
			}
			r.Fail(t, "duplicate-path-not-reported", fmt.Sprintf("path %s is provided by %v (one local, one pinned); %s imports it but ModuleDeps returned %v", c.DupPath, c.DupMods, opaque(m), err), c)
			return
		}
		if dup.ProtoPath != c.DupPath {
			r.Fail(t, "duplicate-path-wrong-path", fmt.Sprintf("duplicate reported for %s, planted %s", dup.ProtoPath, c.DupPath), c)
			return
		}
	}
	if checked > 0 {
		if _, err := bufmodule.ModuleSetToDAG(ms); err == nil {
			r.Fail(t, "duplicate-path-not-reported:dag", fmt.Sprintf("path %s is provided by %v and imported by a local module but ModuleSetToDAG succeeded", c.DupPath, c.DupMods), c)
			return
		}
		if _, err := bufimage.BuildImage(ctx, bufx.Logger, bufmodule.ModuleSetToModuleReadBucketWithOnlyProtoFiles(ms)); err == nil {
			r.Fail(t, "duplicate-path-build", fmt.Sprintf("path %s is provided by %v but BuildImage succeeded", c.DupPath, c.DupMods), c)
			return
		}
		r.NonTrivial(fmt.Sprintf("dup-pinned|%v", c.Mods))
		r.Class("dup-pinned:importer-checked")
	}
	r.Sample(map[string]any{"dup_path": c.DupPath, "dup_mods": c.DupMods, "remote": remoteNames})
}

func TestLocalAndPinnedDuplicate(t *testing.T) {
	r := evid.R()
	ctx := context.Background()
	r.Check(t, r.Scale(6000, 40000), 5, func(t *rapid.T) {
		c, _ := genCase(t)
		c.Layout = "dup-pinned"
		chooseRemote(t, c)
		var locals, remotes []int
		for i := range c.Mods {
			c.Mods[i].LocalToo = false
			if c.Mods[i].Remote {
				remotes = append(remotes, i)
			} else {
				locals = append(locals, i)
			}
		}
		if len(locals) == 0 || len(remotes) == 0 {
			r.Class("dup-pinned:not-applicable")
			return
		}
		// the duplicated path: imported by some local file, owned by a local or a pinned module, and free of
		// imports of its own (so that the copy does not drag dependencies into the other module)
		imported := map[string]bool{}
		for _, i := range locals {
			for p := range c.Mods[i].Files {
				for _, imp := range c.Imports[p] {
					imported[imp] = true
				}
			}
		}
		var cands []string
		for p := range imported {
			leaf := true
			for _, imp := range c.Imports[p] {
				if !isWKT(imp) {
					leaf = false
				}
			}
			if leaf && !isWKT(p) && c.modOf(p) != nil {
				cands = append(cands, p)
			}
		}
		sort.Strings(cands)
		if len(cands) == 0 {
			r.Class("dup-pinned:not-applicable")
			return
		}
		p := cands[rapid.IntRange(0, len(cands)-1).Draw(t, "dup-path")]
		owner := c.modOf(p)
		var other *Mod
		if owner.Remote {
			other = &c.Mods[locals[rapid.IntRange(0, len(locals)-1).Draw(t, "dup-local")]]
		} else {
			other = &c.Mods[remotes[rapid.IntRange(0, len(remotes)-1).Draw(t, "dup-remote")]]
		}
		if other == owner {
			r.Class("dup-pinned:not-applicable")
			return
		}
		other.Files[p] = owner.Files[p]
		c.Plant, c.DupPath, c.DupMods = "duplicate-path", p, []string{opaque(owner), opaque(other)}
		sort.Strings(c.DupMods)
		runDupPinned(ctx, t, r, c)
	})
}
