// C13 — no path can escape a bucket's root.
//
// Oracle: a lexical reference normaliser written in the harness (pathgen.RefNormalize, no
// path/filepath, no normalpath) decides for every string whether it is ok / escapes / absolute;
// every operation of every bucket kind is then run on a scratch "world" that has sentinel objects
// beside and above the bucket's root, and after EACH operation the whole world is listed again:
//
//	(1) everything outside the root is byte-identical and nothing new exists there,
//	(2) a path the reference calls escaping or absolute made the operation return an error,
//	(3) for an ok path, whatever was written / deleted / read is the object at the reference
//	    normal form inside the root (never demanded to succeed: an error is always acceptable).
//
// The world is rebuilt whenever an operation changed it, so every case starts from the same state.
package c13

import (
	"archive/tar"
	"archive/zip"
	"bytes"
	"context"
	"errors"
	"fmt"
	"io"
	"io/fs"
	"log/slog"
	"os"
	"path/filepath"
	"sort"
	"strings"
	"testing"

	"github.com/bufbuild/buf/private/bufpkg/bufcas"
	"github.com/bufbuild/buf/private/bufpkg/bufprotoplugin"
	"github.com/bufbuild/buf/private/bufpkg/bufprotoplugin/bufprotopluginos"
	"github.com/bufbuild/buf/private/pkg/normalpath"
	"github.com/bufbuild/buf/private/pkg/storage"
	"github.com/bufbuild/buf/private/pkg/storage/storagearchive"
	"github.com/bufbuild/buf/private/pkg/storage/storagemem"
	"github.com/bufbuild/buf/private/pkg/storage/storageos"
	"github.com/bufbuild/bufverif/internal/bucketmodel"
	"github.com/bufbuild/bufverif/internal/evid"
	"github.com/bufbuild/bufverif/internal/pathgen"
	"google.golang.org/protobuf/types/pluginpb"
	"pgregory.net/rapid"
)

func TestMain(m *testing.M) { evid.Main(m, "C13") }

var ctx = context.Background()

func harness(format string, args ...any) { panic("harness: " + fmt.Sprintf(format, args...)) }

// ---------------------------------------------------------------------------------------------
// worlds

const (
	dirMark   = "\x00dir"
	otherMark = "\x00other:"
	insertTag = "// @@protoc_insertion_point(ip)"
)

// objects inside every root (relative to the root). "..a" is a legal name that merely starts with
// two dots; a/b/a gives depth; the names are alphabet components so that ok paths hit real objects.
var insideRel = []string{"in.txt", "b", "a/a", "a/b/a", "..a/b"}

// objects planted in every decoy root (a subset of insideRel, same names)
var decoyRel = []string{"in.txt", "b", "a/a"}

func contentFor(key string) string { return "C13 " + key + "\n" + insertTag + "\n" }

func joinKey(parts ...string) string {
	var out []string
	for _, p := range parts {
		if p != "" {
			out = append(out, p)
		}
	}
	return strings.Join(out, "/")
}

// worldSpec lays out the objects of a world whose bucket root is at rootComps: at every level above
// the root a few sentinels named like alphabet components (so that "../b", "../a/a", "../in.txt"
// address something real), and next to each directory on the way down a sibling whose name has that
// directory's name as a string prefix ("p" / "px").
//
// decoys are other directories that get a few objects named like the ones inside the root: the
// places a stack of prefix maps would be rooted at if its prefixes were applied in another order.
func worldSpec(rootComps []string, decoys [][]string) map[string]string {
	spec := map[string]string{}
	for _, d := range decoys {
		for _, rel := range decoyRel {
			k := joinKey(strings.Join(d, "/"), rel)
			spec[k] = contentFor(k)
		}
	}
	for i := range rootComps {
		level := strings.Join(rootComps[:i], "/")
		rels := []string{"s.txt", "b", "a/a", "in.txt", rootComps[i] + "x/s.txt"}
		if len(rootComps)-i > 3 {
			rels = rels[:1] // far above the root one sentinel per level is enough
		}
		for _, rel := range rels {
			k := joinKey(level, rel)
			spec[k] = contentFor(k)
		}
	}
	root := strings.Join(rootComps, "/")
	for _, rel := range insideRel {
		k := joinKey(root, rel)
		spec[k] = contentFor(k)
	}
	return spec
}

type world struct {
	name      string
	disk      bool
	base      string // disk: directory holding the whole world
	rootComps []string
	decoys    [][]string              // wrongly ordered roots, see worldSpec
	parent    storage.ReadWriteBucket // mem: bucket holding the whole world
	pristine  map[string]string
	dirty     bool
	gen       int
}

func (w *world) rootKey() string { return strings.Join(w.rootComps, "/") }

func (w *world) rebuild() {
	spec := worldSpec(w.rootComps, w.decoys)
	if w.disk {
		if err := os.RemoveAll(w.base); err != nil {
			harness("cannot clear world %s: %v", w.base, err)
		}
		for k, v := range spec {
			full := filepath.Join(w.base, filepath.FromSlash(k))
			if err := os.MkdirAll(filepath.Dir(full), 0o755); err != nil {
				harness("mkdir: %v", err)
			}
			if err := os.WriteFile(full, []byte(v), 0o644); err != nil {
				harness("write sentinel: %v", err)
			}
		}
	} else {
		w.parent = storagemem.NewReadWriteBucket()
		for k, v := range spec {
			if err := storage.PutPath(ctx, w.parent, k, []byte(v)); err != nil {
				harness("mem sentinel %q: %v", k, err)
			}
		}
	}
	w.gen++
	w.dirty = false
	w.pristine = w.snapshot()
	// self-check: the pristine world is exactly the specification
	files := 0
	for k, v := range w.pristine {
		if v == dirMark {
			continue
		}
		files++
		if spec[k] != v {
			harness("world %s: pristine object %q differs from its specification", w.name, k)
		}
	}
	if files != len(spec) {
		harness("world %s: %d objects, specification has %d", w.name, files, len(spec))
	}
}

// restore brings a world that an operation changed back to its pristine state. Disk worlds are
// repaired incrementally (only what differs), then verified; anything else is rebuilt.
func (w *world) restore(after map[string]string) {
	if !w.disk {
		w.rebuild()
		return
	}
	var extra []string
	for k := range after {
		if _, ok := w.pristine[k]; !ok {
			extra = append(extra, k)
		}
	}
	sort.Sort(sort.Reverse(sort.StringSlice(extra))) // children before their directory
	for _, k := range extra {
		if err := os.RemoveAll(filepath.Join(w.base, filepath.FromSlash(k))); err != nil {
			harness("repair: %v", err)
		}
	}
	for _, k := range sortedKeys(w.pristine) { // directories before their children
		want := w.pristine[k]
		got, ok := after[k]
		if ok && got == want {
			continue
		}
		full := filepath.Join(w.base, filepath.FromSlash(k))
		if ok && (got == dirMark) != (want == dirMark) {
			if err := os.RemoveAll(full); err != nil {
				harness("repair: %v", err)
			}
		}
		if want == dirMark {
			if err := os.MkdirAll(full, 0o755); err != nil {
				harness("repair: %v", err)
			}
			continue
		}
		if err := os.MkdirAll(filepath.Dir(full), 0o755); err != nil {
			harness("repair: %v", err)
		}
		if err := os.WriteFile(full, []byte(want), 0o644); err != nil {
			harness("repair: %v", err)
		}
	}
	now := w.snapshot()
	same := len(now) == len(w.pristine)
	for k, v := range w.pristine {
		if now[k] != v {
			same = false
		}
	}
	if !same {
		w.rebuild()
		return
	}
	w.dirty = false
}

// snapshot lists the entire world: key -> content; directories (disk) -> dirMark.
func (w *world) snapshot() map[string]string {
	out := map[string]string{}
	if w.disk {
		err := filepath.WalkDir(w.base, func(p string, d fs.DirEntry, err error) error {
			if err != nil {
				return err
			}
			rel, err := filepath.Rel(w.base, p)
			if err != nil {
				return err
			}
			if rel == "." {
				return nil
			}
			key := filepath.ToSlash(rel)
			switch {
			case d.IsDir():
				out[key] = dirMark
			case d.Type().IsRegular():
				data, err := os.ReadFile(p)
				if err != nil {
					return err
				}
				out[key] = string(data)
			default:
				out[key] = otherMark + d.Type().String()
			}
			return nil
		})
		if err != nil && !errors.Is(err, fs.ErrNotExist) {
			harness("listing %s: %v", w.base, err)
		}
		return out
	}
	var keys []string
	if err := w.parent.Walk(ctx, "", func(info storage.ObjectInfo) error {
		keys = append(keys, info.Path())
		return nil
	}); err != nil {
		harness("walking parent bucket: %v", err)
	}
	for _, k := range keys {
		data, err := storage.ReadPath(ctx, w.parent, k)
		if err != nil {
			harness("reading parent %q: %v", k, err)
		}
		if _, dup := out[k]; dup {
			harness("parent bucket walk returned %q twice", k)
		}
		out[k] = string(data)
	}
	return out
}

// decoyOf returns the decoy root a world key lies in ("" if none).
func (w *world) decoyOf(key string) string {
	for _, d := range w.decoys {
		root := strings.Join(d, "/")
		if key == root || strings.HasPrefix(key, root+"/") {
			return root
		}
	}
	return ""
}

// inside reports whether a world key belongs to the bucket root (the root directory entry itself
// counts as inside: prefix "" addresses it legitimately).
func (w *world) inside(key string) (rel string, ok bool) {
	root := w.rootKey()
	if root == "" {
		return key, true
	}
	if key == root {
		return ".", true
	}
	if strings.HasPrefix(key, root+"/") {
		return key[len(root)+1:], true
	}
	return "", false
}

// ---------------------------------------------------------------------------------------------
// subjects (bucket kinds)

type subject struct {
	name    string
	w       *world
	wrap    func(w *world) (storage.ReadWriteBucket, storage.ReadBucket)
	visible func(rel string) bool // nil: every inside object is visible through the view
	osRoot  string                // disk root directory (for the bufprotopluginos writer)
	rw      storage.ReadWriteBucket
	ro      storage.ReadBucket
	gen     int
}

func (s *subject) ensure() {
	if s.w.gen == 0 || s.w.dirty {
		s.w.rebuild()
	}
	if s.gen != s.w.gen {
		s.rw, s.ro = s.wrap(s.w)
		if s.ro == nil {
			s.ro = s.rw
		}
		s.gen = s.w.gen
	}
}

func (s *subject) sees(rel string) bool { return s.visible == nil || s.visible(rel) }

func osBucket(dir string) storage.ReadWriteBucket {
	b, err := storageos.NewProvider().NewReadWriteBucket(dir)
	if err != nil {
		harness("storageos bucket at %s: %v", dir, err)
	}
	return b
}

var diskComps = []string{"u1", "u2", "p", "q", "r"}

// ---- stacks of prefix maps -------------------------------------------------------------------
//
// A stack is written "stack-mem:w=p>wc=q,r>rw=t" (or "stack-os:..."): layers from the base bucket
// outwards, each "constructor=prefix[,prefix...]" where several prefixes are several mappers given
// in ONE call. Constructors: w = storage.MapWriteBucket, wc = storage.MapWriteBucketCloser (over
// NopWriteBucketCloser), rw = storage.MapReadWriteBucket. The read side of a w / wc layer is the
// equally nested storage.MapReadBucket. By the documentation of the constructors ("as if the
// bucket was created on the given prefix", mappers of one call ordered from full path to path)
// the view is rooted at <prefixes of layer 1>/<prefixes of layer 2>/... of the base bucket.

type layer struct {
	ctor     string
	prefixes []string
}

func parseStack(name string) (disk bool, layers []layer) {
	kind, spec, ok := strings.Cut(name, ":")
	if !ok || (kind != "stack-mem" && kind != "stack-os") {
		harness("not a stack kind: %q", name)
	}
	for _, l := range strings.Split(spec, ">") {
		ctor, prefixes, ok := strings.Cut(l, "=")
		if !ok || (ctor != "w" && ctor != "wc" && ctor != "rw") || prefixes == "" {
			harness("bad layer %q in %q", l, name)
		}
		layers = append(layers, layer{ctor: ctor, prefixes: strings.Split(prefixes, ",")})
	}
	return kind == "stack-os", layers
}

// writeOnWrite: some MapWriteBucket / MapWriteBucketCloser layer sits directly on another one.
func writeOnWrite(layers []layer) bool {
	for i := 1; i < len(layers); i++ {
		if layers[i].ctor != "rw" && layers[i-1].ctor != "rw" {
			return true
		}
	}
	return false
}

func (l layer) comps() []string { return strings.Split(strings.Join(l.prefixes, "/"), "/") }

// rwPair glues a read side and a write side together (what the composite buckets of the storage
// package do internally).
type rwPair struct {
	storage.ReadBucket
	storage.WriteBucket
}

func buildStack(base storage.ReadWriteBucket, layers []layer) storage.ReadWriteBucket {
	var read storage.ReadBucket = base
	var write storage.WriteBucket = base
	for _, l := range layers {
		mappers := make([]storage.Mapper, len(l.prefixes))
		for i, p := range l.prefixes {
			mappers[i] = storage.MapOnPrefix(p)
		}
		switch l.ctor {
		case "w":
			write = storage.MapWriteBucket(write, mappers...)
			read = storage.MapReadBucket(read, mappers...)
		case "wc":
			write = storage.MapWriteBucketCloser(storage.NopWriteBucketCloser(write), mappers...)
			read = storage.MapReadBucket(read, mappers...)
		case "rw":
			b := storage.MapReadWriteBucket(rwPair{read, write}, mappers...)
			read, write = b, b
		}
	}
	return rwPair{read, write}
}

// permutations returns every ordering of the groups except the given one, flattened.
func permutations(groups [][]string) [][]string {
	var out [][]string
	var rec func(rest [][]string, acc [][]string)
	rec = func(rest [][]string, acc [][]string) {
		if len(rest) == 0 {
			identity := true
			var flat []string
			for i, g := range acc {
				if strings.Join(g, "/") != strings.Join(groups[i], "/") {
					identity = false
				}
				flat = append(flat, g...)
			}
			if !identity {
				out = append(out, flat)
			}
			return
		}
		for i := range rest {
			next := append(append([][]string{}, rest[:i]...), rest[i+1:]...)
			rec(next, append(append([][]string{}, acc...), rest[i]))
		}
	}
	rec(groups, nil)
	return out
}

func singletons(comps []string) [][]string {
	out := make([][]string, len(comps))
	for i, c := range comps {
		out[i] = []string{c}
	}
	return out
}

// the variable part of the disk world: stacks on disk sit on a bucket at u1/u2 and cover p/q/r
var diskStackComps = diskComps[2:]

func diskDecoys() [][]string {
	var out [][]string
	for _, perm := range permutations(singletons(diskStackComps)) {
		out = append(out, append(append([]string{}, diskComps[:2]...), perm...))
	}
	return out
}

// registry holds the fixed bucket kinds and creates stack kinds on demand from their name.
type registry struct {
	fixed  []*subject
	disk   *world
	stacks map[string]*subject
}

func newRegistry(fastDir, realDir string) *registry {
	g := &registry{stacks: map[string]*subject{}}
	g.fixed, g.disk = buildSubjects(fastDir, realDir)
	for _, name := range fixedStacks {
		g.fixed = append(g.fixed, g.stack(name))
	}
	return g
}

func (g *registry) stack(name string) *subject {
	if s, ok := g.stacks[name]; ok {
		return s
	}
	disk, layers := parseStack(name)
	var comps []string
	var groups [][]string
	for _, l := range layers {
		comps = append(comps, l.comps()...)
		groups = append(groups, l.comps())
	}
	s := &subject{name: name}
	if disk {
		if strings.Join(comps, "/") != strings.Join(diskStackComps, "/") {
			harness("disk stack %q must cover %v", name, diskStackComps)
		}
		baseDir := filepath.Join(append([]string{g.disk.base}, diskComps[:2]...)...)
		s.w = g.disk
		s.wrap = func(w *world) (storage.ReadWriteBucket, storage.ReadBucket) {
			return buildStack(osBucket(baseDir), layers), nil
		}
	} else {
		// decoys: the layers in every other order, and the single components reversed
		decoys := permutations(groups)
		rev := make([]string, len(comps))
		for i, c := range comps {
			rev[len(comps)-1-i] = c
		}
		seen := map[string]bool{strings.Join(comps, "/"): true}
		for _, d := range decoys {
			seen[strings.Join(d, "/")] = true
		}
		if !seen[strings.Join(rev, "/")] {
			decoys = append(decoys, rev)
		}
		s.w = &world{name: name, rootComps: comps, decoys: decoys}
		s.wrap = func(w *world) (storage.ReadWriteBucket, storage.ReadBucket) {
			return buildStack(w.parent, layers), nil
		}
	}
	g.stacks[name] = s
	return s
}

func (g *registry) lookup(name string) *subject {
	for _, s := range g.fixed {
		if s.name == name {
			return s
		}
	}
	if strings.HasPrefix(name, "stack-") {
		return g.stack(name)
	}
	return nil
}

// fixedStacks take part in the exhaustive sweep; TestRandom draws further ones.
var fixedStacks = []string{
	"stack-mem:w=p>w=q",       // write map directly on a write map
	"stack-mem:w=p>w=q>w=r",   // three levels
	"stack-mem:w=p>w=q,r",     // two mappers in one call on top of a write map
	"stack-mem:w=p/q>wc=r",    // deep prefix below, closer variant on top
	"stack-mem:rw=p>w=q",      // write map on a read-write map
	"stack-mem:wc=p>w=q>rw=r", // write map on a closer map, read-write map on top
	"stack-os:w=p>w=q>w=r",    // the same on disk
}

// genStackName draws a stack of 2-3 layers with different prefixes.
func genStackName(t *rapid.T) string {
	disk := rapid.IntRange(0, 3).Draw(t, "stackdisk") == 0
	comps := []string{"p", "q", "r"}
	if !disk && rapid.IntRange(0, 2).Draw(t, "short") == 0 {
		comps = comps[:2]
	}
	nLayers := rapid.IntRange(2, len(comps)).Draw(t, "layers")
	var groups [][]string
	if nLayers == len(comps) {
		groups = singletons(comps)
	} else { // three components in two layers
		cut := rapid.IntRange(1, 2).Draw(t, "cut")
		groups = [][]string{comps[:cut], comps[cut:]}
	}
	parts := make([]string, len(groups))
	for i, g := range groups {
		ctor := rapid.SampledFrom([]string{"w", "w", "w", "wc", "rw"}).Draw(t, "ctor")
		sep := "/"
		if len(g) > 1 && rapid.Bool().Draw(t, "onecall") {
			sep = ","
		}
		parts[i] = ctor + "=" + strings.Join(g, sep)
	}
	kind := "stack-mem:"
	if disk {
		kind = "stack-os:"
	}
	return kind + strings.Join(parts, ">")
}

// buildSubjects creates every bucket kind. fastDir holds the disk world shared by the disk kinds;
// if realDir is not empty one more plain storageos kind ("os-tmpdir") gets its own world there.
func buildSubjects(fastDir, realDir string) ([]*subject, *world) {
	var out []*subject
	memWorld := func(name string, comps ...string) *world { return &world{name: name, rootComps: comps} }
	add := func(s *subject) { out = append(out, s) }

	prefixes := [][]string{{"p"}, {"p", "q"}, {"p", "q", "r"}}
	for i, comps := range prefixes {
		prefix := strings.Join(comps, "/")
		add(&subject{name: fmt.Sprintf("map-mem-d%d", i+1), w: memWorld("map-mem", comps...), wrap: func(w *world) (storage.ReadWriteBucket, storage.ReadBucket) {
			return storage.MapReadWriteBucket(w.parent, storage.MapOnPrefix(prefix)), nil
		}})
	}
	add(&subject{name: "mem", w: memWorld("mem"), wrap: func(w *world) (storage.ReadWriteBucket, storage.ReadBucket) {
		return w.parent, nil
	}})
	add(&subject{name: "map-mem-chain", w: memWorld("map-mem-chain", "p", "q", "r"), wrap: func(w *world) (storage.ReadWriteBucket, storage.ReadBucket) {
		return storage.MapReadWriteBucket(w.parent, storage.MapOnPrefix("p"), storage.MapOnPrefix("q/r")), nil
	}})
	add(&subject{name: "mapmap-mem", w: memWorld("mapmap-mem", "p", "q", "r"), wrap: func(w *world) (storage.ReadWriteBucket, storage.ReadBucket) {
		return storage.MapReadWriteBucket(storage.MapReadWriteBucket(w.parent, storage.MapOnPrefix("p")), storage.MapOnPrefix("q/r")), nil
	}})
	add(&subject{name: "mapro-mem", w: memWorld("mapro-mem", "p", "q"), wrap: func(w *world) (storage.ReadWriteBucket, storage.ReadBucket) {
		return nil, storage.MapReadBucket(w.parent, storage.MapOnPrefix("p/q"))
	}})
	// filter∘map: the view hides everything under "a"
	add(&subject{name: "filter-map-mem", w: memWorld("filter-map-mem", "p", "q", "r"),
		visible: func(rel string) bool { return !pathgen.StrictlyUnder("a", rel) },
		wrap: func(w *world) (storage.ReadWriteBucket, storage.ReadBucket) {
			return nil, storage.FilterReadBucket(
				storage.MapReadBucket(w.parent, storage.MapOnPrefix("p/q/r")),
				storage.MatchNot(storage.MatchPathContained("a")),
			)
		}})
	// map∘filter
	add(&subject{name: "map-filter-mem", w: memWorld("map-filter-mem", "p", "q", "r"), wrap: func(w *world) (storage.ReadWriteBucket, storage.ReadBucket) {
		return nil, storage.MapReadBucket(
			storage.FilterReadBucket(w.parent, storage.MatchPathContained("p/q")),
			storage.MapOnPrefix("p/q/r"),
		)
	}})

	// all disk kinds share one world (the same directory tree), rooted five levels deep so that up
	// to five ".." stay inside the scratch base directory.
	disk := &world{name: "disk", disk: true, base: filepath.Join(fastDir, "c13world"), rootComps: diskComps, decoys: diskDecoys()}
	rootDir := filepath.Join(append([]string{disk.base}, diskComps...)...)
	add(&subject{name: "os", w: disk, osRoot: rootDir, wrap: func(w *world) (storage.ReadWriteBucket, storage.ReadBucket) {
		return osBucket(rootDir), nil
	}})
	for d := 1; d <= 3; d++ {
		parentDir := filepath.Join(append([]string{disk.base}, diskComps[:len(diskComps)-d]...)...)
		prefix := strings.Join(diskComps[len(diskComps)-d:], "/")
		add(&subject{name: fmt.Sprintf("map-os-d%d", d), w: disk, wrap: func(w *world) (storage.ReadWriteBucket, storage.ReadBucket) {
			return storage.MapReadWriteBucket(osBucket(parentDir), storage.MapOnPrefix(prefix)), nil
		}})
	}
	add(&subject{name: "filter-os", w: disk,
		visible: func(rel string) bool { return pathgen.Under("a", rel) },
		wrap: func(w *world) (storage.ReadWriteBucket, storage.ReadBucket) {
			return nil, storage.FilterReadBucket(osBucket(rootDir), storage.MatchPathEqualOrContained("a"))
		}})
	if realDir != "" {
		real := &world{name: "disk-tmpdir", disk: true, base: filepath.Join(realDir, "c13world"), rootComps: diskComps}
		realRoot := filepath.Join(append([]string{real.base}, diskComps...)...)
		add(&subject{name: "os-tmpdir", w: real, osRoot: realRoot, wrap: func(w *world) (storage.ReadWriteBucket, storage.ReadBucket) {
			return osBucket(realRoot), nil
		}})
	}
	return out, disk
}

var (
	readOps  = []string{"get", "stat", "walk", "copy-from"}
	writeOps = []string{
		"delete-all", "delete", "put", "put-atomic", "put-path", "copy-to",
		"untar-s0", "untar-s1", "untar-s2", "unzip-s0", "unzip-s1", "unzip-s2",
		"plugin-write", "plugin-insert",
	}
)

func (s *subject) ops() []string {
	s.ensure()
	// mutating operations first: if a hostile string gets through, the first report shows the damage
	var ops []string
	if s.rw != nil {
		ops = append(ops, writeOps...)
		if s.osRoot != "" {
			ops = append(ops, "plugin-os")
		}
	}
	return append(ops, readOps...)
}

func mutating(op string) bool {
	for _, o := range readOps {
		if o == op {
			return false
		}
	}
	return true
}

// ---------------------------------------------------------------------------------------------
// operations

type c13Case struct {
	Kind string `json:"kind"`
	Op   string `json:"op"`
	Path string `json:"path"`
}

type opResult struct {
	err      error
	skipped  string // harness could not build the input (e.g. archive writer refused the name)
	data     []byte // get / copy-from
	visited  []string
	written  string   // payload of a write-like operation
	allowed  []string // normal forms (relative to the root) the operation may touch when the path is ok
	exempt   bool     // documented "ignored entry" (tar ._ file): acceptance without error is not required to fail
	statPath string
}

const benignEntry = "k0/k1/k2/keep.txt"

func stripN(op string) int { return int(op[len(op)-1] - '0') }

func archiveBase(name string) string {
	name = strings.TrimRight(name, "/")
	if i := strings.LastIndexByte(name, '/'); i >= 0 {
		name = name[i+1:]
	}
	return name
}

func buildTar(names []string, payload string) ([]byte, error) {
	var buf bytes.Buffer
	tw := tar.NewWriter(&buf)
	for i, name := range names {
		data := payload
		if i == 0 {
			data = "KEEP"
		}
		if strings.HasSuffix(name, "/") {
			// archive/tar refuses a regular file with a trailing slash: a hostile directory entry then
			if err := tw.WriteHeader(&tar.Header{Typeflag: tar.TypeDir, Name: name, Mode: 0o755}); err != nil {
				return nil, err
			}
			continue
		}
		if err := tw.WriteHeader(&tar.Header{Typeflag: tar.TypeReg, Name: name, Size: int64(len(data)), Mode: 0o644}); err != nil {
			return nil, err
		}
		if _, err := tw.Write([]byte(data)); err != nil {
			return nil, err
		}
	}
	if err := tw.Close(); err != nil {
		return nil, err
	}
	return buf.Bytes(), nil
}

func buildZip(names []string, payload string) ([]byte, error) {
	var buf bytes.Buffer
	zw := zip.NewWriter(&buf)
	for i, name := range names {
		data := payload
		if i == 0 {
			data = "KEEP"
		}
		w, err := zw.CreateHeader(&zip.FileHeader{Name: name, Method: zip.Store})
		if err != nil {
			return nil, err
		}
		if !strings.HasSuffix(name, "/") {
			if _, err := w.Write([]byte(data)); err != nil {
				return nil, err
			}
		}
	}
	if err := zw.Close(); err != nil {
		return nil, err
	}
	return buf.Bytes(), nil
}

var discardLogger = slog.New(slog.NewTextHandler(io.Discard, nil))

func runOp(s *subject, op, p string) (res opResult) {
	norm, verdict := pathgen.RefNormalize(p)
	single := []string{norm}
	res.written = "NEW " + op + "\n"
	switch op {
	case "get":
		obj, err := s.ro.Get(ctx, p)
		if err != nil {
			res.err = err
			return
		}
		data, err := io.ReadAll(obj)
		res.data = data
		res.err = errors.Join(err, obj.Close())
	case "stat":
		info, err := s.ro.Stat(ctx, p)
		res.err = err
		if err == nil {
			res.statPath = info.Path()
		}
	case "walk":
		res.err = s.ro.Walk(ctx, p, func(info storage.ObjectInfo) error {
			res.visited = append(res.visited, info.Path())
			return nil
		})
	case "copy-from":
		sink := storagemem.NewReadWriteBucket()
		res.err = storage.CopyPath(ctx, s.ro, p, sink, "sink.txt")
		if res.err == nil {
			data, err := storage.ReadPath(ctx, sink, "sink.txt")
			if err != nil {
				harness("sink: %v", err)
			}
			res.data = data
		}
	case "put", "put-atomic":
		res.allowed = single
		var opts []storage.PutOption
		if op == "put-atomic" {
			opts = append(opts, storage.PutWithAtomic())
		}
		w, err := s.rw.Put(ctx, p, opts...)
		if err != nil {
			res.err = err
			return
		}
		_, werr := w.Write([]byte(res.written))
		res.err = errors.Join(werr, w.Close())
	case "put-path":
		res.allowed = single
		res.err = storage.PutPath(ctx, s.rw, p, []byte(res.written))
	case "copy-to":
		res.allowed = single
		src := storagemem.NewReadWriteBucket()
		if err := storage.PutPath(ctx, src, "src.txt", []byte(res.written)); err != nil {
			harness("src: %v", err)
		}
		res.err = storage.CopyPath(ctx, src, "src.txt", s.rw, p)
	case "delete":
		res.allowed = single
		res.err = s.rw.Delete(ctx, p)
	case "delete-all":
		res.allowed = single // everything under it, see judge
		res.err = s.rw.DeleteAll(ctx, p)
	case "untar-s0", "untar-s1", "untar-s2", "unzip-s0", "unzip-s1", "unzip-s2":
		k := stripN(op)
		if b, ok := pathgen.StripComponents(benignEntry, k); ok {
			res.allowed = append(res.allowed, b)
		}
		if verdict == pathgen.OK {
			if stripped, ok := pathgen.StripComponents(norm, k); ok && norm != "." {
				res.allowed = append(res.allowed, stripped)
			}
		}
		if strings.HasPrefix(op, "untar") {
			data, err := buildTar([]string{benignEntry, p}, res.written)
			if err != nil {
				res.skipped = "tar writer: " + err.Error()
				return
			}
			// storagearchive documents that "._" (Apple extended attribute) entries are ignored.
			// (archive/tar takes the base name of the cleaned name for directory entries)
			res.exempt = strings.HasPrefix(archiveBase(p), "._") || strings.HasPrefix(archiveBase(norm), "._")
			res.err = storagearchive.Untar(ctx, bytes.NewReader(data), s.rw, storagearchive.UntarWithStripComponentCount(uint32(k)))
		} else {
			data, err := buildZip([]string{benignEntry, p}, res.written)
			if err != nil {
				res.skipped = "zip writer: " + err.Error()
				return
			}
			res.err = storagearchive.Unzip(ctx, bytes.NewReader(data), int64(len(data)), s.rw, storagearchive.UnzipWithStripComponentCount(uint32(k)))
		}
	case "plugin-write":
		res.allowed = single
		resp := &pluginpb.CodeGeneratorResponse{File: []*pluginpb.CodeGeneratorResponse_File{{Name: &p, Content: &res.written}}}
		res.err = bufprotoplugin.NewResponseWriter(discardLogger).WriteResponse(ctx, s.rw, resp)
	case "plugin-insert":
		res.allowed = single
		ip := "ip"
		resp := &pluginpb.CodeGeneratorResponse{File: []*pluginpb.CodeGeneratorResponse_File{{Name: &p, InsertionPoint: &ip, Content: &res.written}}}
		res.err = bufprotoplugin.NewResponseWriter(discardLogger).WriteResponse(ctx, s.rw, resp, bufprotoplugin.WriteResponseWithInsertionPointReadBucket(s.rw))
	case "plugin-os":
		res.allowed = single
		resp := &pluginpb.CodeGeneratorResponse{File: []*pluginpb.CodeGeneratorResponse_File{{Name: &p, Content: &res.written}}}
		rw := bufprotopluginos.NewResponseWriter(discardLogger, storageos.NewProvider(storageos.ProviderWithSymlinks()))
		err := rw.AddResponse(ctx, resp, s.osRoot)
		res.err = errors.Join(err, rw.Close())
	default:
		harness("unknown op %q", op)
	}
	return
}

// ---------------------------------------------------------------------------------------------
// oracle

func sortedKeys(m map[string]string) []string {
	ks := make([]string, 0, len(m))
	for k := range m {
		ks = append(ks, k)
	}
	sort.Strings(ks)
	return ks
}

func errStr(err error) string {
	if err == nil {
		return "<nil>"
	}
	return err.Error()
}

func acceptedKey(norm string, v pathgen.Verdict) string {
	switch {
	case norm == "..":
		return "bare-dotdot-accepted"
	case v == pathgen.Absolute:
		return "absolute-path-accepted"
	default:
		return "hostile-path-accepted"
	}
}

func contains(list []string, s string) bool {
	for _, x := range list {
		if x == s {
			return true
		}
	}
	return false
}

// judge runs the operation on a pristine world and evaluates the oracle. It returns "" if the
// property holds for this case.
func judge(s *subject, c c13Case, classes func(string)) (key, msg string) {
	s.ensure()
	w := s.w
	norm, verdict := pathgen.RefNormalize(c.Path)
	before := w.pristine
	w.dirty = true
	res := runOp(s, c.Op, c.Path)
	after := w.snapshot()
	if res.skipped != "" {
		classes("unbuildable-input")
	}
	desc := fmt.Sprintf("kind=%s op=%s path=%q (reference: %s, normal form %q) returned err=%s", c.Kind, c.Op, c.Path, verdict, norm, errStr(res.err))

	// (1) nothing outside the root may change
	// A change below a decoy root is blamed on the order of the prefixes, unless a hostile path was
	// accepted (then the string itself may have led there).
	wrongRoot := !verdict.Hostile() || res.err != nil
	var insideChanged []string // relative normal forms of inside FILES that were created/modified/removed
	removedOnly := true
	clean := true
	for _, k := range sortedKeys(before) {
		a, still := after[k]
		if still && a == before[k] {
			continue
		}
		clean = false
		rel, in := w.inside(k)
		if !in {
			verb, key := "changed", "escape-write"
			if !still {
				verb, key = "removed", "escape-delete"
			}
			if d := w.decoyOf(k); d != "" && wrongRoot {
				return "view-rooted-at-wrong-prefix", fmt.Sprintf("%s and %s %q: the view is rooted at %q of the base bucket, not at %q (prefixes applied in the wrong order)", desc, verb, k, w.rootKey(), d)
			}
			return key, fmt.Sprintf("%s and %s %q, which is outside the bucket root %q", desc, verb, k, w.rootKey())
		}
		if before[k] == dirMark && (!still || a == dirMark) {
			continue // directories inside the root are not objects
		}
		if still {
			removedOnly = false
		}
		insideChanged = append(insideChanged, rel)
	}
	for _, k := range sortedKeys(after) {
		if _, had := before[k]; had {
			continue
		}
		clean = false
		rel, in := w.inside(k)
		if !in {
			if d := w.decoyOf(k); d != "" && wrongRoot {
				return "view-rooted-at-wrong-prefix", fmt.Sprintf("%s and created %q: the view is rooted at %q of the base bucket, not at %q (prefixes applied in the wrong order)", desc, k, w.rootKey(), d)
			}
			return "escape-write", fmt.Sprintf("%s and created %q, which is outside the bucket root %q", desc, k, w.rootKey())
		}
		if after[k] == dirMark {
			continue
		}
		removedOnly = false
		insideChanged = append(insideChanged, rel)
	}
	if clean {
		w.dirty = false
	} else {
		defer w.restore(after)
	}
	// whatever a walk reports must be an object inside the root (also when the walk failed later)
	for _, q := range res.visited {
		qn, qv := pathgen.RefNormalize(q)
		if qv.Hostile() || qn != q || q == "." {
			return "escape-walk", fmt.Sprintf("%s and visited %q, which is not a normalised path inside the root", desc, q)
		}
		content, ok := before[joinKey(w.rootKey(), q)]
		if !ok || content == dirMark || !s.sees(q) {
			return "escape-walk", fmt.Sprintf("%s and visited %q, which is not an object of this bucket", desc, q)
		}
	}

	// (2) hostile paths are rejected
	if verdict.Hostile() {
		if res.skipped != "" {
			return "", ""
		}
		if res.err == nil && !res.exempt {
			return acceptedKey(norm, verdict), desc + "; a path that leaves the root must be rejected with an error"
		}
		if res.err == nil {
			classes("hostile-ignored-entry")
		} else {
			classes("hostile-rejected")
		}
		return "", ""
	}

	// (3) ok paths: the object touched is the one at the normal form
	if res.err == nil {
		classes("ok-success")
	} else {
		classes("ok-error")
	}
	if !mutating(c.Op) && len(insideChanged) > 0 {
		return "read-op-mutated", fmt.Sprintf("%s and changed objects %q", desc, insideChanged)
	}
	for _, rel := range insideChanged {
		ok := contains(res.allowed, rel)
		if c.Op == "delete-all" {
			ok = pathgen.Under(norm, rel)
		}
		if !ok {
			k := "wrong-object-written"
			if removedOnly {
				k = "wrong-object-deleted"
			}
			return k, fmt.Sprintf("%s and changed object %q; only %q may be touched", desc, rel, res.allowed)
		}
	}
	if (c.Op == "delete" || c.Op == "delete-all") && !removedOnly {
		return "wrong-object-written", fmt.Sprintf("%s and created or modified %q", desc, insideChanged)
	}
	if res.err != nil || res.skipped != "" {
		return "", ""
	}
	target := joinKey(w.rootKey(), norm)
	switch c.Op {
	case "get", "copy-from":
		want, ok := before[target]
		if norm == "." || !ok || want == dirMark || !s.sees(norm) {
			return "wrong-object-read", fmt.Sprintf("%s and produced %d bytes although no object %q exists in this bucket", desc, len(res.data), norm)
		}
		if string(res.data) != want {
			return "wrong-object-read", fmt.Sprintf("%s and produced %q, the object at %q holds %q", desc, res.data, norm, want)
		}
	case "stat":
		want, ok := before[target]
		if norm == "." || !ok || want == dirMark || !s.sees(norm) {
			return "wrong-object-read", fmt.Sprintf("%s although no object %q exists in this bucket", desc, norm)
		}
	case "put", "put-atomic", "put-path", "copy-to", "plugin-write", "plugin-os":
		if after[target] != res.written {
			return "wrong-object-written", fmt.Sprintf("%s but the object at %q holds %q afterwards (payload %q)", desc, norm, after[target], res.written)
		}
	case "plugin-insert":
		if !strings.Contains(after[target], res.written) {
			return "wrong-object-written", fmt.Sprintf("%s but the object at %q does not hold the inserted text", desc, norm)
		}
	case "delete":
		if _, still := after[target]; still && before[target] != dirMark {
			return "wrong-object-deleted", fmt.Sprintf("%s but the object at %q still exists", desc, norm)
		}
	}
	return "", ""
}

func nonTrivial(c c13Case) bool {
	if !mutating(c.Op) {
		return false
	}
	if strings.HasPrefix(c.Path, "/") {
		return true
	}
	for _, comp := range strings.Split(c.Path, "/") {
		if comp == ".." {
			return true
		}
	}
	return false
}

// evalCase evaluates one (kind, op, path). Returns false if a violation was reported.
func evalCase(t evid.TB, r *evid.Recorder, s *subject, c c13Case) bool {
	r.Eval()
	key, msg := judge(s, c, r.Class)
	if norm, _ := pathgen.RefNormalize(c.Path); norm == ".." && (strings.HasPrefix(key, "escape-") || strings.HasSuffix(key, "-accepted")) {
		// one root cause, whatever the symptom: the bare parent directory is taken for a contained path
		if key != "bare-dotdot-accepted" {
			msg = "[" + key + "] " + msg
		}
		key = "bare-dotdot-accepted"
	}
	if nonTrivial(c) {
		r.NonTrivial(c.Kind + "\x00" + c.Op + "\x00" + c.Path)
	}
	if key != "" {
		r.Fail(t, key, msg, c)
		return false
	}
	return true
}

var fileNodeDigest bufcas.Digest

func checkFileNode(t evid.TB, r *evid.Recorder, p string) bool {
	if fileNodeDigest == nil {
		d, err := bufcas.NewDigestForContent(strings.NewReader("c13"))
		if err != nil {
			harness("digest: %v", err)
		}
		fileNodeDigest = d
	}
	r.Eval()
	norm, verdict := pathgen.RefNormalize(p)
	node, err := bufcas.NewFileNode(p, fileNodeDigest)
	c := c13Case{Kind: "filenode", Op: "new", Path: p}
	desc := fmt.Sprintf("bufcas.NewFileNode(%q) (reference: %s, normal form %q) returned err=%s", p, verdict, norm, errStr(err))
	switch {
	case verdict.Hostile() && err == nil:
		r.Fail(t, acceptedKey(norm, verdict), desc+"; a manifest path that leaves the module root must be rejected", c)
		return false
	case err == nil && (node.Path() != norm || p != norm):
		// documented: "The path is validated to be normalized and non-empty"
		r.Fail(t, "filenode-not-normalised", fmt.Sprintf("%s and node.Path()=%q", desc, node.Path()), c)
		return false
	case err == nil && norm == ".":
		r.Class("filenode-accepted-root") // "." is contained; whether a manifest may name the root is not C13's business
	case err == nil:
		r.Class("filenode-accepted")
	default:
		r.Class("filenode-rejected")
	}
	return true
}

func classifyPath(r *evid.Recorder, p string) {
	_, v := pathgen.RefNormalize(p)
	r.Class("path-" + v.String())
}

// ---------------------------------------------------------------------------------------------
// tests

// TestExhaustive sweeps every string of the bounded alphabet through every kind and operation.
func TestExhaustive(t *testing.T) {
	r := evid.R()
	defer r.Begin(t)()
	maxComp := r.Pick(3, 4)
	paths := pathgen.Enumerate(maxComp)
	r.Extra("exhaustive_alphabet", pathgen.Alphabet)
	if r.Shard == 0 { // the driver adds numeric extras of the shards up
		r.Extra("exhaustive_max_components", maxComp)
		r.Extra("exhaustive_distinct_strings", len(paths))
		r.Extra("exhaustive_component_sequences_x_slash_variants", pathgen.RawCount(maxComp))
	}
	fastDir, fsName := bucketmodel.FastScratchDir(t)
	r.Extra("exhaustive_disk_world_on", fsName)
	subjects := newRegistry(fastDir, "").fixed
	var kinds []string
	for _, s := range subjects {
		kinds = append(kinds, s.name)
	}
	r.Extra("bucket_kinds", append(kinds, "filenode"))
	sampled := 0
	for idx, p := range paths {
		if !r.Mine(idx) {
			continue
		}
		classifyPath(r, p)
		for _, s := range subjects {
			for _, op := range s.ops() {
				c := c13Case{Kind: s.name, Op: op, Path: p}
				if !evalCase(t, r, s, c) {
					continue
				}
				if nonTrivial(c) && sampled < 200 && evid.Hash(c.Kind+c.Op+c.Path)%1499 == 0 {
					sampled++
					r.Sample(c)
				}
			}
		}
		checkFileNode(t, r, p)
		checkNormalize(t, r, p)
	}
}

// TestRandom draws longer hostile strings (unicode, spaces, backslashes, control characters).
func TestRandom(t *testing.T) {
	r := evid.R()
	fastDir, fsName := bucketmodel.FastScratchDir(t)
	r.Extra("random_disk_world_on", fsName+" (kind os-tmpdir: TMPDIR)")
	reg := newRegistry(fastDir, t.TempDir())
	subjects := reg.fixed
	if r.Shard == 0 {
		r.Extra("random_max_components", 12)
		r.Extra("random_max_dotdot_components", 4)
	}
	n := 0
	r.Check(t, r.Scale(4000, 200000), 1, func(t *rapid.T) {
		p := pathgen.GenHostilePath(4).Draw(t, "path")
		var s *subject
		if rapid.IntRange(0, 3).Draw(t, "stack") == 0 {
			// a freshly drawn stack of nested prefix maps (2-3 layers, mixed constructors)
			s = reg.stack(genStackName(t))
			r.Class("random-kind-" + s.name[:strings.IndexByte(s.name, ':')] + "-generated")
			if _, layers := parseStack(s.name); writeOnWrite(layers) {
				r.Class("random-stack-write-map-directly-on-write-map")
			}
		} else {
			s = subjects[rapid.IntRange(0, len(subjects)-1).Draw(t, "kind")]
			r.Class("random-kind-" + s.name)
		}
		classifyPath(r, p)
		n++
		for _, op := range s.ops() {
			c := c13Case{Kind: s.name, Op: op, Path: p}
			if !evalCase(t, r, s, c) {
				return
			}
			if n%257 == 0 && op == "delete-all" && nonTrivial(c) {
				r.Sample(c)
			}
		}
		checkFileNode(t, r, p)
	})
}

// checkNormalize compares buf's validator directly with the reference: hostile strings are rejected,
// and what is accepted is the reference normal form (so it denotes a place inside the root).
func checkNormalize(t evid.TB, r *evid.Recorder, p string) bool {
	r.Eval()
	norm, verdict := pathgen.RefNormalize(p)
	got, err := normalpath.NormalizeAndValidate(p)
	c := c13Case{Kind: "normalpath", Op: "normalize-and-validate", Path: p}
	desc := fmt.Sprintf("normalpath.NormalizeAndValidate(%q) = (%q, err=%s); reference: %s, normal form %q", p, got, errStr(err), verdict, norm)
	switch {
	case verdict.Hostile() && err == nil:
		r.Fail(t, acceptedKey(norm, verdict), desc+"; a path that leaves its context must be rejected", c)
		return false
	case !verdict.Hostile() && err == nil && got != norm:
		r.Fail(t, "normal-form-differs", desc, c)
		return false
	case !verdict.Hostile() && err != nil:
		r.Class("normalize-ok-path-rejected") // acceptable for C13, never observed on the pinned tree
	}
	return true
}

// TestNormalizeRandom feeds many more random strings to the validator alone (no bucket, cheap).
func TestNormalizeRandom(t *testing.T) {
	r := evid.R()
	r.Check(t, r.Scale(40000, 1400000), 2, func(t *rapid.T) {
		p := pathgen.GenHostilePath(12).Draw(t, "path")
		if rapid.IntRange(0, 3).Draw(t, "join") == 0 {
			p = p + "/" + pathgen.GenHostilePath(12).Draw(t, "path2")
		}
		classifyPath(r, p)
		checkNormalize(t, r, p)
	})
}

// TestReplay re-runs the oracle on a saved case (no generator).
func TestReplay(t *testing.T) {
	var c c13Case
	ok, err := evid.ReplayCase(&c)
	if !ok {
		t.Skip("no VERIF_REPLAY")
	}
	if err != nil {
		t.Fatal(err)
	}
	r := evid.R()
	defer r.Begin(t)()
	if c.Kind == "filenode" {
		checkFileNode(t, r, c.Path)
		return
	}
	if c.Kind == "normalpath" {
		checkNormalize(t, r, c.Path)
		return
	}
	fastDir, _ := bucketmodel.FastScratchDir(t)
	s := newRegistry(fastDir, t.TempDir()).lookup(c.Kind)
	if s == nil {
		t.Fatalf("harness: unknown kind %q", c.Kind)
	}
	if !contains(s.ops(), c.Op) {
		t.Fatalf("harness: kind %s has no operation %q", c.Kind, c.Op)
	}
	evalCase(t, r, s, c)
}
