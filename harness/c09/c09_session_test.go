// C09, provider sessions: ONE bufmodulecache provider instance (module-data provider or commit
// provider) stays alive across the steps of a history, as in a long-running process (LSP, one
// controller used for several inputs). Steps are drawn: read one of four keys of the same commit
// (K0 = the true key of the module's digest type, K1 = same type with a wrong pinned digest,
// K2 = the true key of the OTHER digest type - b4 vs b5 of the same content, a legitimate key
// that must be served and verified against its own digest - K3 = other type, wrong digest),
// tamper with a file of a stored entry, evict an entry, store through a fresh store ("another
// process").
//
// Oracle, the same as for fresh reads: a read through the long-lived provider returns an error,
// or a ModuleData / Commit bound to the REQUESTING key whose accessors return an error (only
// acceptable for a wrong-digest key or after tampering), or exactly the stored content verified
// against that key's digest - never content that was verified for another key or before a
// modification. A legitimate key on a never-tampered (or evicted) entry must be a correct hit.
package c09

import (
	"context"
	"encoding/json"
	"fmt"
	"os"
	"path/filepath"
	"strings"
	"testing"
	"time"

	"github.com/bufbuild/buf/private/bufpkg/bufmodule"
	"github.com/bufbuild/buf/private/bufpkg/bufmodule/bufmodulecache"
	"github.com/bufbuild/buf/private/bufpkg/bufmodule/bufmodulestore"
	"github.com/bufbuild/buf/private/pkg/filelock"
	"github.com/bufbuild/buf/private/pkg/storage/storageos"
	"github.com/bufbuild/buf/private/pkg/thread"
	"github.com/bufbuild/bufverif/internal/evid"
	"github.com/bufbuild/bufverif/internal/faultx"
	"pgregory.net/rapid"
)

type sessStep struct {
	Op   string `json:"op"`  // read | tamper | evict | store
	Key  int    `json:"key"` // 0..3 (read); key&2 selects the digest type for tamper/evict/store
	Draw int    `json:"draw"`
}

type sessCase struct {
	Kind      string            `json:"kind"` // module | commit
	Module    faultx.ModuleSpec `json:"module"`
	Tar       bool              `json:"tar"`
	DepsFirst bool              `json:"deps_first"`
	CreateSec int64             `json:"create_sec"`
	WrongHex  string            `json:"wrong_hex"`
	Steps     []sessStep        `json:"steps"`
}

func (c sessCase) canon() string { b, _ := json.Marshal(c); return string(b) }

func genSessCase(t *rapid.T, kind string) sessCase {
	c := sessCase{
		Kind:      kind,
		Module:    faultx.GenModule(t, 1, 4),
		Tar:       rapid.Bool().Draw(t, "tar"),
		DepsFirst: rapid.Bool().Draw(t, "depsfirst"),
		CreateSec: int64(rapid.IntRange(1, 2_000_000_000).Draw(t, "sec")),
	}
	c.WrongHex = strings.SplitN(faultx.RefManifestDigest(map[string][]byte{"w": faultx.Content(uint32(rapid.IntRange(0, 1<<30).Draw(t, "wrong")), 8)}), ":", 2)[1]
	n := rapid.IntRange(2, 9).Draw(t, "nsteps")
	for i := 0; i < n; i++ {
		s := sessStep{
			Op:   rapid.SampledFrom([]string{"read", "read", "read", "read", "tamper", "tamper", "evict", "store"}).Draw(t, "op"),
			Key:  rapid.SampledFrom([]int{0, 0, 0, 1, 2, 2, 3}).Draw(t, "key"),
			Draw: rapid.IntRange(0, 1<<20).Draw(t, "draw"),
		}
		if i == 0 {
			s.Op = "read"
		}
		c.Steps = append(c.Steps, s)
	}
	return c
}

// sessKeys builds, per key index, the reference the read is judged against.
type sessKey struct {
	ref   *refData   // module sessions
	cref  *commitRef // commit sessions
	legit bool
	typ   int // 0 = the module's digest type, 1 = the other one
}

func otherType(dt string) string {
	if dt == "b4" {
		return "b5"
	}
	return "b4"
}

func buildSessKeys(ctx context.Context, c sessCase) ([]sessKey, []faultx.ModuleSpec, error) {
	specs := []faultx.ModuleSpec{c.Module, c.Module.WithDigestType(otherType(c.Module.DigestType))}
	var keys []sessKey
	for i := 0; i < 4; i++ {
		spec := specs[i/2]
		legit := i%2 == 0
		digest := spec.RefDigest()
		if !legit {
			digest = digest[:strings.IndexByte(digest, ':')+1] + c.WrongHex
		}
		k := sessKey{legit: legit, typ: i / 2}
		if c.Kind == "module" {
			ref, err := newRef(ctx, spec)
			if err != nil {
				return nil, nil, err
			}
			key, err := faultx.NewKey(spec.Name, spec.Commit, digest)
			if err != nil {
				return nil, nil, err
			}
			ref.key, ref.digest, ref.depsFirst = key, digest, c.DepsFirst
			k.ref = ref
		} else {
			cc := commitCase{Name: spec.Name, Commit: spec.Commit, Digest: digest, CreateSec: c.CreateSec}
			cref, err := newCommitRef(cc)
			if err != nil {
				return nil, nil, err
			}
			k.cref = cref
		}
		keys = append(keys, k)
	}
	return keys, specs, nil
}

// registry stand-ins: answer for the requested key's digest type with the true content, bound to
// the requesting key (as the BSR provider does).
type sessModuleDelegate struct {
	specs []faultx.ModuleSpec
}

func (d sessModuleDelegate) GetModuleDatasForModuleKeys(ctx context.Context, keys []bufmodule.ModuleKey) ([]bufmodule.ModuleData, error) {
	var out []bufmodule.ModuleData
	for _, k := range keys {
		digest, err := k.Digest()
		if err != nil {
			return nil, err
		}
		spec := d.specs[0]
		if (digest.Type() == bufmodule.DigestTypeB4) != (spec.DigestType == "b4") {
			spec = d.specs[1]
		}
		data, err := spec.ModuleDataForKey(ctx, k)
		if err != nil {
			return nil, err
		}
		out = append(out, data)
	}
	return out, nil
}

type sessCommitDelegate struct {
	specs []faultx.ModuleSpec
	ct    time.Time
}

func (d sessCommitDelegate) commitFor(dt bufmodule.DigestType) (bufmodule.Commit, error) {
	spec := d.specs[0]
	if (dt == bufmodule.DigestTypeB4) != (spec.DigestType == "b4") {
		spec = d.specs[1]
	}
	key, err := spec.Key()
	if err != nil {
		return nil, err
	}
	ct := d.ct
	return bufmodule.NewCommit(key, func() (time.Time, error) { return ct, nil }), nil
}

func (d sessCommitDelegate) GetCommitsForModuleKeys(_ context.Context, keys []bufmodule.ModuleKey) ([]bufmodule.Commit, error) {
	var out []bufmodule.Commit
	for _, k := range keys {
		digest, err := k.Digest()
		if err != nil {
			return nil, err
		}
		cm, err := d.commitFor(digest.Type())
		if err != nil {
			return nil, err
		}
		out = append(out, cm)
	}
	return out, nil
}

func (d sessCommitDelegate) GetCommitsForCommitKeys(_ context.Context, keys []bufmodule.CommitKey) ([]bufmodule.Commit, error) {
	var out []bufmodule.Commit
	for _, k := range keys {
		cm, err := d.commitFor(k.DigestType())
		if err != nil {
			return nil, err
		}
		out = append(out, cm)
	}
	return out, nil
}

// entryFiles lists the files of the stored entry of one digest type, relative to dir.
func sessEntryFiles(dir string, c sessCase, spec faultx.ModuleSpec) ([]string, error) {
	snap, err := faultx.SnapshotDir(dir)
	if err != nil {
		return nil, err
	}
	var prefix string
	if c.Kind == "module" {
		prefix = entryRoot(spec)
	} else {
		cc := commitCase{Name: spec.Name, Commit: spec.Commit, Digest: spec.RefDigest()}
		prefix = strings.TrimSuffix(cc.filePath(), ".json")
	}
	var out []string
	for _, p := range faultx.SortedKeys(snap) {
		if strings.HasPrefix(p, prefix+"/") || p == prefix+".tar" || p == prefix+".json" {
			out = append(out, p)
		}
	}
	return out, nil
}

func runSession(ctx context.Context, c sessCase) (*violation, error) {
	r := evid.R()
	keys, specs, err := buildSessKeys(ctx, c)
	if err != nil {
		return nil, err
	}
	dir, err := os.MkdirTemp("", "c09sess")
	if err != nil {
		return nil, err
	}
	defer os.RemoveAll(dir)
	bucket, err := storageos.NewProvider().NewReadWriteBucket(dir)
	if err != nil {
		return nil, err
	}
	thread.SetParallelism(1)
	// the long-lived provider
	var moduleProvider bufmodule.ModuleDataProvider
	var commitProvider bufmodule.CommitProvider
	ct := time.Unix(c.CreateSec, 0).UTC()
	if c.Kind == "module" {
		store := bufmodulestore.NewModuleDataStore(discardLogger, bucket, filelock.NewNopLocker(), storeOptions(c.Tar)...)
		moduleProvider = bufmodulecache.NewModuleDataProvider(discardLogger, sessModuleDelegate{specs}, store)
	} else {
		commitProvider = bufmodulecache.NewCommitProvider(discardLogger, sessCommitDelegate{specs, ct}, bufmodulestore.NewCommitStore(discardLogger, bucket))
	}
	tampered := [2]bool{}
	var trace []string
	fail := func(key, msg string) (*violation, error) {
		return &violation{key, msg + "; one provider instance, history: " + strings.Join(trace, "; ")}, nil
	}
	for _, s := range c.Steps {
		k := keys[s.Key%4]
		typ := k.typ
		switch s.Op {
		case "read":
			label := fmt.Sprintf("read(K%d %s)", s.Key%4, map[bool]string{true: "legit", false: "wrong-digest"}[k.legit])
			var outcome, detail string
			if c.Kind == "module" {
				datas, perr := moduleProvider.GetModuleDatasForModuleKeys(ctx, []bufmodule.ModuleKey{k.ref.key})
				switch {
				case perr != nil:
					outcome, detail = "provider-error", firstLine(perr.Error())
				case len(datas) != 1:
					outcome, detail = outHitWrong, fmt.Sprintf("%d module datas for one key", len(datas))
				default:
					outcome, detail = inspect(ctx, k.ref, datas[0], tampered[typ])
				}
			} else {
				outcome, detail = sessReadCommit(ctx, commitProvider, k, s.Draw%2 == 1, tampered[typ], ct)
			}
			r.Eval()
			r.Class("session-" + c.Kind + "-read:" + map[bool]string{true: "legit", false: "wrong-digest"}[k.legit] + "/" + outcome)
			trace = append(trace, label+" -> "+outcome)
			switch outcome {
			case outHitWrong:
				return fail(map[string]string{"module": "cache-served-wrong-content", "commit": "commit-served-wrong-content"}[c.Kind], label+": "+detail)
			case cWrongDig:
				return fail("commit-served-with-wrong-digest", label+": "+detail)
			case cNil, "panic":
				return fail("commit-store-nil-commit-as-hit", label+": "+detail)
			case outHitOK:
				if !k.legit {
					return fail("cache-served-wrong-content", label+": a key with a wrong pinned digest was served content without any error")
				}
			default: // provider error or accessor error
				if k.legit && !tampered[typ] {
					return fail("session-legit-key-not-served", label+": a legitimate key on an entry that was never tampered with is not served: "+outcome+" "+detail)
				}
			}
		case "tamper":
			files, err := sessEntryFiles(dir, c, specs[typ])
			if err != nil {
				return nil, err
			}
			if len(files) == 0 {
				trace = append(trace, "tamper(nothing stored)")
				continue
			}
			p := files[s.Draw%len(files)]
			full := filepath.Join(dir, filepath.FromSlash(p))
			data, err := os.ReadFile(full)
			if err != nil {
				return nil, err
			}
			op := []string{"flip", "truncate", "delete", "append", "rename"}[(s.Draw/7)%5]
			if len(data) == 0 && (op == "flip" || op == "truncate") {
				op = "append"
			}
			switch op {
			case "flip":
				data[(s.Draw/35)%len(data)] ^= byte(s.Draw%255) + 1
				err = os.WriteFile(full, data, 0o644)
			case "truncate":
				err = os.Truncate(full, int64((s.Draw/35)%len(data)))
			case "delete":
				err = os.Remove(full)
			case "append":
				err = os.WriteFile(full, append(data, "// x\n"...), 0o644)
			case "rename":
				err = os.Rename(full, full+".moved.proto")
			}
			if err != nil {
				return nil, err
			}
			tampered[typ] = true
			trace = append(trace, fmt.Sprintf("tamper(%s %s)", op, p))
			r.Class("session-" + c.Kind + "-step:tamper")
		case "evict":
			files, err := sessEntryFiles(dir, c, specs[typ])
			if err != nil {
				return nil, err
			}
			for _, p := range files {
				if err := os.Remove(filepath.Join(dir, filepath.FromSlash(p))); err != nil {
					return nil, err
				}
			}
			if c.Kind == "module" {
				_ = os.RemoveAll(filepath.Join(dir, filepath.FromSlash(entryRoot(specs[typ]))))
			}
			tampered[typ] = false
			trace = append(trace, fmt.Sprintf("evict(type %d)", typ))
			r.Class("session-" + c.Kind + "-step:evict")
		case "store":
			// another process stores the legitimate data of that type through its own store
			b2, err := storageos.NewProvider().NewReadWriteBucket(dir)
			if err != nil {
				return nil, err
			}
			legit := keys[typ*2]
			var perr error
			if c.Kind == "module" {
				perr = bufmodulestore.NewModuleDataStore(discardLogger, b2, filelock.NewNopLocker(), storeOptions(c.Tar)...).PutModuleDatas(ctx, []bufmodule.ModuleData{legit.ref.data})
			} else {
				perr = bufmodulestore.NewCommitStore(discardLogger, b2).PutCommits(ctx, []bufmodule.Commit{legit.cref.commit})
			}
			if perr != nil && !tampered[typ] {
				return nil, fmt.Errorf("healthy store by another process failed: %w", perr)
			}
			trace = append(trace, fmt.Sprintf("store(type %d)", typ))
			r.Class("session-" + c.Kind + "-step:store")
		}
	}
	return nil, nil
}

func sessReadCommit(ctx context.Context, p bufmodule.CommitProvider, k sessKey, byCommitKey, tampered bool, ct time.Time) (outcome, detail string) {
	defer func() {
		if r := recover(); r != nil {
			outcome, detail = "panic", fmt.Sprint(r)
		}
	}()
	var commits []bufmodule.Commit
	var err error
	pinned := k.cref.c.Digest
	if byCommitKey && k.legit {
		commits, err = p.GetCommitsForCommitKeys(ctx, []bufmodule.CommitKey{k.cref.commitKey})
		pinned = ""
	} else {
		commits, err = p.GetCommitsForModuleKeys(ctx, []bufmodule.ModuleKey{k.cref.key})
	}
	if err != nil {
		return "provider-error", firstLine(err.Error())
	}
	if len(commits) != 1 {
		return cWrong, fmt.Sprintf("%d commits for one key", len(commits))
	}
	// exact content is only demanded for a legitimate key on an untampered entry
	return inspectCommit(k.cref, commits[0], pinned, k.legit && !tampered)
}

var sessionCount int

func TestProviderSessions(t *testing.T) {
	r := evid.R()
	ctx := context.Background()
	for i, kind := range []string{"module", "commit"} {
		t.Run(kind, func(t *testing.T) {
			r.Check(t, r.Scale(320, 9000), 6+i, func(t *rapid.T) {
				c := genSessCase(t, kind)
				v, err := runSession(ctx, c)
				if err != nil {
					t.Fatalf("harness: %v (case %s)", err, c.canon())
				}
				sessionCount++
				r.Class("session:" + kind)
				r.NonTrivial("session|" + c.canon())
				if v != nil {
					r.Fail(t, v.key, v.msg, c)
				}
			})
		})
	}
	r.Extra("provider_sessions", sessionCount)
}

func replaySession(t *testing.T) {
	var c sessCase
	ok, err := evid.ReplayCase(&c)
	if !ok {
		t.Skip("no VERIF_REPLAY")
	}
	if err != nil {
		t.Fatal(err)
	}
	r := evid.R()
	defer r.Begin(t)()
	v, err := runSession(context.Background(), c)
	if err != nil {
		t.Fatalf("harness: %v", err)
	}
	if v != nil {
		r.Fail(t, v.key, v.msg, c)
	}
}
